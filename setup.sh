#!/bin/sh
# Builds the framework from files on disk only (offline).
set -e
export GOFLAGS=-mod=mod GOPROXY=off GOSUMDB=off GOTOOLCHAIN=local CGO_ENABLED=0
cd "$(dirname "$0")"
mkdir -p .build evidence
(cd harness && go build -tags verif -o ../.build/vharness.setup . && ../.build/vharness.setup -stream astfacts -out ../lean/Generated/LockFacts.lean && rm -f ../.build/vharness.setup)
(cd lean && lake build)
echo setup-ok
