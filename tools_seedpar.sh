#!/bin/sh
# tools_seedpar.sh <seed id> <prop> [<prop>...]: run checks against a seeded change WITHOUT touching /repo:
# a scratch worktree of /repo's HEAD gets the patch, the checks build the harness against it (VERIF_REPO).
# Evidence written by these runs is discarded (EVIDENCE dir redirected).
id="$1"; shift
w=$(mktemp -d /tmp/seedrun.XXXXXX); rmdir "$w"
git -C /repo worktree add -q --detach "$w" HEAD || exit 2
( cd "$w" && git apply "/verif/seeded/$id/patch.diff" ) || { echo "$id: PATCH DOES NOT APPLY"; git -C /repo worktree remove --force "$w"; exit 2; }
for p in "$@"; do
  out=$(VERIF_REPO="$w" VERIF_EVIDENCE_DIR="$w/.evid" VERIF_REPLAY_DIR="$w/.replays" /verif/check "$p" --tier "${TIER:-quick}" 2>&1 | grep -v "^KNOWN-FINDING")
  echo "== $id vs $p: $(echo "$out" | grep -c '^VIOLATION') violation line(s)"; echo "$out" | tail -3 | cut -c1-260
  for r in $(echo "$out" | sed -n 's/^VIOLATION .*replay=\([^ ]*\).*/\1/p' | head -8); do jq -r '"   what: " + ((.what // .kind // "?") | tostring | .[0:400])' "$r" 2>/dev/null; done
done
git -C /repo worktree remove --force "$w"
# the checks regenerated lean/Generated from the scratch tree: put the facts of /repo HEAD back
git -C /verif checkout -q -- lean/Generated
