#!/bin/sh
# tools_flowseeds.sh: for every seeded patch (applied to a scratch worktree, never to /repo) regenerate the flow facts and
# print the seeds for which one of the predicates of lean/Lemmas/FlowCheck.lean no longer evaluates to true
export GOFLAGS=-mod=mod GOPROXY=off GOSUMDB=off GOTOOLCHAIN=local
(cd /verif/harness && go build -tags verif -o /tmp/vh_test .) || exit 2
cd /verif/lean
for d in /verif/seeded/*/; do
  id=$(basename $d)
  w=/tmp/flowseed_w; rm -rf $w; git -C /repo worktree add -q --detach $w HEAD || exit 2
  (cd $w && git apply $d/patch.diff) || { echo "$id: no apply"; git -C /repo worktree remove --force $w; continue; }
  /tmp/vh_test -stream astfacts -out /tmp/fs.lean -repo $w >/dev/null 2>&1
  git -C /repo worktree remove --force $w
  python3 - <<PY
import re
s=open('/tmp/fs.lean.flow').read()
s=s.replace('namespace Generated','namespace Gen2\nopen Generated').replace('end Generated','end Gen2')
s=re.sub(r'/-- one call.*?deriving Repr, DecidableEq\n','',s,flags=re.S)
open('/tmp/fs_eval.lean','w').write('import Lemmas.FlowCheck\n'+s+'''
open Flow Gen2
#eval (backupBeforeMutation flowFacts methodParams, mutatorsUseResolvedNames flowFacts methodParams, mutatorsMutate flowFacts, noOtherBaseMutation flowFacts, backupRemovalsConfined flowFacts, prefixedBeforeDelegation "PrefixFS" flowFacts methodParams, prefixedBeforeDelegation "VolumeFS" flowFacts methodParams, checkedBeforeDelegation flowFacts methodParams, renameChecksAncestors flowFacts, backupHelpersWriteBackupOnly flowFacts, restoreHelpersWriteBaseOnly flowFacts, cleanupUsesRemoveOnly flowFacts, copyFileOwnerBeforeMode flowFacts)
''')
PY
  r=$(lake env lean /tmp/fs_eval.lean 2>&1 | tr -d '\n ')
  case "$r" in "(true,true,true,true,true,true,true,true,true,true,true,true,true)") ;; *) echo "$id: $r";; esac
done
