#!/bin/sh
# tools_seedtest.sh <patch.diff> <prop> [<prop>...]: apply a seeded change to /repo, run the suite and the checks, undo.
patch="$1"; shift
export GOFLAGS=-mod=mod GOPROXY=off GOSUMDB=off GOTOOLCHAIN=local
cd /repo || exit 2
git apply "$patch" || { echo "patch does not apply"; exit 2; }
echo "--- suite with the change:"; go test -vet=off -count=1 ./... 2>&1 | tail -2
cd /verif
for p in "$@"; do
  echo "--- check $p (quick)"; ./check "$p" --tier quick 2>&1 | grep -v "^KNOWN-FINDING" | tail -4
done
git -C /repo checkout -- . ; git -C /repo status --short | head -3
