#!/usr/bin/env python3
"""debug helper: print disagreements of a harness result with the first differing field"""
import json, sys
r = json.load(open(sys.argv[1]))
lim = int(sys.argv[2]) if len(sys.argv) > 2 else 10
print("disagreements:", r["n_disagreements"], "violations:", len(r.get("violations") or []), "known:", r.get("known_hits"))
for k, d in enumerate((r.get("disagreements") or [])[:lim]):
    a, b = d["impl"].split("\t"), d["model"].split("\t")
    i = 0
    while i < min(len(a), len(b)) and a[i] == b[i]:
        i += 1
    print("---", d["tag"])
    print("   in:", d["input"][:200])
    print("   first diff at field", i, "impl:", [x[:60] for x in a[max(0,i-2):i+5]], "model:", [x[:60] for x in b[max(0,i-2):i+5]], "lens", len(a), len(b))
    if d.get("case") and "--save" in sys.argv:
        json.dump(d["case"], open("/tmp/dis%d.json" % k, "w"))
for v in (r.get("violations") or [])[:lim]:
    print("VIOL", v["property"], v["what"][:400])
