#!/bin/sh
# tools_seedverify.sh <seed dir with patch.diff and zz_seed_demo_test.go>: confirm a seeded change in a fresh scratch worktree
d="$1"
export GOFLAGS=-mod=mod GOPROXY=off GOSUMDB=off GOTOOLCHAIN=local
w=$(mktemp -d /tmp/seedcheck.XXXXXX); rmdir "$w"
git -C /repo worktree add -q "$w" HEAD || exit 2
cd "$w" || exit 2
cp "$d/zz_seed_demo_test.go" .
without=$(go test -vet=off -count=1 -run 'TestSeedDemo$' . 2>&1 | tail -1 | cut -c1-40)
git apply "$d/patch.diff" || { echo "PATCH DOES NOT APPLY"; cd /; git -C /repo worktree remove --force "$w"; exit 2; }
with=$(go test -vet=off -count=1 -run 'TestSeedDemo$' . 2>&1 | tail -1 | cut -c1-40)
suite=$(go test -vet=off -count=1 -skip 'TestSeedDemo$' ./... 2>&1 | grep -c '^ok')
echo "$(basename $d): demo without change=[$without] with change=[$with] suite_ok_pkgs=$suite"
cd /; git -C /repo worktree remove --force "$w"
