#!/usr/bin/env python3
"""Writes MANIFEST.json from checkcfg.py + manifest_text.py (kept in one place so the manifest stays valid)."""
import json, os, sys
ROOT = os.path.dirname(os.path.abspath(__file__))
sys.path.insert(0, ROOT)
from checkcfg import PROPS
from manifest_text import TEXT, NOT_APPLICABLE, HOOK_COMMITS

checks = []
for pid in sorted(PROPS):
    t = dict(TEXT[pid])
    if any(m == pid + "A" for m in PROPS[pid].get("extra_modules", [])):
        # the regenerated tie: data-flow facts extracted from /repo's Go AST on every run (Generated/FlowFacts.lean)
        t["note"] += (" Regenerated tie (Props/%sA.lean): the data-flow skeleton of every layer method (calls on the receiver, on base/backup, assignments, in source order) is"
                      " extracted from /repo's Go AST on every run and the `source_…` theorems are decided on it by the kernel (decide +kernel): a slip in how names flow through"
                      " a method (an unresolved or unprefixed name handed to the base, a skipped backup or hidden check) breaks the build whether or not a generated input exhibits it." % pid)
        t["technique"] += "; plus kernel-decided theorems over data-flow facts regenerated from the Go AST on every run"
    checks.append({
        "property_id": pid,
        "quick_cmd": "./check %s --tier quick" % pid,
        "thorough_cmd": "./check %s --tier thorough" % pid,
        "evidence_file": "/verif/evidence/%s.json" % pid,
        "replay_cmd_template": "./check --replay {path}",
        "engine": "lean4-proof+correspondence",
        "level_claimed": {"category": "proof", "text": t["level"], "design_ref": t["design_ref"]},
        "level_note": t["note"],
        "technique": t["technique"],
    })
m = {
    "version": 1,
    "setup_cmd": "./setup.sh",
    "hooks": {
        "guard": "verif",
        "enable": "go build -tags verif (the harness is an external module with replace github.com/jxsl13/backupfs => /repo; no hook code is needed inside /repo)",
        "baseline_off_cmd": "cd /repo && GOFLAGS=-mod=mod GOPROXY=off GOSUMDB=off GOTOOLCHAIN=local go test -vet=off -count=1 ./...",
        "source_commits": HOOK_COMMITS,
        "add_only": True,
    },
    "engines": [
        {"name": "lean4-proof+correspondence", "path": "/verif/lean + /verif/harness",
         "serves_properties": sorted(PROPS),
         "kind_free_text": "Lean 4 theorems about a hand-written executable model; model tied to /repo by differential correspondence streams (Go harness calling the real code in-process, line protocol to the compiled Lean driver) and by facts regenerated from the Go AST on every run (C10: lock discipline; C02/C04/C05/C06/C08/C11/C14/C15/C16/C18: data-flow skeleton of the layer methods)"},
    ],
    "checks": checks,
    "not_applicable": [{"property_id": k, "reason": v} for k, v in sorted(NOT_APPLICABLE.items()) if k not in PROPS],
    "notes": "See DESIGN.md. KNOWN_FINDINGS.json lists genuine defects (open) and repaired ones (fixed: <commit>).",
}
json.dump(m, open(os.path.join(ROOT, "MANIFEST.json"), "w"), indent=1)
print("MANIFEST.json written: %d checks, %d not_applicable" % (len(checks), len(m["not_applicable"])))
