#!/usr/bin/env python3
"""Writes MANIFEST.json from checkcfg.py + manifest_text.py (kept in one place so the manifest stays valid)."""
import json, os, sys
ROOT = os.path.dirname(os.path.abspath(__file__))
sys.path.insert(0, ROOT)
from checkcfg import PROPS
from manifest_text import TEXT, NOT_APPLICABLE, HOOK_COMMITS

checks = []
for pid in sorted(PROPS):
    t = TEXT[pid]
    checks.append({
        "property_id": pid,
        "quick_cmd": "./check %s --tier quick" % pid,
        "thorough_cmd": "./check %s --tier thorough" % pid,
        "evidence_file": "/verif/evidence/%s.json" % pid,
        "replay_cmd_template": "./check --replay {path}",
        "engine": "lean4-proof+correspondence",
        "level_claimed": {"category": "proof", "text": t["level"], "design_ref": t["design_ref"]},
        "level_note": t["note"],
        "technique": t["technique"],
    })
m = {
    "version": 1,
    "setup_cmd": "./setup.sh",
    "hooks": {
        "guard": "verif",
        "enable": "go build -tags verif (the harness is an external module with replace github.com/jxsl13/backupfs => /repo; no hook code is needed inside /repo)",
        "baseline_off_cmd": "cd /repo && GOFLAGS=-mod=mod GOPROXY=off GOSUMDB=off GOTOOLCHAIN=local go test -vet=off -count=1 ./...",
        "source_commits": HOOK_COMMITS,
        "add_only": True,
    },
    "engines": [
        {"name": "lean4-proof+correspondence", "path": "/verif/lean + /verif/harness",
         "serves_properties": sorted(PROPS),
         "kind_free_text": "Lean 4 theorems about a hand-written executable model; model tied to /repo by differential correspondence streams (Go harness calling the real code in-process, line protocol to the compiled Lean driver) and, for C10, facts regenerated from the Go AST on every run"},
    ],
    "checks": checks,
    "not_applicable": [{"property_id": k, "reason": v} for k, v in sorted(NOT_APPLICABLE.items()) if k not in PROPS],
    "notes": "See DESIGN.md. KNOWN_FINDINGS.json lists genuine defects (open) and repaired ones (fixed: <commit>).",
}
json.dump(m, open(os.path.join(ROOT, "MANIFEST.json"), "w"), indent=1)
print("MANIFEST.json written: %d checks, %d not_applicable" % (len(checks), len(m["not_applicable"])))
