package main

import (
	"encoding/json"
	"os"
	"path/filepath"
	"sort"
)

// The corpus runs first in every stream: committed minimised past failures (/verif/corpus/*.json)
// and the witnesses of the known findings (/verif/KNOWN_FINDINGS.json).  Every file holds one
// JSON object with a "kind" field naming the stream's case type (and, in KNOWN_FINDINGS.json, a
// "witness" object of that shape).

// verifRoot: where KNOWN_FINDINGS.json and corpus/ live: the directory of the ./check that started
// this harness (VERIF_ROOT; a snapshot run reads its own snapshot), /verif by default
var verifRoot = func() string {
	if r := os.Getenv("VERIF_ROOT"); r != "" {
		return r
	}
	return "/verif"
}()

func remarshal(in any, out any) error {
	b, err := json.Marshal(in)
	if err != nil {
		return err
	}
	return json.Unmarshal(b, out)
}

func corpusCases(kind string) []map[string]any {
	var out []map[string]any
	add := func(m map[string]any) {
		if m != nil && m["kind"] == kind {
			out = append(out, m)
		}
	}
	if b, err := os.ReadFile(filepath.Join(verifRoot, "KNOWN_FINDINGS.json")); err == nil {
		var kf struct {
			Findings []struct {
				ID        string           `json:"id"`
				Witness   map[string]any   `json:"witness"`
				Witnesses []map[string]any `json:"witnesses"`
			} `json:"findings"`
		}
		if json.Unmarshal(b, &kf) == nil {
			for _, f := range kf.Findings {
				add(f.Witness)
				for _, w := range f.Witnesses {
					add(w)
				}
			}
		}
	}
	files, _ := filepath.Glob(filepath.Join(verifRoot, "corpus", "*.json"))
	sort.Strings(files)
	for _, fn := range files {
		b, err := os.ReadFile(fn)
		if err != nil {
			continue
		}
		var m map[string]any
		if json.Unmarshal(b, &m) == nil {
			// a corpus file may be a replay file written by ./check: the case sits under "case"
			if c, ok := m["case"].(map[string]any); ok && m["kind"] == "oracle" {
				add(c)
			} else {
				add(m)
			}
		}
	}
	return out
}
