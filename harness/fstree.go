package main

import (
	"fmt"
	"io/fs"
	"os"
	"path/filepath"
	"sort"
	"strconv"
	"strings"
	"syscall"
	"time"
)

// Entry is one node of an initial tree (paths are absolute inside the case, "/" = case root).
type Entry struct {
	Path  string `json:"path"`
	Kind  string `json:"kind"` // dir | file | link
	Mode  uint32 `json:"mode"` // 12 permission bits
	UID   int    `json:"uid"`
	GID   int    `json:"gid"`
	MTime int64  `json:"mtime"` // ns, an "old" instant
	Data  string `json:"data"`  // file content or link target
}

// modelRoot is where a case lives inside the model's disk and below the real temp dir: deep
// enough that a few ".." too many land in empty directories on both sides.
const modelRoot = "/w/w/w"

const oldBase = int64(1_000_000_000) * 1_000_000_000 // 2001-09-09, in ns

func unixMode(m fs.FileMode) uint32 {
	v := uint32(m.Perm())
	if m&fs.ModeSetuid != 0 {
		v |= 0o4000
	}
	if m&fs.ModeSetgid != 0 {
		v |= 0o2000
	}
	if m&fs.ModeSticky != 0 {
		v |= 0o1000
	}
	return v
}

func goMode(v uint32) fs.FileMode {
	m := fs.FileMode(v & 0o777)
	if v&0o4000 != 0 {
		m |= fs.ModeSetuid
	}
	if v&0o2000 != 0 {
		m |= fs.ModeSetgid
	}
	if v&0o1000 != 0 {
		m |= fs.ModeSticky
	}
	return m
}

// RealCase is a case directory on the real filesystem.
type RealCase struct {
	Top   string // what MkdirTemp created (removed at Close)
	Tmp   string // the directory that stands for the model's disk root: Top + padding
	Root  string // Tmp + modelRoot
	Start time.Time
}

func newRealCase() (*RealCase, error) {
	tmp, err := os.MkdirTemp("", "vh-")
	if err != nil {
		return nil, err
	}
	// resolve symlinks in the temp dir itself so that prefix stripping is exact
	if rp, err := filepath.EvalSymlinks(tmp); err == nil {
		tmp = rp
	}
	top := tmp
	// padding: a link that climbs above the model's disk root (where ".." stays at the root) ends up
	// in these empty directories on the real side, never in the shared /tmp
	tmp = top + "/p/p/p/p/p/p"
	if err := os.MkdirAll(tmp, 0o755); err != nil {
		return nil, err
	}
	rc := &RealCase{Top: top, Tmp: tmp, Root: tmp + modelRoot}
	if err := os.MkdirAll(rc.Root, 0o755); err != nil {
		return nil, err
	}
	// independent of the process umask
	for _, d := range []string{tmp, tmp + "/w", tmp + "/w/w", tmp + "/w/w/w"} {
		_ = os.Chmod(d, 0o755)
	}
	return rc, nil
}

func (rc *RealCase) Close() {
	// make everything removable regardless of the modes the case set
	_ = filepath.Walk(rc.Top, func(p string, info fs.FileInfo, err error) error {
		if err == nil && info.IsDir() {
			_ = os.Chmod(p, 0o755)
		}
		return nil
	})
	_ = os.RemoveAll(rc.Top)
}

// Build creates the entries below sub (e.g. "/base"), parents first, then applies metadata
// deepest first (so directory mtimes stick), and records the start instant.
func (rc *RealCase) Build(sub string, entries []Entry) error {
	es := append([]Entry(nil), entries...)
	sort.SliceStable(es, func(i, j int) bool {
		return strings.Count(es[i].Path, "/") < strings.Count(es[j].Path, "/") || (strings.Count(es[i].Path, "/") == strings.Count(es[j].Path, "/") && es[i].Path < es[j].Path)
	})
	root := rc.Root + sub
	if err := os.MkdirAll(root, 0o755); err != nil {
		return err
	}
	_ = os.Chmod(root, 0o755)
	for _, e := range es {
		p := root + e.Path
		switch e.Kind {
		case "dir":
			if err := os.Mkdir(p, 0o755); err != nil {
				return err
			}
		case "file":
			if err := os.WriteFile(p, []byte(e.Data), 0o644); err != nil {
				return err
			}
		case "link":
			target := e.Data
			if strings.HasPrefix(target, "/") {
				target = filepath.Join(root, target) // what PrefixFS stores for an absolute target
			}
			if err := os.Symlink(target, p); err != nil {
				return err
			}
		}
	}
	for i := len(es) - 1; i >= 0; i-- {
		e := es[i]
		p := root + e.Path
		if err := os.Lchown(p, e.UID, e.GID); err != nil {
			return err
		}
		if e.Kind != "link" {
			if err := os.Chmod(p, goMode(e.Mode)); err != nil {
				return err
			}
			t := time.Unix(0, e.MTime)
			if err := os.Chtimes(p, t, t); err != nil {
				return err
			}
		}
	}
	return nil
}

func (rc *RealCase) MarkStart() {
	// file timestamps come from the kernel's coarse clock, which may lag the wall clock
	rc.Start = time.Now().Add(-2 * time.Second)
}

func (rc *RealCase) timeStr(t time.Time) string {
	if !t.Before(rc.Start) {
		return "fresh"
	}
	return strconv.FormatInt(t.UnixNano(), 10)
}

func ownerOf(fi fs.FileInfo) (int, int) {
	if st, ok := fi.Sys().(*syscall.Stat_t); ok {
		return int(st.Uid), int(st.Gid)
	}
	return -1, -1
}

// Dump returns the canonical fields of every entry below sub (sub itself excluded), sorted by
// path, paths relative to sub: path kind mode uid gid mtime data (7 fields per entry).
func (rc *RealCase) Dump(sub string) []string { return rc.DumpAbs(rc.Root + sub) }

// DumpAbs is Dump for any directory of the real filesystem.
func (rc *RealCase) DumpAbs(root string) []string {
	var paths []string
	_ = filepath.Walk(root, func(p string, info fs.FileInfo, err error) error {
		if err != nil {
			return nil
		}
		if p != root {
			paths = append(paths, p)
		}
		return nil
	})
	sort.Strings(paths)
	var out []string
	for _, p := range paths {
		fi, err := os.Lstat(p)
		if err != nil {
			continue
		}
		rel := strings.TrimPrefix(p, root)
		uid, gid := ownerOf(fi)
		switch {
		case fi.Mode()&fs.ModeSymlink != 0:
			t, _ := os.Readlink(p)
			// absolute targets are shown relative to the dumped view (what its PrefixFS reports)
			switch {
			case t == root:
				t = "/"
			case strings.HasPrefix(t, root+"/"):
				t = strings.TrimPrefix(t, root)
			default:
				t = rc.stripTmp(t)
			}
			out = append(out, rel, "link", "511", itoa(uid), itoa(gid), "-", t)
		case fi.IsDir():
			out = append(out, rel, "dir", fmt.Sprint(unixMode(fi.Mode())), itoa(uid), itoa(gid), rc.timeStr(fi.ModTime()), "")
		default:
			b, _ := os.ReadFile(p)
			out = append(out, rel, "file", fmt.Sprint(unixMode(fi.Mode())), itoa(uid), itoa(gid), rc.timeStr(fi.ModTime()), string(b))
		}
	}
	return out
}

// stripTmp maps an on-disk absolute path below the temp dir to the model's disk.
func (rc *RealCase) stripTmp(t string) string {
	if t == rc.Tmp {
		return "/"
	}
	if strings.HasPrefix(t, rc.Tmp+"/") {
		return strings.TrimPrefix(t, rc.Tmp)
	}
	return t
}

// initLines renders the model-side construction of the same tree below sub.
func initLines(sub string, entries []Entry) []string {
	var ls []string
	for _, e := range entries {
		data := e.Data
		if e.Kind == "link" && strings.HasPrefix(data, "/") {
			data = filepath.Join(modelRoot+sub, data)
		}
		ls = append(ls, line("os.init", e.Kind, modelRoot+sub+e.Path, fmt.Sprint(e.Mode), itoa(e.UID), itoa(e.GID), strconv.FormatInt(e.MTime, 10), data))
	}
	return ls
}

// infoFields renders a FileInfo like Driver.showInfo.
func (rc *RealCase) infoFields(fi fs.FileInfo) []string {
	kind := "file"
	size := fi.Size()
	perm := unixMode(fi.Mode())
	switch {
	case fi.Mode()&fs.ModeSymlink != 0:
		kind, size, perm = "link", 0, 0o777
	case fi.IsDir():
		kind, size = "dir", 0
	}
	if kind == "link" {
		size = 0
	}
	uid, gid := ownerOf(fi)
	mt := rc.timeStr(fi.ModTime())
	if kind == "link" {
		mt = "-"
	}
	return []string{fi.Name(), kind, fmt.Sprint(perm), fmt.Sprint(size), itoa(uid), itoa(gid), mt}
}
