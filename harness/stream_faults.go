package main

import (
	"encoding/json"
	"fmt"
	"sort"
	"strings"
	"sync"
	"syscall"
)

// C08 / C09: fault sweeps.  For each generated history the fault-free run yields the list of
// primitive calls; every backup-side call issued during an operation (C08) or every call on either
// side issued during Rollback (C09) becomes one faulted re-run (single faults exhaustively up to a
// per-case cap), plus sampled double faults.  Each re-run is compared call for call (as a multiset
// per step) with the model under the same fault plan, and judged by the property's oracle.

func init() { streams["faults"] = streamFaults }

type faultPoint struct {
	spec FaultSpec
	step int
}

// collectFaultPoints runs the case without faults and lists candidate fault points.
func collectFaultPoints(c *HistCase, prop string) ([]faultPoint, error) {
	e, err := newHistEnv(c)
	if err != nil {
		return nil, err
	}
	defer e.rc.Close()
	var pts []faultPoint
	seen := map[string]int{}
	for i, st := range c.Steps {
		e.baseSpy.Reset()
		e.backupSpy.Reset()
		switch {
		case st.Op != nil:
			execOp(e.rc, e.bfs, *st.Op)
		case st.Do == "rollback":
			_ = e.bfs.Rollback()
		}
		recs := append(e.baseSpy.Snapshot(), e.backupSpy.Snapshot()...)
		sort.Slice(recs, func(a, b int) bool { return recs[a].Order < recs[b].Order })
		for _, r := range recs {
			args, skip := e.canonArgs(r)
			if skip {
				continue
			}
			k := sigKey(r.FS, r.Method, args)
			occ := seen[k]
			seen[k] = occ + 1
			isRollback := st.Do == "rollback"
			want := (prop == "C08" && !isRollback && r.FS == "backup") || (prop == "C09" && isRollback)
			if want {
				pts = append(pts, faultPoint{FaultSpec{FS: r.FS, Method: r.Method, Args: args, Occ: occ}, i})
			}
		}
	}
	return pts, nil
}

func streamFaults(cfg *Config, res *Result) error {
	r := newRNG(cfg.Seed, "faults"+cfg.Prop)
	nCases, perCase := 40, 25
	if cfg.Tier == "thorough" {
		nCases, perCase = 400, 60
	}
	if cfg.N > 0 {
		nCases = cfg.N
	}
	umask := []int{0o022, 0, 0o027}[int(cfg.Seed)%3]
	syscall.Umask(umask)
	res.Rule = fmt.Sprintf("seeded random histories (1-4 operations + Rollback, trees as in the hist stream); the fault-free run lists every primitive call; for %s each candidate call (C08: every backup-side call issued while an operation runs, incl. Write/Close on the copy's handle; C09: every call on either filesystem issued during Rollback, incl. Read/Write/Close/Stat on handles) becomes one re-run with that call failing with EIO, up to %d per history, plus sampled double faults, plus (oracle only, outside the model) EPERM/ENOSPC faults and write-back failures (Close fails and the written data is lost); every re-run is compared with the model under the same fault plan (all primitive calls per step as a multiset, results, trees, tracked map) and judged by the property's oracle; non-trivial = the fault fired; distinct by (history, fault plan)", cfg.Prop, perCase)
	b := &Batch{}
	for _, raw := range corpusCases("hist") {
		var hc HistCase
		if remarshal(raw, &hc) == nil && len(hc.Faults) > 0 {
			out, err := runHistCase(&hc, cfg.Prop)
			if err != nil {
				return err
			}
			mergeCase(res, b, out, cfg.Prop)
			res.count("corpus.cases")
		}
	}
	type job struct{ c *HistCase }
	var jobs []job
	g := HistGen{Layering: "disjoint", NSteps: 4, Rollbacks: 1}
	for i := 0; i < nCases; i++ {
		c := genHistCase(r, g, umask)
		if cfg.Prop == "C09" && r.Chance(1, 3) {
			// an entry of another type takes an original's place: Rollback has to make room first
			// (an empty directory replaced by a symlink to another directory, a file replaced by a
			// directory, a directory replaced by a file)
			have := map[string]bool{}
			for _, e := range c.Tree {
				have[e.Path] = true
			}
			if !have["/eq"] && !have["/oq"] && !have["/fq"] {
				c.Tree = append(c.Tree,
					Entry{Path: "/eq", Kind: "dir", Mode: 0o750, UID: 1000, GID: 0, MTime: oldTime(r)},
					Entry{Path: "/oq", Kind: "dir", Mode: 0o755, MTime: oldTime(r)},
					Entry{Path: "/oq/inner", Kind: "file", Mode: 0o644, MTime: oldTime(r), Data: "inner-content"},
					Entry{Path: "/fq", Kind: "file", Mode: 0o640, MTime: oldTime(r), Data: "file-content"})
				var pre []Step
				switch r.Intn(3) {
				case 0:
					pre = []Step{{Op: &Op{"remove", []string{"/eq"}}}, {Op: &Op{"symlink", []string{r.Pick([]string{"/oq", "oq"}), "/eq"}}}}
				case 1:
					pre = []Step{{Op: &Op{"remove", []string{"/fq"}}}, {Op: &Op{"mkdirall", []string{"/fq/sub", "493"}}}}
				default:
					pre = []Step{{Op: &Op{"remove", []string{"/eq"}}}, {Op: &Op{"creat", []string{"/eq", "now-a-file"}}}}
				}
				c.Steps = append(pre, c.Steps...)
			}
		}
		if cfg.Prop == "C08" {
			// deep creations: several missing levels below an existing directory whose copy can fail
			for k := range c.Steps {
				if op := c.Steps[k].Op; op != nil && (op.K == "mkdirall" || op.K == "mkdir") && r.Chance(1, 2) {
					c.Steps[k].Op = &Op{"mkdirall", []string{op.A[0] + "/" + r.Pick(namePool) + "n/" + r.Pick(namePool), op.A[1]}}
				}
			}
		}
		if cfg.Prop == "C08" && r.Chance(1, 2) {
			// every operation is retried once: a failed backup must not leave anything behind that
			// lets the retry through without a copy ("the failure does not corrupt the transaction")
			var steps []Step
			for _, st := range c.Steps {
				steps = append(steps, st)
				if st.Op != nil {
					op := *st.Op
					steps = append(steps, Step{Op: &op})
				}
			}
			c.Steps = steps
		}
		// no second rollback, no read composites
		pts, err := collectFaultPoints(c, cfg.Prop)
		if err != nil {
			return err
		}
		res.Distribution["fault.points"] += len(pts)
		perm := r.Perm(len(pts))
		if len(perm) > perCase {
			perm = perm[:perCase]
		}
		for _, pi := range perm {
			fc := *c
			fc.Faults = []FaultSpec{pts[pi].spec}
			jobs = append(jobs, job{&fc})
		}
		// permission- and space-type failures (outside the model: oracle only).  Permission errors of
		// chown/lchown/chtimes are ignored by the code on purpose and are not injected.
		if cfg.Prop == "C08" {
			cnt := 0
			for _, pi := range r.Perm(len(pts)) {
				m := pts[pi].spec.Method
				kind := []string{"perm", "nospc"}[cnt%2]
				if kind == "perm" && (m == "chown" || m == "lchown" || m == "chtimes" || m == "lstat") {
					// ignored on purpose by the code (ignoreChownError; the Lstat inside the chown
					// helper is wrapped into the same class)
					kind = "nospc"
				}
				fc := *c
				fc.Faults = []FaultSpec{pts[pi].spec}
				fc.FaultErr = kind
				jobs = append(jobs, job{&fc})
				if cnt++; cnt >= 8 {
					break
				}
			}
		}
		// Close of a handle fails and the data written through it is lost (outside the model: oracle only)
		wb := 0
		for _, pi := range r.Perm(len(pts)) {
			if pts[pi].spec.Method != "close" {
				continue
			}
			fc := *c
			fc.Faults = []FaultSpec{pts[pi].spec}
			fc.FaultErr = "writeback"
			jobs = append(jobs, job{&fc})
			if wb++; wb >= 4 {
				break
			}
		}
		// a few double faults
		for k := 0; k < 2 && len(pts) >= 2; k++ {
			a, bb := r.Intn(len(pts)), r.Intn(len(pts))
			if a != bb {
				fc := *c
				fc.Faults = []FaultSpec{pts[a].spec, pts[bb].spec}
				jobs = append(jobs, job{&fc})
			}
		}
		if i < 2 && len(pts) > 0 {
			fc := *c
			fc.Faults = []FaultSpec{pts[0].spec}
			res.sample(fc)
		}
	}
	outs := make([]*caseOut, len(jobs))
	errs := make([]error, len(jobs))
	var wg sync.WaitGroup
	sem := make(chan struct{}, 12)
	for i := range jobs {
		wg.Add(1)
		sem <- struct{}{}
		go func(i int) {
			defer wg.Done()
			defer func() { <-sem }()
			outs[i], errs[i] = runHistCase(jobs[i].c, cfg.Prop)
		}(i)
	}
	wg.Wait()
	distinct := map[string]struct{}{}
	byID := map[string]*HistCase{}
	for i := range jobs {
		if errs[i] != nil {
			return errs[i]
		}
		mergeCase(res, b, outs[i], cfg.Prop)
		res.Evaluations++
		fired := false
		for k := range outs[i].counts {
			if strings.HasPrefix(k, "fault.fired") {
				fired = true
			}
		}
		if fired {
			js, _ := json.Marshal(jobs[i].c)
			distinct[string(js)] = struct{}{}
		}
		byID[fmt.Sprintf("hist#%p", jobs[i].c)] = jobs[i].c
	}
	ds, err := b.Compare(cfg.Driver)
	if err != nil {
		return err
	}
	seenID := map[string]bool{}
	var first []Disagreement
	for _, d := range ds {
		id := strings.SplitN(d.Tag, " ", 2)[0]
		if !seenID[id] {
			seenID[id] = true
			d.Case = byID[id]
			first = append(first, d)
		}
	}
	res.addDisagreements(first)
	res.DistinctNontrivial = len(distinct)
	res.Distribution["driver.lines"] = b.Len()
	return nil
}
