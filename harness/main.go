package main

import (
	"flag"
	"fmt"
	"os"
	"strconv"
	"time"
)

type Config struct {
	Stream string
	Seed   int64
	Tier   string
	Driver string
	Out    string
	Replay string
	Prop   string
	N      int // case budget override (0 = tier default)
	Repo   string
}

var streams = map[string]func(*Config, *Result) error{}

func main() {
	cfg := &Config{}
	flag.StringVar(&cfg.Stream, "stream", "", "stream to run")
	flag.StringVar(&cfg.Tier, "tier", "quick", "quick|thorough")
	flag.StringVar(&cfg.Driver, "driver", "/verif/lean/.lake/build/bin/driver", "lean model driver")
	flag.StringVar(&cfg.Out, "out", "", "result json")
	flag.StringVar(&cfg.Replay, "replay", "", "replay file")
	flag.StringVar(&cfg.Prop, "prop", "", "property id (selects oracles/verdicts)")
	flag.IntVar(&cfg.N, "n", 0, "case budget override")
	flag.StringVar(&cfg.Repo, "repo", "/repo", "source tree the AST facts are extracted from")
	seed := flag.String("seed", os.Getenv("VERIF_SEED"), "seed")
	flag.Parse()
	if *seed != "" {
		if v, err := strconv.ParseInt(*seed, 10, 64); err == nil {
			cfg.Seed = v
		}
	}
	f, ok := streams[cfg.Stream]
	if !ok {
		fmt.Fprintf(os.Stderr, "unknown stream %q; known:", cfg.Stream)
		for k := range streams {
			fmt.Fprintf(os.Stderr, " %s", k)
		}
		fmt.Fprintln(os.Stderr)
		os.Exit(2)
	}
	res := newResult(cfg.Stream, cfg.Seed, cfg.Tier)
	t0 := time.Now()
	err := f(cfg, res)
	res.WallS = time.Since(t0).Seconds()
	if err != nil {
		res.Notes = append(res.Notes, "stream error: "+err.Error())
		fmt.Fprintln(os.Stderr, "stream error:", err)
	}
	if cfg.Out != "" {
		if werr := res.write(cfg.Out); werr != nil {
			fmt.Fprintln(os.Stderr, werr)
			os.Exit(2)
		}
	}
	fmt.Printf("stream=%s evaluations=%d disagreements=%d violations=%d known=%v wall=%.1fs\n",
		cfg.Stream, res.Evaluations, res.NDisagreements, len(res.Violations), res.KnownHits, res.WallS)
	if err != nil {
		os.Exit(2)
	}
}
