package main

// splitmix64: every random choice of a run derives from one state seeded by VERIF_SEED.
type RNG struct{ s uint64 }

func newRNG(seed int64, stream string) *RNG {
	r := &RNG{s: uint64(seed)*0x9E3779B97F4A7C15 + 0x1234567}
	for _, c := range []byte(stream) {
		r.s = r.s*31 + uint64(c)
	}
	r.next()
	return r
}

func (r *RNG) next() uint64 {
	r.s += 0x9E3779B97F4A7C15
	z := r.s
	z = (z ^ (z >> 30)) * 0xBF58476D1CE4E5B9
	z = (z ^ (z >> 27)) * 0x94D049BB133111EB
	return z ^ (z >> 31)
}

func (r *RNG) Intn(n int) int {
	if n <= 0 {
		return 0
	}
	return int(r.next() % uint64(n))
}

func (r *RNG) Bool() bool { return r.next()&1 == 1 }

// Chance returns true with probability num/den.
func (r *RNG) Chance(num, den int) bool { return r.Intn(den) < num }

func (r *RNG) Pick(xs []string) string { return xs[r.Intn(len(xs))] }

func (r *RNG) fork() *RNG { return &RNG{s: r.next()} }

func (r *RNG) Perm(n int) []int {
	p := make([]int, n)
	for i := range p {
		p[i] = i
	}
	for i := n - 1; i > 0; i-- {
		j := r.Intn(i + 1)
		p[i], p[j] = p[j], p[i]
	}
	return p
}
