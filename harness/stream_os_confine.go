package main

import (
	"fmt"
	"os"
	"path"
	"path/filepath"
	"strings"
	"syscall"
)

// C05 at OS level ("confine" mode of the osmodel stream): the initial tree holds no symlink, so
// every link on the disk was created through the PrefixFS under test.  After every operation
//   (1) everything outside the prefix directory (sentinel files in the two directories above it,
//       those directories themselves) must be exactly as before, and
//   (2) no symlink below the prefix may have a physical effective target outside the prefix
//       (resolved the way the kernel does: from the directory the link really sits in, following
//       links in intermediate components, ".." physical, missing tail lexical).
// PrefixFS confines lexically; the kernel resolves physically.  The three routes by which the two
// differ are the recorded finding K-prefix-lexical-links: a link created at a name whose parent
// chain holds a symlink, a relative target that walks through a symlink before "..", and a relative
// link (or a directory holding one) moved to another depth by Rename.  An escape by any other route
// is a violation.

const confineKnown = "K-prefix-lexical-links"

type linkRec struct {
	lexDir  string // where PrefixFS believes the link sits (Root + Clean(dir(name)))
	physDir string // where it really sits
	target  string
}

type confineState struct {
	rc       *RealCase
	outside  []string           // snapshot of everything outside the prefix
	created  map[uint64]linkRec // by inode
	reported bool
	sticky   string // once an escape of a known class exists, what follows is its consequence
	cause    string
}

func inoOf(p string) (uint64, bool) {
	fi, err := os.Lstat(p)
	if err != nil {
		return 0, false
	}
	if st, ok := fi.Sys().(*syscall.Stat_t); ok {
		return st.Ino, true
	}
	return 0, false
}

// outsideDump: the dump of Tmp+"/w" (paths relative to it) without the prefix directory Tmp+"/w/w/w"
// itself (an operation may legitimately change its mode, owner and times) and what lies below it.
func (cs *confineState) outsideDump() []string {
	all := cs.rc.DumpAbs(cs.rc.Tmp + "/w")
	var out []string
	for i := 0; i+6 < len(all); i += 7 {
		p := all[i]
		if p == "/w/w" || strings.HasPrefix(p, "/w/w/") {
			continue
		}
		out = append(out, all[i:i+7]...)
	}
	return out
}

// physResolve resolves target from directory dir (an absolute physical path without symlinks) the
// way the kernel would, but stops being strict at the first missing component (the rest is appended
// lexically).  throughLink reports whether an intermediate component of the walk was a symlink.
func physResolve(dir, target string) (res string, throughLink bool) {
	return physResolveN(dir, target, 40)
}

func physResolveN(dir, target string, budget int) (res string, throughLink bool) {
	cur := dir
	if strings.HasPrefix(target, "/") {
		cur = "/"
	}
	comps := strings.Split(target, "/")
	for i := 0; i < len(comps); i++ {
		c := comps[i]
		switch c {
		case "", ".":
			continue
		case "..":
			cur = filepath.Dir(cur)
			continue
		}
		next := filepath.Join(cur, c)
		fi, err := os.Lstat(next)
		if err != nil {
			// missing: the tail is lexical
			rest := append([]string{next}, comps[i+1:]...)
			return filepath.Clean(strings.Join(rest, "/")), throughLink
		}
		last := true
		for _, r := range comps[i+1:] {
			if r != "" && r != "." {
				last = false
			}
		}
		if fi.Mode()&os.ModeSymlink != 0 && !last {
			if budget <= 0 {
				return next, true
			}
			t, _ := os.Readlink(next)
			rest := strings.Join(comps[i+1:], "/")
			sub, _ := physResolveN(cur, t+"/"+rest, budget-1)
			return sub, true
		}
		cur = next
	}
	return cur, throughLink
}

func withinFS(root, p string) bool {
	return p == root || strings.HasPrefix(p, root+"/")
}

// noteSymlink records where a link that was just created through the PrefixFS really sits.
func (cs *confineState) noteSymlink(op Op) {
	name := op.A[1]
	lex := filepath.Join(cs.rc.Root, filepath.Clean("/"+name))
	lexDir := filepath.Dir(lex)
	physDir, err := filepath.EvalSymlinks(lexDir)
	if err != nil {
		physDir = lexDir
	}
	if ino, ok := inoOf(filepath.Join(physDir, filepath.Base(lex))); ok {
		cs.created[ino] = linkRec{lexDir: lexDir, physDir: physDir, target: op.A[0]}
	}
}

// check evaluates the two oracles after op; returns what failed ("" = fine) and the finding class.
func (cs *confineState) check() (what string, known string) {
	// (2) escaping links first: they explain later outside changes
	var escapes []string
	_ = filepath.Walk(cs.rc.Root, func(p string, info os.FileInfo, err error) error {
		if err != nil || info.Mode()&os.ModeSymlink == 0 {
			return nil
		}
		t, err := os.Readlink(p)
		if err != nil {
			return nil
		}
		eff, through := physResolve(filepath.Dir(p), t)
		if withinFS(cs.rc.Root, eff) {
			return nil
		}
		cause := ""
		ino, _ := inoOf(p)
		rec, ok := cs.created[ino]
		switch {
		case !ok:
			cause = ""
		case rec.lexDir != rec.physDir:
			cause = "symlinked-parent"
		case filepath.Dir(p) != rec.physDir:
			cause = "relocated"
		case through:
			cause = "target-through-link"
		}
		escapes = append(escapes, fmt.Sprintf("%s -> %q reaches %s [%s]", cs.rc.stripTmp(p), t, cs.rc.stripTmp(eff), cause))
		if cause != "" && cs.sticky == "" {
			cs.sticky, cs.cause = confineKnown, cause
		}
		if cause == "" && cs.sticky == "" {
			what = "a symlink created through the PrefixFS has an effective target outside the prefix: " + escapes[len(escapes)-1]
		}
		return nil
	})
	if what != "" {
		return what, ""
	}
	now := cs.outsideDump()
	if !dumpEqual(cs.outside, now) {
		w := "the filesystem outside the prefix changed: " + dumpDiff(cs.outside, now)
		cs.outside = now
		return w, cs.sticky
	}
	if len(escapes) > 0 {
		return "escaping link(s): " + strings.Join(escapes, "; "), cs.sticky
	}
	return "", ""
}

// ---- generation -------------------------------------------------------------------------------

// genConfineOps: histories that build symlinked directories at several depths through the PrefixFS
// and then create relative links with ".." below them, rename links and directories across depths,
// and write through whatever links exist; sentinel names ("zs") are drawn as targets.
func genConfineOps(r *RNG, tree []Entry) []Op {
	var dirs, files, all, links []string
	dirs = append(dirs, "/")
	for _, e := range tree {
		all = append(all, e.Path)
		if e.Kind == "dir" {
			dirs = append(dirs, e.Path)
		} else {
			files = append(files, e.Path)
		}
	}
	name := func() string { return r.Pick(namePool) }
	dots := func(n int) string { return strings.Repeat("../", n) }
	var ops []Op
	nops := 8 + r.Intn(6)
	g := &OpGen{Mutating: allMutators, ReadOnly: true, Unclean: true}
	for k := 0; k < nops; k++ {
		switch x := r.Intn(20); {
		case x < 3: // a deeper directory chain
			p := path.Join(r.Pick(dirs), name(), name())
			ops = append(ops, Op{"mkdirall", []string{p, "493"}})
			dirs = append(dirs, path.Dir(p), p)
			all = append(all, path.Dir(p), p)
		case x < 6: // a link to a directory (absolute or relative), at any depth
			d := r.Pick(dirs)
			at := path.Join(r.Pick(dirs), name())
			t := d
			if r.Chance(1, 2) {
				t = relPath(path.Dir(at), d)
			}
			ops = append(ops, Op{"symlink", []string{t, at}})
			links = append(links, at)
			dirs = append(dirs, at) // names below it are used like below a directory
			all = append(all, at)
		case x < 11: // a relative link with "..", possibly too many, possibly below a linked directory
			at := path.Join(r.Pick(dirs), name())
			depth := strings.Count(path.Clean(at), "/") - 1
			n := depth
			switch r.Intn(4) {
			case 0:
				n = depth + 1 + r.Intn(2)
			case 1:
				if depth > 0 {
					n = r.Intn(depth + 1)
				}
			}
			leaf := name()
			if r.Chance(1, 3) {
				leaf = "zs"
			}
			t := dots(n) + leaf
			if len(links) > 0 && r.Chance(1, 4) {
				// walk through a linked directory first
				t = relPath(path.Dir(at), r.Pick(links)) + "/" + dots(1+r.Intn(3)) + leaf
			}
			ops = append(ops, Op{"symlink", []string{t, at}})
			links = append(links, at)
			all = append(all, at)
		case x < 14 && len(all) > 0: // move something (a link, a directory holding links) to another depth
			from := r.Pick(all)
			if len(links) > 0 && r.Chance(1, 2) {
				from = r.Pick(links)
			}
			to := path.Join(r.Pick(dirs), name())
			ops = append(ops, Op{"rename", []string{from, to}})
			all = append(all, to)
			dirs = append(dirs, to)
		case x < 17 && len(links) > 0: // write or create through a link
			l := r.Pick(links)
			switch r.Intn(4) {
			case 0:
				ops = append(ops, Op{"creat", []string{l, "through"}})
			case 1:
				ops = append(ops, Op{"creat", []string{path.Join(l, name()), "below"}})
			case 2:
				ops = append(ops, Op{"mkdirall", []string{path.Join(l, name(), name()), "493"}})
			default:
				ops = append(ops, Op{[]string{"chmod", "removeall", "remove", "read"}[r.Intn(4)], nil})
				o := &ops[len(ops)-1]
				switch o.K {
				case "chmod":
					o.A = []string{l, "384"}
				default:
					o.A = []string{l}
				}
			}
		case x < 18: // names with too many ".." given directly
			ops = append(ops, Op{"creat", []string{path.Join(r.Pick(dirs), name()) + "/" + dots(1+r.Intn(4)) + []string{"zs", name()}[r.Intn(2)], "direct"}})
		default:
			ops = append(ops, g.Gen(r, all))
		}
	}
	// a relative target climbs at most three levels: the case directory lies three levels below the
	// temp directory (the model's disk root), and a link may be relocated to the top of the prefix —
	// anything climbing higher would leave the temp directory on the real side (into the shared
	// /tmp, where earlier cases may have left files) and stay at the root in the model
	var kept []Op
	for _, op := range ops {
		if op.K == "symlink" && strings.Count(op.A[0], "..") > 3 {
			continue
		}
		kept = append(kept, op)
	}
	return kept
}

// confineSentinels: entries outside the prefix, on both sides.
var confineSentinels = []Entry{
	{Path: "/w/zs", Kind: "file", Mode: 0o644, MTime: oldBase + 5, Data: "S1"},
	{Path: "/w/w/zs", Kind: "file", Mode: 0o600, MTime: oldBase + 7, Data: "S2"},
}
