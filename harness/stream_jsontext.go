package main

import (
	"encoding/json"
	"fmt"
	"io/fs"
	"path"
	"sort"
	"strings"
	"syscall"
	"time"

	"github.com/jxsl13/backupfs"
)

// 4.2-f: the JSON TEXT of the persisted tracking state (C12).  lean/Model/JsonText.lean models
// what `encoding/json` writes for `map[string]*fInfo` and what it reads back; here the real
// BackupFS.MarshalJSON / UnmarshalJSON are run on the same maps and texts:
//   * encode: SetMap(random map of fs.FileInfo values) + MarshalJSON  vs  `json.encode` — byte for byte;
//   * decode: that text and mutated variants of it (whitespace, escapes, field order, missing,
//     unknown and duplicate members, nulls, out-of-range and malformed numbers) through
//     UnmarshalJSON into a new instance; what its Map() lets a caller observe of every entry vs
//     `json.decodeb`; a Go error must be `none` in the model;
//   * oracle (C12): MarshalJSON → UnmarshalJSON → the observable fields of every entry are those of
//     the original instance, a nil entry stays nil, no key is lost or invented.

func init() { streams["jsontext"] = streamJSONText }

type jInfo struct {
	name string
	mode fs.FileMode
	ns   int64
	size int64
	uid  uint32
	gid  uint32
}

func (i *jInfo) Name() string       { return i.name }
func (i *jInfo) Size() int64        { return i.size }
func (i *jInfo) Mode() fs.FileMode  { return i.mode }
func (i *jInfo) ModTime() time.Time { return time.Unix(0, i.ns) }
func (i *jInfo) IsDir() bool        { return i.mode.IsDir() }
func (i *jInfo) Sys() any           { return &syscall.Stat_t{Uid: i.uid, Gid: i.gid} }

var jsonKeyAtoms = []string{"a", "b", "/", ".", " ", "\"", "\\", "\n", "\t", "\r", "\b", "\f", "\x01", "\x1f", "\x7f", "<", ">", "&", "'", "\u2028", "\u2029", "\u2027", "é", "Я", "€", "😀", "\U0010FFFF", "\uFFFD", "u", "\\u", "n"}

func randJSONKey(r *RNG) string {
	var b strings.Builder
	for n := r.Intn(6); n > 0; n-- {
		b.WriteString(r.Pick(jsonKeyAtoms))
	}
	return b.String()
}

var int64Edges = []int64{0, 1, -1, 999999999, 1000000000, -1000000001, 1<<31 - 1, 1 << 31, 1<<32 - 1, 1 << 32, 1<<63 - 1, -1 << 63, 1700000000123456789, -1700000000123456789}

func randInt64(r *RNG) int64 {
	if r.Chance(1, 2) {
		return int64Edges[r.Intn(len(int64Edges))]
	}
	return int64(r.next())
}

func randMode(r *RNG) fs.FileMode {
	m := fs.FileMode(r.Intn(512))
	for _, bit := range []fs.FileMode{fs.ModeDir, fs.ModeSymlink, fs.ModeSetuid, fs.ModeSetgid, fs.ModeSticky, fs.ModeNamedPipe, fs.ModeAppend, fs.ModeIrregular} {
		if r.Chance(1, 5) {
			m |= bit
		}
	}
	return m
}

// observable renders what a caller can observe of the tracked map of an instance, sorted by key.
func observable(m map[string]fs.FileInfo) []string {
	keys := make([]string, 0, len(m))
	for k := range m {
		keys = append(keys, k)
	}
	sort.Strings(keys)
	out := []string{"ok"}
	for _, k := range keys {
		fi := m[k]
		if fi == nil {
			out = append(out, k, "nil")
			continue
		}
		uid, gid := int64(-1), int64(-1)
		if st, ok := fi.Sys().(*syscall.Stat_t); ok {
			uid, gid = int64(st.Uid), int64(st.Gid)
		}
		out = append(out, k, "fi", fi.Name(), fmt.Sprint(uint32(fi.Mode())), fmt.Sprint(fi.ModTime().UnixNano()), fmt.Sprint(fi.Size()), fmt.Sprint(uid), fmt.Sprint(gid))
	}
	return out
}

// mutateJSON returns variants of a marshalled text that json.Unmarshal treats in ways the model
// covers (and some it must reject).
func mutateJSON(r *RNG, text string) []string {
	var out []string
	// whitespace after structural characters outside strings
	var b strings.Builder
	inStr, esc := false, false
	for _, c := range text {
		b.WriteRune(c)
		if inStr {
			if esc {
				esc = false
			} else if c == '\\' {
				esc = true
			} else if c == '"' {
				inStr = false
			}
			continue
		}
		if c == '"' {
			inStr = true
		} else if strings.ContainsRune("{}[]:,", c) && r.Chance(1, 3) {
			b.WriteString(r.Pick([]string{" ", "\n", "\t", "\r", "  "}))
		}
	}
	out = append(out, " "+b.String()+"\n")
	rep := func(old, new string) {
		if strings.Contains(text, old) {
			out = append(out, strings.Replace(text, old, new, 1+r.Intn(2)))
		}
	}
	rep("/", "\\/")
	rep("é", r.Pick([]string{"\\u00e9", "\\u00E9"}))
	rep("😀", r.Pick([]string{"\\ud83d\\ude00", "\\uD83D\\uDE00", "\\ud83d", "\\ude00\\ud83d"}))
	rep("\\u003c", "<")
	rep("\\u2028", "\u2028")
	rep("\"mode\":", "\"zzz\":[1,{\"a\":null,\"b\":\"}\"}],\"mode\":")
	rep("\"size\":", "\"size\":7,\"size\":")
	rep("\"uid\":", "\"gid\":5,\"uid\":")
	rep(",\"gid\":", ",\"gid\":null,\"x\":")
	rep("\"mod_time\":", r.Pick([]string{"\"mod_time\":1.5e3,\"y\":", "\"mod_time\":-0,\"y\":", "\"mod_time\":01,\"y\":", "\"mod_time\":9223372036854775808,\"y\":", "\"mod_time\":\"5\",\"y\":"}))
	rep("\"mode\":", r.Pick([]string{"\"mode\":4294967296,\"y\":", "\"mode\":-1,\"y\":", "\"mode\":-0,\"y\":", "\"mode\":4294967295,\"y\":"}))
	rep(":null", r.Pick([]string{":{}", ": null ", ":nul", ":[]", ":0"}))
	rep("},\"", "},\n\"dup\":null,\"dup\":{\"name\":\"d/e\",\"uid\":-1,\"gid\":4294967297},\"")
	if r.Chance(1, 4) {
		out = append(out, r.Pick([]string{"null", "{}", "", "[]", "{\"a\":null,}", "{\"a\":null}x", "{\"a\" null}", "{\"\\ud800\":null}", "{\"\\x\":null}", "{\"a\":{\"name\":\"\\u12\"}}", "{\"a\":{\"name\":null,\"mode\":null}}"}))
	}
	return out
}

func streamJSONText(cfg *Config, res *Result) error {
	r := newRNG(cfg.Seed, "jsontext")
	n := 1500
	if cfg.Tier == "thorough" {
		n = 40000
	}
	if cfg.N > 0 {
		n = cfg.N
	}
	res.Rule = "seeded random (maps of 0-6 entries: keys over an alphabet with quotes, backslashes, control characters, DEL, <>&, U+2028/9, BMP and non-BMP characters, the replacement character; nil entries; FileInfo values with every type and special bit, edge and random int64 times and sizes, uint32 owners) through the real SetMap+MarshalJSON vs the model's encoder byte for byte; the text and up to 14 mutated variants (whitespace, escapes, surrogates, field order, unknown/duplicate/missing members, nulls, malformed and out-of-range numbers) through the real UnmarshalJSON into a new instance vs the model's decoder; non-trivial = a key or name needs escaping; distinct by text"
	b := &Batch{}
	distinct := map[string]struct{}{}
	osfs := backupfs.NewOSFS()
	for i := 0; i < n; i++ {
		m := map[string]fs.FileInfo{}
		var enc []string
		for k := r.Intn(7); k > 0; k-- {
			key := randJSONKey(r)
			if r.Chance(1, 5) {
				m[key] = nil
				continue
			}
			m[key] = &jInfo{name: path.Base(key), mode: randMode(r), ns: randInt64(r), size: randInt64(r), uid: uint32(r.next()), gid: uint32(r.next() >> r.Intn(33))}
		}
		keys := make([]string, 0, len(m))
		for k := range m {
			keys = append(keys, k)
		}
		// the model gets the entries in a random order: the text must not depend on it
		sort.Strings(keys)
		for _, idx := range r.Perm(len(keys)) {
			k := keys[idx]
			if m[k] == nil {
				enc = append(enc, k, "nil")
			} else {
				fi := m[k].(*jInfo)
				enc = append(enc, k, "fi", k, fmt.Sprint(uint32(fi.mode)), fmt.Sprint(fi.ns), fmt.Sprint(fi.size), fmt.Sprint(fi.uid), fmt.Sprint(fi.gid))
			}
		}
		bfs := backupfs.NewBackupFS(osfs, osfs)
		bfs.SetMap(m)
		raw, err := bfs.MarshalJSON()
		if err != nil {
			res.violate(Violation{Property: "C12", What: fmt.Sprintf("MarshalJSON failed on %q: %v", keys, err), Case: map[string]any{"kind": "jsontext", "encode": enc}})
			continue
		}
		text := string(raw)
		tag := fmt.Sprintf("json%d", i)
		b.Add(tag+" encode", line(append([]string{"json.encode"}, enc...)...), line(text))
		res.Evaluations++
		res.count(fmt.Sprintf("map.entries.%d", len(m)))
		if strings.ContainsAny(text, "\\") {
			distinct[text] = struct{}{}
		}
		for j, t := range append([]string{text}, mutateJSON(r, text)...) {
			nb := backupfs.NewBackupFS(osfs, osfs)
			uerr := nb.UnmarshalJSON([]byte(t))
			var obs []string
			if uerr != nil {
				obs = []string{"none"}
				res.count("decode.go-error")
			} else {
				obs = observable(nb.Map())
				res.count("decode.ok")
			}
			b.Add(fmt.Sprintf("%s decode%d", tag, j), line("json.decodeb", t), line(obs...))
			res.Evaluations++
			if j == 0 {
				// C12 oracle on the implementation: persist → reload keeps everything observable
				want := observable(m)
				if uerr != nil {
					res.violate(Violation{Property: "C12", What: fmt.Sprintf("UnmarshalJSON rejects what MarshalJSON wrote: %v: %.300s", uerr, t), Case: map[string]any{"kind": "jsontext", "encode": enc}})
				} else if strings.Join(want, "\x00") != strings.Join(obs, "\x00") {
					res.violate(Violation{Property: "C12", What: fmt.Sprintf("tracked state changed by MarshalJSON/UnmarshalJSON: %q -> %q", want, obs), Case: map[string]any{"kind": "jsontext", "encode": enc}})
				}
			}
		}
		if i < 3 {
			res.sample(map[string]any{"text": text})
		}
	}
	ds, err := b.Compare(cfg.Driver)
	if err != nil {
		return err
	}
	res.addDisagreements(ds)
	res.DistinctNontrivial = len(distinct)
	return nil
}

var _ = json.Valid
