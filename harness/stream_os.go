package main

import (
	"fmt"
	"strings"
	"syscall"

	"github.com/jxsl13/backupfs"
)

// 4.2-a: the OS model (lean/Model/OS.lean, through the PrefixFS model) against the real OS
// (through the real PrefixFS): random operation sequences, compared after every operation:
// result class, returned data, and the full canonical tree.

func init() { streams["osmodel"] = streamOS }

type OSCase struct {
	Kind  string  `json:"kind"` // "oscase"
	Umask int     `json:"umask"`
	Tree  []Entry `json:"tree"`
	Ops   []Op    `json:"ops"`
}

func existingPaths(dump []string) []string {
	var ps []string
	for i := 0; i+6 < len(dump); i += 7 {
		ps = append(ps, dump[i])
	}
	return ps
}

func runOSCase(c OSCase, b *Batch, res *Result) error {
	rc, err := newRealCase()
	if err != nil {
		return err
	}
	defer rc.Close()
	if err := rc.Build("", c.Tree); err != nil {
		return fmt.Errorf("build: %w", err)
	}
	rc.MarkStart()
	real, err := backupfs.NewPrefixFS(backupfs.NewOSFS(), rc.Root)
	if err != nil {
		return err
	}
	stack := "prefix=" + modelRoot
	tag := fmt.Sprintf("oscase#%d", res.Evaluations)
	b.Add(tag, line("os.begin", itoa(c.Umask)), "ok")
	for _, d := range []string{"/w", "/w/w", "/w/w/w"} {
		b.Add(tag, line("os.init", "dir", d, "493", "0", "0", "fresh", ""), "ok")
	}
	for _, l := range initLines("", c.Tree) {
		b.Add(tag, l, "ok")
	}
	b.Add(tag+" init-tree", line("os.tree", modelRoot), line(rc.Dump("")...))
	for i, op := range c.Ops {
		out := execOp(rc, real, op)
		cmd, f := modelOpFields(op)
		b.Add(fmt.Sprintf("%s op%d %v", tag, i, op), line(append([]string{"os." + cmd, stack}, f...)...), line(out...))
		b.Add(fmt.Sprintf("%s tree-after-op%d %v", tag, i, op), line("os.tree", modelRoot), line(rc.Dump("")...))
		res.count("op." + op.K + "." + out[0])
		if out[0] != "ok" && len(out) > 1 {
			res.count("err." + out[1])
		}
	}
	return nil
}

func streamOS(cfg *Config, res *Result) error {
	r := newRNG(cfg.Seed, "osmodel")
	n := 300
	if cfg.Tier == "thorough" {
		n = 6000
	}
	if cfg.N > 0 {
		n = cfg.N
	}
	umask := []int{0o022, 0, 0o027}[int(cfg.Seed)%3]
	syscall.Umask(umask)
	res.Rule = "seeded random (initial tree, operation sequence) cases on a real temp directory through PrefixFS(OSFS) and on the Lean OS model through the PrefixFS model; trees: up to 10 entries, files incl. empty and >64KiB, dirs, absolute/relative/dangling/looping links, all 12 mode bits, foreign owners, old mtimes with ns; 12 operations per case over all FS methods incl. open-flag combinations, unclean spellings; compared after every operation: result, returned data and the whole tree; non-trivial = the operation changed the tree or failed; distinct by (tree, ops)"
	b := &Batch{}
	g := &OpGen{Mutating: allMutators, ReadOnly: true, Unclean: true}
	distinct := map[string]struct{}{}
	for i := 0; i < n; i++ {
		c := OSCase{Kind: "oscase", Umask: umask, Tree: genTree(r, GenOpts{})}
		// ops are generated against a shadow list of paths (initial entries + names used so far)
		var paths []string
		for _, e := range c.Tree {
			paths = append(paths, e.Path)
		}
		for k := 0; k < 12; k++ {
			op := g.Gen(r, paths)
			c.Ops = append(c.Ops, op)
			if op.K == "rename" || op.K == "symlink" {
				paths = append(paths, op.A[1])
			} else if op.K != "remove" && op.K != "removeall" {
				paths = append(paths, op.A[0])
			}
		}
		if err := runOSCase(c, b, res); err != nil {
			return err
		}
		res.Evaluations++
		distinct[fmt.Sprint(c)] = struct{}{}
		if i < 2 {
			res.sample(c)
		}
	}
	ds, err := b.Compare(cfg.Driver)
	if err != nil {
		return err
	}
	// report each disagreeing case once, at its first differing line
	seen := map[string]bool{}
	var first []Disagreement
	for _, d := range ds {
		id := strings.SplitN(d.Tag, " ", 2)[0]
		if !seen[id] {
			seen[id] = true
			first = append(first, d)
		}
	}
	res.addDisagreements(first)
	res.DistinctNontrivial = len(distinct)
	res.Distribution["driver.lines"] = b.Len()
	return nil
}
