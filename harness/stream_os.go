package main

import (
	"fmt"
	"os"
	"path"
	"path/filepath"
	"strconv"
	"strings"
	"syscall"
	"time"

	"github.com/jxsl13/backupfs"
)

// 4.2-a: the OS model (lean/Model/OS.lean, through the PrefixFS model) against the real OS
// (through the real PrefixFS): random operation sequences, compared after every operation:
// result class, returned data, and the full canonical tree.

func init() {
	streams["osmodel"] = streamOS
	replayKinds["oscase"] = func(cfg *Config, c map[string]any, b *Batch, res *Result) error {
		var oc OSCase
		if err := remarshal(c, &oc); err != nil {
			return err
		}
		syscall.Umask(oc.Umask)
		osProp = cfg.Prop
		return runOSCase(oc, b, res)
	}
}

type OSCase struct {
	Kind    string   `json:"kind"` // "oscase"
	Umask   int      `json:"umask"`
	Tree    []Entry  `json:"tree"`
	Ops     []Op     `json:"ops"`
	Hidden  []string `json:"hidden,omitempty"`  // non-nil: the operations go through HiddenFS(Hidden...)
	Confine bool     `json:"confine,omitempty"` // C05 at OS level: sentinels outside the prefix, escape oracles
}

func existingPaths(dump []string) []string {
	var ps []string
	for i := 0; i+6 < len(dump); i += 7 {
		ps = append(ps, dump[i])
	}
	return ps
}

// osProp: the property the osmodel stream runs under (selects the C06 observe twin)
var osProp string

func runOSCase(c OSCase, b *Batch, res *Result) error {
	rc, err := newRealCase()
	if err != nil {
		return err
	}
	defer rc.Close()
	if err := rc.Build("", c.Tree); err != nil {
		return fmt.Errorf("build: %w", err)
	}
	var cs *confineState
	if c.Confine {
		for _, e := range confineSentinels {
			p := rc.Tmp + e.Path
			if err := os.WriteFile(p, []byte(e.Data), 0o644); err != nil {
				return err
			}
			_ = os.Chmod(p, goMode(e.Mode))
			t := time.Unix(0, e.MTime)
			_ = os.Chtimes(p, t, t)
		}
	}
	rc.MarkStart()
	pfs, err := backupfs.NewPrefixFS(backupfs.NewOSFS(), rc.Root)
	if err != nil {
		return err
	}
	var real backupfs.FS = pfs
	stack := "prefix=" + modelRoot
	var hiddenSnap []string
	if c.Hidden != nil {
		h, err := backupfs.NewHiddenFS(pfs, c.Hidden...)
		if err != nil {
			return err
		}
		real = h
		stack = "hidden=" + strings.Join(c.Hidden, ",") + "|" + stack
		hiddenSnap = hiddenPart(rc.Dump(""), c.Hidden)
	}
	// C15: a twin of the tree driven through the underlying filesystem alone; as long as every
	// operation so far named only visible paths, results and trees must be identical
	var twinRC *RealCase
	var twinFS backupfs.FS
	if c.Hidden != nil {
		if t, terr := newRealCase(); terr == nil {
			if t.Build("", c.Tree) == nil {
				t.MarkStart()
				twinRC = t
				twinFS, _ = backupfs.NewPrefixFS(backupfs.NewOSFS(), t.Root)
				defer t.Close()
			} else {
				t.Close()
			}
		}
	}
	// C06 "cannot OBSERVE": a second twin, through its own HiddenFS, over a tree that differs from the first one
	// only AT OR BELOW the hidden paths (other content, other modes, further entries; every second case
	// also other presence: hidden entries removed).  Every operation must return the same on both
	// (Props.C06.hidden_content_unobservable_…); the known exceptions: an operation whose route runs
	// through a symlink (K-hidden-symlink-route), and — with different presence — Remove of the directory
	// that directly contains a hidden path (K-hidden-existence-observable: ENOTEMPTY iff the entry exists)
	var obsRC *RealCase
	var obsFS backupfs.FS
	obsPresence := false
	if c.Hidden != nil && osProp == "C06" {
		if t, terr := newRealCase(); terr == nil {
			if t.Build("", c.Tree) == nil {
				obsPresence = len(c.Tree)%2 == 1
				for _, hp := range c.Hidden {
					hp = path.Clean("/" + hp)
					if hp == "/" {
						continue
					}
					rp := t.Root + hp
					fi, err := os.Lstat(rp)
					if err != nil {
						continue
					}
					// only what is LEXICALLY at or below the hidden path may differ: a hidden path whose own route
					// runs through a symlink names a visible entry too
					if real, err := filepath.EvalSymlinks(path.Dir(rp)); err != nil || real != path.Dir(rp) {
						continue
					}
					// … and the visible parent keeps its timestamps
					var pt time.Time
					if pfi, err := os.Lstat(path.Dir(rp)); err == nil {
						pt = pfi.ModTime()
					}
					switch {
					case obsPresence:
						_ = os.RemoveAll(rp)
					case fi.IsDir():
						_ = os.WriteFile(rp+"/zz-other", []byte("other"), 0o600)
						_ = os.Chmod(rp, 0o700)
					case fi.Mode().IsRegular():
						_ = os.WriteFile(rp, []byte("other-content-of-another-length"), 0o600)
					}
					if !pt.IsZero() {
						_ = os.Chtimes(path.Dir(rp), pt, pt)
					}
				}
				t.MarkStart()
				if p2, err := backupfs.NewPrefixFS(backupfs.NewOSFS(), t.Root); err == nil {
					if h2, err := backupfs.NewHiddenFS(p2, c.Hidden...); err == nil {
						obsRC, obsFS = t, h2
					}
				}
				defer t.Close()
			} else {
				t.Close()
			}
		}
	}
	tag := fmt.Sprintf("oscase#%d", res.Evaluations)
	b.Add(tag, line("os.begin", itoa(c.Umask)), "ok")
	for _, d := range []string{"/w", "/w/w", "/w/w/w"} {
		b.Add(tag, line("os.init", "dir", d, "493", "0", "0", "fresh", ""), "ok")
	}
	for _, l := range initLines("", c.Tree) {
		b.Add(tag, l, "ok")
	}
	treeRoot := modelRoot
	dump := func() []string { return rc.Dump("") }
	if c.Confine {
		for _, e := range confineSentinels {
			b.Add(tag, line("os.init", e.Kind, e.Path, fmt.Sprint(e.Mode), "0", "0", strconv.FormatInt(e.MTime, 10), e.Data), "ok")
		}
		// compare the whole disk from /w on, not only the prefix directory
		treeRoot = "/w"
		dump = func() []string { return rc.DumpAbs(rc.Tmp + "/w") }
		cs = &confineState{rc: rc, created: map[uint64]linkRec{}}
		cs.outside = cs.outsideDump()
	}
	b.Add(tag+" init-tree", line("os.tree", treeRoot), line(dump()...))
	for i, op := range c.Ops {
		route := c.Hidden != nil && opRouteHasLink(rc, op)
		out := execOp(rc, real, op)
		if c.Hidden == nil && !c.Confine && len(out) > 2 && out[0] == "ok" && path.Clean("/"+op.A[0]) == "/" {
			// C14: names reported for the root of a PrefixFS are the separator, never the prefix directory's name
			var got []string
			switch op.K {
			case "stat", "lstat":
				got = []string{out[2]} // ok info <name> …
			case "fstat":
				got = []string{out[1], out[2]} // ok <File.Name()> <FileInfo.Name()> …
			case "read":
				got = []string{out[2]} // ok names|data <File.Name()> …
			}
			for _, n := range got {
				if n != "/" {
					res.violate(Violation{Property: "C14", What: fmt.Sprintf("%v on the root of the PrefixFS reports the name %q, expected the separator (the prefix directory is %q)", op, n, path.Base(rc.Root)), Case: c})
				}
			}
		}
		cmd, f := modelOpFields(op)
		b.Add(fmt.Sprintf("%s op%d %v", tag, i, op), line(append([]string{"os." + cmd, stack}, f...)...), line(out...))
		b.Add(fmt.Sprintf("%s tree-after-op%d %v", tag, i, op), line("os.tree", treeRoot), line(dump()...))
		if cs != nil {
			if op.K == "symlink" && out[0] == "ok" {
				cs.noteSymlink(op)
			}
			if what, known := cs.check(); what != "" {
				res.violate(Violation{Property: "C05", What: fmt.Sprintf("after op %d %v: %s", i, op, what), Known: known, Case: c})
				res.count("confine.fail." + known + "." + cs.cause)
				if known == "" {
					break // the case is reported once
				}
				cs.reported = true
			}
		}
		res.count("op." + op.K + "." + out[0])
		if out[0] != "ok" && len(out) > 1 {
			res.count("err." + out[1])
		}
		if twinRC != nil {
			if !opVisible(c.Hidden, op) || route {
				twinRC = nil // from here on the two trees may legitimately differ
			} else {
				tout := execOp(twinRC, twinFS, op)
				res.count("hidden.twin.compared")
				if op.K == "read" && len(tout) > 2 && tout[0] == "ok" && tout[1] == "names" {
					// the one intended difference: listings omit hidden entries
					dir := path.Clean(op.A[0])
					kept := append([]string(nil), tout[:3]...)
					for _, n := range tout[3:] {
						hid := false
						for _, hp := range c.Hidden {
							if withinGo(path.Clean("/"+hp), path.Join(dir, n)) {
								hid = true
							}
						}
						if !hid {
							kept = append(kept, n)
						}
					}
					tout = kept
				}
				if strings.Join(out, "\x00") != strings.Join(tout, "\x00") {
					res.violate(Violation{Property: "C15", What: fmt.Sprintf("%v names nothing hidden (hidden = %q) but returns %.200q through HiddenFS and %.200q on the underlying filesystem", op, c.Hidden, out, tout), Case: c})
					twinRC = nil
				} else if a, bb := blankDirTimes(rc.Dump("")), blankDirTimes(twinRC.Dump("")); !dumpEqual(a, bb) {
					res.violate(Violation{Property: "C15", What: fmt.Sprintf("after %v (nothing hidden named, hidden = %q) the tree differs from the one driven through the underlying filesystem: %s", op, c.Hidden, dumpDiff(bb, a)), Case: c})
					twinRC = nil
				}
			}
		}
		if obsRC != nil && (route || opRouteHasLink(obsRC, op)) {
			// an operation whose own route runs through a symlink may reach hidden content (K-hidden-symlink-route):
			// whatever it did there, the VISIBLE parts of the two trees may differ from here on
			execOp(obsRC, obsFS, op)
			obsRC = nil
		}
		if obsRC != nil {
			oout := execOp(obsRC, obsFS, op)
			res.count("hidden.observe.compared")
			if strings.Join(out, "\x00") != strings.Join(oout, "\x00") {
				known := ""
				if route || opRouteHasLink(obsRC, op) {
					known = "K-hidden-symlink-route"
				} else if obsPresence && op.K == "remove" {
					d := path.Clean("/" + op.A[0])
					for _, hp := range c.Hidden {
						if path.Dir(path.Clean("/"+hp)) == d {
							known = "K-hidden-existence-observable"
						}
					}
				}
				res.violate(Violation{Property: "C06", Known: known, What: fmt.Sprintf("%v (hidden = %q) returns %.200q, and %.200q on a tree that differs only at or below the hidden paths: hidden content is observable", op, c.Hidden, out, oout), Case: c})
				obsRC = nil // the visible parts may differ from here on
			}
		}
		if c.Hidden != nil {
			// a failure is attributed to the symlink-route finding only when this very operation's
			// path really runs through a symlink (judged on the real tree before the call)
			hiddenSnap = hiddenOracles(&c, op, out, rc.Dump(""), hiddenSnap, route, res)
		}
	}
	return nil
}

func streamOS(cfg *Config, res *Result) error {
	osProp = cfg.Prop
	r := newRNG(cfg.Seed, "osmodel")
	n := 300
	if cfg.Tier == "thorough" {
		n = 6000
	}
	if cfg.N > 0 {
		n = cfg.N
	}
	umask := []int{0o022, 0, 0o027}[int(cfg.Seed)%3]
	syscall.Umask(umask)
	res.Rule = "seeded random (initial tree, operation sequence) cases on a real temp directory through PrefixFS(OSFS) and on the Lean OS model through the PrefixFS model; trees: up to 10 entries, files incl. empty and >64KiB, dirs, absolute/relative/dangling/looping links, all 12 mode bits, foreign owners, old mtimes with ns; 12 operations per case over all FS methods incl. open-flag combinations, unclean spellings; compared after every operation: result, returned data and the whole tree; non-trivial = the operation changed the tree or failed; distinct by (tree, ops)"
	b := &Batch{}
	g := &OpGen{Mutating: allMutators, ReadOnly: true, Unclean: true, ReadBack: true}
	distinct := map[string]struct{}{}
	caseByTag := map[string]OSCase{}
	for _, raw := range corpusCases("oscase") {
		var oc OSCase
		if remarshal(raw, &oc) == nil && (oc.Hidden == nil || cfg.Prop == "C06" || cfg.Prop == "C11" || cfg.Prop == "C15") && (!oc.Confine || cfg.Prop == "C05") {
			syscall.Umask(oc.Umask)
			err := runOSCase(oc, b, res)
			syscall.Umask(umask)
			if err != nil {
				return err
			}
			res.count("corpus.cases")
		}
	}
	for i := 0; i < n; i++ {
		c := OSCase{Kind: "oscase", Umask: umask, Tree: genTree(r, GenOpts{})}
		// ops are generated against a shadow list of paths (initial entries + names used so far)
		var paths []string
		for _, e := range c.Tree {
			paths = append(paths, e.Path)
		}
		for k := 0; k < 12; k++ {
			op := g.Gen(r, paths)
			c.Ops = append(c.Ops, op)
			if op.K == "rename" || op.K == "symlink" {
				paths = append(paths, op.A[1])
			} else if op.K != "remove" && op.K != "removeall" {
				paths = append(paths, op.A[0])
			}
		}
		if cfg.Prop == "C11" || cfg.Prop == "C15" || cfg.Prop == "C06" {
			c.Hidden = genHiddenFor(r, c.Tree)
			// operations that matter here: recursive removal, renames, listings
			for k := range c.Ops {
				if r.Chance(1, 3) {
					target := pickPath(r, paths)
					if len(c.Hidden) > 0 && r.Chance(1, 2) {
						hp := path.Clean("/" + r.Pick(c.Hidden))
						ch := chainOf(hp)
						target = ch[r.Intn(len(ch))]
						if r.Chance(1, 4) {
							// a shallower name that merely shares a string prefix with the hidden path
							rs := []rune(hp)
							cut := 1 + r.Intn(len(rs)-1)
							target = strings.TrimSuffix(string(rs[:cut]), "/")
							if target == "" {
								target = "/"
							}
						}
					}
					switch r.Intn(3) {
					case 0:
						c.Ops[k] = Op{"removeall", []string{target}}
					case 1:
						c.Ops[k] = Op{"rename", []string{target, pickPath(r, paths) + "-moved"}}
					default:
						c.Ops[k] = Op{"read", []string{target}}
					}
				}
			}
		}
		if cfg.Prop == "C05" {
			c.Confine = true
			c.Tree = genTree(r, GenOpts{NoLinks: true})
			c.Ops = genConfineOps(r, c.Tree)
		}
		caseByTag[fmt.Sprintf("oscase#%d", res.Evaluations)] = c
		if err := runOSCase(c, b, res); err != nil {
			return err
		}
		res.Evaluations++
		distinct[fmt.Sprint(c)] = struct{}{}
		if i < 2 {
			res.sample(c)
		}
	}
	ds, err := b.Compare(cfg.Driver)
	if err != nil {
		return err
	}
	// report each disagreeing case once, at its first differing line
	seen := map[string]bool{}
	var first []Disagreement
	for _, d := range ds {
		id := strings.SplitN(d.Tag, " ", 2)[0]
		if !seen[id] {
			seen[id] = true
			if c, ok := caseByTag[id]; ok {
				d.Case = c
			}
			first = append(first, d)
		}
	}
	res.addDisagreements(first)
	res.DistinctNontrivial = len(distinct)
	res.Distribution["driver.lines"] = b.Len()
	return nil
}

// hiddenPart: the entries of a dump at or below a hidden path.
func hiddenPart(dump []string, hidden []string) []string {
	var out []string
	for i := 0; i+6 < len(dump); i += 7 {
		for _, hp := range hidden {
			if withinGo(path.Clean("/"+hp), dump[i]) {
				out = append(out, dump[i:i+7]...)
				break
			}
		}
	}
	return out
}

// hiddenOracles: C06 (nothing at or below a hidden path changes, by any route), C11 (RemoveAll of an
// ancestor spares exactly the hidden entries and the directories leading to them), C15 (RemoveAll of
// a name without hidden descendants removes it entirely).
func hiddenOracles(c *OSCase, op Op, out []string, dump []string, snap []string, hasLinks bool, res *Result) []string {
	viol := func(p, what string) {
		v := Violation{Property: p, What: what, Case: c}
		if hasLinks {
			// symlink routes into a hidden path defeat the lexical check (known finding)
			v.Known = "K-hidden-symlink-route"
		}
		res.violate(v)
	}
	now := hiddenPart(dump, c.Hidden)
	// directory mtimes of hidden directories may not change either, but a rename of a sibling inside the
	// parent does not touch them; compare everything
	if !dumpEqual(blankDirTimes(snap), blankDirTimes(now)) {
		viol("C06", fmt.Sprintf("after %v the content at or below a hidden path changed: %s", op, dumpDiff(snap, now)))
		if op.K == "rename" {
			viol("C11", fmt.Sprintf("%v relocated or changed hidden content: %s", op, dumpDiff(snap, now)))
		}
		snap = now // reported once; later operations are judged against the new state
	}
	if op.K == "removeall" && out[0] == "ok" && strings.HasPrefix(op.A[0], "/") {
		a := path.Clean(op.A[0])
		aHidden := false
		for _, hp := range c.Hidden {
			if withinGo(path.Clean("/"+hp), a) {
				aHidden = true
			}
		}
		if aHidden {
			return snap
		}
		for i := 0; i+6 < len(dump); i += 7 {
			p := dump[i]
			if !withinGo(a, p) {
				continue
			}
			ok := false
			for _, hp := range c.Hidden {
				chp := path.Clean("/" + hp)
				if withinGo(chp, p) || (dump[i+1] == "dir" && withinGo(p, chp)) {
					ok = true
				}
			}
			if !ok {
				prop := "C11"
				anc := false
				for _, hp := range c.Hidden {
					if withinGo(a, path.Clean("/"+hp)) {
						anc = true
					}
				}
				if !anc {
					prop = "C15"
				}
				viol(prop, fmt.Sprintf("RemoveAll(%q) succeeded but left %s (%s) behind; hidden = %q", op.A[0], p, dump[i+1], c.Hidden))
				if prop == "C11" {
					// sparing more than the hidden entries and their ancestors is also a difference
					// from the underlying filesystem that C15 does not allow
					viol("C15", fmt.Sprintf("RemoveAll(%q) succeeded but left the visible entry %s (%s) behind; hidden = %q", op.A[0], p, dump[i+1], c.Hidden))
				}
			}
		}
		res.count("hidden.removeall.checked")
	}
	return snap
}

// opVisible: no path argument of the operation is hidden, below a hidden path, or (Rename,
// RemoveAll: the operations HiddenFS deliberately treats differently, C11) an ancestor of one;
// the lexical effective target of a Symlink is not hidden either.
func opVisible(hidden []string, op Op) bool {
	var names []string
	switch op.K {
	case "rename":
		names = op.A[:2]
	case "symlink":
		t := op.A[0]
		if !strings.HasPrefix(t, "/") {
			t = path.Join(path.Dir(path.Clean("/"+op.A[1])), t)
		}
		names = []string{op.A[1], t}
	default:
		names = op.A[:1]
	}
	for _, n := range names {
		if !strings.HasPrefix(n, "/") {
			return false // relative names are judged against the process directory by filepath.Rel
		}
		cn := path.Clean(n)
		for _, hp := range hidden {
			chp := path.Clean("/" + hp)
			if withinGo(chp, cn) {
				return false
			}
			if (op.K == "rename" || op.K == "removeall") && withinGo(cn, chp) {
				return false
			}
		}
	}
	return true
}

// opRouteHasLink: some component (the final one included) of one of the operation's path arguments
// is a symlink on the real tree right now.
func opRouteHasLink(rc *RealCase, op Op) bool {
	var names []string
	switch op.K {
	case "rename":
		names = op.A[:2]
	case "symlink":
		names = op.A[1:2]
	default:
		names = op.A[:1]
	}
	// the final component counts only for the calls that FOLLOW it (Props.C06.Route: `ancestors` for
	// Remove, RemoveAll, Rename, Mkdir, Symlink, Lchown, Lstat, Readlink — they act on the link itself —,
	// `final` for the calls that write or look through it)
	followsFinal := map[string]bool{"creat": true, "creatread": true, "write": true, "chmod": true, "chown": true, "chtimes": true,
		"stat": true, "read": true, "fstat": true, "open": true, "mkdirall": true}[op.K]
	for _, n := range names {
		cur := rc.Root
		comps := strings.Split(strings.Trim(path.Clean("/"+n), "/"), "/")
		for i, comp := range comps {
			if comp == "" {
				continue
			}
			cur += "/" + comp
			fi, err := os.Lstat(cur)
			if err != nil {
				break
			}
			if fi.Mode()&os.ModeSymlink != 0 && (i < len(comps)-1 || followsFinal) {
				return true
			}
		}
	}
	return false
}

// genHiddenFor picks hidden paths around the tree: existing entries, missing children, nested ones.
func genHiddenFor(r *RNG, tree []Entry) []string {
	var hs []string
	n := 1 + r.Intn(3)
	for i := 0; i < n; i++ {
		base := "/" + r.Pick(namePool)
		if len(tree) > 0 && r.Chance(3, 4) {
			base = tree[r.Intn(len(tree))].Path
		}
		switch r.Intn(4) {
		case 0:
			hs = append(hs, base)
		case 1:
			hs = append(hs, base+"/"+r.Pick(namePool))
		case 2:
			hs = append(hs, base+"/"+r.Pick(namePool)+"/"+r.Pick(namePool))
		default:
			hs = append(hs, base+"/")
		}
	}
	return hs
}
