package main

import (
	"encoding/json"
	"os"
	"sort"
)

// Violation is a failure of a property's own definition on the real implementation.
type Violation struct {
	Property string `json:"property"`
	What     string `json:"what"`
	Known    string `json:"known,omitempty"` // id of the known finding this is attributed to, if any
	Case     any    `json:"case"`
}

// Result is what one stream run reports to ./check.
type Result struct {
	Stream             string                 `json:"stream"`
	Seed               int64                  `json:"seed"`
	Tier               string                 `json:"tier"`
	Evaluations        int                    `json:"evaluations"`
	DistinctNontrivial int                    `json:"distinct_nontrivial"`
	Rule               string                 `json:"rule"`
	Exhaustive         bool                   `json:"exhaustive"`
	Samples            []any                  `json:"samples"`
	Distribution       map[string]int         `json:"distribution"`
	NDisagreements     int                    `json:"n_disagreements"`
	Disagreements      []Disagreement         `json:"disagreements"`
	Violations         []Violation            `json:"violations"`
	KnownHits          map[string]int         `json:"known_hits"`
	KnownExamples      map[string][]Violation `json:"known_examples,omitempty"`
	Notes              []string               `json:"notes"`
	WallS              float64                `json:"wall_s"`
}

func newResult(stream string, seed int64, tier string) *Result {
	return &Result{Stream: stream, Seed: seed, Tier: tier, Distribution: map[string]int{}, KnownHits: map[string]int{}}
}

func (r *Result) count(key string) { r.Distribution[key]++ }

func (r *Result) addDisagreements(ds []Disagreement) {
	r.NDisagreements += len(ds)
	for _, d := range ds {
		if len(r.Disagreements) < 20 {
			r.Disagreements = append(r.Disagreements, d)
		}
	}
}

func (r *Result) sample(s any) {
	if len(r.Samples) < 6 {
		r.Samples = append(r.Samples, s)
	}
}

func (r *Result) violate(v Violation) {
	if v.Known != "" {
		k := v.Property + "|" + v.Known
		r.KnownHits[k]++
		if r.KnownExamples == nil {
			r.KnownExamples = map[string][]Violation{}
		}
		if len(r.KnownExamples[k]) < 3 {
			r.KnownExamples[k] = append(r.KnownExamples[k], v)
		}
		return
	}
	if len(r.Violations) < 10 {
		r.Violations = append(r.Violations, v)
	}
}

func (r *Result) write(path string) error {
	b, err := json.MarshalIndent(r, "", " ")
	if err != nil {
		return err
	}
	return os.WriteFile(path, b, 0o644)
}

func sortedKeys(m map[string]int) []string {
	ks := make([]string, 0, len(m))
	for k := range m {
		ks = append(ks, k)
	}
	sort.Strings(ks)
	return ks
}
