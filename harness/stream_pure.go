package main

import (
	"fmt"
	"path"
	"path/filepath"
	"sort"
	"strconv"
	"strings"

	"github.com/jxsl13/backupfs"
)

// 4.2-b: pure functions.  Model definitions in lean/Model/Path.lean against the Go functions
// they model, plus the C19 oracle evaluated directly on the implementation.

// "Я" is U+042F: its low byte is '/' (a rune truncated to a byte must not read as a separator)
var alphabet = []string{"/", ".", "a", "b", "ä", "€", "😀", "\\", "Я"}

// enumStrings calls f on every string over the alphabet with at most maxLen symbols.
func enumStrings(maxLen int, f func(string)) {
	var rec func(prefix string, n int)
	rec = func(prefix string, n int) {
		f(prefix)
		if n == maxLen {
			return
		}
		for _, a := range alphabet {
			rec(prefix+a, n+1)
		}
	}
	rec("", 0)
}

var fragments = []string{"a", "b", "c", "app", "app2", "backups", "backups2", "..", ".", "", "ä", "d€", "😀", "x.y", "...", "a b", "\\",
	"Яb", "aЯ", "Į.", "Ŝ"} // code points whose low byte is '/', '.', '\\'

// randPath builds a path-shaped string: optional root, fragments joined by 1-2 separators,
// optional trailing separator.
func randPath(r *RNG) string {
	var b strings.Builder
	if r.Chance(2, 3) {
		b.WriteString("/")
		if r.Chance(1, 10) {
			b.WriteString("/")
		}
	}
	n := r.Intn(6)
	for i := 0; i < n; i++ {
		if i > 0 {
			b.WriteString("/")
			if r.Chance(1, 8) {
				b.WriteString("/")
			}
		}
		b.WriteString(r.Pick(fragments))
	}
	if r.Chance(1, 6) {
		b.WriteString("/")
	}
	return b.String()
}

// randCleanPath returns a cleaned path with ordinary component names.
func randCleanPath(r *RNG, names []string, maxDepth int) string {
	var p string
	if r.Chance(4, 5) {
		p = "/"
	}
	n := r.Intn(maxDepth + 1)
	for i := 0; i < n; i++ {
		p = path.Join(p, r.Pick(names))
	}
	if p == "" {
		p = "."
	}
	return filepath.Clean(p)
}

func boolStr(b bool) string { return strconv.FormatBool(b) }

// chainOf computes the ancestor chain of a cleaned path independently of the repo code.
func chainOf(p string) []string {
	if p == "/" {
		return []string{"/"}
	}
	var out []string
	comps := strings.Split(p, "/")
	if strings.HasPrefix(p, "/") {
		out = append(out, "/")
		comps = comps[1:]
	}
	acc := ""
	for i, c := range comps {
		if i == 0 {
			if strings.HasPrefix(p, "/") {
				acc = "/" + c
			} else {
				acc = c
			}
		} else {
			acc = acc + "/" + c
		}
		out = append(out, acc)
	}
	return out
}

func implIter(p string, stopAt int) (visited []string, aborted bool) {
	aborted, _ = backupfs.IterateDirTree(p, func(s string) (bool, error) {
		visited = append(visited, s)
		return len(visited)-1 != stopAt, nil
	})
	return visited, aborted
}

func isProperAncestor(q, p string) bool {
	if q == p {
		return false
	}
	cq, cp := chainOf(q), chainOf(p)
	if len(cq) >= len(cp) {
		return false
	}
	return cp[len(cq)-1] == q
}

func init() { streams["pure"] = streamPure }

func streamPure(cfg *Config, res *Result) error {
	r := newRNG(cfg.Seed, "pure")
	b := &Batch{}
	maxLen1, maxLen2, nRand, nSort := 5, 2, 20000, 2000
	if cfg.Tier == "thorough" {
		maxLen1, maxLen2, nRand, nSort = 7, 3, 300000, 30000
	}
	res.Rule = fmt.Sprintf("every string over %q up to length %d (one-argument functions) / %d (pairs), plus %d seeded random path-shaped strings and %d random sets of cleaned paths in several permutations; non-trivial = the implementation's output differs from its input (the function did some work) or the comparator/containment outcome is positive; distinct by input", alphabet, maxLen1, maxLen2, nRand, nSort)
	distinct := map[string]struct{}{}
	note := func(in string, nontrivial bool) {
		res.Evaluations++
		if nontrivial {
			distinct[in] = struct{}{}
		}
	}

	one := func(s string) {
		c := filepath.Clean(s)
		b.Add("clean", line("clean", s), line(c))
		note("clean "+s, c != s)
		d := filepath.Dir(s)
		b.Add("dir", line("dir", s), line(d))
		note("dir "+s, d != s)
		bs := path.Base(s)
		b.Add("base", line("base", s), line(bs))
		note("base "+s, bs != s)
		b.Add("isabs", line("isabs", s), line(boolStr(filepath.IsAbs(s))))
		res.Evaluations++
		v, _ := implIter(s, -1)
		b.Add("iter", line(append([]string{"iter"}, s)...), line(v...))
		note("iter "+s, len(v) > 1)
		// C19 oracle on the implementation: for a cleaned path the visit list is the chain.
		if c == s {
			res.count("iter.clean-input")
			want := chainOf(s)
			if strings.Join(v, "\x00") != strings.Join(want, "\x00") {
				res.violate(Violation{Property: "C19", What: fmt.Sprintf("IterateDirTree(%q) visited %q, ancestor chain is %q", s, v, want), Case: map[string]any{"kind": "iter", "path": s}})
			}
			for k := range want {
				vs, ab := implIter(s, k)
				if len(vs) != k+1 || !ab {
					res.violate(Violation{Property: "C19", What: fmt.Sprintf("IterateDirTree(%q) with a visitor stopping at index %d visited %q aborted=%v", s, k, vs, ab), Case: map[string]any{"kind": "iter-stop", "path": s, "stop": k}})
				}
			}
			for _, q := range want[:len(want)-1] {
				if !backupfs.LessFilePathSeparators(q, s) || backupfs.LessFilePathSeparators(s, q) {
					res.violate(Violation{Property: "C19", What: fmt.Sprintf("ancestor %q is not ordered before %q", q, s), Case: map[string]any{"kind": "less", "a": q, "b": s}})
				}
			}
		}
	}
	two := func(x, y string) {
		j := filepath.Join(x, y)
		b.Add("join", line("join", x, y), line(j))
		note("join "+x+"\x00"+y, true)
		rl, err := filepath.Rel(x, y)
		if err != nil {
			b.Add("rel", line("rel", x, y), line("err"))
			res.count("rel.err")
		} else {
			b.Add("rel", line("rel", x, y), line("ok", rl))
			res.count("rel.ok")
		}
		note("rel "+x+"\x00"+y, err == nil && rl != ".")
		l := backupfs.LessFilePathSeparators(x, y)
		b.Add("less", line("less", x, y), line(boolStr(l)))
		note("less "+x+"\x00"+y, l)
		// oracle: strict total order on the pair
		l2 := backupfs.LessFilePathSeparators(y, x)
		if (x == y && (l || l2)) || (x != y && l == l2) {
			res.violate(Violation{Property: "C19", What: fmt.Sprintf("LessFilePathSeparators is not a strict total order on %q, %q: %v %v", x, y, l, l2), Case: map[string]any{"kind": "less", "a": x, "b": y}})
		}
	}

	enumStrings(maxLen1, one)
	var small []string
	enumStrings(maxLen2, func(s string) { small = append(small, s) })
	for _, x := range small {
		for _, y := range small {
			two(x, y)
		}
	}
	for i := 0; i < nRand; i++ {
		x := randPath(r)
		one(x)
		y := randPath(r)
		if r.Chance(1, 3) {
			y = filepath.Join(x, randPath(r)) // related pairs: containment is exercised
		}
		if r.Chance(1, 4) {
			x = filepath.Clean(x)
		}
		two(x, y)
		if i < 3 {
			res.sample(map[string]any{"pair": []string{x, y}, "join": filepath.Join(x, y), "less": backupfs.LessFilePathSeparators(x, y)})
		}
	}

	// sorting: sets of distinct cleaned paths, several permutations each
	names := []string{"a", "b", "ab", "ä", "d€", "a.b", "0", "test", ".config", "-rf", "+x", "#t", "...", "Я", "aЯb"}
	for i := 0; i < nSort; i++ {
		set := map[string]struct{}{}
		n := 1 + r.Intn(9)
		for k := 0; k < n; k++ {
			p := randCleanPath(r, names, 4)
			set[p] = struct{}{}
			if r.Chance(1, 2) { // make ancestors likely
				for _, q := range chainOf(p) {
					if r.Chance(1, 2) {
						set[q] = struct{}{}
					}
				}
			}
		}
		paths := make([]string, 0, len(set))
		for p := range set {
			paths = append(paths, p)
		}
		sort.Strings(paths)
		var firstMost, firstLeast string
		for perm := 0; perm < 3; perm++ {
			pm := r.Perm(len(paths))
			in := make([]string, len(paths))
			for k, idx := range pm {
				in[k] = paths[idx]
			}
			most := append([]string(nil), in...)
			sort.Sort(backupfs.ByMostFilePathSeparators(most))
			least := append([]string(nil), in...)
			sort.Sort(backupfs.ByLeastFilePathSeparators(least))
			strs := append([]string(nil), in...)
			sort.Strings(strs)
			b.Add("sortmost", line(append([]string{"sortmost"}, in...)...), line(most...))
			b.Add("sortleast", line(append([]string{"sortleast"}, in...)...), line(least...))
			b.Add("sortstrings", line(append([]string{"sortstrings"}, in...)...), line(strs...))
			note("sort "+strings.Join(in, "\x00"), len(in) > 1)
			res.Evaluations += 2
			// C19 oracle on the implementation
			for x := 0; x < len(most); x++ {
				for y := x + 1; y < len(most); y++ {
					if isProperAncestor(most[x], most[y]) {
						res.violate(Violation{Property: "C19", What: fmt.Sprintf("ByMostFilePathSeparators put ancestor %q before %q", most[x], most[y]), Case: map[string]any{"kind": "sort", "input": in}})
					}
					if isProperAncestor(least[y], least[x]) {
						res.violate(Violation{Property: "C19", What: fmt.Sprintf("ByLeastFilePathSeparators put %q before its ancestor %q", least[x], least[y]), Case: map[string]any{"kind": "sort", "input": in}})
					}
				}
			}
			// … root last / root first
			for x, q := range most {
				if q == "/" && x != len(most)-1 {
					res.violate(Violation{Property: "C19", What: fmt.Sprintf("ByMostFilePathSeparators: the root is at index %d of %q, not last", x, most), Case: map[string]any{"kind": "sort", "input": in}})
				}
			}
			for x, q := range least {
				if q == "/" && x != 0 {
					res.violate(Violation{Property: "C19", What: fmt.Sprintf("ByLeastFilePathSeparators: the root is at index %d of %q, not first", x, least), Case: map[string]any{"kind": "sort", "input": in}})
				}
			}
			km, kl := strings.Join(most, "\x00"), strings.Join(least, "\x00")
			if perm == 0 {
				firstMost, firstLeast = km, kl
				if i < 2 {
					res.sample(map[string]any{"sort_input": in, "most": most, "least": least})
				}
			} else if km != firstMost || kl != firstLeast {
				res.violate(Violation{Property: "C19", What: "sorted sequence depends on the input permutation", Case: map[string]any{"kind": "sort", "input": in}})
			}
		}
	}

	ds, err := b.Compare(cfg.Driver)
	if err != nil {
		return err
	}
	res.addDisagreements(ds)
	res.DistinctNontrivial = len(distinct)
	res.Exhaustive = false
	res.Distribution["driver.lines"] = b.Len()
	return nil
}
