package main

import (
	"encoding/json"
	"fmt"
	"io/fs"
	"strings"
	"sync"
	"sync/atomic"
	"syscall"
	"time"

	"github.com/jxsl13/backupfs"
)

// C10 dynamic validation and search: the schedule-point harness.  Operation A is parked at its
// k-th primitive call (for every k), operation B is started on the same BackupFS from another
// goroutine.  While A is parked inside its critical section a locking B must neither finish nor
// issue a primitive call.  After A is released both finish; the outcome must be the serial one
// (A then B): results, trees and tracked map are compared with the model's serial run, and the
// final Rollback must restore the base.

func init() {
	streams["conc"] = streamConc
	replayKinds["conc"] = func(cfg *Config, c map[string]any, b *Batch, res *Result) error {
		var cc ConcCase
		if err := remarshal(c, &cc); err != nil {
			return err
		}
		syscall.Umask(cc.Hist.Umask)
		return runConcCase(&cc, b, res)
	}
}

type ConcCase struct {
	Kind string   `json:"kind"` // "conc"
	Hist HistCase `json:"hist"` // tree (+ optional warm-up steps run serially first)
	A    Step     `json:"a"`
	B    Step     `json:"b"`
	K    int      `json:"k"` // A is parked at its K-th primitive call
}

// apiFS marks the time spent inside Create/OpenFile: what the harness does with the returned
// handle afterwards (Write, Close) happens outside the BackupFS call and outside its lock.
type apiFS struct {
	backupfs.FS
	active *int32
}

func (a apiFS) Create(name string) (backupfs.File, error) {
	atomic.AddInt32(a.active, 1)
	defer atomic.AddInt32(a.active, -1)
	return a.FS.Create(name)
}

func (a apiFS) OpenFile(name string, flag int, perm fs.FileMode) (backupfs.File, error) {
	atomic.AddInt32(a.active, 1)
	defer atomic.AddInt32(a.active, -1)
	return a.FS.OpenFile(name, flag, perm)
}

func stepLocks(s Step) bool {
	if s.Op != nil {
		return !isReadOnly(*s.Op)
	}
	return true // rollback, force, reload(map)
}

func (e *histEnv) runStep(st Step) []string {
	switch {
	case st.Op != nil:
		if st.Op.K == "creat" || st.Op.K == "write" {
			return execOp(e.rc, apiFS{e.bfs, &e.apiActive}, *st.Op)
		}
		atomic.AddInt32(&e.apiActive, 1)
		defer atomic.AddInt32(&e.apiActive, -1)
		return execOp(e.rc, e.bfs, *st.Op)
	case st.Do == "rollback":
		atomic.AddInt32(&e.apiActive, 1)
		defer atomic.AddInt32(&e.apiActive, -1)
		if err := e.bfs.Rollback(); err != nil {
			return []string{"err", "rollbackFailed"}
		}
		return []string{"ok"}
	case st.Do == "force":
		atomic.AddInt32(&e.apiActive, 1)
		defer atomic.AddInt32(&e.apiActive, -1)
		if err := e.bfs.ForceBackup(st.Arg[0]); err != nil {
			return []string{"err", errClass(err)}
		}
		return []string{"ok"}
	case st.Do == "map":
		_ = e.bfs.Map()
		return []string{"ok"}
	case st.Do == "marshal":
		// MarshalJSON reads the whole tracked map: it has to wait for a running operation
		if _, err := json.Marshal(e.bfs); err != nil {
			return []string{"err", errClass(err)}
		}
		return []string{"ok"}
	}
	return []string{"?"}
}

func modelStepLine(st Step) string {
	switch {
	case st.Op != nil:
		return bfsOpLine(*st.Op)
	case st.Do == "rollback":
		return line("bfs.rollback")
	case st.Do == "force":
		return line("bfs.op", "force", st.Arg[0])
	}
	return line("bfs.reload") // map: no effect on the model state
}

// runConcCase returns whether A reached its K-th primitive call (false = A has fewer calls).
func runConcCaseReached(c *ConcCase, b *Batch, res *Result) (bool, error) {
	e, err := newHistEnv(&c.Hist)
	if err != nil {
		return false, err
	}
	defer e.rc.Close()
	tag := fmt.Sprintf("conc#%p", c)
	for _, l := range e.modelInit(&c.Hist) {
		b.Add(tag+" init", l, "ok")
	}
	for i, st := range c.Hist.Steps {
		out := e.runStep(st)
		b.Add(fmt.Sprintf("%s warmup%d", tag, i), modelStepLine(st), line(out...))
	}
	s0 := blankDirTimes(e.rc.Dump(e.baseSub))
	_ = s0
	var (
		mu      sync.Mutex
		count   int
		parked  = make(chan struct{})
		release = make(chan struct{})
		armed   = true
		bCalls  int
		aParked bool
	)
	e.onPrim = func(r CallRec) {
		mu.Lock()
		if armed && count == c.K && atomic.LoadInt32(&e.apiActive) == 0 {
			// A's remaining primitives are handle calls made after its BackupFS call returned
			armed = false
			mu.Unlock()
			return
		}
		if armed && count == c.K {
			armed = false
			aParked = true
			mu.Unlock()
			close(parked)
			<-release
			return
		}
		count++
		if aParked {
			select {
			case <-release:
			default:
				bCalls++ // a primitive call issued while A is parked: it is B's
			}
		}
		mu.Unlock()
	}
	var outA, outB []string
	doneA := make(chan struct{})
	go func() { outA = e.runStep(c.A); close(doneA) }()
	reached := false
	select {
	case <-parked:
		reached = true
	case <-doneA:
	}
	if !reached {
		return false, nil
	}
	doneB := make(chan struct{})
	go func() { outB = e.runStep(c.B); close(doneB) }()
	bFinished := false
	select {
	case <-doneB:
		bFinished = true
	case <-time.After(30 * time.Millisecond):
	}
	mu.Lock()
	bc := bCalls
	mu.Unlock()
	// A's primitive calls all lie inside its critical section (read-only A is not parked at all)
	if stepLocks(c.A) && stepLocks(c.B) && (bFinished || bc > 0) {
		res.violate(Violation{Property: "C10", What: fmt.Sprintf("while %v was parked at its primitive call #%d (inside its critical section), %v %s and issued %d primitive calls", c.A, c.K, c.B, map[bool]string{true: "finished", false: "did not finish"}[bFinished], bc), Case: c})
	}
	close(release)
	<-doneA
	<-doneB
	e.onPrim = nil
	res.count("conc.parked")
	if stepLocks(c.A) && stepLocks(c.B) && !bFinished && bc == 0 {
		// the serial outcome A; B
		b.Add(tag+" A", modelStepLine(c.A), line(outA...))
		b.Add(tag+" B", modelStepLine(c.B), line(outB...))
		b.Add(tag+" base-tree", line("os.tree", modelRoot+e.baseSub), line(e.rc.Dump(e.baseSub)...))
		b.Add(tag+" backup-tree", line("os.tree", modelRoot+e.bakSub), line(e.rc.Dump(e.bakSub)...))
		b.Add(tag+" map", line("bfs.map"), line(e.mapFields()...))
		res.count("conc.serial-compared")
	}
	return true, nil
}

func runConcCase(c *ConcCase, b *Batch, res *Result) error {
	_, err := runConcCaseReached(c, b, res)
	return err
}

func streamConc(cfg *Config, res *Result) error {
	r := newRNG(cfg.Seed, "conc")
	nPairs, maxK := 25, 40
	if cfg.Tier == "thorough" {
		nPairs, maxK = 300, 80
	}
	if cfg.N > 0 {
		nPairs = cfg.N
	}
	umask := []int{0o022, 0, 0o027}[int(cfg.Seed)%3]
	syscall.Umask(umask)
	res.Rule = "seeded random (tree, warm-up history, operation A, operation B) quadruples; A is parked at its k-th primitive call for every k until A has no more calls; B is started from a second goroutine: a locking B must neither finish nor issue a primitive call while A is parked; afterwards results, trees and tracked map are compared with the model's serial run A;B; non-trivial = A was parked and B is a locking operation; distinct by (case, k)"
	b := &Batch{}
	distinct := map[string]struct{}{}
	for _, raw := range corpusCases("conc") {
		var cc ConcCase
		if remarshal(raw, &cc) == nil {
			syscall.Umask(cc.Hist.Umask)
			if err := runConcCase(&cc, b, res); err != nil {
				return err
			}
			res.count("corpus.cases")
		}
	}
	syscall.Umask(umask)
	others := []Step{{Do: "rollback"}, {Do: "map"}, {Do: "marshal"}}
	for i := 0; i < nPairs; i++ {
		hc := genHistCase(r, HistGen{Layering: "disjoint", NSteps: 3, Rollbacks: 1, NoRollback: true}, umask)
		var paths []string
		for _, e := range hc.Tree {
			paths = append(paths, e.Path)
		}
		og := &OpGen{Mutating: allMutators, ReadOnly: false, Orig: map[string]Entry{}}
		pick := func() Step {
			switch r.Intn(8) {
			case 0, 6, 7:
				return others[r.Intn(len(others))]
			case 1:
				return Step{Do: "force", Arg: []string{pickPath(r, paths)}}
			case 2:
				op := (&OpGen{Mutating: allMutators, ReadOnly: true}).Gen(r, paths)
				return Step{Op: &op}
			default:
				op := og.Gen(r, paths)
				return Step{Op: &op}
			}
		}
		a, bb := pick(), pick()
		for !stepLocks(a) {
			a = pick()
		}
		for k := 0; k < maxK; k++ {
			cc := &ConcCase{Kind: "conc", Hist: *hc, A: a, B: bb, K: k}
			reached, err := runConcCaseReached(cc, b, res)
			if err != nil {
				return err
			}
			if !reached {
				break
			}
			res.Evaluations++
			if stepLocks(bb) {
				js, _ := json.Marshal(cc)
				distinct[string(js)] = struct{}{}
			}
			if i < 2 && k == 1 {
				res.sample(cc)
			}
		}
	}
	ds, err := b.Compare(cfg.Driver)
	if err != nil {
		return err
	}
	seen := map[string]bool{}
	var first []Disagreement
	for _, d := range ds {
		id := strings.SplitN(d.Tag, " ", 2)[0]
		if !seen[id] {
			seen[id] = true
			first = append(first, d)
		}
	}
	res.addDisagreements(first)
	res.DistinctNontrivial = len(distinct)
	return nil
}
