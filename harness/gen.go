package main

import (
	"fmt"
	"os"
	"path"
	"strings"
)

// ---- initial trees -------------------------------------------------------------------------

var namePool = []string{"a", "b", "c", "d", "e", "f", "ä", "x€", "l", "m", "a2", "f.new", "Яx", "a b"} // incl. names that extend another name of the pool

var fileModes = []uint32{0o644, 0o600, 0o755, 0o640, 0o444, 0o4755, 0o2755, 0o6755, 0o2644, 0o1644, 0o666, 0}
var dirModes = []uint32{0o755, 0o700, 0o750, 0o2755, 0o2775, 0o1755, 0o777, 0o500}
var uids = []int{0, 0, 1000, 1001}
var gids = []int{0, 0, 1000, 2000}

var bigContent = strings.Repeat("0123456789abcdef", 70000/16) // > 2 copy chunks of 32 KiB

type GenOpts struct {
	Plain    bool // only 0644/0755 root-owned entries (no set-id bits, no foreign owners)
	NoLinks  bool
	MaxNodes int
}

func oldTime(r *RNG) int64 {
	if r.Chance(1, 12) {
		// the epoch itself, one nanosecond after it, before 1970: values an encoding may treat specially
		return []int64{0, 1, -315619200_000_000_000, -1, 999_999_999}[r.Intn(5)]
	}
	t := oldBase + int64(r.Intn(300_000_000))*1_000_000_000
	if r.Chance(1, 3) {
		t += int64(r.Intn(1_000_000_000)) // ns precision
	}
	return t
}

func genContent(r *RNG) string {
	switch r.Intn(12) {
	case 0:
		return ""
	case 1:
		return bigContent
	default:
		return fmt.Sprintf("v%d-%s", r.Intn(100), strings.Repeat("x", r.Intn(5)))
	}
}

// genTree builds a random initial tree. Parents always precede children.
func genTree(r *RNG, o GenOpts) []Entry {
	max := o.MaxNodes
	if max == 0 {
		max = 10
	}
	n := 1 + r.Intn(max)
	dirs := []string{"/"}
	used := map[string]bool{"/": true}
	var es []Entry
	var all []string
	for i := 0; i < n; i++ {
		parent := dirs[r.Intn(len(dirs))]
		if strings.Count(parent, "/") >= 4 {
			parent = "/"
		}
		name := r.Pick(namePool)
		p := path.Join(parent, name)
		if used[p] {
			continue
		}
		used[p] = true
		e := Entry{Path: p, UID: 0, GID: 0, MTime: oldTime(r)}
		if !o.Plain {
			e.UID, e.GID = uids[r.Intn(len(uids))], gids[r.Intn(len(gids))]
		}
		k := r.Intn(100)
		switch {
		case k < 35:
			e.Kind, e.Mode = "dir", 0o755
			if !o.Plain {
				e.Mode = dirModes[r.Intn(len(dirModes))]
			}
			dirs = append(dirs, p)
		case k < 80 || o.NoLinks:
			e.Kind, e.Mode, e.Data = "file", 0o644, genContent(r)
			if !o.Plain {
				e.Mode = fileModes[r.Intn(len(fileModes))]
			}
		default:
			e.Kind, e.Mode = "link", 0o777
			e.Data = genLinkTarget(r, p, all)
		}
		es = append(es, e)
		all = append(all, p)
	}
	return es
}

// genLinkTarget: relative/absolute, to existing entries, dangling, occasionally looping.
func genLinkTarget(r *RNG, linkPath string, existing []string) string {
	dir := path.Dir(linkPath)
	pickExisting := func() string {
		if len(existing) == 0 {
			return "/" + r.Pick(namePool)
		}
		return existing[r.Intn(len(existing))]
	}
	switch r.Intn(10) {
	case 0, 1, 2: // absolute, existing
		return pickExisting()
	case 3, 4, 5: // relative, existing
		t := pickExisting()
		rel := relPath(dir, t)
		return rel
	case 6: // dangling relative
		return r.Pick(namePool) + "-missing"
	case 7: // dangling absolute
		return "/" + r.Pick(namePool) + "/missing"
	case 8: // sibling name (possibly created later, possibly itself: a loop)
		if r.Chance(1, 4) {
			// through an existing entry and back up again (".." inside the text)
			return relPath(dir, pickExisting()) + "/../" + r.Pick(namePool)
		}
		return r.Pick(namePool)
	default: // parent-relative (climbing out of the tree's root only rarely)
		if dir == "/" && !r.Chance(1, 8) {
			return r.Pick(namePool)
		}
		if dir == "/" && r.Chance(1, 3) {
			// out of the base root and into the sibling backup directory of the disjoint layering:
			// the backup PrefixFS accepts the copy, the base PrefixFS refuses the restore
			return "../bak/" + r.Pick(namePool)
		}
		return "../" + r.Pick(namePool)
	}
}

func relPath(from, to string) string {
	fc, tc := compsGo(from), compsGo(to)
	i := 0
	for i < len(fc) && i < len(tc) && fc[i] == tc[i] {
		i++
	}
	var parts []string
	for range fc[i:] {
		parts = append(parts, "..")
	}
	parts = append(parts, tc[i:]...)
	if len(parts) == 0 {
		return "."
	}
	return strings.Join(parts, "/")
}

// ---- operations ----------------------------------------------------------------------------

// Op is one operation of a history. Kinds: the FS methods ("create","mkdir",…); "write" =
// OpenFile+Write+Close composite (A: name flag perm data); "creat" = Create+Write+Close
// (A: name data); "read" = Open+ReadAll|Readdirnames+Close.
type Op struct {
	K string   `json:"k"`
	A []string `json:"a"`
}

func (o Op) String() string { return o.K + fmt.Sprintf("%q", o.A) }

var writeFlags = []int{os.O_WRONLY, os.O_RDWR, os.O_RDWR | os.O_CREATE, os.O_WRONLY | os.O_CREATE | os.O_TRUNC,
	os.O_RDWR | os.O_CREATE | os.O_EXCL, os.O_WRONLY | os.O_APPEND, os.O_RDWR | os.O_TRUNC, os.O_WRONLY | os.O_CREATE | os.O_APPEND,
	os.O_RDONLY | os.O_CREATE, os.O_RDONLY | os.O_CREATE | os.O_EXCL}

type OpGen struct {
	Orig      map[string]Entry // the initial tree: lets metadata operations return to original values
	Mutating  []string         // kinds to draw mutators from
	ReadOnly  bool             // include read-only operations
	Focus     string           // when set, most operations name this path (same-path interplay)
	Unclean   bool             // unclean spellings
	Relative  bool             // relative spellings
	NoSpecial bool             // no set-id / sticky bits, root owner only
	ReadBack  bool             // some Create composites read the content back through the handle
	always    bool             // (spellUnclean) every spelling is unclean
}

var allMutators = []string{"creat", "write", "mkdir", "mkdirall", "remove", "removeall", "rename", "symlink", "chmod", "chown", "lchown", "chtimes"}
var readOnlyOps = []string{"stat", "lstat", "readlink", "read", "fstat"}

// pickPath chooses a path: mostly an existing entry, sometimes a new child of one, sometimes deeper.
func pickPath(r *RNG, existing []string) string {
	if len(existing) == 0 || r.Chance(1, 8) {
		return "/" + r.Pick(namePool)
	}
	p := existing[r.Intn(len(existing))]
	switch r.Intn(10) {
	case 0, 1, 2:
		return path.Join(p, r.Pick(namePool))
	case 3:
		return path.Join(p, r.Pick(namePool), r.Pick(namePool))
	case 4:
		return path.Join(path.Dir(p), r.Pick(namePool))
	default:
		return p
	}
}

// spellUnclean returns a spelling of p that differs from its cleaned form.
func spellUnclean(r *RNG, p string) string {
	return spell(r, &OpGen{Unclean: true, always: true}, p)
}

func spell(r *RNG, g *OpGen, p string) string {
	if g.Unclean && (g.always || r.Chance(1, 6)) {
		switch r.Intn(5) {
		case 0:
			return strings.ReplaceAll(p, "/", "//")
		case 1:
			return p + "/"
		case 2:
			return path.Dir(p) + "/./" + path.Base(p)
		case 3:
			return p + "/../" + path.Base(p)
		default:
			return "/." + p
		}
	}
	if g.Relative && r.Chance(1, 10) {
		return strings.TrimPrefix(p, "/")
	}
	return p
}

func (g *OpGen) Gen(r *RNG, existing []string) Op {
	kinds := g.Mutating
	if g.ReadOnly && r.Chance(1, 4) {
		kinds = readOnlyOps
	}
	k := r.Pick(kinds)
	target := pickPath(r, existing)
	if g.Focus != "" && r.Chance(3, 4) {
		target = g.Focus
	}
	p := spell(r, g, target)
	if (k == "stat" || k == "lstat" || k == "read" || k == "fstat") && r.Chance(1, 8) {
		// the root of the filesystem itself, in several spellings (names reported for it: C14)
		p = r.Pick([]string{"/", "/.", "//", "/./", "/x/.."})
	}
	switch k {
	case "creat":
		if g.ReadBack && r.Chance(1, 3) {
			return Op{"creatread", []string{p, genContent(r)}}
		}
		return Op{k, []string{p, genContent(r)}}
	case "write":
		data := genContent(r)
		if data == "" {
			data = "w"
		}
		wm := []uint32{0o644, 0o600, 0o666}[r.Intn(3)]
		if !g.NoSpecial && r.Chance(1, 5) {
			wm |= []uint32{0o4000, 0o2000, 0o1000, 0o6000}[r.Intn(4)]
		}
		return Op{k, []string{p, itoa(writeFlags[r.Intn(len(writeFlags))]), fmt.Sprint(wm), data}}
	case "mkdir", "mkdirall":
		m := []uint32{0o755, 0o700, 0o777}[r.Intn(3)]
		if !g.NoSpecial && r.Chance(1, 4) {
			// the sticky bit is honoured by mkdir(2); set-id bits in the argument are masked by the kernel
			m |= []uint32{0o1000, 0o1000, 0o2000, 0o4000}[r.Intn(4)]
		}
		return Op{k, []string{p, fmt.Sprint(m)}}
	case "rename":
		return Op{k, []string{p, spell(r, g, pickPath(r, existing))}}
	case "symlink":
		return Op{k, []string{genLinkTarget(r, p, existing), p}}
	case "chmod":
		m := []uint32{0o644, 0o600, 0o755, 0o700, 0o640}[r.Intn(5)]
		if e, ok := g.Orig[path.Clean(p)]; ok && e.Kind != "link" && r.Chance(2, 5) {
			// back to the original mode (set-id bits included): restore paths that see "nothing to do"
			return Op{k, []string{p, fmt.Sprint(e.Mode)}}
		}
		if !g.NoSpecial && r.Chance(1, 3) {
			m |= []uint32{0o4000, 0o2000, 0o1000}[r.Intn(3)]
		}
		return Op{k, []string{p, fmt.Sprint(m)}}
	case "chown", "lchown":
		if g.NoSpecial {
			return Op{k, []string{p, "0", "0"}}
		}
		if e, ok := g.Orig[path.Clean(p)]; ok && r.Chance(1, 4) {
			return Op{k, []string{p, itoa(e.UID), itoa(e.GID)}}
		}
		return Op{k, []string{p, itoa(uids[r.Intn(len(uids))]), itoa(gids[r.Intn(len(gids))])}}
	case "chtimes":
		if e, ok := g.Orig[path.Clean(p)]; ok && r.Chance(1, 4) {
			return Op{k, []string{p, fmt.Sprint(e.MTime)}}
		}
		return Op{k, []string{p, fmt.Sprint(oldTime(r))}}
	default:
		return Op{k, []string{p}}
	}
}
