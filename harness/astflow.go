package main

import (
	"fmt"
	"go/ast"
	"go/parser"
	"go/token"
	"go/types"
	"path/filepath"
	"sort"
	"strings"
)

// genFlowFacts parses /repo's non-test sources and emits, as Lean data, the DATA-FLOW SKELETON of
// every method of the four layer types: in source order, each call on the receiver itself
// (`fsys.realPath(name)`), on its `base` / `backup` filesystem (`fsys.base.Symlink(old, new)`), and
// each plain assignment to a local identifier, with the argument expressions as text and the
// identifiers the results are bound to.  Lean predicates over these facts (Lemmas/FlowCheck.lean)
// state, e.g., that every mutating base call of BackupFS is handed names that came out of `realPath`
// and went through `tryBackup` first — a slip such as `base.Symlink(oldname, newname)` (the
// unresolved name) changes the facts and the theorem no longer builds, whether or not a generated
// input happens to exhibit it.

type flowFact struct {
	Recv, Method, Target, Callee string
	Args, Results                []string
}

var layerTypes = map[string]bool{"BackupFS": true, "PrefixFS": true, "HiddenFS": true, "VolumeFS": true}

func genFlowFacts(repo string) (string, error) {
	fset := token.NewFileSet()
	files, _ := filepath.Glob(filepath.Join(repo, "*.go"))
	sort.Strings(files)
	var facts []flowFact
	type key struct{ r, m string }
	params := map[key][]string{}
	var order []key
	var parsed []*ast.File
	pkgFuncs := map[string]bool{}
	for _, fn := range files {
		if strings.HasSuffix(fn, "_test.go") || strings.HasSuffix(fn, "_windows.go") {
			continue
		}
		f, err := parser.ParseFile(fset, fn, nil, 0)
		if err != nil {
			return "", err
		}
		parsed = append(parsed, f)
		for _, d := range f.Decls {
			if fd, ok := d.(*ast.FuncDecl); ok && fd.Recv == nil {
				pkgFuncs[fd.Name.Name] = true
			}
		}
	}
	for _, f := range parsed {
		for _, d := range f.Decls {
			fd, ok := d.(*ast.FuncDecl)
			if !ok || fd.Body == nil {
				continue
			}
			// a method of a layer type, or a package-level function (recvType "")
			recvType, recv := "", ""
			if fd.Recv != nil {
				if len(fd.Recv.List) == 0 || len(fd.Recv.List[0].Names) == 0 {
					continue
				}
				star, ok := fd.Recv.List[0].Type.(*ast.StarExpr)
				if !ok {
					continue
				}
				tid, ok := star.X.(*ast.Ident)
				if !ok || !layerTypes[tid.Name] {
					continue
				}
				recvType, recv = tid.Name, fd.Recv.List[0].Names[0].Name
			}
			id := &ast.Ident{Name: recvType}
			k := key{id.Name, fd.Name.Name}
			order = append(order, k)
			isParam := map[string]bool{}
			for _, p := range fd.Type.Params.List {
				for _, n := range p.Names {
					params[k] = append(params[k], n.Name)
					isParam[n.Name] = true
				}
			}
			done := map[*ast.CallExpr]bool{}
			classify := func(c *ast.CallExpr) (target, callee string, ok bool) {
				if fid, ok := c.Fun.(*ast.Ident); ok && pkgFuncs[fid.Name] {
					return "pkg", fid.Name, true
				}
				sel, ok := c.Fun.(*ast.SelectorExpr)
				if !ok {
					return "", "", false
				}
				if rid, ok := sel.X.(*ast.Ident); ok && recv == "" && isParam[rid.Name] {
					return "param:" + rid.Name, sel.Sel.Name, true
				}
				if recv == "" {
					return "", "", false
				}
				if rid, ok := sel.X.(*ast.Ident); ok && rid.Name == recv {
					return "self", sel.Sel.Name, true
				}
				if inner, ok := sel.X.(*ast.SelectorExpr); ok {
					if rid, ok := inner.X.(*ast.Ident); ok && rid.Name == recv && (inner.Sel.Name == "base" || inner.Sel.Name == "backup") {
						return inner.Sel.Name, sel.Sel.Name, true
					}
				}
				return "", "", false
			}
			exprs := func(l []ast.Expr) []string {
				var out []string
				for _, e := range l {
					out = append(out, types.ExprString(e))
				}
				return out
			}
			record := func(c *ast.CallExpr, results []string) {
				if done[c] {
					return
				}
				if t, callee, ok := classify(c); ok {
					done[c] = true
					facts = append(facts, flowFact{id.Name, fd.Name.Name, t, callee, exprs(c.Args), results})
				}
			}
			ast.Inspect(fd.Body, func(n ast.Node) bool {
				switch x := n.(type) {
				case *ast.AssignStmt:
					var lhs []string
					for _, l := range x.Lhs {
						lhs = append(lhs, types.ExprString(l))
					}
					if len(x.Rhs) == 1 {
						if c, ok := x.Rhs[0].(*ast.CallExpr); ok {
							if _, _, isLayer := classify(c); isLayer {
								record(c, lhs)
								return true
							}
						}
					}
					// a plain assignment: every identifier on the left is re-bound
					for i, l := range x.Lhs {
						if _, ok := l.(*ast.Ident); !ok {
							continue
						}
						rhs := ""
						if len(x.Rhs) == len(x.Lhs) {
							rhs = types.ExprString(x.Rhs[i])
						} else if len(x.Rhs) == 1 {
							rhs = types.ExprString(x.Rhs[0])
						}
						facts = append(facts, flowFact{id.Name, fd.Name.Name, "assign", "", []string{rhs}, []string{types.ExprString(l)}})
					}
				case *ast.CallExpr:
					record(x, nil)
				}
				return true
			})
		}
	}
	q := func(l []string) string {
		qs := make([]string, len(l))
		for k, c := range l {
			qs[k] = fmt.Sprintf("%q", c)
		}
		return "[" + strings.Join(qs, ", ") + "]"
	}
	var b strings.Builder
	b.WriteString("/- generated from /repo by `vharness -stream astfacts` on every run; do not edit -/\nnamespace Generated\n\n")
	b.WriteString("/-- one call on the receiver (`target = \"self\"`), on its `base` / `backup` filesystem, of a package-level\nfunction (`\"pkg\"`), on a parameter of a package-level function (`\"param:<name>\"`, `recv = \"\"`), or a plain\nassignment (`target = \"assign\"`, `results` = the identifier, `args` = the right-hand side), in source order -/\n")
	b.WriteString("structure FlowFact where\n  recv : String\n  method : String\n  target : String\n  callee : String\n  args : List String\n  results : List String\nderiving Repr, DecidableEq\n\n")
	b.WriteString("def flowFacts : List FlowFact := [\n")
	for i, f := range facts {
		sep := ","
		if i == len(facts)-1 {
			sep = ""
		}
		fmt.Fprintf(&b, "  ⟨%q, %q, %q, %q, %s, %s⟩%s\n", f.Recv, f.Method, f.Target, f.Callee, q(f.Args), q(f.Results), sep)
	}
	b.WriteString("]\n\n/-- parameter names of every method of the layer types -/\ndef methodParams : List (String × String × List String) := [\n")
	for i, k := range order {
		sep := ","
		if i == len(order)-1 {
			sep = ""
		}
		fmt.Fprintf(&b, "  (%q, %q, %s)%s\n", k.r, k.m, q(params[k]), sep)
	}
	b.WriteString("]\n\nend Generated\n")
	return b.String(), nil
}
