package main

import (
	"fmt"
	"io"
	"io/fs"
	"os"
	"path"
	"strconv"
	"sync"
	"sync/atomic"
	"syscall"
	"time"

	"github.com/jxsl13/backupfs"
)

// SpyFS is an FS wrapper that records every primitive call (method + arguments), can refuse a
// call without forwarding it (fault plans) and can run a callback at every call (schedule
// points, crash-point snapshots).  With inner == nil it is a stub filesystem whose results are
// configurable: that is how single-call layers are observed ("the argument the spy receives is
// the function's value").
type SpyFS struct {
	Tag   string      // "base" / "backup" / ...
	Inner backupfs.FS // nil = stub mode

	Clock *int64 // shared logical clock: orders the calls of several spies

	mu    sync.Mutex
	Calls []CallRec
	// Hook runs before a call is forwarded. A non-nil error is returned to the caller and the
	// call is not forwarded.
	Hook func(rec CallRec) error

	// stub mode results
	StubReadlink string
	StubErr      error // returned by every stub method when non-nil
	StubIsDir    bool
}

type CallRec struct {
	Order  int64    `json:"order"`
	Seq    int      `json:"seq"`
	FS     string   `json:"fs"`
	Method string   `json:"method"`
	Args   []string `json:"args"`
}

func (r CallRec) String() string { return fmt.Sprintf("%s.%s%q", r.FS, r.Method, r.Args) }

var mutatingMethods = map[string]bool{
	"create": true, "mkdir": true, "mkdirall": true, "openfile": true, "remove": true, "removeall": true,
	"rename": true, "chmod": true, "chown": true, "chtimes": true, "symlink": true, "lchown": true,
	"write": true,
}

func (s *SpyFS) rec(method string, args ...string) (CallRec, error) {
	s.mu.Lock()
	r := CallRec{Seq: len(s.Calls), FS: s.Tag, Method: method, Args: args}
	if s.Clock != nil {
		r.Order = atomic.AddInt64(s.Clock, 1)
	}
	s.Calls = append(s.Calls, r)
	hook := s.Hook
	s.mu.Unlock()
	if hook != nil {
		if err := hook(r); err != nil {
			return r, err
		}
	}
	return r, nil
}

func (s *SpyFS) Reset() {
	s.mu.Lock()
	s.Calls = nil
	s.mu.Unlock()
}

func (s *SpyFS) Snapshot() []CallRec {
	s.mu.Lock()
	defer s.mu.Unlock()
	return append([]CallRec(nil), s.Calls...)
}

func itoa(i int) string { return strconv.Itoa(i) }

func timeArg(t time.Time) string { return strconv.FormatInt(t.UnixNano(), 10) }

func modeArg(m fs.FileMode) string { return strconv.FormatUint(uint64(m), 10) }

func (s *SpyFS) Name() string { return "SpyFS" }

func (s *SpyFS) wrapFile(f backupfs.File, name string, err error) (backupfs.File, error) {
	if err != nil {
		return nil, err
	}
	return &spyFile{File: f, spy: s, name: name}, nil
}

func (s *SpyFS) Create(name string) (backupfs.File, error) {
	if _, err := s.rec("create", name); err != nil {
		return nil, err
	}
	if s.Inner == nil {
		return s.stubFile(name)
	}
	f, err := s.Inner.Create(name)
	return s.wrapFile(f, name, err)
}

func (s *SpyFS) Mkdir(name string, perm fs.FileMode) error {
	if _, err := s.rec("mkdir", name, modeArg(perm)); err != nil {
		return err
	}
	if s.Inner == nil {
		return s.StubErr
	}
	return s.Inner.Mkdir(name, perm)
}

func (s *SpyFS) MkdirAll(name string, perm fs.FileMode) error {
	if _, err := s.rec("mkdirall", name, modeArg(perm)); err != nil {
		return err
	}
	if s.Inner == nil {
		return s.StubErr
	}
	return s.Inner.MkdirAll(name, perm)
}

func (s *SpyFS) Open(name string) (backupfs.File, error) {
	if _, err := s.rec("open", name); err != nil {
		return nil, err
	}
	if s.Inner == nil {
		return s.stubFile(name)
	}
	f, err := s.Inner.Open(name)
	return s.wrapFile(f, name, err)
}

func (s *SpyFS) OpenFile(name string, flag int, perm fs.FileMode) (backupfs.File, error) {
	if _, err := s.rec("openfile", name, itoa(flag), modeArg(perm)); err != nil {
		return nil, err
	}
	if s.Inner == nil {
		return s.stubFile(name)
	}
	f, err := s.Inner.OpenFile(name, flag, perm)
	return s.wrapFile(f, name, err)
}

func (s *SpyFS) Remove(name string) error {
	if _, err := s.rec("remove", name); err != nil {
		return err
	}
	if s.Inner == nil {
		return s.StubErr
	}
	return s.Inner.Remove(name)
}

func (s *SpyFS) RemoveAll(name string) error {
	if _, err := s.rec("removeall", name); err != nil {
		return err
	}
	if s.Inner == nil {
		return s.StubErr
	}
	return s.Inner.RemoveAll(name)
}

func (s *SpyFS) Rename(oldname, newname string) error {
	if _, err := s.rec("rename", oldname, newname); err != nil {
		return err
	}
	if s.Inner == nil {
		return s.StubErr
	}
	return s.Inner.Rename(oldname, newname)
}

func (s *SpyFS) Stat(name string) (fs.FileInfo, error) {
	if _, err := s.rec("stat", name); err != nil {
		return nil, err
	}
	if s.Inner == nil {
		return s.stubInfo(name)
	}
	return s.Inner.Stat(name)
}

func (s *SpyFS) Chmod(name string, mode fs.FileMode) error {
	if _, err := s.rec("chmod", name, modeArg(mode)); err != nil {
		return err
	}
	if s.Inner == nil {
		return s.StubErr
	}
	return s.Inner.Chmod(name, mode)
}

func (s *SpyFS) Chown(name string, uid, gid int) error {
	if _, err := s.rec("chown", name, itoa(uid), itoa(gid)); err != nil {
		return err
	}
	if s.Inner == nil {
		return s.StubErr
	}
	return s.Inner.Chown(name, uid, gid)
}

func (s *SpyFS) Chtimes(name string, atime, mtime time.Time) error {
	if _, err := s.rec("chtimes", name, timeArg(atime), timeArg(mtime)); err != nil {
		return err
	}
	if s.Inner == nil {
		return s.StubErr
	}
	return s.Inner.Chtimes(name, atime, mtime)
}

func (s *SpyFS) Lstat(name string) (fs.FileInfo, error) {
	if _, err := s.rec("lstat", name); err != nil {
		return nil, err
	}
	if s.Inner == nil {
		return s.stubInfo(name)
	}
	return s.Inner.Lstat(name)
}

func (s *SpyFS) Symlink(oldname, newname string) error {
	if _, err := s.rec("symlink", oldname, newname); err != nil {
		return err
	}
	if s.Inner == nil {
		return s.StubErr
	}
	return s.Inner.Symlink(oldname, newname)
}

func (s *SpyFS) Readlink(name string) (string, error) {
	if _, err := s.rec("readlink", name); err != nil {
		return "", err
	}
	if s.Inner == nil {
		if s.StubErr != nil {
			return "", s.StubErr
		}
		return s.StubReadlink, nil
	}
	return s.Inner.Readlink(name)
}

func (s *SpyFS) Lchown(name string, uid, gid int) error {
	if _, err := s.rec("lchown", name, itoa(uid), itoa(gid)); err != nil {
		return err
	}
	if s.Inner == nil {
		return s.StubErr
	}
	return s.Inner.Lchown(name, uid, gid)
}

// ---- stub objects: behave like os.File / os.FileInfo as far as names go ----------------

type stubInfo struct {
	name  string
	isDir bool
}

func (i stubInfo) Name() string { return i.name }
func (i stubInfo) Size() int64  { return 0 }
func (i stubInfo) Mode() fs.FileMode {
	if i.isDir {
		return fs.ModeDir | 0o755
	}
	return 0o644
}
func (i stubInfo) ModTime() time.Time { return time.Unix(1000, 0) }
func (i stubInfo) IsDir() bool        { return i.isDir }
func (i stubInfo) Sys() any           { return &syscall.Stat_t{} }

func (s *SpyFS) stubInfo(name string) (fs.FileInfo, error) {
	if s.StubErr != nil {
		return nil, s.StubErr
	}
	// os.FileInfo.Name() is the last element of the path the call was made with
	return stubInfo{name: path.Base(name), isDir: s.StubIsDir}, nil
}

type stubFile struct {
	name string
	spy  *SpyFS
}

func (s *SpyFS) stubFile(name string) (backupfs.File, error) {
	if s.StubErr != nil {
		return nil, s.StubErr
	}
	return &stubFile{name: name, spy: s}, nil
}

func (f *stubFile) Name() string                                 { return f.name } // os.File.Name() = the path as opened
func (f *stubFile) Readdir(count int) ([]fs.FileInfo, error)     { return nil, io.EOF }
func (f *stubFile) Readdirnames(n int) ([]string, error)         { return nil, io.EOF }
func (f *stubFile) Stat() (fs.FileInfo, error)                   { return f.spy.stubInfo(f.name) }
func (f *stubFile) Sync() error                                  { return nil }
func (f *stubFile) Truncate(size int64) error                    { return nil }
func (f *stubFile) WriteString(s string) (int, error)            { return len(s), nil }
func (f *stubFile) Close() error                                 { return nil }
func (f *stubFile) Read(p []byte) (int, error)                   { return 0, io.EOF }
func (f *stubFile) ReadAt(p []byte, off int64) (int, error)      { return 0, io.EOF }
func (f *stubFile) Seek(offset int64, whence int) (int64, error) { return 0, nil }
func (f *stubFile) Write(p []byte) (int, error)                  { return len(p), nil }
func (f *stubFile) WriteAt(p []byte, off int64) (int, error)     { return len(p), nil }

// ---- spyFile: handle-level primitives are recorded and can be faulted too ----------------

type spyFile struct {
	backupfs.File
	spy  *SpyFS
	name string
}

func (f *spyFile) Read(p []byte) (int, error) {
	if _, err := f.spy.rec("read", f.name); err != nil {
		return 0, err
	}
	return f.File.Read(p)
}

func (f *spyFile) Write(p []byte) (int, error) {
	if _, err := f.spy.rec("write", f.name, itoa(len(p))); err != nil {
		return 0, err
	}
	return f.File.Write(p)
}

func (f *spyFile) WriteString(s string) (int, error) {
	if _, err := f.spy.rec("write", f.name, itoa(len(s))); err != nil {
		return 0, err
	}
	return f.File.WriteString(s)
}

func (f *spyFile) Close() error {
	if _, err := f.spy.rec("close", f.name); err != nil {
		if err == errWriteback {
			_ = f.File.Truncate(0) // the written data never reached the disk (fails harmlessly on a read-only handle)
		}
		_ = f.File.Close() // do not leak the descriptor; the caller sees the injected error
		return err
	}
	return f.File.Close()
}

func (f *spyFile) Stat() (fs.FileInfo, error) {
	if _, err := f.spy.rec("fstat", f.name); err != nil {
		return nil, err
	}
	return f.File.Stat()
}

func (f *spyFile) Readdir(n int) ([]fs.FileInfo, error) {
	if _, err := f.spy.rec("readdir", f.name, itoa(n)); err != nil {
		return nil, err
	}
	return f.File.Readdir(n)
}

func (f *spyFile) Readdirnames(n int) ([]string, error) {
	if _, err := f.spy.rec("readdirnames", f.name, itoa(n)); err != nil {
		return nil, err
	}
	return f.File.Readdirnames(n)
}

var _ backupfs.FS = (*SpyFS)(nil)
var _ = os.ErrNotExist
