package main

// genLockFacts is filled in with the C10 work; until then it emits an empty module.
func genLockFacts(repo string) (string, error) {
	return "/- generated from /repo by vharness astfacts; do not edit -/\nnamespace Generated\nend Generated\n", nil
}
