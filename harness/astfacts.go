package main

import (
	"fmt"
	"go/ast"
	"go/parser"
	"go/token"
	"os"
	"path/filepath"
	"sort"
	"strings"
)

// genLockFacts parses /repo's non-test sources and emits, as Lean data, the lock-discipline facts
// of every method of *BackupFS (C10): whether the body takes the mutex at entry and releases it by
// a deferred Unlock, whether it unlocks explicitly, which of baseInfos / base / backup it touches,
// whether it issues a mutating call on them, and which other methods of the receiver it calls.
// A missing mu.Lock() is invisible to single-threaded differential testing: this is the one
// syntactic tie of the framework (DESIGN 4.4).

type regionFact struct {
	RefsInfos    bool     // mentions fsys.baseInfos
	MutatingCall bool     // a mutating method on fsys.base / fsys.backup (directly or through a helper taking them)
	Calls        []string // methods of the receiver called
}

type methodFact struct {
	Name          string
	Exported      bool
	LockPair      bool // a top-level `mu.Lock()` immediately followed by `defer mu.Unlock()`
	LocksAnywhere bool
	EarlyUnlock   bool       // an explicit (non-deferred) mu.Unlock() call
	Unlocked      regionFact // the statements before the lock pair (the whole body if there is none)
	Locked        regionFact // the statements after the lock pair
}

var mutatingFSMethods = map[string]bool{"Create": true, "Mkdir": true, "MkdirAll": true, "OpenFile": true, "Remove": true,
	"RemoveAll": true, "Rename": true, "Chmod": true, "Chown": true, "Chtimes": true, "Symlink": true, "Lchown": true}

// package-level helpers that mutate the filesystem they are handed
var mutatingHelpers = map[string]bool{"copyDir": true, "copyFile": true, "copySymlink": true, "restoreFile": true,
	"restoreSymlink": true, "writeFile": true, "chown": true}

func isMuCall(e ast.Expr, recv, name string) bool {
	call, ok := e.(*ast.CallExpr)
	if !ok {
		return false
	}
	sel, ok := call.Fun.(*ast.SelectorExpr)
	if !ok || sel.Sel.Name != name {
		return false
	}
	inner, ok := sel.X.(*ast.SelectorExpr)
	if !ok || inner.Sel.Name != "mu" {
		return false
	}
	id, ok := inner.X.(*ast.Ident)
	return ok && id.Name == recv
}

func genLockFacts(repo string) (string, error) {
	fset := token.NewFileSet()
	files, _ := filepath.Glob(filepath.Join(repo, "*.go"))
	sort.Strings(files)
	var facts []methodFact
	pkgFuncsTouchingInfos := []string{}
	for _, fn := range files {
		if strings.HasSuffix(fn, "_test.go") || strings.HasSuffix(fn, "_windows.go") {
			continue
		}
		f, err := parser.ParseFile(fset, fn, nil, 0)
		if err != nil {
			return "", err
		}
		for _, d := range f.Decls {
			fd, ok := d.(*ast.FuncDecl)
			if !ok || fd.Body == nil {
				continue
			}
			if fd.Recv == nil {
				// a package function mentioning baseInfos would bypass the discipline
				mentions := false
				ast.Inspect(fd.Body, func(n ast.Node) bool {
					if sel, ok := n.(*ast.SelectorExpr); ok && sel.Sel.Name == "baseInfos" {
						mentions = true
					}
					return true
				})
				if mentions {
					pkgFuncsTouchingInfos = append(pkgFuncsTouchingInfos, fd.Name.Name)
				}
				continue
			}
			// receiver must be *BackupFS
			star, ok := fd.Recv.List[0].Type.(*ast.StarExpr)
			if !ok {
				continue
			}
			id, ok := star.X.(*ast.Ident)
			if !ok || id.Name != "BackupFS" || len(fd.Recv.List[0].Names) == 0 {
				continue
			}
			recv := fd.Recv.List[0].Names[0].Name
			mf := methodFact{Name: fd.Name.Name, Exported: fd.Name.IsExported()}
			stmts := fd.Body.List
			lockIdx := -1
			for i := 0; i+1 < len(stmts); i++ {
				es, ok1 := stmts[i].(*ast.ExprStmt)
				ds, ok2 := stmts[i+1].(*ast.DeferStmt)
				if ok1 && ok2 && isMuCall(es.X, recv, "Lock") && isMuCall(ds.Call, recv, "Unlock") {
					lockIdx = i
					mf.LockPair = true
					break
				}
			}
			region := func(list []ast.Stmt) regionFact {
				var rf regionFact
				calls := map[string]bool{}
				inDefer := 0
				var visit func(n ast.Node) bool
				visit = func(n ast.Node) bool {
					switch x := n.(type) {
					case *ast.DeferStmt:
						inDefer++
						ast.Inspect(x.Call, visit)
						inDefer--
						return false
					case *ast.CallExpr:
						if isMuCall(x, recv, "Lock") {
							mf.LocksAnywhere = true
						}
						if isMuCall(x, recv, "Unlock") && inDefer == 0 {
							mf.EarlyUnlock = true
						}
						if sel, ok := x.Fun.(*ast.SelectorExpr); ok {
							if inner, ok := sel.X.(*ast.SelectorExpr); ok {
								if rid, ok := inner.X.(*ast.Ident); ok && rid.Name == recv && (inner.Sel.Name == "base" || inner.Sel.Name == "backup") {
									mut := mutatingFSMethods[sel.Sel.Name]
									// OpenFile(name, os.O_RDONLY, …) only reads
									if sel.Sel.Name == "OpenFile" && len(x.Args) >= 2 {
										if fs, ok := x.Args[1].(*ast.SelectorExpr); ok && fs.Sel.Name == "O_RDONLY" {
											mut = false
										}
									}
									if mut {
										rf.MutatingCall = true
									}
								}
							}
							if rid, ok := sel.X.(*ast.Ident); ok && rid.Name == recv {
								calls[sel.Sel.Name] = true
							}
						}
						if fid, ok := x.Fun.(*ast.Ident); ok && mutatingHelpers[fid.Name] {
							for _, a := range x.Args {
								if as, ok := a.(*ast.SelectorExpr); ok {
									if rid, ok := as.X.(*ast.Ident); ok && rid.Name == recv && (as.Sel.Name == "base" || as.Sel.Name == "backup") {
										rf.MutatingCall = true
									}
								}
							}
						}
					case *ast.SelectorExpr:
						if rid, ok := x.X.(*ast.Ident); ok && rid.Name == recv && x.Sel.Name == "baseInfos" {
							rf.RefsInfos = true
						}
					}
					return true
				}
				for _, st := range list {
					ast.Inspect(st, visit)
				}
				for c := range calls {
					rf.Calls = append(rf.Calls, c)
				}
				sort.Strings(rf.Calls)
				return rf
			}
			if lockIdx < 0 {
				mf.Unlocked = region(stmts)
			} else {
				mf.Unlocked = region(stmts[:lockIdx])
				mf.Locked = region(stmts[lockIdx+2:])
				mf.LocksAnywhere = true
			}
			facts = append(facts, mf)
		}
	}
	sort.Slice(facts, func(i, j int) bool { return facts[i].Name < facts[j].Name })
	var b strings.Builder
	b.WriteString("/- generated from /repo by `vharness -stream astfacts` on every run; do not edit -/\nnamespace Generated\n\n")
	b.WriteString("structure RegionFact where\n  refsInfos : Bool\n  mutatingCall : Bool\n  calls : List String\nderiving Repr, DecidableEq\n\n")
	b.WriteString("structure MethodFact where\n  name : String\n  exported : Bool\n  lockPair : Bool\n  locksAnywhere : Bool\n  earlyUnlock : Bool\n  unlocked : RegionFact\n  locked : RegionFact\nderiving Repr, DecidableEq\n\n")
	b.WriteString("def lockFacts : List MethodFact := [\n")
	q := func(l []string) string {
		qs := make([]string, len(l))
		for k, c := range l {
			qs[k] = fmt.Sprintf("%q", c)
		}
		return "[" + strings.Join(qs, ", ") + "]"
	}
	for i, f := range facts {
		sep := ","
		if i == len(facts)-1 {
			sep = ""
		}
		fmt.Fprintf(&b, "  ⟨%q, %v, %v, %v, %v, ⟨%v, %v, %s⟩, ⟨%v, %v, %s⟩⟩%s\n", f.Name, f.Exported, f.LockPair, f.LocksAnywhere, f.EarlyUnlock,
			f.Unlocked.RefsInfos, f.Unlocked.MutatingCall, q(f.Unlocked.Calls), f.Locked.RefsInfos, f.Locked.MutatingCall, q(f.Locked.Calls), sep)
	}
	b.WriteString("]\n\n")
	qs := make([]string, len(pkgFuncsTouchingInfos))
	for k, c := range pkgFuncsTouchingInfos {
		qs[k] = fmt.Sprintf("%q", c)
	}
	fmt.Fprintf(&b, "/-- package-level functions that mention `baseInfos` (expected: none) -/\ndef pkgFuncsTouchingInfos : List String := [%s]\n\nend Generated\n", strings.Join(qs, ", "))
	return b.String(), nil
}

var _ = os.Stat
