package main

import (
	"errors"
	"fmt"
	"io"
	"io/fs"
	"os"
	"path"
	"path/filepath"
	"strings"

	"github.com/jxsl13/backupfs"
)

// 4.2-e: listings through HiddenFS.Open(dir).Readdirnames / Readdir with arbitrary count
// sequences, against lean/Model/Listing.lean, plus the C11 oracle on the implementation.

func init() {
	streams["listing"] = streamListing
	replayKinds["listing"] = func(cfg *Config, c map[string]any, b *Batch, res *Result) error {
		var lc ListCase
		if err := remarshal(c, &lc); err != nil {
			return err
		}
		return runListCase(&lc, b, res)
	}
}

type ListCase struct {
	Kind    string   `json:"kind"` // "listing"
	Dir     string   `json:"dir"`  // spelling used to open the directory
	Entries []string `json:"entries"`
	Hidden  []string `json:"hidden"`
	Counts  []int    `json:"counts"`
	Readdir bool     `json:"readdir"`
}

func runListCase(c *ListCase, b *Batch, res *Result) error {
	rc, err := newRealCase()
	if err != nil {
		return err
	}
	defer rc.Close()
	dir := path.Clean("/" + c.Dir)
	if err := os.MkdirAll(rc.Root+dir, 0o755); err != nil {
		return err
	}
	for i, n := range c.Entries {
		p := rc.Root + dir + "/" + n
		switch i % 3 {
		case 0:
			err = os.WriteFile(p, []byte("x"), 0o644)
		case 1:
			err = os.Mkdir(p, 0o755)
		default:
			err = os.Symlink("nowhere", p)
		}
		if err != nil {
			return err
		}
	}
	inner, _ := backupfs.NewPrefixFS(backupfs.NewOSFS(), rc.Root)
	h, err := backupfs.NewHiddenFS(inner, c.Hidden...)
	if err != nil {
		return err
	}
	// the base order of the directory stream
	df, err := os.Open(rc.Root + dir)
	if err != nil {
		return err
	}
	order, _ := df.Readdirnames(-1)
	df.Close()
	f, err := h.Open(c.Dir)
	if err != nil {
		return fmt.Errorf("open %q: %w", c.Dir, err)
	}
	defer f.Close()
	tag := fmt.Sprintf("list#%p", c)
	begin := append([]string{"list.begin", c.Dir, itoa(len(c.Hidden))}, c.Hidden...)
	begin = append(begin, order...)
	b.Add(tag+" begin", line(begin...), "ok")
	var got []string
	failed := false
	sawEOF := false
	for i, n := range c.Counts {
		var names []string
		var cerr error
		if c.Readdir {
			var infos []fs.FileInfo
			infos, cerr = f.Readdir(n)
			for _, fi := range infos {
				names = append(names, fi.Name())
			}
		} else {
			names, cerr = f.Readdirnames(n)
		}
		var out []string
		switch {
		case cerr == nil:
			out = append([]string{"ok"}, names...)
		case errors.Is(cerr, io.EOF) && len(names) == 0:
			out = []string{"eof"}
		case errors.Is(cerr, io.EOF):
			out = append([]string{"ok+eof"}, names...)
		default:
			out = []string{"err", errClass(cerr)}
			failed = true
		}
		if sawEOF && len(names) > 0 {
			res.violate(Violation{Property: listingProp, What: fmt.Sprintf("listing call %d (count %d) on %q with hidden %q returned %q after an earlier call had reported io.EOF: EOF before the directory was exhausted", i, n, c.Dir, c.Hidden, names), Case: c})
		}
		if out[0] == "eof" {
			sawEOF = true
		}
		got = append(got, names...)
		b.Add(fmt.Sprintf("%s call%d count=%d", tag, i, n), line("list.names", itoa(n)), line(out...))
		res.count("list.call." + out[0])
		if out[0] == "ok+eof" || (out[0] == "err") {
			res.violate(Violation{Property: listingProp, What: fmt.Sprintf("listing call %d (count %d) on %q with hidden %q returned %v", i, n, c.Dir, c.Hidden, out), Case: c})
		}
	}
	// C11 oracle: the concatenated batches are exactly the visible entries, each once, in base order
	var want []string
	for _, n := range order {
		hid := false
		full := path.Join(dir, n)
		for _, hp := range c.Hidden {
			if withinGo(filepath.Clean(hp), full) {
				hid = true
			}
		}
		if !hid {
			want = append(want, n)
		}
	}
	if !failed && sawEOF && len(got) < len(want) {
		res.violate(Violation{Property: listingProp, What: fmt.Sprintf("listing of %q (hidden %q, counts %v, readdir=%v) reported io.EOF after %q, the visible entries are %q", c.Dir, c.Hidden, c.Counts, c.Readdir, got, want), Case: c})
	} else if !failed && strings.Join(got, "\x00") != strings.Join(want, "\x00") {
		res.violate(Violation{Property: listingProp, What: fmt.Sprintf("listing of %q (hidden %q, counts %v, readdir=%v) returned %q, the visible entries in base order are %q", c.Dir, c.Hidden, c.Counts, c.Readdir, got, want), Case: c})
	}
	return nil
}

// listingProp: the property the listing oracle reports under (C11; C04 "cannot … list" when the
// check of the sealed backup location runs this stream)
var listingProp = "C11"

func streamListing(cfg *Config, res *Result) error {
	if cfg.Prop == "C04" || cfg.Prop == "C15" {
		// C04: "cannot … list"; C15: the visible entries of a directory are listed exactly as the
		// underlying filesystem lists them (same entries, same pages but for the filtered ones)
		listingProp = cfg.Prop
	}
	r := newRNG(cfg.Seed, "listing")
	n := 1500
	if cfg.Tier == "thorough" {
		n = 30000
	}
	if cfg.N > 0 {
		n = cfg.N
	}
	res.Rule = "seeded random (directory content of 0-8 entries: files, directories, links; hidden set: entries of the directory, paths below them, string-prefix siblings, paths elsewhere; spelling of the directory name; sequence of 1-6 counts from -1..size+2 followed by a draining -1; Readdir or Readdirnames); every call compared with the model's hiddenReaddirnames on the base order of the directory stream; non-trivial = the directory has a hidden entry and at least one positive count; distinct by case"
	b := &Batch{}
	distinct := map[string]struct{}{}
	names := []string{"a", "b", "ab", "h", "h2", "hh", "ä", "x€", "c", "d", "..x"}
	for _, raw := range corpusCases("listing") {
		var lc ListCase
		if remarshal(raw, &lc) == nil {
			if err := runListCase(&lc, b, res); err != nil {
				return err
			}
			res.count("corpus.cases")
		}
	}
	for i := 0; i < n; i++ {
		c := &ListCase{Kind: "listing", Readdir: r.Bool()}
		k := r.Intn(9)
		perm := r.Perm(len(names))
		for _, idx := range perm[:min(k, len(names))] {
			c.Entries = append(c.Entries, names[idx])
		}
		dirName := r.Pick([]string{"/d", "/d/", "//d", "/x/../d", "/d/sub", "d"})
		c.Dir = dirName
		dir := path.Clean("/" + dirName)
		nh := r.Intn(4)
		for j := 0; j < nh; j++ {
			var hp string
			switch r.Intn(5) {
			case 0, 1:
				if len(c.Entries) > 0 {
					hp = dir + "/" + r.Pick(c.Entries)
				} else {
					hp = dir + "/h"
				}
			case 2:
				hp = dir + "/" + r.Pick(names) + "/below"
			case 3:
				hp = dir + "/" + r.Pick(names)
			default:
				hp = "/elsewhere/" + r.Pick(names)
			}
			if strings.HasPrefix(dirName, "/") || true {
				c.Hidden = append(c.Hidden, hp)
			}
		}
		if !strings.HasPrefix(dirName, "/") {
			c.Hidden = nil // a relative directory name cannot be related to rooted hidden paths
		}
		nc := 1 + r.Intn(6)
		positive := false
		for j := 0; j < nc; j++ {
			cnt := r.Intn(len(c.Entries)+4) - 1
			if r.Chance(1, 12) {
				cnt = []int{1 << 20, 1 << 40, int(^uint(0) >> 1)}[r.Intn(3)] // "any count": os.File accepts math.MaxInt
			}
			if cnt > 0 {
				positive = true
			}
			c.Counts = append(c.Counts, cnt)
		}
		c.Counts = append(c.Counts, -1)
		if err := runListCase(c, b, res); err != nil {
			return err
		}
		res.Evaluations++
		hasHiddenEntry := false
		for _, hp := range c.Hidden {
			for _, e := range c.Entries {
				if withinGo(filepath.Clean(hp), dir+"/"+e) {
					hasHiddenEntry = true
				}
			}
		}
		if hasHiddenEntry && positive {
			distinct[fmt.Sprint(*c)] = struct{}{}
		}
		if i < 3 {
			res.sample(c)
		}
	}
	ds, err := b.Compare(cfg.Driver)
	if err != nil {
		return err
	}
	res.addDisagreements(ds)
	res.DistinctNontrivial = len(distinct)
	return nil
}
