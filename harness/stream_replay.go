package main

import (
	"encoding/json"
	"fmt"
	"os"
)

func init() { streams["replay"] = streamReplay }

// streamReplay re-executes a replay file written by ./check on the current /repo tree and on the
// model, and reports what it observes now.
func streamReplay(cfg *Config, res *Result) error {
	raw, err := os.ReadFile(cfg.Replay)
	if err != nil {
		return err
	}
	var m map[string]any
	if err := json.Unmarshal(raw, &m); err != nil {
		return err
	}
	c, _ := m["case"].(map[string]any)
	if c == nil {
		c = m
	}
	b := &Batch{}
	distinct := map[string]struct{}{}
	switch c["kind"] {
	case "layer":
		var lc LayerCase
		if err := remarshal(c, &lc); err != nil {
			return err
		}
		evalLayerCase(lc, b, res, distinct)
	default:
		if f, ok := replayKinds[fmt.Sprint(c["kind"])]; ok {
			if err := f(cfg, c, b, res); err != nil {
				return err
			}
		} else {
			fmt.Printf("replay: this file names a broken proof obligation or correspondence stream, not an input: %v\n", m["what"])
			return nil
		}
	}
	if b.Len() > 0 {
		ds, err := b.Compare(cfg.Driver)
		if err != nil {
			return err
		}
		res.addDisagreements(ds)
		if os.Getenv("VH_VERBOSE") != "" {
			out, _ := runDriver(cfg.Driver, b.in)
			for i := range b.in {
				mark := "  "
				if i < len(out) && out[i] != b.impl[i] {
					mark = "!!"
				}
				fmt.Printf("%s %s\n     in   : %.300s\n     impl : %.600s\n", mark, b.tag[i], b.in[i], b.impl[i])
				if mark == "!!" {
					fmt.Printf("     model: %.600s\n", out[i])
				}
			}
		}
	}
	for _, v := range res.Violations {
		fmt.Printf("REPRODUCED property=%s: %s\n", v.Property, v.What)
	}
	for k, n := range res.KnownHits {
		fmt.Printf("KNOWN-FINDING %s reproduced (%d)\n", k, n)
	}
	for _, d := range res.Disagreements {
		fmt.Printf("MODEL/IMPL DISAGREE on %s: impl=%q model=%q\n", d.Input, d.Impl, d.Model)
	}
	if len(res.Violations) == 0 && len(res.KnownHits) == 0 && len(res.Disagreements) == 0 {
		fmt.Println("replay: the case passes on the current tree")
	}
	if len(res.Violations) > 0 {
		os.Exit(1)
	}
	return nil
}

// replayKinds is filled by the other streams (history, listing, fault cases, …).
var replayKinds = map[string]func(cfg *Config, c map[string]any, b *Batch, res *Result) error{}
