package main

import (
	"bufio"
	"bytes"
	"fmt"
	"os"
	"os/exec"
	"strings"
)

// line protocol shared with lean/Driver/Codec.lean: TAB separated fields, backslash escapes.

func esc(s string) string {
	if !strings.ContainsAny(s, "\\\t\n\r") {
		return s
	}
	var b strings.Builder
	for i := 0; i < len(s); i++ {
		switch s[i] {
		case '\\':
			b.WriteString("\\\\")
		case '\t':
			b.WriteString("\\t")
		case '\n':
			b.WriteString("\\n")
		case '\r':
			b.WriteString("\\r")
		default:
			b.WriteByte(s[i])
		}
	}
	return b.String()
}

func line(fields ...string) string {
	out := make([]string, len(fields))
	for i, f := range fields {
		out[i] = esc(f)
	}
	return strings.Join(out, "\t")
}

// Batch collects driver input lines together with the implementation's answer for each.
type Batch struct {
	in   []string
	impl []string
	tag  []string // free text describing the case, for reports
}

func (b *Batch) Add(tag, in, impl string) {
	b.in = append(b.in, in)
	b.impl = append(b.impl, impl)
	b.tag = append(b.tag, tag)
}

func (b *Batch) Len() int { return len(b.in) }

// runDriver pipes all lines through the Lean driver and returns its output lines.
func runDriver(driver string, lines []string) ([]string, error) {
	cmd := exec.Command(driver)
	var in bytes.Buffer
	for _, l := range lines {
		in.WriteString(l)
		in.WriteByte('\n')
	}
	cmd.Stdin = &in
	var out bytes.Buffer
	cmd.Stdout = &out
	cmd.Stderr = os.Stderr
	if err := cmd.Run(); err != nil {
		return nil, fmt.Errorf("driver: %w", err)
	}
	res := make([]string, 0, len(lines))
	sc := bufio.NewScanner(&out)
	sc.Buffer(make([]byte, 1<<20), 1<<28)
	for sc.Scan() {
		res = append(res, sc.Text())
	}
	if len(res) != len(lines) {
		return res, fmt.Errorf("driver returned %d lines for %d inputs", len(res), len(lines))
	}
	return res, nil
}

// Disagreement is one input on which model and implementation differ.
type Disagreement struct {
	Tag   string `json:"tag"`
	Input string `json:"input"`
	Impl  string `json:"impl"`
	Model string `json:"model"`
	Case  any    `json:"case,omitempty"`
}

// Compare runs the batch through the driver and lists the differing lines.
func (b *Batch) Compare(driver string) ([]Disagreement, error) {
	out, err := runDriver(driver, b.in)
	if err != nil {
		return nil, err
	}
	var ds []Disagreement
	for i := range b.in {
		if out[i] != b.impl[i] {
			ds = append(ds, Disagreement{Tag: b.tag[i], Input: b.in[i], Impl: b.impl[i], Model: out[i]})
		}
	}
	return ds, nil
}
