package main

import (
	"errors"
	"fmt"
	"io"
	"io/fs"
	"os"
	"path/filepath"
	"strings"
	"syscall"
	"time"

	"github.com/jxsl13/backupfs"
)

// 4.2-c: single-call layers (PrefixFS, VolumeFS, HiddenFS) over a stub spy base.
// Compared with the model: refusal class or the exact base call; Readlink / Name() results.
// Oracles on the implementation: C05, C06, C14, C15, C18 stated directly.

func errClass(err error) string {
	if err == nil {
		return "ok"
	}
	msg := err.Error()
	switch {
	case errors.Is(err, backupfs.ErrHiddenNotExist):
		return "hiddenNotExist"
	case errors.Is(err, backupfs.ErrHiddenPermission):
		return "hiddenPerm"
	case strings.Contains(msg, "parent of hidden check failed"):
		return "parentCheck"
	case strings.Contains(msg, "hidden check failed"):
		return "hiddenCheck"
	case errors.Is(err, errInjected), strings.Contains(msg, "injected fault"):
		return "io"
	case errors.Is(err, io.EOF):
		return "eof"
	case strings.Contains(msg, "file-info"):
		return "typeMismatch"
	case strings.Contains(msg, "empty file path"):
		return "emptyPath"
	}
	var en syscall.Errno
	if errors.As(err, &en) {
		switch en {
		case syscall.ENOENT:
			return "notExist"
		case syscall.ENOTDIR:
			return "notDir"
		case syscall.EEXIST:
			return "exist"
		case syscall.ENOTEMPTY:
			return "notEmpty"
		case syscall.EISDIR:
			return "isDir"
		case syscall.EINVAL:
			return "inval"
		case syscall.ELOOP:
			return "loop"
		case syscall.EPERM, syscall.EACCES:
			return "perm"
		case syscall.EIO:
			return "io"
		}
	}
	if errors.Is(err, fs.ErrNotExist) {
		return "notExist"
	}
	if errors.Is(err, fs.ErrExist) {
		return "exist"
	}
	if errors.Is(err, fs.ErrPermission) {
		return "perm"
	}
	return "other"
}

var errInjected = &os.PathError{Op: "injected", Path: "fault", Err: syscall.EIO}

// errWriteback: an injected Close failure after which the data written through the handle is lost
var errWriteback = &os.PathError{Op: "injected-writeback", Path: "fault", Err: syscall.EIO}

// MCall is one FS-interface call in canonical form (method + string arguments).
type MCall struct {
	M string   `json:"m"`
	A []string `json:"a"`
}

func (c MCall) fields() []string { return append([]string{c.M}, c.A...) }

// invoke performs the call on fsys; returns the error and, for readlink/open/lstat/stat, a datum.
func invoke(fsys backupfs.FS, c MCall) (ret string, err error) {
	a := c.A
	atoi := func(s string) int { var v int; fmt.Sscan(s, &v); return v }
	atou := func(s string) uint32 { var v uint32; fmt.Sscan(s, &v); return v }
	atot := func(s string) time.Time { var v int64; fmt.Sscan(s, &v); return time.Unix(0, v) }
	switch c.M {
	case "create":
		var f backupfs.File
		f, err = fsys.Create(a[0])
		if err == nil {
			ret = f.Name()
			f.Close()
		}
	case "mkdir":
		err = fsys.Mkdir(a[0], fs.FileMode(atou(a[1])))
	case "mkdirall":
		err = fsys.MkdirAll(a[0], fs.FileMode(atou(a[1])))
	case "open":
		var f backupfs.File
		f, err = fsys.Open(a[0])
		if err == nil {
			ret = f.Name()
			f.Close()
		}
	case "openfile":
		var f backupfs.File
		f, err = fsys.OpenFile(a[0], atoi(a[1]), fs.FileMode(atou(a[2])))
		if err == nil {
			ret = f.Name()
			f.Close()
		}
	case "remove":
		err = fsys.Remove(a[0])
	case "removeall":
		err = fsys.RemoveAll(a[0])
	case "rename":
		err = fsys.Rename(a[0], a[1])
	case "stat":
		var fi fs.FileInfo
		fi, err = fsys.Stat(a[0])
		if err == nil {
			ret = fi.Name()
		}
	case "chmod":
		err = fsys.Chmod(a[0], fs.FileMode(atou(a[1])))
	case "chown":
		err = fsys.Chown(a[0], atoi(a[1]), atoi(a[2]))
	case "chtimes":
		err = fsys.Chtimes(a[0], atot(a[1]), atot(a[2]))
	case "lstat":
		var fi fs.FileInfo
		fi, err = fsys.Lstat(a[0])
		if err == nil {
			ret = fi.Name()
		}
	case "symlink":
		err = fsys.Symlink(a[0], a[1])
	case "readlink":
		ret, err = fsys.Readlink(a[0])
	case "lchown":
		err = fsys.Lchown(a[0], atoi(a[1]), atoi(a[2]))
	default:
		panic("unknown method " + c.M)
	}
	return ret, err
}

var allMethods = []string{"create", "mkdir", "mkdirall", "open", "openfile", "remove", "removeall", "rename",
	"stat", "chmod", "chown", "chtimes", "lstat", "symlink", "readlink", "lchown"}

var openFlags = []int{os.O_RDONLY, os.O_WRONLY, os.O_RDWR, os.O_RDWR | os.O_CREATE, os.O_WRONLY | os.O_CREATE | os.O_TRUNC,
	os.O_RDWR | os.O_CREATE | os.O_EXCL, os.O_WRONLY | os.O_APPEND, os.O_RDWR | os.O_TRUNC}

// mkCall builds a call of method m on name n (second name n2 for rename/symlink).
func mkCall(r *RNG, m, n, n2 string) MCall {
	switch m {
	case "mkdir", "mkdirall":
		return MCall{m, []string{n, modeArg(fs.FileMode([]uint32{0o755, 0o700, 0o777, 0o1777}[r.Intn(4)]))}}
	case "openfile":
		return MCall{m, []string{n, itoa(openFlags[r.Intn(len(openFlags))]), modeArg(fs.FileMode([]uint32{0o644, 0o600, 0o666}[r.Intn(3)]))}}
	case "rename", "symlink":
		return MCall{m, []string{n, n2}}
	case "chmod":
		return MCall{m, []string{n, modeArg(fs.FileMode(0o640) | []fs.FileMode{0, fs.ModeSetuid, fs.ModeSticky}[r.Intn(3)])}}
	case "chown", "lchown":
		return MCall{m, []string{n, itoa(r.Intn(3) * 500), itoa(r.Intn(3) * 501)}}
	case "chtimes":
		t := int64(1_000_000_000+r.Intn(1000)) * 1_000_000_000
		return MCall{m, []string{n, fmt.Sprint(t), fmt.Sprint(t + 5)}}
	default:
		return MCall{m, []string{n}}
	}
}

// compsGo returns the non-empty components of a path string.
func compsGo(p string) []string {
	var out []string
	for _, c := range strings.Split(p, "/") {
		if c != "" {
			out = append(out, c)
		}
	}
	return out
}

// withinGo: component-wise containment of p in a, independent of the repo code.
func withinGo(a, p string) bool {
	if strings.HasPrefix(a, "/") != strings.HasPrefix(p, "/") {
		return false
	}
	ca, cp := compsGo(a), compsGo(p)
	if a == "." {
		ca = nil
	}
	if len(cp) < len(ca) {
		return false
	}
	for i := range ca {
		if ca[i] != cp[i] {
			return false
		}
	}
	for _, c := range cp[len(ca):] {
		if c == ".." {
			return false
		}
	}
	return true
}

func spyCallFields(c CallRec) []string { return append([]string{"call", c.Method}, c.Args...) }

// pathArgs returns the filesystem-entry path arguments of a recorded base call.
func pathArgs(c CallRec) []string {
	switch c.Method {
	case "rename":
		return []string{c.Args[0], c.Args[1]}
	case "symlink":
		return []string{c.Args[1]}
	default:
		return []string{c.Args[0]}
	}
}

func init() { streams["layers"] = streamLayers }

// LayerCase is one replayable case of the layers stream.
type LayerCase struct {
	Kind         string   `json:"kind"` // "layer"
	Layer        string   `json:"layer"`
	Prefix       string   `json:"prefix,omitempty"`
	Hidden       []string `json:"hidden,omitempty"`
	Volume       string   `json:"volume,omitempty"`
	Call         MCall    `json:"call"`
	StubReadlink string   `json:"stub_readlink,omitempty"`
}

func evalLayerCase(lc LayerCase, b *Batch, res *Result, distinct map[string]struct{}) {
	switch lc.Layer {
	case "prefix":
		evalPrefixCase(lc, b, res, distinct)
	case "hidden":
		evalHiddenCase(lc, b, res, distinct)
	case "volume":
		evalVolumeCase(lc, b, res, distinct)
	}
}

var prefixes = []string{"/r/app", "/r/app/", "/", "/some/test/prefix", ".", "", "rel", "rel/sub", "/r//app/../app", "/ä/€", "/r/app2"}

var hiddenSets = [][]string{
	{"/var/opt/backups"}, {"/bak"}, {"/a/b", "/a/b/c/d"}, {"/x", "/y/z"}, {"/var/opt/backups/"}, {"//bak/./x"},
	{"/backups", "/backups2/inner"}, {"/ä/€"}, {"rel/hid"}, {"/"}, {},
	// a MORE nested hidden path with a SHORTER text than a less nested one (the list is ordered by depth, not by length)
	{"/a/b/.bk", "/projects_data/.bk"}, {"/x/y/z", "/directory/h"},
}

// nameNear builds names at, below, beside and above the interesting path p.
func nameNear(r *RNG, p string) string {
	cl := filepath.Clean(p)
	switch r.Intn(12) {
	case 0:
		return p
	case 1:
		return cl
	case 2:
		return cl + "/" + r.Pick(fragments)
	case 3:
		return cl + "/" + r.Pick(fragments) + "/" + r.Pick(fragments)
	case 4:
		return cl + "2" // sibling sharing a string prefix
	case 5:
		return cl + "2/" + r.Pick(fragments)
	case 6:
		return filepath.Dir(cl)
	case 7:
		return cl + "/../" + filepath.Base(cl) + "/x" // unclean spelling of a path below
	case 8:
		return strings.ReplaceAll(cl, "/", "//") + "/"
	case 9:
		return cl + "/.."
	case 10:
		return strings.TrimPrefix(cl, "/") // relative spelling
	default:
		switch r.Intn(3) {
		case 0: // any ancestor, not only the direct parent
			ch := chainOf(cl)
			return ch[r.Intn(len(ch))]
		case 1: // a shallower name that merely shares a string prefix
			if rs := []rune(cl); len(rs) > 2 {
				t := strings.TrimSuffix(string(rs[:1+r.Intn(len(rs)-1)]), "/")
				if t != "" {
					return t
				}
			}
			return cl
		default:
			return randPath(r)
		}
	}
}

func streamLayers(cfg *Config, res *Result) error {
	r := newRNG(cfg.Seed, "layers")
	b := &Batch{}
	n := 30000
	if cfg.Tier == "thorough" {
		n = 600000
	}
	if cfg.N > 0 {
		n = cfg.N
	}
	res.Rule = "seeded random (layer configuration, method, argument spelling) triples: prefixes/hidden sets from a fixed pool incl. unclean, relative, root and non-ASCII ones; names at, below, beside (string-prefix siblings), above the prefix/hidden path, unclean and relative spellings, '..' runs, random path-shaped strings; all 16 path-taking methods; non-trivial = the layer refused the call or rewrote at least one argument; distinct by (layer, configuration, call)"
	distinct := map[string]struct{}{}
	for _, raw := range corpusCases("layer") {
		var lc LayerCase
		if remarshal(raw, &lc) == nil {
			evalLayerCase(lc, b, res, distinct)
			res.count("corpus.cases")
		}
	}
	for i := 0; i < n; i++ {
		var lc LayerCase
		switch r.Intn(3) {
		case 0:
			lc = genPrefixCase(r)
		case 1:
			lc = genHiddenCase(r)
		default:
			lc = genVolumeCase(r)
		}
		evalLayerCase(lc, b, res, distinct)
	}
	ds, err := b.Compare(cfg.Driver)
	if err != nil {
		return err
	}
	res.addDisagreements(ds)
	res.DistinctNontrivial = len(distinct)
	return nil
}

func genPrefixCase(r *RNG) LayerCase {
	pre := r.Pick(prefixes)
	cpre := filepath.Clean(pre)
	m := r.Pick(allMethods)
	var n1, n2 string
	mk := func() string {
		switch r.Intn(8) {
		case 0:
			return "../" + filepath.Base(cpre) + "2/x" // the D8 shape
		case 1:
			return strings.Repeat("../", r.Intn(4)) + r.Pick(fragments)
		case 2:
			return "/" + strings.Repeat("../", r.Intn(3)) + r.Pick(fragments)
		case 3:
			return nameNear(r, cpre)
		case 4:
			// a name INSIDE the prefix whose first component starts with the text of the prefix (or of its
			// last component): what the base reports for it begins like the prefix does
			return "/" + r.Pick([]string{cpre, filepath.Base(cpre)}) + r.Pick([]string{"x", "2", "x/y", ""})
		default:
			return randPath(r)
		}
	}
	n1, n2 = mk(), mk()
	if m == "symlink" && r.Chance(1, 2) {
		n1 = strings.Repeat("../", r.Intn(4)) + r.Pick(fragments) // relative targets with '..' runs
	}
	c := mkCall(r, m, n1, n2)
	stub := ""
	if m == "readlink" {
		// stored targets: inside the prefix, the prefix itself, string-prefix sibling, relative
		switch r.Intn(6) {
		case 0:
			stub = cpre
		case 1:
			stub = filepath.Join(cpre, randPath(r))
		case 2:
			stub = cpre + "2/x"
		case 3:
			stub = "../" + r.Pick(fragments)
		default:
			stub = randPath(r)
		}
	}
	return LayerCase{Kind: "layer", Layer: "prefix", Prefix: pre, Call: c, StubReadlink: stub}
}

func evalPrefixCase(lc LayerCase, b *Batch, res *Result, distinct map[string]struct{}) {
	pre, c := lc.Prefix, lc.Call
	cpre := filepath.Clean(pre)
	spy := &SpyFS{Tag: "base", StubReadlink: lc.StubReadlink}
	p, err := backupfs.NewPrefixFS(spy, pre)
	if err != nil {
		return
	}
	ret, ierr := invoke(p, c)
	calls := spy.Snapshot()
	res.Evaluations++
	key := "prefix\x00" + pre + "\x00" + strings.Join(c.fields(), "\x00")
	in := line(append([]string{"prefix.call", pre}, c.fields()...)...)
	var impl string
	switch {
	case len(calls) == 0:
		impl = line("err", errClass(ierr))
		res.count("prefix.refused." + errClass(ierr))
		distinct[key] = struct{}{}
	case len(calls) == 1:
		impl = line(spyCallFields(calls[0])...)
		res.count("prefix.delegated")
		if strings.Join(calls[0].Args, "\x00") != strings.Join(c.A, "\x00") {
			distinct[key] = struct{}{}
		}
	default:
		impl = fmt.Sprintf("calls=%d", len(calls))
	}
	b.Add("prefix.call", in, impl)
	if res.Distribution["prefix.sampled"] < 2 {
		res.count("prefix.sampled")
		res.sample(map[string]any{"layer": "PrefixFS", "prefix": pre, "call": c, "base_saw": calls, "err": errClass(ierr)})
	}

	// ---- oracles on the implementation -------------------------------------------------
	viol := func(prop, what string) {
		res.violate(Violation{Property: prop, What: what, Case: lc})
	}
	for _, bc := range calls {
		for _, a := range pathArgs(bc) {
			if !withinGo(cpre, a) {
				viol("C05", fmt.Sprintf("PrefixFS(%q).%s%q made the base access %q, outside the prefix", pre, c.M, c.A, a))
			}
		}
		if bc.Method == "symlink" {
			old, nw := bc.Args[0], bc.Args[1]
			eff := old
			if !strings.HasPrefix(old, "/") {
				eff = filepath.Dir(nw) + "/" + old
			}
			// lexical effective target must stay inside (relative prefixes: rooted-ness follows the prefix)
			if !withinGo(cpre, filepath.Clean(eff)) {
				if !strings.HasPrefix(cpre, "/") && strings.HasPrefix(c.A[0], "/") {
					// known finding: a relative prefix stores an absolute target as relative text
					res.violate(Violation{Property: "C05", Known: "K-relprefix-abslink", What: "relative prefix + absolute link target", Case: lc})
					continue
				}
				viol("C05", fmt.Sprintf("PrefixFS(%q).Symlink(%q,%q) stored target %q at %q: effective target %q leaves the prefix", pre, c.A[0], c.A[1], old, nw, filepath.Clean(eff)))
			}
		}
	}
	if ierr != nil && len(calls) == 0 && errClass(ierr) != "perm" {
		viol("C05", fmt.Sprintf("rejected name reported %v, not a permission error", ierr))
	}
	// C14, every prefix (relative ones too): "exactly the … result of the same operation on the underlying
	// filesystem" — the FileInfo of an entry other than the root carries the name the base reports
	if ierr == nil && len(calls) == 1 && (c.M == "stat" || c.M == "lstat") {
		// the model's `reportedInfoName`, for every prefix
		b.Add("prefix.infoname", line("prefix.infoname", pre, calls[0].Args[0], filepath.Base(calls[0].Args[0])), line(ret))
	}
	if ierr == nil && len(calls) == 1 && (c.M == "stat" || c.M == "lstat") && calls[0].Args[0] != cpre {
		if want := filepath.Base(calls[0].Args[0]); ret != want {
			viol("C14", fmt.Sprintf("FileInfo.Name() = %q for %q through PrefixFS(%q), the underlying filesystem reports %q for %q", ret, c.A[0], pre, want, calls[0].Args[0]))
		}
	}
	// C14: names that stay inside are mapped to prefix + cleaned name (rooted prefixes)
	if strings.HasPrefix(cpre, "/") && len(calls) == 1 {
		want := func(nm string) string { return filepath.Join(cpre, filepath.Clean("/"+nm)) }
		stays := func(nm string) bool {
			cn := filepath.Clean(nm)
			return cn != ".." && !strings.HasPrefix(cn, "../")
		}
		pa := pathArgs(calls[0])
		var names []string
		switch c.M {
		case "rename":
			names = []string{c.A[0], c.A[1]}
		case "symlink":
			names = []string{c.A[1]}
		default:
			names = []string{c.A[0]}
		}
		// "exactly the effect and result of the same operation": same method, same non-path arguments
		// (create/open may be delegated as the OpenFile they abbreviate)
		if calls[0].Method == c.M {
			npIn, npOut := c.A[len(names):], calls[0].Args[len(names):]
			if c.M == "symlink" {
				npIn, npOut = nil, nil // symlink's first argument is the target (checked below)
			}
			if strings.Join(npIn, "\x00") != strings.Join(npOut, "\x00") {
				viol("C14", fmt.Sprintf("PrefixFS(%q).%s%q handed the arguments %q to the base, expected %q", pre, c.M, c.A, npOut, npIn))
			}
		} else if !((c.M == "create" || c.M == "open") && calls[0].Method == "openfile") {
			viol("C14", fmt.Sprintf("PrefixFS(%q).%s%q was delegated as %s", pre, c.M, c.A, calls[0].Method))
		}
		for k, nm := range names {
			if stays(nm) && pa[k] != want(nm) {
				viol("C14", fmt.Sprintf("PrefixFS(%q).%s: name %q mapped to %q, expected %q", pre, c.M, nm, pa[k], want(nm)))
			}
		}
		if c.M == "symlink" {
			old := c.A[0]
			stored := calls[0].Args[0]
			if strings.HasPrefix(old, "/") && stored != want(old) {
				viol("C14", fmt.Sprintf("absolute link target %q stored as %q, expected %q", old, stored, want(old)))
			}
			if !strings.HasPrefix(old, "/") && stored != old {
				viol("C14", fmt.Sprintf("relative link target %q stored as %q", old, stored))
			}
			// Symlink then Readlink returns the cleaned target
			spy2 := &SpyFS{Tag: "base", StubReadlink: stored}
			p2, _ := backupfs.NewPrefixFS(spy2, pre)
			back, rerr := p2.Readlink(c.A[1])
			if rerr == nil {
				res.count("prefix.roundtrip")
				if back != filepath.Clean(old) && !(strings.HasPrefix(old, "/") && back == filepath.Clean(old)) {
					viol("C14", fmt.Sprintf("Symlink(%q) then Readlink returned %q, expected %q", old, back, filepath.Clean(old)))
				}
			}
		}
		if ierr == nil && (c.M == "open" || c.M == "create" || c.M == "openfile") {
			wantName := filepath.Clean("/" + c.A[0])
			if cpre != "/" && stays(c.A[0]) && ret != wantName {
				viol("C14", fmt.Sprintf("File.Name() = %q for %q, expected %q (prefix must not leak)", ret, c.A[0], wantName))
			}
			b.Add("prefix.name", line("prefix.name", pre, calls[0].Args[0], calls[0].Args[0]), line(ret))
		}
		if ierr == nil && (c.M == "lstat" || c.M == "stat") {
			if filepath.Clean("/"+c.A[0]) == "/" && ret != "/" {
				viol("C14", fmt.Sprintf("root FileInfo.Name() = %q, expected /", ret))
			}

		}
	}
	if c.M == "readlink" && ierr == nil {
		b.Add("prefix.readlink", line("prefix.readlink", pre, spy.StubReadlink), line(ret))
		res.Evaluations++
		if strings.HasPrefix(cpre, "/") && cpre != "/" && strings.HasPrefix(ret, cpre+"/") {
			viol("C14", fmt.Sprintf("Readlink returned %q which reveals the prefix %q", ret, cpre))
		}
	}
}

func genHiddenCase(r *RNG) LayerCase {
	hs := hiddenSets[r.Intn(len(hiddenSets))]
	m := r.Pick(allMethods)
	mk := func() string {
		if len(hs) > 0 && r.Chance(3, 4) {
			return nameNear(r, r.Pick(hs))
		}
		return randPath(r)
	}
	n1, n2 := mk(), mk()
	if m == "symlink" && r.Chance(1, 3) && len(hs) > 0 {
		// relative target that resolves (lexically) into a hidden path from the link's directory
		hp := filepath.Clean(r.Pick(hs))
		n2 = filepath.Dir(hp) + "/" + r.Pick([]string{"l", "x/l"})
		rel, rerr := filepath.Rel(filepath.Dir(filepath.Clean(n2)), hp)
		if rerr == nil {
			n1 = rel
		}
	}
	c := mkCall(r, m, n1, n2)
	return LayerCase{Kind: "layer", Layer: "hidden", Hidden: hs, Call: c}
}

func evalHiddenCase(lc LayerCase, b *Batch, res *Result, distinct map[string]struct{}) {
	hs, c := lc.Hidden, lc.Call
	spy := &SpyFS{Tag: "base"}
	h, err := backupfs.NewHiddenFS(spy, hs...)
	if err != nil {
		return
	}
	_, ierr := invoke(h, c)
	calls := spy.Snapshot()
	res.Evaluations++
	key := "hidden\x00" + strings.Join(hs, "\x01") + "\x00" + strings.Join(c.fields(), "\x00")
	in := line(append(append([]string{"hidden.call", itoa(len(hs))}, hs...), c.fields()...)...)
	var impl string
	switch {
	case len(calls) == 0:
		impl = line("err", errClass(ierr))
		res.count("hidden.refused." + errClass(ierr))
		distinct[key] = struct{}{}
	case c.M == "removeall":
		// multi-call program (modelled separately): here only "it proceeds to Lstat of the name it
		// works with" — the cleaned name, the empty name as it is (rmName in Model/FSI.lean)
		want := c.A[0]
		if want != "" {
			want = filepath.Clean(want)
		}
		if calls[0].Method == "lstat" && calls[0].Args[0] == want {
			impl = line("call", "removeall", c.A[0])
		} else {
			impl = "unexpected first call " + calls[0].String()
		}
		res.count("hidden.removeall.proceeds")
	case len(calls) == 1:
		impl = line(spyCallFields(calls[0])...)
		res.count("hidden.delegated")
	default:
		impl = fmt.Sprintf("calls=%d", len(calls))
	}
	b.Add("hidden.call", in, impl)
	if res.Distribution["hidden.sampled"] < 2 {
		res.count("hidden.sampled")
		res.sample(map[string]any{"layer": "HiddenFS", "hidden": hs, "call": c, "base_saw": calls, "err": errClass(ierr)})
	}

	// ---- oracles ---------------------------------------------------------------------
	viol := func(prop, what string) {
		res.violate(Violation{Property: prop, What: what, Case: lc})
	}
	isHid := func(nm string) (hidden bool, comparable bool) {
		cn := filepath.Clean(nm)
		comparable = true
		for _, hp := range hs {
			chp := filepath.Clean(hp)
			// filepath.Rel cannot relate a rooted to an unrooted path, nor climb out of a leading ".."
			if strings.HasPrefix(chp, "/") != strings.HasPrefix(cn, "/") ||
				(!strings.HasPrefix(cn, "/") && (cn == ".." || strings.HasPrefix(cn, "../") || chp == ".." || strings.HasPrefix(chp, "../"))) {
				comparable = false
				continue
			}
			if withinGo(chp, cn) {
				hidden = true
			}
		}
		return
	}
	creating := map[string]bool{"create": true, "mkdir": true, "mkdirall": true, "symlink": true}
	var names []string
	switch c.M {
	case "rename":
		names = []string{c.A[0], c.A[1]}
	case "symlink":
		eff := c.A[0]
		if !strings.HasPrefix(eff, "/") {
			// the link lies in the directory of the CLEANED name ("/dir/link/" is an entry of "/dir"): that is
			// where a relative target starts from (defect D27: the code used Dir of the uncleaned name)
			eff = filepath.Join(filepath.Dir(filepath.Clean(c.A[1])), eff)
		}
		names = []string{eff, c.A[1]}
	default:
		names = []string{c.A[0]}
	}
	anyHidden, allComparable := false, true
	for _, nm := range names {
		hd, cmp := isHid(nm)
		anyHidden = anyHidden || hd
		allComparable = allComparable && cmp
	}
	if anyHidden {
		res.count("hidden.oracle.hidden-name")
		if len(calls) != 0 {
			viol("C06", fmt.Sprintf("HiddenFS%q.%s%q reached the base: %v", hs, c.M, c.A, calls))
		}
		if ierr == nil {
			viol("C06", fmt.Sprintf("HiddenFS%q.%s%q succeeded on a hidden path", hs, c.M, c.A))
		} else if allComparable {
			cls := errClass(ierr)
			want := "hiddenNotExist"
			if creating[c.M] || (c.M == "openfile" && atoiSafe(c.A[1])&os.O_CREATE != 0) {
				want = "hiddenPerm"
			}
			if c.M == "rename" {
				// old hidden -> not exist; else new hidden -> permission
				if hd, _ := isHid(c.A[0]); !hd {
					want = "hiddenPerm"
				}
			}
			if cls != want {
				viol("C06", fmt.Sprintf("HiddenFS%q.%s%q failed with %s, expected %s", hs, c.M, c.A, cls, want))
			}
		}
	} else if allComparable && len(hs) > 0 {
		res.count("hidden.oracle.visible-name")
		// C15: delegated unchanged (Create ≡ OpenFile(RDWR|CREATE|TRUNC, 0666), Open ≡ OpenFile(RDONLY, 0));
		// Rename of an ancestor of a hidden path is refused (C11) and exempt here.
		isAnc := false
		if c.M == "rename" {
			// either name: moving an ancestor away relocates hidden content, moving a directory
			// onto a (missing) ancestor brings content to the hidden location (repair D21)
			for _, nm := range []string{c.A[0], c.A[1]} {
				co := filepath.Clean(nm)
				for _, hp := range hs {
					chp := filepath.Clean(hp)
					if chp != co && withinGo(co, chp) {
						isAnc = true
					}
				}
			}
		}
		if isAnc {
			res.count("hidden.oracle.rename-ancestor")
			if len(calls) != 0 || errClass(ierr) != "hiddenPerm" {
				viol("C11", fmt.Sprintf("HiddenFS%q.Rename(%q, %q) of or onto an ancestor of a hidden path was not refused: %v %v", hs, c.A[0], c.A[1], ierr, calls))
			}
		} else if c.M != "removeall" {
			if len(calls) != 1 {
				viol("C15", fmt.Sprintf("HiddenFS%q.%s%q on a visible name issued %d base calls (%v)", hs, c.M, c.A, len(calls), ierr))
			} else {
				want := c
				switch c.M {
				case "create":
					want = MCall{"openfile", []string{c.A[0], itoa(os.O_RDWR | os.O_CREATE | os.O_TRUNC), modeArg(0o666)}}
				case "open":
					want = MCall{"openfile", []string{c.A[0], "0", "0"}}
				}
				got := MCall{calls[0].Method, calls[0].Args}
				if strings.Join(got.fields(), "\x00") != strings.Join(want.fields(), "\x00") {
					viol("C15", fmt.Sprintf("HiddenFS%q.%s%q delegated as %v, expected %v", hs, c.M, c.A, got, want))
				}
			}
		}
	}
}

func atoiSafe(s string) int { var v int; fmt.Sscan(s, &v); return v }

var volumeArgs = []string{"", "C:", "c:\\", "\\\\host\\share", "D:/x", "/", "vol"}

func genVolumeCase(r *RNG) LayerCase {
	vol := r.Pick(volumeArgs)
	m := r.Pick(allMethods)
	n1, n2 := randPath(r), randPath(r)
	if r.Chance(1, 5) {
		n1 = "C:" + n1
	}
	c := mkCall(r, m, n1, n2)
	return LayerCase{Kind: "layer", Layer: "volume", Volume: vol, Call: c, StubReadlink: randPath(r)}
}

func evalVolumeCase(lc LayerCase, b *Batch, res *Result, distinct map[string]struct{}) {
	vol, c := lc.Volume, lc.Call
	spy := &SpyFS{Tag: "base", StubReadlink: lc.StubReadlink}
	v := backupfs.NewVolumeFS(vol, spy)
	ret, ierr := invoke(v, c)
	calls := spy.Snapshot()
	res.Evaluations++
	key := "volume\x00" + vol + "\x00" + strings.Join(c.fields(), "\x00")
	in := line(append([]string{"volume.call"}, c.fields()...)...)
	var impl string
	switch {
	case len(calls) == 0:
		impl = line("err", errClass(ierr))
		distinct[key] = struct{}{}
	case len(calls) == 1:
		impl = line(spyCallFields(calls[0])...)
		res.count("volume.delegated")
		if strings.Join(calls[0].Args, "\x00") != strings.Join(c.A, "\x00") {
			distinct[key] = struct{}{}
		}
	default:
		impl = fmt.Sprintf("calls=%d", len(calls))
	}
	b.Add("volume.call", in, impl)
	if res.Distribution["volume.sampled"] < 2 {
		res.count("volume.sampled")
		res.sample(map[string]any{"layer": "VolumeFS", "volume": vol, "call": c, "base_saw": calls, "err": errClass(ierr)})
	}
	viol := func(what string) {
		res.violate(Violation{Property: "C18", What: what, Case: lc})
	}
	// C18 oracle: identity on the cleaned path, link targets: relative verbatim / absolute cleaned
	if len(calls) != 1 {
		viol(fmt.Sprintf("VolumeFS(%q).%s%q issued %d base calls (%v)", vol, c.M, c.A, len(calls), ierr))
		return
	}
	want := MCall{c.M, append([]string(nil), c.A...)}
	switch c.M {
	case "rename":
		want.A[0], want.A[1] = filepath.Clean(c.A[0]), filepath.Clean(c.A[1])
	case "symlink":
		if strings.HasPrefix(c.A[0], "/") {
			want.A[0] = filepath.Clean(c.A[0])
		}
		want.A[1] = filepath.Clean(c.A[1])
	default:
		want.A[0] = filepath.Clean(c.A[0])
	}
	got := MCall{calls[0].Method, calls[0].Args}
	if strings.Join(got.fields(), "\x00") != strings.Join(want.fields(), "\x00") {
		viol(fmt.Sprintf("VolumeFS(%q).%s%q delegated as %v, expected %v", vol, c.M, c.A, got, want))
	}
	if ierr == nil {
		switch c.M {
		case "readlink":
			b.Add("volume.readlink", line("volume.readlink", spy.StubReadlink), line(ret))
			if ret != filepath.Clean(spy.StubReadlink) {
				viol(fmt.Sprintf("Readlink returned %q for stored %q, expected the cleaned target", ret, spy.StubReadlink))
			}
		case "open", "create", "openfile":
			b.Add("volume.name", line("volume.name", calls[0].Args[0], calls[0].Args[0]), line(ret))
			if ret != calls[0].Args[0] {
				viol(fmt.Sprintf("File.Name() = %q, base reported %q", ret, calls[0].Args[0]))
			}
		case "lstat", "stat":
			b.Add("volume.name", line("volume.name", calls[0].Args[0], filepath.Base(calls[0].Args[0])), line(ret))
		}
	}
}
