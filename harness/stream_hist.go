package main

import (
	"encoding/json"
	"errors"
	"fmt"
	"io/fs"
	"os"
	"os/exec"
	"path"
	"path/filepath"
	"sort"
	"strconv"
	"strings"
	"sync"
	"syscall"
	"time"

	"github.com/jxsl13/backupfs"
)

// 4.2-d: histories through a real BackupFS over real directories and through the Lean model.
// Compared per step: result, returned data, mutating primitive trace, base tree, backup tree,
// tracked map.  Oracles on the implementation: C01/C07 (snapshot equality after Rollback),
// C02 (crash-point recoverability), C03 (twin tree), C12, C13, C17, C04.

type Step struct {
	Op  *Op      `json:"op,omitempty"`
	Do  string   `json:"do,omitempty"` // rollback | reload | force | ext
	Arg []string `json:"arg,omitempty"`
}

func (s Step) String() string {
	if s.Op != nil {
		return s.Op.String()
	}
	return s.Do + fmt.Sprintf("%q", s.Arg)
}

type HistCase struct {
	Kind     string      `json:"kind"`     // "hist"
	Layering string      `json:"layering"` // disjoint | nested
	Umask    int         `json:"umask"`
	Loc      string      `json:"loc,omitempty"`       // nested: the backup location
	CrashAt  []int       `json:"crash_at,omitempty"`  // C02: probe a crash before these primitive calls of each Rollback (default: two indices derived from the case id)
	Ctor     string      `json:"ctor,omitempty"`      // nested: "newwithfs" = the BackupFS is built by backupfs.NewWithFS(PrefixFS(case root), LocSpell) itself (no spies: no trace, no faults)
	LocSpell string      `json:"loc_spell,omitempty"` // the spelling of the location handed to the constructor (default Loc)
	Tree     []Entry     `json:"tree"`
	Steps    []Step      `json:"steps"`
	Faults   []FaultSpec `json:"faults,omitempty"`
	Mode     string      `json:"mode"`                // admissible | wild
	FaultErr string      `json:"fault_err,omitempty"` // error kind of the injected faults: "" EIO (modelled), "perm", "nospc", "writeback" (oracle only)
}

type FaultSpec struct {
	FS     string   `json:"fs"`
	Method string   `json:"method"`
	Args   []string `json:"args"`
	Occ    int      `json:"occ"`
}

// faultError: what an injected fault returns.  "" = EIO (what the model's fault plans stand for);
// "perm" = EPERM, "nospc" = ENOSPC, "writeback" = EIO from Close with the written data lost: permission-, space- and write-back failures are outside the model (the
// code deliberately ignores permission errors of chown/chtimes), such runs are judged by the
// oracles only and are not compared with the model.
func faultError(kind string) error {
	switch kind {
	case "perm":
		return &os.PathError{Op: "injected", Path: "fault", Err: syscall.EPERM}
	case "nospc":
		return &os.PathError{Op: "injected", Path: "fault", Err: syscall.ENOSPC}
	case "writeback":
		// Close of a written handle fails AND what was written through it is lost (the deferred
		// write-back failure of NFS or quota mounts): the spy truncates the file before it closes it
		return errWriteback
	}
	return errInjected
}

type histEnv struct {
	rc                  *RealCase
	baseSpy, backupSpy  *SpyFS
	bfs                 *backupfs.BackupFS
	baseSub, bakSub     string
	baseStack, bakStack string
	clock               int64
	faults              map[string]map[int]bool // signature -> occurrences to fail
	seen                map[string]int
	mu                  sync.Mutex
	onPrim              func(rec CallRec)
	loc                 string                    // nested layering: the cleaned backup location
	newBFS              func() *backupfs.BackupFS // how the instance under test is constructed (also after a reload)
	faultErr            string                    // error kind of injected faults ("" = EIO)
	fired               bool                      // the injected fault has fired (reset by the caller per step)
	apiActive           int32                     // >0 while a BackupFS method call is in progress (conc stream)
}

func sigKey(fsTag, method string, args []string) string {
	return fsTag + "\x00" + method + "\x00" + strings.Join(args, "\x00")
}

// canonArgs renders the arguments of a recorded call like the model's `callArgs`; skip = the
// call is invisible (a Chtimes to a time stamped during the case).
func (e *histEnv) canonArgs(r CallRec) (args []string, skip bool) {
	a := append([]string(nil), r.Args...)
	um := func(s string) string {
		v, _ := strconv.ParseUint(s, 10, 32)
		return fmt.Sprint(unixMode(fs.FileMode(v)))
	}
	switch r.Method {
	case "mkdir", "mkdirall", "chmod":
		a[1] = um(a[1])
	case "openfile":
		a[2] = um(a[2])
	case "chtimes":
		for i := 1; i <= 2; i++ {
			ns, _ := strconv.ParseInt(a[i], 10, 64)
			a[i] = e.rc.timeStr(time.Unix(0, ns))
		}
		if a[2] == "fresh" {
			return a, true
		}
	case "readdirnames":
		// keep
	}
	return a, false
}

func (e *histEnv) hook(r CallRec) error {
	args, skip := e.canonArgs(r)
	if skip {
		return nil
	}
	if e.onPrim != nil {
		e.onPrim(r)
	}
	e.mu.Lock()
	defer e.mu.Unlock()
	k := sigKey(r.FS, r.Method, args)
	occ := e.seen[k]
	e.seen[k] = occ + 1
	if e.faults[k][occ] {
		e.fired = true
		return faultError(e.faultErr)
	}
	return nil
}

func newHistEnv(c *HistCase) (*histEnv, error) {
	rc, err := newRealCase()
	if err != nil {
		return nil, err
	}
	e := &histEnv{rc: rc, faults: map[string]map[int]bool{}, seen: map[string]int{}, faultErr: c.FaultErr}
	osfs := backupfs.NewOSFS()
	switch c.Layering {
	case "nested":
		e.baseSub, e.bakSub = "/n", "/n"+path.Clean(c.Loc)
		e.loc = path.Clean(c.Loc)
		if err := rc.Build("/n", c.Tree); err != nil {
			rc.Close()
			return nil, err
		}
		p, err := backupfs.NewPrefixFS(osfs, rc.Root+"/n")
		if err != nil {
			return nil, err
		}
		hid, err := backupfs.NewHiddenFS(p, c.Loc)
		if err != nil {
			return nil, err
		}
		bak, err := backupfs.NewPrefixFS(p, c.Loc)
		if err != nil {
			return nil, err
		}
		e.baseSpy = &SpyFS{Tag: "base", Inner: hid, Clock: &e.clock}
		e.backupSpy = &SpyFS{Tag: "backup", Inner: bak, Clock: &e.clock}
		e.baseStack = "hidden=" + c.Loc + "|prefix=" + modelRoot + "/n"
		e.bakStack = "prefix=" + c.Loc + "|prefix=" + modelRoot + "/n"
		if c.Ctor == "newwithfs" {
			spell := c.LocSpell
			if spell == "" {
				spell = c.Loc
			}
			e.newBFS = func() *backupfs.BackupFS { return backupfs.NewWithFS(p, spell) }
			e.baseStack = "newwithfs=" + spell + "|prefix=" + modelRoot + "/n"
			e.bakStack = ""
		}
	default:
		e.baseSub, e.bakSub = "/base", "/bak"
		if err := rc.Build("/base", c.Tree); err != nil {
			rc.Close()
			return nil, err
		}
		if err := os.MkdirAll(rc.Root+"/bak", 0o755); err != nil {
			return nil, err
		}
		_ = os.Chmod(rc.Root+"/bak", 0o755)
		b1, _ := backupfs.NewPrefixFS(osfs, rc.Root+"/base")
		b2, _ := backupfs.NewPrefixFS(osfs, rc.Root+"/bak")
		e.baseSpy = &SpyFS{Tag: "base", Inner: b1, Clock: &e.clock}
		e.backupSpy = &SpyFS{Tag: "backup", Inner: b2, Clock: &e.clock}
		e.baseStack = "prefix=" + modelRoot + "/base"
		e.bakStack = "prefix=" + modelRoot + "/bak"
	}
	e.baseSpy.Hook = e.hook
	e.backupSpy.Hook = e.hook
	for _, f := range c.Faults {
		k := sigKey(f.FS, f.Method, f.Args)
		if e.faults[k] == nil {
			e.faults[k] = map[int]bool{}
		}
		e.faults[k][f.Occ] = true
	}
	if e.newBFS == nil {
		e.newBFS = func() *backupfs.BackupFS { return backupfs.NewBackupFS(e.baseSpy, e.backupSpy) }
	}
	e.bfs = e.newBFS()
	rc.MarkStart()
	return e, nil
}

// modelInit renders the model-side set-up lines of the case.
func (e *histEnv) modelInit(c *HistCase) []string {
	ls := []string{line("bfs.begin", itoa(c.Umask), e.baseStack, e.bakStack)}
	for _, d := range []string{"/w", "/w/w", "/w/w/w"} {
		ls = append(ls, line("os.init", "dir", d, "493", "0", "0", "fresh", ""))
	}
	if c.Layering == "nested" {
		ls = append(ls, line("os.init", "dir", modelRoot+"/n", "493", "0", "0", "fresh", ""))
		ls = append(ls, initLines("/n", c.Tree)...)
	} else {
		ls = append(ls, line("os.init", "dir", modelRoot+"/base", "493", "0", "0", "fresh", ""))
		ls = append(ls, line("os.init", "dir", modelRoot+"/bak", "493", "0", "0", "fresh", ""))
		ls = append(ls, initLines("/base", c.Tree)...)
	}
	return ls
}

// trace returns the merged canonical events recorded since the last reset.
func (e *histEnv) trace(mutOnly bool) []string {
	recs := append(e.baseSpy.Snapshot(), e.backupSpy.Snapshot()...)
	sort.Slice(recs, func(i, j int) bool { return recs[i].Order < recs[j].Order })
	var out []string
	for _, r := range recs {
		args, skip := e.canonArgs(r)
		if skip {
			continue
		}
		if mutOnly && !isMutatingRec(r) {
			continue
		}
		out = append(out, r.FS+"."+r.Method+"("+strings.Join(args, ",")+")")
	}
	e.baseSpy.Reset()
	e.backupSpy.Reset()
	return out
}

func isMutatingRec(r CallRec) bool {
	switch r.Method {
	case "stat", "lstat", "readlink", "open", "read", "close", "fstat", "readdir", "readdirnames":
		return false
	case "openfile":
		fl, _ := strconv.Atoi(r.Args[1])
		return fl&3 != 0 || fl&os.O_CREATE != 0
	}
	return true
}

func (e *histEnv) mapFields() []string {
	m := e.bfs.Map()
	keys := make([]string, 0, len(m))
	for k := range m {
		keys = append(keys, k)
	}
	sort.Strings(keys)
	var out []string
	for _, k := range keys {
		fi := m[k]
		out = append(out, k)
		if fi == nil {
			out = append(out, "nil")
			continue
		}
		f := e.rc.infoFields(fi)
		out = append(out, f[1:]...) // kind perm size uid gid mtime
	}
	return out
}

// blankDirTimes removes directory mtimes from a dump (C01 exempts them).
func blankDirTimes(d []string) []string {
	out := append([]string(nil), d...)
	for i := 0; i+6 < len(out); i += 7 {
		if out[i+1] == "dir" {
			out[i+5] = "*"
		}
	}
	return out
}

func dumpEqual(a, b []string) bool { return strings.Join(a, "\x00") == strings.Join(b, "\x00") }

func dumpDiff(a, b []string) string {
	am, bm := map[string]string{}, map[string]string{}
	for i := 0; i+6 < len(a); i += 7 {
		am[a[i]] = strings.Join(a[i+1:i+7], "|")
	}
	for i := 0; i+6 < len(b); i += 7 {
		bm[b[i]] = strings.Join(b[i+1:i+7], "|")
	}
	var ds []string
	for k, v := range am {
		if w, ok := bm[k]; !ok {
			ds = append(ds, "missing "+k)
		} else if w != v {
			ds = append(ds, fmt.Sprintf("changed %s: %.80s -> %.80s", k, v, w))
		}
	}
	for k := range bm {
		if _, ok := am[k]; !ok {
			ds = append(ds, "extra "+k)
		}
	}
	sort.Strings(ds)
	if len(ds) > 6 {
		ds = ds[:6]
	}
	return strings.Join(ds, "; ")
}

// rebaseline implements C17's expectation on the snapshot: the entry at p is replaced by its
// state in cur (or dropped if absent there).  When p is a directory now or was one in the
// baseline, or its parent does not predate the transaction, the property does not speak and the
// snapshot oracle is switched off for this transaction.
func rebaseline(s0, cur []string, p string, skip bool) ([]string, bool) {
	find := func(d []string, q string) []string {
		for i := 0; i+6 < len(d); i += 7 {
			if d[i] == q {
				return d[i : i+7]
			}
		}
		return nil
	}
	old, now := find(s0, p), find(cur, p)
	if p == "/" {
		return s0, true // the root is a directory
	}
	if now != nil && now[1] == "dir" {
		return s0, true // ForceBackup of a directory is outside the property
	}
	if old != nil && old[1] == "dir" {
		// p was a directory when the transaction began and is a non-directory (or absent) now: the
		// whole former subtree went with it (every entry below was removed through the BackupFS, hence
		// tracked, and ForceBackup drops the stale copy of the tree and its tracking entries); what
		// Rollback must leave is p as it is now and nothing below it
		var pruned []string
		for i := 0; i+6 < len(s0); i += 7 {
			if s0[i] == p || strings.HasPrefix(s0[i], p+"/") {
				continue
			}
			pruned = append(pruned, s0[i:i+7]...)
		}
		s0 = pruned
	}
	if par := path.Dir(p); par != "/" {
		if pe := find(s0, par); pe == nil || pe[1] != "dir" {
			return s0, true
		}
	}
	var out []string
	done := false
	for i := 0; i+6 < len(s0); i += 7 {
		if s0[i] == p {
			if now != nil {
				out = append(out, now...)
			}
			done = true
			continue
		}
		if !done && now != nil && s0[i] > p {
			out = append(out, now...)
			done = true
		}
		out = append(out, s0[i:i+7]...)
	}
	if !done && now != nil {
		out = append(out, now...)
	}
	return out, skip
}

// ---- admissibility labels (the StepOk clauses of DESIGN 3.5), evaluated on the real tree ------

// labelsBefore inspects the real base tree right before op executes.
func (e *histEnv) labelsBefore(op Op) []string {
	var ls []string
	baseRoot := e.rc.Root + e.baseSub
	real := func(p string) string { return baseRoot + path.Clean("/"+p) }
	add := func(l string) { ls = append(ls, l) }
	names := []string{op.A[0]}
	if op.K == "rename" {
		names = []string{op.A[0], op.A[1]}
	} else if op.K == "symlink" {
		names = []string{op.A[1]}
	}
	for _, n := range names {
		if !strings.HasPrefix(n, "/") {
			add("relative-name")
		}
		// ".." after a symlinked component: BackupFS cleans lexically before it resolves (D14)
		comps := strings.Split(n, "/")
		prefix := ""
		for _, cmp := range comps {
			if cmp == ".." && prefix != "" {
				for _, anc := range chainOf(path.Clean("/" + prefix)) {
					if fi, err := os.Lstat(baseRoot + anc); err == nil && fi.Mode()&fs.ModeSymlink != 0 {
						add("link-topology")
					}
				}
			}
			if cmp != "" {
				prefix = prefix + "/" + cmp
			}
		}
	}
	lst := func(p string) fs.FileInfo { fi, _ := os.Lstat(real(p)); return fi }
	if op.K == "symlink" && !strings.HasPrefix(op.A[0], "/") && strings.Contains(op.A[0], "..") {
		// a relative target with ".." created below a symlinked parent: the layers check it lexically
		// from the unresolved link directory, BackupFS hands them the resolved one
		np := path.Clean("/" + op.A[1])
		for _, anc := range chainOf(path.Dir(np)) {
			if fi := lst(anc); fi != nil && fi.Mode()&fs.ModeSymlink != 0 {
				add("link-topology")
			}
		}
	}
	if op.K == "removeall" && e.loc != "" && strings.HasPrefix(op.A[0], "/") {
		// BackupFS re-implements RemoveAll as walk + Remove of every entry: the last Remove hits the
		// directory that still holds the hidden backup location (ENOTEMPTY), where HiddenFS.RemoveAll
		// spares it and returns nil
		if a := path.Clean(op.A[0]); a == "/" || strings.HasPrefix(e.loc, a+"/") {
			add("removeall-above-location")
		}
	}
	switch op.K {
	case "rename":
		if fi := lst(op.A[0]); fi != nil && fi.IsDir() {
			if es, _ := os.ReadDir(real(op.A[0])); len(es) > 0 {
				add("rename-nonempty-dir")
			}
			// two different spellings of ONE directory (through a symlinked parent): os.Rename sees
			// different strings denoting the same file and does nothing; BackupFS resolves both to
			// the same string first, and os.Rename(p, p) of a directory is EEXIST
			if path.Clean("/"+op.A[0]) != path.Clean("/"+op.A[1]) {
				if f2 := lst(op.A[1]); f2 != nil && os.SameFile(fi, f2) {
					add("rename-dir-onto-alias")
				}
			}
		}
		if fi := lst(op.A[1]); fi != nil && fi.IsDir() {
			add("rename-onto-dir")
		}
	case "creat", "creatread", "write", "chmod", "chown", "chtimes", "mkdirall":
		if fi := lst(op.A[0]); fi != nil && fi.Mode()&fs.ModeSymlink != 0 {
			add("through-final-symlink")
		}
	}
	return ls
}

// labelsAfter compares the tracked map with the base tree after an operation.
func (e *histEnv) labelsAfter(op Op) []string {
	var ls []string
	baseRoot := e.rc.Root + e.baseSub
	m := e.bfs.Map()
	for p, fi := range m {
		cur, err := os.Lstat(baseRoot + path.Clean("/"+p))
		if fi != nil && err == nil {
			tk := fi.Mode() & fs.ModeType
			ck := cur.Mode() & fs.ModeType
			_ = tk
			_ = ck
		}
		if !strings.HasPrefix(p, "/") {
			ls = append(ls, "relative-name")
		}
	}
	if op.K == "symlink" || op.K == "rename" {
		// link chains built during the transaction (D14)
		var cur []Entry
		d := e.rc.Dump(e.baseSub)
		for i := 0; i+6 < len(d); i += 7 {
			cur = append(cur, Entry{Path: d[i], Kind: d[i+1], Data: d[i+6]})
		}
		for _, l := range treeLabels(cur) {
			if l == "link-topology" {
				ls = append(ls, "new-link-topology")
			}
			if l == "unclean-link-target" {
				// a link with an uncleaned target text exists now (created in this transaction):
				// once it is backed up or re-baselined its text comes back cleaned
				ls = append(ls, l)
			}
		}
		// a link now stands at a path below which tracked paths lie
		np := path.Clean("/" + op.A[1])
		if cur, err := os.Lstat(baseRoot + np); err == nil && cur.Mode()&fs.ModeSymlink != 0 {
			for p := range m {
				if strings.HasPrefix(p, np+"/") {
					ls = append(ls, "link-over-tracked")
				}
			}
		}
	}
	return ls
}

// linkTopologyLabels: links whose (lexically absolutised) target passes through another link,
// or that dangle/loop: the single-pass resolver is inexact there.
func treeLabels(tree []Entry) []string {
	links := map[string]string{}
	kinds := map[string]string{}
	for _, e := range tree {
		kinds[e.Path] = e.Kind
		if e.Kind == "link" {
			links[e.Path] = e.Data
		}
	}
	var ls []string
	for lp, t := range links {
		abs := t
		if !strings.HasPrefix(t, "/") {
			abs = path.Join(path.Dir(lp), t)
			// a relative target that climbs out of the tree's root: the backup PrefixFS refuses to
			// store such a link (C05), so operations on it fail in tryBackup
			depth := len(compsGo(path.Dir(lp)))
			for _, cmp := range compsGo(t) {
				if cmp == ".." {
					depth--
					if depth < 0 {
						ls = append(ls, "escaping-link")
						break
					}
				} else if cmp != "." {
					depth++
				}
			}
		}
		if path.Clean(t) != t {
			// PrefixFS.Readlink returns the cleaned text: the copy and the restored link carry it
			ls = append(ls, "unclean-link-target")
		}
		abs = path.Clean(abs)
		for _, anc := range chainOf(abs) {
			if _, isLink := links[anc]; isLink {
				ls = append(ls, "link-topology")
			}
		}
		if strings.Contains(t, "..") && strings.HasPrefix(t, "/") {
			ls = append(ls, "link-topology")
		}
		// a ".." inside the target text that follows a component which is itself a symlink: the OS
		// applies it at the link's target, Readlink/Join clean the text lexically
		{
			cur := path.Dir(lp)
			if strings.HasPrefix(t, "/") {
				cur = "/"
			}
			crossed := false
			for _, cmp := range strings.Split(t, "/") {
				switch cmp {
				case "", ".":
				case "..":
					if crossed {
						ls = append(ls, "link-topology")
					}
					cur = path.Dir(cur)
				default:
					cur = path.Join(cur, cmp)
					if _, isLink := links[cur]; isLink {
						crossed = true
					}
				}
			}
		}
		// a relative target whose ".." would cross a symlinked parent
		for _, anc := range chainOf(path.Dir(lp)) {
			if _, isLink := links[anc]; isLink {
				ls = append(ls, "link-topology")
			}
		}
	}
	return ls
}

var labelPriority = []string{"relative-name", "through-final-symlink", "rename-nonempty-dir", "link-over-tracked", "dangling-link-parent", "rename-dir-onto-alias", "removeall-above-location", "link-topology", "escaping-link", "unclean-link-target", "rename-onto-dir", "new-link-topology"}

// knownClass attributes an oracle failure under property prop to a recorded finding class: the first
// label (in priority order) whose finding is listed for that property in KNOWN_FINDINGS.json; when
// several labels apply, one that cannot explain a failure of this property is not chosen.  If none
// of the labels is listed for the property, the first label is returned (the check then reports the
// class as unlisted, i.e. as a violation).
func knownClass(prop string, labels map[string]bool) string {
	first := ""
	for _, l := range labelPriority {
		if labels[l] {
			if first == "" {
				first = "K-" + l
			}
			if findingListsProp("K-"+l, prop) {
				return "K-" + l
			}
		}
	}
	return first
}

var findingProps map[string]map[string]bool

func findingListsProp(id, prop string) bool {
	if findingProps == nil {
		findingProps = map[string]map[string]bool{}
		if b, err := os.ReadFile(verifRoot + "/KNOWN_FINDINGS.json"); err == nil {
			var kf struct {
				Findings []struct {
					ID         string   `json:"id"`
					Status     string   `json:"status"`
					Properties []string `json:"properties"`
				} `json:"findings"`
			}
			if json.Unmarshal(b, &kf) == nil {
				for _, f := range kf.Findings {
					if f.Status != "open" {
						continue
					}
					m := map[string]bool{}
					for _, p := range f.Properties {
						m[p] = true
					}
					findingProps[f.ID] = m
				}
			}
		}
	}
	return findingProps[id][prop]
}

// ---- case execution -----------------------------------------------------------------------

type caseOut struct {
	oracleOnly bool // the run is judged by the oracles only (fault kinds outside the model)
	b          *Batch
	viol       []Violation
	counts     map[string]int
	labels     map[string]bool
	sampled    any
}

func (o *caseOut) count(k string) { o.counts[k]++ }

func runHistCase(c *HistCase, prop string) (*caseOut, error) {
	out := &caseOut{b: &Batch{}, counts: map[string]int{}, labels: map[string]bool{}}
	out.oracleOnly = c.FaultErr != ""
	e, err := newHistEnv(c)
	if err != nil {
		return nil, err
	}
	defer e.rc.Close()
	fullTrace := prop == "C08" || prop == "C09"
	id := fmt.Sprintf("hist#%p", c)
	for _, l := range e.modelInit(c) {
		out.b.Add(id+" init", l, "ok")
	}
	if len(c.Faults) > 0 {
		f := []string{"bfs.faults"}
		for _, ft := range c.Faults {
			f = append(f, ft.FS, ft.Method, itoa(ft.Occ), itoa(len(ft.Args)))
			f = append(f, ft.Args...)
		}
		out.b.Add(id+" faults", line(f...), "ok")
	}
	static := map[string]bool{} // labels of the initial tree
	for _, l := range treeLabels(c.Tree) {
		out.labels[l] = true
		static[l] = true
	}
	if c.Layering == "nested" {
		// a pre-existing link whose target lexically leads INTO the sealed location: the backup side
		// stores its copy, but at Rollback the sealing HiddenFS refuses to re-create it (K-escaping-link,
		// nested variant: Props.C04.link_into_location_backed_up_but_not_restored)
		for _, en := range c.Tree {
			if en.Kind != "link" {
				continue
			}
			eff := path.Clean(en.Data)
			if !strings.HasPrefix(en.Data, "/") {
				eff = path.Join(path.Dir(en.Path), en.Data)
			}
			if eff == e.loc || strings.HasPrefix(eff, e.loc+"/") {
				out.labels["escaping-link"] = true
				static["escaping-link"] = true
			}
		}
	}
	stepLabels := map[string]bool{} // labels raised by the current step only
	twinDiverged := false
	modelBase, modelBak := modelRoot+e.baseSub, modelRoot+e.bakSub
	out.b.Add(id+" init-base", line("os.tree", modelBase), line(e.rc.Dump(e.baseSub)...))
	e.trace(false)

	faultStep := -1
	var s0, b0 []string
	inTx := false
	swapped := false // another actor replaced a directory by a symlink in this transaction (C13 footprint oracle)
	var planted []string     // C13: (path, content) pairs planted in the backup directory
	var plantedBase []string // C13: (path, content) pairs planted in directories the transaction created
	foreignBackup := false   // foreign content was planted in the backup directory (C13): Rollback may report it
	forced := false          // a successful ForceBackup happened in this transaction (C17's scenario)
	skipOracle := false      // the transaction left the domain of C01 by a use the properties exclude (ForceBackup of a directory)
	// C07: "a following transaction on the same BackupFS behaves exactly like one on a freshly
	// constructed BackupFS" — from the second transaction on, a fresh instance over a copy of both
	// trees runs the same steps; results and trees must coincide
	var fresh *backupfs.BackupFS
	freshSub := ""
	txIndex := 0
	startFresh := func() {
		fresh = nil
		if prop != "C07" || c.Layering != "disjoint" || txIndex == 0 || len(c.Faults) > 0 {
			return
		}
		for _, d := range [][]string{e.rc.Dump(e.baseSub), e.rc.Dump(e.bakSub)} {
			for i := 0; i+6 < len(d); i += 7 {
				if d[i+1] == "link" && strings.HasPrefix(d[i+6], "/") {
					return // absolute targets would keep pointing into the original trees
				}
			}
		}
		freshSub = fmt.Sprintf("/fr%d", txIndex)
		if err := os.MkdirAll(e.rc.Root+freshSub, 0o755); err != nil {
			return
		}
		for _, pair := range [][2]string{{e.baseSub, "/base"}, {e.bakSub, "/bak"}} {
			if out, err := exec.Command("cp", "-a", e.rc.Root+pair[0], e.rc.Root+freshSub+pair[1]).CombinedOutput(); err != nil {
				_ = out
				return
			}
		}
		b1, _ := backupfs.NewPrefixFS(backupfs.NewOSFS(), e.rc.Root+freshSub+"/base")
		b2, _ := backupfs.NewPrefixFS(backupfs.NewOSFS(), e.rc.Root+freshSub+"/bak")
		fresh = backupfs.NewBackupFS(b1, b2)
		out.count("c07.fresh-twin")
	}
	begin := func() {
		startFresh()
		txIndex++
		s0 = blankDirTimes(e.rc.Dump(e.baseSub))
		b0 = e.rc.Dump(e.bakSub)
		inTx = true
		skipOracle = false
		forced = false
		foreignBackup = false
		planted = nil
		plantedBase = nil
		swapped = false
	}
	viol := func(p, what string) {
		// the snapshot oracles are reported under the property whose scenario this run exercises
		if p == "C01" || p == "C07" {
			switch {
			case forced:
				p = "C17"
			case prop == "C04" || prop == "C12" || prop == "C13":
				p = prop
			}
		}
		v := Violation{Property: p, What: what, Case: c}
		if k := knownClass(p, out.labels); k != "" {
			v.Known = k
		}
		out.viol = append(out.viol, v)
	}
	// C03: a twin of the base tree driven directly through PrefixFS(OSFS)
	var twin backupfs.FS
	dropLoc := func(d []string) []string { return d }
	if prop == "C03" {
		if err := e.rc.Build("/t/twin", c.Tree); err != nil {
			return nil, err
		}
		e.rc.MarkStart()
		tp, _ := backupfs.NewPrefixFS(backupfs.NewOSFS(), e.rc.Root+"/t/twin")
		twin = tp
		if c.Layering == "nested" {
			// the base of the BackupFS is HiddenFS(location) over the tree: so is the twin; what lies
			// below the location (the copies BackupFS makes) is not part of the comparison
			spell := c.LocSpell
			if spell == "" {
				spell = c.Loc
			}
			h, herr := backupfs.NewHiddenFS(tp, spell)
			if herr != nil {
				return nil, herr
			}
			twin = h
			loc := path.Clean(c.Loc)
			dropLoc = func(d []string) []string {
				var out []string
				for i := 0; i+6 < len(d); i += 7 {
					if strings.HasPrefix(d[i], loc+"/") {
						continue
					}
					out = append(out, d[i:i+7]...)
				}
				return out
			}
		}
	}
	// the twin-tree oracle judges one step at a time: a divergence is attributed to a recorded class
	// only if the tree or this very operation falls into it; once the trees have diverged the
	// comparison stops (everything after is a consequence)
	violStep := func(p, what string) {
		v := Violation{Property: p, What: what, Case: c}
		m := map[string]bool{}
		for k := range static {
			m[k] = true
		}
		for k := range stepLabels {
			m[k] = true
		}
		if k := knownClass(p, m); k != "" {
			v.Known = k
		}
		out.viol = append(out.viol, v)
		twinDiverged = true
	}
	sealReported := false
	// C02: crash-point oracle, evaluated before every primitive call of a transaction
	var originals []string
	if prop == "C02" || prop == "" {
		e.onPrim = func(r CallRec) {
			if !inTx || originals == nil {
				return
			}
			if msg := e.checkRecoverable(originals); msg != "" {
				viol("C02", fmt.Sprintf("before %s: %s", r.String(), msg))
				originals = nil // report once per transaction
			} else if msg := e.checkBackupOnlyOriginals(originals, false); msg != "" {
				viol("C02", fmt.Sprintf("before %s: %s", r.String(), msg))
				originals = nil
			}
		}
	}
	for i, st := range c.Steps {
		tag := fmt.Sprintf("%s step%d %v", id, i, st)
		if !inTx {
			begin()
			originals = e.rc.Dump(e.baseSub)
		}
		switch {
		case st.Op != nil:
			op := *st.Op
			stepLabels = map[string]bool{}
			for _, l := range e.labelsBefore(op) {
				out.labels[l] = true
				stepLabels[l] = true
				if l == "relative-name" || l == "rename-nonempty-dir" {
					// aliasing keys / untracked children of a renamed directory stay in the tracking
					// state for the rest of the case: later operations below the renamed directory
					// fail in tryBackup (no parent copy in the backup) where the direct call succeeds
					static[l] = true
				}
			}
			var baseBefore []string
			if len(c.Faults) > 0 {
				baseBefore = e.rc.Dump(e.baseSub)
				e.fired = false
			}
			var want16 string
			if prop == "C16" {
				want16 = e.osParents(op)
			}
			mapBefore := e.mapFields()
			// C03: "RemoveAll of a path that does not exist succeeds, as the FS contract says" — judged
			// on the real tree before the call (ENOENT, or ENOTDIR: a non-directory among the parents)
			missingForRemoveAll := false
			if prop == "C03" && op.K == "removeall" && strings.HasPrefix(op.A[0], "/") {
				if _, lerr := os.Lstat(e.rc.Root + e.baseSub + path.Clean(op.A[0])); lerr != nil && (errors.Is(lerr, syscall.ENOENT) || errors.Is(lerr, syscall.ENOTDIR)) {
					missingForRemoveAll = true
				}
			}
			res := execOp(e.rc, e.bfs, op)
			if missingForRemoveAll {
				out.count("c03.removeall-missing")
				if res[0] != "ok" {
					violStep("C03", fmt.Sprintf("%v: the path does not exist, RemoveAll must succeed, got %v", op, res))
				}
			}
			out.count("op." + op.K + "." + res[0])
			if prop == "C16" && want16 != "" {
				if got := e.mutatedPath(op); got != "" && got != want16 {
					viol("C16", fmt.Sprintf("%v: BackupFS operated on %q, the OS resolves the caller's path to %q", op, got, want16))
				} else if got != "" {
					out.count("c16.checked")
				}
			}
			if twin != nil && !twinDiverged {
				tres := execOp(e.rc, twin, op)
				out.count("twin.compared")
				okB, okT := res[0] == "ok", tres[0] == "ok"
				for _, l := range e.labelsTwin(op) {
					out.labels[l] = true
					stepLabels[l] = true
				}
				viol := violStep
				if op.K == "removeall" && okB && !okT && (tres[1] == "notDir" || tres[1] == "hiddenNotExist") {
					// adopted reading (DESIGN C03): "RemoveAll of a path that does not exist succeeds"
					// covers every path name resolution cannot reach (ENOENT, ENOTDIR, and — in the nested
					// layering — the hidden location, which the base reports as ErrNotExist)
					out.count("c03.removeall-enotdir-reading")
				} else if okB != okT {
					viol("C03", fmt.Sprintf("%v: through BackupFS %v, directly %v", op, res, tres))
				} else if okB && isReadOnly(op) && strings.Join(res, "\x00") != strings.Join(tres, "\x00") {
					viol("C03", fmt.Sprintf("%v returned %.200q through BackupFS and %.200q directly", op, res, tres))
				}
				bt, tt := dropLoc(blankDirTimes(e.rc.Dump(e.baseSub))), dropLoc(blankDirTimes(e.rc.Dump("/t/twin")))
				if !dumpEqual(bt, tt) {
					viol("C03", fmt.Sprintf("after %v the base tree differs from the directly driven twin: %s", op, dumpDiff(tt, bt)))
				}
				if isReadOnly(op) && !dumpEqual(mapBefore, e.mapFields()) {
					viol("C03", fmt.Sprintf("read-only %v changed the tracked paths", op))
				}
			}
			out.b.Add(tag, bfsOpLine(op), line(res...))
			if fresh != nil {
				fres := execOp(e.rc, fresh, op)
				if strings.Join(res, "\x00") != strings.Join(fres, "\x00") {
					viol("C07", fmt.Sprintf("%v in transaction %d returned %.200q, on a freshly constructed BackupFS over a copy of the same trees %.200q", op, txIndex, res, fres))
					fresh = nil
				}
			}
			if prop == "C04" && c.Layering == "nested" && originals != nil && len(c.Faults) == 0 && !sealReported {
				// C04 sealing oracle: whatever an operation through the BackupFS did, the location holds
				// nothing but copies of originals at their own paths (anything else was created, moved
				// or planted there through the base side), and a link the operation created does not
				// lead to the location from where it REALLY sits
				msg := e.checkBackupOnlyOriginals(originals, false)
				if msg == "" && op.K == "symlink" && res[0] == "ok" && strings.HasPrefix(op.A[1], "/") {
					msg = e.linkLeadsIntoLocation(op)
				}
				if msg != "" {
					sealReported = true
					v := Violation{Property: "C04", What: fmt.Sprintf("after %v: %s", op, msg), Case: c}
					// every label the case has met so far: what an earlier operation left untracked
					// (content created through a final symlink, say) is copied by a later one
					if k := knownClass("C04", out.labels); k != "" {
						v.Known = k
					}
					out.viol = append(out.viol, v)
				}
			}
			if (prop == "C02" || prop == "") && originals != nil && len(c.Faults) == 0 {
				// between operations every copy is complete: exact content, target and file metadata
				if msg := e.checkBackupOnlyOriginals(originals, true); msg != "" {
					viol("C02", fmt.Sprintf("after %v: %s", op, msg))
					originals = nil
				}
			}
			if len(c.Faults) > 0 && e.fired {
				// C08: the fault fired while this operation was taking its backup
				faultStep = i
				out.count("fault.fired-in-op." + op.K)
				if res[0] == "ok" {
					viol("C08", fmt.Sprintf("%v succeeded although a backup primitive failed (%v)", op, c.Faults))
				}
				if op.K != "removeall" && !dumpEqual(baseBefore, e.rc.Dump(e.baseSub)) {
					viol("C08", fmt.Sprintf("%v modified the base although its backup failed: %s", op, dumpDiff(baseBefore, e.rc.Dump(e.baseSub))))
				}
			}
			for _, l := range e.labelsAfter(op) {
				if l == "new-link-topology" {
					l = "link-topology"
					static[l] = true // the topology stays for the rest of the case
				}
				out.labels[l] = true
			}
		case st.Do == "rollback":
			e.fired = false
			// C02, "… a process that crashes at that instant and later reloads the persisted tracking
			// state can still restore it": at two primitive calls of this Rollback the two trees are
			// copied as the crash would leave them, and a freshly constructed BackupFS loaded with the
			// state persisted before the Rollback began rolls the copies back; the base copy must then
			// be the tree the transaction started from
			prevPrim := e.onPrim
			if (prop == "C02" || prop == "") && c.Layering == "disjoint" && c.Ctor == "" && len(c.Faults) == 0 && !skipOracle && !foreignBackup && len(plantedBase) == 0 {
				if saved, merr := json.Marshal(e.bfs); merr == nil {
					h := 0
					for _, ch := range id {
						h = h*31 + int(ch)
					}
					if h < 0 {
						h = -h
					}
					at := map[int]bool{1 + h%7: true, 4 + (h/7)%19: true}
					if len(c.CrashAt) > 0 {
						at = map[int]bool{}
						for _, n := range c.CrashAt {
							at[n] = true
						}
					}
					nprim := 0
					absLinks := false
					for _, d := range [][]string{e.rc.Dump(e.baseSub), e.rc.Dump(e.bakSub)} {
						for k := 0; k+6 < len(d); k += 7 {
							if d[k+1] == "link" && strings.HasPrefix(d[k+6], "/") {
								absLinks = true // absolute targets would keep pointing into the original trees
							}
						}
					}
					savedLabels := map[string]bool{}
					for k, v := range out.labels {
						savedLabels[k] = v
					}
					e.onPrim = func(r CallRec) {
						if prevPrim != nil {
							prevPrim(r)
						}
						nprim++
						if !at[nprim] || absLinks {
							return
						}
						sub := fmt.Sprintf("/cr%d_%d", txIndex, nprim)
						if os.MkdirAll(e.rc.Root+sub, 0o755) != nil {
							return
						}
						for _, pair := range [][2]string{{e.baseSub, "/base"}, {e.bakSub, "/bak"}} {
							if _, err := exec.Command("cp", "-a", e.rc.Root+pair[0], e.rc.Root+sub+pair[1]).CombinedOutput(); err != nil {
								return
							}
						}
						b1, _ := backupfs.NewPrefixFS(backupfs.NewOSFS(), e.rc.Root+sub+"/base")
						b2, _ := backupfs.NewPrefixFS(backupfs.NewOSFS(), e.rc.Root+sub+"/bak")
						second := backupfs.NewBackupFS(b1, b2)
						if json.Unmarshal(saved, second) != nil {
							return
						}
						// the hypothesis the proof forced (Props.C02.second_rollback_after_crash_…): a tracked
						// path below a path tracked as a symlink is reached THROUGH the link once the first
						// Rollback has put it back (K-link-over-tracked)
						lab := map[string]bool{}
						for k, v := range savedLabels {
							lab[k] = v
						}
						tm := second.Map()
						for p, fi := range tm {
							if fi != nil && fi.Mode()&fs.ModeSymlink != 0 {
								for q := range tm {
									if strings.HasPrefix(q, p+"/") {
										lab["link-over-tracked"] = true
									}
								}
							}
						}
						serr := second.Rollback()
						out.count("c02.second-rollback")
						got := blankDirTimes(e.rc.Dump(sub + "/base"))
						if !dumpEqual(s0, got) {
							v := Violation{Property: "C02", What: fmt.Sprintf("a crash before primitive call #%d of Rollback (%s), then a new BackupFS loaded with the persisted state and Rollback (returned %v): the base is not restored: %s", nprim, r.String(), serr, dumpDiff(s0, got)), Case: c}
							if k := knownClass("C02", lab); k != "" {
								v.Known = k
							}
							out.viol = append(out.viol, v)
							at = map[int]bool{}
						}
						os.RemoveAll(e.rc.Root + sub)
					}
				}
			}
			// C13 footprint oracle after another actor put a symlink where a directory was: whatever the
			// tracked map is lexically unrelated to (not a tracked path, not above one, not below one) must be
			// exactly what it was when Rollback began.  Props/C13L.lean proves this when no proper ancestor of
			// a tracked path is a symlink, in the base and in the backup; where one is, Rollback goes THROUGH
			// it (K-link-over-tracked, external-actor variant)
			var fpPre []string
			var fpTracked, fpTrackedFiles []string
			fpLinkAbove := false
			if swapped && len(c.Faults) == 0 {
				fpPre = blankDirTimes(e.rc.Dump(e.baseSub))
				for t, fi := range e.bfs.Map() {
					fpTracked = append(fpTracked, path.Clean("/"+t))
					if fi != nil && fi.Mode().IsRegular() {
						fpTrackedFiles = append(fpTrackedFiles, path.Clean("/"+t))
					}
					for _, side := range []string{e.baseSub, e.bakSub} {
						if side == e.bakSub && fi == nil {
							continue
						}
						ch := chainOf(path.Clean("/" + t))
						for _, anc := range ch[:len(ch)-1] {
							if li, err := os.Lstat(e.rc.Root + side + anc); err == nil && li.Mode()&fs.ModeSymlink != 0 {
								fpLinkAbove = true
							}
						}
					}
				}
			}
			rerr := e.bfs.Rollback()
			e.onPrim = prevPrim
			if fpPre != nil {
				related := func(q string) bool {
					// the footprint of Props.C13: a tracked path itself, the ancestors of a tracked path
					// (MkdirAll of a tracked directory), and what lies below a path tracked as a regular file
					for _, t := range fpTracked {
						if q == t || strings.HasPrefix(t, strings.TrimSuffix(q, "/")+"/") {
							return true
						}
					}
					for _, t := range fpTrackedFiles {
						if strings.HasPrefix(q, t+"/") {
							return true
						}
					}
					return false
				}
				idx := func(d []string) map[string]string {
					m := map[string]string{}
					for k := 0; k+6 < len(d); k += 7 {
						m[d[k]] = strings.Join(d[k+1:k+7], "|")
					}
					return m
				}
				pre, post := idx(fpPre), idx(blankDirTimes(e.rc.Dump(e.baseSub)))
				var diffs []string
				for q, v := range pre {
					if !related(q) && post[q] != v {
						diffs = append(diffs, fmt.Sprintf("%s: %s -> %s", q, v, post[q]))
					}
				}
				for q, v := range post {
					if _, was := pre[q]; !was && !related(q) {
						diffs = append(diffs, fmt.Sprintf("%s: (absent) -> %s", q, v))
					}
				}
				out.count("c13.footprint-checked")
				if len(diffs) > 0 {
					sort.Strings(diffs)
					if len(diffs) > 4 {
						diffs = diffs[:4]
					}
					v := Violation{Property: "C13", What: fmt.Sprintf("Rollback (returned %v) changed entries no operation named and no tracked path is related to: %s", rerr, strings.Join(diffs, "; ")), Case: c}
					lab := map[string]bool{}
					for k, b := range out.labels {
						lab[k] = b
					}
					if fpLinkAbove {
						lab["link-over-tracked"] = true
					}
					if k := knownClass("C13", lab); k != "" {
						v.Known = k
					}
					out.viol = append(out.viol, v)
				}
			}
			if len(c.Faults) > 0 && !skipOracle {
				s1f := blankDirTimes(e.rc.Dump(e.baseSub))
				if e.fired {
					// C09: a primitive failed during this Rollback
					out.count("fault.fired-in-rollback")
					if rerr == nil && !dumpEqual(s0, s1f) {
						viol("C09", fmt.Sprintf("Rollback returned nil although a primitive failed (%v) and the base is not restored: %s", c.Faults, dumpDiff(s0, s1f)))
					}
				} else if faultStep >= 0 && !dumpEqual(s0, s1f) {
					// C08: the earlier failed backup must not corrupt the transaction
					viol("C08", fmt.Sprintf("after a failed backup (%v) Rollback did not restore the base: %s", c.Faults, dumpDiff(s0, s1f)))
				}
			}
			res := []string{"ok"}
			if rerr != nil {
				res = []string{"err", "rollbackFailed"}
				if !errorsIsRollbackFailed(rerr) {
					viol("C09", fmt.Sprintf("Rollback error does not satisfy errors.Is(err, ErrRollbackFailed): %v", rerr))
				}
			}
			out.b.Add(tag, line("bfs.rollback"), line(res...))
			out.count("rollback." + res[0])
			if fresh != nil {
				ferr := fresh.Rollback()
				if (ferr == nil) != (rerr == nil) {
					viol("C07", fmt.Sprintf("Rollback of transaction %d returned %v, on a freshly constructed BackupFS over a copy of the same trees %v", txIndex, rerr, ferr))
				} else if a, bb := blankDirTimes(e.rc.Dump(e.baseSub)), blankDirTimes(e.rc.Dump(freshSub+"/base")); !dumpEqual(a, bb) {
					viol("C07", fmt.Sprintf("after the Rollback of transaction %d the base differs from the one driven by a freshly constructed BackupFS: %s", txIndex, dumpDiff(bb, a)))
				} else if a, bb := blankDirTimes(e.rc.Dump(e.bakSub)), blankDirTimes(e.rc.Dump(freshSub+"/bak")); !dumpEqual(a, bb) {
					viol("C07", fmt.Sprintf("after the Rollback of transaction %d the backup differs from the one driven by a freshly constructed BackupFS: %s", txIndex, dumpDiff(bb, a)))
				}
				fresh = nil
			}
			s1 := blankDirTimes(e.rc.Dump(e.baseSub))
			b1 := e.rc.Dump(e.bakSub)
			if len(c.Faults) == 0 && !skipOracle {
				if rerr != nil && !foreignBackup {
					viol("C01", fmt.Sprintf("Rollback returned an error: %.300v", rerr))
				} else if !dumpEqual(s0, s1) {
					viol("C01", "base tree differs after Rollback: "+dumpDiff(s0, s1))
				}
				for k := 0; k+1 < len(planted); k += 2 {
					if got, err := os.ReadFile(e.rc.Root + e.bakSub + planted[k]); err != nil || string(got) != planted[k+1] {
						viol("C13", fmt.Sprintf("foreign file %s in the backup directory did not survive Rollback (%v)", planted[k], err))
					}
				}
				if len(planted) > 0 && !swapped {
					// … and foreign content keeps nothing else in the backup: what is left beyond the tree the
					// transaction found there is the foreign entries and the directories leading to them
					keep := map[string]bool{}
					for k := 0; k+1 < len(planted); k += 2 {
						for _, a := range chainOf(planted[k]) {
							keep[a] = true
						}
					}
					was := map[string]bool{}
					for k := 0; k+6 < len(b0); k += 7 {
						was[b0[k]] = true
					}
					var left []string
					for k := 0; k+6 < len(b1); k += 7 {
						if !was[b1[k]] && !keep[b1[k]] {
							left = append(left, b1[k])
						}
					}
					if len(left) > 0 {
						viol("C13", fmt.Sprintf("foreign content in the backup (%v) kept Rollback from cleaning up copies elsewhere: %v are left behind", planted, left))
					}
				}
				if rerr == nil && !foreignBackup {
					if !dumpEqual(b0, b1) {
						viol("C07", "backup tree differs after a successful Rollback: "+dumpDiff(b0, b1))
					}
					if n := len(e.bfs.Map()); n != 0 {
						viol("C07", fmt.Sprintf("%d paths still tracked after Rollback", n))
					}
				}
			}
			for k := 0; k+1 < len(plantedBase); k += 2 {
				if got, err := os.ReadFile(e.rc.Root + e.baseSub + plantedBase[k]); err != nil || string(got) != plantedBase[k+1] {
					viol("C13", fmt.Sprintf("the file %s, which no operation named (created by another actor inside a directory of the transaction), did not survive Rollback (%v)", plantedBase[k], err))
				}
			}
			inTx = false
			originals = nil
		case st.Do == "reload" && len(st.Arg) > 0 && st.Arg[0] == "map":
			// the Map()/SetMap() route into a newly constructed instance; the exported map is then
			// emptied by its owner: the new instance must not depend on it
			before := e.mapFields()
			exported := e.bfs.Map()
			nb := e.newBFS()
			nb.SetMap(exported)
			for k := range exported {
				delete(exported, k)
			}
			e.bfs = nb
			if after := e.mapFields(); !dumpEqual(before, after) {
				viol("C12", fmt.Sprintf("tracked state changed by Map/SetMap into a new instance: %q -> %q", before, after))
			}
			out.b.Add(tag, line("bfs.reload"), "ok")
			out.count("reload.map")
		case st.Do == "reload":
			data, merr := json.Marshal(e.bfs)
			if merr != nil {
				viol("C12", "MarshalJSON failed: "+merr.Error())
			} else {
				if masked, ok := e.maskPersisted(data); ok {
					// the persisted TEXT itself against Model/JsonText.lean's `persistText` of the model's map
					out.b.Add(tag+" text", line("bfs.persisttext"), line(masked))
					out.count("reload.text-compared")
				}
				before := e.mapFields()
				nb := e.newBFS()
				if uerr := json.Unmarshal(data, nb); uerr != nil {
					viol("C12", "UnmarshalJSON failed: "+uerr.Error())
				} else {
					e.bfs = nb
					after := e.mapFields()
					if !dumpEqual(before, after) {
						viol("C12", fmt.Sprintf("tracked state changed by persist/reload: %q -> %q", before, after))
					}
				}
			}
			out.b.Add(tag, line("bfs.reload"), "ok")
			out.count("reload")
		case st.Do == "ext":
			// C13: an external actor modifies the base or backup directory directly
			st.Arg = e.resolveExt(st.Arg, i, c.Tree)
			{
				sub := e.baseSub
				if st.Arg[0] == "backup" {
					sub = e.bakSub
				}
				tgt := st.Arg[1]
				if tgt == "swap" {
					tgt = st.Arg[2]
				}
				if fi, err := os.Stat(e.rc.Root + sub + path.Dir(tgt)); err != nil || !fi.IsDir() {
					// the directory the other actor would write into is gone (the transaction removed it, the
					// root included): nothing happens
					out.count("ext.skipped")
					continue
				}
			}
			if err := e.applyExt(st.Arg); err != nil {
				return nil, fmt.Errorf("ext %v: %w", st.Arg, err)
			}
			sub := e.baseSub
			if st.Arg[0] == "backup" {
				sub = e.bakSub
			}
			if st.Arg[1] == "swap" {
				out.b.Add(tag+" rm", line("os.call", "", "removeall", modelRoot+sub+st.Arg[2]), line("ok"))
				out.b.Add(tag+" ln", line("os.call", "", "symlink", st.Arg[3], modelRoot+sub+st.Arg[2]), line("ok"))
				// what Rollback has to leave now is not the tree the transaction began with (the other actor
				// deleted a subtree): the snapshot oracles are off, the footprint oracle below is on
				skipOracle = true
				originals = nil
				foreignBackup = true
				swapped = true
				// what the other actor deleted together with the directory is not expected to survive
				drop := func(l []string) []string {
					var keep []string
					for k := 0; k+1 < len(l); k += 2 {
						if l[k] != st.Arg[2] && !strings.HasPrefix(l[k], st.Arg[2]+"/") {
							keep = append(keep, l[k], l[k+1])
						}
					}
					return keep
				}
				if st.Arg[0] == "backup" {
					planted = drop(planted)
				} else {
					plantedBase = drop(plantedBase)
				}
				if st.Arg[0] == "backup" {
					// the backup now aliases the base: Rollback reads a copy through a handle while it removes and
					// re-creates the very entry behind it; the model's handles are path-keyed (DESIGN 7, "handles
					// kept open across later operations"), so such a case is judged by the oracles only
					out.oracleOnly = true
				}
				out.count("ext.swap." + st.Arg[0])
			} else {
				out.b.Add(tag, line("os.creat", "", modelRoot+sub+st.Arg[1], st.Arg[2]), line("ok", modelRoot+sub+st.Arg[1]))
			}
			if st.Arg[1] == "swap" {
			} else if st.Arg[0] == "base" && len(st.Arg) > 3 {
				// a foreign file inside a directory the transaction created: Rollback cannot remove
				// that directory (and says so); the file itself was never named and must survive
				plantedBase = append(plantedBase, st.Arg[1], st.Arg[2])
				skipOracle = true
				originals = nil
			} else if st.Arg[0] == "base" {
				// the expected post-Rollback tree carries the external change
				s0, _ = rebaselineExt(s0, blankDirTimes(e.rc.Dump(e.baseSub)), st.Arg[1])
				originals = nil
			} else {
				planted = append(planted, st.Arg[1], st.Arg[2])
				foreignBackup = true
			}
			if st.Arg[1] != "swap" {
				out.count("ext." + st.Arg[0])
			}
		case st.Do == "force":
			// C17: a successful ForceBackup(p) of a non-directory moves the baseline at p to "now"
			fp := path.Clean("/" + st.Arg[0])
			cur := blankDirTimes(e.rc.Dump(e.baseSub))
			ferr := e.bfs.ForceBackup(st.Arg[0])
			if _, outside := rebaseline(s0, cur, fp, false); outside {
				// outside C17's domain (a directory, or a parent that does not predate the transaction):
				// even a failing ForceBackup may drop the tracking entry there; the snapshot oracle is off
				skipOracle = true
			}
			if ferr == nil {
				forced = true
				s0, skipOracle = rebaseline(s0, cur, fp, skipOracle)
				if !strings.HasPrefix(st.Arg[0], "/") {
					out.labels["relative-name"] = true
				}
			}
			res := []string{"ok"}
			if ferr != nil {
				res = []string{"err", errClass(ferr)}
			}
			out.b.Add(tag, line("bfs.op", "force", st.Arg[0]), line(res...))
			out.count("force." + res[0])
		}
		if c.Ctor != "" {
			// built by the constructor: nothing interposed, no trace
		} else if len(c.Faults) > 0 || fullTrace {
			evs := e.trace(false)
			sort.Strings(evs)
			out.b.Add(tag+" trace", line("bfs.trace", "sorted"), line(evs...))
		} else {
			out.b.Add(tag+" trace", line("bfs.trace", "mut"), line(e.trace(true)...))
		}
		out.b.Add(tag+" base-tree", line("os.tree", modelBase), line(e.rc.Dump(e.baseSub)...))
		if c.Layering != "nested" {
			out.b.Add(tag+" backup-tree", line("os.tree", modelBak), line(e.rc.Dump(e.bakSub)...))
		}
		out.b.Add(tag+" map", line("bfs.map"), line(e.mapFields()...))
	}
	return out, nil
}

func errorsIsRollbackFailed(err error) bool {
	for e := err; e != nil; {
		if e == backupfs.ErrRollbackFailed {
			return true
		}
		switch x := e.(type) {
		case interface{ Unwrap() []error }:
			for _, s := range x.Unwrap() {
				if errorsIsRollbackFailed(s) {
					return true
				}
			}
			return false
		case interface{ Unwrap() error }:
			e = x.Unwrap()
		default:
			return false
		}
	}
	return false
}

// checkRecoverable: every original entry (dump fields) is intact at its base path or has an exact
// copy in the backup tree.  Directory entries: a directory at the base path, or in the backup,
// with the same mode and owner.
func (e *histEnv) checkRecoverable(orig []string) string {
	base := e.rc.Dump(e.baseSub)
	bak := e.rc.Dump(e.bakSub)
	idx := func(d []string) map[string][]string {
		m := map[string][]string{}
		for i := 0; i+6 < len(d); i += 7 {
			m[d[i]] = d[i+1 : i+7]
		}
		return m
	}
	bm, km := idx(base), idx(bak)
	same := func(a, b []string) bool {
		if a[0] != b[0] {
			return false
		}
		if a[0] == "dir" {
			return a[1] == b[1] && a[2] == b[2] && a[3] == b[3]
		}
		return strings.Join(a, "\x00") == strings.Join(b, "\x00")
	}
	for i := 0; i+6 < len(orig); i += 7 {
		p, f := orig[i], orig[i+1:i+7]
		if e.bakSub != "" && strings.HasPrefix(e.bakSub, e.baseSub+"/") && (e.baseSub+p == e.bakSub || strings.HasPrefix(e.baseSub+p, e.bakSub+"/")) {
			continue // nested layering: the backup location itself
		}
		if b, ok := bm[p]; ok && same(f, b) {
			continue
		}
		kp := p
		if strings.HasPrefix(e.bakSub, e.baseSub+"/") {
			// nested: the backup tree dump is relative to the location
		}
		if k, ok := km[kp]; ok && same(f, k) {
			continue
		}
		return fmt.Sprintf("original %s (%s) is neither intact in base nor copied in backup", p, strings.Join(f[:5], "|"))
	}
	return ""
}

// linkLeadsIntoLocation: the symlink just created by op, judged where it physically sits (its parent
// directory resolved by the operating system): an absolute target, or a relative one taken from that
// real directory, that lexically names the backup location or something below it must have been
// refused — that is exactly the test the sealing HiddenFS applies to the name BackupFS hands it.
func (e *histEnv) linkLeadsIntoLocation(op Op) string {
	baseRoot := e.rc.Root + e.baseSub
	np := path.Clean(op.A[1])
	realDir, err := filepath.EvalSymlinks(baseRoot + path.Dir(np))
	if err != nil || !(realDir == baseRoot || strings.HasPrefix(realDir, baseRoot+"/")) {
		return ""
	}
	dir := "/" + strings.TrimPrefix(strings.TrimPrefix(realDir, baseRoot), "/")
	if fi, err := os.Lstat(realDir + "/" + path.Base(np)); err != nil || fi.Mode()&fs.ModeSymlink == 0 {
		return ""
	}
	t := op.A[0]
	eff := path.Clean(t)
	if !strings.HasPrefix(t, "/") {
		eff = path.Join(dir, t)
	}
	if eff == e.loc || strings.HasPrefix(eff, e.loc+"/") {
		return fmt.Sprintf("the new link really sits in %s and its target %q leads to %s, at or below the backup location %s", dir, t, eff, e.loc)
	}
	return ""
}

// fiMirror has the json layout of backupfs's unexported fInfo (same tags, same field order).
type fiMirror struct {
	FileName    string `json:"name"`
	FileMode    uint32 `json:"mode"`
	FileModTime int64  `json:"mod_time"`
	FileSize    int64  `json:"size"`
	FileUid     int    `json:"uid"`
	FileGid     int    `json:"gid"`
}

// maskPersisted re-writes the text MarshalJSON produced with what the model cannot know zeroed (as
// the driver's `bfs.persisttext` does on its side): sizes of directories and links, mtimes of links,
// and instants stamped while the case runs.  Everything else — keys and their escaping, names, mode
// bits, old mtimes, file sizes, owners, nil entries — is compared byte for byte.
func (e *histEnv) maskPersisted(data []byte) (string, bool) {
	var m map[string]*fiMirror
	if json.Unmarshal(data, &m) != nil {
		return "", false
	}
	for _, v := range m {
		if v == nil {
			continue
		}
		mode := fs.FileMode(v.FileMode)
		if mode.IsDir() || mode&fs.ModeSymlink != 0 {
			v.FileSize = 0
		}
		if mode&fs.ModeSymlink != 0 || e.rc.timeStr(time.Unix(0, v.FileModTime)) == "fresh" {
			v.FileModTime = 0
		}
	}
	out, err := json.Marshal(m)
	if err != nil {
		return "", false
	}
	return string(out), true
}

// checkBackupOnlyOriginals: "the backup filesystem never holds anything else: only copies of
// originals and of their parent directories, never content created during the transaction".  Every
// entry of the backup tree must sit at the path of an original of the same type; with exact=true
// (between operations, when no copy is in progress) files and links must also be exact copies.
func (e *histEnv) checkBackupOnlyOriginals(orig []string, exact bool) string {
	bak := e.rc.Dump(e.bakSub)
	om := map[string][]string{}
	for i := 0; i+6 < len(orig); i += 7 {
		om[orig[i]] = orig[i+1 : i+7]
	}
	for i := 0; i+6 < len(bak); i += 7 {
		p, f := bak[i], bak[i+1:i+7]
		o, ok := om[p]
		if !ok {
			return fmt.Sprintf("the backup holds %s (%s), which did not exist when the transaction began", p, f[0])
		}
		if o[0] != f[0] {
			return fmt.Sprintf("the backup holds a %s at %s, the original is a %s", f[0], p, o[0])
		}
		if exact && f[0] != "dir" && strings.Join(o, "\x00") != strings.Join(f, "\x00") {
			return fmt.Sprintf("the backup copy of %s is not exact: original %s, copy %s", p, strings.Join(o[:5], "|"), strings.Join(f[:5], "|"))
		}
	}
	return ""
}

var _ = syscall.Umask

func bfsOpLine(op Op) string { return line(append([]string{"bfs.op", op.K}, op.A...)...) }

func init() {
	streams["hist"] = streamHist
	replayKinds["hist"] = func(cfg *Config, c map[string]any, b *Batch, res *Result) error {
		var hc HistCase
		if err := remarshal(c, &hc); err != nil {
			return err
		}
		syscall.Umask(hc.Umask)
		out, err := runHistCase(&hc, cfg.Prop)
		if err != nil {
			return err
		}
		mergeCase(res, b, out, cfg.Prop)
		return nil
	}
}

func mergeCase(res *Result, b *Batch, out *caseOut, prop string) {
	if !out.oracleOnly {
		b.in = append(b.in, out.b.in...)
		b.impl = append(b.impl, out.b.impl...)
		b.tag = append(b.tag, out.b.tag...)
	}
	for k, v := range out.counts {
		res.Distribution[k] += v
	}
	if len(out.labels) == 0 {
		res.count("cases.admissible")
	} else {
		res.count("cases.outside:" + knownClass(prop, out.labels))
	}
	for _, v := range out.viol {
		res.violate(v)
	}
}

// HistGen are the knobs of the history generator.
type HistGen struct {
	Layering   string
	NSteps     int
	Rollbacks  int  // number of transactions (each ends with a rollback)
	Reload     bool // persist/reload points
	Force      bool
	ReadOnly   bool
	Wild       bool // unrestricted: relative names, any link topology
	Meta       bool // metadata interplay: chown/chmod/chtimes/write on one file, often back to original values
	NoRollback bool // C03: the twin tree is not rolled back
	Ext        bool // C13: external modifications interleaved
	Swap       bool // a directory with tracked content is replaced by a symlink to another directory and the old paths are used again
	ReadBack   bool // Create composites that read the content back through the handle (not in fault sweeps: full traces)
	Seal       bool // C04, nested layering: directory links that lead to ancestors of the backup location or from which a relative target can climb into it, and probe operations through them (every method must be refused on the RESOLVED name)
	Flat       bool // a FLAT link topology (every link points at a link-free path): names are drawn THROUGH the links; the resolver is exact there (Props.C16.resolve_exact_flat_links_partial), so no label applies and every oracle is on
}

// extNewDir: plant foreign files inside directories the transaction created (C13, restoreFile /
// restoreSymlink must not remove them recursively).  Switched on together with the fix: commit that
// replaces RemoveAll by Remove there.
const extNewDir = true

func genHistCase(r *RNG, g HistGen, umask int) *HistCase {
	c := &HistCase{Kind: "hist", Layering: g.Layering, Umask: umask, Mode: "admissible"}
	if g.Wild {
		c.Mode = "wild"
	}
	for tries := 0; ; tries++ {
		c.Tree = genTree(r, GenOpts{NoLinks: g.Flat || g.Seal})
		if g.Wild || len(treeLabels(c.Tree)) == 0 || tries > 20 {
			break
		}
	}
	var aliases [][2]string // (link path, directory it points to)
	if g.Flat {
		var dirs []string
		for _, e := range c.Tree {
			if e.Kind == "dir" {
				dirs = append(dirs, e.Path)
			}
		}
		taken := map[string]bool{}
		for _, e := range c.Tree {
			taken[e.Path] = true
		}
		for len(dirs) < 2 {
			d := "/" + r.Pick(namePool) + "q"
			if len(dirs) == 1 && r.Chance(1, 2) {
				d = dirs[0] + "/" + r.Pick(namePool) + "q"
			}
			if taken[d] {
				continue
			}
			taken[d] = true
			c.Tree = append(c.Tree, Entry{Path: d, Kind: "dir", Mode: 0o755, MTime: oldTime(r)})
			c.Tree = append(c.Tree, Entry{Path: d + "/inner", Kind: "file", Mode: 0o644, MTime: oldTime(r), Data: "inner-content"}) // ASCII: the model identifies bytes and characters of contents
			dirs = append(dirs, d)
		}
		have := map[string]bool{}
		for _, e := range c.Tree {
			have[e.Path] = true
		}
		for n := 1 + r.Intn(3); n > 0; n-- {
			d := r.Pick(dirs)
			if r.Chance(1, 6) {
				d = "/" // a link to the root: "/", or "." / ".." relative to a top-level directory
			}
			par := "/"
			if r.Chance(2, 3) {
				par = r.Pick(dirs)
			}
			if par == d || strings.HasPrefix(par, d+"/") {
				par = "/"
			}
			if d == "/" && par != "/" && strings.Count(par, "/") > 1 {
				par = "/" + strings.Split(par, "/")[1] // keep the link to the root near the top
			}
			l := path.Join(par, r.Pick(namePool)+"k")
			if have[l] {
				continue
			}
			have[l] = true
			t := d
			if r.Chance(1, 2) {
				t = relPath(par, d)
			}
			c.Tree = append(c.Tree, Entry{Path: l, Kind: "link", Mode: 0o777, UID: uids[r.Intn(len(uids))], MTime: oldTime(r), Data: t})
			aliases = append(aliases, [2]string{l, d})
		}
	}
	if g.Layering == "nested" {
		c.Loc = r.Pick([]string{"/bak", "/var/opt/backups", "/b/k"})
		if r.Chance(1, 2) {
			// through the documented constructor, sometimes with another spelling of the location
			c.Ctor = "newwithfs"
			if r.Chance(1, 3) {
				c.LocSpell = r.Pick([]string{c.Loc + "/", "/." + c.Loc, strings.Replace(c.Loc, "/", "//", 1), c.Loc + "/."})
			}
		}
		// drop generated entries that collide with the location chain as non-directories, or lie below it
		var keep []Entry
		dropped := map[string]bool{}
		for _, e := range c.Tree {
			collide := dropped[path.Dir(e.Path)]
			for _, d := range chainOf(c.Loc)[1:] {
				if (e.Path == d && e.Kind != "dir") || strings.HasPrefix(e.Path, c.Loc+"/") {
					collide = true
				}
			}
			if collide {
				dropped[e.Path] = true
			} else {
				keep = append(keep, e)
			}
		}
		// the location (and its parents) exist before the transaction
		have := map[string]bool{}
		for _, e := range keep {
			have[e.Path] = true
		}
		var pre []Entry
		for _, d := range chainOf(c.Loc)[1:] {
			if !have[d] {
				pre = append(pre, Entry{Path: d, Kind: "dir", Mode: 0o755, MTime: oldBase})
			}
		}
		c.Tree = append(pre, keep...)
		if r.Chance(1, 8) {
			// a pre-existing link that leads into the location (relative or absolute target text)
			l := "/" + r.Pick(namePool) + "i"
			t := c.Loc + "/" + r.Pick(namePool)
			if r.Chance(1, 2) {
				t = relPath("/", t)
			}
			c.Tree = append(c.Tree, Entry{Path: l, Kind: "link", Mode: 0o777, MTime: oldTime(r), Data: t})
		}
		sort.SliceStable(c.Tree, func(i, j int) bool { return strings.Count(c.Tree[i].Path, "/") < strings.Count(c.Tree[j].Path, "/") })
		if g.Seal {
			have := map[string]bool{}
			var dirs []string
			for _, e := range c.Tree {
				have[e.Path] = true
				if e.Kind == "dir" && e.Path != c.Loc {
					dirs = append(dirs, e.Path)
				}
			}
			for n := 1 + r.Intn(2); n > 0; n-- {
				var d string
				switch r.Intn(3) {
				case 0:
					d = "/"
				case 1:
					ch := chainOf(c.Loc)
					d = ch[r.Intn(len(ch)-1)] // a proper ancestor of the location
				default:
					if len(dirs) == 0 {
						d = "/"
					} else {
						d = r.Pick(dirs)
					}
				}
				par := "/"
				if len(dirs) > 0 && r.Chance(1, 2) {
					par = r.Pick(dirs)
				}
				if par == d || strings.HasPrefix(par, d+"/") || d == "/" {
					par = "/"
				}
				l := path.Join(par, r.Pick(namePool)+"k")
				if have[l] {
					continue
				}
				have[l] = true
				t := d
				if r.Chance(1, 2) {
					t = relPath(par, d)
				}
				c.Tree = append(c.Tree, Entry{Path: l, Kind: "link", Mode: 0o777, UID: uids[r.Intn(len(uids))], MTime: oldTime(r), Data: t})
				aliases = append(aliases, [2]string{l, d})
			}
		}
	}
	if g.Ext {
		c.Tree = append(c.Tree, Entry{Path: "/zzkeep", Kind: "file", Mode: 0o644, MTime: oldBase + 77, Data: "keep-0"})
	}
	og := &OpGen{Mutating: allMutators, ReadOnly: g.ReadOnly, Unclean: true, Relative: g.Wild, Orig: map[string]Entry{}, ReadBack: g.ReadBack}
	for _, e := range c.Tree {
		og.Orig[e.Path] = e
	}
	var paths []string
	for _, e := range c.Tree {
		if !strings.Contains(e.Path, "zz") {
			paths = append(paths, e.Path)
		}
	}
	if g.Layering == "nested" {
		paths = append(paths, c.Loc, c.Loc+"/x")
		paths = append(paths, chainOf(c.Loc)...) // every ancestor of the location
	}
	// names through the links (two rounds: a link reached through another link)
	for round := 0; round < 2 && len(aliases) > 0; round++ {
		var more []string
		for _, p := range paths {
			for _, a := range aliases {
				if a[1] == "/" {
					if p != a[0] && !strings.HasPrefix(p, a[0]+"/") {
						more = append(more, a[0]+strings.TrimSuffix(p, "/"))
					}
				} else if p == a[1] || strings.HasPrefix(p, a[1]+"/") {
					more = append(more, a[0]+p[len(a[1]):])
				}
			}
		}
		paths = append(paths, more...)
	}
	if g.Meta {
		og.Mutating = []string{"chmod", "chown", "lchown", "chtimes", "write", "creat", "chmod", "chown"}
		var files []string
		for _, e := range c.Tree {
			if e.Kind == "file" && (e.Mode&0o7000 != 0 || e.UID != 0) {
				files = append(files, e.Path)
			}
		}
		if len(files) == 0 {
			p := "/" + r.Pick(namePool) + "z"
			c.Tree = append(c.Tree, Entry{Path: p, Kind: "file", Mode: []uint32{0o4755, 0o2755, 0o6711}[r.Intn(3)], UID: 1000, GID: 1000, MTime: oldTime(r), Data: "meta"})
			og.Orig[p] = c.Tree[len(c.Tree)-1]
			paths = append(paths, p)
			files = append(files, p)
		}
		og.Focus = files[r.Intn(len(files))]
	} else if len(c.Tree) > 0 && r.Chance(1, 3) {
		og.Focus = c.Tree[r.Intn(len(c.Tree))].Path
		if strings.Contains(og.Focus, "zz") {
			og.Focus = ""
		}
	}
	if g.Swap {
		// D/C is touched (tracked), D is removed and replaced by a symlink to another directory E
		// (which may hold an entry of the same name), then D/C is named again: the resolved path of
		// a name must be recomputed, not remembered
		var dirs []Entry
		for _, e := range c.Tree {
			if e.Kind == "dir" && !strings.Contains(e.Path, "zz") && (g.Layering != "nested" || !(strings.HasPrefix(c.Loc, e.Path+"/") || e.Path == c.Loc || strings.HasPrefix(e.Path, c.Loc+"/"))) {
				dirs = append(dirs, e)
			}
		}
		if len(dirs) >= 1 {
			d := dirs[r.Intn(len(dirs))]
			child := ""
			for _, e := range c.Tree {
				if path.Dir(e.Path) == d.Path && e.Kind != "link" {
					child = path.Base(e.Path)
					break
				}
			}
			if child == "" {
				child = r.Pick(namePool)
			}
			other := "/" + r.Pick(namePool) + "q"
			for _, e := range dirs {
				if e.Path != d.Path && !strings.HasPrefix(e.Path, d.Path+"/") && !strings.HasPrefix(d.Path, e.Path+"/") {
					other = e.Path
				}
			}
			pre := []Op{
				{"write", []string{d.Path + "/" + child, itoa(os.O_WRONLY | os.O_CREATE | os.O_TRUNC), "420", "swap-1"}},
				{"mkdirall", []string{other, "493"}},
				{"creat", []string{other + "/" + child, "other-side"}},
				{"removeall", []string{d.Path}},
				{"symlink", []string{other, d.Path}},
				{[]string{"write", "chmod", "remove", "creat"}[r.Intn(4)], nil},
			}
			last := &pre[len(pre)-1]
			switch last.K {
			case "write":
				last.A = []string{d.Path + "/" + child, itoa(os.O_WRONLY | os.O_CREATE | os.O_TRUNC), "420", "swap-2"}
			case "chmod":
				last.A = []string{d.Path + "/" + child, "384"}
			case "remove":
				last.A = []string{d.Path + "/" + child}
			case "creat":
				last.A = []string{d.Path + "/" + child, "swap-3"}
			}
			if r.Chance(1, 3) {
				pre = append(pre[:1], pre[3:]...) // the other directory does not get the entry first
			}
			for i := range pre {
				op := pre[i]
				c.Steps = append(c.Steps, Step{Op: &op})
			}
			paths = append(paths, d.Path+"/"+child, other, other+"/"+child)
		}
	}
	if g.Force && g.Layering == "disjoint" && r.Chance(1, 4) {
		// C17 on a path that was a directory TREE when the transaction began: the tree is removed through
		// the BackupFS (every level gets tracked and copied), the path is left absent or taken by a file
		// or a symlink, and then re-baselined: ForceBackup must drop the stale copy of the whole tree and
		// every tracking entry below the path
		var cand []string
		for _, e := range c.Tree {
			if e.Kind != "dir" || strings.Contains(e.Path, "zz") {
				continue
			}
			for _, f := range c.Tree {
				if f.Kind == "dir" && path.Dir(f.Path) == e.Path {
					cand = append(cand, e.Path)
					break
				}
			}
		}
		if len(cand) == 0 {
			d := "/" + r.Pick(namePool) + "t"
			c.Tree = append(c.Tree, Entry{Path: d, Kind: "dir", Mode: 0o755, MTime: oldTime(r)},
				Entry{Path: d + "/sub", Kind: "dir", Mode: 0o750, MTime: oldTime(r)},
				Entry{Path: d + "/sub/leaf", Kind: "file", Mode: 0o644, MTime: oldTime(r), Data: "leaf"})
			for _, e := range c.Tree[len(c.Tree)-3:] {
				og.Orig[e.Path] = e
				paths = append(paths, e.Path)
			}
			cand = []string{d}
		}
		d := r.Pick(cand)
		pre := []Op{{"removeall", []string{d}}}
		switch r.Intn(3) {
		case 0:
			pre = append(pre, Op{"creat", []string{d, "now-a-file"}})
		case 1:
			pre = append(pre, Op{"symlink", []string{r.Pick(namePool) + "-missing", d}})
		}
		for i := range pre {
			op := pre[i]
			c.Steps = append(c.Steps, Step{Op: &op})
		}
		c.Steps = append(c.Steps, Step{Do: "force", Arg: []string{d}})
	}
	tx := g.Rollbacks
	if tx == 0 {
		tx = 1
	}
	for t := 0; t < tx; t++ {
		n := 1 + r.Intn(g.NSteps)
		for k := 0; k < n; k++ {
			op := og.Gen(r, paths)
			c.Steps = append(c.Steps, Step{Op: &op})
			if op.K == "rename" || op.K == "symlink" {
				paths = append(paths, path.Clean("/"+op.A[1]))
			} else if op.K != "remove" && op.K != "removeall" {
				paths = append(paths, path.Clean("/"+op.A[0]))
			}
			if g.Reload && r.Chance(1, 5) {
				st := Step{Do: "reload"}
				if r.Chance(1, 3) {
					st.Arg = []string{"map"}
				}
				c.Steps = append(c.Steps, st)
			}
			if g.Force && r.Chance(1, 4) {
				fp := pickPath(r, paths)
				if r.Chance(1, 2) {
					// a path this transaction has just touched (already tracked), …
					fp = path.Clean("/" + op.A[0])
					if (op.K == "rename" || op.K == "symlink") && r.Chance(1, 2) {
						fp = path.Clean("/" + op.A[1])
					}
				}
				if r.Chance(1, 3) {
					fp = spellUnclean(r, fp) // … under another spelling of its name
				}
				c.Steps = append(c.Steps, Step{Do: "force", Arg: []string{fp}})
			}
			if g.Ext && r.Chance(1, 3) {
				side := "base"
				if r.Chance(1, 3) {
					side = "backup"
				}
				where := "@dir"
				if side == "base" && r.Chance(1, 3) {
					where = "/zzkeep"
				} else if side == "base" && extNewDir && r.Chance(1, 3) {
					where = "@newdir" // inside a directory the transaction itself created
				} else if side == "backup" && r.Chance(1, 2) {
					where = "@created" // in the backup tree, at the path of something the transaction created (tracked as "did not exist": BackupFS never puts anything there)
				}
				if g.Layering == "disjoint" && r.Chance(1, 6) {
					// another actor REPLACES A DIRECTORY BY A SYMLINK to another directory: in the base, or a
					// directory copy in the backup by a link into the base (Props.C13.symlinked_ancestor_in_*)
					where = "@swapdir"
				}
				c.Steps = append(c.Steps, Step{Do: "ext", Arg: []string{side, where, fmt.Sprintf("ext-%d", r.Intn(1000))}})
			}
		}
		if g.Seal {
			// probes: through each directory link, names and link targets that END UP at or below the location
			for _, a := range aliases {
				l, d := a[0], a[1]
				var probes []Op
				probes = append(probes, Op{"symlink", []string{relPath(d, c.Loc+"/"+r.Pick(namePool)), l + "/" + r.Pick(namePool) + "p"}})
				if d == "/" || strings.HasPrefix(c.Loc, d+"/") {
					via := l + strings.TrimPrefix(c.Loc, strings.TrimSuffix(d, "/"))
					probes = append(probes,
						Op{"symlink", []string{r.Pick(namePool), via + "/planted"}},
						Op{"creat", []string{via + "/planted2", "probe"}},
						Op{"mkdir", []string{via + "/pd", "493"}},
						Op{"mkdirall", []string{via + "/pd/e", "493"}},
						Op{"rename", []string{via, l + "/moved"}},
						Op{"rename", []string{pickPath(r, paths), via + "/in"}},
						Op{"chmod", []string{via, "448"}},
						Op{"remove", []string{via}},
						Op{"removeall", []string{via}})
				}
				for k := 1 + r.Intn(3); k > 0 && len(probes) > 0; k-- {
					i := r.Intn(len(probes))
					op := probes[i]
					probes = append(probes[:i], probes[i+1:]...)
					c.Steps = append(c.Steps, Step{Op: &op})
				}
			}
		}
		if g.NoRollback {
			continue
		}
		c.Steps = append(c.Steps, Step{Do: "rollback"})
		if r.Chance(1, 4) {
			c.Steps = append(c.Steps, Step{Do: "rollback"}) // a second Rollback must be a no-op
		}
	}
	return c
}

func histGenFor(prop string, r *RNG) HistGen {
	g := HistGen{Layering: "disjoint", NSteps: 8, Rollbacks: 1, ReadOnly: true, ReadBack: histReadBack}
	switch prop {
	case "C07":
		g.Rollbacks = 2 + r.Intn(2)
		g.NSteps = 5
	case "C12":
		g.Reload = true
	case "C17":
		g.Force = true
	case "C04":
		g.Layering = "nested"
		g.Seal = r.Chance(1, 3)
	case "C03":
		g.NoRollback = true
		g.NSteps = 10
		if r.Chance(1, 6) {
			g.Layering = "nested"
		}
	case "C13":
		g.Ext = true
	case "C16":
		g.Wild = r.Chance(1, 2)
	}
	if r.Chance(1, 4) {
		g.Wild = true
	}
	if (prop == "C01" || prop == "C02" || prop == "C03" || prop == "C04" || prop == "C16" || prop == "C13" || prop == "C08") && r.Chance(1, 8) {
		g.Swap = true
	}
	if prop == "C01" && r.Chance(1, 5) {
		g.Layering = "nested"
	}
	if (prop == "C01" || prop == "C02" || prop == "C12" || prop == "C07") && r.Chance(1, 5) {
		g.Meta = true
		g.Wild = false
	}
	if ((prop == "C16" || prop == "C03") && r.Chance(1, 3)) || ((prop == "C01" || prop == "C02" || prop == "C13" || prop == "C17" || prop == "C08" || prop == "C09") && r.Chance(1, 8)) {
		g = HistGen{Layering: "disjoint", NSteps: g.NSteps, Rollbacks: g.Rollbacks, ReadOnly: true, Flat: true, ReadBack: g.ReadBack, NoRollback: g.NoRollback, Force: g.Force, Ext: g.Ext, Reload: g.Reload}
	}
	return g
}

func init() { histReadBack = true }

// histReadBack: whether histGenFor switches the read-back composites on (the hist stream does, the
// fault sweeps build their HistGen themselves and do not)
var histReadBack bool

func streamHist(cfg *Config, res *Result) error {
	r := newRNG(cfg.Seed, "hist"+cfg.Prop)
	n := 150
	if cfg.Tier == "thorough" {
		n = 4000
	}
	if cfg.N > 0 {
		n = cfg.N
	}
	umask := []int{0o022, 0, 0o027}[int(cfg.Seed)%3]
	syscall.Umask(umask)
	res.Rule = "seeded random histories through a real BackupFS over real directories and through the Lean model: initial trees as in the osmodel stream; 1-8 operations per transaction over all mutators (open-flag combinations, unclean spellings; relative names and arbitrary link topologies in the wild quarter), read-only operations interleaved, every transaction ended by Rollback (sometimes twice); per-property variants: several transactions and a freshly constructed twin (C07), persist/reload by JSON or Map/SetMap with the persisted text compared with the model's (C12), ForceBackup incl. on former directory trees (C17), external writes and directory-to-symlink swaps by another actor with the footprint oracle (C13), nested NewWithFS layering with directory links towards the location and probes through them (C04), twin tree driven directly (C03), flat link topologies with names through the links, directory/symlink swaps by the transaction itself, metadata histories; a second Rollback by a new instance on copies of both trees taken at two primitive calls of every Rollback (C02); compared per step: result, data, mutating primitive trace, base tree, backup tree, tracked map; non-trivial = at least one operation succeeded in modifying the base; distinct by (tree, steps)"
	b := &Batch{}
	// corpus first
	for _, raw := range corpusCases("hist") {
		var hc HistCase
		if remarshal(raw, &hc) == nil {
			syscall.Umask(hc.Umask)
			out, err := runHistCase(&hc, cfg.Prop)
			if err != nil {
				return err
			}
			mergeCase(res, b, out, cfg.Prop)
			res.count("corpus.cases")
			res.Evaluations++
		}
	}
	syscall.Umask(umask)
	cases := make([]*HistCase, n)
	for i := range cases {
		cases[i] = genHistCase(r, histGenFor(cfg.Prop, r), umask)
	}
	outs := make([]*caseOut, n)
	errs := make([]error, n)
	var wg sync.WaitGroup
	sem := make(chan struct{}, 12)
	for i := range cases {
		wg.Add(1)
		sem <- struct{}{}
		go func(i int) {
			defer wg.Done()
			defer func() { <-sem }()
			outs[i], errs[i] = runHistCase(cases[i], cfg.Prop)
		}(i)
	}
	wg.Wait()
	distinct := map[string]struct{}{}
	for i := range cases {
		if errs[i] != nil {
			return errs[i]
		}
		mergeCase(res, b, outs[i], cfg.Prop)
		res.Evaluations++
		nontrivial := false
		for k, v := range outs[i].counts {
			if strings.HasSuffix(k, ".ok") && strings.HasPrefix(k, "op.") && v > 0 {
				nontrivial = true
			}
		}
		if nontrivial {
			js, _ := json.Marshal(cases[i])
			distinct[string(js)] = struct{}{}
		}
		if i < 2 {
			res.sample(cases[i])
		}
	}
	ds, err := b.Compare(cfg.Driver)
	if err != nil {
		return err
	}
	byID := map[string]*HistCase{}
	for _, c := range cases {
		byID[fmt.Sprintf("hist#%p", c)] = c
	}
	seen := map[string]bool{}
	var first []Disagreement
	for _, d := range ds {
		id := strings.SplitN(d.Tag, " ", 2)[0]
		if !seen[id] {
			seen[id] = true
			d.Case = byID[id]
			first = append(first, d)
		}
	}
	res.NDisagreements = 0
	res.addDisagreements(first)
	res.DistinctNontrivial = len(distinct)
	res.Distribution["driver.lines"] = b.Len()
	return nil
}

func isReadOnly(op Op) bool {
	switch op.K {
	case "stat", "lstat", "readlink", "read", "fstat":
		return true
	}
	return false
}

// dumpContains: every entry of want is present, unchanged, in got.
func dumpContains(got, want []string) bool {
	m := map[string]string{}
	for i := 0; i+6 < len(got); i += 7 {
		f := append([]string(nil), got[i+1:i+7]...)
		if f[0] == "dir" {
			f[4] = "*"
		}
		m[got[i]] = strings.Join(f, "|")
	}
	for i := 0; i+6 < len(want); i += 7 {
		f := append([]string(nil), want[i+1:i+7]...)
		if f[0] == "dir" {
			f[4] = "*"
		}
		if m[want[i]] != strings.Join(f, "|") {
			return false
		}
	}
	return true
}

// applyExt: arg = [side, path, content]: write a file directly on disk (created or overwritten).
func (e *histEnv) applyExt(arg []string) error {
	sub := e.baseSub
	if arg[0] == "backup" {
		sub = e.bakSub
	}
	if arg[1] == "swap" {
		if err := os.RemoveAll(e.rc.Root + sub + arg[2]); err != nil {
			return err
		}
		return os.Symlink(arg[3], e.rc.Root+sub+arg[2])
	}
	return os.WriteFile(e.rc.Root+sub+arg[1], []byte(arg[2]), 0o666)
}

// rebaselineExt: like rebaseline, for an external write (no C17 preconditions).
func rebaselineExt(s0, cur []string, p string) ([]string, bool) {
	var out []string
	var now []string
	for i := 0; i+6 < len(cur); i += 7 {
		if cur[i] == p {
			now = cur[i : i+7]
		}
	}
	done := false
	for i := 0; i+6 < len(s0); i += 7 {
		if s0[i] == p {
			out = append(out, now...)
			done = true
			continue
		}
		if !done && now != nil && s0[i] > p {
			out = append(out, now...)
			done = true
		}
		out = append(out, s0[i:i+7]...)
	}
	if !done {
		out = append(out, now...)
	}
	return out, false
}

// labelsTwin: divergences from the directly driven twin that are recorded findings or adopted
// readings (DESIGN C03): evaluated on the twin tree right after the op ran on both.
func (e *histEnv) labelsTwin(op Op) []string {
	var ls []string
	names := []string{op.A[0]}
	if op.K == "rename" {
		names = []string{op.A[0], op.A[1]}
	} else if op.K == "symlink" {
		names = []string{op.A[1]}
	}
	for _, n := range names {
		// a dangling (or looping) symlink among the parents: the resolver substitutes the link's
		// target where the OS cannot resolve the path at all (D20)
		p := path.Clean("/" + n)
		ch := chainOf(p)
		if op.K == "mkdirall" {
			ch = append(ch, p) // MkdirAll also walks the final component
		}
		for _, anc := range ch[:len(ch)-1] {
			fi, err := os.Lstat(e.rc.Root + "/t/twin" + anc)
			if err == nil && fi.Mode()&fs.ModeSymlink != 0 {
				if _, serr := os.Stat(e.rc.Root + "/t/twin" + anc); serr != nil {
					ls = append(ls, "dangling-link-parent")
				}
			}
		}
	}
	return ls
}

// osParents: the path the OS gives the caller's name, parents resolved, final component kept,
// a missing tail kept lexically (independent of the repo's resolver).  "" = not applicable.
func (e *histEnv) osParents(op Op) string {
	name := op.A[0]
	if op.K == "rename" || op.K == "symlink" {
		name = op.A[1]
	}
	if !strings.HasPrefix(name, "/") {
		return ""
	}
	root := e.rc.Root + e.baseSub
	cl := path.Clean(name)
	if cl == "/" {
		return "/"
	}
	dir, last := path.Dir(cl), path.Base(cl)
	// resolve the longest existing prefix of dir with the OS, keep the rest lexically
	comps := compsGo(dir)
	cur := "/"
	for i, cmp := range comps {
		next := path.Join(cur, cmp)
		rp, err := realpathBelow(root, next)
		if err != nil {
			if fi, lerr := os.Lstat(root + next); lerr == nil && fi.Mode()&fs.ModeSymlink != 0 {
				return "" // a dangling or looping link among the parents names nothing under OS semantics (D20)
			}
			return path.Join(append([]string{cur}, append(comps[i:], last)...)...)
		}
		cur = rp
	}
	return path.Join(cur, last)
}

// realpathBelow resolves p (a path inside the case root) fully and returns it relative to root.
func realpathBelow(root, p string) (string, error) {
	rp, err := filepathEvalSymlinks(root + p)
	if err != nil {
		return "", err
	}
	if rp == root {
		return "/", nil
	}
	if !strings.HasPrefix(rp, root+"/") {
		return "", fmt.Errorf("escapes")
	}
	return strings.TrimPrefix(rp, root), nil
}

// mutatedPath: the path argument of the (last) mutating base call the operation issued.
func (e *histEnv) mutatedPath(op Op) string {
	recs := e.baseSpy.Snapshot()
	want := map[string]string{"creat": "create", "creatread": "create", "write": "openfile", "mkdir": "mkdir", "mkdirall": "mkdirall", "remove": "remove",
		"rename": "rename", "symlink": "symlink", "chmod": "chmod", "chown": "chown", "lchown": "lchown", "chtimes": "chtimes"}[op.K]
	if want == "" {
		return ""
	}
	for i := len(recs) - 1; i >= 0; i-- {
		if recs[i].Method == want {
			if want == "rename" || want == "symlink" {
				return recs[i].Args[1]
			}
			return recs[i].Args[0]
		}
	}
	return ""
}

var filepathEvalSymlinks = filepath.EvalSymlinks

// resolveExt turns the "@dir" placeholder into a fresh name inside a directory that exists now.
func (e *histEnv) resolveExt(arg []string, i int, initial []Entry) []string {
	if arg[1] == "@swapdir" {
		// arg -> [side, "swap", D, target]: D a real directory of that tree (not its root), target a
		// RELATIVE path from D's parent to another real directory E of the BASE tree (the same text on
		// the real disk and in the model); falls back to planting a file when there is no such pair
		sub := e.baseSub
		if arg[0] == "backup" {
			sub = e.bakSub
		}
		realDirs := func(sub string) []string {
			var out []string
			d := e.rc.Dump(sub)
			for k := 0; k+6 < len(d); k += 7 {
				if d[k+1] == "dir" && d[k] != "/" && !strings.Contains(d[k], "zz") {
					if rp, err := filepath.EvalSymlinks(e.rc.Root + sub + d[k]); err == nil && rp == e.rc.Root+sub+d[k] {
						out = append(out, d[k])
					}
				}
			}
			return out
		}
		ds, es := realDirs(sub), realDirs(e.baseSub)
		for off := 0; off < len(ds); off++ {
			D := ds[(i+off)%len(ds)]
			for off2 := 0; off2 < len(es); off2++ {
				E := es[(i/2+off2)%len(es)]
				if sub == e.baseSub && (E == D || strings.HasPrefix(E, D+"/") || strings.HasPrefix(D, E+"/")) {
					continue
				}
				from := sub + path.Dir(D)
				return []string{arg[0], "swap", D, relPath(from, e.baseSub+E)}
			}
		}
		arg = []string{arg[0], "@dir", arg[2]}
	}
	if arg[1] != "@dir" && arg[1] != "@newdir" && arg[1] != "@created" {
		return arg
	}
	if arg[0] == "backup" && arg[1] == "@created" {
		was := map[string]bool{}
		for _, en := range initial {
			was[en.Path] = true
		}
		d := e.rc.Dump(e.baseSub)
		for k := 0; k+6 < len(d); k += 7 {
			p := d[k]
			if was[p] || strings.Contains(p, "zz") {
				continue
			}
			// the parent directory must exist in the backup tree as a real directory, the path itself must be free there
			if fi, err := os.Lstat(e.rc.Root + e.bakSub + path.Dir(p)); err != nil || !fi.IsDir() {
				continue
			}
			if rp, err := filepath.EvalSymlinks(e.rc.Root + e.bakSub + path.Dir(p)); err != nil || rp != e.rc.Root+e.bakSub+strings.TrimSuffix(path.Dir(p), "/") {
				continue
			}
			if _, err := os.Lstat(e.rc.Root + e.bakSub + p); err == nil {
				continue
			}
			return []string{arg[0], p, arg[2]}
		}
	}
	if arg[0] == "base" && arg[1] == "@newdir" {
		// a real directory that did not exist when the case began (created through the BackupFS)
		was := map[string]bool{}
		for _, en := range initial {
			was[en.Path] = true
		}
		d := e.rc.Dump(e.baseSub)
		for k := 0; k+6 < len(d); k += 7 {
			if d[k+1] == "dir" && !was[d[k]] && !strings.Contains(d[k], "zz") {
				if fi, err := os.Lstat(e.rc.Root + e.baseSub + d[k]); err == nil && fi.IsDir() {
					if rp, err := filepath.EvalSymlinks(e.rc.Root + e.baseSub + path.Dir(d[k])); err == nil && rp == e.rc.Root+e.baseSub+strings.TrimSuffix(path.Dir(d[k]), "/") {
						name := "zzforeign"
						if i%2 == 1 {
							name = ".zzforeign" // a dot-file: a directory holding only such entries is not empty
						}
						return []string{arg[0], fmt.Sprintf("%s/%s%d", d[k], name, i), arg[2], "newdir"}
					}
				}
			}
		}
	}
	if arg[0] == "base" {
		// a directory that predates the transaction and is still a real directory
		dir := ""
		for _, en := range initial {
			if en.Kind == "dir" {
				if fi, err := os.Lstat(e.rc.Root + e.baseSub + en.Path); err == nil && fi.IsDir() {
					dir = en.Path
				}
			}
		}
		return []string{arg[0], fmt.Sprintf("%s/zznew%d", dir, i), arg[2]}
	}
	sub := e.baseSub
	if arg[0] == "backup" {
		sub = e.bakSub
	}
	d := e.rc.Dump(sub)
	dir := ""
	for k := 0; k+6 < len(d); k += 7 {
		if d[k+1] == "dir" && !strings.Contains(d[k], "zz") {
			// a real directory (not reached through a link)
			if fi, err := os.Lstat(e.rc.Root + sub + d[k]); err == nil && fi.IsDir() {
				dir = d[k]
			}
		}
	}
	return []string{arg[0], fmt.Sprintf("%s/zznew%d", dir, i), arg[2]}
}
