package main

import "os"

func init() { streams["astfacts"] = streamAstFacts }

// streamAstFacts regenerates lean/Generated/LockFacts.lean from /repo's sources (C10).
func streamAstFacts(cfg *Config, res *Result) error {
	src, err := genLockFacts(cfg.Repo)
	if err != nil {
		return err
	}
	out := cfg.Out
	cfg.Out = "" // the output is the Lean file, not a result json
	return os.WriteFile(out, []byte(src), 0o644)
}
