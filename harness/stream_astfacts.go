package main

import "os"

func init() { streams["astfacts"] = streamAstFacts }

// streamAstFacts regenerates lean/Generated/LockFacts.lean (C10) and, at <out>.flow, the text of
// lean/Generated/FlowFacts.lean (data-flow skeleton of the layer methods) from /repo's sources.
func streamAstFacts(cfg *Config, res *Result) error {
	src, err := genLockFacts(cfg.Repo)
	if err != nil {
		return err
	}
	flow, err := genFlowFacts(cfg.Repo)
	if err != nil {
		return err
	}
	out := cfg.Out
	cfg.Out = "" // the output is the Lean file, not a result json
	if err := os.WriteFile(out+".flow", []byte(flow), 0o644); err != nil {
		return err
	}
	return os.WriteFile(out, []byte(src), 0o644)
}
