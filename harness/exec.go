package main

import (
	"fmt"
	"io"
	"io/fs"
	"sort"
	"strconv"
	"time"

	"github.com/jxsl13/backupfs"
)

// execOp performs op on fsys and renders the outcome exactly like the Lean driver does.
func execOp(rc *RealCase, fsys backupfs.FS, op Op) []string {
	a := op.A
	atoi := func(s string) int { v, _ := strconv.Atoi(s); return v }
	atou := func(s string) uint32 { v, _ := strconv.ParseUint(s, 10, 32); return uint32(v) }
	res := func(err error) []string {
		if err != nil {
			return []string{"err", errClass(err)}
		}
		return []string{"ok"}
	}
	writeTo := func(f backupfs.File, err error, data string) []string {
		if err != nil {
			return []string{"err", errClass(err)}
		}
		name := f.Name()
		if data != "" {
			if _, werr := f.WriteString(data); werr != nil {
				f.Close()
				return []string{"err-write", errClass(werr)}
			}
		}
		if cerr := f.Close(); cerr != nil {
			return []string{"err-close", errClass(cerr)}
		}
		return []string{"ok", name}
	}
	switch op.K {
	case "creat":
		f, err := fsys.Create(a[0])
		return writeTo(f, err, a[1])
	case "write":
		f, err := fsys.OpenFile(a[0], atoi(a[1]), goMode(atou(a[2])))
		return writeTo(f, err, a[3])
	case "creatread":
		// Create, write, seek back and read the content through the SAME handle, close
		f, err := fsys.Create(a[0])
		if err != nil {
			return []string{"err", errClass(err)}
		}
		name := f.Name()
		if a[1] != "" {
			if _, werr := f.WriteString(a[1]); werr != nil {
				f.Close()
				return []string{"err-write", errClass(werr)}
			}
		}
		if _, serr := f.Seek(0, io.SeekStart); serr != nil {
			f.Close()
			return []string{"err-read", errClass(serr)}
		}
		b, rerr := io.ReadAll(f)
		if rerr != nil {
			f.Close()
			return []string{"err-read", errClass(rerr)}
		}
		if cerr := f.Close(); cerr != nil {
			return []string{"err-close", errClass(cerr)}
		}
		return []string{"ok", name, string(b)}
	case "read":
		f, err := fsys.Open(a[0])
		if err != nil {
			return []string{"err", errClass(err)}
		}
		defer f.Close()
		fi, err := f.Stat()
		if err != nil {
			return []string{"err-stat", errClass(err)}
		}
		if fi.IsDir() {
			names, err := f.Readdirnames(-1)
			if err != nil {
				return []string{"err-list", errClass(err)}
			}
			sort.Strings(names)
			return append([]string{"ok", "names", f.Name()}, names...)
		}
		b, err := io.ReadAll(f)
		if err != nil {
			return []string{"err-read", errClass(err)}
		}
		return []string{"ok", "data", f.Name(), string(b)}
	case "fstat":
		// Open + File.Stat + Close: the FileInfo a HANDLE reports (its Name must not reveal a prefix either)
		f, err := fsys.Open(a[0])
		if err != nil {
			return []string{"err", errClass(err)}
		}
		defer f.Close()
		fi, err := f.Stat()
		if err != nil {
			return []string{"err-stat", errClass(err)}
		}
		return append([]string{"ok", f.Name()}, rc.infoFields(fi)...)
	case "mkdir":
		return res(fsys.Mkdir(a[0], goMode(atou(a[1]))))
	case "mkdirall":
		return res(fsys.MkdirAll(a[0], goMode(atou(a[1]))))
	case "remove":
		return res(fsys.Remove(a[0]))
	case "removeall":
		return res(fsys.RemoveAll(a[0]))
	case "rename":
		return res(fsys.Rename(a[0], a[1]))
	case "symlink":
		return res(fsys.Symlink(a[0], a[1]))
	case "chmod":
		return res(fsys.Chmod(a[0], goMode(atou(a[1]))))
	case "chown":
		return res(fsys.Chown(a[0], atoi(a[1]), atoi(a[2])))
	case "lchown":
		return res(fsys.Lchown(a[0], atoi(a[1]), atoi(a[2])))
	case "chtimes":
		ns, _ := strconv.ParseInt(a[1], 10, 64)
		t := time.Unix(0, ns)
		return res(fsys.Chtimes(a[0], t, t))
	case "stat", "lstat":
		var fi fs.FileInfo
		var err error
		if op.K == "stat" {
			fi, err = fsys.Stat(a[0])
		} else {
			fi, err = fsys.Lstat(a[0])
		}
		if err != nil {
			return []string{"err", errClass(err)}
		}
		return append([]string{"ok", "info"}, rc.infoFields(fi)...)
	case "readlink":
		s, err := fsys.Readlink(a[0])
		if err != nil {
			return []string{"err", errClass(err)}
		}
		return []string{"ok", "str", s}
	}
	panic("unknown op kind " + op.K)
}

// modelOpFields renders op as the argument fields of the driver's call commands:
// kind "call": <method> <args…>; composites use their own commands.
func modelOpFields(op Op) (cmd string, fields []string) {
	a := op.A
	switch op.K {
	case "creat":
		return "creat", []string{a[0], a[1]}
	case "creatread":
		return "creatread", []string{a[0], a[1]}
	case "write":
		return "write", []string{a[0], a[1], a[2], a[3]}
	case "read":
		return "read", []string{a[0]}
	case "fstat":
		return "fstat", []string{a[0]}
	case "chtimes":
		return "call", []string{"chtimes", a[0], a[1], a[1]}
	case "chmod":
		return "call", []string{"chmod", a[0], a[1]}
	default:
		return "call", append([]string{op.K}, a...)
	}
}

var _ = fmt.Sprint
