module verif/harness

go 1.21

require github.com/jxsl13/backupfs v0.0.0

replace github.com/jxsl13/backupfs => /repo
