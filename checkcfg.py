"""Per-property configuration of ./check: which correspondence/oracle streams carry each
property's theorems to /repo, and which theorems must exist in lean/Props/<id>.lean."""

TRUSTED_BASE = [
    "Lean 4.33.0 kernel; axioms per theorem as listed under coverage.theorems (subset of propext, Classical.choice, Quot.sound)",
    "hand-written Lean model (lean/Model) tied to /repo by the correspondence streams listed under coverage.correspondence_streams (differential testing, bounded by generator quality)",
    "modelled, not verified: Go path/filepath, strings, sort.Sort (returns a sorted permutation) on linux; Linux+Go os semantics (Model/OS.lean)",
    "the Go harness (/verif/harness): generators, spy/fault wrappers, canonicaliser, oracles",
]

LAYER_ASSUME = ["every method of PrefixFS/VolumeFS/HiddenFS (except HiddenFS.RemoveAll and listings) issues at most one base call, namely `translate`'s: checked on every run by the layers stream with a spy base",
                "paths are valid UTF-8; linux (filepath.VolumeName is always empty)"]

HIST_ASSUME = ["the Lean model of BackupFS (Model/BackupFS.lean) and of Linux+Go os semantics (Model/OS.lean) agree with the implementation on the generated histories: checked on every run, per step, on result, data, mutating primitive trace, base tree, backup tree and tracked map",
               "root user; no hard links, fifos or devices; handles are written and closed within the operation that opened them; invalid UTF-8 names and sticky world-writable directories (protected_regular/protected_symlinks) are not generated",
               "times stamped during a case are compared as the token 'fresh'; a Chtimes to a fresh time is invisible in traces"]

PROPS = {
    "C05": {
        "theorems": ["prefix_confines", "symlink_target_confined_partial", "symlink_target_confined_full_fails", "rejected_is_escape", "escaping_name_rejected", "os_confined_linkfree", "os_confined_linkfree_strict", "os_confined_handle_writes", "symlink_created_inside_linkfree", "os_confined_with_inside_links_partial", "tame_step_partial", "os_confined_history_partial", "symlink_escapes_through_linked_parent", "symlink_escapes_after_rename"],
        "extra_modules": ["C05D"],
        "streams": [{"name": "layers"}, {"name": "osmodel", "quick": ["-n", "400"], "thorough": ["-n", "24000"]}],
        "assumptions": LAYER_ASSUME + ["OS level: the osmodel stream in confine mode runs histories through a real PrefixFS(OSFS) over a temp directory whose initial tree holds no symlink (every link is created through the PrefixFS), with sentinel files in the directories above the prefix; escapes through relative links combined with symlinked directories or Rename are the open finding K-prefix-lexical-links"],
    },
    "C06": {
        "theorems": ["isHidden_complete", "isHidden_complete_comparable", "hidden_never_delegated", "hidden_refused", "rename_refused", "symlink_refused", "refusal_classes", "hidden_outcome_independent_of_existence", "rename_hidden_on_every_state", "symlink_hidden_on_every_state", "hidden_subtree_untouched_linkfree", "hidden_subtree_untouched_any_spelling"],
        "extra_modules": ["C06D"],
        "streams": [{"name": "layers"}, {"name": "osmodel", "quick": ["-n", "300"], "thorough": ["-n", "20000"]}],
        "assumptions": LAYER_ASSUME,
    },
    "C14": {
        "theorems": ["reroot_exact", "symlink_readlink_roundtrip_abs", "symlink_readlink_roundtrip_rel", "readlink_no_leak", "reroot_effect_exact", "reroot_disk_exact", "reroot_mutator_exact", "prefixPost_spec"],
        "extra_modules": ["C14D"],
        "streams": [{"name": "layers"}],
        "assumptions": LAYER_ASSUME,
    },
    "C15": {
        "theorems": ["isHidden_sound", "visible_of_outside", "nonhidden_delegates", "arguments_unchanged", "removeAll_transparent_linkfree_partial", "nonhidden_effect_equal", "hiddenPost_spec"],
        "extra_modules": ["C15D"],
        "streams": [{"name": "layers"}, {"name": "osmodel", "quick": ["-n", "300"], "thorough": ["-n", "20000"]}],
        "assumptions": LAYER_ASSUME,
    },
    "C18": {
        "theorems": ["volume_identity", "readlink_cleaned", "names_pass_through"],
        "streams": [{"name": "layers"}],
        "assumptions": LAYER_ASSUME + ["the volume-platform half of the property cannot be executed on linux and is not claimed"],
    },
    "C19": {
        "theorems": ["lessFPS_strict_total", "ancestor_less", "sortMost_child_before_ancestor",
                     "sortLeast_ancestor_before_child", "sortMost_unique", "sortLeast_unique",
                     "sort_perm_invariant", "iterateDirTree_spec", "iterateDirTree_stop"],
        "streams": [{"name": "pure"}],
        "assumptions": ["paths are valid UTF-8 (List Char); invalid UTF-8 is outside the model",
                        "sort.Sort returns a permutation ordered by Less (T19.4 then makes the algorithm irrelevant)"],
    },
    "C01": {
        "theorems": ["rollback_touches_only_tracked", "removal_order", "restore_order", "nothing_tracked_after", "rollback_restores_linkfree_partial", "invariant_after_history", "rollback_returns_nil_linkfree_partial", "rollback_restores_symlink_leaves_partial",
                     "rollback_restores_through_flat_links_partial", "invariant_after_history_through_flat_links",
                     "later_rollback_still_restores_through_flat_links_partial", "through_flat_links_covers_symlink_leaves"],
        "extra_modules": ["C01G"],
        "streams": [{"name": "hist", "quick": ["-n", "900"], "thorough": ["-n", "32000"]}],
        "assumptions": HIST_ASSUME,
    },
    "C02": {
        "theorems": ["copy_completes_before_base_is_touched", "no_base_call_without_backup", "first_write_wins", "tracked_is_not_copied_again", "copy_records_nothing", "crashed_frozen", "originals_recoverable_at_every_crash_point_linkfree_partial",
                     "recoverable_of_inv", "file_recoverable_of_inv", "recoverable_of_invB",
                     "recoverable_at_every_crash_point_in_operations_linkfree_partial",
                     "crash_in_rollback_dichotomy_linkfree_partial",
                     "recoverable_at_every_crash_point_in_rollback_linkfree_partial",
                     "file_recoverable_at_every_crash_point_in_rollback_linkfree_partial",
                     "recoverable_at_every_crash_point_in_rollback_healthy_linkfree_partial",
                     "rollback_is_restore_then_cleanup", "restore_half_never_writes_backup", "cleanup_half_never_touches_base",
                     "backup_copies_exact_linkfree_partial", "backup_dir_copies_exact_linkfree_partial",
                     "original_intact_or_exactly_copied_linkfree_partial", "copy_never_overwritten_linkfree_partial",
                     "backup_holds_only_exact_copies_linkfree_partial",
                     "backup_copies_exact_at_every_crash_point_linkfree_partial",
                     "exactly_recoverable_at_every_crash_point_in_rollback_linkfree_partial",
                     "backup_holds_only_entries_at_paths_of_originals_linkfree_partial", "failed_copy_leaves_inexact_orphan"],
        "extra_modules": ["C02R", "C02X"],
        "streams": [{"name": "hist", "quick": ["-n", "300"], "thorough": ["-n", "16000"]}],
        "assumptions": HIST_ASSUME,
    },
    "C03": {
        "theorems": ["readonly_keeps_tracking", "readonly_single_ro_base_call", "mutator_shape",
                     "transparent_linkfree_partial", "affects_only_named_entry", "readonly_changes_nothing_disk",
                     "removeAll_below_file_differs"],
        "extra_modules": ["C03T"],
        "streams": [{"name": "hist", "quick": ["-n", "400"], "thorough": ["-n", "24000"]}, {"name": "osmodel", "quick": ["-n", "300"], "thorough": ["-n", "16000"]}],
        "assumptions": HIST_ASSUME + ["the reference side of transparent_linkfree_partial, Op.direct (Model/Direct.lean), is what the driver executes for the osmodel stream's commands, so it is compared with the real PrefixFS(OSFS) on every run", "reading adopted for RemoveAll below a file (ENOTDIR): counts as 'does not exist'"],
    },
    "C04": {
        "theorems": ["newWithFS_wiring", "base_view_never_names_loc", "backup_view_confined_to_loc", "loc_is_hidden",
                     "rollback_restores_nested_linkfree_partial", "nested_is_newWithFS", "loc_mutators_refused", "loc_mutators_refused_depth1",
                     "loc_readonly_refused", "loc_removeAll_nil", "loc_outcome_independent_of_content", "loc_rename_refused",
                     "loc_symlink_target_refused", "loc_never_changed_by_base_side", "listing_omits_loc", "backup_side_confined_to_loc",
                     "removeAll_of_ancestor_spares_loc", "rename_of_ancestor_refused", "loc_never_backed_up", "no_recursive_growth",
                     "backup_holds_no_copy_of_loc", "refused_mkdir_backs_up_ancestors"],
        "extra_modules": ["C04S"],
        "streams": [{"name": "hist", "quick": ["-n", "400"], "thorough": ["-n", "24000"]}, {"name": "layers", "quick": ["-n", "10000"]}, {"name": "listing"}],
        "assumptions": HIST_ASSUME + LAYER_ASSUME,
    },
    "C07": {
        "theorems": ["rollback_total", "infos_reset", "second_rollback_noop", "next_transaction_fresh", "rollback_returns_nil_linkfree_partial", "backup_clean_after_rollback_linkfree_partial", "backup_empty_after_rollback_linkfree_partial", "backup_invariant_after_history"],
        "streams": [{"name": "hist", "quick": ["-n", "300"], "thorough": ["-n", "20000"]}],
        "assumptions": HIST_ASSUME,
    },
    "C12": {
        "theorems": ["finfo_roundtrip", "nil_roundtrip", "mode_roundtrip", "time_roundtrip", "reload_identity", "restart_equiv"],
        "streams": [{"name": "hist", "quick": ["-n", "300"], "thorough": ["-n", "20000"]}],
        "assumptions": HIST_ASSUME + ["encoding/json round-trips the fInfo struct (integers and one string): exercised with the real Marshal/Unmarshal, not proved"],
    },
    "C13": {
        "theorems": ["rollback_footprint", "cleanup_uses_remove_only", "rollback_leaves_unrelated_entries_alone", "foreign_entry_survives", "unnamed_file_keeps_content", "foreign_backup_content_survives",
                     "rollback_changes_named_entries_only", "foreign_file_below_replaced_file_survives"],
        "streams": [{"name": "hist", "quick": ["-n", "300"], "thorough": ["-n", "20000"]}],
        "assumptions": HIST_ASSUME,
    },
    "C16": {
        "theorems": ["resolve_reads_only", "resolve_keeps_tracking", "chain_ends_in_path", "resolve_identity_without_links_partial", "resolve_empty", "resolve_exact_linkfree_partial",
                     "resolve_exact_flat_links_partial", "nofollow_calls_agree", "resolve_terminates", "resolve_cycle_fails_or_returns",
                     "flat_cleaned_target_is_not_enough"],
        "extra_modules": ["C16F"],
        "streams": [{"name": "hist", "quick": ["-n", "400"], "thorough": ["-n", "24000"]}],
        "assumptions": HIST_ASSUME,
    },
    "C17": {
        "theorems": ["forceBackup_shape", "forceBackup_untracked", "forceBackup_base_readonly_partial", "forceBackup_rebaselines_linkfree_partial", "forceBackup_rebaselines_after_faults_linkfree_partial", "forceBackup_rebaselines_many_linkfree_partial"],
        "streams": [{"name": "hist", "quick": ["-n", "300"], "thorough": ["-n", "20000"]}],
        "assumptions": HIST_ASSUME,
    },
    "C08": {
        "theorems": ["backup_never_mutates_base", "failed_backup_blocks", "failed_backup_blocks_rename", "copy_leaves_tracking_untouched", "later_rollback_still_restores_linkfree_partial"],
        "streams": [{"name": "faults", "quick": ["-n", "40"], "thorough": ["-n", "2000"]}],
        "assumptions": HIST_ASSUME + ["faults are injected by a wrapper around the backup filesystem that returns EIO without forwarding the call; the j-th occurrence of a call signature is addressed, so reordered read-only calls do not shift the plan"],
    },
    "C09": {
        "theorems": ["rollback_total", "success_means_every_step_succeeded", "restoreFile_propagates_open_error", "restoreSymlink_propagates_lstat_error", "success_means_restored_linkfree_partial", "unrestored_means_error_linkfree_partial"],
        "streams": [{"name": "faults", "quick": ["-n", "40"], "thorough": ["-n", "2000"]}],
        "assumptions": HIST_ASSUME + ["faults are injected on both filesystems incl. handle primitives (Read/Write/Close/Stat)"],
    },
    "C11": {
        "theorems": ["listing_stream", "eof_only_when_exhausted", "drain_returns_all", "listed_is_outside", "rename_ancestor_refused", "rename_onto_ancestor_refused", "removeAll_spares_hidden", "removeAll_removes_the_rest", "removeAll_succeeds"],
        "streams": [{"name": "listing"}, {"name": "osmodel", "quick": ["-n", "300"], "thorough": ["-n", "20000"]}, {"name": "layers", "quick": ["-n", "12000"]}],
        "assumptions": LAYER_ASSUME + ["the directory stream of the underlying os.File returns every entry once, in a fixed order (taken from a plain Readdirnames(-1) of the same directory)"],
    },
    "C10": {
        "theorems": ["serialisable", "critical_sections_are_atomic", "lock_discipline", "lock_discipline_nonvacuous",
                     "concurrent_ops_serialise", "concurrent_rollback_restores_linkfree_partial"],
        "extra_modules": ["C10S"],
        "streams": [{"name": "conc", "quick": ["-n", "25"], "thorough": ["-n", "1500"]}],
        "assumptions": ["sync.Mutex provides mutual exclusion",
                        "Generated/LockFacts.lean is regenerated from /repo's Go AST on every run (go/ast extractor in harness/astfacts.go)",
                        "not exhibited by the model: Go-memory-model data races as such, writes through a handle after the creating call returned, read-only operations observing intermediate states of a running RemoveAll/Rollback"],
    },
}
