"""Per-property configuration of ./check: which correspondence/oracle streams carry each
property's theorems to /repo, and which theorems must exist in lean/Props/<id>.lean."""

TRUSTED_BASE = [
    "Lean 4.33.0 kernel; axioms per theorem as listed under coverage.theorems (subset of propext, Classical.choice, Quot.sound)",
    "hand-written Lean model (lean/Model) tied to /repo by the correspondence streams listed under coverage.correspondence_streams (differential testing, bounded by generator quality)",
    "modelled, not verified: Go path/filepath, strings, sort.Sort (returns a sorted permutation) on linux; Linux+Go os semantics (Model/OS.lean)",
    "the Go harness (/verif/harness): generators, spy/fault wrappers, canonicaliser, oracles",
]

LAYER_ASSUME = ["every method of PrefixFS/VolumeFS/HiddenFS (except HiddenFS.RemoveAll and listings) issues at most one base call, namely `translate`'s: checked on every run by the layers stream with a spy base",
                "paths are valid UTF-8; linux (filepath.VolumeName is always empty)"]

PROPS = {
    "C05": {
        "theorems": ["prefix_confines", "symlink_target_confined_partial", "symlink_target_confined_full_fails", "rejected_is_escape", "escaping_name_rejected"],
        "streams": [{"name": "layers"}],
        "assumptions": LAYER_ASSUME + ["OS-level confinement after symlinks already inside the prefix are moved (Rename) is not covered by a theorem"],
    },
    "C06": {
        "theorems": ["isHidden_complete", "isHidden_complete_comparable", "hidden_never_delegated", "hidden_refused", "rename_refused", "symlink_refused", "refusal_classes"],
        "streams": [{"name": "layers"}],
        "assumptions": LAYER_ASSUME,
    },
    "C14": {
        "theorems": ["reroot_exact", "symlink_readlink_roundtrip_abs", "symlink_readlink_roundtrip_rel", "readlink_no_leak"],
        "streams": [{"name": "layers"}],
        "assumptions": LAYER_ASSUME,
    },
    "C15": {
        "theorems": ["isHidden_sound", "visible_of_outside", "nonhidden_delegates", "arguments_unchanged"],
        "streams": [{"name": "layers"}],
        "assumptions": LAYER_ASSUME,
    },
    "C18": {
        "theorems": ["volume_identity", "readlink_cleaned", "names_pass_through"],
        "streams": [{"name": "layers"}],
        "assumptions": LAYER_ASSUME + ["the volume-platform half of the property cannot be executed on linux and is not claimed"],
    },
    "C19": {
        "theorems": ["lessFPS_strict_total", "ancestor_less", "sortMost_child_before_ancestor",
                     "sortLeast_ancestor_before_child", "sortMost_unique", "sortLeast_unique",
                     "sort_perm_invariant", "iterateDirTree_spec", "iterateDirTree_stop"],
        "streams": [{"name": "pure"}],
        "assumptions": ["paths are valid UTF-8 (List Char); invalid UTF-8 is outside the model",
                        "sort.Sort returns a permutation ordered by Less (T19.4 then makes the algorithm irrelevant)"],
    },
}
