"""Per-property configuration of ./check: which correspondence/oracle streams carry each
property's theorems to /repo, and which theorems must exist in lean/Props/<id>.lean."""

TRUSTED_BASE = [
    "Lean 4.33.0 kernel; axioms per theorem as listed under coverage.theorems (subset of propext, Classical.choice, Quot.sound)",
    "hand-written Lean model (lean/Model) tied to /repo by the correspondence streams listed under coverage.correspondence_streams (differential testing, bounded by generator quality)",
    "modelled, not verified: Go path/filepath, strings, sort.Sort (returns a sorted permutation) on linux; Linux+Go os semantics (Model/OS.lean)",
    "the Go harness (/verif/harness): generators, spy/fault wrappers, canonicaliser, oracles",
]

PROPS = {
    "C19": {
        "theorems": ["lessFPS_strict_total", "ancestor_less", "sortMost_child_before_ancestor",
                     "sortLeast_ancestor_before_child", "sortMost_unique", "sortLeast_unique",
                     "sort_perm_invariant", "iterateDirTree_spec", "iterateDirTree_stop"],
        "streams": [{"name": "pure"}],
        "assumptions": ["paths are valid UTF-8 (List Char); invalid UTF-8 is outside the model",
                        "sort.Sort returns a permutation ordered by Less (T19.4 then makes the algorithm irrelevant)"],
    },
}
