import Lemmas.Order
import Lemmas.Sort
import Lemmas.Clean
import Lemmas.Iter
import Lemmas.Chain
