import Model.BackupFS
/-!
  Model/History.lean — the operations a client issues through a BackupFS, as data, and what
  executing one does.  The driver executes exactly `Op.exec` (Driver/BFS.lean), so the histories
  the correspondence check replays and the histories the theorems quantify over are the same
  thing.  `creat`/`write` are the composite "open, write through the handle, close".
-/
namespace BFS

inductive Op
  | creat (name : Path) (data : String)
  | write (name : Path) (flag perm : Nat) (data : String)
  | mkdir (name : Path) (perm : Nat)
  | mkdirAll (name : Path) (perm : Nat)
  | remove (name : Path)
  | removeAll (name : Path)
  | rename (oldname newname : Path)
  | symlink (oldname newname : Path)
  | chmod (name : Path) (mode : Nat)
  | chown (name : Path) (uid gid : Int)
  | lchown (name : Path) (uid gid : Int)
  | chtimes (name : Path) (t : Time)
  | stat (name : Path)
  | lstat (name : Path)
  | readlink (name : Path)
  | force (name : Path)
deriving Repr

inductive WriteOutcome
  | ok
  | errWrite (e : Err)
  | errClose (e : Err)
deriving Repr

inductive OpOut
  | unit
  | written (h : WHandle) (o : WriteOutcome)
  | info (i : Info)
  | str (s : Path)
deriving Repr

/-- write `data` through a freshly opened handle and close it -/
def writeClose (cfg : Cfg) (h : WHandle) (data : String) : M WriteOutcome := do
  let r ← attempt (whenM (!data.isEmpty) (hWrite cfg h 0 data))
  match r with
  | .error e =>
    let _ ← attempt (hClose h)
    pure (.errWrite e)
  | .ok () =>
    match ← attempt (hClose h) with
    | .error e => pure (.errClose e)
    | .ok () => pure .ok

def Op.exec (cfg : Cfg) : Op → M OpOut
  | .creat p data => do
    let h ← BackupFS.create cfg p
    let o ← writeClose cfg h data
    pure (.written h o)
  | .write p flag perm data => do
    let h ← BackupFS.openFile cfg p flag perm
    let o ← writeClose cfg h data
    pure (.written h o)
  | .mkdir p m => do BackupFS.mkdir cfg p m; pure .unit
  | .mkdirAll p m => do BackupFS.mkdirAll cfg p m; pure .unit
  | .remove p => do BackupFS.remove cfg p; pure .unit
  | .removeAll p => do BackupFS.removeAll cfg p; pure .unit
  | .rename o n => do BackupFS.rename cfg o n; pure .unit
  | .symlink o n => do BackupFS.symlink cfg o n; pure .unit
  | .chmod p m => do BackupFS.chmod cfg p m; pure .unit
  | .chown p u g => do BackupFS.chown cfg p u g; pure .unit
  | .lchown p u g => do BackupFS.lchown cfg p u g; pure .unit
  | .chtimes p t => do BackupFS.chtimes cfg p t t; pure .unit
  | .stat p => do let i ← BackupFS.stat cfg p; pure (.info i)
  | .lstat p => do let i ← BackupFS.lstat cfg p; pure (.info i)
  | .readlink p => do let s ← BackupFS.readlink cfg p; pure (.str s)
  | .force p => do BackupFS.forceBackup cfg p; pure .unit

/-- the world after an operation, whether it succeeded or failed -/
def Op.step (cfg : Cfg) (w : World) (op : Op) : World := (op.exec cfg w).1

/-- the world after a history -/
def runOps (cfg : Cfg) (w : World) (ops : List Op) : World := ops.foldl (Op.step cfg) w

end BFS
