import Model.History
/-!
  Model/Direct.lean — "the same operation issued directly on a filesystem" (C03's reference side).

  `Op.direct fs m op` mirrors `Op.exec` (Model/History.lean) but calls the filesystem `fs : FSI MFS`
  directly on the disk `m`: no path resolution, no backup, no tracked map, no trace, no fault plan.
  `creat`/`write` are the composite "open, write the data through the handle, close"; `removeAll`
  is the filesystem's own `RemoveAll` (for `osCfg`: `os.RemoveAll` behind `PrefixFS`), not
  BackupFS's walk.  The driver executes the `os.call` / `os.creat` / `os.write` commands of the
  `osmodel` stream through exactly this function, so it is tied to the real `PrefixFS(OSFS)` by the
  same differential stream as the OS model itself.
-/
namespace BFS

/-- what an operation returns to its caller, without the spy's bookkeeping (`WHandle.arg`,
`WHandle.side`): the data `OpOut` records -/
inductive DOut
  | unit
  | written (h : Handle) (o : WriteOutcome)
  | info (i : Info)
  | str (s : Path)

def OpOut.data : OpOut → DOut
  | .unit => .unit
  | .written wh o => .written wh.h o
  | .info i => .info i
  | .str s => .str s

/-- write `data` through a freshly opened handle (and close it) -/
def directWrite (fs : FSI MFS) (m : MFS) (h : Handle) (data : String) : MFS × WriteOutcome :=
  if data.isEmpty then (m, .ok)
  else
    match fs.hwrite m h 0 data with
    | (m', .ok ()) => (m', .ok)
    | (m', .error e) => (m', .errWrite e)

def directUnit (fs : FSI MFS) (m : MFS) (c : Call) : MFS × Except Err DOut :=
  match fs.call m c with
  | (m', .ok _) => (m', .ok .unit)
  | (m', .error e) => (m', .error e)

def directOpen (fs : FSI MFS) (m : MFS) (c : Call) (data : String) : MFS × Except Err DOut :=
  match fs.call m c with
  | (m1, .ok (.handle h)) =>
    let r := directWrite fs m1 h data
    (r.1, .ok (.written h r.2))
  | (m1, .ok _) => (m1, .error .other)
  | (m1, .error e) => (m1, .error e)

def directInfo (fs : FSI MFS) (m : MFS) (c : Call) : MFS × Except Err DOut :=
  match fs.call m c with
  | (m', .ok (.info i)) => (m', .ok (.info i))
  | (m', .ok _) => (m', .error .other)
  | (m', .error e) => (m', .error e)

def directStr (fs : FSI MFS) (m : MFS) (c : Call) : MFS × Except Err DOut :=
  match fs.call m c with
  | (m', .ok (.str s)) => (m', .ok (.str s))
  | (m', .ok _) => (m', .error .other)
  | (m', .error e) => (m', .error e)

/-- the operation `op` issued directly on the filesystem `fs` over the disk `m` -/
def Op.direct (fs : FSI MFS) (m : MFS) : Op → MFS × Except Err DOut
  | .creat p data => directOpen fs m (.create p) data
  | .write p flag perm data => directOpen fs m (.openFile p flag perm) data
  | .mkdir p pm => directUnit fs m (.mkdir p pm)
  | .mkdirAll p pm => directUnit fs m (.mkdirAll p pm)
  | .remove p => directUnit fs m (.remove p)
  | .removeAll p => directUnit fs m (.removeAll p)
  | .rename o n => directUnit fs m (.rename o n)
  | .symlink o n => directUnit fs m (.symlink o n)
  | .chmod p md => directUnit fs m (.chmod p md)
  | .chown p u g => directUnit fs m (.chown p u g)
  | .lchown p u g => directUnit fs m (.lchown p u g)
  | .chtimes p t => directUnit fs m (.chtimes p t t)
  | .stat p => directInfo fs m (.stat p)
  | .lstat p => directInfo fs m (.lstat p)
  | .readlink p => directStr fs m (.readlink p)
  | .force _ => (m, .ok .unit)      -- ForceBackup has no counterpart on a plain filesystem

end BFS
