import Model.Json
import Model.History
/-!
  Model/Restart.lean — persist / restart / reload as part of a client session (C12).

  `restart w` is what happens to the world when the tracked map is exported (`MarshalJSON`), the
  process restarts, and a new BackupFS over the same base and backup filesystems loads it
  (`UnmarshalJSON`): the map goes through the JSON form (`reloadInfos`, Model/Json.lean), everything
  else is unchanged.  The driver's `bfs.reload` command executes exactly `restart`; the `hist` stream
  performs the real `json.Marshal`/`json.Unmarshal` into a newly constructed BackupFS at the same
  points and compares the tracked map and everything that follows.
-/
namespace BFS

/-- the world after persist → restart → reload: the tracked map went through JSON, everything
else (the disk; trace, fault plan and occurrence counters of the harness) is unchanged -/
def restart (w : World) : World := { w with infos := reloadInfos w.infos }

/-- an operation, or a restart -/
abbrev Step := Op ⊕ Unit

def Step.run (cfg : Cfg) (w : World) : Step → World
  | .inl op => op.step cfg w
  | .inr () => restart w

/-- the world after a session with restarts -/
def runOpsR (cfg : Cfg) (w : World) (steps : List Step) : World := steps.foldl (Step.run cfg) w

/-- the operations of a session, restarts dropped -/
def opsOf : List Step → List Op
  | [] => []
  | .inl op :: rest => op :: opsOf rest
  | .inr () :: rest => opsOf rest

/-- one transaction with restarts, ended by `Rollback` on whatever instance is current -/
def runTxR (cfg : Cfg) (w : World) (steps : List Step) : World :=
  (BackupFS.rollback cfg (runOpsR cfg w steps)).1

/-- several consecutive transactions with restarts on the same filesystems -/
def runTxsR (cfg : Cfg) (w : World) (txs : List (List Step)) : World := txs.foldl (runTxR cfg) w

/-- every owner on the disk fits `uid_t`/`gid_t` (32 bits) — decidable: checked on `dom`, which
lists every live key of a well-formed disk (`OSGood.dom`) -/
def OwnersSmall (m : MFS) : Bool :=
  m.dom.all (fun k =>
    match m.get k with
    | some n => decide (n.meta.uid < 4294967296) && decide (n.meta.gid < 4294967296)
    | none => true)

end BFS
