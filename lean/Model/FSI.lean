import Model.OS
import Model.Layers
/-!
  Model/FSI.lean — the Go `FS` interface over an abstract state `σ`, `OSFS` as an instance over
  `MFS`, and the layers PrefixFS / VolumeFS / HiddenFS as functions `FSI σ → FSI σ` derived from
  their call translators.  `Walk` and `HiddenFS.RemoveAll` are multi-call programs over an `FSI`.
-/
namespace BFS

inductive Ret
  | unit
  | info (i : Info)
  | str (s : Path)
  | handle (h : Handle)
deriving DecidableEq, Repr, Inhabited

/-- the `FS` interface: the 16 path-taking methods plus the handle primitives the code uses -/
structure FSI (σ : Type) where
  call : σ → Call → σ × Except Err Ret
  hread : σ → Handle → Except Err String
  hwrite : σ → Handle → Nat → String → σ × Except Err Unit
  hstat : σ → Handle → Except Err Info
  hreaddirnames : σ → Handle → Except Err (List Name)

def liftU {σ} (r : σ × Except Err Unit) : σ × Except Err Ret :=
  (r.1, r.2.map (fun _ => Ret.unit))

/-- `OSFS` -/
def osCall (m : MFS) : Call → MFS × Except Err Ret
  | .create n =>
    let r := m.openFile n (O_RDWR ||| O_CREATE ||| O_TRUNC) 0o666
    (r.1, r.2.map Ret.handle)
  | .mkdir n p => liftU (m.mkdir n p)
  | .mkdirAll n p => liftU (m.mkdirAll p (n.length + 2) n)
  | .open_ n =>
    let r := m.openFile n O_RDONLY 0
    (r.1, r.2.map Ret.handle)
  | .openFile n f p =>
    let r := m.openFile n f p
    (r.1, r.2.map Ret.handle)
  | .remove n => liftU (m.remove n)
  | .removeAll n => liftU (m.removeAll n)
  | .rename o n => liftU (m.rename o n)
  | .stat n => (m, (m.stat n).map Ret.info)
  | .chmod n md => liftU (m.chmod n md)
  | .chown n u g => liftU (m.chown n u g)
  | .chtimes n _ mt => liftU (m.chtimes n mt)
  | .lstat n => (m, (m.lstat n).map Ret.info)
  | .symlink o n => liftU (m.symlink o n)
  | .readlink n => (m, (m.readlink n).map Ret.str)
  | .lchown n u g => liftU (m.lchown n u g)

def osfs : FSI MFS where
  call := osCall
  hread := MFS.hread
  hwrite := MFS.hwrite
  hstat := MFS.hstat
  hreaddirnames := MFS.hreaddirnames

/-- the first path argument a translated call carries (the prefixed path of the entry) -/
def Call.primaryPath : Call → Path
  | .rename _ n => n
  | .symlink _ n => n
  | c => c.accessPaths.headD []

/-! ### PrefixFS / VolumeFS as layers -/

def prefixPost (pre : Path) (c c' : Call) (r : Ret) : Ret :=
  match c, r with
  | .readlink _, .str t => .str (PrefixFS.readlinkPost pre t)
  | _, .handle h => .handle { h with name := PrefixFS.reportedName pre c'.primaryPath h.name }
  | .stat _, .info i => .info { i with name := PrefixFS.reportedInfoName pre c'.primaryPath i.name }
  | .lstat _, .info i => .info { i with name := PrefixFS.reportedInfoName pre c'.primaryPath i.name }
  | _, r => r

def layer {σ} (tr : Call → Except Err Call) (post : Call → Call → Ret → Ret) (inner : FSI σ) : FSI σ :=
  { inner with
    call := fun s c =>
      match tr c with
      | .error e => (s, .error e)
      | .ok c' =>
        let r := inner.call s c'
        (r.1, r.2.map (post c c')) }

def prefixFS {σ} (prefixPath : Path) (inner : FSI σ) : FSI σ :=
  let pre := PrefixFS.mk prefixPath
  layer (PrefixFS.translate pre) (prefixPost pre) inner

def volumePost (c c' : Call) (r : Ret) : Ret :=
  match c, r with
  | .readlink _, .str t => .str (VolumeFS.readlinkPost t)
  | _, .handle h => .handle { h with name := VolumeFS.reportedName c'.primaryPath h.name }
  | .stat _, .info i => .info { i with name := VolumeFS.reportedInfoName c'.primaryPath i.name }
  | .lstat _, .info i => .info { i with name := VolumeFS.reportedInfoName c'.primaryPath i.name }
  | _, r => r

def volumeFS {σ} (inner : FSI σ) : FSI σ := layer VolumeFS.translate volumePost inner

/-! ### Walk (walk.go) -/

/-- the two filesystem accesses `Walk` performs, over an arbitrary state -/
structure WalkOps (σ : Type) where
  lstat : σ → Path → σ × Except Err Info
  /-- `readDirNames`: Open, Readdirnames(-1), Close, sort -/
  readDirNames : σ → Path → σ × Except Err (List Name)

def fsiLstat {σ} (fs : FSI σ) (s : σ) (p : Path) : σ × Except Err Info :=
  match fs.call s (.lstat p) with
  | (s1, .error e) => (s1, .error e)
  | (s1, .ok (.info i)) => (s1, .ok i)
  | (s1, .ok _) => (s1, .error .other)

def fsiReadDirNames {σ} (fs : FSI σ) (s : σ) (dirname : Path) : σ × Except Err (List Name) :=
  match fs.call s (.open_ dirname) with
  | (s1, .error e) => (s1, .error e)
  | (s1, .ok (.handle h)) =>
    (match fs.hreaddirnames s1 h with
     | .error e => (s1, .error e)
     | .ok names => (s1, .ok (sortStrings names)))
  | (s1, .ok _) => (s1, .error .other)

def fsiWalkOps {σ} (fs : FSI σ) : WalkOps σ := ⟨fsiLstat fs, fsiReadDirNames fs⟩

/-- What a `filepath.WalkFunc` returns. (`SkipDir` is not used by any caller in the repo.) -/
abbrev WalkFn (σ α : Type) := σ → α → Path → Option Info → Option Err → (σ × α) × Option Err

mutual
/-- `walk(fs, path, info, walkFn)`; `fuel` bounds the directory depth. -/
def walkRec {σ α} (ops : WalkOps σ) (fn : WalkFn σ α) : Nat → σ → α → Path → Info → (σ × α) × Option Err
  | 0, s, a, _, _ => ((s, a), some .loop)
  | fuel + 1, s, a, path, info =>
    match fn s a path (some info) none with
    | (sa, some e) => (sa, some e)
    | ((s1, a1), none) =>
      if !info.isDir then ((s1, a1), none)
      else
        match ops.readDirNames s1 path with
        | (s2, .error e) => fn s2 a1 path (some info) (some e)
        | (s2, .ok names) => walkNames ops fn fuel s2 a1 path names

def walkNames {σ α} (ops : WalkOps σ) (fn : WalkFn σ α) : Nat → σ → α → Path → List Name → (σ × α) × Option Err
  | _, s, a, _, [] => ((s, a), none)
  | fuel, s, a, path, name :: rest =>
    let filename := join path name
    match ops.lstat s filename with
    | (s1, .error e) =>
      (match fn s1 a filename none (some e) with
       | (sa, some e') => (sa, some e')
       | ((s2, a2), none) => walkNames ops fn fuel s2 a2 path rest)
    | (s1, .ok fi) =>
      (match walkRec ops fn fuel s1 a filename fi with
       | (sa, some e) => (sa, some e)
       | ((s2, a2), none) => walkNames ops fn fuel s2 a2 path rest)
end

/-- `Walk(fsys, root, walkFn)` -/
def walkTree {σ α} (ops : WalkOps σ) (fn : WalkFn σ α) (fuel : Nat) (s : σ) (a : α) (root : Path) :
    (σ × α) × Option Err :=
  match ops.lstat s root with
  | (s1, .error e) => fn s1 a root none (some e)
  | (s1, .ok info) => walkRec ops fn fuel s1 a root info

/-! ### HiddenFS as a layer -/

def hiddenPost (c _c' : Call) (r : Ret) : Ret :=
  match r with
  | .handle h => .handle { h with lname := c.primaryPath }
  | r => r

/-- filter of `hiddenFile.Readdirnames(-1)` -/
def hiddenFilter (hs : List Path) (dirPath : Path) : List Name → Except Err (List Name)
  | [] => .ok []
  | n :: ns =>
    match HiddenFS.isHidden (join dirPath n) hs with
    | .error e => .error e
    | .ok hid =>
      match hiddenFilter hs dirPath ns with
      | .error e => .error e
      | .ok rest => .ok (if hid then rest else n :: rest)

/-- the walk function of `HiddenFS.RemoveAll`: skip hidden, collect directories, remove the rest -/
def hiddenRemoveFn {σ} (hs : List Path) (inner : FSI σ) : WalkFn σ (List Path) :=
  fun s dirs path info err =>
    match err with
    | some e => ((s, dirs), some e)
    | none =>
      match HiddenFS.isHidden path hs with
      | .error e => ((s, dirs), some e)
      | .ok true => ((s, dirs), none)
      | .ok false =>
        match info with
        | none => ((s, dirs), some .other)
        | some i =>
          if i.isDir then ((s, dirs ++ [path]), none)
          else
            -- s.Remove(path): hidden check again, then base.Remove
            match HiddenFS.translate hs (.remove path) with
            | .error e => ((s, dirs), some e)
            | .ok c' =>
              match inner.call s c' with
              | (s1, .error e) => ((s1, dirs), some e)
              | (s1, .ok _) => ((s1, dirs), none)

def hiddenRemoveDirs {σ} (hs : List Path) (inner : FSI σ) : σ → List Path → σ × Except Err Unit
  | s, [] => (s, .ok ())
  | s, d :: ds =>
    match HiddenFS.isParentOfHidden d hs with
    | .error e => (s, .error e)
    | .ok true => hiddenRemoveDirs hs inner s ds
    | .ok false =>
      match inner.call s (.remove d) with
      | (s1, .error e) => (s1, .error e)
      | (s1, .ok _) => hiddenRemoveDirs hs inner s1 ds

/-- `HiddenFS.RemoveAll` -/
def hiddenRemoveAll {σ} (hs : List Path) (inner : FSI σ) (fuel : Nat) (s : σ) (name : Path) :
    σ × Except Err Unit :=
  match HiddenFS.hguard hs name .hiddenNotExist with
  | .error e => (s, .error e)
  | .ok () =>
    -- s.Lstat(name) (hidden check passes again)
    match inner.call s (.lstat name) with
    | (s1, .error e) => if e.isErrNotExist then (s1, .ok ()) else (s1, .error e)
    | (s1, .ok (.info fi)) =>
      if !fi.isDir then
        (match inner.call s1 (.remove name) with
         | (s2, .error e) => (s2, .error e)
         | (s2, .ok _) => (s2, .ok ()))
      else
        (match walkTree (fsiWalkOps inner) (hiddenRemoveFn hs inner) fuel s1 [] name with
         | ((s2, _), some e) => (s2, .error e)
         | ((s2, dirs), none) => hiddenRemoveDirs hs inner s2 (sortMost dirs))
    | (s1, .ok _) => (s1, .error .other)

/-- the name `HiddenFS.RemoveAll` works with: cleaned, except that the empty name stays empty
(`if name != "" { name = filepath.Clean(name) }`: the walk cleans every path below the root by
joining, and the directories are removed deepest first by separator count, so the root must be
in cleaned form too) -/
def rmName (n : Path) : Path := if n = [] then n else clean n

def hiddenFS {σ} (hiddenPaths : List Path) (inner : FSI σ) : FSI σ :=
  let hs := HiddenFS.mk hiddenPaths
  { call := fun s c =>
      match c with
      | .removeAll n => liftU (hiddenRemoveAll hs inner 64 s (rmName n))
      | _ =>
        match HiddenFS.translate hs c with
        | .error e => (s, .error e)
        | .ok c' =>
          let r := inner.call s c'
          (r.1, r.2.map (hiddenPost c c'))
    hread := inner.hread
    hwrite := inner.hwrite
    hstat := inner.hstat
    hreaddirnames := fun s h =>
      match inner.hreaddirnames s h with
      | .error e => .error e
      | .ok names => hiddenFilter hs h.lname names }

end BFS
