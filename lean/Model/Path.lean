/-
  Model/Path.lean — Go strings as `List Char`, and hand models of the `path/filepath`,
  `path` and `strings` functions (GOOS=linux) that jxsl13/backupfs calls, plus the repo's own
  pure path functions (`IterateDirTree`, `LessFilePathSeparators`, `toAbsSymlink`, ...).

  Tie: every definition here is compared against the real Go function by the harness
  (`vharness pure`), exhaustively over short strings of a path-shaped alphabet and on random
  longer strings.  Invalid UTF-8 is outside the model.
-/
namespace BFS

/-- A Go string holding valid UTF-8. -/
abbrev Path := List Char

abbrev Name := List Char

def sepC : Char := '/'

def dot : Name := ['.']
def dotdot : Name := ['.', '.']
def rootP : Path := ['/']

/-- `strings.Split(p, "/")`: never empty. -/
def splitSep : Path → List Name
  | [] => [[]]
  | c :: cs =>
    if c = '/' then [] :: splitSep cs
    else match splitSep cs with
      | [] => [[c]]
      | w :: ws => (c :: w) :: ws

/-- `strings.Join(names, "/")`. -/
def joinSep : List Name → Path
  | [] => []
  | [n] => n
  | n :: ns => n ++ '/' :: joinSep ns

/-- A lexically cleaned path: rooted or not, and its components (oldest first).  A rooted path
has no `..` components; an unrooted one has them only as a leading run. -/
structure CPath where
  rooted : Bool
  comps  : List Name
deriving DecidableEq, Repr

/-- One step of `filepath.Clean`'s component loop; `st` is the output stack, newest first. -/
def cleanStep (rooted : Bool) (st : List Name) (c : Name) : List Name :=
  if c = [] then st
  else if c = dot then st
  else if c = dotdot then
    match st with
    | [] => if rooted then [] else [c]
    | t :: rest => if t = dotdot then c :: st else rest
  else c :: st

def isRooted : Path → Bool
  | c :: _ => c = '/'
  | [] => false

/-- `filepath.Clean` in component form. -/
def cleanC (p : Path) : CPath :=
  let r := isRooted p
  { rooted := r, comps := ((splitSep p).foldl (cleanStep r) []).reverse }

def CPath.render (c : CPath) : Path :=
  if c.rooted then '/' :: joinSep c.comps
  else if c.comps = [] then dot else joinSep c.comps

/-- `filepath.Clean` (linux). -/
def clean (p : Path) : Path := (cleanC p).render

/-- `filepath.Join(a, b)` (linux). -/
def join (a b : Path) : Path :=
  if a ≠ [] then clean (a ++ '/' :: b)
  else if b ≠ [] then clean b
  else []

/-- The part of `p` up to and including its last `/` (empty if there is none). -/
def uptoLastSep : Path → Path
  | [] => []
  | c :: cs =>
    let r := uptoLastSep cs
    if r ≠ [] then c :: r
    else if c = '/' then [c] else []

/-- The part of `p` after its last `/`. -/
def afterLastSep (p : Path) : Path := p.drop (uptoLastSep p).length

/-- `filepath.Dir` (linux). -/
def dir (p : Path) : Path := clean (uptoLastSep p)

def stripTrailingSeps (p : Path) : Path := (p.reverse.dropWhile (· = '/')).reverse

/-- `path.Base` / `filepath.Base` (linux). -/
def base (p : Path) : Path :=
  if p = [] then dot
  else
    let q := stripTrailingSeps p
    let b := afterLastSep q
    if b = [] then rootP else b

/-- `strings.HasPrefix`. -/
def hasPrefix (s pre : Path) : Bool := pre.isPrefixOf s

/-- `strings.TrimPrefix`. -/
def trimPrefix (s pre : Path) : Path := if pre.isPrefixOf s then s.drop pre.length else s

/-- `strings.Count(s, "/")`. -/
def countSep (s : Path) : Nat := s.count '/'

/-- repo `isAbs` on linux: `path.IsAbs(ToSlash(name)) || filepath.IsAbs(FromSlash(name))`. -/
def isAbs (p : Path) : Bool := isRooted p

/-- strip the longest common prefix of two component lists -/
def stripCommon : List Name → List Name → List Name × List Name
  | a :: as, b :: bs => if a = b then stripCommon as bs else (a :: as, b :: bs)
  | as, bs => (as, bs)

/-- `filepath.Rel(basepath, targpath)` (linux); `none` is the "can't make relative" error. -/
def rel (basepath targpath : Path) : Option Path :=
  let b := cleanC basepath
  let t := cleanC targpath
  if b = t then some dot
  else if b.rooted ≠ t.rooted then none
  else
    -- Go quirk: an unrooted target that cleans to "." keeps that element (`Rel("a", ".") = "../."`)
    let tcomps := if !t.rooted && t.comps = [] then [dot] else t.comps
    let (bs, ts) := stripCommon b.comps tcomps
    match bs with
    | [] => some (joinSep ts)
    | b0 :: _ =>
      if b0 = dotdot then none
      else some (joinSep (bs.map (fun _ => dotdot) ++ ts))

/-- `".." + string(os.PathSeparator)` -/
def relParent : Path := ['.', '.', '/']

/-- repo `relInside` (prefixfs.go): relative path of `name` below `d`, or none when outside. -/
def relInside (d name : Path) : Option Path :=
  match rel d name with
  | none => none
  | some r => if r = dotdot || hasPrefix r relParent then none else some r

/-! ### repo: fs_utils.go -/

/-- `IterateDirTree` with a visitor that always proceeds: the visited prefixes, in order.
`pre` holds the characters already consumed. -/
def iterAux (pre : Path) : Path → List Path
  | [] => []
  | [r] => [pre ++ [r]]
  | r :: r2 :: rs =>
    let rest := iterAux (pre ++ [r]) (r2 :: rs)
    if r = '/' then (if pre = [] then [r] else pre) :: rest else rest

def iterateDirTree (name : Path) : List Path := iterAux [] name

/-- `IterateDirTree` with an arbitrary stateful visitor `v : σ → Path → σ × Except ε Bool`
(the Go visitor returns `(proceed, err)`).  Result: final state and `(aborted, err)`. -/
def iterVisit {σ ε : Type} (v : σ → Path → σ × Except ε Bool) : σ → List Path → σ × Except ε Bool
  | s, [] => (s, .ok false)
  | s, p :: ps =>
    match v s p with
    | (s', .error e) => (s', .error e)
    | (s', .ok false) => (s', .ok true)
    | (s', .ok true) => iterVisit v s' ps

def toAbsSymlink (oldname newname : Path) : Path :=
  if !isAbs oldname then join (dir newname) oldname else oldname

/-- `replacePathPrefix` applied to one path. -/
def replacePrefix1 (oldPrefix newPrefix p : Path) : Path := join newPrefix (trimPrefix p oldPrefix)

/-! ### repo: sort.go -/

/-- separator count with the root special case (`-1` for `"/"`), shifted by one to stay in `Nat`:
root ↦ 0, everything else ↦ count+1. -/
def sepKey (a : Path) : Nat := if countSep a = 1 ∧ a = rootP then 0 else countSep a + 1

/-- Go string comparison `a < b` (bytewise = by code point on valid UTF-8). -/
def strLt : Path → Path → Bool
  | [], [] => false
  | [], _ :: _ => true
  | _ :: _, [] => false
  | a :: as, b :: bs => if a.toNat < b.toNat then true else if b.toNat < a.toNat then false else strLt as bs

/-- `LessFilePathSeparators` (linux: `TrimVolume` is the identity). -/
def lessFPS (a b : Path) : Bool :=
  if sepKey a = sepKey b then strLt a b else sepKey a < sepKey b

/-- insertion into a list sorted by `lt` -/
def insertBy (lt : Path → Path → Bool) (x : Path) : List Path → List Path
  | [] => [x]
  | y :: ys => if lt y x then y :: insertBy lt x ys else x :: y :: ys

def sortBy (lt : Path → Path → Bool) : List Path → List Path
  | [] => []
  | x :: xs => insertBy lt x (sortBy lt xs)

/-- `sort.Sort(ByLeastFilePathSeparators(l))` — any sorted permutation is this one for distinct
paths (Props/C19). -/
def sortLeast (l : List Path) : List Path := sortBy lessFPS l

/-- `sort.Sort(ByMostFilePathSeparators(l))`: `Less(i,j) = !LessFilePathSeparators(a[i],a[j])`. -/
def sortMost (l : List Path) : List Path := sortBy (fun a b => lessFPS b a) l

/-- `sort.Strings`. -/
def sortStrings (l : List Path) : List Path := sortBy strLt l

end BFS
