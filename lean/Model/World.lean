import Model.FSI
/-!
  Model/World.lean — the state a BackupFS transaction runs in, and the single gate `prim`
  through which every primitive call on the base or backup filesystem passes: it appends to the
  trace, counts the call's occurrence, consults the fault plan, and only then executes.
-/
namespace BFS

inductive Side | base | backup
deriving DecidableEq, Repr, Inhabited

def Side.name : Side → String
  | .base => "base"
  | .backup => "backup"

/-- the observable signature of a primitive call: filesystem, method, arguments (as the spy
wrapper in the harness renders them) -/
structure Sig where
  side   : Side
  method : String
  args   : List Path
deriving DecidableEq, Repr, Inhabited

/-- one entry of the trace -/
structure Event where
  sig    : Sig
  failed : Bool       -- the call returned an error (injected or genuine)
  mutating : Bool
deriving DecidableEq, Repr, Inhabited

/-- fail the `occ`-th (0-based) call with signature `sig` -/
structure Fault where
  sig : Sig
  occ : Nat
deriving DecidableEq, Repr, Inhabited

/-- the two filesystems a BackupFS is built from -/
structure Cfg where
  base   : FSI MFS
  backup : FSI MFS

def Cfg.side (cfg : Cfg) : Side → FSI MFS
  | .base => cfg.base
  | .backup => cfg.backup

structure World where
  fs     : MFS
  infos  : List (Path × Option Info) := []   -- baseInfos, in insertion order, keys unique
  trace  : List Event := []                  -- newest first
  faults : List Fault := []
  seen   : List (Sig × Nat) := []            -- occurrence counters

/-- a handle together with the path argument it was opened with (what the spy logs) -/
structure WHandle where
  h    : Handle
  arg  : Path
  side : Side
deriving Repr, Inhabited

/-- computations that always return a state, even when they fail -/
abbrev M (α : Type) := World → World × Except Err α

instance : Monad M where
  pure a := fun w => (w, .ok a)
  bind x f := fun w =>
    match x w with
    | (w', .ok a) => f a w'
    | (w', .error e) => (w', .error e)

def M.throw {α} (e : Err) : M α := fun w => (w, .error e)

/-- run `x`, returning its error as a value -/
def attempt {α} (x : M α) : M (Except Err α) := fun w =>
  match x w with
  | (w', r) => (w', .ok r)

/-- run `x` only when `c` holds -/
def whenM (c : Bool) (x : M Unit) : M Unit := if c then x else pure ()

def getW : M World := fun w => (w, .ok w)
def modifyW (f : World → World) : M Unit := fun w => (f w, .ok ())

def natS (n : Nat) : Path := (toString n).toList
def intS (n : Int) : Path := (toString n).toList
def timeS : Time → Path
  | .fresh => "fresh".toList
  | .old ns => (toString ns).toList

def callMethod : Call → String
  | .create _ => "create" | .mkdir _ _ => "mkdir" | .mkdirAll _ _ => "mkdirall" | .open_ _ => "open"
  | .openFile _ _ _ => "openfile" | .remove _ => "remove" | .removeAll _ => "removeall"
  | .rename _ _ => "rename" | .stat _ => "stat" | .chmod _ _ => "chmod" | .chown _ _ _ => "chown"
  | .chtimes _ _ _ => "chtimes" | .lstat _ => "lstat" | .symlink _ _ => "symlink"
  | .readlink _ => "readlink" | .lchown _ _ _ => "lchown"

def callArgs : Call → List Path
  | .create n | .open_ n | .remove n | .removeAll n | .stat n | .lstat n | .readlink n => [n]
  | .mkdir n p | .mkdirAll n p => [n, natS p]
  | .openFile n f p => [n, natS f, natS p]
  | .rename o n | .symlink o n => [o, n]
  | .chmod n m => [n, natS m]
  | .chown n u g | .lchown n u g => [n, intS u, intS g]
  | .chtimes n a m => [n, timeS a, timeS m]

def callMutating : Call → Bool
  | .stat _ | .lstat _ | .readlink _ | .open_ _ => false
  | .openFile _ f _ => MFS.accessMode f != 0 || hasFlag f O_CREATE
  | _ => true

/-- A *crash marker* in the fault plan: a fault whose method is `crashMethod` refuses every
primitive call issued once `occ` calls have been logged — the process died at that point and
nothing reaches the disk any more, so the disk stays frozen in its state at the crash.  (Used by
the crash-point theorems only; the harness never plans it.) -/
def crashMethod : String := "*crash*"

def crashed (w : World) : Bool :=
  w.faults.any (fun f => f.sig.method = crashMethod && f.occ ≤ w.trace.length)

/-- count this occurrence of `sig`, log it, and tell whether the fault plan fails it -/
def account (sig : Sig) (mutating : Bool) : World → World × Bool := fun w =>
  let occ := (w.seen.lookup sig).getD 0
  let seen' := (sig, occ + 1) :: w.seen.filter (fun p => p.1 ≠ sig)
  let faulted := w.faults.any (fun f => f.sig = sig && f.occ = occ) || crashed w
  ({ w with seen := seen', trace := { sig := sig, failed := faulted, mutating := mutating } :: w.trace }, faulted)

/-- a Chtimes whose target is a time stamped during the case is invisible: whether two "now"s
coincide is a clock-granularity accident (DESIGN 4.3) -/
def isGhost : Call → Bool
  | .chtimes _ _ .fresh => true
  | _ => false

/-- forward the call to the filesystem of `side` -/
def execCall (cfg : Cfg) (side : Side) (c : Call) : M Ret := fun w =>
  match (cfg.side side).call w.fs c with
  | (m', r) => ({ w with fs := m' }, r)

/-- a path-taking primitive call on `side` -/
def primCall (cfg : Cfg) (side : Side) (c : Call) : M Ret := fun w =>
  if isGhost c then (if crashed w then (w, .error .io) else execCall cfg side c w)
  else
    match account { side := side, method := callMethod c, args := callArgs c } (callMutating c) w with
    | (w1, true) => (w1, .error .io)
    | (w1, false) => execCall cfg side c w1

def primInfo (cfg : Cfg) (side : Side) (c : Call) : M Info := do
  match ← primCall cfg side c with
  | .info i => pure i
  | _ => M.throw .other

def primStr (cfg : Cfg) (side : Side) (c : Call) : M Path := do
  match ← primCall cfg side c with
  | .str s => pure s
  | _ => M.throw .other

def primUnit (cfg : Cfg) (side : Side) (c : Call) : M Unit := do
  let _ ← primCall cfg side c
  pure ()

def primOpen (cfg : Cfg) (side : Side) (c : Call) : M WHandle := do
  match ← primCall cfg side c with
  | .handle h => pure { h := h, arg := c.primaryPath, side := side }
  | _ => M.throw .other

/-- handle primitives: logged and faultable like path calls -/
def primH (wh : WHandle) (method : String) (extra : List Path) (mutating : Bool) : M Unit := fun w =>
  let (w1, faulted) := account { side := wh.side, method := method, args := wh.arg :: extra } mutating w
  if faulted then (w1, .error .io) else (w1, .ok ())

def hClose (wh : WHandle) : M Unit := primH wh "close" [] false

def hStat (cfg : Cfg) (wh : WHandle) : M Info := do
  primH wh "fstat" [] false
  let w ← getW
  match (cfg.side wh.side).hstat w.fs wh.h with
  | .ok i => pure i
  | .error e => M.throw e

def hWrite (cfg : Cfg) (wh : WHandle) (off : Nat) (data : String) : M Unit := do
  primH wh "write" [natS data.utf8ByteSize] true
  fun w =>
    match (cfg.side wh.side).hwrite w.fs wh.h off data with
    | (m', r) => ({ w with fs := m' }, r)

def hRead (wh : WHandle) : M Unit := primH wh "read" [] false

def hReaddirnames (cfg : Cfg) (wh : WHandle) : M (List Name) := do
  primH wh "readdirnames" ["-1".toList] false
  let w ← getW
  match (cfg.side wh.side).hreaddirnames w.fs wh.h with
  | .ok ns => pure ns
  | .error e => M.throw e

/-- content behind a read handle, without issuing a primitive (the `Read` calls are accounted
for separately, chunk by chunk) -/
def peek (cfg : Cfg) (wh : WHandle) : M String := do
  let w ← getW
  match (cfg.side wh.side).hread w.fs wh.h with
  | .ok d => pure d
  | .error e => M.throw e

end BFS
