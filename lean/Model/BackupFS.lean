import Model.World
/-!
  Model/BackupFS.lean — backupfs.go / fs_utils.go with the Go names and the Go control flow,
  over the `World` of Model/World.lean.  Every primitive call goes through `primCall`/`primH`.
-/
namespace BFS
namespace BackupFS

variable (cfg : Cfg)

/-! ### fs_utils.go -/

/-- `lexists(fsys, path)` -/
def lexists (side : Side) (p : Path) : M (Option Info) := do
  match ← attempt (primInfo cfg side (.lstat p)) with
  | .ok i => pure (some i)
  | .error e => if e.isNotFound then pure none else M.throw e

/-- `ignoreChownError` / `ignoreChtimesError`: permission errors are dropped -/
def ignorePerm (x : M Unit) : M Unit := do
  match ← attempt x with
  | .ok () => pure ()
  | .error e => if e.isPermission then pure () else M.throw e

/-- `chown(from, toName, fs)`: only when the owner differs -/
def chownTo (side : Side) (src : Info) (toName : Path) : M Unit := do
  let old ← primInfo cfg side (.lstat toName)
  whenM (old.uid ≠ src.uid || old.gid ≠ src.gid) (primUnit cfg side (.chown toName src.uid src.gid))

/-- `currentModTime.Equal(targetModTime)`; two times stamped during the case are treated as
different (the resulting `Chtimes(fresh)` is invisible, see `primCall`) -/
def timeEq : Time → Time → Bool
  | .old a, .old b => a = b
  | _, _ => false

/-- the deferred wrappers of copyDir/copyFile/copySymlink format the cause with `%v`: its class
is lost (only the text survives, in which the harness still recognises the type-mismatch
sentinels and the injected fault) -/
def wrapV : Err → Err
  | .typeMismatch => .typeMismatch
  | .io => .io
  | _ => .other

def wrapped {α} (x : M α) : M α := fun w =>
  match x w with
  | (w', .ok a) => (w', .ok a)
  | (w', .error e) => (w', .error (wrapV e))

/-- `copyDir(fs, name, info)` -/
def copyDir (side : Side) (name : Path) (info : Info) : M Unit := wrapped do
  if !info.isDir then M.throw .typeMismatch
  else if name = rootP then pure ()
  else
    primUnit cfg side (.mkdirAll name (info.perm &&& 0o777))
    let cur ← primInfo cfg side (.lstat name)
    whenM (cur.perm ≠ info.perm) (primUnit cfg side (.chmod name info.perm))
    whenM (!timeEq cur.mtime info.mtime) (ignorePerm (primUnit cfg side (.chtimes name info.mtime info.mtime)))
    ignorePerm (chownTo cfg side info name)

/-- 32 KiB chunks of `io.Copy`'s generic loop (ASCII contents: bytes = chars) -/
def chunks (fuel : Nat) (cs : List Char) : List String :=
  match fuel with
  | 0 => []
  | fuel + 1 => if cs = [] then [] else String.ofList (cs.take 32768) :: chunks fuel (cs.drop 32768)

def copyChunks (dst src : WHandle) : Nat → List String → M Unit
  | _, [] => hRead src                          -- the final Read returning io.EOF
  | off, c :: cs => do
    hRead src
    hWrite cfg dst off c
    copyChunks dst src (off + c.length) cs

/-- `writeFile(fs, name, perm, content)`: OpenFile, io.Copy, deferred Close (errors joined) -/
def writeFile (side : Side) (name : Path) (perm : Nat) (src : WHandle) : M Unit := do
  let dst ← primOpen cfg side (.openFile name (O_RDWR ||| O_CREATE ||| O_TRUNC) (perm &&& 0o777))
  let data ← peek cfg src
  let r ← attempt (copyChunks cfg dst src 0 (chunks (data.length + 1) data.toList))
  let c ← attempt (hClose dst)
  match r, c with
  | .error e, _ => M.throw e
  | .ok (), .error e => M.throw e
  | .ok (), .ok () => pure ()

/-- `copyFile(fs, name, info, sourceFile)` (owner before mode: chown clears set-id bits) -/
def copyFile (side : Side) (name : Path) (info : Info) (src : WHandle) : M Unit := wrapped do
  if !info.isRegular then M.throw .typeMismatch
  else
    writeFile cfg side name info.perm src
    ignorePerm (chownTo cfg side info name)
    let cur ← primInfo cfg side (.lstat name)
    whenM (cur.perm ≠ info.perm) (primUnit cfg side (.chmod name info.perm))
    whenM (!timeEq cur.mtime info.mtime) (ignorePerm (primUnit cfg side (.chtimes name info.mtime info.mtime)))

/-- `copySymlink(source, target, name, info)` -/
def copySymlink (source target : Side) (name : Path) (info : Info) : M Unit := wrapped do
  if !info.isSymlink then M.throw .typeMismatch
  else
    let pointsAt ← primStr cfg source (.readlink name)
    primUnit cfg target (.symlink pointsAt name)
    ignorePerm (primUnit cfg target (.lchown name info.uid info.gid))

/-- `restoreFile(name, backupFi, base, backup)`. When a directory (or link) sits where the
regular file was, it is taken away with a plain `Remove`, not `RemoveAll`: everything the
transaction created below it is tracked as absent and has been removed by Rollback's first phase,
so whatever is still in there was put there by somebody else and must survive (C13). Only when
the backup copy itself is not a regular file does the code still call `RemoveAll`. -/
def restoreFile (name : Path) (backupFi : Info) : M Unit := do
  let f ← primOpen cfg .backup (.open_ name)
  let r ← attempt (do
    let fi ← hStat cfg f
    let baseFi ← lexists cfg .base name
    let replaced := match baseFi with
      | some b => !b.isRegular
      | none => false
    if !fi.isRegular then primUnit cfg .base (.removeAll name)
    else whenM replaced (primUnit cfg .base (.remove name))
    copyFile cfg .base name backupFi f)
  let _ ← attempt (hClose f)                  -- defer f.Close()
  match r with
  | .ok () => pure ()
  | .error e => M.throw e

/-- `restoreSymlink(name, backupFi, base, backup)`. Whatever took the link's place is taken
away with a plain `Remove`, not `RemoveAll`: what the transaction created below a directory in
the way is gone after Rollback's first phase, foreign content below it must survive (C13). -/
def restoreSymlink (name : Path) (backupFi : Info) : M Unit := do
  match ← lexists cfg .backup name with
  | none => M.throw .notExist
  | some _ =>
    let cur ← lexists cfg .base name
    whenM cur.isSome (primUnit cfg .base (.remove name))
    copySymlink cfg .backup .base name backupFi

/-- `resolvePathWithInfo`: single pass over the ancestor chain, substituting link targets into
the remaining suffixes -/
def resolveLoop : Nat → List Path → Path → Option Info → M (Path × Option Info)
  | 0, _, last, fi => pure (last, fi)
  | _ + 1, [], last, fi => pure (last, fi)
  | fuel + 1, p :: rest, _, _ => do
    match ← attempt (primInfo cfg .base (.lstat p)) with
    | .error e =>
      if e.isNotFound then pure ((p :: rest).getLast?.getD p, none) else M.throw e
    | .ok fi =>
      if fi.isSymlink then do
        let linked ← primStr cfg .base (.readlink p)
        let linked' := toAbsSymlink linked p
        resolveLoop fuel (rest.map (replacePrefix1 p linked')) p (some fi)
      else resolveLoop fuel rest p (some fi)

def resolvePathWithInfo (filePath : Path) : M (Path × Option Info) :=
  if filePath = [] then M.throw .emptyPath
  else
    let acc := iterateDirTree filePath
    resolveLoop cfg (acc.length + 1) acc filePath none

/-- `(*BackupFS).realPath` -/
def realPath (name : Path) : M Path := do
  let r ← resolvePathWithInfo cfg (clean name)
  pure r.1

/-! ### backupfs.go: tracking -/

def lookupInfo (p : Path) : M (Option (Option Info)) := do
  let w ← getW
  pure (w.infos.lookup p)

/-- `setInfoIfNotAlreadySeen` -/
def setInfo (p : Path) (info : Option Info) : M Unit :=
  modifyW (fun w => if (w.infos.lookup p).isSome then w else { w with infos := w.infos ++ [(p, info)] })

def deleteInfo (p : Path) : M Unit :=
  modifyW (fun w => { w with infos := w.infos.filter (fun e => e.1 ≠ p) })

/-- `backupRequired`: `(info, required)` -/
def backupRequired (resolvedName : Path) : M (Option Info × Bool) := do
  match ← lookupInfo resolvedName with
  | some info => pure (info, false)
  | none =>
    match ← attempt (primInfo cfg .base (.lstat resolvedName)) with
    | .error e =>
      if e.isNotFound then do
        setInfo resolvedName none
        pure (none, false)
      else M.throw e
    | .ok info => pure (some info, true)

/-- the visitor of `backupDirs` -/
def backupDirsVisit : List Path → M Unit
  | [] => pure ()
  | sub :: rest => do
    let (fi, required) ← backupRequired cfg sub
    if !required then backupDirsVisit rest
    else
      match fi with
      | none => backupDirsVisit rest
      | some i => do
        copyDir cfg .backup sub i
        setInfo sub (some i)
        backupDirsVisit rest

/-- `backupDirs(resolvedDirPath)` -/
def backupDirs (resolvedDirPath : Path) : M Unit :=
  backupDirsVisit cfg (iterateDirTree resolvedDirPath)

/-- the directory whose ancestor chain `tryBackup` backs up first: the path itself if it is a
directory, its parent otherwise -/
def backupDirPath (info : Option Info) (resolvedName : Path) : Path :=
  match info with
  | some i => if i.isDir then resolvedName else dir resolvedName
  | none => dir resolvedName

/-- `tryBackup(resolvedName)` -/
def tryBackup (resolvedName : Path) : M Unit := do
  let (info, needsBackup) ← backupRequired cfg resolvedName
  backupDirs cfg (backupDirPath info resolvedName)
  if !needsBackup then pure ()
  else
    match info with
    | none => pure ()
    | some i =>
      if i.isDir then pure ()
      else if i.isRegular then do
        let sf ← primOpen cfg .base (.open_ resolvedName)
        let r ← attempt (do
          copyFile cfg .backup resolvedName i sf
          setInfo resolvedName (some i))
        let _ ← attempt (hClose sf)            -- defer sf.Close()
        match r with
        | .ok () => pure ()
        | .error e => M.throw e
      else do
        copySymlink cfg .base .backup resolvedName i
        setInfo resolvedName (some i)

/-! ### the mutators -/

/-- what every mutator does before it touches the base filesystem:
`resolvedName, err := fsys.realPath(name)` then `err = fsys.tryBackup(resolvedName)` -/
def prepare (name : Path) : M Path := do
  let r ← realPath cfg name
  tryBackup cfg r
  pure r

def create (name : Path) : M WHandle := do
  let r ← prepare cfg name
  primOpen cfg .base (.create r)

def mkdir (name : Path) (perm : Nat) : M Unit := do
  let r ← prepare cfg name
  primUnit cfg .base (.mkdir r perm)

def mkdirAll (name : Path) (perm : Nat) : M Unit := do
  let r ← prepare cfg name
  primUnit cfg .base (.mkdirAll r perm)

def openFile (name : Path) (flag perm : Nat) : M WHandle := do
  if flag = O_RDONLY then primOpen cfg .base (.openFile name O_RDONLY 0)
  else
    let r ← prepare cfg name
    primOpen cfg .base (.openFile r flag perm)

/-- internal `remove` (lock already held) -/
def remove (name : Path) : M Unit := do
  let r ← prepare cfg name
  primUnit cfg .base (.remove r)

def worldWalkOps (side : Side) : WalkOps World where
  lstat := fun w p => primInfo cfg side (.lstat p) w
  readDirNames := fun w p =>
    (do
      let h ← primOpen cfg side (.open_ p)
      let r ← attempt (hReaddirnames cfg h)
      let _ ← attempt (hClose h)
      match r with
      | .ok ns => pure (sortStrings ns)
      | .error e => M.throw e : M (List Name)) w

/-- the walk function of `BackupFS.RemoveAll` -/
def removeAllFn : WalkFn World (List Path) :=
  fun w dirs sub info err =>
    match err with
    | some e => ((w, dirs), some e)
    | none =>
      match info with
      | none => ((w, dirs), some .other)
      | some i =>
        if i.isDir then ((w, dirs ++ [sub]), none)
        else
          match remove cfg sub w with
          | (w', .ok ()) => ((w', dirs), none)
          | (w', .error e) => ((w', dirs), some e)

def removeEach : List Path → M Unit
  | [] => pure ()
  | d :: ds => do
    remove cfg d
    removeEach ds

def removeAll (name : Path) : M Unit := do
  let r ← realPath cfg name
  match ← attempt (primInfo cfg .base (.lstat r)) with
  | .error e => if e.isNotFound then pure () else M.throw e
  | .ok fi =>
    if !fi.isDir then remove cfg r
    else
      let res : M (List Path) := fun w =>
        match walkTree (worldWalkOps cfg .base) (removeAllFn cfg) 64 w [] r with
        | ((w', dirs), none) => (w', .ok dirs)
        | ((w', _), some e) => (w', .error e)
      let dirs ← res
      removeEach cfg (sortMost dirs)

def rename (oldname newname : Path) : M Unit := do
  let ro ← realPath cfg oldname
  let rn ← realPath cfg newname
  tryBackup cfg rn
  tryBackup cfg ro
  primUnit cfg .base (.rename ro rn)

def chmod (name : Path) (mode : Nat) : M Unit := do
  let r ← prepare cfg name
  primUnit cfg .base (.chmod r mode)

def chown (name : Path) (uid gid : Int) : M Unit := do
  let r ← prepare cfg name
  primUnit cfg .base (.chown r uid gid)

def chtimes (name : Path) (atime mtime : Time) : M Unit := do
  let r ← prepare cfg name
  primUnit cfg .base (.chtimes r atime mtime)

def symlink (oldname newname : Path) : M Unit := do
  let rn ← prepare cfg newname
  primUnit cfg .base (.symlink oldname rn)

def lchown (name : Path) (uid gid : Int) : M Unit := do
  let r ← prepare cfg name
  primUnit cfg .base (.lchown r uid gid)

/-! read-only methods: no lock, no resolution, no tracking -/
def stat (name : Path) : M Info := primInfo cfg .base (.stat name)
def lstat (name : Path) : M Info := primInfo cfg .base (.lstat name)
def readlink (name : Path) : M Path := primStr cfg .base (.readlink name)

/-! ### ForceBackup -/

/-- the walk function of `tryRemoveBackup` -/
def removeBackupFn : WalkFn World (List Path) :=
  fun w dirs p info err =>
    match err with
    | some e => ((w, dirs), some e)
    | none =>
      match info with
      | none => ((w, dirs), some .other)
      | some i =>
        if i.isDir then ((w, dirs ++ [p]), none)
        else
          match (do primUnit cfg .backup (.remove p); deleteInfo p : M Unit) w with
          | (w', .ok ()) => ((w', dirs), none)
          | (w', .error e) => ((w', dirs), some e)

def removeBackupDirs : List Path → M Unit
  | [] => pure ()
  | d :: ds => do
    primUnit cfg .backup (.removeAll d)
    deleteInfo d
    removeBackupDirs ds

/-- `tryRemoveBackup(resolvedName)` -/
def tryRemoveBackup (resolvedName : Path) : M Unit := do
  match ← lookupInfo resolvedName with
  | none => pure ()
  | some _ =>
    let fi ← (do
      match ← attempt (primInfo cfg .backup (.lstat resolvedName)) with
      | .ok i => pure (some i)
      | .error e => if e.isNotFound then pure none else M.throw e : M (Option Info))
    match fi with
    | none => deleteInfo resolvedName
    | some i =>
      if !i.isDir then do
        primUnit cfg .backup (.remove resolvedName)
        deleteInfo resolvedName
      else
        let res : M (List Path) := fun w =>
          match walkTree (worldWalkOps cfg .backup) (removeBackupFn cfg) 64 w [] resolvedName with
          | ((w', dirs), none) => (w', .ok dirs)
          | ((w', _), some e) => (w', .error e)
        let dirs ← res
        removeBackupDirs cfg (sortMost dirs)

def forceBackup (name : Path) : M Unit := do
  let r ← realPath cfg name
  tryRemoveBackup cfg r
  tryBackup cfg r

/-! ### Rollback -/

/-- run every action, collecting whether any failed (the `multiErr` accumulation) -/
def forEachCollect {α} (f : α → M Unit) : List α → M Bool
  | [] => pure false
  | x :: xs => do
    let r ← attempt (f x)
    let rest ← forEachCollect f xs
    pure (match r with
      | .ok () => rest
      | .error _ => true)

structure RollbackPlan where
  removeBase : List Path := []
  dirs  : List Path := []
  files : List Path := []
  links : List Path := []
  failed : Bool := false

/-- the root entry in the first loop of `Rollback`: the root directory is not restored, but it
has to exist, nothing below it could be restored otherwise (`MkdirAll`, not `copyDir`: `copyDir`
never touches the root).  Returns whether an error was collected into `multiErr`. -/
def ensureRoot (p : Path) (i : Info) : M Bool := do
  match ← attempt (lexists cfg .base p) with
  | .error _ => pure true
  | .ok (some _) => pure false
  | .ok none =>
    match ← attempt (primUnit cfg .base (.mkdirAll p (i.perm &&& 0o777))) with
    | .error _ => pure true
    | .ok () => pure false

/-- the first loop of `Rollback`, over the tracked paths -/
def classify : List (Path × Option Info) → RollbackPlan → M RollbackPlan
  | [], pl => pure pl
  | (p, none) :: rest, pl => do
    match ← attempt (lexists cfg .base p) with
    | .error _ => classify rest { pl with failed := true }
    | .ok (some _) => classify rest { pl with removeBase := pl.removeBase ++ [p] }
    | .ok none => classify rest pl
  | (p, some i) :: rest, pl =>
    if p = rootP then do
      let failed ← ensureRoot cfg p i
      classify rest (if failed then { pl with failed := true } else pl)
    else match i.kind with
      | .dir => classify rest { pl with dirs := pl.dirs ++ [p] }
      | .file => classify rest { pl with files := pl.files ++ [p] }
      | .link => classify rest { pl with links := pl.links ++ [p] }

def infoFor (infos : List (Path × Option Info)) (p : Path) : Option Info := (infos.lookup p).join

/-- one step of `tryRestoreDirPaths` -/
def restoreDirAct (infos : List (Path × Option Info)) (p : Path) : M Unit := do
  -- a file or symlink that took the place of the directory has to make room
  let cur ← lexists cfg .base p
  whenM (match cur with
    | some fi => !fi.isDir
    | none => false) (primUnit cfg .base (.remove p))
  match infoFor infos p with
  | some i => copyDir cfg .base p i
  | none => pure ()

/-- one step of `tryRestoreFilePaths` -/
def restoreFileAct (infos : List (Path × Option Info)) (p : Path) : M Unit :=
  match infoFor infos p with
  | some i => restoreFile cfg p i
  | none => pure ()

/-- one step of `tryRestoreSymlinkPaths` -/
def restoreLinkAct (infos : List (Path × Option Info)) (p : Path) : M Unit :=
  match infoFor infos p with
  | some i => restoreSymlink cfg p i
  | none => pure ()

/-- one step of `tryRemoveBasePaths` -/
def removeBaseAct (p : Path) : M Unit := primUnit cfg .base (.remove p)

/-- one step of `tryRemoveBackupPaths` -/
def cleanupAct (p : Path) : M Unit := do
  match ← lexists cfg .backup p with
  | none => pure ()
  | some _ => primUnit cfg .backup (.remove p)

/-- `tryRemoveBackupPaths` -/
def removeBackupPaths (paths : List Path) : M Bool :=
  forEachCollect (cleanupAct cfg) (sortMost paths)

/-- `Rollback()`: returns whether an error was reported (always wrapped in ErrRollbackFailed) -/
def rollback : M Bool := do
  let w ← getW
  let infos := w.infos
  let pl ← classify cfg infos {}
  -- `multiErr = errors.Join(err)`: a failure here *replaces* what the first loop collected
  let e1 ← forEachCollect (removeBaseAct cfg) (sortMost pl.removeBase)
  let e2 ← forEachCollect (restoreDirAct cfg infos) (sortLeast pl.dirs)
  let e3 ← forEachCollect (restoreFileAct cfg infos) (sortStrings pl.files)
  let e4 ← forEachCollect (restoreLinkAct cfg infos) (sortStrings pl.links)
  let e5 ← removeBackupPaths cfg pl.links
  let e6 ← removeBackupPaths cfg pl.files
  let e7 ← removeBackupPaths cfg pl.dirs
  modifyW (fun w => { w with infos := [] })
  pure ((if e1 then true else pl.failed) || e2 || e3 || e4 || e5 || e6 || e7)

end BackupFS
end BFS
