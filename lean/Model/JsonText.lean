import Model.Json
/-!
  Model/JsonText.lean — the JSON TEXT layer of `BackupFS.MarshalJSON` / `UnmarshalJSON`
  (backupfs.go): `json.Marshal(map[string]*fInfo)` and `json.Unmarshal(data, &map[string]*fInfo)`
  of Go 1.23's `encoding/json`, for the one type backupfs uses it on.

  Mirrors (read from `$(go env GOROOT)/src/encoding/json`, go1.23.5):
  * `encode.go: appendString` with `escapeHTML = true` (what `json.Marshal` uses), `tables.go:
    htmlSafeSet`: `"`→`\"`, `\`→`\\`, BS→`\b`, FF→`\f`, LF→`\n`, CR→`\r`, TAB→`\t`, every other
    byte below 0x20 and `<`, `>`, `&` → `\u00xy` (lower-case hex), U+2028/U+2029 → `\u2028`/`\u2029`,
    everything else verbatim (DEL = 0x7f included).                                   `encChar`
  * `encode.go: mapEncoder.encode`: `{` + members sorted by `strings.Compare` of the keys (byte-wise;
    on valid UTF-8 that is the order of code points, `strLt` of Model/Path.lean) joined by `,` + `}`;
    a nil `*fInfo` is `null`; struct fields in declaration order with their `json:"…"` names;
    integers by `strconv.AppendInt/AppendUint` (decimal, `-` for negatives, no leading zeros =
    `Nat.toDigits 10`).                                                 `encodeMapL`, `encodeFInfoL`
  * `decode.go: checkValid` (scanner.go), `object`, `literalStore`, `unquoteBytes`, `getu4`,
    `fold.go: foldName`.                                                               `decodeMapL`

  A Go map built from a list of assignments: later assignments to the same key replace earlier
  ones, the order is immaterial.  `normalise` is that map in canonical form (strictly sorted by key);
  the encoder renders `normalise m`, the decoder returns its result in the same canonical form.

  ## What the decoder accepts, and how it relates to `json.Unmarshal`

  `decodeMapL text = some m` is meant to imply: `json.Unmarshal(text, &fiMap)` returns nil and
  `fiMap` is `m` (as a map).  `none` means "Go returns an error, OR not modelled" — the model never
  guesses.  Accepted (all exactly as Go does):
  * insignificant whitespace (space, TAB, LF, CR) everywhere the JSON grammar allows it;
  * top level `null` (Go leaves `fiMap` empty ⇒ empty tracked map) or an object;
  * member values `null` (nil entry) or an object (a fresh zero `fInfo` filled field by field);
  * string escapes `\" \\ \/ \b \f \n \r \t \uXXXX` (upper- or lower-case hex); a `\uXXXX` high
    surrogate followed by a `\uXXXX` low surrogate is one code point; any other surrogate escape
    becomes U+FFFD and what follows it is processed again (`unquoteBytes`); raw characters ≥ 0x20
    verbatim; raw control characters, a raw `"` and other escapes are syntax errors;
  * fields in any order, missing fields stay zero, duplicate fields: last wins; duplicate keys of
    the map: last wins and the earlier value is NOT merged into (Go zeroes `mapElem`);
  * a field value `null` is a no-op (`literalStore` ignores null for non-pointer kinds);
  * integer literals `-?(0|[1-9][0-9]*)`; range checks of the field types: `mode` uint32 (a `-`,
    even `-0`, is an error: `ParseUint`), `mod_time`, `size` int64, `uid`, `gid` int (64 bits on
    the platforms of interest);
  * unknown fields are skipped, whatever JSON value they hold (nested arrays/objects up to Go's
    nesting limit of 10000, numbers with fraction/exponent, `true`/`false`/`null`, strings).
  Returned as `none` although Go may behave otherwise ("not modelled"):
  * field names that match only case-insensitively (`"Name"`, `"MODE"`, `"ſize"`; Go's `foldName`
    would match them) — `foldSuspect`;
  * invalid UTF-8 and NUL-containing input cannot even be expressed (Lean `String`/`Char`); Go maps
    invalid bytes to U+FFFD;
  * platforms where `int` is 32 bits (uid/gid range).
  `none` and Go errors as well (so the model is exact there, but the tie only needs one direction):
  numbers with fraction or exponent or out of range in a known field, a value of the wrong JSON type
  in a known field or as a member value, trailing non-space input, any syntax error.

  Every recursive function is total by construction: structural on its input or on an explicit fuel that the
  callers set to (length of the remaining input + 1).  Core Lean only; compiled into `driver`.
-/
namespace BFS.JsonText

/-! ## characters -/

/-- `hex[n]` of encode.go: `"0123456789abcdef"` -/
def hexDigit (n : Nat) : Char := if n < 10 then Char.ofNat (48 + n) else Char.ofNat (87 + n)

/-- one hex digit as `getu4` reads it (both cases) -/
def hexVal (c : Char) : Option Nat :=
  let n := c.toNat
  if 48 ≤ n ∧ n ≤ 57 then some (n - 48)
  else if 97 ≤ n ∧ n ≤ 102 then some (n - 87)
  else if 65 ≤ n ∧ n ≤ 70 then some (n - 55)
  else none

/-- the two-character escapes `appendString` writes: the character after the backslash -/
def esc2 (c : Char) : Option Char :=
  if c = '"' then some '"'
  else if c = '\\' then some '\\'
  else if c = '\x08' then some 'b'
  else if c = '\x0c' then some 'f'
  else if c = '\n' then some 'n'
  else if c = '\r' then some 'r'
  else if c = '\t' then some 't'
  else none

/-- the two-character escapes the scanner accepts (`stateInStringEsc`), decoded (`unquoteBytes`) -/
def unesc2 (e : Char) : Option Char :=
  if e = '"' then some '"'
  else if e = '\\' then some '\\'
  else if e = '/' then some '/'
  else if e = 'b' then some '\x08'
  else if e = 'f' then some '\x0c'
  else if e = 'n' then some '\n'
  else if e = 'r' then some '\r'
  else if e = 't' then some '\t'
  else none

/-- bytes below 0x20 without a short form, and the three HTML characters: `\u00xy` -/
def isU00 (c : Char) : Bool := c.toNat < 32 || c = '<' || c = '>' || c = '&'

/-- U+2028 LINE SEPARATOR, U+2029 PARAGRAPH SEPARATOR -/
def isLineSep (c : Char) : Bool := c.toNat = 8232 || c.toNat = 8233

/-- `appendString`, one rune of a valid UTF-8 string -/
def encChar (c : Char) : List Char :=
  match esc2 c with
  | some e => ['\\', e]
  | none =>
    if isU00 c then ['\\', 'u', '0', '0', hexDigit (c.toNat / 16), hexDigit (c.toNat % 16)]
    else if isLineSep c then ['\\', 'u', '2', '0', '2', hexDigit (c.toNat % 16)]
    else [c]

/-- `appendString` without the surrounding quotes -/
def encBody : List Char → List Char
  | [] => []
  | c :: s => encChar c ++ encBody s

/-- `appendString(dst, s, true)` -/
def encStrL (s : List Char) : List Char := '"' :: (encBody s ++ ['"'])

/-! ## decoding strings -/

/-- four hex digits (`getu4` after the `\u`) -/
def hex4 : List Char → Option (Nat × List Char)
  | a :: b :: c :: d :: rest =>
    match hexVal a, hexVal b, hexVal c, hexVal d with
    | some x, some y, some z, some w => some (((x * 16 + y) * 16 + z) * 16 + w, rest)
    | _, _, _, _ => none
  | _ => none

/-- `utf16.IsSurrogate` -/
def isSurr (n : Nat) : Bool := 55296 ≤ n && n < 57344
def isHiSurr (n : Nat) : Bool := 55296 ≤ n && n < 56320
def isLoSurr (n : Nat) : Bool := 56320 ≤ n && n < 57344
/-- `utf16.DecodeRune` on a valid pair -/
def surrPair (hi lo : Nat) : Nat := 65536 + (hi - 55296) * 1024 + (lo - 56320)

/-- `unicode.ReplacementChar` -/
def replacement : Char := Char.ofNat 65533

/-- a second `\uXXXX` right here that completes the pair started by `hi` -/
def loSurrHere (hi : Nat) (inp : List Char) : Option (Nat × List Char) :=
  match inp with
  | b :: u :: r =>
    if b = '\\' ∧ u = 'u' then
      match hex4 r with
      | some (lo, r') => if isHiSurr hi && isLoSurr lo then some (surrPair hi lo, r') else none
      | none => none
    else none
  | _ => none

def consOut (c : Char) : Option (List Char × List Char) → Option (List Char × List Char)
  | some (s, r) => some (c :: s, r)
  | none => none

/-- the inside of a string literal up to and including the closing quote (`stateInString…` for the
syntax, `unquoteBytes` for the value): decoded string and the rest of the input -/
def decBody : Nat → List Char → Option (List Char × List Char)
  | 0, _ => none
  | _ + 1, [] => none
  | fuel + 1, c :: rest =>
    if c = '"' then some ([], rest)
    else if c = '\\' then
      match rest with
      | [] => none
      | e :: r1 =>
        if e = 'u' then
          match hex4 r1 with
          | none => none
          | some (n, r2) =>
            if isSurr n then
              match loSurrHere n r2 with
              | some (p, r3) => consOut (Char.ofNat p) (decBody fuel r3)
              | none => consOut replacement (decBody fuel r2)
            else consOut (Char.ofNat n) (decBody fuel r2)
        else
          match unesc2 e with
          | some d => consOut d (decBody fuel r1)
          | none => none
    else if c.toNat < 32 then none
    else consOut c (decBody fuel rest)

/-- a string literal whose opening quote has been consumed -/
def decStr (inp : List Char) : Option (List Char × List Char) := decBody (inp.length + 1) inp

/-! ## numbers -/

def spanDigits : List Char → List Char × List Char
  | [] => ([], [])
  | c :: r =>
    if c.isDigit then ((c :: (spanDigits r).1), (spanDigits r).2) else ([], c :: r)

/-- `strconv.AppendInt(dst, i, 10)` -/
def encInt (i : Int) : List Char :=
  if i < 0 then '-' :: Nat.toDigits 10 i.natAbs else Nat.toDigits 10 i.natAbs

/-- `strconv.AppendUint(dst, n, 10)` -/
def encNat (n : Nat) : List Char := Nat.toDigits 10 n

/-- an integer literal `-?(0|[1-9][0-9]*)` that is not continued by a fraction or an exponent:
sign, magnitude, rest.  (`01` is a syntax error of the scanner; `1.5`/`1e3` in an integer field are
an `UnmarshalTypeError`.) -/
def intLit (inp : List Char) : Option (Bool × Nat × List Char) :=
  let neg := match inp with
    | c :: _ => decide (c = '-')
    | [] => false
  let r := if neg then inp.drop 1 else inp
  let ds := (spanDigits r).1
  let r' := (spanDigits r).2
  match ds with
  | [] => none
  | d :: ds' =>
    if d = '0' ∧ ds' ≠ [] then none
    else
      match r' with
      | c :: _ => if c = '.' ∨ c = 'e' ∨ c = 'E' then none else some (neg, Nat.ofDigitChars 10 ds 0, r')
      | [] => some (neg, Nat.ofDigitChars 10 ds 0, r')

/-! ## whitespace, literals -/

/-- `isSpace` of scanner.go -/
def isWs (c : Char) : Bool := c = ' ' || c = '\t' || c = '\n' || c = '\r'

def skipWs : List Char → List Char
  | [] => []
  | c :: r => if isWs c then skipWs r else c :: r

def dropPrefix : List Char → List Char → Option (List Char)
  | [], r => some r
  | _ :: _, [] => none
  | p :: ps, c :: r => if p = c then dropPrefix ps r else none

def nullL : List Char := ['n', 'u', 'l', 'l']
def trueL : List Char := ['t', 'r', 'u', 'e']
def falseL : List Char := ['f', 'a', 'l', 's', 'e']

/-! ## skipping the value of an unknown field (`d.value(reflect.Value{})` after `checkValid`) -/

/-- a full JSON number `-?(0|[1-9][0-9]*)(\.[0-9]+)?([eE][+-]?[0-9]+)?` -/
def skipNumber (inp : List Char) : Option (List Char) :=
  let r := match inp with
    | c :: r => if c = '-' then r else inp
    | [] => inp
  let ds := (spanDigits r).1
  let r1 := (spanDigits r).2
  match ds with
  | [] => none
  | d :: ds' =>
    if d = '0' ∧ ds' ≠ [] then none
    else
      let afterFrac : Option (List Char) :=
        match r1 with
        | c :: r2 =>
          if c = '.' then
            (match (spanDigits r2).1 with
             | [] => none
             | _ :: _ => some (spanDigits r2).2)
          else some r1
        | [] => some r1
      match afterFrac with
      | none => none
      | some r3 =>
        match r3 with
        | c :: r4 =>
          if c = 'e' ∨ c = 'E' then
            let r5 := match r4 with
              | s :: r5 => if s = '+' ∨ s = '-' then r5 else r4
              | [] => r4
            (match (spanDigits r5).1 with
             | [] => none
             | _ :: _ => some (spanDigits r5).2)
          else some r3
        | [] => some r3

/-- Go's `maxNestingDepth` -/
def maxDepth : Nat := 10000

mutual
/-- any JSON value at the head of the input; `depth` = number of enclosing arrays/objects -/
def skipValue : Nat → Nat → List Char → Option (List Char)
  | 0, _, _ => none
  | _ + 1, _, [] => none
  | fuel + 1, depth, c :: r =>
    if c = '"' then (decStr r).map (·.2)
    else if c = '{' then
      if depth + 1 > maxDepth then none
      else
        match skipWs r with
        | c' :: r' => if c' = '}' then some r' else skipMembers fuel (depth + 1) (c' :: r')
        | [] => none
    else if c = '[' then
      if depth + 1 > maxDepth then none
      else
        match skipWs r with
        | c' :: r' => if c' = ']' then some r' else skipElems fuel (depth + 1) (c' :: r')
        | [] => none
    else if c = 't' then dropPrefix trueL (c :: r)
    else if c = 'f' then dropPrefix falseL (c :: r)
    else if c = 'n' then dropPrefix nullL (c :: r)
    else skipNumber (c :: r)
/-- `member (, member)* }` with the input at a member -/
def skipMembers : Nat → Nat → List Char → Option (List Char)
  | 0, _, _ => none
  | _ + 1, _, [] => none
  | fuel + 1, depth, c :: r =>
    if c = '"' then
      match decStr r with
      | none => none
      | some (_, r1) =>
        match skipWs r1 with
        | c1 :: r2 =>
          if c1 = ':' then
            match skipValue fuel depth (skipWs r2) with
            | none => none
            | some r3 =>
              match skipWs r3 with
              | c3 :: r4 =>
                if c3 = ',' then skipMembers fuel depth (skipWs r4)
                else if c3 = '}' then some r4
                else none
              | [] => none
          else none
        | [] => none
    else none
/-- `value (, value)* ]` with the input at a value -/
def skipElems : Nat → Nat → List Char → Option (List Char)
  | 0, _, _ => none
  | fuel + 1, depth, inp =>
    match skipValue fuel depth inp with
    | none => none
    | some r3 =>
      match skipWs r3 with
      | c3 :: r4 =>
        if c3 = ',' then skipElems fuel depth (skipWs r4)
        else if c3 = ']' then some r4
        else none
      | [] => none
end

/-! ## objects (`decodeState.object`) -/

/-- `member (, member)* }` with the input at a member; `pv key state input` consumes the member's
value and updates the state -/
def parseMembers {σ : Type} (pv : List Char → σ → List Char → Option (σ × List Char)) :
    Nat → σ → List Char → Option (σ × List Char)
  | 0, _, _ => none
  | _ + 1, _, [] => none
  | fuel + 1, st, c :: r =>
    if c = '"' then
      match decStr r with
      | none => none
      | some (k, r1) =>
        match skipWs r1 with
        | c1 :: r2 =>
          if c1 = ':' then
            match pv k st (skipWs r2) with
            | none => none
            | some (st', r3) =>
              match skipWs r3 with
              | c3 :: r4 =>
                if c3 = ',' then parseMembers pv fuel st' (skipWs r4)
                else if c3 = '}' then some (st', r4)
                else none
              | [] => none
          else none
        | [] => none
    else none

/-- an object whose `{` has been consumed -/
def parseObj {σ : Type} (pv : List Char → σ → List Char → Option (σ × List Char)) (st : σ)
    (inp : List Char) : Option (σ × List Char) :=
  match skipWs inp with
  | c :: r => if c = '}' then some (st, r) else parseMembers pv (r.length + 2) st (c :: r)
  | [] => none

/-! ## the struct `fInfo` -/

def kName : List Char := ['n', 'a', 'm', 'e']
def kMode : List Char := ['m', 'o', 'd', 'e']
def kModTime : List Char := ['m', 'o', 'd', '_', 't', 'i', 'm', 'e']
def kSize : List Char := ['s', 'i', 'z', 'e']
def kUid : List Char := ['u', 'i', 'd']
def kGid : List Char := ['g', 'i', 'd']

/-- `foldRune` restricted to what can reach an ASCII letter: a–z, U+017F (ſ → S), U+212A (K → K) -/
def foldC (c : Char) : Char :=
  if 97 ≤ c.toNat ∧ c.toNat ≤ 122 then Char.ofNat (c.toNat - 32)
  else if c.toNat = 383 then 'S'
  else if c.toNat = 8490 then 'K'
  else c

/-- a key that is none of the six names but that `foldName` would match to one of them -/
def foldSuspect (k : List Char) : Bool :=
  let f := k.map foldC
  f = kName.map foldC || f = kMode.map foldC || f = kModTime.map foldC || f = kSize.map foldC
    || f = kUid.map foldC || f = kGid.map foldC

def zeroFInfo : FInfo := ⟨[], 0, 0, 0, 0, 0⟩

def inU32 (n : Nat) : Bool := n < 4294967296
def inI64 (v : Int) : Bool := -9223372036854775808 ≤ v && v < 9223372036854775808

def intOfLit (neg : Bool) (n : Nat) : Int := if neg then -(n : Int) else (n : Int)

/-- an `int64`/`int` field: `null` is a no-op, an integer literal in range is stored -/
def i64Field (inp : List Char) (set : Int → FInfo) (f : FInfo) : Option (FInfo × List Char) :=
  match dropPrefix nullL inp with
  | some r => some (f, r)
  | none =>
    match intLit inp with
    | some (neg, n, r) => if inI64 (intOfLit neg n) then some (set (intOfLit neg n), r) else none
    | none => none

/-- the `uint32` field -/
def u32Field (inp : List Char) (set : Nat → FInfo) (f : FInfo) : Option (FInfo × List Char) :=
  match dropPrefix nullL inp with
  | some r => some (f, r)
  | none =>
    match intLit inp with
    | some (neg, n, r) => if !neg && inU32 n then some (set n, r) else none
    | none => none

def strField (inp : List Char) (set : List Char → FInfo) (f : FInfo) : Option (FInfo × List Char) :=
  match dropPrefix nullL inp with
  | some r => some (f, r)
  | none =>
    match inp with
    | c :: r =>
      if c = '"' then
        match decStr r with
        | some (s, r') => some (set s, r')
        | none => none
      else none
    | [] => none

/-- one member of the struct object: exact field name, else not-modelled fold match, else skip -/
def setField (k : List Char) (f : FInfo) (inp : List Char) : Option (FInfo × List Char) :=
  if k = kName then strField inp (fun s => { f with fileName := s }) f
  else if k = kMode then u32Field inp (fun n => { f with fileMode := n }) f
  else if k = kModTime then i64Field inp (fun v => { f with fileModTime := v }) f
  else if k = kSize then i64Field inp (fun v => { f with fileSize := v }) f
  else if k = kUid then i64Field inp (fun v => { f with fileUid := v }) f
  else if k = kGid then i64Field inp (fun v => { f with fileGid := v }) f
  else if foldSuspect k then none
  else (skipValue (inp.length + 1) 2 inp).map (fun r => (f, r))

/-- the value of a map member: `null` or a struct object -/
def entryValue (inp : List Char) : Option (Option FInfo × List Char) :=
  match dropPrefix nullL inp with
  | some r => some (none, r)
  | none =>
    match inp with
    | c :: r =>
      if c = '{' then
        match parseObj setField zeroFInfo r with
        | some (f, r') => some (some f, r')
        | none => none
      else none
    | [] => none

/-! ## the map -/

/-- `m[k] = v` on the canonical form (strictly sorted by key, `strings.Compare`) -/
def insertKV {β : Type} (k : List Char) (v : β) : List (List Char × β) → List (List Char × β)
  | [] => [(k, v)]
  | (k', v') :: rest =>
    if k = k' then (k, v) :: rest
    else if strLt k k' then (k, v) :: (k', v') :: rest
    else (k', v') :: insertKV k v rest

/-- the Go map built by assigning the entries in list order, in canonical form -/
def normalise {β : Type} (m : List (List Char × β)) : List (List Char × β) :=
  m.foldl (fun acc e => insertKV e.1 e.2 acc) []

def mapMember (k : List Char) (acc : List (List Char × Option FInfo)) (inp : List Char) :
    Option (List (List Char × Option FInfo) × List Char) :=
  match entryValue inp with
  | some (v, r) => some (insertKV k v acc, r)
  | none => none

/-- `json.Unmarshal(text, &fiMap)` followed by the copy loop of `UnmarshalJSON` -/
def decodeMapL (text : List Char) : Option (List (List Char × Option FInfo)) :=
  let inp := skipWs text
  match dropPrefix nullL inp with
  | some r => if skipWs r = [] then some [] else none
  | none =>
    match inp with
    | c :: r =>
      if c = '{' then
        match parseObj mapMember [] r with
        | some (m, r') => if skipWs r' = [] then some m else none
        | none => none
      else none
    | [] => none

/-! ## the encoder -/

def joinComma : List (List Char) → List Char
  | [] => []
  | [x] => x
  | x :: y :: rest => x ++ ',' :: joinComma (y :: rest)

def member (k : List Char) (v : List Char) : List Char := encStrL k ++ ':' :: v

/-- `structEncoder.encode` on `fInfo` -/
def encodeFInfoL (f : FInfo) : List Char :=
  '{' :: (joinComma [member kName (encStrL f.fileName), member kMode (encNat f.fileMode),
    member kModTime (encInt f.fileModTime), member kSize (encInt f.fileSize),
    member kUid (encInt f.fileUid), member kGid (encInt f.fileGid)] ++ ['}'])

/-- `ptrEncoder.encode` on `*fInfo` -/
def encodeEntryL : Option FInfo → List Char
  | none => nullL
  | some f => encodeFInfoL f

/-- the members of an already canonical map -/
def renderMap (m : List (List Char × Option FInfo)) : List Char :=
  '{' :: (joinComma (m.map (fun e => member e.1 (encodeEntryL e.2))) ++ ['}'])

/-- `json.Marshal(fiMap)` where `fiMap` is the (non-nil) map built from the entries of `m` -/
def encodeMapL (m : List (List Char × Option FInfo)) : List Char := renderMap (normalise m)

/-! ## `String` interface -/

/-- `json.Marshal(s)` of a Go string holding valid UTF-8 -/
def encodeString (s : String) : String := String.ofList (encStrL s.toList)

/-- a complete JSON string literal (nothing before or after it) -/
def decodeString (t : String) : Option String :=
  match t.toList with
  | c :: r =>
    if c = '"' then
      match decStr r with
      | some (s, []) => some (String.ofList s)
      | _ => none
    else none
  | [] => none

def encodeFInfo (f : FInfo) : String := String.ofList (encodeFInfoL f)

def keysL (m : List (String × Option FInfo)) : List (List Char × Option FInfo) :=
  m.map (fun e => (e.1.toList, e.2))

def keysS (m : List (List Char × Option FInfo)) : List (String × Option FInfo) :=
  m.map (fun e => (String.ofList e.1, e.2))

def encodeMap (m : List (String × Option FInfo)) : String := String.ofList (encodeMapL (keysL m))

def decodeMap (t : String) : Option (List (String × Option FInfo)) :=
  (decodeMapL t.toList).map keysS

/-- canonical form of a map given with `String` keys -/
def normaliseS (m : List (String × Option FInfo)) : List (String × Option FInfo) :=
  keysS (normalise (keysL m))

/-! ## `MarshalJSON` / `UnmarshalJSON` of a BackupFS, through the text -/

/-- `fiMap[path] = toFInfo(path, fi)` / `fiMap[path] = nil` (the loop of `MarshalJSON`) -/
def persistEntry (e : Path × Option Info) : Path × Option FInfo :=
  (e.1, e.2.map (fun i => toFInfo e.1 i (nsOf i.mtime)))

/-- `BackupFS.MarshalJSON`: the text written for the tracked map `infos` -/
def persistText (infos : List (Path × Option Info)) : List Char :=
  encodeMapL (infos.map persistEntry)

/-- the model's time token of the entry tracked under `k` in `orig` (Model/Json.lean: an instant
stamped while the case runs is the opaque token `fresh`; its number is carried by the real text
but not by the model, `ofFInfo` takes the token as a parameter) -/
def timeTok (orig : List (Path × Option Info)) (k : Path) : Time :=
  match (orig.lookup k).join with
  | some i => i.mtime
  | none => .old 0

/-- `fsys.baseInfos[k] = v` / `= nil` (the loop of `UnmarshalJSON`), read through the `fInfo`
accessors as Rollback does -/
def loadEntry (orig : List (Path × Option Info)) (e : Path × Option FInfo) : Path × Option Info :=
  (e.1, e.2.map (fun f => ofFInfo f (timeTok orig e.1)))

/-- `BackupFS.UnmarshalJSON(text)` into a new instance: the tracked map it ends up with (in
canonical order), `none` if `json.Unmarshal` fails or the text is outside the modelled language.
`orig` only supplies the `fresh` tokens. -/
def reloadText (orig : List (Path × Option Info)) (text : List Char) :
    Option (List (Path × Option Info)) :=
  (decodeMapL text).map (fun m => m.map (loadEntry orig))

end BFS.JsonText
