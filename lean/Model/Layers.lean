import Model.Basic
/-!
  PrefixFS, VolumeFS and HiddenFS as *call translators*: every method of these layers (except
  `HiddenFS.RemoveAll`, a multi-call program modelled in `Model/HiddenRemoveAll.lean`) issues zero
  or one call on its base filesystem.  `translate` gives that call or the refusal; `readlinkPost`
  and `nameOverride` give the post-processing of returned values.
-/
namespace BFS

/-! ## PrefixFS (prefixfs.go, prefixfs_file.go, prefixfs_file_info.go) -/
namespace PrefixFS

/-- `NewPrefixFS` stores `filepath.Clean(prefixPath)` -/
def mk (prefixPath : Path) : Path := clean prefixPath

/-- `(*PrefixFS).prefixPath` on linux (no volume names) -/
def prefixPath (pre name : Path) : Except Err Path :=
  let p := join pre (clean name)
  match relInside pre p with
  | none => .error .perm
  | some _ => .ok p

def translate (pre : Path) : Call → Except Err Call
  | .create n => do let p ← prefixPath pre n; pure (.create p)
  | .mkdir n m => do let p ← prefixPath pre n; pure (.mkdir p m)
  | .mkdirAll n m => do let p ← prefixPath pre n; pure (.mkdirAll p m)
  | .open_ n => do let p ← prefixPath pre n; pure (.open_ p)
  | .openFile n f m => do let p ← prefixPath pre n; pure (.openFile p f m)
  | .remove n => do let p ← prefixPath pre n; pure (.remove p)
  | .removeAll n => do let p ← prefixPath pre n; pure (.removeAll p)
  | .rename o n => do
      let po ← prefixPath pre o
      let pn ← prefixPath pre n
      pure (.rename po pn)
  | .stat n => do let p ← prefixPath pre n; pure (.stat p)
  | .chmod n m => do let p ← prefixPath pre n; pure (.chmod p m)
  | .chown n u g => do let p ← prefixPath pre n; pure (.chown p u g)
  | .chtimes n a m => do let p ← prefixPath pre n; pure (.chtimes p a m)
  | .lstat n => do let p ← prefixPath pre n; pure (.lstat p)
  | .symlink o n => do
      let newPath ← prefixPath pre n
      if isAbs o then
        let oldPath ← prefixPath pre o
        pure (.symlink oldPath newPath)
      else
        match relInside pre (join (dir newPath) o) with
        | none => .error .perm
        | some _ => pure (.symlink o newPath)
  | .readlink n => do let p ← prefixPath pre n; pure (.readlink p)
  | .lchown n u g => do let p ← prefixPath pre n; pure (.lchown p u g)

/-- what `Readlink` returns for the stored target `linked` -/
def readlinkPost (pre linked : Path) : Path :=
  let c := clean linked
  match relInside pre c with
  | none => c
  | some r => join rootP r

/-- `newPrefixFile` / `newPrefixFileInfo`: the reported name given the prefixed path the entry
was opened with and the name the base object reports -/
def reportedName (pre filePath baseName : Path) : Path :=
  let override :=
    if filePath = pre then rootP
    else if pre ≠ [] && hasPrefix baseName pre then trimPrefix baseName pre
    else []
  if override ≠ [] then override else baseName

/-- `newPrefixFileInfo` (since the repair of D26): a FileInfo's name is the last element of the
path the base was asked about, so only the root of the prefix gets another name -/
def reportedInfoName (pre filePath baseName : Path) : Path :=
  if filePath = pre then rootP else baseName

end PrefixFS

/-! ## VolumeFS (volumefs.go) on a platform without volume names: `volume = ""` for every
argument of `NewVolumeFS`, because `filepath.VolumeName ≡ ""` on linux. -/
namespace VolumeFS

def prefixPath (name : Path) : Except Err Path := .ok (clean name)

def translate : Call → Except Err Call
  | .symlink o n => .ok (.symlink (if isAbs o then clean o else o) (clean n))
  | c => .ok (c.mapPaths clean id)

def readlinkPost (linked : Path) : Path := trimPrefix (clean linked) []

def reportedName (filePath baseName : Path) : Path := PrefixFS.reportedName [] filePath baseName

def reportedInfoName (filePath baseName : Path) : Path := PrefixFS.reportedInfoName [] filePath baseName

end VolumeFS

/-! ## HiddenFS (hiddenfs.go) -/
namespace HiddenFS

/-- `NewHiddenFS` normalises (Clean) and sorts the hidden paths most-nested first -/
def mk (hiddenPaths : List Path) : List Path := sortMost (hiddenPaths.map clean)

/-- `isInHiddenPath(name, hiddenDir)`: `none` = `filepath.Rel` failed -/
def isInHiddenPath (name hiddenDir : Path) : Option Bool :=
  match rel hiddenDir name with
  | none => none
  | some r =>
    let outside := hasPrefix r relParent
    let isParentDir := r = dotdot
    let isHiddenDir := r = dot
    if !isHiddenDir && (outside || isParentDir) then some false else some true

def isHiddenLoop (name : Path) : List Path → Except Err Bool
  | [] => .ok false
  | h :: hs =>
    match isInHiddenPath name h with
    | none => .error .hiddenCheck
    | some true => .ok true
    | some false => isHiddenLoop name hs

/-- `isHidden(name, hiddenPaths)` -/
def isHidden (name : Path) (hs : List Path) : Except Err Bool :=
  if hs = [] then .ok false else isHiddenLoop (clean name) hs

/-- `dirContains(parent, subdir)` -/
def dirContains (parent subdir : Path) : Option Bool :=
  match rel parent subdir with
  | none => none
  | some r =>
    let isSameDir := r = dot
    let outside := hasPrefix r relParent || r = dotdot
    some (!isSameDir && !outside)

def isParentLoop (name : Path) : List Path → Except Err Bool
  | [] => .ok false
  | h :: hs =>
    match dirContains name h with
    | none => .error .parentCheck
    | some true => .ok true
    | some false => isParentLoop name hs

/-- `isParentOfHiddenDir(name, hiddenPaths)` -/
def isParentOfHidden (name : Path) (hs : List Path) : Except Err Bool :=
  if hs = [] then .ok false else isParentLoop (clean name) hs

/-- hidden check with the two error classes of the method at hand -/
def hguard (hs : List Path) (name : Path) (whenHidden : Err) : Except Err Unit :=
  match isHidden name hs with
  | .error e => .error e
  | .ok true => .error whenHidden
  | .ok false => .ok ()

/-- the names a call hands to the filesystem, with the lexical effective target of a symlink:
exactly what the hidden check is applied to -/
def guardedNames : Call → List Path
  | .rename o n => [o, n]
  | .symlink o n => [if isAbs o then o else join (dir (clean n)) o, n]
  | c => c.accessPaths

def translate (hs : List Path) : Call → Except Err Call
  | .create n => do
      -- Create = OpenFile(name, O_RDWR|O_CREATE|O_TRUNC, 0666)
      hguard hs n .hiddenPerm
      pure (.openFile n (O_RDWR ||| O_CREATE ||| O_TRUNC) 0o666)
  | .mkdir n m => do hguard hs n .hiddenPerm; pure (.mkdir n m)
  | .mkdirAll n m => do hguard hs n .hiddenPerm; pure (.mkdirAll n m)
  | .open_ n => do hguard hs n .hiddenNotExist; pure (.openFile n O_RDONLY 0)
  | .openFile n f m => do
      hguard hs n (if hasFlag f O_CREATE then .hiddenPerm else .hiddenNotExist)
      pure (.openFile n f m)
  | .remove n => do hguard hs n .hiddenNotExist; pure (.remove n)
  | .removeAll n => do hguard hs n .hiddenNotExist; pure (.removeAll n)
  | .rename o n => do
      hguard hs o .hiddenNotExist
      match isParentOfHidden o hs with
      | .error e => .error e
      | .ok true => .error .hiddenPerm
      | .ok false =>
        hguard hs n .hiddenPerm
        -- a (missing) parent directory of a hidden path as the new name is refused as well
        match isParentOfHidden n hs with
        | .error e => .error e
        | .ok true => .error .hiddenPerm
        | .ok false => pure (.rename o n)
  | .stat n => do hguard hs n .hiddenNotExist; pure (.stat n)
  | .chmod n m => do hguard hs n .hiddenNotExist; pure (.chmod n m)
  | .chown n u g => do hguard hs n .hiddenNotExist; pure (.chown n u g)
  | .chtimes n a m => do hguard hs n .hiddenNotExist; pure (.chtimes n a m)
  | .lstat n => do hguard hs n .hiddenNotExist; pure (.lstat n)
  | .symlink o n => do
      -- since the repair of D27 the link's directory is taken from the CLEANED new name
      let eff := if isAbs o then o else join (dir (clean n)) o
      hguard hs eff .hiddenPerm
      hguard hs n .hiddenPerm
      pure (.symlink o n)
  | .readlink n => do hguard hs n .hiddenNotExist; pure (.readlink n)
  | .lchown n u g => do hguard hs n .hiddenNotExist; pure (.lchown n u g)

end HiddenFS

end BFS
