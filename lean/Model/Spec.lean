import Model.Path
/-!
  Spec vocabulary used by the property theorems.  These definitions are deliberately
  independent of the modelled algorithms (`cleanStep`, `iterAux`, `rel`, ...): they speak about
  the component list of a path string.
-/
namespace BFS

/-- the non-empty components of a path string -/
def comps (p : Path) : List Name := (splitSep p).filter (· ≠ [])

/-- non-empty prefixes of a list, shortest first -/
def inits1 {α : Type} : List α → List (List α)
  | [] => []
  | x :: xs => [x] :: (inits1 xs).map (x :: ·)

/-- the ancestor chain of a cleaned path: root (or first component), …, parent, the path -/
def chain (p : Path) : List Path :=
  if isRooted p then rootP :: (inits1 (comps p)).map (fun l => '/' :: joinSep l)
  else (inits1 (comps p)).map joinSep

def IsClean (p : Path) : Prop := clean p = p

instance (p : Path) : Decidable (IsClean p) := inferInstanceAs (Decidable (clean p = p))

/-- `q` is a proper ancestor of the cleaned path `p` -/
def ProperAncestor (q p : Path) : Prop := q ∈ chain p ∧ q ≠ p

instance (q p : Path) : Decidable (ProperAncestor q p) := inferInstanceAs (Decidable (_ ∧ _))

/-- component-wise containment on cleaned forms: same rootedness, `a`'s components are a prefix
of `p`'s, and what follows does not climb (`..`). -/
def WithinC (a p : CPath) : Prop :=
  a.rooted = p.rooted ∧ a.comps.isPrefixOf p.comps = true ∧ dotdot ∉ p.comps.drop a.comps.length

instance (a p : CPath) : Decidable (WithinC a p) := inferInstanceAs (Decidable (_ ∧ _ ∧ _))

/-- `p` is `a` itself or lies below it, component-wise after lexical cleaning (never merely as a
string prefix).  Both are arbitrary path strings. -/
def Within (a p : Path) : Prop := WithinC (cleanC a) (cleanC p)

instance (a p : Path) : Decidable (Within a p) := inferInstanceAs (Decidable (WithinC _ _))

/-- a name that can be a directory entry -/
def NameOK (n : Name) : Prop := n ≠ [] ∧ '/' ∉ n

/-- normal form of a cleaned path -/
def CPath.NF (c : CPath) : Prop := ∀ n ∈ c.comps, NameOK n

end BFS
