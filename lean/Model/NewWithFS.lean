import Model.Json
namespace BFS

/-- `NewWithFS(baseFS, backupLocation)` on linux (`filepath.VolumeName ≡ ""`, so no VolumeFS):
base = HiddenFS(backupLocation), backup = PrefixFS(backupLocation), both over `baseFS`. -/
def newWithFS (inner : FSI MFS) (backupLocation : Path) : Cfg :=
  { base := hiddenFS [backupLocation] inner, backup := prefixFS backupLocation inner }

end BFS
