import Model.BackupFS
/-!
  Model/Json.lean — backupfs_json.go: `toFInfo`, the `fInfo` accessors that Rollback reads
  (`Mode`, `ModTime`, `Size`, `Sys().Uid/Gid`, `Name`), and persist → reload of the tracked map.
  The JSON text layer itself (`encoding/json` of a struct of integers and a string) is trusted.
-/
namespace BFS

/-- `fs.FileMode` as a number (linux): ModeDir = 2^31, ModeSymlink = 2^27, ModeSetuid = 2^23,
ModeSetgid = 2^22, ModeSticky = 2^20, permission bits = low 9 -/
def goFileMode (k : Kind) (perm : Nat) : Nat :=
  (match k with
    | .dir => 2147483648
    | .link => 134217728
    | .file => 0)
  + (perm / 2048 % 2) * 8388608 + (perm / 1024 % 2) * 4194304 + (perm / 512 % 2) * 1048576 + perm % 512

/-- `FileMode.IsDir / IsRegular / &ModeSymlink` as Rollback classifies entries -/
def kindOfMode (m : Nat) : Kind :=
  if m / 2147483648 % 2 = 1 then .dir
  else if m / 134217728 % 2 = 1 then .link
  else .file

/-- the 12 permission bits (`chmodBits`) of a `FileMode` -/
def permOfMode (m : Nat) : Nat :=
  m % 512 + 512 * (m / 1048576 % 2) + 1024 * (m / 4194304 % 2) + 2048 * (m / 8388608 % 2)

/-- the serialised form (`fInfo`) -/
structure FInfo where
  fileName    : Path
  fileMode    : Nat     -- uint32
  fileModTime : Int     -- UnixNano
  fileSize    : Int
  fileUid     : Int
  fileGid     : Int
deriving DecidableEq, Repr

/-- the instant a time value denotes, in ns; `fresh` values are real instants too, but the model
never needs their number: they are carried through unchanged -/
inductive NsOrFresh
  | ns (n : Int)
  | fresh
deriving DecidableEq, Repr

/-- `toFInfo(path, fi)` -/
def toFInfo (path : Path) (i : Info) (ns : Int) : FInfo :=
  { fileName := path, fileMode := goFileMode i.kind i.perm, fileModTime := ns,
    fileSize := i.size, fileUid := i.uid, fileGid := i.gid }

/-- `time.Unix(ns/1e9, ns%1e9)` back in nanoseconds (Go's `/` and `%` truncate toward zero) -/
def modTimeNs (ns : Int) : Int := (ns.tdiv 1000000000) * 1000000000 + ns.tmod 1000000000

/-- `toSys(uid, gid)` then `toUID`: through `uint32` -/
def viaUint32 (v : Int) : Int := v.emod 4294967296

/-- what Rollback reads from a reloaded `*fInfo` -/
def ofFInfo (f : FInfo) (t : Time) : Info :=
  { name := base f.fileName, size := f.fileSize.toNat, kind := kindOfMode f.fileMode,
    perm := permOfMode f.fileMode,
    mtime := (match t with
      | .old _ => .old (modTimeNs f.fileModTime)
      | .fresh => .fresh),
    uid := (viaUint32 f.fileUid).toNat, gid := (viaUint32 f.fileGid).toNat }

def nsOf : Time → Int
  | .old n => n
  | .fresh => 0

/-- MarshalJSON followed by UnmarshalJSON into a fresh BackupFS, on one tracked entry -/
def reloadEntry (e : Path × Option Info) : Path × Option Info :=
  (e.1, e.2.map (fun i => ofFInfo (toFInfo e.1 i (nsOf i.mtime)) i.mtime))

/-- the tracked state after persist → restart → reload -/
def reloadInfos (infos : List (Path × Option Info)) : List (Path × Option Info) :=
  infos.map reloadEntry

end BFS
