import Model.Path
/-! Shared vocabulary: error classes, times, open flags, the `FS` interface as a datatype of calls. -/
namespace BFS

/-- Error classes.  Chosen so that every predicate the Go code branches on (`isNotFoundError`,
`errors.Is(_, fs.ErrPermission)`, `errors.Is(_, io.EOF)`, …) is a function of the class. -/
inductive Err
  | notExist        -- ENOENT / fs.ErrNotExist
  | notDir          -- ENOTDIR
  | exist           -- EEXIST
  | notEmpty        -- ENOTEMPTY
  | isDir           -- EISDIR
  | inval           -- EINVAL
  | loop            -- ELOOP
  | perm            -- EPERM (PrefixFS escape)
  | hiddenNotExist  -- ErrHiddenNotExist (wraps fs.ErrNotExist)
  | hiddenPerm      -- ErrHiddenPermission (wraps fs.ErrPermission)
  | hiddenCheck     -- "hidden check failed" (filepath.Rel error)
  | parentCheck     -- "parent of hidden check failed"
  | io              -- injected EIO
  | eof             -- io.EOF
  | typeMismatch    -- errDirInfoExpected / errFileInfoExpected / errSymlinkInfoExpected
  | emptyPath       -- resolvePath: "empty file path"
  | other
deriving DecidableEq, Repr, Inhabited

instance {ε α : Type} [DecidableEq ε] [DecidableEq α] : DecidableEq (Except ε α) := fun a b =>
  match a, b with
  | .ok x, .ok y => if h : x = y then isTrue (by rw [h]) else isFalse (fun e => h (by cases e; rfl))
  | .error x, .error y => if h : x = y then isTrue (by rw [h]) else isFalse (fun e => h (by cases e; rfl))
  | .ok _, .error _ => isFalse (fun e => by cases e)
  | .error _, .ok _ => isFalse (fun e => by cases e)

/-- `isNotFoundError`: ErrNotExist ∨ ENOENT ∨ ENOTDIR -/
def Err.isNotFound : Err → Bool
  | .notExist | .notDir | .hiddenNotExist => true
  | _ => false

/-- `errors.Is(err, fs.ErrNotExist)` -/
def Err.isErrNotExist : Err → Bool
  | .notExist | .hiddenNotExist => true
  | _ => false

/-- `errors.Is(err, fs.ErrPermission)` (EPERM and EACCES map to it) -/
def Err.isPermission : Err → Bool
  | .perm | .hiddenPerm => true
  | _ => false

/-- A modification time: either an exact "old" instant (ns since the epoch) or a value stamped by
the OS with the current time during the case (`fresh`; never compared for equality). -/
inductive Time
  | old (ns : Int)
  | fresh
deriving DecidableEq, Repr, Inhabited

/-! open flags (linux values of `os.O_*`) -/
def O_RDONLY : Nat := 0
def O_WRONLY : Nat := 1
def O_RDWR : Nat := 2
def O_CREATE : Nat := 0x40
def O_EXCL : Nat := 0x80
def O_TRUNC : Nat := 0x200
def O_APPEND : Nat := 0x400

def hasFlag (flag bit : Nat) : Bool := flag &&& bit != 0

/-- The 16 path-taking methods of the Go `FS` interface with their arguments. -/
inductive Call
  | create (n : Path)
  | mkdir (n : Path) (perm : Nat)
  | mkdirAll (n : Path) (perm : Nat)
  | open_ (n : Path)
  | openFile (n : Path) (flag perm : Nat)
  | remove (n : Path)
  | removeAll (n : Path)
  | rename (o n : Path)
  | stat (n : Path)
  | chmod (n : Path) (mode : Nat)
  | chown (n : Path) (uid gid : Int)
  | chtimes (n : Path) (atime mtime : Time)
  | lstat (n : Path)
  | symlink (o n : Path)
  | readlink (n : Path)
  | lchown (n : Path) (uid gid : Int)
deriving DecidableEq, Repr

/-- the filesystem paths a call makes the receiving filesystem access (a symlink's target text
is data, not an access; it is covered separately) -/
def Call.accessPaths : Call → List Path
  | .create n | .mkdir n _ | .mkdirAll n _ | .open_ n | .openFile n _ _ | .remove n | .removeAll n
  | .stat n | .chmod n _ | .chown n _ _ | .chtimes n _ _ | .lstat n | .readlink n | .lchown n _ _ => [n]
  | .rename o n => [o, n]
  | .symlink _ n => [n]

/-- apply `f` to every path argument that names a filesystem entry, `g` to a symlink target -/
def Call.mapPaths (f : Path → Path) (g : Path → Path) : Call → Call
  | .create n => .create (f n)
  | .mkdir n p => .mkdir (f n) p
  | .mkdirAll n p => .mkdirAll (f n) p
  | .open_ n => .open_ (f n)
  | .openFile n fl p => .openFile (f n) fl p
  | .remove n => .remove (f n)
  | .removeAll n => .removeAll (f n)
  | .rename o n => .rename (f o) (f n)
  | .stat n => .stat (f n)
  | .chmod n m => .chmod (f n) m
  | .chown n u g' => .chown (f n) u g'
  | .chtimes n a m => .chtimes (f n) a m
  | .lstat n => .lstat (f n)
  | .symlink o n => .symlink (g o) (f n)
  | .readlink n => .readlink (f n)
  | .lchown n u g' => .lchown (f n) u g'

end BFS
