import Model.Basic
/-!
  Model/OS.lean — "MFS": the operating-system filesystem as the layers see it through `OSFS`,
  i.e. Linux + Go's `os` package (go1.23, root user).  This is an *external call* of the code under
  verification: it is modelled, recorded in the trusted base, and validated by its own
  differential stream (`osmodel`) against the real OS on every run.

  State: a lookup function on keys (component lists from the root) plus a finite domain list
  (a superset of the support) used only for enumeration.  Frame lemmas hold by `rfl`/`simp`.
-/
namespace BFS

abbrev Key := List Name

structure Meta where
  mode  : Nat    -- the 12 permission bits (0o7777)
  uid   : Nat
  gid   : Nat
  mtime : Time
deriving DecidableEq, Repr, Inhabited

inductive Node
  | file (content : String) (m : Meta)
  | dir (m : Meta)
  | link (target : Path) (m : Meta)
deriving DecidableEq, Repr, Inhabited

def Node.meta : Node → Meta
  | .file _ m | .dir m | .link _ m => m

def Node.setMeta (n : Node) (m : Meta) : Node :=
  match n with
  | .file c _ => .file c m
  | .dir _ => .dir m
  | .link t _ => .link t m

def Node.isDir : Node → Bool
  | .dir _ => true
  | _ => false

def Node.isLink : Node → Bool
  | .link _ _ => true
  | _ => false

def Node.isFile : Node → Bool
  | .file _ _ => true
  | _ => false

inductive Kind | file | dir | link
deriving DecidableEq, Repr, Inhabited

def Node.kind : Node → Kind
  | .file _ _ => .file
  | .dir _ => .dir
  | .link _ _ => .link

/-- what `os.FileInfo` exposes (Name, Size, Mode, ModTime, Sys().Uid/Gid) -/
structure Info where
  name  : Path
  size  : Nat
  kind  : Kind
  perm  : Nat      -- 12 bits
  mtime : Time
  uid   : Nat
  gid   : Nat
deriving DecidableEq, Repr, Inhabited

def Info.isDir (i : Info) : Bool := i.kind = .dir
def Info.isRegular (i : Info) : Bool := i.kind = .file
def Info.isSymlink (i : Info) : Bool := i.kind = .link

structure Handle where
  key   : Key
  name  : Path      -- what `File.Name()` reports (the path as opened)
  isDir : Bool
  flag  : Nat
  lname : Path := []   -- the name the handle was opened with at the HiddenFS layer (listing filter)
deriving DecidableEq, Repr, Inhabited

structure MFS where
  get   : Key → Option Node
  dom   : List Key
  umask : Nat

namespace MFS

def S_ISUID : Nat := 0o4000
def S_ISGID : Nat := 0o2000
def S_ISVTX : Nat := 0o1000

def set (m : MFS) (k : Key) (v : Option Node) : MFS :=
  { m with get := fun k' => if k' = k then v else m.get k',
           dom := if k ∈ m.dom then m.dom else k :: m.dom }

def parentKey (k : Key) : Key := k.dropLast

/-- names of the live children of directory `k` -/
def childNames (m : MFS) (k : Key) : List Name :=
  (m.dom.filter (fun c => c ≠ [] && parentKey c = k && (m.get c).isSome)).filterMap List.getLast?
    |>.eraseDups

def hasChildren (m : MFS) (k : Key) : Bool :=
  m.dom.any (fun c => c ≠ [] && parentKey c = k && (m.get c).isSome)

def removeSubtree (m : MFS) (k : Key) : MFS :=
  { m with get := fun k' => if k.isPrefixOf k' then none else m.get k' }

def moveSubtree (m : MFS) (ko kn : Key) : MFS :=
  { m with
    get := fun k =>
      if kn.isPrefixOf k then m.get (ko ++ k.drop kn.length)
      else if ko.isPrefixOf k then none
      else m.get k,
    dom := m.dom ++ (m.dom.filter (fun k => ko.isPrefixOf k)).map (fun k => kn ++ k.drop ko.length) }

/-- stamp a directory with the current time (an entry was created or removed in it) -/
def touchDir (m : MFS) (k : Key) : MFS :=
  match m.get k with
  | some (.dir mt) => m.set k (some (.dir { mt with mtime := .fresh }))
  | _ => m

/-! ### kernel name resolution -/

inductive Res
  | found (k : Key) (n : Node)
  | missing (parent : Key) (name : Name)  -- the parent directory exists, the final name does not
  | err (e : Err)
deriving Repr

/-- all remaining components are empty or `.` -/
def trivialRest (cs : List Name) : Bool := cs.all (fun c => c = [] || c = dot)

/-- `walk fuel hops cur comps follow`: `cur` is a live directory key. -/
def walk (m : MFS) (follow : Bool) : Nat → Nat → Key → List Name → Res
  | 0, _, _, _ => .err .loop
  | _ + 1, _, cur, [] =>
    match m.get cur with
    | some n => .found cur n
    | none => .err .notExist
  | fuel + 1, hops, cur, c :: rest =>
    if c = [] || c = dot then walk m follow fuel hops cur rest
    else if c = dotdot then walk m follow fuel hops (parentKey cur) rest
    else
      let k := cur ++ [c]
      match m.get k with
      | none => if trivialRest rest then .missing cur c else .err .notExist
      | some (.dir _) => walk m follow fuel hops k rest
      | some (.file ct mt) => if trivialRest rest then .found k (.file ct mt) else .err .notDir
      | some (.link t mt) =>
        if trivialRest rest && !follow then .found k (.link t mt)
        else if hops ≥ 40 then .err .loop
        else if t = [] then .err .notExist
        else walk m follow fuel (hops + 1) (if isRooted t then [] else cur) (splitSep t ++ rest)

def namei (m : MFS) (p : Path) (follow : Bool) : Res :=
  if p = [] then .err .notExist else walk m follow (4096 + (splitSep p).length) 0 [] (splitSep p)

/-! ### FileInfo -/

def infoOf (name : Path) (n : Node) : Info :=
  match n with
  | .file c mt => { name := name, size := c.utf8ByteSize, kind := .file, perm := mt.mode, mtime := mt.mtime, uid := mt.uid, gid := mt.gid }
  | .dir mt => { name := name, size := 4096, kind := .dir, perm := mt.mode, mtime := mt.mtime, uid := mt.uid, gid := mt.gid }
  | .link t mt => { name := name, size := (String.ofList t).utf8ByteSize, kind := .link, perm := 0o777, mtime := mt.mtime, uid := mt.uid, gid := mt.gid }

def lstat (m : MFS) (p : Path) : Except Err Info :=
  match namei m p false with
  | .found _ n => .ok (infoOf (base p) n)
  | .missing _ _ => .error .notExist
  | .err e => .error e

def stat (m : MFS) (p : Path) : Except Err Info :=
  match namei m p true with
  | .found _ n => .ok (infoOf (base p) n)
  | .missing _ _ => .error .notExist
  | .err e => .error e

def readlink (m : MFS) (p : Path) : Except Err Path :=
  match namei m p false with
  | .found _ (.link t _) => .ok t
  | .found _ _ => .error .inval
  | .missing _ _ => .error .notExist
  | .err e => .error e

/-! ### creation helpers -/

/-- gid and setgid inheritance from the parent directory -/
def inheritGid (m : MFS) (parent : Key) : Nat × Bool :=
  match m.get parent with
  | some (.dir mt) => if mt.mode &&& S_ISGID != 0 then (mt.gid, true) else (0, false)
  | _ => (0, false)

def mkdir (m : MFS) (p : Path) (perm : Nat) : MFS × Except Err Unit :=
  match namei m p false with
  | .found _ _ => (m, .error .exist)
  | .err e => (m, .error e)
  | .missing parent name =>
    let (gid, sg) := inheritGid m parent
    let mode := (perm &&& 0o1777) &&& (0o7777 ^^^ m.umask) ||| (if sg then S_ISGID else 0)
    let m' := (m.set (parent ++ [name]) (some (.dir { mode := mode, uid := 0, gid := gid, mtime := .fresh }))).touchDir parent
    (m', .ok ())

/-- `os.MkdirAll` (go1.23): Stat fast path, recurse on the parent text, Mkdir, Lstat double check.
`fuel` bounds the recursion on the parent text. -/
def mkdirAll (m : MFS) (perm : Nat) : Nat → Path → MFS × Except Err Unit
  | 0, _ => (m, .error .other)
  | fuel + 1, p =>
    match stat m p with
    | .ok i => if i.isDir then (m, .ok ()) else (m, .error .notDir)
    | .error _ =>
      -- parent := path up to and including the last separator before the last element
      let q := stripTrailingSeps p
      let parent := uptoLastSep q
      let r : MFS × Except Err Unit :=
        if parent.length > 0 then mkdirAll m perm fuel parent else (m, .ok ())
      match r with
      | (m1, .error e) => (m1, .error e)
      | (m1, .ok ()) =>
        match mkdir m1 p perm with
        | (m2, .ok ()) => (m2, .ok ())
        | (m2, .error e) =>
          match lstat m2 p with
          | .ok i => if i.isDir then (m2, .ok ()) else (m2, .error e)
          | .error _ => (m2, .error e)

def accessMode (flag : Nat) : Nat := flag &&& 3

/-- how bytes written at file offset `off` combine with the existing content (ASCII contents:
bytes = chars); with `O_APPEND` every write goes to the end -/
def applyWrite (flag : Nat) (old : String) (off : Nat) (data : String) : String :=
  if hasFlag flag O_APPEND then old ++ data
  else String.ofList (old.toList.take off ++ data.toList ++ old.toList.drop (off + data.length))

/-- `os.OpenFile(p, flag, perm)`; the returned handle is the resolved key. -/
def openFile (m : MFS) (p : Path) (flag perm : Nat) : MFS × Except Err Handle :=
  let creat := hasFlag flag O_CREATE
  let excl := creat && hasFlag flag O_EXCL
  let wr := accessMode flag != 0
  match namei m p (!excl) with
  | .err e => (m, .error e)
  | .found k n =>
    if excl then (m, .error .exist)
    else match n with
      | .dir _ => if wr || creat then (m, .error .isDir) else (m, .ok { key := k, name := p, isDir := true, flag := flag })
      | .link _ _ => (m, .error .loop)   -- not reachable: final links are followed
      | .file _ mt =>
        if wr && hasFlag flag O_TRUNC then
          (m.set k (some (.file "" { mt with mtime := .fresh })), .ok { key := k, name := p, isDir := false, flag := flag })
        else (m, .ok { key := k, name := p, isDir := false, flag := flag })
  | .missing parent name =>
    if !creat then (m, .error .notExist)
    else
      let (gid, _) := inheritGid m parent
      let mode := (perm &&& 0o7777) &&& (0o7777 ^^^ m.umask)
      let k := parent ++ [name]
      let m' := (m.set k (some (.file "" { mode := mode, uid := 0, gid := gid, mtime := .fresh }))).touchDir parent
      (m', .ok { key := k, name := p, isDir := false, flag := flag })

/-- `File.Write(data)` at file offset `off` on a handle opened for writing -/
def hwrite (m : MFS) (h : Handle) (off : Nat) (data : String) : MFS × Except Err Unit :=
  if accessMode h.flag = 0 then (m, .error .other)   -- EBADF
  else match m.get h.key with
    | some (.file c mt) =>
      if data.isEmpty then (m, .ok ())
      else (m.set h.key (some (.file (applyWrite h.flag c off data) { mt with mtime := .fresh })), .ok ())
    | _ => (m, .error .other)

/-- whole content behind a handle opened on a regular file -/
def hread (m : MFS) (h : Handle) : Except Err String :=
  match m.get h.key with
  | some (.file c _) => if accessMode h.flag = 1 then .error .other else .ok c
  | some (.dir _) => .error .isDir
  | _ => .error .other

def hstat (m : MFS) (h : Handle) : Except Err Info :=
  match m.get h.key with
  | some n => .ok (infoOf (base h.name) n)
  | none => .error .other

/-- `Readdirnames(-1)` (unsorted in reality; canonicalised by sorting on both sides) -/
def hreaddirnames (m : MFS) (h : Handle) : Except Err (List Name) :=
  match m.get h.key with
  | some (.dir _) => .ok (sortStrings (m.childNames h.key))
  | some _ => .error .notDir
  | none => .error .other

/-- `os.Remove`: unlink, then rmdir -/
def remove (m : MFS) (p : Path) : MFS × Except Err Unit :=
  match namei m p false with
  | .err e => (m, .error e)
  | .missing _ _ => (m, .error .notExist)
  | .found k n =>
    if k = [] then (m, .error .other)   -- the root: EBUSY
    else match n with
      | .dir _ =>
        if m.hasChildren k then (m, .error .notEmpty)
        else ((m.set k none).touchDir (parentKey k), .ok ())
      | _ => ((m.set k none).touchDir (parentKey k), .ok ())

/-- does the path text end in a `.` element (`os.RemoveAll` refuses those) -/
def endsWithDot (p : Path) : Bool :=
  p = dot || (p.length ≥ 2 && p.drop (p.length - 2) = ['/', '.'])

/-- `os.RemoveAll` -/
def removeAll (m : MFS) (p : Path) : MFS × Except Err Unit :=
  if p = [] then (m, .ok ())
  else if endsWithDot p then (m, .error .inval)
  else match namei m p false with
    | .err .notExist => (m, .ok ())
    | .err e => (m, .error e)
    | .missing _ _ => (m, .ok ())
    | .found k _ =>
      if k = [] then (m, .error .other)
      else ((m.removeSubtree k).touchDir (parentKey k), .ok ())

/-- `os.Rename` (go1.23 pre-check + rename(2)) -/
def rename (m : MFS) (o n : Path) : MFS × Except Err Unit :=
  let rn := namei m n false
  let ro := namei m o false
  -- Go's pre-check: an existing directory target is refused — unless the two names differ as
  -- strings and denote the same entry (`!SameFile`), which rename(2) then accepts as a no-op
  let pre : Option Err :=
    match rn with
    | .found kn (.dir _) =>
      (match ro with
       | .found ko _ => if ko = kn ∧ o ≠ n then none else some .exist
       | .missing _ _ => some .notExist
       | .err e => some e)
    | _ => none
  match pre with
  | some e => (m, .error e)
  | none =>
    -- rename(2): both parent lookups first, then the old entry, then the ancestry traps, then types
    match ro, rn with
    | .err e, _ => (m, .error e)
    | _, .err e => (m, .error e)
    | .missing _ _, _ => (m, .error .notExist)
    | .found ko no, .found kn nn =>
      if ko = kn then (m, .ok ())
      else if ko.isPrefixOf kn then (m, .error .inval)          -- source is an ancestor of the target
      else if kn.isPrefixOf ko then (m, .error .notEmpty)       -- target is an ancestor of the source
      else if no.isDir then (m, .error .notDir)                 -- directory onto an existing non-directory
      else if nn.isDir then (m, .error .isDir)                  -- not reachable (pre-check)
      else (((m.moveSubtree ko kn).touchDir (parentKey ko)).touchDir (parentKey kn), .ok ())
    | .found ko _, .missing pn name =>
      let kn := pn ++ [name]
      if ko.isPrefixOf kn then (m, .error .inval)
      else (((m.moveSubtree ko kn).touchDir (parentKey ko)).touchDir (parentKey kn), .ok ())

def chmod (m : MFS) (p : Path) (mode : Nat) : MFS × Except Err Unit :=
  match namei m p true with
  | .err e => (m, .error e)
  | .missing _ _ => (m, .error .notExist)
  | .found k n => (m.set k (some (n.setMeta { n.meta with mode := mode &&& 0o7777 })), .ok ())

/-- the mode bits after a chown: set-id bits of non-directories are cleared (also for root) -/
def chownMode (n : Node) : Nat :=
  let md := n.meta.mode
  if n.isDir then md
  else
    let md := md &&& (0o7777 ^^^ S_ISUID)
    if md &&& 0o010 != 0 then md &&& (0o7777 ^^^ S_ISGID) else md

def chownAt (m : MFS) (k : Key) (n : Node) (uid gid : Int) : MFS :=
  let mt := n.meta
  let mt' := { mt with uid := if uid < 0 then mt.uid else uid.toNat,
                       gid := if gid < 0 then mt.gid else gid.toNat,
                       mode := if n.isLink then mt.mode else chownMode n }
  m.set k (some (n.setMeta mt'))

def chown (m : MFS) (p : Path) (uid gid : Int) : MFS × Except Err Unit :=
  match namei m p true with
  | .err e => (m, .error e)
  | .missing _ _ => (m, .error .notExist)
  | .found k n => (chownAt m k n uid gid, .ok ())

def lchown (m : MFS) (p : Path) (uid gid : Int) : MFS × Except Err Unit :=
  match namei m p false with
  | .err e => (m, .error e)
  | .missing _ _ => (m, .error .notExist)
  | .found k n => (chownAt m k n uid gid, .ok ())

def chtimes (m : MFS) (p : Path) (mtime : Time) : MFS × Except Err Unit :=
  match namei m p true with
  | .err e => (m, .error e)
  | .missing _ _ => (m, .error .notExist)
  | .found k n => (m.set k (some (n.setMeta { n.meta with mtime := mtime })), .ok ())

def symlink (m : MFS) (o n : Path) : MFS × Except Err Unit :=
  if o = [] then (m, .error .notExist)
  else match namei m n false with
    | .err e => (m, .error e)
    | .found _ _ => (m, .error .exist)
    | .missing parent name =>
      let (gid, _) := inheritGid m parent
      ((m.set (parent ++ [name]) (some (.link o { mode := 0o777, uid := 0, gid := gid, mtime := .fresh }))).touchDir parent, .ok ())

end MFS

end BFS
