import Model.FSI
/-!
  Model/Listing.lean — hiddenfs_file.go: `hiddenFile.Readdirnames` / `Readdir` over the
  directory stream of the underlying `os.File` (the entries not yet returned, in base order).
  `Readdir` has the same control flow on `FileInfo`s; only names matter for hiding.
-/
namespace BFS

/-- `os.File.Readdirnames(n)`: `(batch, remaining, eof)`.  `n ≤ 0`: everything left, never EOF.
`n > 0`: at most `n`; `io.EOF` (with an empty batch) once nothing is left. -/
def baseReaddirnames (rem : List Name) (n : Int) : List Name × List Name × Bool :=
  if n ≤ 0 then (rem, [], false)
  else if rem = [] then ([], [], true)
  else (rem.take n.toNat, rem.drop n.toNat, false)

/-- outcome of one listing call -/
inductive ListOut
  | names (l : List Name)       -- returned with a nil error
  | eof                          -- empty result with io.EOF
  | failed (e : Err)
deriving DecidableEq, Repr

/-- the refill loop of the `count > 0` branch; `fuel` bounds the iterations by the stream length -/
def refill (hs : List Path) (dir : Path) (count : Nat) : Nat → List Name → List Name → ListOut × List Name
  | 0, avail, rem => (.names avail, rem)
  | fuel + 1, avail, rem =>
    if avail.length ≥ count then (.names avail, rem)
    else
      let diff := count - avail.length
      let (batch, rem', eof) := baseReaddirnames rem diff
      match hiddenFilter hs dir batch with
      | .error e => (.failed e, rem')
      | .ok vis =>
        let avail' := avail ++ vis
        if eof then (if avail'.length > 0 then (.names avail', rem') else (.eof, rem'))
        else refill hs dir count fuel avail' rem'

/-- `hiddenFile.Readdirnames(count)` (and `Readdir(count)` on names) -/
def hiddenReaddirnames (hs : List Path) (dir : Path) (count : Int) (rem : List Name) : ListOut × List Name :=
  if count ≤ 0 then
    let (batch, rem', _) := baseReaddirnames rem count
    match hiddenFilter hs dir batch with
    | .error e => (.failed e, rem')
    | .ok vis => (.names vis, rem')
  else refill hs dir count.toNat (rem.length + 2) [] rem

end BFS
