/-!
  Model/Conc.lean — the locking protocol of BackupFS as a small-step interleaving semantics.

  A thread is either *locked* — `mu.Lock(); a₁ … aₙ; mu.Unlock()` where the `aᵢ` are the
  primitive steps of a mutator, ForceBackup, Rollback, Map, SetMap or UnmarshalJSON — or *free*:
  a single lock-free step that does not change the shared state (Stat, Lstat, Readlink, read-only
  OpenFile).  Which methods have which shape is regenerated from the Go sources on every run
  (`Generated/LockFacts.lean`) and checked in `Props/C10.lean`.
-/
namespace Conc

inductive Thread (σ : Type) where
  | locked (steps : List (σ → σ))
  | free
deriving Inhabited

/-- the state change of a whole critical section -/
def runSteps {σ} (steps : List (σ → σ)) (s : σ) : σ := steps.foldl (fun s f => f s) s

structure Config (σ : Type) where
  st    : σ
  owner : Option Nat            -- who holds the mutex
  pc    : Nat → Nat             -- per thread: 0 = not started; k+1 = k steps done; n+2 = released
  order : List Nat              -- lock-acquisition order so far (newest last)

variable {σ : Type}

def Thread.len : Thread σ → Nat
  | .locked steps => steps.length
  | .free => 0

/-- one scheduling decision: thread `t` moves, if it can -/
def step (ths : Nat → Thread σ) (c : Config σ) (t : Nat) : Option (Config σ) :=
  match ths t with
  | .free =>
    if c.pc t = 0 then some { c with pc := fun u => if u = t then 1 else c.pc u } else none
  | .locked steps =>
    let k := c.pc t
    if k = 0 then
      -- mu.Lock(): only when the mutex is free
      match c.owner with
      | none => some { c with owner := some t, pc := fun u => if u = t then 1 else c.pc u, order := c.order ++ [t] }
      | some _ => none
    else if h : k - 1 < steps.length then
      if c.owner = some t then
        some { c with st := (steps[k - 1]) c.st, pc := fun u => if u = t then k + 1 else c.pc u }
      else none
    else if k = steps.length + 1 then
      -- mu.Unlock()
      if c.owner = some t then some { c with owner := none, pc := fun u => if u = t then k + 1 else c.pc u } else none
    else none

/-- run a schedule; `none` = some decision was not enabled -/
def exec (ths : Nat → Thread σ) : List Nat → Config σ → Option (Config σ)
  | [], c => some c
  | t :: ts, c =>
    match step ths c t with
    | none => none
    | some c' => exec ths ts c'

def init (s : σ) : Config σ := { st := s, owner := none, pc := fun _ => 0, order := [] }

/-- the effect of the critical sections of `ts`, one after another -/
def serial (ths : Nat → Thread σ) : List Nat → σ → σ
  | [], s => s
  | t :: ts, s =>
    match ths t with
    | .locked steps => serial ths ts (runSteps steps s)
    | .free => serial ths ts s

end Conc
