import Lemmas.NG16Res
import Lemmas.F16Loop
import Lemmas.GRes
/-!
  Lemmas/NG16Loop.lean — the code side of "names through flat links" in the nested layering: on the OS
  model behind `N.nestedCfg bk hk` (base = `HiddenFS [kp hk]` over `PrefixFS (kp bk) osfs`), on a disk whose
  VISIBLE links are flat, `resolveLoop` run on the chain of `D ++ S` changes neither disk, tracked map nor
  fault plan; IF it returns it returns `kp (resN … D S)` (every fault plan: a planned fault is `EIO`, not
  of the not-found class); and without planned faults it DOES return.  The refusal of `HiddenFS.Lstat`
  for a name at or below the location is `ErrHiddenNotExist`, which IS of the not-found class: the loop
  takes it for "the rest does not exist" and returns the lexical rest.
  (Lemmas/GLoop.lean / F16Loop.lean with one more case per `Lstat`.)
-/
namespace BFS
namespace NG
open MFS BackupFS F16 N

/-! ### primitives: the planned-fault case and the executed case in one statement -/

theorem sat_primCall_gen {cfg : Cfg} {s : Side} {c : Call} {w : World} {r : Except Err Ret}
    (hc : (cfg.side s).call w.fs c = (w.fs, r)) :
    Sat (primCall cfg s c) w (fun w1 r1 => SameFS w w1 ∧ (r1 = r ∨ (w.faults ≠ [] ∧ r1 = .error .io))) := by
  apply Sat.primCall
  · intro hf w1 hs; exact ⟨hs, Or.inr ⟨hf, rfl⟩⟩
  · intro w1 hs
    rw [hc]
    exact ⟨sameFS_setfs hs, Or.inl rfl⟩

theorem sat_primInfo_ok_gen {cfg : Cfg} {s : Side} {c : Call} {w : World} {i : Info}
    (hc : (cfg.side s).call w.fs c = (w.fs, .ok (.info i))) :
    Sat (primInfo cfg s c) w (fun w1 r => SameFS w w1 ∧ (r = .ok i ∨ (w.faults ≠ [] ∧ r = .error .io))) := by
  unfold primInfo
  apply Sat.bind
  apply (sat_primCall_gen hc).mono
  intro w1 r1 ⟨hs, hr⟩
  rcases hr with rfl | ⟨hf, rfl⟩
  · exact Sat.pure ⟨hs, Or.inl rfl⟩
  · exact ⟨hs, Or.inr ⟨hf, rfl⟩⟩

theorem sat_primInfo_err_gen {cfg : Cfg} {s : Side} {c : Call} {w : World} {e : Err}
    (hc : (cfg.side s).call w.fs c = (w.fs, .error e)) :
    Sat (primInfo cfg s c) w (fun w1 r => SameFS w w1 ∧ (r = .error e ∨ (w.faults ≠ [] ∧ r = .error .io))) := by
  unfold primInfo
  apply Sat.bind
  apply (sat_primCall_gen hc).mono
  intro w1 r1 ⟨hs, hr⟩
  rcases hr with rfl | ⟨hf, rfl⟩
  · exact ⟨hs, Or.inl rfl⟩
  · exact ⟨hs, Or.inr ⟨hf, rfl⟩⟩

theorem sat_primStr_ok_gen {cfg : Cfg} {s : Side} {c : Call} {w : World} {t : Path}
    (hc : (cfg.side s).call w.fs c = (w.fs, .ok (.str t))) :
    Sat (primStr cfg s c) w (fun w1 r => SameFS w w1 ∧ (r = .ok t ∨ (w.faults ≠ [] ∧ r = .error .io))) := by
  unfold primStr
  apply Sat.bind
  apply (sat_primCall_gen hc).mono
  intro w1 r1 ⟨hs, hr⟩
  rcases hr with rfl | ⟨hf, rfl⟩
  · exact Sat.pure ⟨hs, Or.inl rfl⟩
  · exact ⟨hs, Or.inr ⟨hf, rfl⟩⟩

section
variable {bk hk dd : Key}

theorem nlview_vis {m : MFS} {k : Key} (hv : ¬ hk <+: k) :
    NL.nlview bk hk .base m k = (m.get (bk ++ k)).map (L.eraseV (kp bk)) := by
  simp [NL.nlview, hv]

/-- from the disk to the visible base view: no proper ancestor is a symlink -/
theorem noLinkAnc_view {m : MFS} {k : Key}
    (hnl : ∀ p, p <+: k → p ≠ k → ¬ hk <+: p → ∀ t mt, m.get (bk ++ p) ≠ some (.link t mt)) :
    NL.NoLinkAnc (NL.nlview bk hk .base m) k := by
  intro a ha hne hl
  obtain ⟨hv, hl'⟩ := NL.nl_isLinkAt (dd := bk) (s := .base) hl
  obtain ⟨raw, mt, hget⟩ := L.osViewL_isLinkAt (bk := bk) (kk := bk) (s := .base) hl'
  exact hnl a ha hne hv raw mt hget

/-- `Lstat` through the sealing base at `kp k`, any fault plan, no visible symlink among the proper
ancestors of `k`: EIO (planned), or the refusal of a hidden name, or what the disk holds -/
theorem sat_lstatN (hr : NRoots bk hk dd) {w : World} (hg : NL.NLGood bk hk dd w.fs) {k : Key} (hk' : PKey k)
    (hnl : ∀ p, p <+: k → p ≠ k → ¬ hk <+: p → ∀ t mt, w.fs.get (bk ++ p) ≠ some (.link t mt)) :
    Sat (primInfo (nestedCfg bk hk) .base (.lstat (kp k))) w (fun w1 r => SameFS w w1 ∧
      ((w.faults ≠ [] ∧ r = .error .io) ∨
       (hk <+: k ∧ r = .error .hiddenNotExist) ∨
       (¬ hk <+: k ∧ ∃ n i, w.fs.get (bk ++ k) = some n ∧ r = .ok i ∧ i.kind = n.kind) ∨
       (¬ hk <+: k ∧ w.fs.get (bk ++ k) = none ∧ ∃ e, r = .error e ∧ e.isNotFound = true))) := by
  by_cases hh : hk <+: k
  · have hc := refused_lstat (s := .base) hr hk' hh w.fs
    apply (sat_primInfo_err_gen hc).mono
    intro w1 r ⟨hs, hr'⟩
    rcases hr' with hr' | hr'
    · exact ⟨hs, Or.inr (Or.inl ⟨hh, hr'⟩)⟩
    · exact ⟨hs, Or.inl hr'⟩
  · cases hget : w.fs.get (bk ++ k) with
    | some n =>
      have hv : NL.nlview bk hk .base w.fs k = some (L.eraseV (kp bk) n) := by
        rw [nlview_vis hh, hget]; rfl
      obtain ⟨i, hc, hfor⟩ := NL.nl_lstat_some hr hg hk' hv
      apply (sat_primInfo_ok_gen hc).mono
      intro w1 r ⟨hs, hr'⟩
      rcases hr' with hr' | hr'
      · exact ⟨hs, Or.inr (Or.inr (Or.inl ⟨hh, n, i, rfl, hr', by rw [hfor.1, L.eraseV_kind]⟩))⟩
      · exact ⟨hs, Or.inl hr'⟩
    | none =>
      have hv : NL.nlview bk hk .base w.fs k = none := by
        rw [nlview_vis hh, hget]; rfl
      obtain ⟨e, hc, he⟩ := NL.nl_lstat_none hr hg hk' (noLinkAnc_view hnl) hv
      apply (sat_primInfo_err_gen hc).mono
      intro w1 r ⟨hs, hr'⟩
      rcases hr' with hr' | hr'
      · exact ⟨hs, Or.inr (Or.inr (Or.inr ⟨hh, rfl, e, hr', he⟩))⟩
      · exact ⟨hs, Or.inl hr'⟩

/-- `Readlink` through the sealing base at a visible symlink, any fault plan -/
theorem sat_readlinkN (hr : NRoots bk hk dd) {w : World} (hg : NL.NLGood bk hk dd w.fs) {k : Key} (hk' : PKey k)
    (hv : ¬ hk <+: k) {raw : Path} {mt : Meta} (hget : w.fs.get (bk ++ k) = some (.link raw mt)) :
    Sat (primStr (nestedCfg bk hk) .base (.readlink (kp k))) w (fun w1 r => SameFS w w1 ∧
      (r = .ok (PrefixFS.readlinkPost (kp bk) raw) ∨ (w.faults ≠ [] ∧ r = .error .io))) := by
  have hview : NL.nlview bk hk .base w.fs k =
      some (.link (PrefixFS.readlinkPost (kp bk) raw) { mt with mtime := .fresh, mode := 0o777 }) := by
    rw [nlview_vis hv, hget]; rfl
  exact sat_primStr_ok_gen (NL.nl_readlink_link hr hg hk' hview)

/-- **the loop through the sealing base**: on the chain of `D ++ S` (elements `kp (D ++ p)`, `p` a
non-empty prefix of `S`), from a location `D` up to which the disk holds no symlink: nothing changes;
a returned path is `kp (resN D S)`; without planned faults the loop returns -/
theorem sat_loopN (hr : NRoots bk hk dd) : ∀ (S : List Name) (D : Key) (fuel : Nat) (last : Path) (fi : Option Info)
    (w : World), NL.NLGood bk hk dd w.fs → FlatN bk hk w.fs → PKey D → PKey S →
    NoLinkUpto w.fs (bk ++ D) → S.length < fuel →
    Sat (resolveLoop (nestedCfg bk hk) fuel ((inits1 S).map (fun p => kp (D ++ p))) last fi) w
      (fun w' r => SameFS w w' ∧
        (∀ x, r = .ok x → x.1 = (if S = [] then last else kp (resN w.fs bk hk D S))) ∧
        (w.faults = [] → ∃ x, r = .ok x))
  | [], D, fuel, last, fi, w, _, _, _, _, _, hf => by
    obtain ⟨g, rfl⟩ : ∃ g, fuel = g + 1 := ⟨fuel - 1, by simp at hf; omega⟩
    simp only [inits1, List.map_nil]
    unfold resolveLoop
    exact Sat.pure ⟨SameFS.refl w, by intro x hx; cases hx; rfl, fun _ => ⟨_, rfl⟩⟩
  | s :: S, D, fuel, last, fi, w, hg, hflat, hD, hS, hnl, hf => by
    obtain ⟨g, rfl⟩ : ∃ g, fuel = g + 1 := ⟨fuel - 1, by simp at hf; omega⟩
    have hs : Plain s := hS s (by simp)
    have hS' : PKey S := fun n hn => hS n (List.mem_cons_of_mem _ hn)
    have hk' : PKey (D ++ [s]) := hD.snoc hs
    have hlist : (inits1 (s :: S)).map (fun p => kp (D ++ p)) =
        kp (D ++ [s]) :: (inits1 S).map (fun p => kp ((D ++ [s]) ++ p)) := by
      simp only [inits1, List.map_cons, List.map_map]
      congr 1
      apply List.map_congr_left
      intro p _
      simp
    have hlastl : ((inits1 (s :: S)).map (fun p => kp (D ++ p))).getLast? = some (kp (D ++ s :: S)) := by
      rw [List.getLast?_map, inits1_getLast _ (by simp)]; rfl
    rw [hlist] at hlastl ⊢
    have hprop : ∀ p, p <+: D ++ [s] → p ≠ D ++ [s] → ¬ hk <+: p → ∀ t mt, w.fs.get (bk ++ p) ≠ some (.link t mt) := by
      intro p hp hne _
      have := prefix_dropLast hp hne
      rw [List.dropLast_concat] at this
      exact hnl (bk ++ p) ((List.prefix_append_right_inj _).mpr this)
    unfold resolveLoop
    apply Sat.bind
    apply Sat.attempt
    apply (sat_lstatN hr hg hk' hprop).mono
    intro w1 r ⟨hs1, hres⟩
    have hfs1 : w1.fs = w.fs := hs1.fs
    have hfl1 : w1.faults = w.faults := hs1.faults
    have hg1 : NL.NLGood bk hk dd w1.fs := by rw [hfs1]; exact hg
    have hflat1 : FlatN bk hk w1.fs := by rw [hfs1]; exact hflat
    simp only [List.cons_ne_nil, if_false]
    rcases hres with ⟨hfl, rfl⟩ | ⟨hh, rfl⟩ | ⟨hv, n, i, hget, rfl, hkind⟩ | ⟨hv, hget, e, rfl, he⟩
    · -- the Lstat was refused by the fault plan: EIO is not of the not-found class
      simp only [Err.isNotFound, Bool.false_eq_true, if_false]
      apply Sat.throw
      exact ⟨hs1, (by intro x hx; cases hx), fun h0 => absurd h0 hfl⟩
    · -- a name at or below the location: `ErrHiddenNotExist`, of the not-found class
      simp only [Err.isNotFound, if_true]
      apply Sat.pure
      refine ⟨hs1, ?_, fun _ => ⟨_, rfl⟩⟩
      intro x hx
      cases hx
      rw [hlastl]
      simp only [Option.getD_some, resN_hid S hh]
    · simp only
      rw [isSymlink_of_kind hkind]
      rw [← List.append_assoc] at hget
      cases n with
      | link raw mt =>
        simp only [Node.isLink, if_true]
        have hget' := hget
        rw [List.append_assoc] at hget'
        have hok := hflat.target hg.os hget' hv
        apply Sat.bind
        apply (sat_readlinkN hr hg1 hk' hv (by rw [hfs1]; exact hget')).mono
        intro w2 r2 ⟨hs2, hr2⟩
        rcases hr2 with rfl | ⟨hfl2, rfl⟩
        · simp only
          have hfs2 : w2.fs = w.fs := hs2.fs.trans hfs1
          have hfl2 : w2.faults = w.faults := hs2.faults.trans hfl1
          rw [target_text hr.pb hk' (by simp) hok]
          have hpe := effK_pkey hr.pb hk' hok
          have hmap : ((inits1 S).map (fun p => kp ((D ++ [s]) ++ p))).map
              (replacePrefix1 (kp (D ++ [s])) (kp (effK bk (D ++ [s]) raw))) =
              (inits1 S).map (fun p => kp (effK bk (D ++ [s]) raw ++ p)) := by
            rw [List.map_map]
            apply List.map_congr_left
            intro p hp
            obtain ⟨hpp, hpne⟩ := inits1_pkey hS' hp
            exact replacePrefix1_kp (by simp) hpe hpp hpne
          rw [hmap]
          have hnlE : NoLinkUpto w2.fs (bk ++ effK bk (D ++ [s]) raw) := by
            rw [hfs2, effK_spec hok]; exact hok.nolink
          apply (sat_loopN hr S _ g (kp (D ++ [s])) (some i) w2 (by rw [hfs2]; exact hg)
            (by rw [hfs2]; exact hflat) hpe hS' hnlE (by simp at hf; omega)).mono
          intro w3 r3 ⟨hs3, hr3, hok3⟩
          refine ⟨(hs1.trans hs2).trans hs3, ?_, fun h0 => hok3 (by rw [hfl2]; exact h0)⟩
          intro x hx
          rw [hr3 x hx, hfs2]
          by_cases hSe : S = []
          · subst hSe; simp [resN_single]
          · simp only [hSe, if_false, resN_link hSe hv hget]
        · exact ⟨hs1.trans hs2, (by intro x hx; cases hx), fun h0 => absurd (by rw [hfl1]; exact h0) hfl2⟩
      | dir mt =>
        simp only [Node.isLink, Bool.false_eq_true, if_false]
        have hnl' : NoLinkUpto w1.fs (bk ++ (D ++ [s])) := by
          rw [hfs1, ← List.append_assoc]
          exact noLinkUpto_snoc hnl (by intro t mt' h'; rw [hget] at h'; cases h')
        apply (sat_loopN hr S _ g (kp (D ++ [s])) (some i) w1 hg1 hflat1 hk' hS' hnl'
          (by simp at hf; omega)).mono
        intro w3 r3 ⟨hs3, hr3, hok3⟩
        refine ⟨hs1.trans hs3, ?_, fun h0 => hok3 (by rw [hfl1]; exact h0)⟩
        intro x hx
        rw [hr3 x hx, hfs1]
        by_cases hSe : S = []
        · subst hSe; simp [resN_single]
        · simp only [hSe, if_false, resN_dir hSe hv hget]
      | file ct mt =>
        simp only [Node.isLink, Bool.false_eq_true, if_false]
        have hnl' : NoLinkUpto w1.fs (bk ++ (D ++ [s])) := by
          rw [hfs1, ← List.append_assoc]
          exact noLinkUpto_snoc hnl (by intro t mt' h'; rw [hget] at h'; cases h')
        apply (sat_loopN hr S _ g (kp (D ++ [s])) (some i) w1 hg1 hflat1 hk' hS' hnl'
          (by simp at hf; omega)).mono
        intro w3 r3 ⟨hs3, hr3, hok3⟩
        refine ⟨hs1.trans hs3, ?_, fun h0 => hok3 (by rw [hfl1]; exact h0)⟩
        intro x hx
        rw [hr3 x hx, hfs1]
        by_cases hSe : S = []
        · subst hSe; simp [resN_single]
        · simp only [hSe, if_false, resN_file hget]
          have hdead : ¬ ∃ mt', w.fs.get (bk ++ (D ++ [s])) = some (.dir mt') := by
            rintro ⟨mt', h'⟩
            rw [← List.append_assoc, hget] at h'; cases h'
          rw [resN_dead hg.os hdead]
          simp
    · simp only [he, if_true]
      apply Sat.pure
      refine ⟨hs1, ?_, fun _ => ⟨_, rfl⟩⟩
      intro x hx
      cases hx
      rw [hlastl]
      rw [← List.append_assoc] at hget
      simp only [Option.getD_some, resN_none hget]

/-- the resolved key of the cleaned key `k` in the state `w`, nested layering -/
def rkN (bk hk : Key) (w : World) (k : Key) : Key := resN w.fs bk hk [] k

/-- **`realPath` through the sealing base**, visible links flat, EVERY fault plan: nothing changes; a
returned path is `kp (resN … [] k)`; without planned faults it returns -/
theorem sat_realPathN (hr : NRoots bk hk dd) {w : World} (hg : NL.NLGood bk hk dd w.fs)
    (hflat : FlatN bk hk w.fs) {name : Path} {k : Key} (hk' : PKey k) (hname : clean name = kp k) :
    Sat (realPath (nestedCfg bk hk) name) w
      (fun w' r => SameFS w w' ∧ (∀ p, r = .ok p → p = kp (rkN bk hk w k)) ∧ (w.faults = [] → ∃ p, r = .ok p)) := by
  unfold realPath resolvePathWithInfo
  rw [hname]
  simp only [kp_ne_nil, if_false]
  rw [iterateDirTree_kp hk']
  apply Sat.bind
  unfold resolveLoop
  apply Sat.bind
  apply Sat.attempt
  have hroot : rootP = kp [] := rfl
  rw [hroot]
  have hprop : ∀ p, p <+: ([] : Key) → p ≠ [] → ¬ hk <+: p → ∀ t mt, w.fs.get (bk ++ p) ≠ some (.link t mt) := by
    intro p hp hne
    exact absurd (List.prefix_nil.mp hp) hne
  apply (sat_lstatN hr hg PKey.nil hprop).mono
  intro w1 r ⟨hs1, hres⟩
  obtain ⟨mtb, hb⟩ := hg.os.bdir
  rw [List.append_nil] at hres
  have hfs1 : w1.fs = w.fs := hs1.fs
  rcases hres with ⟨hfl, rfl⟩ | ⟨hh, _⟩ | ⟨_, n, i, hget, rfl, hkind⟩ | ⟨_, hget, _⟩
  · simp only [Err.isNotFound, Bool.false_eq_true, if_false]
    apply Sat.throw
    exact ⟨hs1, (by intro p hp; cases hp), fun h0 => absurd h0 hfl⟩
  · exact absurd (List.prefix_nil.mp hh) hr.nh
  · rw [hb] at hget
    cases hget
    simp only
    rw [isSymlink_of_kind hkind]
    simp only [Node.isLink, Bool.false_eq_true, if_false]
    have hlist : (inits1 k).map kp = (inits1 k).map (fun p => kp ([] ++ p)) := by simp
    rw [hlist]
    apply (sat_loopN hr k [] _ (kp []) (some i) w1 (by rw [hfs1]; exact hg)
      (by rw [hfs1]; exact hflat) PKey.nil hk' (by rw [hfs1]; exact noLinkUpto_root hg.os)
      (by simp [L.G.inits1_length])).mono
    intro w2 r2 ⟨hs2, hr2, hok2⟩
    cases r2 with
    | error e =>
      refine ⟨hs1.trans hs2, (by intro p hp; cases hp), fun h0 => ?_⟩
      obtain ⟨x, hx⟩ := hok2 (by rw [hs1.faults]; exact h0)
      cases hx
    | ok x =>
      apply Sat.pure
      refine ⟨hs1.trans hs2, ?_, fun _ => ⟨_, rfl⟩⟩
      intro p hp
      cases hp
      rw [hr2 x rfl, hfs1]
      unfold rkN
      by_cases hke : k = []
      · subst hke; rfl
      · simp only [hke, if_false]
  · rw [hb] at hget; cases hget

/-- the resolution step in the form Lemmas/GOps.lean consumes it -/
theorem resToN (hr : NRoots bk hk dd) {w : World} (hg : NL.NLGood bk hk dd w.fs)
    (hflat : FlatN bk hk w.fs) {name : Path} {k : Key} (hk' : PKey k) (hname : clean name = kp k) :
    L.G.ResTo (nestedCfg bk hk) w name (rkN bk hk w k) := by
  intro w1 h1 _
  have := sat_realPathN hr (w := w1) (by rw [h1]; exact hg) (by rw [h1]; exact hflat) hk' hname
  apply this.mono
  intro w' x ⟨hs, hx, _⟩
  refine ⟨hs, ?_⟩
  intro p hp
  rw [hx p hp]
  unfold rkN
  rw [h1]

theorem rkN_pkey (hr : NRoots bk hk dd) {w : World} (hg : NL.NLGood bk hk dd w.fs) (hflat : FlatN bk hk w.fs)
    {k : Key} (hk' : PKey k) : PKey (rkN bk hk w k) :=
  resN_pkey hr.pb hg.os hflat k [] PKey.nil hk'

/-- no proper ancestor of the resolved key is a symlink in the visible base view -/
theorem rkN_noLinkAnc {w : World} (hg : NL.NLGood bk hk dd w.fs) (hflat : FlatN bk hk w.fs) (k : Key) :
    NL.NoLinkAnc (NL.nlview bk hk .base w.fs) (rkN bk hk w k) :=
  noLinkAnc_view (resN_nolink hg.os hflat k [] (noLinkUpto_root hg.os))

theorem rkN_ne {w : World} {k : Key} (hne : k ≠ []) : rkN bk hk w k ≠ [] := resN_ne [] hne

end

end NG
end BFS
