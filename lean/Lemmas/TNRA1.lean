import Lemmas.TNStep
import Lemmas.TRA1
/-!
  Lemmas/TNRA1.lean — `RemoveAll` in the nested layering (C03), part 1 (`Lemmas/TRA1.lean` for
  `nestedCfg`): the read-only steps of the walk — `Lstat` and `readDirNames` through the nested base
  (`HiddenFS [loc]`) on one disk against the same steps through the inner `PrefixFS` on another disk
  that agrees with it at the visible keys.  For a key that is `Clear` (neither at/below the location
  nor one of its ancestors) the listing filter of `hiddenFile` removes nothing.
-/
namespace BFS.N
open BackupFS MFS HiddenFS

section
variable {bk hk dd : Key}

/-! ### `Lstat` -/

theorem inner_lstat_relV {m1 m2 : MFS} (h : NRoots bk hk dd) (ht : VTwin bk hk dd m1 m2) {j : Key} (hj : PKey j)
    (hv : ¬ hk <+: j) :
    ((inner bk dd).call m1 (.lstat (kp j))).1 = m1 ∧ ((inner bk dd).call m2 (.lstat (kp j))).1 = m2 ∧
    ((∃ i1 i2, ((inner bk dd).call m1 (.lstat (kp j))).2 = .ok (.info i1) ∧
        ((inner bk dd).call m2 (.lstat (kp j))).2 = .ok (.info i2) ∧ i1.isDir = i2.isDir) ∨
     (∃ e, ((inner bk dd).call m1 (.lstat (kp j))).2 = .error e ∧
        ((inner bk dd).call m2 (.lstat (kp j))).2 = .error e)) := by
  have e1 := side_lstat (m := m1) .base h.r1 hj
  have e2 := side_lstat (m := m2) .base h.r1 hj
  show (((osCfg bk dd).side .base).call m1 _).1 = m1 ∧ (((osCfg bk dd).side .base).call m2 _).1 = m2 ∧ _
  refine ⟨by rw [e1], by rw [e2], ?_⟩
  show (∃ i1 i2, (((osCfg bk dd).side .base).call m1 _).2 = _ ∧ (((osCfg bk dd).side .base).call m2 _).2 = _ ∧ _) ∨
    (∃ e, (((osCfg bk dd).side .base).call m1 _).2 = _ ∧ (((osCfg bk dd).side .base).call m2 _).2 = _)
  rw [e1, e2]
  rcases (statE_relV ht h.pb hj hv (TextOf.kp _)).2 with ⟨n1, n2, he, l1, l2⟩ | ⟨e, l1, l2, _⟩
  · left
    have l1' : m1.lstat (kp (osRoot bk dd .base ++ j)) = .ok (infoOf (base (kp (bk ++ j))) n1) := l1
    have l2' : m2.lstat (kp (osRoot bk dd .base ++ j)) = .ok (infoOf (base (kp (bk ++ j))) n2) := l2
    rw [l1', l2']
    refine ⟨_, _, rfl, rfl, ?_⟩
    show ({ infoOf _ n1 with name := _ } : Info).isDir = ({ infoOf _ n2 with name := _ } : Info).isDir
    have := erase_isDir he
    cases n1 <;> cases n2 <;> simp_all [Info.isDir, infoOf, Node.isDir]
  · right
    have l1' : m1.lstat (kp (osRoot bk dd .base ++ j)) = .error e := l1
    have l2' : m2.lstat (kp (osRoot bk dd .base ++ j)) = .error e := l2
    rw [l1', l2']
    exact ⟨e, rfl, rfl⟩

/-- `Lstat` of a visible key through the nested base is `Lstat` through the inner filesystem -/
theorem nbase_lstat_vis (h : NRoots bk hk dd) {j : Key} (hj : PKey j) (hv : ¬ hk <+: j) (m : MFS) :
    fsiLstat (nbase bk hk) m (kp j) = fsiLstat (inner bk dd) m (kp j) := by
  have htr : HiddenFS.translate (nhs hk) (.lstat (kp j)) = .ok (.lstat (kp j)) := by
    simp only [HiddenFS.translate, hguard_vis h hj hv, bind, Except.bind, pure, Except.pure]
  have hc : (nbase bk hk).call m (.lstat (kp j)) = _ := base_call_ok (dd := dd) (by intro n e; cases e) htr
  unfold fsiLstat
  rw [hc]
  cases (inner bk dd).call m (.lstat (kp j)) with
  | mk s1 r =>
    cases r with
    | error e => rfl
    | ok r => cases r <;> rfl

theorem nlstat_rel {m1 m2 : MFS} (h : NRoots bk hk dd) (ht : NTwin bk hk dd m1 m2) {j : Key} (hj : PKey j)
    (hv : ¬ hk <+: j) :
    (fsiLstat (nbase bk hk) m1 (kp j)).1 = m1 ∧ (fsiLstat (inner bk dd) m2 (kp j)).1 = m2 ∧
    ((∃ i1 i2, (fsiLstat (nbase bk hk) m1 (kp j)).2 = .ok i1 ∧ (fsiLstat (inner bk dd) m2 (kp j)).2 = .ok i2 ∧
        i1.isDir = i2.isDir) ∨
     (∃ e, (fsiLstat (nbase bk hk) m1 (kp j)).2 = .error e ∧ (fsiLstat (inner bk dd) m2 (kp j)).2 = .error e)) := by
  obtain ⟨p1, p2, hcase⟩ := inner_lstat_relV h ht.v hj hv
  rw [nbase_lstat_vis h hj hv]
  unfold fsiLstat
  cases hc1 : (inner bk dd).call m1 (.lstat (kp j)) with
  | mk a1 r1 =>
    cases hc2 : (inner bk dd).call m2 (.lstat (kp j)) with
    | mk a2 r2 =>
      rw [hc1] at p1 hcase
      rw [hc2] at p2 hcase
      simp only at p1 p2 hcase
      subst p1 p2
      rcases hcase with ⟨i1, i2, rfl, rfl, hd⟩ | ⟨e, rfl, rfl⟩
      · exact ⟨rfl, rfl, Or.inl ⟨i1, i2, rfl, rfl, hd⟩⟩
      · exact ⟨rfl, rfl, Or.inr ⟨e, rfl, rfl⟩⟩

/-! ### listing a directory -/

theorem clear_child {j : Key} (hc : Clear hk j) (n : Name) : Clear hk (j ++ [n]) :=
  ⟨hc.below [n], fun e => hc.2 (List.IsPrefix.trans (List.prefix_append j [n]) e)⟩

theorem childNames_permV {m1 m2 : MFS} (ht : VTwin bk hk dd m1 m2) {j : Key} (hc : Clear hk j) :
    (m1.childNames (bk ++ j)).Perm (m2.childNames (bk ++ j)) := by
  have nd : ∀ m : MFS, (m.childNames (bk ++ j)).Nodup := by
    intro m
    unfold MFS.childNames
    exact nodup_eraseDups_aux _ _ (Nat.le_refl _)
  apply (List.perm_ext_iff_of_nodup (nd m1) (nd m2)).mpr
  intro n
  rw [mem_childNames ht.g1, mem_childNames ht.g2, List.append_assoc]
  have hp : ¬ hk <+: j ++ [n] := hc.below [n]
  constructor
  · intro a b; exact a ((ht.eq.none_iff hp).mpr b)
  · intro a b; exact a ((ht.eq.none_iff hp).mp b)

theorem hreaddirnames_relV {m1 m2 : MFS} (ht : VTwin bk hk dd m1 m2) {hd : Handle} {j : Key} (hkey : hd.key = bk ++ j)
    (hc : Clear hk j) : m1.hreaddirnames hd = m2.hreaddirnames hd := by
  unfold MFS.hreaddirnames
  have hget := ht.eq.get j hc.1
  rw [← hkey] at hget
  cases h1 : m1.get hd.key with
  | none => rw [map_erase_none hget h1]
  | some n1 =>
    obtain ⟨n2, h2, he⟩ := map_erase_some hget h1
    rw [h2]
    rcases erase_pair he (by
      cases n1 with
      | link t mt => exact absurd h1 (by
          rw [hkey]
          exact ht.g1.nolink _ t mt (Or.inl (List.prefix_append _ _)))
      | file c mt => rfl
      | dir mt => rfl) with ⟨a, b, rfl, rfl⟩ | ⟨c, mt, rfl, rfl⟩
    · simp only
      unfold sortStrings
      rw [hkey, sortBy_perm_invariant strictTotal_strLt (childNames_permV ht hc)]
    · rfl

theorem inner_open_relV {m1 m2 : MFS} (h : NRoots bk hk dd) (ht : VTwin bk hk dd m1 m2) {j : Key} (hj : PKey j)
    (hv : ¬ hk <+: j) :
    ((inner bk dd).call m1 (.open_ (kp j))).1 = m1 ∧ ((inner bk dd).call m2 (.open_ (kp j))).1 = m2 ∧
    ((inner bk dd).call m1 (.open_ (kp j))).2 = ((inner bk dd).call m2 (.open_ (kp j))).2 ∧
    (∀ hd, ((inner bk dd).call m1 (.open_ (kp j))).2 = .ok (.handle hd) → hd.key = bk ++ j) := by
  have e1 := side_open (m := m1) .base h.r1 hj
  have e2 := side_open (m := m2) .base h.r1 hj
  obtain ⟨a, _⟩ := openFile_relV ht h.pb hj hv (TextOf.kp _) O_RDONLY 0
  refine ⟨os_pure_open (s := .base) h.r1 (Prod.ext rfl rfl), os_pure_open (s := .base) h.r1 (Prod.ext rfl rfl), ?_, ?_⟩
  · show (((osCfg bk dd).side .base).call m1 _).2 = (((osCfg bk dd).side .base).call m2 _).2
    rw [e1, e2]
    exact map_congr _ a
  · intro hd hh
    exact (os_open_handle (s := .base) h.r1 ht.g1 hj (Prod.ext rfl hh)).1

/-- the listing filter removes nothing from names none of which is hidden -/
theorem hiddenFilter_id (hs : List Path) (d : Path) : ∀ (l : List Name),
    (∀ n ∈ l, isHidden (join d n) hs = .ok false) → hiddenFilter hs d l = .ok l
  | [], _ => rfl
  | x :: xs, hall => by
    unfold hiddenFilter
    rw [hall x (by simp), hiddenFilter_id hs d xs (fun n hn => hall n (List.mem_cons_of_mem _ hn))]
    rfl

/-- `MFS.hreaddirnames` does not look at the `lname` of the handle -/
theorem hreaddirnames_lname (m : MFS) (hd : Handle) (l : Path) :
    MFS.hreaddirnames m { hd with lname := l } = MFS.hreaddirnames m hd := rfl

/-- `Open` of a visible key through the nested base: the inner `Open`, with the name remembered -/
theorem nbase_open_vis (h : NRoots bk hk dd) {j : Key} (hj : PKey j) (hv : ¬ hk <+: j) (m : MFS) :
    (nbase bk hk).call m (.open_ (kp j)) =
      (((inner bk dd).call m (.open_ (kp j))).1,
       ((inner bk dd).call m (.open_ (kp j))).2.map (fun r =>
          match r with
          | .handle hd => .handle { hd with lname := kp j }
          | r => r)) := by
  have htr : HiddenFS.translate (nhs hk) (.open_ (kp j)) = .ok (.openFile (kp j) O_RDONLY 0) := by
    simp only [HiddenFS.translate, hguard_vis h hj hv, bind, Except.bind, pure, Except.pure]
  show ((nestedCfg bk hk).side .base).call m _ = _
  rw [base_call_ok (dd := dd) (by intro n e; cases e) htr, inner_open_eq h hj]
  rfl

/-- `readDirNames` of `Walk`: through the nested base on one disk, through the inner filesystem on
the other -/
theorem nreaddir_rel {m1 m2 : MFS} (h : NRoots bk hk dd) (ht : NTwin bk hk dd m1 m2) {j : Key} (hj : PKey j)
    (hc : Clear hk j) :
    (fsiReadDirNames (nbase bk hk) m1 (kp j)).1 = m1 ∧ (fsiReadDirNames (inner bk dd) m2 (kp j)).1 = m2 ∧
    (fsiReadDirNames (nbase bk hk) m1 (kp j)).2 = (fsiReadDirNames (inner bk dd) m2 (kp j)).2 ∧
    (∀ ns, (fsiReadDirNames (nbase bk hk) m1 (kp j)).2 = .ok ns → ∀ n ∈ ns, Plain n) := by
  obtain ⟨p1, p2, hres, hkey⟩ := inner_open_relV h ht.v hj hc.1
  have hrd : (inner bk dd).hreaddirnames = MFS.hreaddirnames := side_hreaddirnames bk dd .base
  unfold fsiReadDirNames
  rw [nbase_open_vis h hj hc.1]
  cases hc1 : (inner bk dd).call m1 (.open_ (kp j)) with
  | mk a1 r1 =>
    cases hc2 : (inner bk dd).call m2 (.open_ (kp j)) with
    | mk a2 r2 =>
      rw [hc1] at p1 hres hkey
      rw [hc2] at p2 hres
      simp only at p1 p2 hres hkey
      subst p1 p2 hres
      cases r1 with
      | error e => exact ⟨rfl, rfl, rfl, fun _ h => by cases h⟩
      | ok ret =>
        cases ret with
        | handle hd =>
          simp only [Except.map, hrd]
          have hkk := hkey hd rfl
          have hrel := hreaddirnames_relV ht.v (hd := hd) hkk hc
          rw [← hrel]
          rw [base_hreaddirnames, hreaddirnames_lname]
          cases hn : a1.hreaddirnames hd with
          | error e => exact ⟨rfl, rfl, rfl, fun _ h => by cases h⟩
          | ok names =>
            have hpl : ∀ x ∈ names, Plain x :=
              os_readdir_plain (bk := bk) (kk := dd) (s := .base) ht.g1.os (by rw [side_hreaddirnames]; exact hn)
            have hfil : hiddenFilter (nhs hk) (kp j) names = .ok names := by
              apply hiddenFilter_id
              intro n hn'
              rw [join_kp hj (hpl n hn')]
              exact isHidden_vis h (hj.snoc (hpl n hn')) (hc.below [n])
            simp only [hfil]
            refine ⟨trivial, trivial, trivial, ?_⟩
            intro ns hns
            cases hns
            intro n hn'
            exact hpl n ((sortBy_perm strLt names).mem_iff.mp hn')
        | unit => exact ⟨rfl, rfl, rfl, fun _ h => by cases h⟩
        | info i => exact ⟨rfl, rfl, rfl, fun _ h => by cases h⟩
        | str s => exact ⟨rfl, rfl, rfl, fun _ h => by cases h⟩

end

end BFS.N
