import Lemmas.LSimOSGood
/-!
  Lemmas/LSimOSLaws1.lean — the laws of `LSim` for the OS instance: static facts, the frame lemma
  (states that agree off one key up to directory timestamps, with no new symlink), `FileInfo`.
  The read-only laws (`pure_*`, `openFile_flag`) are those of `Lemmas/SimOSLaws1..2.lean`: they do not
  mention the views.
-/
namespace BFS
namespace L
open MFS

section
variable {bk kk : Key}

/-! ### static facts -/

theorem os_root_dir {m : MFS} {s : Side} (hg : OSGoodL bk kk m) : (osViewL bk kk s m).isDirAt [] := by
  obtain ⟨mt, h⟩ := hg.rdir s
  exact osViewL_isDirAt_of (mt := mt) (by simpa using h)

theorem os_parent_dir {m : MFS} {s : Side} {k : Key} (hg : OSGoodL bk kk m) (h : osViewL bk kk s m k ≠ none)
    (hne : k ≠ []) : (osViewL bk kk s m).isDirAt k.dropLast := by
  obtain ⟨n0, h0⟩ := osViewL_ne_none h
  obtain ⟨mt, hp⟩ := hg.parent _ n0 h0 (by simp [hne])
  rw [append_dropLast hne] at hp
  exact osViewL_isDirAt_of hp

theorem os_pkey {m : MFS} {s : Side} {k : Key} (hg : OSGoodL bk kk m) (h : osViewL bk kk s m k ≠ none) : PKey k := by
  obtain ⟨n0, h0⟩ := osViewL_ne_none h
  exact (hg.pkey _ n0 h0).right

theorem os_mode_lt {m : MFS} {s : Side} {k : Key} {n : Node} (hg : OSGoodL bk kk m)
    (h : osViewL bk kk s m k = some n) : n.meta.mode < 4096 := by
  obtain ⟨n0, h0, he⟩ := osViewL_some h
  rw [← he]
  have := hg.mode _ n0 h0
  cases n0 with
  | file c mt => exact this
  | dir mt => exact this
  | link t mt => show (0o777 : Nat) < 4096; decide

theorem os_erased {m : MFS} {s : Side} {k : Key} {mt : Meta} (_hg : OSGoodL bk kk m)
    (h : osViewL bk kk s m k = some (.dir mt)) : mt.mtime = .fresh := by
  obtain ⟨n0, _, he⟩ := osViewL_some h
  obtain ⟨m0, _, e⟩ := eraseV_dir he
  rw [e]

theorem os_link_erased {m : MFS} {s : Side} {k : Key} {t : Path} {mt : Meta} (_hg : OSGoodL bk kk m)
    (h : osViewL bk kk s m k = some (.link t mt)) : mt.mtime = .fresh ∧ mt.mode = 0o777 := by
  obtain ⟨raw, m0, _, _, e⟩ := osViewL_link h
  rw [e]
  exact ⟨rfl, rfl⟩

theorem os_link_canon {m : MFS} {s : Side} {k : Key} {t : Path} {mt : Meta} (_hg : OSGoodL bk kk m)
    (h : osViewL bk kk s m k = some (.link t mt)) : clean t = t := by
  obtain ⟨raw, m0, _, e, _⟩ := osViewL_link h
  rw [e]
  exact clean_readlinkPost _ raw

/-! ### frames -/

/-- the frame part of most laws -/
theorem frame_of {m m' : MFS} {s : Side} {k : Key} (hr : Roots bk kk)
    (h : EqOff m m' (osRoot bk kk s ++ k)) (hl : LinkSub m m') :
    osViewL bk kk s.other m' = osViewL bk kk s.other m ∧
      (∀ j, j ≠ k → osViewL bk kk s m' j = osViewL bk kk s m j) ∧
      LinkMono (osViewL bk kk s m) (osViewL bk kk s m') := by
  refine ⟨?_, ?_, linkMono_of_linkSub s hl⟩
  · funext x
    exact map_eraseV_of_eraseMt _ (h _ (fun e => hr.apart s k x e.symm))
  · intro j hj
    exact map_eraseV_of_eraseMt _ (h _ (fun e => hj (List.append_cancel_left e)))

/-- stamping is invisible in the views -/
theorem touchDir_eraseV (pre : Path) (m : MFS) (k k' : Key) :
    ((m.touchDir k).get k').map (eraseV pre) = (m.get k').map (eraseV pre) :=
  map_eraseV_of_eraseMt pre (touchDir_erase m k k')

/-- the view at a key that has just been set, possibly followed by stamps -/
theorem osViewL_set (s : Side) (m : MFS) (k : Key) (n : Node) :
    osViewL bk kk s (m.set (osRoot bk kk s ++ k) (some n)) k = some (eraseV (kp (osRoot bk kk s)) n) := by
  rw [osViewL_eq, set_get_self]
  rfl

theorem osViewL_set_touch (s : Side) (m : MFS) (k P : Key) (n : Node) :
    osViewL bk kk s ((m.set (osRoot bk kk s ++ k) (some n)).touchDir P) k = some (eraseV (kp (osRoot bk kk s)) n) := by
  rw [osViewL_eq, touchDir_eraseV, set_get_self]
  rfl

/-! ### `FileInfo` -/

theorem infoForL_infoOf (nm pre : Path) (n0 : Node) : InfoForL (infoOf nm n0) (eraseV pre n0) := by
  cases n0 with
  | link t mt => exact ⟨rfl, rfl, rfl, rfl, fun h => by cases h⟩
  | file c mt => exact ⟨rfl, rfl, rfl, rfl, fun _ => rfl⟩
  | dir mt => exact ⟨rfl, rfl, rfl, rfl, fun h => by cases h⟩

end
end L
end BFS
