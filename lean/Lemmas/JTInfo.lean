import Lemmas.JTObj
/-! JSON text layer (C12): the struct `fInfo` and the `*fInfo` member values. -/
namespace BFS.JsonText

/-- the field ranges of the Go struct: `uint32`, `int64`, `int64`, `int`, `int` -/
def _root_.BFS.FInfo.InRange (f : FInfo) : Prop :=
  inU32 f.fileMode = true ∧ inI64 f.fileModTime = true ∧ inI64 f.fileSize = true ∧
    inI64 f.fileUid = true ∧ inI64 f.fileGid = true

instance (f : FInfo) : Decidable (FInfo.InRange f) := by unfold FInfo.InRange; infer_instance

theorem dropPrefix_null_none (c : Char) (r : List Char) (h : c ≠ 'n') :
    dropPrefix nullL (c :: r) = none := by
  simp [dropPrefix, nullL, Ne.symm h]

theorem dropPrefix_null (r : List Char) : dropPrefix nullL (nullL ++ r) = some r := by
  simp [dropPrefix, nullL]

theorem isDigit_props (d : Char) (h : d.isDigit = true) : d ≠ 'n' ∧ isWs d = false := by
  have : 48 ≤ d.toNat ∧ d.toNat ≤ 57 := by
    simp only [Char.isDigit, Bool.and_eq_true, decide_eq_true_eq] at h
    exact ⟨by simpa [UInt32.le_iff_toNat_le] using h.1, by simpa [UInt32.le_iff_toNat_le] using h.2⟩
  constructor
  · intro hc; subst hc; revert this; decide
  · unfold isWs
    simp only [Bool.or_eq_false_iff, decide_eq_false_iff_not]
    refine ⟨⟨⟨?_, ?_⟩, ?_⟩, ?_⟩ <;> (intro hc; subst hc; revert this; decide)

theorem encNat_head (n : Nat) : ∃ d r, encNat n = d :: r ∧ d ≠ 'n' ∧ isWs d = false := by
  obtain ⟨d, ds, he, -, -⟩ := toDigits_head n
  have hdig : d.isDigit = true := toDigits_isDigit n d (by rw [he]; simp)
  exact ⟨d, ds, he, isDigit_props d hdig⟩

theorem encInt_head (i : Int) : ∃ d r, encInt i = d :: r ∧ d ≠ 'n' ∧ isWs d = false := by
  unfold encInt
  split
  · exact ⟨'-', _, rfl, by decide, by decide⟩
  · exact encNat_head i.natAbs

theorem noWsHead_encStrL (s : List Char) : NoWsHead (encStrL s) := ⟨'"', _, rfl, by decide⟩
theorem noWsHead_encNat (n : Nat) : NoWsHead (encNat n) := by
  obtain ⟨d, r, he, _, hw⟩ := encNat_head n; exact ⟨d, r, he, hw⟩
theorem noWsHead_encInt (i : Int) : NoWsHead (encInt i) := by
  obtain ⟨d, r, he, _, hw⟩ := encInt_head i; exact ⟨d, r, he, hw⟩

/-! ### the three kinds of fields -/

theorem strField_enc (s rest : List Char) (set : List Char → FInfo) (f : FInfo) :
    strField (encStrL s ++ rest) set f = some (set s, rest) := by
  have : encStrL s ++ rest = '"' :: (encBody s ++ '"' :: rest) := by simp [encStrL]
  rw [this]
  simp only [strField, dropPrefix_null_none '"' _ (by decide), if_true, decStr_encBody]

theorem u32Field_enc (n : Nat) (rest : List Char) (hd : Delim rest) (hn : inU32 n = true)
    (set : Nat → FInfo) (f : FInfo) :
    u32Field (encNat n ++ rest) set f = some (set n, rest) := by
  obtain ⟨d, r, he, hne, -⟩ := encNat_head n
  have hnull : dropPrefix nullL (encNat n ++ rest) = none := by
    rw [he]; exact dropPrefix_null_none d _ hne
  simp only [u32Field, hnull, intLit_encNat n rest hd, hn, Bool.not_false, Bool.and_self, if_true]

theorem i64Field_enc (i : Int) (rest : List Char) (hd : Delim rest) (hi : inI64 i = true)
    (set : Int → FInfo) (f : FInfo) :
    i64Field (encInt i ++ rest) set f = some (set i, rest) := by
  obtain ⟨d, r, he, hne, -⟩ := encInt_head i
  have hnull : dropPrefix nullL (encInt i ++ rest) = none := by
    rw [he]; exact dropPrefix_null_none d _ hne
  simp only [i64Field, hnull, intLit_encInt i rest hd, intOfLit_natAbs, hi, if_true]

/-! ### the struct -/

/-- the six members `encodeFInfoL` writes, with what reading each does -/
def fieldMembers (f : FInfo) : List (RMember FInfo) :=
  [(kName, encStrL f.fileName, fun g => { g with fileName := f.fileName }),
   (kMode, encNat f.fileMode, fun g => { g with fileMode := f.fileMode }),
   (kModTime, encInt f.fileModTime, fun g => { g with fileModTime := f.fileModTime }),
   (kSize, encInt f.fileSize, fun g => { g with fileSize := f.fileSize }),
   (kUid, encInt f.fileUid, fun g => { g with fileUid := f.fileUid }),
   (kGid, encInt f.fileGid, fun g => { g with fileGid := f.fileGid })]

theorem encodeFInfoL_eq (f : FInfo) (rest : List Char) :
    encodeFInfoL f ++ rest = '{' :: (renderMembers (fieldMembers f) ++ '}' :: rest) := by
  simp [encodeFInfoL, renderMembers, fieldMembers]

theorem fieldMembers_fold (f : FInfo) :
    (fieldMembers f).foldl (fun s u => u.2.2 s) zeroFInfo = f := by
  cases f; rfl

theorem fieldMembers_ok (f : FInfo) (hr : f.InRange) :
    ∀ u ∈ fieldMembers f, NoWsHead u.2.1 ∧
      ∀ st rest, Delim rest → setField u.1 st (u.2.1 ++ rest) = some (u.2.2 st, rest) := by
  obtain ⟨h1, h2, h3, h4, h5⟩ := hr
  intro u hu
  simp only [fieldMembers, List.mem_cons, List.not_mem_nil, or_false] at hu
  rcases hu with rfl | rfl | rfl | rfl | rfl | rfl
  · exact ⟨noWsHead_encStrL _, fun st rest _ => by
      simp only [setField, if_true]; exact strField_enc _ _ _ _⟩
  · exact ⟨noWsHead_encNat _, fun st rest hd => by
      simp only [setField, show kMode ≠ kName by decide, if_false, if_true]
      exact u32Field_enc _ _ hd h1 _ _⟩
  · exact ⟨noWsHead_encInt _, fun st rest hd => by
      simp only [setField, show kModTime ≠ kName by decide, show kModTime ≠ kMode by decide,
        if_false, if_true]
      exact i64Field_enc _ _ hd h2 _ _⟩
  · exact ⟨noWsHead_encInt _, fun st rest hd => by
      simp only [setField, show kSize ≠ kName by decide, show kSize ≠ kMode by decide,
        show kSize ≠ kModTime by decide, if_false, if_true]
      exact i64Field_enc _ _ hd h3 _ _⟩
  · exact ⟨noWsHead_encInt _, fun st rest hd => by
      simp only [setField, show kUid ≠ kName by decide, show kUid ≠ kMode by decide,
        show kUid ≠ kModTime by decide, show kUid ≠ kSize by decide, if_false, if_true]
      exact i64Field_enc _ _ hd h4 _ _⟩
  · exact ⟨noWsHead_encInt _, fun st rest hd => by
      simp only [setField, show kGid ≠ kName by decide, show kGid ≠ kMode by decide,
        show kGid ≠ kModTime by decide, show kGid ≠ kSize by decide, show kGid ≠ kUid by decide,
        if_false, if_true]
      exact i64Field_enc _ _ hd h5 _ _⟩

/-- the value of a map member is read back: `null` ↦ nil, an object ↦ the struct -/
theorem entryValue_enc (v : Option FInfo) (rest : List Char)
    (hr : ∀ f, v = some f → f.InRange) :
    entryValue (encodeEntryL v ++ rest) = some (v, rest) := by
  cases v with
  | none => simp only [encodeEntryL, entryValue, dropPrefix_null]
  | some f =>
    simp only [encodeEntryL]
    rw [encodeFInfoL_eq]
    simp only [entryValue, dropPrefix_null_none '{' _ (by decide), if_true]
    rw [parseObj_render setField (fieldMembers f) zeroFInfo rest (fieldMembers_ok f (hr f rfl)),
      fieldMembers_fold]

theorem noWsHead_encodeEntryL (v : Option FInfo) : NoWsHead (encodeEntryL v) := by
  cases v with
  | none => exact ⟨'n', _, rfl, by decide⟩
  | some f => exact ⟨'{', _, rfl, by decide⟩

end BFS.JsonText
