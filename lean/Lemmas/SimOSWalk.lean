import Lemmas.SimOSBase
/-!
  Lemmas/SimOSWalk.lean — kernel name resolution (`MFS.walk`, `MFS.namei`) on the texts `kp K`
  and `kp K ++ "/"` of a plain key `K` none of whose ancestors is a symlink: it ends `found`,
  `missing` or with a not-found error, as the state at `K` and at its parent dictates.
-/
namespace BFS
open MFS

theorem plain_not_trivial {c : Name} (h : Plain c) : (c = [] || c = dot) = false := by
  have h1 := h.1
  have h2 := h.2.2.1
  simp [h1, h2]

theorem trivialRest_plain_cons {c : Name} (h : Plain c) (rest : List Name) : trivialRest (c :: rest) = false := by
  unfold trivialRest
  simp only [List.all_cons, plain_not_trivial h, Bool.false_and]

theorem walk_skip (m : MFS) (f : Bool) (fuel hops : Nat) (cur : Key) {c : Name} (rest : List Name)
    (h : (c = [] || c = dot) = true) :
    walk m f (fuel + 1) hops cur (c :: rest) = walk m f fuel hops cur rest := by
  rw [walk]
  simp only [h, if_true]

theorem walk_nil (m : MFS) (f : Bool) (fuel hops : Nat) (cur : Key) :
    walk m f (fuel + 1) hops cur [] =
      (match m.get cur with
       | some n => .found cur n
       | none => .err .notExist) := by
  rw [walk]
  cases m.get cur <;> rfl

theorem walk_trivial (m : MFS) (f : Bool) (hops : Nat) (cur : Key) :
    ∀ (tl : List Name) (fuel : Nat), trivialRest tl = true → tl.length < fuel →
      walk m f fuel hops cur tl =
        (match m.get cur with
         | some n => .found cur n
         | none => .err .notExist)
  | [], fuel, _, hf => by
    obtain ⟨f', rfl⟩ : ∃ f', fuel = f' + 1 := ⟨fuel - 1, by simp at hf; omega⟩
    exact walk_nil m f f' hops cur
  | c :: tl, fuel, ht, hf => by
    obtain ⟨f', rfl⟩ : ∃ f', fuel = f' + 1 := ⟨fuel - 1, by simp at hf; omega⟩
    unfold trivialRest at ht
    simp only [List.all_cons, Bool.and_eq_true] at ht
    rw [walk_skip m f f' hops cur tl ht.1]
    exact walk_trivial m f hops cur tl f' ht.2 (by simp at hf; omega)

/-- one step on a plain component -/
theorem walk_step (m : MFS) (f : Bool) (fuel hops : Nat) (cur : Key) {c : Name} (hc : Plain c) (rest : List Name) :
    walk m f (fuel + 1) hops cur (c :: rest) =
      (match m.get (cur ++ [c]) with
       | none => if trivialRest rest then .missing cur c else .err .notExist
       | some (.dir _) => walk m f fuel hops (cur ++ [c]) rest
       | some (.file ct mt) => if trivialRest rest then .found (cur ++ [c]) (.file ct mt) else .err .notDir
       | some (.link t mt) =>
         if trivialRest rest && !f then .found (cur ++ [c]) (.link t mt)
         else if hops ≥ 40 then .err .loop
         else if t = [] then .err .notExist
         else walk m f fuel (hops + 1) (if isRooted t then [] else cur) (splitSep t ++ rest)) := by
  rw [walk]
  have h1 := plain_not_trivial hc
  have h2 : c ≠ dotdot := hc.2.2.2
  simp only [h1, Bool.false_eq_true, if_false, h2]
  cases m.get (cur ++ [c]) with
  | none => rfl
  | some n => cases n <;> rfl

theorem walk_step_dir (m : MFS) (f : Bool) (fuel hops : Nat) (cur : Key) {c : Name} (hc : Plain c)
    (rest : List Name) {mt} (h : m.get (cur ++ [c]) = some (.dir mt)) :
    walk m f (fuel + 1) hops cur (c :: rest) = walk m f fuel hops (cur ++ [c]) rest := by
  rw [walk_step m f fuel hops cur hc, h]

/-- walking through a run of directories -/
theorem walk_dirs (m : MFS) (f : Bool) (hops : Nat) (rest : List Name) :
    ∀ (ds : List Name) (cur : Key) (fuel : Nat), PKey ds →
      (∀ p, p <+: ds → p ≠ [] → ∃ mt, m.get (cur ++ p) = some (.dir mt)) →
      ds.length ≤ fuel →
      walk m f fuel hops cur (ds ++ rest) = walk m f (fuel - ds.length) hops (cur ++ ds) rest
  | [], cur, fuel, _, _, _ => by simp
  | c :: ds, cur, fuel, hp, hd, hf => by
    obtain ⟨f', rfl⟩ : ∃ f', fuel = f' + 1 := ⟨fuel - 1, by simp at hf; omega⟩
    have hc : Plain c := hp c (by simp)
    obtain ⟨mt, hmt⟩ := hd [c] (by simp) (by simp)
    rw [List.cons_append, walk_step_dir m f f' hops cur hc _ hmt]
    rw [walk_dirs m f hops rest ds (cur ++ [c]) f' (fun n hn => hp n (List.mem_cons_of_mem _ hn)) ?_ (by simp at hf; omega)]
    · simp
    · intro p hpre hne
      have := hd (c :: p) (by simpa using hpre) (by simp)
      simpa using this

/-- no symlink at the key or any of its ancestors -/
def NoLinkUpto (m : MFS) (K : Key) : Prop := ∀ p, p <+: K → ∀ t mt, m.get p ≠ some (.link t mt)

/-- some proper ancestor below `cur` is absent or a file: a not-found error -/
theorem walk_err (m : MFS) (f : Bool) (hops : Nat) (tl : List Name) :
    ∀ (cs : List Name) (cur : Key) (fuel : Nat), PKey cs → cs ≠ [] →
      (∃ mt, m.get cur = some (.dir mt)) →
      (¬ ∃ mt, m.get (cur ++ cs).dropLast = some (.dir mt)) →
      (∀ p, p <+: cs → p ≠ cs → ∀ t mt, m.get (cur ++ p) ≠ some (.link t mt)) →
      cs.length < fuel →
      ∃ e, walk m f fuel hops cur (cs ++ tl) = .err e ∧ e.isNotFound = true
  | [], _, _, _, hne, _, _, _, _ => absurd rfl hne
  | [c], cur, _, _, _, hcur, hnd, _, _ => by
    exfalso
    apply hnd
    simpa using hcur
  | c :: c' :: r, cur, fuel, hp, _, _, hnd, hnl, hf => by
    obtain ⟨f', rfl⟩ : ∃ f', fuel = f' + 1 := ⟨fuel - 1, by simp at hf; omega⟩
    have hc : Plain c := hp c (by simp)
    have hc' : Plain c' := hp c' (by simp)
    have htr : trivialRest (c' :: r ++ tl) = false := trivialRest_plain_cons hc' _
    rw [List.cons_append, walk_step m f f' hops cur hc]
    cases hk : m.get (cur ++ [c]) with
    | none =>
      simp only [htr]
      exact ⟨.notExist, rfl, rfl⟩
    | some n =>
      cases n with
      | file ct mt =>
        simp only [htr]
        exact ⟨.notDir, rfl, rfl⟩
      | link t mt =>
        exact absurd hk (hnl [c] (by simp) (by simp) t mt)
      | dir mt =>
        simp only
        apply walk_err m f hops tl (c' :: r) (cur ++ [c]) f' (fun n hn => hp n (List.mem_cons_of_mem _ hn))
          (by simp) ⟨mt, hk⟩
        · simpa using hnd
        · intro p hpre hne t mt'
          have := hnl (c :: p) (by simpa using hpre) (by simpa using hne) t mt'
          simpa using this
        · simp at hf ⊢; omega

/-! ### the three outcomes of `walk` from the root on `K ++ tl` -/

theorem walk_found (m : MFS) (f : Bool) (hops : Nat) {tl : List Name} (htl : trivialRest tl = true)
    {K : Key} (hK : PKey K) {n : Node} (hn : m.get K = some n) (hnl : n.isLink = false)
    (hanc : ∀ p, p <+: K → p ≠ K → ∃ mt, m.get p = some (.dir mt))
    {fuel : Nat} (hf : K.length + tl.length < fuel) :
    walk m f fuel hops [] (K ++ tl) = .found K n := by
  by_cases hne : K = []
  · subst hne
    simp only [List.nil_append]
    rw [walk_trivial m f hops [] tl fuel htl (by simpa using hf), hn]
  · have hsplit := dropLast_append_getLast' hne
    have hlast : Plain (K.getLast hne) := hK.getLast hne
    have hlen : K.length = K.dropLast.length + 1 := by
      conv => lhs; rw [← hsplit]
      simp
    have hstep : walk m f fuel hops [] (K ++ tl) =
        walk m f (fuel - K.dropLast.length) hops K.dropLast ([K.getLast hne] ++ tl) := by
      conv => lhs; rw [← hsplit, List.append_assoc]
      rw [walk_dirs m f hops _ K.dropLast [] fuel hK.dropLast ?_ (by omega)]
      · simp
      · intro p hp hpne
        simp only [List.nil_append]
        apply hanc p (List.IsPrefix.trans hp (dropLast_prefix K))
        intro e
        rw [e] at hp
        have := hp.length_le
        omega
    rw [hstep]
    obtain ⟨f', hf'⟩ : ∃ f', fuel - K.dropLast.length = f' + 1 := ⟨fuel - K.dropLast.length - 1, by omega⟩
    rw [hf', List.singleton_append, walk_step m f f' hops _ hlast, hsplit, hn]
    cases n with
    | file ct mt => simp only [htl, if_true]
    | link t mt => cases hnl
    | dir mt =>
      simp only
      rw [walk_trivial m f hops K tl f' htl (by omega), hn]

theorem walk_missing (m : MFS) (f : Bool) (hops : Nat) {tl : List Name} (htl : trivialRest tl = true)
    {K : Key} (hK : PKey K) (hne : K ≠ []) (hn : m.get K = none)
    (hanc : ∀ p, p <+: K → p ≠ K → ∃ mt, m.get p = some (.dir mt))
    {fuel : Nat} (hf : K.length + tl.length < fuel) :
    walk m f fuel hops [] (K ++ tl) = .missing K.dropLast (K.getLast hne) := by
  have hsplit := dropLast_append_getLast' hne
  have hlast : Plain (K.getLast hne) := hK.getLast hne
  have hlen : K.length = K.dropLast.length + 1 := by
    conv => lhs; rw [← hsplit]
    simp
  have hstep : walk m f fuel hops [] (K ++ tl) =
      walk m f (fuel - K.dropLast.length) hops K.dropLast ([K.getLast hne] ++ tl) := by
    conv => lhs; rw [← hsplit, List.append_assoc]
    rw [walk_dirs m f hops _ K.dropLast [] fuel hK.dropLast ?_ (by omega)]
    · simp
    · intro p hp hpne
      simp only [List.nil_append]
      apply hanc p (List.IsPrefix.trans hp (dropLast_prefix K))
      intro e
      rw [e] at hp
      have := hp.length_le
      omega
  rw [hstep]
  obtain ⟨f', hf'⟩ : ∃ f', fuel - K.dropLast.length = f' + 1 := ⟨fuel - K.dropLast.length - 1, by omega⟩
  rw [hf', List.singleton_append, walk_step m f f' hops _ hlast, hsplit, hn]
  simp only [htl, if_true]

/-! ### texts naming a key -/

/-- the texts that name key `K`: `kp K`, and `kp K ++ "/"` when `K` is not the root -/
def TextOf (t : Path) (K : Key) : Prop := t = kp K ∨ (K ≠ [] ∧ t = kp K ++ ['/'])

theorem TextOf.kp (K : Key) : TextOf (kp K) K := Or.inl rfl

theorem splitSep_text {t : Path} {K : Key} (hK : PKey K) (h : TextOf t K) :
    ∃ tl, splitSep t = [] :: (K ++ tl) ∧ trivialRest tl = true ∧ tl.length ≤ 1 := by
  rcases h with rfl | ⟨hne, rfl⟩
  · unfold BFS.kp
    rw [splitSep_cons_sep]
    by_cases hne : K = []
    · subst hne
      exact ⟨[[]], by simp [joinSep, splitSep], by decide, by simp⟩
    · exact ⟨[], by rw [splitSep_joinSep K hne hK.nameOK]; simp, by decide, by simp⟩
  · unfold BFS.kp
    rw [List.cons_append, splitSep_cons_sep, splitSep_append, splitSep_joinSep K hne hK.nameOK]
    exact ⟨[[]], by simp [splitSep], by decide, by simp⟩

theorem TextOf.ne_nil {t : Path} {K : Key} (h : TextOf t K) : t ≠ [] := by
  rcases h with rfl | ⟨_, rfl⟩ <;> simp [BFS.kp]

theorem namei_walk (m : MFS) (f : Bool) {t : Path} {K : Key} (hK : PKey K) (h : TextOf t K) :
    ∃ tl fuel, trivialRest tl = true ∧ K.length + tl.length < fuel ∧
      namei m t f = walk m f fuel 0 [] (K ++ tl) := by
  obtain ⟨tl, hs, htl, _⟩ := splitSep_text hK h
  refine ⟨tl, 4095 + (K.length + tl.length + 1), htl, by omega, ?_⟩
  unfold namei
  simp only [h.ne_nil, if_false, hs, List.length_cons, List.length_append]
  have : 4096 + (K.length + tl.length + 1) = (4095 + (K.length + tl.length + 1)) + 1 := by omega
  rw [this, walk_skip m f _ 0 [] _ (by decide)]

theorem namei_found (m : MFS) (f : Bool) {t : Path} {K : Key} (hK : PKey K) (h : TextOf t K)
    {n : Node} (hn : m.get K = some n) (hnl : n.isLink = false)
    (hanc : ∀ p, p <+: K → p ≠ K → ∃ mt, m.get p = some (.dir mt)) :
    namei m t f = .found K n := by
  obtain ⟨tl, fuel, htl, hf, e⟩ := namei_walk m f hK h
  rw [e]
  exact walk_found m f 0 htl hK hn hnl hanc hf

theorem namei_missing (m : MFS) (f : Bool) {t : Path} {K : Key} (hK : PKey K) (h : TextOf t K)
    (hne : K ≠ []) (hn : m.get K = none)
    (hanc : ∀ p, p <+: K → p ≠ K → ∃ mt, m.get p = some (.dir mt)) :
    namei m t f = .missing K.dropLast (K.getLast hne) := by
  obtain ⟨tl, fuel, htl, hf, e⟩ := namei_walk m f hK h
  rw [e]
  exact walk_missing m f 0 htl hK hne hn hanc hf

theorem namei_err (m : MFS) (f : Bool) {t : Path} {K : Key} (hK : PKey K) (h : TextOf t K)
    (hne : K ≠ []) (hroot : ∃ mt, m.get [] = some (.dir mt))
    (hnd : ¬ ∃ mt, m.get K.dropLast = some (.dir mt))
    (hnl : ∀ p, p <+: K → p ≠ K → ∀ t mt, m.get p ≠ some (.link t mt)) :
    ∃ e, namei m t f = .err e ∧ e.isNotFound = true := by
  obtain ⟨tl, fuel, htl, hf, e⟩ := namei_walk m f hK h
  rw [e]
  exact walk_err m f 0 tl K [] fuel hK hne hroot (by simpa using hnd) (by simpa using hnl) (by omega)

/-- what name resolution can return for a key without symlinks on its way -/
inductive NameiCase (m : MFS) (K : Key) (r : Res) : Prop
  | found (n : Node) (hn : m.get K = some n) (hnl : n.isLink = false) (hr : r = .found K n)
  | missing (hne : K ≠ []) (mt : Meta) (hn : m.get K = none) (hp : m.get K.dropLast = some (.dir mt))
      (hr : r = .missing K.dropLast (K.getLast hne))
  | err (e : Err) (hne : K ≠ []) (hn : m.get K = none) (hp : ¬ ∃ mt, m.get K.dropLast = some (.dir mt))
      (hr : r = .err e) (he : e.isNotFound = true)

theorem namei_cases {bk kk : Key} {m : MFS} (hg : OSGood bk kk m) {t : Path} {K : Key} (hK : PKey K)
    (hnl : NoLinkUpto m K) (h : TextOf t K) (f : Bool) : NameiCase m K (namei m t f) := by
  cases hn : m.get K with
  | some n =>
    have hl : n.isLink = false := by
      cases n with
      | link t mt => exact absurd hn (hnl K List.prefix_rfl t mt)
      | file c mt => rfl
      | dir mt => rfl
    exact .found n hn hl (namei_found m f hK h hn hl (fun p hp hne => hg.ancestor hn hp hne))
  | none =>
    have hne : K ≠ [] := by
      intro e
      obtain ⟨mt, hr⟩ := hg.root
      rw [e, hr] at hn
      cases hn
    by_cases hp : ∃ mt, m.get K.dropLast = some (.dir mt)
    · obtain ⟨mt, hp⟩ := hp
      refine .missing hne mt hn hp (namei_missing m f hK h hne hn ?_)
      intro p hpre hpne
      have hp' := prefix_dropLast hpre hpne
      by_cases he : p = K.dropLast
      · exact ⟨mt, he ▸ hp⟩
      · exact hg.ancestor hp hp' he
    · obtain ⟨e, hr, he⟩ := namei_err m f hK h hne hg.root hp (fun p hpre _ => hnl p hpre)
      exact .err e hne hn hp hr he

/-- below the two roots nothing on the way is a symlink -/
theorem OSGood.noLinkUpto {bk kk : Key} {m : MFS} (hg : OSGood bk kk m) (s : Side) (k : Key) :
    NoLinkUpto m (osRoot bk kk s ++ k) := by
  intro p hp t mt
  rcases List.prefix_or_prefix_of_prefix hp (List.prefix_append (osRoot bk kk s) k) with h | h
  · by_cases he : p = osRoot bk kk s
    · rw [he]
      exact hg.nolink' s List.prefix_rfl
    · obtain ⟨mt0, hr⟩ := hg.rdir s
      obtain ⟨mt1, h1⟩ := hg.ancestor hr h he
      rw [h1]
      intro e
      cases e
  · exact hg.nolink' s h

/-! ### the parent text -/

theorem osjoinSep_snoc : ∀ (D : List Name) (c : Name), D ≠ [] → joinSep (D ++ [c]) = joinSep D ++ '/' :: c
  | [], _, h => absurd rfl h
  | [a], c, _ => by simp [joinSep]
  | a :: b :: r, c, _ => by
    have ih := osjoinSep_snoc (b :: r) c (by simp)
    rw [List.cons_append, joinSep_cons_of_ne_nil a (by simp), ih, joinSep_cons_cons]
    simp

/-- the text up to and including the last separator of `kp K` -/
def parentText (K : Key) : Path := if K.dropLast = [] then ['/'] else kp K.dropLast ++ ['/']

theorem kp_parent {K : Key} (hne : K ≠ []) : kp K = parentText K ++ K.getLast hne := by
  have hsplit := dropLast_append_getLast' hne
  unfold parentText
  by_cases hd : K.dropLast = []
  · simp only [hd, if_true]
    conv => lhs; rw [← hsplit, hd]
    simp [BFS.kp, joinSep]
  · simp only [hd, if_false]
    conv => lhs; rw [← hsplit]
    unfold BFS.kp
    rw [osjoinSep_snoc _ _ hd]
    simp

theorem parentText_text {K : Key} : TextOf (parentText K) K.dropLast := by
  unfold parentText
  by_cases hd : K.dropLast = []
  · simp only [hd, if_true]
    exact Or.inl (by simp [BFS.kp, joinSep])
  · simp only [hd, if_false]
    exact Or.inr ⟨hd, rfl⟩

theorem parentText_length (K : Key) : (parentText K).length > 0 := by
  unfold parentText
  split <;> simp

theorem uptoLastSep_append_sep : ∀ (a : Path) (n : Name), '/' ∉ n → uptoLastSep (a ++ '/' :: n) = a ++ ['/']
  | [], n, h => by simp [uptoLastSep, uptoLastSep_sepfree n h]
  | c :: a, n, h => by
    simp [uptoLastSep, uptoLastSep_append_sep a n h]

theorem parentText_snoc (K : Key) : ∃ a, parentText K = a ++ ['/'] := by
  unfold parentText
  split
  · exact ⟨[], rfl⟩
  · exact ⟨_, rfl⟩

theorem uptoLastSep_kp {K : Key} (hK : PKey K) (hne : K ≠ []) : uptoLastSep (kp K) = parentText K := by
  obtain ⟨a, ha⟩ := parentText_snoc K
  rw [kp_parent hne, ha, List.append_assoc]
  exact uptoLastSep_append_sep a _ (hK.getLast hne).2.1

theorem stripTrailingSeps_snoc (Y : Path) {ch : Char} (h : ch ≠ '/') : stripTrailingSeps (Y ++ [ch]) = Y ++ [ch] := by
  unfold stripTrailingSeps
  simp [h]

theorem stripTrailingSeps_snoc_sep (Y : Path) {ch : Char} (h : ch ≠ '/') :
    stripTrailingSeps (Y ++ [ch] ++ ['/']) = Y ++ [ch] := by
  unfold stripTrailingSeps
  simp [List.dropWhile, h]

theorem oskp_snoc {K : Key} (hK : PKey K) (hne : K ≠ []) : ∃ Y ch, kp K = Y ++ [ch] ∧ ch ≠ '/' := by
  have hl := hK.getLast hne
  have hlne : K.getLast hne ≠ [] := hl.1
  refine ⟨parentText K ++ (K.getLast hne).dropLast, (K.getLast hne).getLast hlne, ?_, ?_⟩
  · rw [List.append_assoc, List.dropLast_concat_getLast hlne]
    exact kp_parent hne
  · intro e
    apply hl.2.1
    rw [← e]
    exact List.getLast_mem hlne

theorem text_strip {t : Path} {K : Key} (hK : PKey K) (hne : K ≠ []) (h : TextOf t K) :
    stripTrailingSeps t = kp K := by
  obtain ⟨Y, ch, hY, hch⟩ := oskp_snoc hK hne
  rcases h with rfl | ⟨_, rfl⟩
  · rw [hY]; exact stripTrailingSeps_snoc Y hch
  · rw [hY]; exact stripTrailingSeps_snoc_sep Y hch

/-- the parent text `MkdirAll` recurses on -/
theorem text_parent {t : Path} {K : Key} (hK : PKey K) (hne : K ≠ []) (h : TextOf t K) :
    uptoLastSep (stripTrailingSeps t) = parentText K := by
  rw [text_strip hK hne h, uptoLastSep_kp hK hne]

end BFS
