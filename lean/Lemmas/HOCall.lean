import Lemmas.HOAgree
import Lemmas.DHidStep
/-!
  Lemmas/HOCall.lean — HiddenFS over `PrefixFS(kp bk)` over the OS model, two link-free disks
  (`WFB bk`) that hold the same node at every key NOT at or below a hidden key (`Vis bk hks`), have the
  same umask, and in which every visible directory has a hidden entry on one disk iff it has one on the
  other (`SameHP`): one delegated call whose names are visible returns the same result on both, and the
  relation holds again.
-/
namespace BFS
namespace HO
open MFS D PX HiddenFS

/-- disk keys at or below a hidden key: `bk ++ j` with `j` at or below one of `hks` -/
def HidD (bk : Key) (hks : List Key) (K : Key) : Prop := ∃ j, HidK hks j ∧ K = bk ++ j

/-- the visible keys: everything else (also the keys outside `bk`) -/
def Vis (bk : Key) (hks : List Key) (K : Key) : Prop := ¬ HidD bk hks K

/-- every hidden entry present on `m1` directly inside a visible directory has a counterpart (some
hidden entry present in the same directory) on `m2` -/
def HidLe (bk : Key) (hks : List Key) (m1 m2 : MFS) : Prop :=
  ∀ d c, Vis bk hks d → HidD bk hks (d ++ [c]) → (m1.get (d ++ [c])).isSome →
    ∃ c', HidD bk hks (d ++ [c']) ∧ (m2.get (d ++ [c'])).isSome

/-- every visible directory has a hidden entry on one disk iff it has one on the other -/
def SameHP (bk : Key) (hks : List Key) (m1 m2 : MFS) : Prop := HidLe bk hks m1 m2 ∧ HidLe bk hks m2 m1

/-- the hidden part of `m'` is that of `m` -/
def HidSame (bk : Key) (hks : List Key) (m m' : MFS) : Prop := ∀ j, HidK hks j → m'.get (bk ++ j) = m.get (bk ++ j)

section
variable {bk : Key} {hks : List Key}

theorem HidSame.refl (m : MFS) : HidSame bk hks m m := fun _ _ => rfl

theorem HidSame.trans {a b c : MFS} (h1 : HidSame bk hks a b) (h2 : HidSame bk hks b c) : HidSame bk hks a c :=
  fun j hj => (h2 j hj).trans (h1 j hj)

theorem hidD_mono {p q : Key} (h : HidD bk hks p) (hp : p <+: q) : HidD bk hks q := by
  obtain ⟨j, hj, rfl⟩ := h
  obtain ⟨t, rfl⟩ := hp
  exact ⟨j ++ t, hidK_mono hj (List.prefix_append _ _), by simp⟩

theorem vis_of_prefix {p q : Key} (h : Vis bk hks q) (hp : p <+: q) : Vis bk hks p :=
  fun e => h (hidD_mono e hp)

theorem vis_key {x : Key} (hx : ¬ HidK hks x) : Vis bk hks (bk ++ x) := by
  rintro ⟨j, hj, e⟩
  exact hx (List.append_cancel_left e ▸ hj)

theorem hidD_key {x : Key} : HidD bk hks (bk ++ x) ↔ HidK hks x :=
  ⟨fun ⟨j, hj, e⟩ => List.append_cancel_left e ▸ hj, fun h => ⟨x, h, rfl⟩⟩

theorem SameHP.refl (m : MFS) : SameHP bk hks m m :=
  ⟨fun _ c _ h1 h2 => ⟨c, h1, h2⟩, fun _ c _ h1 h2 => ⟨c, h1, h2⟩⟩

theorem SameHP.symm {m1 m2 : MFS} (h : SameHP bk hks m1 m2) : SameHP bk hks m2 m1 := ⟨h.2, h.1⟩

theorem hidLe_of_same {m1 m2 m1' m2' : MFS} (h : HidLe bk hks m1 m2) (h1 : HidSame bk hks m1 m1')
    (h2 : HidSame bk hks m2 m2') : HidLe bk hks m1' m2' := by
  intro d c hd hc hl
  obtain ⟨j, hj, e⟩ := hc
  rw [e, h1 j hj, ← e] at hl
  obtain ⟨c', hc', hl'⟩ := h d c hd ⟨j, hj, e⟩ hl
  refine ⟨c', hc', ?_⟩
  obtain ⟨j', hj', e'⟩ := hc'
  rw [e', h2 j' hj', ← e']
  exact hl'

/-- the hidden parts did not change: the presence relation is kept -/
theorem SameHP.of_same {m1 m2 m1' m2' : MFS} (h : SameHP bk hks m1 m2) (h1 : HidSame bk hks m1 m1')
    (h2 : HidSame bk hks m2 m2') : SameHP bk hks m1' m2' :=
  ⟨hidLe_of_same h.1 h1 h2, hidLe_of_same h.2 h2 h1⟩

theorem wfb_domSup {m : MFS} (h : WFB bk m) : DomSup m := by
  intro k hk
  obtain ⟨n, hn⟩ := Option.isSome_iff_exists.mp hk
  exact h.dom k n hn

/-- the emptiness test of `Remove` on a visible directory -/
theorem hasChildren_vis {m1 m2 : MFS} (hs1 : DomSup m1) (hs2 : DomSup m2) (ha : Agr (Vis bk hks) m1 m2)
    (he : SameHP bk hks m1 m2) {K : Key} (hK : Vis bk hks K) : m1.hasChildren K = m2.hasChildren K := by
  have one : ∀ {a b : MFS}, Agr (Vis bk hks) a b → HidLe bk hks a b → DomSup b →
      (∃ c, c ≠ [] ∧ c.dropLast = K ∧ (a.get c).isSome) → ∃ c, c ≠ [] ∧ c.dropLast = K ∧ (b.get c).isSome := by
    intro a b hab hle hsb ⟨c, hne, hd, hl⟩
    have hc : c = K ++ [c.getLast hne] := by rw [← hd]; exact (dropLast_append_getLast' hne).symm
    by_cases hv : Vis bk hks c
    · exact ⟨c, hne, hd, by rw [← hab.get c hv]; exact hl⟩
    · have hh : HidD bk hks (K ++ [c.getLast hne]) := by
        rw [← hc]; exact Classical.not_not.mp hv
      obtain ⟨c', _, hl'⟩ := hle K (c.getLast hne) hK hh (by rw [← hc]; exact hl)
      exact ⟨K ++ [c'], by simp, by simp, hl'⟩
  have : m1.hasChildren K = true ↔ m2.hasChildren K = true := by
    rw [hasChildren_iff hs1, hasChildren_iff hs2]
    exact ⟨one ha he.1 hs2, one ha.symm he.2 hs1⟩
  cases e1 : m1.hasChildren K <;> cases e2 : m2.hasChildren K <;> simp_all

/-- … and without `SameHP`, when no child of the directory is hidden -/
theorem hasChildren_vis_nopar {m1 m2 : MFS} (hs1 : DomSup m1) (hs2 : DomSup m2) (ha : Agr (Vis bk hks) m1 m2)
    {K : Key} (hK : ∀ c, Vis bk hks (K ++ [c])) : m1.hasChildren K = m2.hasChildren K := by
  have one : ∀ {a b : MFS}, Agr (Vis bk hks) a b →
      (∃ c, c ≠ [] ∧ c.dropLast = K ∧ (a.get c).isSome) → ∃ c, c ≠ [] ∧ c.dropLast = K ∧ (b.get c).isSome := by
    intro a b hab ⟨c, hne, hd, hl⟩
    have hc : c = K ++ [c.getLast hne] := by rw [← hd]; exact (dropLast_append_getLast' hne).symm
    exact ⟨c, hne, hd, by rw [← hab.get c (hc ▸ hK _)]; exact hl⟩
  have : m1.hasChildren K = true ↔ m2.hasChildren K = true := by
    rw [hasChildren_iff hs1, hasChildren_iff hs2]
    exact ⟨one ha, one ha.symm⟩
  cases e1 : m1.hasChildren K <;> cases e2 : m2.hasChildren K <;> simp_all

/-! ### name resolution of a visible key -/

/-- a key comparable with `bk`: at or below it, or one of its ancestors -/
theorem namei_vis {m1 m2 : MFS} (hw1 : WFB bk m1) (ha : Agr (Vis bk hks) m1 m2) {K : Key} (hK : PKey K)
    (hc : bk <+: K ∨ K <+: bk) (hv : Vis bk hks K) {t : Path} (htx : TextOf t K) (f : Bool) :
    namei m1 t f = namei m2 t f :=
  namei_agree_lf hK htx (fun p hp => ha.get p (vis_of_prefix hv hp))
    (fun p hp => hw1.noLinkUpto_comparable hc p hp) f

/-! ### `MkdirAll` -/

theorem mkdirAllTail_sameV {m1 m2 : MFS} (perm : Nat) (hw1 : WFB bk m1) (hw2 : WFB bk m2)
    (ha : Agr (Vis bk hks) m1 m2) {K : Key} (hK : PKey K) (hc : bk <+: K ∨ K <+: bk) (hv : Vis bk hks K)
    {t : Path} (htx : TextOf t K) :
    SameV (Vis bk hks) (mkdirAllTail m1 perm t) (mkdirAllTail m2 perm t) := by
  have hN := hw1.resolve hK (hw1.noLinkUpto_comparable hc) htx false
  have hmk := mkdir_sameV ha perm (vis_of_prefix hv (dropLast_prefix K)) (namei_vis hw1 ha hK hc hv htx false)
    (NC.of_case hN)
  have e1 := hw1.mkdir_wf hK perm hN
  unfold mkdirAllTail
  revert hmk e1
  cases m1.mkdir t perm with
  | mk a1 r1 =>
    cases m2.mkdir t perm with
    | mk a2 r2 =>
      intro hmk e1
      obtain ⟨hres, hag⟩ := hmk
      simp only at hres hag e1
      subst hres
      cases r1 with
      | ok u => exact ⟨rfl, hag⟩
      | error e =>
        simp only
        rw [← lstat_agree (namei_vis e1 hag hK hc hv htx false)]
        cases a1.lstat t with
        | error e' => exact ⟨rfl, hag⟩
        | ok i =>
          simp only
          apply sameV_ite <;> (intro _; exact ⟨rfl, hag⟩)

theorem mkdirAll_sameV (perm : Nat) :
    ∀ (fuel : Nat) (K : Key) (t : Path) (m1 m2 : MFS),
      WFB bk m1 → WFB bk m2 → Agr (Vis bk hks) m1 m2 → PKey K → (bk <+: K ∨ K <+: bk) → Vis bk hks K →
      TextOf t K → SameV (Vis bk hks) (m1.mkdirAll perm fuel t) (m2.mkdirAll perm fuel t) := by
  intro fuel
  induction fuel with
  | zero =>
    intro K t m1 m2 _ _ ha _ _ _ _
    simp only [MFS.mkdirAll]
    exact sameV_ret ha _
  | succ fuel ih =>
    intro K t m1 m2 hw1 hw2 ha hK hc hv htx
    have hst2 := stat_agree (namei_vis hw1 ha hK hc hv htx true)
    cases hst : m1.stat t with
    | ok i =>
      rw [mkdirAll_succ_ok m1 perm fuel t hst, mkdirAll_succ_ok m2 perm fuel t (hst2 ▸ hst)]
      apply sameV_ite <;> (intro _; exact sameV_ret ha _)
    | error e0 =>
      have hN := hw1.resolve hK (hw1.noLinkUpto_comparable hc) htx true
      have hn : m1.get K = none := by
        rcases hN with ⟨n, hn, _, hr⟩ | ⟨_, mt, hn, _, hr⟩ | ⟨e, _, hn, _, hr, _⟩
        · unfold MFS.stat at hst; rw [hr] at hst; cases hst
        · exact hn
        · exact hn
      have hne : K ≠ [] := by
        intro e
        obtain ⟨mt, hr⟩ := hw1.root
        rw [e, hr] at hn
        cases hn
      have hpt := text_parent hK hne htx
      have hpl := parentText_length K
      have htp : TextOf (parentText K) K.dropLast := parentText_text
      rw [mkdirAll_succ_err m1 perm fuel t hst, mkdirAll_succ_err m2 perm fuel t (hst2 ▸ hst), hpt]
      simp only [hpl, if_true]
      have hvp := vis_of_prefix hv (dropLast_prefix K)
      have hcp := comparable_dropLast hc
      have hrec := ih K.dropLast _ m1 m2 hw1 hw2 ha hK.dropLast hcp hvp htp
      have i1 := (mkdirAll_frame perm fuel K.dropLast _ m1 _ _ hw1 hK.dropLast hcp htp rfl).1
      have i2 := (mkdirAll_frame perm fuel K.dropLast _ m2 _ _ hw2 hK.dropLast hcp htp rfl).1
      revert hrec i1 i2
      cases m1.mkdirAll perm fuel (parentText K) with
      | mk a1 r1 =>
        cases m2.mkdirAll perm fuel (parentText K) with
        | mk a2 r2 =>
          intro hrec i1 i2
          obtain ⟨hres, hag⟩ := hrec
          simp only at hres hag i1 i2
          subst hres
          cases r1 with
          | error e => exact ⟨rfl, hag⟩
          | ok u => exact mkdirAllTail_sameV perm i1 i2 hag hK hc hv htx

/-! ### one OS call on visible keys -/

/-- the keys a call names are visible; a `Rename` names no ancestor of a hidden key; no `RemoveAll` -/
inductive VisCall (bk : Key) (hks : List Key) : Call → Prop
  | create (x : Key) (hx : PKey x) (hv : ¬ HidK hks x) : VisCall bk hks (.create (kp (bk ++ x)))
  | mkdir (p) (x : Key) (hx : PKey x) (hv : ¬ HidK hks x) : VisCall bk hks (.mkdir (kp (bk ++ x)) p)
  | mkdirAll (p) (x : Key) (hx : PKey x) (hv : ¬ HidK hks x) : VisCall bk hks (.mkdirAll (kp (bk ++ x)) p)
  | open_ (x : Key) (hx : PKey x) (hv : ¬ HidK hks x) : VisCall bk hks (.open_ (kp (bk ++ x)))
  | openFile (f p) (x : Key) (hx : PKey x) (hv : ¬ HidK hks x) : VisCall bk hks (.openFile (kp (bk ++ x)) f p)
  | remove (x : Key) (hx : PKey x) (hv : ¬ HidK hks x) : VisCall bk hks (.remove (kp (bk ++ x)))
  | rename (x y : Key) (hx : PKey x) (hy : PKey y) (hvx : ¬ HidK hks x) (hvy : ¬ HidK hks y)
      (hpx : ¬ ParK hks x) (hpy : ¬ ParK hks y) : VisCall bk hks (.rename (kp (bk ++ x)) (kp (bk ++ y)))
  | stat (x : Key) (hx : PKey x) (hv : ¬ HidK hks x) : VisCall bk hks (.stat (kp (bk ++ x)))
  | chmod (md) (x : Key) (hx : PKey x) (hv : ¬ HidK hks x) : VisCall bk hks (.chmod (kp (bk ++ x)) md)
  | chown (u g) (x : Key) (hx : PKey x) (hv : ¬ HidK hks x) : VisCall bk hks (.chown (kp (bk ++ x)) u g)
  | chtimes (a t) (x : Key) (hx : PKey x) (hv : ¬ HidK hks x) : VisCall bk hks (.chtimes (kp (bk ++ x)) a t)
  | lstat (x : Key) (hx : PKey x) (hv : ¬ HidK hks x) : VisCall bk hks (.lstat (kp (bk ++ x)))
  | symlink (o') (x : Key) (hx : PKey x) (hv : ¬ HidK hks x) : VisCall bk hks (.symlink o' (kp (bk ++ x)))
  | readlink (x : Key) (hx : PKey x) (hv : ¬ HidK hks x) : VisCall bk hks (.readlink (kp (bk ++ x)))
  | lchown (u g) (x : Key) (hx : PKey x) (hv : ¬ HidK hks x) : VisCall bk hks (.lchown (kp (bk ++ x)) u g)

/-- how the emptiness tests of the two disks compare for a `Remove` of the visible key `x` -/
def RemoveOK (bk : Key) (m1 m2 : MFS) (c' : Call) : Prop :=
  ∀ x, c' = .remove (kp (bk ++ x)) → PKey x → (∃ mt, m1.get (bk ++ x) = some (.dir mt)) →
    m1.hasChildren (bk ++ x) = m2.hasChildren (bk ++ x)

theorem osCall_sameV {m1 m2 : MFS} (hbk : PKey bk) (hw1 : WFB bk m1) (hw2 : WFB bk m2)
    (ha : Agr (Vis bk hks) m1 m2) {c' : Call} (hk : VisCall bk hks c') (hrm : RemoveOK bk m1 m2 c') :
    (osCall m1 c').2 = (osCall m2 c').2 ∧ Agr (Vis bk hks) (osCall m1 c').1 (osCall m2 c').1 := by
  have R : ∀ {x : Key}, PKey x → ∀ f, NC m1 (bk ++ x) (namei m1 (kp (bk ++ x)) f) :=
    fun hx f => NC.of_case (hw1.resolve_key hbk hx (TextOf.kp _) f)
  have E : ∀ {x : Key}, PKey x → ¬ HidK hks x → ∀ f, namei m1 (kp (bk ++ x)) f = namei m2 (kp (bk ++ x)) f :=
    fun hx hv f => namei_vis hw1 ha (hbk.append hx) (Or.inl (List.prefix_append _ _)) (vis_key hv) (TextOf.kp _) f
  have P : ∀ {x : Key}, ¬ HidK hks x → Vis bk hks (bk ++ x).dropLast :=
    fun hv => vis_of_prefix (vis_key hv) (dropLast_prefix _)
  have O : ∀ {x : Key}, PKey x → ¬ HidK hks x → ∀ fl pm,
      ((m1.openFile (kp (bk ++ x)) fl pm).2.map Ret.handle = (m2.openFile (kp (bk ++ x)) fl pm).2.map Ret.handle) ∧
        Agr (Vis bk hks) (m1.openFile (kp (bk ++ x)) fl pm).1 (m2.openFile (kp (bk ++ x)) fl pm).1 := by
    intro x hx hv fl pm
    have := openFile_sameV ha fl pm (P hv) (E hx hv _) (R hx _)
    exact ⟨by rw [this.1], this.2⟩
  cases hk with
  | create x hx hv => exact O hx hv _ _
  | mkdir p x hx hv => exact sameV_liftU (mkdir_sameV ha p (P hv) (E hx hv _) (R hx _))
  | mkdirAll p x hx hv =>
    exact sameV_liftU (mkdirAll_sameV p _ (bk ++ x) _ m1 m2 hw1 hw2 ha (hbk.append hx)
      (Or.inl (List.prefix_append _ _)) (vis_key hv) (TextOf.kp _))
  | open_ x hx hv => exact O hx hv _ _
  | openFile f p x hx hv => exact O hx hv _ _
  | remove x hx hv =>
    exact sameV_liftU (remove_sameV ha (E hx hv _) (R hx _) (hrm x rfl hx))
  | rename x y hx hy hvx hvy hpx hpy =>
    refine sameV_liftU (rename_sameV ha ?_ (E hx hvx _) (E hy hvy _) (R hx false) (R hy false))
    intro t
    rw [List.append_assoc]
    apply vis_key
    intro hj
    exact not_below_visible hvx hpx hj (List.prefix_append _ _)
  | stat x hx hv =>
    exact ⟨by show (m1.stat _).map _ = (m2.stat _).map _; rw [stat_agree (E hx hv _)], ha⟩
  | chmod md x hx hv =>
    have := metaOp_sameV ha (fun n => n.setMeta { n.meta with mode := md &&& 0o7777 }) (E hx hv true) (R hx true)
    rw [← mfs_chmod_eq, ← mfs_chmod_eq] at this
    exact sameV_liftU this
  | chown u g x hx hv =>
    have := metaOp_sameV ha (chownF u g) (E hx hv true) (R hx true)
    rw [← mfs_chown_eq, ← mfs_chown_eq] at this
    exact sameV_liftU this
  | chtimes a t x hx hv =>
    have := metaOp_sameV ha (fun n => n.setMeta { n.meta with mtime := t }) (E hx hv true) (R hx true)
    rw [← mfs_chtimes_eq, ← mfs_chtimes_eq] at this
    exact sameV_liftU this
  | lstat x hx hv =>
    exact ⟨by show (m1.lstat _).map _ = (m2.lstat _).map _; rw [lstat_agree (E hx hv _)], ha⟩
  | symlink o' x hx hv => exact sameV_liftU (symlink_sameV ha o' (P hv) (E hx hv _) (R hx _))
  | readlink x hx hv =>
    exact ⟨by show (m1.readlink _).map _ = (m2.readlink _).map _; rw [readlink_agree (E hx hv _)], ha⟩
  | lchown u g x hx hv =>
    have := metaOp_sameV ha (chownF u g) (E hx hv false) (R hx false)
    rw [← mfs_lchown_eq, ← mfs_lchown_eq] at this
    exact sameV_liftU this

/-! ### one delegated call through `PrefixFS(kp bk)` -/

variable {hs : List Path}

/-- the translated call of a call with visible names is a `VisCall` -/
theorem visCall_of_keyCall (H : HidKeys hs hks) (hne : hks ≠ []) (hbk : PKey bk) {c1 c2 : Call}
    (hk : KeyCall bk c1 c2) (hvis : ∀ n ∈ c1.accessPaths, isHidden n hs = .ok false)
    (hanc : ∀ o n, c1 = .rename o n → isParentOfHidden o hs = .ok false ∧ isParentOfHidden n hs = .ok false)
    (hnra : ∀ n, c1 ≠ .removeAll n) : VisCall bk hks c2 := by
  have V : ∀ {n : Path} {x : Key}, PKey x → n ∈ c1.accessPaths →
      PrefixFS.prefixPath (kp bk) n = .ok (kp (bk ++ x)) → ¬ HidK hks x :=
    fun hx hn hp => prefix_key_visible H hne hbk hx hp (hvis _ hn)
  cases hk with
  | removeAll n x hx hp => exact absurd rfl (hnra n)
  | rename o n x y hx hy hpo hpn =>
    exact .rename x y hx hy (V hx (by simp [Call.accessPaths]) hpo) (V hy (by simp [Call.accessPaths]) hpn)
      (prefix_key_notparent H hne hbk hx hpo (hvis o (by simp [Call.accessPaths])) (hanc o n rfl).1)
      (prefix_key_notparent H hne hbk hy hpn (hvis n (by simp [Call.accessPaths])) (hanc o n rfl).2)
  | create n x hx hp => exact .create x hx (V hx (by simp [Call.accessPaths]) hp)
  | mkdir n p x hx hp => exact .mkdir p x hx (V hx (by simp [Call.accessPaths]) hp)
  | mkdirAll n p x hx hp => exact .mkdirAll p x hx (V hx (by simp [Call.accessPaths]) hp)
  | open_ n x hx hp => exact .open_ x hx (V hx (by simp [Call.accessPaths]) hp)
  | openFile n f p x hx hp => exact .openFile f p x hx (V hx (by simp [Call.accessPaths]) hp)
  | remove n x hx hp => exact .remove x hx (V hx (by simp [Call.accessPaths]) hp)
  | stat n x hx hp => exact .stat x hx (V hx (by simp [Call.accessPaths]) hp)
  | chmod n md x hx hp => exact .chmod md x hx (V hx (by simp [Call.accessPaths]) hp)
  | chown n u g x hx hp => exact .chown u g x hx (V hx (by simp [Call.accessPaths]) hp)
  | chtimes n a t x hx hp => exact .chtimes a t x hx (V hx (by simp [Call.accessPaths]) hp)
  | lstat n x hx hp => exact .lstat x hx (V hx (by simp [Call.accessPaths]) hp)
  | symlink o n o' x hx hp => exact .symlink o' x hx (V hx (by simp [Call.accessPaths]) hp)
  | readlink n x hx hp => exact .readlink x hx (V hx (by simp [Call.accessPaths]) hp)
  | lchown n u g x hx hp => exact .lchown u g x hx (V hx (by simp [Call.accessPaths]) hp)

/-- the state relation of the two-disk theorems -/
structure Rel (bk : Key) (hks : List Key) (m1 m2 : MFS) : Prop where
  wf1 : WFB bk m1
  wf2 : WFB bk m2
  agr : Agr (Vis bk hks) m1 m2
  hp : SameHP bk hks m1 m2

theorem Rel.removeOK {m1 m2 : MFS} (hbk : PKey bk) (h : Rel bk hks m1 m2) {c2 : Call} (hk : VisCall bk hks c2) :
    RemoveOK bk m1 m2 c2 := by
  intro x e hx _
  cases hk with
  | remove x' hx' hv =>
    have e' : kp (bk ++ x') = kp (bk ++ x) := by injection e
    have := List.append_cancel_left (kp_inj (hbk.append hx') (hbk.append hx) e')
    subst this
    exact hasChildren_vis (wfb_domSup h.wf1) (wfb_domSup h.wf2) h.agr h.hp (vis_key hv)
  | _ => cases e

/-- one call through `PrefixFS(kp bk)` whose names are visible (and, for `Rename`, no ancestors of
hidden paths), other than `RemoveAll`: same result on both disks; they agree on the visible keys
afterwards; the hidden parts are untouched on both, so the presence relation is kept -/
theorem visible_call_same (H : HidKeys hs hks) (hne : hks ≠ []) (hbk : PKey bk) {m1 m2 : MFS}
    (hR : Rel bk hks m1 m2) (c1 : Call) (hvis : ∀ n ∈ c1.accessPaths, isHidden n hs = .ok false)
    (hanc : ∀ o n, c1 = .rename o n → isParentOfHidden o hs = .ok false ∧ isParentOfHidden n hs = .ok false)
    (hnra : ∀ n, c1 ≠ .removeAll n) :
    ((prefixFS (kp bk) osfs).call m1 c1).2 = ((prefixFS (kp bk) osfs).call m2 c1).2 ∧
    Agr (Vis bk hks) ((prefixFS (kp bk) osfs).call m1 c1).1 ((prefixFS (kp bk) osfs).call m2 c1).1 ∧
    SameHP bk hks ((prefixFS (kp bk) osfs).call m1 c1).1 ((prefixFS (kp bk) osfs).call m2 c1).1 ∧
    HidSame bk hks m1 ((prefixFS (kp bk) osfs).call m1 c1).1 ∧
    HidSame bk hks m2 ((prefixFS (kp bk) osfs).call m2 c1).1 := by
  have u1 : HidSame bk hks m1 ((prefixFS (kp bk) osfs).call m1 c1).1 :=
    visible_call_untouched H hne hR.wf1 hbk c1 hvis hanc hnra
  have u2 : HidSame bk hks m2 ((prefixFS (kp bk) osfs).call m2 c1).1 :=
    visible_call_untouched H hne hR.wf2 hbk c1 hvis hanc hnra
  refine ⟨?_, ?_, hR.hp.of_same u1 u2, u1, u2⟩
  · rcases prefix_call_cases hbk m1 c1 with ⟨e, he, hc⟩ | ⟨c2, hk, he, hc⟩
    · rcases prefix_call_cases hbk m2 c1 with ⟨e', he', hc'⟩ | ⟨c2', _, he', _⟩
      · rw [hc, hc']
        rw [he] at he'
        cases he'
        rfl
      · rw [he] at he'; cases he'
    · rcases prefix_call_cases hbk m2 c1 with ⟨e', he', _⟩ | ⟨c2', _, he', hc'⟩
      · rw [he] at he'; cases he'
      · rw [he] at he'
        cases he'
        rw [hc, hc']
        have hv := visCall_of_keyCall H hne hbk hk hvis hanc hnra
        simp only
        rw [(osCall_sameV hbk hR.wf1 hR.wf2 hR.agr hv (hR.removeOK hbk hv)).1]
  · rcases prefix_call_cases hbk m1 c1 with ⟨e, he, hc⟩ | ⟨c2, hk, he, hc⟩
    · rcases prefix_call_cases hbk m2 c1 with ⟨e', he', hc'⟩ | ⟨c2', _, he', _⟩
      · rw [hc, hc']
        exact hR.agr
      · rw [he] at he'; cases he'
    · rcases prefix_call_cases hbk m2 c1 with ⟨e', he', _⟩ | ⟨c2', _, he', hc'⟩
      · rw [he] at he'; cases he'
      · rw [he] at he'
        cases he'
        rw [hc, hc']
        have hv := visCall_of_keyCall H hne hbk hk hvis hanc hnra
        exact (osCall_sameV hbk hR.wf1 hR.wf2 hR.agr hv (hR.removeOK hbk hv)).2

/-- the same without the presence relation: the emptiness test of a `Remove` is supplied by the caller
(e.g. the directory removed does not directly contain a hidden path: `removeOK_nopar`) -/
theorem visible_call_same_gen (H : HidKeys hs hks) (hne : hks ≠ []) (hbk : PKey bk) {m1 m2 : MFS}
    (hw1 : WFB bk m1) (hw2 : WFB bk m2) (ha : Agr (Vis bk hks) m1 m2) (c1 : Call)
    (hvis : ∀ n ∈ c1.accessPaths, isHidden n hs = .ok false)
    (hanc : ∀ o n, c1 = .rename o n → isParentOfHidden o hs = .ok false ∧ isParentOfHidden n hs = .ok false)
    (hnra : ∀ n, c1 ≠ .removeAll n)
    (hrm : ∀ c2, KeyCall bk c1 c2 → RemoveOK bk m1 m2 c2) :
    ((prefixFS (kp bk) osfs).call m1 c1).2 = ((prefixFS (kp bk) osfs).call m2 c1).2 ∧
    Agr (Vis bk hks) ((prefixFS (kp bk) osfs).call m1 c1).1 ((prefixFS (kp bk) osfs).call m2 c1).1 ∧
    HidSame bk hks m1 ((prefixFS (kp bk) osfs).call m1 c1).1 ∧
    HidSame bk hks m2 ((prefixFS (kp bk) osfs).call m2 c1).1 := by
  have u1 : HidSame bk hks m1 ((prefixFS (kp bk) osfs).call m1 c1).1 :=
    visible_call_untouched H hne hw1 hbk c1 hvis hanc hnra
  have u2 : HidSame bk hks m2 ((prefixFS (kp bk) osfs).call m2 c1).1 :=
    visible_call_untouched H hne hw2 hbk c1 hvis hanc hnra
  refine ⟨?_, ?_, u1, u2⟩
  · rcases prefix_call_cases hbk m1 c1 with ⟨e, he, hc⟩ | ⟨c2, hk, he, hc⟩
    · rcases prefix_call_cases hbk m2 c1 with ⟨e', he', hc'⟩ | ⟨c2', _, he', _⟩
      · rw [hc, hc']
        rw [he] at he'
        cases he'
        rfl
      · rw [he] at he'; cases he'
    · rcases prefix_call_cases hbk m2 c1 with ⟨e', he', _⟩ | ⟨c2', _, he', hc'⟩
      · rw [he] at he'; cases he'
      · rw [he] at he'
        cases he'
        rw [hc, hc']
        have hv := visCall_of_keyCall H hne hbk hk hvis hanc hnra
        simp only
        rw [(osCall_sameV hbk hw1 hw2 ha hv (hrm _ hk)).1]
  · rcases prefix_call_cases hbk m1 c1 with ⟨e, he, hc⟩ | ⟨c2, hk, he, hc⟩
    · rcases prefix_call_cases hbk m2 c1 with ⟨e', he', hc'⟩ | ⟨c2', _, he', _⟩
      · rw [hc, hc']
        exact ha
      · rw [he] at he'; cases he'
    · rcases prefix_call_cases hbk m2 c1 with ⟨e', he', _⟩ | ⟨c2', _, he', hc'⟩
      · rw [he] at he'; cases he'
      · rw [he] at he'
        cases he'
        rw [hc, hc']
        have hv := visCall_of_keyCall H hne hbk hk hvis hanc hnra
        exact (osCall_sameV hbk hw1 hw2 ha hv (hrm _ hk)).2

/-- `Remove(n)` where `n` is not the directory of a hidden path: no entry of the directory removed is hidden -/
theorem removeOK_nopar (H : HidKeys hs hks) (hne : hks ≠ []) (hbk : PKey bk) {m1 m2 : MFS}
    (hw1 : WFB bk m1) (hw2 : WFB bk m2) (ha : Agr (Vis bk hks) m1 m2) {c1 : Call}
    (hvis : ∀ n ∈ c1.accessPaths, isHidden n hs = .ok false)
    (hnp : ∀ n, c1 = .remove n → ∀ h ∈ hks, h ≠ [] → clean n ≠ kp h.dropLast) :
    ∀ c2, KeyCall bk c1 c2 → RemoveOK bk m1 m2 c2 := by
  intro c2 hk x e hx _
  cases hk with
  | remove n x' hx' hp =>
    have e' : kp (bk ++ x') = kp (bk ++ x) := by injection e
    have := List.append_cancel_left (kp_inj (hbk.append hx') (hbk.append hx) e')
    subst this
    obtain ⟨y, hy, hcy, hvy⟩ := visible_key H hne (hvis n (by simp [Call.accessPaths]))
    have hxy := prefixPath_key_eq hbk hx hy hcy hp
    subst hxy
    apply hasChildren_vis_nopar (wfb_domSup hw1) (wfb_domSup hw2) ha
    intro c
    rw [List.append_assoc]
    apply vis_key
    rintro ⟨h, hm, hpre⟩
    by_cases he : h = x' ++ [c]
    · have hne' : h ≠ [] := by rw [he]; simp
      apply hnp n rfl h hm hne'
      rw [hcy, he, List.dropLast_concat]
    · have := prefix_dropLast hpre he
      rw [List.dropLast_concat] at this
      exact hvy ⟨h, hm, this⟩
  | _ => cases e

end
end HO
end BFS
