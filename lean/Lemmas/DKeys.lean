import Lemmas.SimOSPrefix
import Lemmas.DLayer
/-!
  Lemmas/DKeys.lean — with an absolute cleaned prefix `kp pk`, every path `PrefixFS` hands down is
  `kp (pk ++ x)` for a key `x` of plain names — whatever name string it was given.
-/
namespace BFS
namespace D
open PrefixFS

/-- a cleaned path that is component-wise within `kp pk` is the path of a key below `pk` -/
theorem key_of_within {pk : Key} (hpk : PKey pk) {p : Path} (hc : clean p = p) (hw : Within (kp pk) p) :
    ∃ x, PKey x ∧ p = kp (pk ++ x) := by
  unfold Within WithinC at hw
  rw [oscleanC_kp hpk] at hw
  obtain ⟨hr, hpre, hnd⟩ := hw
  simp only at hr hpre hnd
  have hcan := cleanC_canon p
  have hroot : (cleanC p).rooted = true := hr.symm
  have hall : PKey (cleanC p).comps := by
    intro n hn
    have := hcan.ok n hn
    exact ⟨this.1.1, this.1.2, this.2, fun e => hcan.rootedNoDD hroot (e ▸ hn)⟩
  have hdec := isPrefixOf_decompose hpre
  refine ⟨(cleanC p).comps.drop pk.length, ?_, ?_⟩
  · rw [hdec] at hall
    exact hall.right
  · calc p = clean p := hc.symm
      _ = kp (cleanC p).comps := by unfold clean CPath.render; simp [hroot, kp]
      _ = kp (pk ++ (cleanC p).comps.drop pk.length) := by rw [← hdec]

theorem prefixPath_key {pk : Key} (hpk : PKey pk) {n p : Path} (h : prefixPath (kp pk) n = .ok p) :
    ∃ x, PKey x ∧ p = kp (pk ++ x) := by
  obtain ⟨he, hw⟩ := prefixPath_ok h
  refine key_of_within hpk ?_ hw
  rw [he]
  exact join_clean_is_clean _ _ (kp_ne_nil pk)

/-- the shape of a translated call: the same method, every entry name a key below the prefix -/
inductive KeyCall (pk : Key) : Call → Call → Prop
  | create (n) (x : Key) (hx : PKey x) (hp : prefixPath (kp pk) n = .ok (kp (pk ++ x))) :
      KeyCall pk (.create n) (.create (kp (pk ++ x)))
  | mkdir (n p) (x : Key) (hx : PKey x) (hp : prefixPath (kp pk) n = .ok (kp (pk ++ x))) :
      KeyCall pk (.mkdir n p) (.mkdir (kp (pk ++ x)) p)
  | mkdirAll (n p) (x : Key) (hx : PKey x) (hp : prefixPath (kp pk) n = .ok (kp (pk ++ x))) :
      KeyCall pk (.mkdirAll n p) (.mkdirAll (kp (pk ++ x)) p)
  | open_ (n) (x : Key) (hx : PKey x) (hp : prefixPath (kp pk) n = .ok (kp (pk ++ x))) :
      KeyCall pk (.open_ n) (.open_ (kp (pk ++ x)))
  | openFile (n f p) (x : Key) (hx : PKey x) (hp : prefixPath (kp pk) n = .ok (kp (pk ++ x))) :
      KeyCall pk (.openFile n f p) (.openFile (kp (pk ++ x)) f p)
  | remove (n) (x : Key) (hx : PKey x) (hp : prefixPath (kp pk) n = .ok (kp (pk ++ x))) :
      KeyCall pk (.remove n) (.remove (kp (pk ++ x)))
  | removeAll (n) (x : Key) (hx : PKey x) (hp : prefixPath (kp pk) n = .ok (kp (pk ++ x))) :
      KeyCall pk (.removeAll n) (.removeAll (kp (pk ++ x)))
  | rename (o n) (x y : Key) (hx : PKey x) (hy : PKey y)
      (hpo : prefixPath (kp pk) o = .ok (kp (pk ++ x))) (hpn : prefixPath (kp pk) n = .ok (kp (pk ++ y))) :
      KeyCall pk (.rename o n) (.rename (kp (pk ++ x)) (kp (pk ++ y)))
  | stat (n) (x : Key) (hx : PKey x) (hp : prefixPath (kp pk) n = .ok (kp (pk ++ x))) :
      KeyCall pk (.stat n) (.stat (kp (pk ++ x)))
  | chmod (n md) (x : Key) (hx : PKey x) (hp : prefixPath (kp pk) n = .ok (kp (pk ++ x))) :
      KeyCall pk (.chmod n md) (.chmod (kp (pk ++ x)) md)
  | chown (n u g) (x : Key) (hx : PKey x) (hp : prefixPath (kp pk) n = .ok (kp (pk ++ x))) :
      KeyCall pk (.chown n u g) (.chown (kp (pk ++ x)) u g)
  | chtimes (n a t) (x : Key) (hx : PKey x) (hp : prefixPath (kp pk) n = .ok (kp (pk ++ x))) :
      KeyCall pk (.chtimes n a t) (.chtimes (kp (pk ++ x)) a t)
  | lstat (n) (x : Key) (hx : PKey x) (hp : prefixPath (kp pk) n = .ok (kp (pk ++ x))) :
      KeyCall pk (.lstat n) (.lstat (kp (pk ++ x)))
  | symlink (o n o') (x : Key) (hx : PKey x) (hp : prefixPath (kp pk) n = .ok (kp (pk ++ x))) :
      KeyCall pk (.symlink o n) (.symlink o' (kp (pk ++ x)))
  | readlink (n) (x : Key) (hx : PKey x) (hp : prefixPath (kp pk) n = .ok (kp (pk ++ x))) :
      KeyCall pk (.readlink n) (.readlink (kp (pk ++ x)))
  | lchown (n u g) (x : Key) (hx : PKey x) (hp : prefixPath (kp pk) n = .ok (kp (pk ++ x))) :
      KeyCall pk (.lchown n u g) (.lchown (kp (pk ++ x)) u g)

theorem translate_keyCall {pk : Key} (hpk : PKey pk) {c c' : Call} (h : translate (kp pk) c = .ok c') :
    KeyCall pk c c' := by
  cases c <;> simp only [translate, bind, Except.bind, pure, Except.pure] at h
  case rename o n =>
    cases ho : prefixPath (kp pk) o with
    | error e => rw [ho] at h; cases h
    | ok po =>
      cases hn : prefixPath (kp pk) n with
      | error e => rw [ho, hn] at h; cases h
      | ok pn =>
        rw [ho, hn] at h
        cases h
        obtain ⟨x, hx, rfl⟩ := prefixPath_key hpk ho
        obtain ⟨y, hy, rfl⟩ := prefixPath_key hpk hn
        exact .rename o n x y hx hy ho hn
  case symlink o n =>
    cases hn : prefixPath (kp pk) n with
    | error e => rw [hn] at h; cases h
    | ok pn =>
      rw [hn] at h
      obtain ⟨x, hx, rfl⟩ := prefixPath_key hpk hn
      simp only at h
      split at h
      · cases ho : prefixPath (kp pk) o with
        | error e => rw [ho] at h; cases h
        | ok po => rw [ho] at h; cases h; exact .symlink o n _ x hx hn
      · split at h
        · cases h
        · cases h; exact .symlink o n _ x hx hn
  all_goals (
    split at h
    · cases h
    · rename_i pn hn
      cases h
      obtain ⟨x, hx, rfl⟩ := prefixPath_key hpk hn
      constructor
      · exact hx
      · exact hn)

end D
end BFS
