import Lemmas.LSimOSBase
/-!
  Lemmas/LSimOSWalk.lean — kernel name resolution on the texts `kp K` / `kp K ++ "/"` of a plain key
  `K` no proper ancestor of which is a symlink.  New with respect to `Lemmas/SimOSWalk.lean`: a
  symlink at the final key is returned as such when the call does not follow.
-/
namespace BFS
namespace L
open MFS

/-- `walk_found` also for a final symlink that is not followed -/
theorem walk_found' (m : MFS) (f : Bool) (hops : Nat) {tl : List Name} (htl : trivialRest tl = true)
    {K : Key} (hK : PKey K) {n : Node} (hn : m.get K = some n) (hnl : n.isLink = false ∨ f = false)
    (hanc : ∀ p, p <+: K → p ≠ K → ∃ mt, m.get p = some (.dir mt))
    {fuel : Nat} (hf : K.length + tl.length < fuel) :
    walk m f fuel hops [] (K ++ tl) = .found K n := by
  by_cases hne : K = []
  · subst hne
    simp only [List.nil_append]
    rw [walk_trivial m f hops [] tl fuel htl (by simpa using hf), hn]
  · have hsplit := dropLast_append_getLast' hne
    have hlast : Plain (K.getLast hne) := hK.getLast hne
    have hlen : K.length = K.dropLast.length + 1 := by
      conv => lhs; rw [← hsplit]
      simp
    have hstep : walk m f fuel hops [] (K ++ tl) =
        walk m f (fuel - K.dropLast.length) hops K.dropLast ([K.getLast hne] ++ tl) := by
      conv => lhs; rw [← hsplit, List.append_assoc]
      rw [walk_dirs m f hops _ K.dropLast [] fuel hK.dropLast ?_ (by omega)]
      · simp
      · intro p hp hpne
        simp only [List.nil_append]
        apply hanc p (List.IsPrefix.trans hp (dropLast_prefix K))
        intro e
        rw [e] at hp
        have := hp.length_le
        omega
    rw [hstep]
    obtain ⟨f', hf'⟩ : ∃ f', fuel - K.dropLast.length = f' + 1 := ⟨fuel - K.dropLast.length - 1, by omega⟩
    rw [hf', List.singleton_append, walk_step m f f' hops _ hlast, hsplit, hn]
    cases n with
    | file ct mt => simp only [htl, if_true]
    | link t mt =>
      rcases hnl with h | h
      · cases h
      · subst h
        simp only [htl, Bool.not_false, Bool.and_self, if_true]
    | dir mt =>
      simp only
      rw [walk_trivial m f hops K tl f' htl (by omega), hn]

theorem namei_found' (m : MFS) (f : Bool) {t : Path} {K : Key} (hK : PKey K) (h : TextOf t K)
    {n : Node} (hn : m.get K = some n) (hnl : n.isLink = false ∨ f = false)
    (hanc : ∀ p, p <+: K → p ≠ K → ∃ mt, m.get p = some (.dir mt)) :
    namei m t f = .found K n := by
  obtain ⟨tl, fuel, htl, hf, e⟩ := namei_walk m f hK h
  rw [e]
  exact walk_found' m f 0 htl hK hn hnl hanc hf

/-- what name resolution that does not follow a final symlink can return when no proper ancestor
of the key is a symlink (the node found may be a symlink) -/
inductive NameiCaseNF (m : MFS) (K : Key) (r : Res) : Prop
  | found (n : Node) (hn : m.get K = some n) (hr : r = .found K n)
  | missing (hne : K ≠ []) (mt : Meta) (hn : m.get K = none) (hp : m.get K.dropLast = some (.dir mt))
      (hr : r = .missing K.dropLast (K.getLast hne))
  | err (e : Err) (hne : K ≠ []) (hn : m.get K = none) (hp : ¬ ∃ mt, m.get K.dropLast = some (.dir mt))
      (hr : r = .err e) (he : e.isNotFound = true)

theorem nameiCase_toNF {m : MFS} {K : Key} {r : Res} (h : NameiCase m K r) : NameiCaseNF m K r := by
  rcases h with ⟨n, hn, _, hr⟩ | ⟨hne, mt, hn, hp, hr⟩ | ⟨e, hne, hn, hp, hr, he⟩
  · exact .found n hn hr
  · exact .missing hne mt hn hp hr
  · exact .err e hne hn hp hr he

section
variable {bk kk : Key}

/-- the absent-key part of the case analysis -/
theorem namei_cases_none {m : MFS} (hg : OSGoodL bk kk m) {t : Path} {K : Key} (hK : PKey K)
    (hnl : NoLinkProper m K) (h : TextOf t K) (f : Bool) (hn : m.get K = none) :
    NameiCase m K (namei m t f) := by
  have hne : K ≠ [] := by
    intro e
    obtain ⟨mt, hr⟩ := hg.root
    rw [e, hr] at hn
    cases hn
  by_cases hp : ∃ mt, m.get K.dropLast = some (.dir mt)
  · obtain ⟨mt, hp⟩ := hp
    exact .missing hne mt hn hp (namei_missing m f hK h hne hn (hg.anc_of_parent hp))
  · obtain ⟨e, hr, he⟩ := namei_err m f hK h hne hg.root hp hnl
    exact .err e hne hn hp hr he

/-- calls that follow: nothing on the way, the key included, is a symlink -/
theorem namei_cases {m : MFS} (hg : OSGoodL bk kk m) {t : Path} {K : Key} (hK : PKey K)
    (hnl : NoLinkUpto m K) (h : TextOf t K) (f : Bool) : NameiCase m K (namei m t f) := by
  cases hn : m.get K with
  | some n =>
    have hl : n.isLink = false := by
      cases n with
      | link t mt => exact absurd hn (hnl K List.prefix_rfl t mt)
      | file c mt => rfl
      | dir mt => rfl
    exact .found n hn hl (namei_found m f hK h hn hl (fun p hp hne => hg.ancestor hn hp hne))
  | none => exact namei_cases_none hg hK (noLinkProper_of_upto hnl) h f hn

/-- calls that do not follow: no proper ancestor of the key is a symlink -/
theorem namei_cases_nf {m : MFS} (hg : OSGoodL bk kk m) {t : Path} {K : Key} (hK : PKey K)
    (hnl : NoLinkProper m K) (h : TextOf t K) : NameiCaseNF m K (namei m t false) := by
  cases hn : m.get K with
  | some n =>
    exact .found n hn (namei_found' m false hK h hn (Or.inr rfl) (fun p hp hne => hg.ancestor hn hp hne))
  | none => exact nameiCase_toNF (namei_cases_none hg hK hnl h false hn)

/-- resolution of a live key below a root: found, unless a final symlink would be followed -/
theorem namei_live {m : MFS} {s : Side} {k : Key} {n0 : Node} (hr : Roots bk kk) (hg : OSGoodL bk kk m) (hk : PKey k)
    (hn : m.get (osRoot bk kk s ++ k) = some n0) (f : Bool) (hnl : n0.isLink = false ∨ f = false) :
    namei m (kp (osRoot bk kk s ++ k)) f = .found (osRoot bk kk s ++ k) n0 :=
  namei_found' m f ((hr.pkey s).append hk) (TextOf.kp _) hn hnl (fun _ hp hne => hg.ancestor hn hp hne)

/-- resolution of an absent key whose parent is a live directory -/
theorem namei_new {m : MFS} {s : Side} {k : Key} {pmt : Meta} (hr : Roots bk kk) (hg : OSGoodL bk kk m)
    (hk : PKey k) (hne : k ≠ []) (h0 : m.get (osRoot bk kk s ++ k) = none)
    (hpd : m.get (osRoot bk kk s ++ k.dropLast) = some (.dir pmt)) (f : Bool)
    (hKne : osRoot bk kk s ++ k ≠ []) :
    namei m (kp (osRoot bk kk s ++ k)) f =
      .missing (osRoot bk kk s ++ k).dropLast ((osRoot bk kk s ++ k).getLast hKne) :=
  namei_missing m f ((hr.pkey s).append hk) (TextOf.kp _) hKne h0 (anc_of_parentDir hg hne hpd)

theorem namei_below {m : MFS} (s : Side) {k : Key} (hr : Roots bk kk) (hg : OSGoodL bk kk m) (hk : PKey k)
    (hnl : NoLinkUpto m (osRoot bk kk s ++ k)) (f : Bool) :
    NameiCase m (osRoot bk kk s ++ k) (namei m (kp (osRoot bk kk s ++ k)) f) :=
  namei_cases hg ((hr.pkey s).append hk) hnl (TextOf.kp _) f

theorem namei_below_text {m : MFS} (s : Side) {k : Key} {t : Path} (hr : Roots bk kk) (hg : OSGoodL bk kk m)
    (hk : PKey k) (hnl : NoLinkUpto m (osRoot bk kk s ++ k)) (ht : TextOf t (osRoot bk kk s ++ k)) (f : Bool) :
    NameiCase m (osRoot bk kk s ++ k) (namei m t f) :=
  namei_cases hg ((hr.pkey s).append hk) hnl ht f

theorem namei_below_nf {m : MFS} (s : Side) {k : Key} (hr : Roots bk kk) (hg : OSGoodL bk kk m) (hk : PKey k)
    (hnl : NoLinkProper m (osRoot bk kk s ++ k)) :
    NameiCaseNF m (osRoot bk kk s ++ k) (namei m (kp (osRoot bk kk s ++ k)) false) :=
  namei_cases_nf hg ((hr.pkey s).append hk) hnl (TextOf.kp _)

theorem namei_below_text_nf {m : MFS} (s : Side) {k : Key} {t : Path} (hr : Roots bk kk) (hg : OSGoodL bk kk m)
    (hk : PKey k) (hnl : NoLinkProper m (osRoot bk kk s ++ k)) (ht : TextOf t (osRoot bk kk s ++ k)) :
    NameiCaseNF m (osRoot bk kk s ++ k) (namei m t false) :=
  namei_cases_nf hg ((hr.pkey s).append hk) hnl ht

end

end L
end BFS
