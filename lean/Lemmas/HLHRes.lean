import Lemmas.HLLEnd
import Lemmas.HOWF
/-!
  Lemmas/HLHRes.lean — the OS model keeps a disk with symlinks anywhere well-formed (`HLL.WFL`), for
  EVERY syscall with ANY argument text, whatever route its name resolution takes.

  `WFL m` is field for field `L.OSGoodL [] [] m`; the set/move/remove-subtree lemmas of
  `Lemmas/LSimOSGood.lean` are reused with both roots `[]`.  New here: `namei_nc` — on a well-formed
  disk the outcome of resolving any text, through any number of symlinks, `..` and absolute targets,
  is `D.NC m K` for a PLAIN key `K` (a live node, or a plain missing name in a live directory, or an
  error) — and, from it, `WFL` preservation per syscall and for `osCall`.
-/
namespace BFS
namespace HLH
open MFS D L HLL HO

/-! ### the missing name of a `missing` outcome is plain -/

theorem walk_missing_plain (m : MFS) (f : Bool) :
    ∀ (fuel hops : Nat) (cur : Key) (cs : List Name) (P : Key) (c : Name),
      (∀ w ∈ cs, '/' ∉ w) → walk m f fuel hops cur cs = .missing P c → Plain c := by
  intro fuel
  induction fuel with
  | zero =>
    intro hops cur cs P c _ h
    unfold walk at h
    cases h
  | succ fuel ih =>
    intro hops cur cs P c hcs h
    cases cs with
    | nil =>
      unfold walk at h
      split at h <;> cases h
    | cons x rest =>
      have hrest : ∀ w ∈ rest, '/' ∉ w := fun w hw => hcs w (List.mem_cons_of_mem _ hw)
      unfold walk at h
      split at h
      · exact ih _ _ _ _ _ hrest h
      · rename_i h1
        split at h
        · exact ih _ _ _ _ _ hrest h
        · rename_i h2
          simp only at h
          split at h
          · split at h
            · cases h
              simp only [Bool.or_eq_true, decide_eq_true_eq, not_or] at h1
              exact ⟨h1.1, hcs _ (List.mem_cons_self), h1.2, h2⟩
            · cases h
          · exact ih _ _ _ _ _ hrest h
          · split at h <;> cases h
          · split at h
            · cases h
            · split at h
              · cases h
              · split at h
                · cases h
                · refine ih _ _ _ _ _ ?_ h
                  intro w hw
                  rcases List.mem_append.mp hw with hw | hw
                  · exact splitSep_sepfree _ w hw
                  · exact hrest w hw

theorem namei_missing_plain {m : MFS} {t : Path} {f : Bool} {P : Key} {c : Name}
    (h : namei m t f = .missing P c) : Plain c := by
  unfold namei at h
  split at h
  · cases h
  · exact walk_missing_plain m f _ _ _ _ _ _ (fun w hw => splitSep_sepfree _ w hw) h

/-- on a well-formed disk every resolution — any text, any route — ends at a plain key: a live node,
a plain missing name in a live directory, or an error -/
theorem namei_nc {m : MFS} (hw : WFL m) (t : Path) (f : Bool) : ∃ K, PKey K ∧ NC m K (namei m t f) := by
  cases hres : namei m t f with
  | found K n =>
    have hg := J12.namei_found_get hres
    exact ⟨K, hw.pkey K n hg, .found n hg rfl⟩
  | missing P c =>
    obtain ⟨⟨mt, hP⟩, hc⟩ := namei_missing_get hw hres
    have hpl := namei_missing_plain hres
    have hne : P ++ [c] ≠ [] := by simp
    refine ⟨P ++ [c], ?_, .missing hne mt hc (by simpa using hP) (by simp)⟩
    intro n hn
    rcases List.mem_append.mp hn with hn | hn
    · exact hw.pkey P _ hP n hn
    · rw [List.mem_singleton] at hn; subst hn; exact hpl
  | err e => exact ⟨[], ⟨fun _ h => (by cases h), NC.err e rfl⟩⟩

/-! ### per syscall -/

theorem wfl_touch {m : MFS} (hw : WFL m) (k : Key) : WFL (m.touchDir k) :=
  WFL.of_good (L.good_touchDir hw.good k)

theorem wfl_set_new {m : MFS} (hw : WFL m) {K : Key} (hK : PKey K) (hne : K ≠ []) {mt : Meta} {n' : Node}
    (hn : m.get K = none) (hp : m.get K.dropLast = some (.dir mt)) (hm : n'.meta.mode < 4096) :
    WFL ((m.set (K.dropLast ++ [K.getLast hne]) (some n')).touchDir K.dropLast) := by
  have hc := hK.getLast hne
  have hnone : m.get (K.dropLast ++ [K.getLast hne]) = none := by
    rw [dropLast_append_getLast' hne]; exact hn
  exact WFL.of_good (L.good_touchDir (L.good_set_new hw.good hp hc hnone hm) _)

theorem mkdir_wfl' {m : MFS} (hw : WFL m) (t : Path) (perm : Nat) : WFL (m.mkdir t perm).1 := by
  obtain ⟨K, hK, hN⟩ := namei_nc hw t false
  exact (mkdir_wfl hw hK perm hN).1

theorem symlink_wfl {m : MFS} (hw : WFL m) (o t : Path) : WFL (m.symlink o t).1 := by
  obtain ⟨K, hK, hN⟩ := namei_nc hw t false
  unfold MFS.symlink
  split
  · exact hw
  · rcases hN with ⟨n, hn, hr⟩ | ⟨hne, mt, hn, hp, hr⟩ | ⟨e, hr⟩
    · rw [hr]; exact hw
    · rw [hr]
      exact wfl_set_new hw hK hne hn hp (show (511 : Nat) < 4096 by decide)
    · rw [hr]; exact hw

theorem openFile_wfl {m : MFS} (hw : WFL m) (t : Path) (flag perm : Nat) : WFL (m.openFile t flag perm).1 := by
  obtain ⟨K, hK, hN⟩ := namei_nc hw t (!(hasFlag flag O_CREATE && hasFlag flag O_EXCL))
  unfold MFS.openFile
  simp only
  rcases hN with ⟨n, hn, hr⟩ | ⟨hne, mt, hn, hp, hr⟩ | ⟨e, hr⟩
  · rw [hr]
    simp only
    split
    · exact hw
    · cases n with
      | dir mt => simp only; split <;> exact hw
      | link tg mt => exact hw
      | file c mt =>
        simp only
        split
        · exact WFL.of_good (L.good_set_repl hw.good hn rfl (hw.mode K (.file c mt) hn))
        · exact hw
  · rw [hr]
    simp only
    split
    · exact hw
    · exact wfl_set_new hw hK hne hn hp (openFile_mode_lt _ _)
  · rw [hr]; exact hw

theorem metaOp_wfl {m : MFS} (hw : WFL m) (t : Path) (follow : Bool) (f : Node → Node)
    (hf : ∀ n, (f n).isDir = n.isDir ∧ (n.meta.mode < 4096 → (f n).meta.mode < 4096)) :
    WFL (metaOp m t follow f).1 := by
  obtain ⟨K, _, hN⟩ := namei_nc hw t follow
  unfold metaOp
  rcases hN with ⟨n, hn, hr⟩ | ⟨hne, mt, hn, hp, hr⟩ | ⟨e, hr⟩
  · rw [hr]
    exact WFL.of_good (L.good_set_repl hw.good hn (hf n).1 ((hf n).2 (hw.mode K n hn)))
  · rw [hr]; exact hw
  · rw [hr]; exact hw

theorem remove_wfl' {m : MFS} (hw : WFL m) (t : Path) : WFL (m.remove t).1 := by
  obtain ⟨K, _, hN⟩ := namei_nc hw t false
  have hg := hw.good
  unfold MFS.remove
  rcases hN with ⟨n, hn, hr⟩ | ⟨hne, mt, hn, hp, hr⟩ | ⟨e, hr⟩
  · rw [hr]
    simp only
    split
    · exact hw
    · rename_i hne
      have hleaf : n.isDir = false → ∀ c', m.get (K ++ [c']) = none := fun hnd c' =>
        hg.below_nondir (List.prefix_append _ _) (by simp) hn hnd
      cases n with
      | dir mt =>
        simp only
        split
        · exact hw
        · rename_i hch
          have hch' := (L.hasChildren_false_iff hg _).mp (by simpa using hch)
          exact WFL.of_good (L.good_touchDir (L.good_set_none hg hch' hne hne hne) _)
      | file c mt =>
        exact WFL.of_good (L.good_touchDir (L.good_set_none hg (hleaf rfl) hne hne hne) _)
      | link tg mt =>
        exact WFL.of_good (L.good_touchDir (L.good_set_none hg (hleaf rfl) hne hne hne) _)
  · rw [hr]; exact hw
  · rw [hr]; exact hw

theorem not_prefix_nil {K : Key} (h : K ≠ []) : ¬ K <+: [] := fun e => h (List.prefix_nil.mp e)

theorem removeAll_wfl {m : MFS} (hw : WFL m) (t : Path) : WFL (m.removeAll t).1 := by
  unfold MFS.removeAll
  split
  · exact hw
  · split
    · exact hw
    · split
      · exact hw
      · exact hw
      · exact hw
      · split
        · exact hw
        · rename_i hne
          exact WFL.of_good (L.good_touchDir
            (L.good_removeSubtree hw.good (not_prefix_nil hne) (not_prefix_nil hne)) _)

theorem rename_wfl {m : MFS} (hw : WFL m) (to tn : Path) : WFL (m.rename to tn).1 := by
  obtain ⟨Ko, _, ho⟩ := namei_nc hw to false
  obtain ⟨Kn, hKn, hn⟩ := namei_nc hw tn false
  have hg := hw.good
  have mv : Ko ≠ [] → Kn ≠ [] → ¬ Ko <+: Kn → (∃ mt, m.get Kn.dropLast = some (.dir mt)) →
      WFL (((m.moveSubtree Ko Kn).touchDir (parentKey Ko)).touchDir (parentKey Kn)) :=
    fun a b c d => WFL.of_good (L.good_touchDir (L.good_touchDir
      (L.good_moveSubtree hg hKn b d c (not_prefix_nil a) (not_prefix_nil a) (not_prefix_nil b) (not_prefix_nil b)) _) _)
  unfold MFS.rename
  simp only
  rcases hn with ⟨nn, hnn, hrn⟩ | ⟨hnne, mtn, hnn, hpn, hrn⟩ | ⟨en, hrn⟩
  · rcases ho with ⟨no, hno, hro⟩ | ⟨hone, mto, hno, hpo, hro⟩ | ⟨eo, hro⟩
    · rw [hrn, hro]
      cases nn with
      | dir mt =>
        simp only
        by_cases hc : Ko = Kn ∧ to ≠ tn
        · simp only [hc, and_self, if_true, ne_eq, not_false_eq_true]
          exact hw
        · simp only [hc, if_false]
          exact hw
      | file c mt =>
        simp only
        split
        · exact hw
        split
        · exact hw
        split
        · exact hw
        split
        · exact hw
        · rename_i a b c d
          have hko : Ko ≠ [] := by
            intro e; apply b; rw [e]; exact List.isPrefixOf_iff_prefix.mpr List.nil_prefix
          have hkn : Kn ≠ [] := by
            intro e; apply c; rw [e]; exact List.isPrefixOf_iff_prefix.mpr List.nil_prefix
          simp only [Node.isDir, Bool.false_eq_true, if_false]
          exact mv hko hkn (fun e => b (List.isPrefixOf_iff_prefix.mpr e)) (hw.parent Kn _ hnn hkn)
      | link tg mt =>
        simp only
        split
        · exact hw
        split
        · exact hw
        split
        · exact hw
        split
        · exact hw
        · rename_i a b c d
          have hko : Ko ≠ [] := by
            intro e; apply b; rw [e]; exact List.isPrefixOf_iff_prefix.mpr List.nil_prefix
          have hkn : Kn ≠ [] := by
            intro e; apply c; rw [e]; exact List.isPrefixOf_iff_prefix.mpr List.nil_prefix
          simp only [Node.isDir, Bool.false_eq_true, if_false]
          exact mv hko hkn (fun e => b (List.isPrefixOf_iff_prefix.mpr e)) (hw.parent Kn _ hnn hkn)
    · rw [hrn, hro]
      cases nn <;> exact hw
    · rw [hrn, hro]
      cases nn <;> exact hw
  · rcases ho with ⟨no, hno, hro⟩ | ⟨hone, mto, hno, hpo, hro⟩ | ⟨eo, hro⟩
    · rw [hrn, hro]
      simp only [dropLast_append_getLast' hnne]
      split
      · exact hw
      · rename_i b
        have hko : Ko ≠ [] := by
          intro e; apply b; rw [e]; exact List.isPrefixOf_iff_prefix.mpr List.nil_prefix
        exact mv hko hnne (fun e => b (List.isPrefixOf_iff_prefix.mpr e)) ⟨mtn, hpn⟩
    · rw [hrn, hro]; exact hw
    · rw [hrn, hro]; exact hw
  · rw [hrn]
    rcases ho with ⟨no, hno, hro⟩ | ⟨hone, mto, hno, hpo, hro⟩ | ⟨eo, hro⟩ <;> (rw [hro]; exact hw)

theorem mkdirAll_wfl (perm : Nat) : ∀ (fuel : Nat) (m : MFS) (t : Path), WFL m →
    WFL (m.mkdirAll perm fuel t).1 := by
  intro fuel
  induction fuel with
  | zero => intro m t h; exact h
  | succ fuel ih =>
    intro m t h
    cases hst : m.stat t with
    | ok i =>
      rw [mkdirAll_succ_ok m perm fuel t hst]
      split <;> exact h
    | error e0 =>
      rw [mkdirAll_succ_err m perm fuel t hst]
      have h1 : WFL (if (uptoLastSep (stripTrailingSeps t)).length > 0
          then m.mkdirAll perm fuel (uptoLastSep (stripTrailingSeps t)) else (m, Except.ok ())).1 := by
        split
        · exact ih _ _ h
        · exact h
      revert h1
      generalize (if (uptoLastSep (stripTrailingSeps t)).length > 0
          then m.mkdirAll perm fuel (uptoLastSep (stripTrailingSeps t)) else (m, Except.ok ())) = r
      intro h1
      obtain ⟨m1, r1⟩ := r
      cases r1 with
      | error e => exact h1
      | ok u =>
        show WFL (mkdirAllTail m1 perm t).1
        rw [mkdirAllTail_state]
        exact mkdir_wfl' h1 _ _

/-! ### every OS call -/

/-- the OS model keeps the disk well-formed: all 16 calls, any argument strings, any route -/
theorem osCall_wfl {m : MFS} (hw : WFL m) (c : Call) : WFL (osCall m c).1 := by
  have hch : ∀ u g (n : Node), (chownF u g n).isDir = n.isDir ∧
      (n.meta.mode < 4096 → (chownF u g n).meta.mode < 4096) := by
    intro u g n
    unfold chownF
    refine ⟨setMeta_isDir _ _, ?_⟩
    intro h
    rw [setMeta_meta]
    simp only
    split
    · exact h
    · exact chownMode_lt n h
  cases c with
  | create n => exact openFile_wfl hw _ _ _
  | mkdir n p => exact mkdir_wfl' hw _ _
  | mkdirAll n p => exact mkdirAll_wfl p _ m _ hw
  | open_ n => exact openFile_wfl hw _ _ _
  | openFile n f p => exact openFile_wfl hw _ _ _
  | remove n => exact remove_wfl' hw _
  | removeAll n => exact removeAll_wfl hw _
  | rename o n => exact rename_wfl hw _ _
  | stat n => exact hw
  | chmod n md =>
    show WFL (m.chmod _ md).1
    rw [mfs_chmod_eq]
    refine metaOp_wfl hw _ _ _ ?_
    intro n
    refine ⟨setMeta_isDir _ _, fun _ => ?_⟩
    rw [setMeta_meta]
    exact Nat.lt_of_le_of_lt Nat.and_le_right (by decide)
  | chown n u g =>
    show WFL (m.chown _ u g).1
    rw [mfs_chown_eq]
    exact metaOp_wfl hw _ _ _ (hch u g)
  | chtimes n a t =>
    show WFL (m.chtimes _ t).1
    rw [mfs_chtimes_eq]
    refine metaOp_wfl hw _ _ _ ?_
    intro n
    refine ⟨setMeta_isDir _ _, fun h => ?_⟩
    rw [setMeta_meta]
    exact h
  | lstat n => exact hw
  | symlink o n => exact symlink_wfl hw _ _
  | readlink n => exact hw
  | lchown n u g =>
    show WFL (m.lchown _ u g).1
    rw [mfs_lchown_eq]
    exact metaOp_wfl hw _ _ _ (hch u g)

end HLH
end BFS
