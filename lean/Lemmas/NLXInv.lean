import Lemmas.NLBInv
/-!
  Lemmas/NLXInv.lean (copy of Lemmas/LXInv.lean over `NL.Sim`) — the transaction invariant of the symlink-leaves development (`NL.Inv`) strengthened
  by EXACTNESS of the backup copies (property C02, second half), for EVERY fault plan — the analogue
  of Lemmas/X2Inv.lean over the contract `LSim`.

  `XInv S v0 w`: at every non-root key tracked with a `FileInfo` the backup view shows exactly the node
  the base view showed when the transaction began (`v0 k`): regular files (content, twelve mode bits,
  owner, mtime), directories (mode bits, owner), symlinks (target text as `Readlink` through the
  respective side reports it, owner).

  Unlike the link-free `XInv` no clause about the TYPE of orphans (what a failed copy leaves behind at an
  untracked key) is carried: the copy helpers are shown to leave an exact copy WHENEVER THEY RETURN ok,
  whatever sat at the target before (Lemmas/LXTrack.lean: `copyDir` over a non-directory fails at its
  `MkdirAll`), and that is all exactness of the RECORDED copies needs.
-/
namespace BFS
namespace NL
open BackupFS

variable {cfg : Cfg} {S : Sim cfg} {v0 : View}

structure XInv (S : Sim cfg) (v0 : View) (w : World) : Prop where
  exact : ∀ k i, PKey k → k ≠ [] → TS w k i → S.view .backup w.fs k = v0 k

structure InvX (S : Sim cfg) (v0 : View) (w : World) : Prop where
  inv : Inv S v0 w
  x : XInv S v0 w

theorem InvX.good {w : World} (h : InvX S v0 w) : S.G w.fs := h.inv.good

/-- the clause looks only at the backup view and the tracked map -/
theorem XInv.of_eq {w w' : World} (h : XInv S v0 w) (hv : S.view .backup w'.fs = S.view .backup w.fs)
    (hi : w'.infos = w.infos) : XInv S v0 w' := by
  refine ⟨?_⟩
  intro k i hk hne hts
  rw [hv]
  exact h.exact k i hk hne (by unfold TS at *; rw [← hi]; exact hts)

theorem XInv.of_same {w w' : World} (h : XInv S v0 w) (hs : SameFS w w') : XInv S v0 w' :=
  h.of_eq (by rw [hs.fs]) hs.infos

/-- a base-side step -/
theorem XInv.of_base_chgL {w w' : World} {K : Key → Prop} (h : XInv S v0 w) (hc : S.ChgL .base K w w') :
    XInv S v0 w' :=
  h.of_eq hc.other hc.infos

theorem XInv.of_base_chg {w w' : World} {K : Key → Prop} (h : XInv S v0 w) (hc : S.Chg .base K w w') :
    XInv S v0 w' :=
  h.of_base_chgL hc.toChgL

/-- recording an entry that does not concern the backup: "did not exist", or the root -/
theorem XInv.add_plain {w : World} {q : Path} {x : Option Info} (h : XInv S v0 w)
    (hx : ∀ j i, PKey j → j ≠ [] → q = kp j → x ≠ some i) : XInv S v0 (addInfo w q x) := by
  refine ⟨?_⟩
  intro j i hj hne hts
  apply h.exact j i hj hne
  unfold TS addInfo at hts
  unfold TS
  simp only at hts
  rw [List.lookup_append] at hts
  cases hl : w.infos.lookup (kp j) with
  | some y => rw [hl] at hts; exact hts
  | none =>
    exfalso
    rw [hl] at hts
    by_cases hq : kp j = q
    · rw [← hq] at hts
      simp [List.lookup] at hts
      exact hx j i hj hne hq.symm hts
    · have : (kp j == q) = false := by simpa using hq
      simp [List.lookup, this] at hts

/-- a backup-side step confined to the untracked key `k` -/
theorem XInv.backup_step {w w' : World} {k : Key} (h : XInv S v0 w)
    (hun : w.infos.lookup (kp k) = none) (hc : S.ChgL .backup (· = k) w w') : XInv S v0 w' := by
  refine ⟨?_⟩
  intro j i hj hne hts
  have hts' : TS w j i := by unfold TS at *; rw [← hc.infos]; exact hts
  have hjk : j ≠ k := by
    intro e; subst e; unfold TS at hts'; rw [hun] at hts'; cases hts'
  rw [hc.frame j hjk]
  exact h.exact j i hj hne hts'

/-- recording the untracked key `k` once the backup view shows the original there -/
theorem XInv.record {w : World} {k : Key} {i : Info} (h : XInv S v0 w) (hk : PKey k)
    (hex : S.view .backup w.fs k = v0 k) :
    XInv S v0 (addInfo w (kp k) (some i)) := by
  refine ⟨?_⟩
  intro j i' hj hne hts
  show S.view .backup w.fs j = v0 j
  by_cases hjk : j = k
  · subst hjk; exact hex
  · apply h.exact j i' hj hne
    unfold TS addInfo at hts
    unfold TS
    simp only at hts
    rwa [lookup_snoc_ne (fun e => hjk (kp_inj hj hk e))] at hts

/-- the parent of an untracked live key, once tracked, is a directory in the backup -/
theorem InvX.parent_bdir {w : World} {k : Key} (h : InvX S v0 w) (hk : PKey k) (hne : k ≠ [])
    (hun : w.infos.lookup (kp k) = none) (hv : S.view .base w.fs k ≠ none)
    (hpar : Tracked w k.dropLast) : (S.view .backup w.fs).isDirAt k.dropLast := by
  by_cases ha : k.dropLast = []
  · rw [ha]; exact S.root_dir h.good
  · have hpa : PKey k.dropLast := hk.dropLast
    have hv0 : v0 k ≠ none := by rw [← h.inv.frame k hk hun]; exact hv
    obtain ⟨mt, hmt⟩ := h.inv.v0_parent hv0 hne
    rcases tracked_cases w k.dropLast with hu | htn | ⟨ia, htsa⟩
    · exact absurd hu hpar
    · have := h.inv.absent _ hpa htn; rw [this] at hmt; cases hmt
    · exact ⟨mt, by rw [h.x.exact _ ia hpa ha htsa]; exact hmt⟩

/-! ### advancing -/

structure AdvX (S : Sim cfg) (v0 : View) (w w' : World) : Prop where
  adv : Adv S v0 w w'
  x : XInv S v0 w'

theorem AdvX.inv {w w' : World} (h : AdvX S v0 w w') : InvX S v0 w' := ⟨h.adv.inv, h.x⟩
theorem AdvX.base {w w' : World} (h : AdvX S v0 w w') : S.view .base w'.fs = S.view .base w.fs := h.adv.base

theorem AdvX.refl {w : World} (h : InvX S v0 w) : AdvX S v0 w w := ⟨Adv.refl h.inv, h.x⟩

theorem AdvX.trans {a b c : World} (h1 : AdvX S v0 a b) (h2 : AdvX S v0 b c) : AdvX S v0 a c :=
  ⟨h1.adv.trans h2.adv, h2.x⟩

theorem AdvX.of_same {w w' : World} (h : InvX S v0 w) (hs : SameFS w w') : AdvX S v0 w w' :=
  ⟨Adv.of_same h.inv hs, h.x.of_same hs⟩

theorem _root_.BFS.Tracked.monoNLX {w w' : World} {k : Key} (h : Tracked w k) (ha : AdvX S v0 w w') :
    Tracked w' k := h.monoNL ha.adv

/-- the strengthened invariant at the beginning of a transaction: nothing tracked (any fault plan, any
backup content satisfying the start condition of `NL.Inv` on backup symlinks) -/
theorem InvX.init {w : World} (hg : S.G w.fs) (hinfos : w.infos = []) (hbl : BackupLinksOK S w.fs) :
    InvX S (S.view .base w.fs) w := by
  refine ⟨Inv.init hg hinfos hbl, ⟨?_⟩⟩
  intro k i _ _ hts; unfold TS at hts; rw [hinfos] at hts; cases hts

end NL
end BFS
