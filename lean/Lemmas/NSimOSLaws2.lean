import Lemmas.NSimOSLaws1
/-!
  Lemmas/NSimOSLaws2.lean — the laws of `N.Sim` for the nested layering: `Lstat`, `Open`,
  `Create`/`OpenFile`, the handle primitives.
-/
namespace BFS.N
open HiddenFS

section
variable {bk hk dd : Key} {s : Side} {m m' : MFS} {k : Key}

/-! ### `Lstat` -/

theorem n_lstat_some {n : Node} (h : NRoots bk hk dd) (hg : NGood bk hk dd m) (hk' : PKey k)
    (hv : nview bk hk s m k = some n) :
    ∃ i, ((nestedCfg bk hk).side s).call m (.lstat (kp k)) = (m, .ok (.info i)) ∧ InfoFor i n := by
  obtain ⟨hvis, hv'⟩ := nview_some (dd := dd) hv
  obtain ⟨i, hc, hf⟩ := os_lstat_some h.r1 hg.os (pk_off h s hk') hv'
  obtain ⟨i', hc', hi'⟩ := (fwd_lstat h hk' hvis).info_of hc
  exact ⟨i', hc', hi' n hf⟩

theorem n_lstat_none (h : NRoots bk hk dd) (hg : NGood bk hk dd m) (hk' : PKey k)
    (hv : nview bk hk s m k = none) :
    ∃ e, ((nestedCfg bk hk).side s).call m (.lstat (kp k)) = (m, .error e) ∧ e.isNotFound = true := by
  by_cases hh : NHid hk s k
  · exact ⟨.hiddenNotExist, refused_lstat h hk' hh m, rfl⟩
  · obtain ⟨e, hc, hnf⟩ := os_lstat_none h.r1 hg.os (pk_off h s hk') (nview_none_vis (dd := dd) hh hv)
    exact ⟨e, (fwd_lstat h hk' hh).err_of hc, hnf⟩

/-! ### `Open` -/

theorem n_open_some (h : NRoots bk hk dd) (hg : NGood bk hk dd m) (hk' : PKey k)
    (hv : (nview bk hk s m).isFileAt k ∨ (nview bk hk s m).isDirAt k) :
    ∃ hd, ((nestedCfg bk hk).side s).call m (.open_ (kp k)) = (m, .ok (.handle hd)) ∧
      NH bk hk s hd k ∧ hd.flag = O_RDONLY := by
  have hvis : ¬ NHid hk s k := by
    rcases hv with hv | hv
    · exact (nview_isFileAt (dd := dd) hv).1
    · exact (nview_isDirAt (dd := dd) hv).1
  have hv' : (osView bk dd .base m).isFileAt (off hk s ++ k) ∨ (osView bk dd .base m).isDirAt (off hk s ++ k) := by
    rcases hv with hv | hv
    · exact Or.inl (nview_isFileAt (dd := dd) hv).2
    · exact Or.inr (nview_isDirAt (dd := dd) hv).2
  obtain ⟨h0, hc, hkey, hfl⟩ := os_open_some h.r1 hg.os (pk_off h s hk') hv'
  obtain ⟨hd, hc', hk1, hf1⟩ := (fwd_open h hk' hvis).handle_of hc
  exact ⟨hd, hc', ⟨hk1.trans hkey, hvis⟩, hf1.trans hfl⟩

theorem not_refused {c : Call} {e : Err} {x : Ret} (hr : Refused bk hk s c e)
    (he : ((nestedCfg bk hk).side s).call m c = (m', .ok x)) : False := by
  rw [hr m] at he; cases he

theorem n_open_handle {hd : Handle} (h : NRoots bk hk dd) (hg : NGood bk hk dd m) (hk' : PKey k)
    (he : ((nestedCfg bk hk).side s).call m (.open_ (kp k)) = (m', .ok (.handle hd))) :
    NH bk hk s hd k ∧ hd.flag = O_RDONLY := by
  by_cases hh : NHid hk s k
  · obtain ⟨e, hr⟩ := refused_single h hk' hh (f := Call.open_) (Or.inr (Or.inr (Or.inr (Or.inl rfl))))
    exact (not_refused hr he).elim
  · obtain ⟨h0, hi0, hk1, hf1⟩ := (fwd_open h hk' hh).handle_inv he
    obtain ⟨hkey, hfl⟩ := os_open_handle h.r1 hg.os (pk_off h s hk') hi0
    exact ⟨⟨hk1.trans hkey, hh⟩, hf1.trans hfl⟩

/-! ### `Create` / `OpenFile` -/

theorem n_create_frame {r : Except Err Ret} (h : NRoots bk hk dd) (hg : NGood bk hk dd m) (hk' : PKey k)
    (he : ((nestedCfg bk hk).side s).call m (.create (kp k)) = (m', r)) :
    NGood bk hk dd m' ∧ nview bk hk s.other m' = nview bk hk s.other m ∧
      (∀ j, j ≠ k → nview bk hk s m' j = nview bk hk s m j) ∧
      (∀ hd, r = .ok (.handle hd) → NH bk hk s hd k ∧ hd.flag = wflags) := by
  by_cases hh : NHid hk s k
  · obtain ⟨e, hr⟩ := refused_single h hk' hh (f := Call.create) (Or.inl rfl)
    rw [hr m] at he; cases he
    obtain ⟨a, b, c⟩ := frame_refl (s := s) hg (· = k)
    exact ⟨a, b, c, fun hd e => by cases e⟩
  · have hf := fwd_create h hk' hh
    have hi := hf.inv he
    obtain ⟨g1, _, f, hhd⟩ := os_create_frame h.r1 hg.os (pk_off h s hk') hi
    obtain ⟨a, b, c⟩ := transfer1 h hg g1 hh
      (fun hs => by subst hs; exact (os_create_frame h.r2 hg.os2 hk' ((fwd2_create h hk').eq hi)).1.bdir) f
    refine ⟨a, b, c, ?_⟩
    intro hd e; subst e
    obtain ⟨h0, hi0, hk1, hf1⟩ := hf.handle_inv he
    obtain ⟨hkey, hfl⟩ := hhd h0 (by rw [hi0])
    exact ⟨⟨hk1.trans hkey, hh⟩, hf1.trans hfl⟩

theorem n_openFile_frame {flag perm : Nat} {r : Except Err Ret} (h : NRoots bk hk dd) (hg : NGood bk hk dd m)
    (hk' : PKey k) (he : ((nestedCfg bk hk).side s).call m (.openFile (kp k) flag perm) = (m', r)) :
    NGood bk hk dd m' ∧ nview bk hk s.other m' = nview bk hk s.other m ∧
      (∀ j, j ≠ k → nview bk hk s m' j = nview bk hk s m j) ∧
      (∀ hd, r = .ok (.handle hd) → NH bk hk s hd k) := by
  by_cases hh : NHid hk s k
  · obtain ⟨e, hr⟩ := refused_single h hk' hh (f := (Call.openFile · flag perm))
      (Or.inr (Or.inr (Or.inr (Or.inr (Or.inl ⟨flag, perm, rfl⟩)))))
    rw [hr m] at he; cases he
    obtain ⟨a, b, c⟩ := frame_refl (s := s) hg (· = k)
    exact ⟨a, b, c, fun hd e => by cases e⟩
  · have hf := fwd_openFile h hk' hh flag perm
    have hi := hf.inv he
    obtain ⟨g1, _, f, hhd⟩ := os_openFile_frame h.r1 hg.os (pk_off h s hk') hi
    obtain ⟨a, b, c⟩ := transfer1 h hg g1 hh
      (fun hs => by
        subst hs; exact (os_openFile_frame h.r2 hg.os2 hk' ((fwd2_openFile h hk' flag perm).eq hi)).1.bdir) f
    refine ⟨a, b, c, ?_⟩
    intro hd e; subst e
    obtain ⟨h0, hi0, hk1, _⟩ := hf.handle_inv he
    exact ⟨hk1.trans (hhd h0 (by rw [hi0])), hh⟩

theorem n_openW_file {perm : Nat} {c : String} {mt : Meta} (h : NRoots bk hk dd) (hg : NGood bk hk dd m)
    (hk' : PKey k) (hv : nview bk hk s m k = some (.file c mt)) :
    ∃ m' hd, ((nestedCfg bk hk).side s).call m (.openFile (kp k) wflags perm) = (m', .ok (.handle hd)) ∧
      nview bk hk s m' k = some (.file "" { mt with mtime := .fresh }) := by
  obtain ⟨hvis, hv'⟩ := nview_some (dd := dd) hv
  obtain ⟨m1, h0, hc, hp⟩ := os_openW_file (perm := perm) h.r1 hg.os (pk_off h s hk') hv'
  obtain ⟨hd, hc', _, _⟩ := (fwd_openFile h hk' hvis wflags perm).handle_of hc
  exact ⟨m1, hd, hc', by rw [nview_eq (dd := dd) hvis]; exact hp⟩

theorem n_parentDir (_hvis : ¬ NHid hk s k) (hp : (nview bk hk s m).parentDir k) :
    (osView bk dd .base m).parentDir (off hk s ++ k) := by
  obtain ⟨hne, hd⟩ := hp
  refine ⟨by simp [hne], ?_⟩
  rw [append_dropLast hne]
  exact (nview_isDirAt (dd := dd) hd).2

theorem n_openW_none {perm : Nat} (h : NRoots bk hk dd) (hg : NGood bk hk dd m) (hk' : PKey k)
    (hvis : ¬ NHid hk s k) (hv : nview bk hk s m k = none) (hp : (nview bk hk s m).parentDir k) :
    ∃ m' hd mt, ((nestedCfg bk hk).side s).call m (.openFile (kp k) wflags perm) = (m', .ok (.handle hd)) ∧
      nview bk hk s m' k = some (.file "" mt) := by
  obtain ⟨m1, h0, mt, hc, hpost⟩ := os_openW_none (perm := perm) h.r1 hg.os (pk_off h s hk')
    (nview_none_vis (dd := dd) hvis hv) (n_parentDir hvis hp)
  obtain ⟨hd, hc', _, _⟩ := (fwd_openFile h hk' hvis wflags perm).handle_of hc
  exact ⟨m1, hd, mt, hc', by rw [nview_eq (dd := dd) hvis]; exact hpost⟩

theorem n_openW_post {perm : Nat} {hd : Handle} (h : NRoots bk hk dd) (hg : NGood bk hk dd m) (hk' : PKey k)
    (he : ((nestedCfg bk hk).side s).call m (.openFile (kp k) wflags perm) = (m', .ok (.handle hd))) :
    ∃ mt, nview bk hk s m' k = some (.file "" mt) := by
  by_cases hh : NHid hk s k
  · obtain ⟨e, hr⟩ := refused_single h hk' hh (f := (Call.openFile · wflags perm))
      (Or.inr (Or.inr (Or.inr (Or.inr (Or.inl ⟨wflags, perm, rfl⟩)))))
    exact (not_refused hr he).elim
  · obtain ⟨h0, hi0, _, _⟩ := (fwd_openFile h hk' hh wflags perm).handle_inv he
    obtain ⟨mt, hp⟩ := os_openW_post h.r1 hg.os (pk_off h s hk') hi0
    exact ⟨mt, by rw [nview_eq (dd := dd) hh]; exact hp⟩

/-- a handle carries the flags it was opened with (any path) -/
theorem n_openFile_flag {p : Path} {flag perm : Nat} {hd : Handle} (h : NRoots bk hk dd)
    (he : ((nestedCfg bk hk).side s).call m (.openFile p flag perm) = (m', .ok (.handle hd))) : hd.flag = flag := by
  have key : ∀ (post : Ret → Ret) (c' : Call), NamePost post → (∃ p', c' = .openFile p' flag perm) →
      (((inner bk dd).call m c').1, ((inner bk dd).call m c').2.map post) = (m', .ok (.handle hd)) → hd.flag = flag := by
    intro post c' hp ⟨p', hc'⟩ heq
    subst hc'
    obtain ⟨h1, h2⟩ := Prod.mk.inj heq
    cases hx : ((inner bk dd).call m (.openFile p' flag perm)).2 with
    | error e => rw [hx] at h2; cases h2
    | ok x =>
      rw [hx] at h2
      simp only [Except.map, Except.ok.injEq] at h2
      cases x with
      | handle h0 =>
        obtain ⟨nm, ln, hh⟩ := hp.handle h0
        rw [hh] at h2
        cases h2
        have := os_openFile_flag h.r1 (Prod.ext h1 hx : (inner bk dd).call m (.openFile p' flag perm) = (m', .ok (.handle h0)))
        exact this
      | unit => rw [hp.unit] at h2; cases h2
      | info i => obtain ⟨nm, hi⟩ := hp.info i; rw [hi] at h2; cases h2
      | str t => obtain ⟨t', ht⟩ := hp.str t; rw [ht] at h2; cases h2
  cases s with
  | base =>
    rw [side_base (dd := dd), hiddenFS_call _ _ _ _ (by intro n e; cases e)] at he
    cases htr : HiddenFS.translate (HiddenFS.mk [kp hk]) (.openFile p flag perm) with
    | error e => rw [htr] at he; cases he
    | ok c' =>
      rw [htr] at he
      exact key _ c' (namePost_npost (hk := hk) .base _ c') ⟨p, (htr_shape htr).2.2.2.2 p _ _ rfl⟩ he
  | backup =>
    rw [side_backup (dd := dd), prefixFS_call_gen] at he
    cases htr : PrefixFS.translate (PrefixFS.mk (kp hk)) (.openFile p flag perm) with
    | error e => rw [htr] at he; cases he
    | ok c' =>
      rw [htr] at he
      rw [mk_kp h.ph] at he htr
      exact key _ c' (namePost_npost (hk := hk) .backup _ c') (tr_shape_openFile htr) he

/-! ### handle primitives -/

theorem nh_key {hd : Handle} (hH : NH bk hk s hd k) : hd.key = osRoot bk dd .base ++ (off hk s ++ k) := hH.1

theorem n_hwrite_ro {hd : Handle} {o : Nat} {d : String} (ha : MFS.accessMode hd.flag = 0) :
    ((nestedCfg bk hk).side s).hwrite m hd o d = (m, .error .other) := by
  rw [side_hwrite']
  exact os_hwrite_ro (bk := bk) (kk := bk) (s := .base) ha

theorem n_hwrite_frame {hd : Handle} {o : Nat} {d : String} {r : Except Err Unit} (h : NRoots bk hk dd)
    (hg : NGood bk hk dd m) (hH : NH bk hk s hd k) (he : ((nestedCfg bk hk).side s).hwrite m hd o d = (m', r)) :
    NGood bk hk dd m' ∧ nview bk hk s.other m' = nview bk hk s.other m ∧
      (∀ j, j ≠ k → nview bk hk s m' j = nview bk hk s m j) := by
  rw [side_hwrite'] at he
  obtain ⟨g1, _, f⟩ := os_hwrite_frame (s := .base) h.r1 hg.os (nh_key hH) he
  refine transfer1 h hg g1 hH.2 ?_ f
  intro hs; subst hs
  have hk2 : hd.key = osRoot (bk ++ hk) dd .base ++ k := by
    rw [hH.1]; show bk ++ (hk ++ k) = (bk ++ hk) ++ k; rw [List.append_assoc]
  exact (os_hwrite_frame (s := .base) h.r2 hg.os2 hk2 he).1.bdir

theorem n_hwrite_file {hd : Handle} {o : Nat} {d c : String} {mt : Meta}
    (hH : NH bk hk s hd k) (ha : MFS.accessMode hd.flag ≠ 0) (hv : nview bk hk s m k = some (.file c mt)) :
    ∃ m' t, ((nestedCfg bk hk).side s).hwrite m hd o d = (m', .ok ()) ∧
      nview bk hk s m' k = some (.file (if d.isEmpty then c else MFS.applyWrite hd.flag c o d) { mt with mtime := t }) := by
  obtain ⟨hvis, hv'⟩ := nview_some (dd := bk) hv
  obtain ⟨m1, t, hc, hp⟩ := os_hwrite_file (s := .base) (off := o) (d := d) (nh_key hH) ha hv'
  refine ⟨m1, t, ?_, by rw [nview_eq (dd := bk) hvis]; exact hp⟩
  rw [side_hwrite']; exact hc

theorem n_hread_file {hd : Handle} {c : String} {mt : Meta}
    (hH : NH bk hk s hd k) (ha : MFS.accessMode hd.flag ≠ 1) (hv : nview bk hk s m k = some (.file c mt)) :
    ((nestedCfg bk hk).side s).hread m hd = .ok c := by
  obtain ⟨_, hv'⟩ := nview_some (dd := bk) hv
  rw [side_hread']
  exact os_hread_file (s := .base) (nh_key hH) ha hv'

theorem n_hstat_some {hd : Handle} {n : Node} (hg : NGood bk hk dd m)
    (hH : NH bk hk s hd k) (hv : nview bk hk s m k = some n) :
    ∃ i, ((nestedCfg bk hk).side s).hstat m hd = .ok i ∧ InfoFor i n := by
  obtain ⟨_, hv'⟩ := nview_some (dd := dd) hv
  rw [side_hstat']
  exact os_hstat_some (s := .base) hg.os (nh_key hH) hv'

theorem n_readdir_plain {hd : Handle} {ns : List Name} (hg : NGood bk hk dd m)
    (he : ((nestedCfg bk hk).side s).hreaddirnames m hd = .ok ns) : ∀ n ∈ ns, Plain n := by
  cases s with
  | backup =>
    rw [backup_hreaddirnames] at he
    exact os_readdir_plain (s := .base) hg.os he
  | base =>
    rw [base_hreaddirnames] at he
    cases hx : MFS.hreaddirnames m hd with
    | error e => rw [hx] at he; cases he
    | ok names =>
      rw [hx] at he
      intro n hn
      exact os_readdir_plain (s := .base) hg.os hx n (hiddenFilter_sub _ _ _ _ he n hn)

end
end BFS.N
