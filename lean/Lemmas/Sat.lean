import Lemmas.Sim
/-!
  Lemmas/Sat.lean — a weakest-precondition style calculus for the state-and-error monad `M`:
  `Sat x w Q` says that running `x` from world `w` ends in a world and result satisfying `Q`.
  The initial world is an ordinary variable, so postconditions relate final and initial states.
-/
namespace BFS

def Sat {α} (x : M α) (w : World) (Q : World → Except Err α → Prop) : Prop := Q (x w).1 (x w).2

theorem Sat.mono {α} {x : M α} {w : World} {Q Q' : World → Except Err α → Prop}
    (h : Sat x w Q) (hq : ∀ w1 r, Q w1 r → Q' w1 r) : Sat x w Q' := hq _ _ h

theorem Sat.pure {α} {a : α} {w : World} {Q : World → Except Err α → Prop} (h : Q w (.ok a)) :
    Sat (pure a : M α) w Q := h

theorem Sat.throw {α} {e : Err} {w : World} {Q : World → Except Err α → Prop} (h : Q w (.error e)) :
    Sat (M.throw e : M α) w Q := h

theorem Sat.bind {α β} {x : M α} {f : α → M β} {w : World} {Q : World → Except Err β → Prop}
    (h : Sat x w (fun w1 r => match r with
      | .ok a => Sat (f a) w1 Q
      | .error e => Q w1 (.error e))) : Sat (x >>= f) w Q := by
  unfold Sat at *
  rw [M.bind_apply]
  cases hx : x w with
  | mk w1 r =>
    rw [hx] at h
    cases r with
    | ok a => exact h
    | error e => exact h

/-- a total first step and a continuation whose postcondition holds from every world -/
theorem Sat.bind_total {α β} {x : M α} {f : α → M β} {w : World} {Q : World → Except Err β → Prop}
    (hx : Total x) (h : ∀ a w1, Sat (f a) w1 Q) : Sat (x >>= f) w Q := by
  unfold Sat at *
  rw [M.bind_apply]
  obtain ⟨a, ha⟩ := hx w
  cases hxw : x w with
  | mk w1 r =>
    rw [hxw] at ha
    simp only at ha
    subst ha
    exact h a w1

theorem Sat.attempt {α} {x : M α} {w : World} {Q : World → Except Err (Except Err α) → Prop}
    (h : Sat x w (fun w1 r => Q w1 (.ok r))) : Sat (attempt x) w Q := by
  unfold Sat at *
  rw [attempt_apply]
  exact h

theorem Sat.getW {w : World} {Q : World → Except Err World → Prop} (h : Q w (.ok w)) : Sat getW w Q := h

theorem Sat.modifyW {f : World → World} {w : World} {Q : World → Except Err Unit → Prop}
    (h : Q (f w) (.ok ())) : Sat (modifyW f) w Q := h

theorem Sat.whenM {c : Bool} {x : M Unit} {w : World} {Q : World → Except Err Unit → Prop}
    (ht : c = true → Sat x w Q) (hf : c = false → Q w (.ok ())) : Sat (whenM c x) w Q := by
  unfold BFS.whenM
  cases c with
  | true => exact ht rfl
  | false => exact hf rfl

theorem Sat.ite {α} {c : Prop} [Decidable c] {x y : M α} {w : World} {Q : World → Except Err α → Prop}
    (ht : c → Sat x w Q) (hf : ¬ c → Sat y w Q) : Sat (if c then x else y) w Q := by
  split
  · exact ht ‹_›
  · exact hf ‹_›

theorem Sat.of_eq {α} {x : M α} {w w1 : World} {r : Except Err α} {Q : World → Except Err α → Prop}
    (hx : x w = (w1, r)) (h : Q w1 r) : Sat x w Q := by
  unfold Sat; rw [hx]; exact h

theorem Sat.elim {α} {x : M α} {w : World} {Q : World → Except Err α → Prop} (h : Sat x w Q) :
    Q (x w).1 (x w).2 := h

namespace BackupFS

theorem Sat.wrapped {α} {x : M α} {w : World} {Q : World → Except Err α → Prop}
    (h : Sat x w (fun w1 r => match r with
      | .ok a => Q w1 (.ok a)
      | .error e => Q w1 (.error (wrapV e)))) : Sat (wrapped x) w Q := by
  unfold Sat BFS.BackupFS.wrapped at *
  cases hx : x w with
  | mk w1 r =>
    rw [hx] at h
    cases r with
    | ok a => exact h
    | error e => exact h

theorem Sat.ignorePerm {x : M Unit} {w : World} {Q : World → Except Err Unit → Prop}
    (h : Sat x w (fun w1 r => match r with
      | .ok () => Q w1 (.ok ())
      | .error e => if e.isPermission then Q w1 (.ok ()) else Q w1 (.error e))) :
    Sat (ignorePerm x) w Q := by
  unfold BFS.BackupFS.ignorePerm
  apply Sat.bind
  apply Sat.attempt
  apply h.mono
  intro w1 r hr
  cases r with
  | ok u => exact hr
  | error e =>
    simp only at hr ⊢
    split
    · rename_i hp; rw [if_pos hp] at hr; exact hr
    · rename_i hp; rw [if_neg hp] at hr; exact hr

end BackupFS

/-! ### the primitive gate -/

/-- same disk, same tracked map, same fault plan (trace and occurrence counters may differ) -/
structure SameFS (w w1 : World) : Prop where
  fs : w1.fs = w.fs
  infos : w1.infos = w.infos
  faults : w1.faults = w.faults

theorem SameFS.refl (w : World) : SameFS w w := ⟨rfl, rfl, rfl⟩

theorem SameFS.trans {a b c : World} (h1 : SameFS a b) (h2 : SameFS b c) : SameFS a c :=
  ⟨h2.fs.trans h1.fs, h2.infos.trans h1.infos, h2.faults.trans h1.faults⟩

theorem account_sameFS (sig : Sig) (mu : Bool) (w : World) : SameFS w (account sig mu w).1 := by
  unfold account; exact ⟨rfl, rfl, rfl⟩

theorem crashed_faults {w : World} (h : crashed w = true) : w.faults ≠ [] := by
  intro e; unfold crashed at h; rw [e] at h; simp at h

theorem account_nofault (sig : Sig) (mu : Bool) (w : World) (h : w.faults = []) :
    (account sig mu w).2 = false := by
  unfold account crashed; simp [h]

/-- a path-taking primitive: either the fault plan refuses it (nothing happens), or it runs on an
unchanged disk -/
theorem Sat.primCall {cfg : Cfg} {side : Side} {c : Call} {w : World} {Q : World → Except Err Ret → Prop}
    (hf : w.faults ≠ [] → ∀ w1, SameFS w w1 → Q w1 (.error .io))
    (hx : ∀ w1, SameFS w w1 →
      Q { w1 with fs := ((cfg.side side).call w.fs c).1 } ((cfg.side side).call w.fs c).2) :
    Sat (primCall cfg side c) w Q := by
  unfold Sat BFS.primCall
  have hexec : ∀ w1, SameFS w w1 → Q (execCall cfg side c w1).1 (execCall cfg side c w1).2 := by
    intro w1 h1
    unfold execCall
    rw [h1.fs]
    have := hx w1 h1
    cases hc : (cfg.side side).call w.fs c with
    | mk m' r => rw [hc] at this; exact this
  split
  · split
    · rename_i hcr
      exact hf (crashed_faults hcr) w (SameFS.refl w)
    · exact hexec w (SameFS.refl w)
  · have hs := account_sameFS ⟨side, callMethod c, callArgs c⟩ (callMutating c) w
    cases hacc : account ⟨side, callMethod c, callArgs c⟩ (callMutating c) w with
    | mk w1 faulted =>
      rw [hacc] at hs
      cases faulted with
      | true =>
        simp only
        apply hf _ w1 hs
        intro hnf
        have := account_nofault ⟨side, callMethod c, callArgs c⟩ (callMutating c) w hnf
        rw [hacc] at this
        cases this
      | false => exact hexec w1 hs

theorem Sat.primH {wh : WHandle} {method : String} {extra : List Path} {mu : Bool} {w : World}
    {Q : World → Except Err Unit → Prop}
    (hf : w.faults ≠ [] → ∀ w1, SameFS w w1 → Q w1 (.error .io))
    (hx : ∀ w1, SameFS w w1 → Q w1 (.ok ())) : Sat (primH wh method extra mu) w Q := by
  unfold Sat BFS.primH
  have hs := account_sameFS ⟨wh.side, method, wh.arg :: extra⟩ mu w
  cases hacc : account ⟨wh.side, method, wh.arg :: extra⟩ mu w with
  | mk w1 faulted =>
    rw [hacc] at hs
    cases faulted with
    | true =>
      simp only [if_true]
      apply hf _ w1 hs
      intro hnf
      have := account_nofault ⟨wh.side, method, wh.arg :: extra⟩ mu w hnf
      rw [hacc] at this
      cases this
    | false => simpa using hx w1 hs

end BFS
