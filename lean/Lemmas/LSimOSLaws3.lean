import Lemmas.LSimOSLaws2
/-!
  Lemmas/LSimOSLaws3.lean — `Lstat`, `Readlink`, `Open`, write-opens with exact effect, handle
  primitives.
-/
namespace BFS
namespace L
open MFS

section
variable {bk kk : Key}

/-! ### `Lstat` -/

theorem os_lstat_some {m : MFS} {s : Side} {k : Key} {n : Node} (hr : Roots bk kk) (hg : OSGoodL bk kk m)
    (hk : PKey k) (hv : osViewL bk kk s m k = some n) :
    ∃ i, ((osCfg bk kk).side s).call m (.lstat (kp k)) = (m, .ok (.info i)) ∧ InfoForL i n := by
  obtain ⟨n0, h0, he⟩ := osViewL_some hv
  have hl : m.lstat (kp (osRoot bk kk s ++ k)) = .ok (infoOf (base (kp (osRoot bk kk s ++ k))) n0) := by
    unfold MFS.lstat
    rw [namei_live hr hg hk h0 false (Or.inr rfl)]
  rw [side_lstat s hr hk, hl]
  refine ⟨_, rfl, ?_⟩
  rw [← he]
  exact infoForL_infoOf _ _ n0

theorem os_lstat_none {m : MFS} {s : Side} {k : Key} (hr : Roots bk kk) (hg : OSGoodL bk kk m)
    (hk : PKey k) (hna : NoLinkAnc (osViewL bk kk s m) k) (hv : osViewL bk kk s m k = none) :
    ∃ e, ((osCfg bk kk).side s).call m (.lstat (kp k)) = (m, .error e) ∧ e.isNotFound = true := by
  have h0 := osViewL_none hv
  rw [side_lstat s hr hk]
  unfold MFS.lstat
  rcases namei_below_nf s hr hg hk (noLinkProper_of_view hg hna) with
    ⟨n, hn, _⟩ | ⟨hne, mt, hn, hp, hres⟩ | ⟨e, hne, hn, hp, hres, he⟩
  · rw [h0] at hn; cases hn
  · rw [hres]
    exact ⟨.notExist, rfl, rfl⟩
  · rw [hres]
    exact ⟨e, rfl, he⟩

/-! ### `Readlink` -/

theorem tr_readlink {b k : Key} (hb : PKey b) (hk : PKey k) :
    PrefixFS.translate (kp b) (.readlink (kp k)) = .ok (.readlink (kp (b ++ k))) := by
  simp only [PrefixFS.translate, prefixPath_kp hb hk, bind, Except.bind, pure, Except.pure]

theorem os_readlink_link {m : MFS} {s : Side} {k : Key} {t : Path} {mt : Meta} (hr : Roots bk kk)
    (hg : OSGoodL bk kk m) (hk : PKey k) (hv : osViewL bk kk s m k = some (.link t mt)) :
    ((osCfg bk kk).side s).call m (.readlink (kp k)) = (m, .ok (.str t)) := by
  obtain ⟨raw, m0, h0, e1, _⟩ := osViewL_link hv
  have hl : m.readlink (kp (osRoot bk kk s ++ k)) = .ok raw := by
    unfold MFS.readlink
    rw [namei_live hr hg hk h0 false (Or.inr rfl)]
  rw [side_call hr s m (tr_readlink (hr.pkey s) hk)]
  show (m, ((m.readlink (kp (osRoot bk kk s ++ k))).map Ret.str).map _) = _
  rw [hl, e1]
  rfl

/-! ### opening what is there -/

theorem os_open_some {m : MFS} {s : Side} {k : Key} (hr : Roots bk kk) (hg : OSGoodL bk kk m) (hk : PKey k)
    (hv : (osViewL bk kk s m).isFileAt k ∨ (osViewL bk kk s m).isDirAt k) :
    ∃ h, ((osCfg bk kk).side s).call m (.open_ (kp k)) = (m, .ok (.handle h)) ∧
      h.key = osRoot bk kk s ++ k ∧ h.flag = O_RDONLY := by
  rw [side_open s hr hk]
  unfold MFS.openFile
  simp only [ro_creat, ro_wr, Bool.false_and, Bool.not_false, Bool.false_or, Bool.false_eq_true, if_false]
  rcases hv with hv | hv
  · obtain ⟨c, mt, h0⟩ := osViewL_isFileAt hv
    rw [namei_live hr hg hk h0 true (Or.inl rfl)]
    exact ⟨_, rfl, rfl, rfl⟩
  · obtain ⟨mt, h0⟩ := osViewL_isDirAt hv
    rw [namei_live hr hg hk h0 true (Or.inl rfl)]
    exact ⟨_, rfl, rfl, rfl⟩

/-! ### `OpenFile` with `O_RDWR|O_CREATE|O_TRUNC` -/

theorem openFile_w_file {m : MFS} {s : Side} {k : Key} {perm : Nat} {c : String} {mt : Meta} (hr : Roots bk kk)
    (hg : OSGoodL bk kk m) (hk : PKey k) (h0 : m.get (osRoot bk kk s ++ k) = some (.file c mt)) :
    m.openFile (kp (osRoot bk kk s ++ k)) wflags perm =
      (m.set (osRoot bk kk s ++ k) (some (.file "" { mt with mtime := .fresh })),
        .ok ⟨osRoot bk kk s ++ k, kp (osRoot bk kk s ++ k), false, wflags, []⟩) := by
  unfold MFS.openFile
  simp only [wf_creat, wf_excl, wf_wr, wf_trunc, Bool.and_false, Bool.not_false, Bool.and_self, Bool.false_eq_true,
    if_false, if_true]
  rw [namei_live hr hg hk h0 true (Or.inl rfl)]

theorem os_openW_file {m : MFS} {s : Side} {k : Key} {perm : Nat} {c : String} {mt : Meta} (hr : Roots bk kk)
    (hg : OSGoodL bk kk m) (hk : PKey k) (hv : osViewL bk kk s m k = some (.file c mt)) :
    ∃ m' h, ((osCfg bk kk).side s).call m (.openFile (kp k) wflags perm) = (m', .ok (.handle h)) ∧
      osViewL bk kk s m' k = some (.file "" { mt with mtime := .fresh }) := by
  obtain ⟨n0, h0, he⟩ := osViewL_some hv
  rw [eraseV_file] at he
  subst he
  rw [side_openFile s hr hk, openFile_w_file hr hg hk h0]
  exact ⟨_, _, rfl, osViewL_set s m k _⟩

theorem openFile_w_none {m : MFS} {s : Side} {k : Key} {perm : Nat} {pmt : Meta} (hr : Roots bk kk)
    (hg : OSGoodL bk kk m) (hk : PKey k) (hne : k ≠ []) (h0 : m.get (osRoot bk kk s ++ k) = none)
    (hpd : m.get (osRoot bk kk s ++ k.dropLast) = some (.dir pmt)) :
    ∃ nmt, m.openFile (kp (osRoot bk kk s ++ k)) wflags perm =
      ((m.set (osRoot bk kk s ++ k) (some (.file "" nmt))).touchDir (osRoot bk kk s ++ k.dropLast),
        .ok ⟨osRoot bk kk s ++ k, kp (osRoot bk kk s ++ k), false, wflags, []⟩) := by
  have hKne : osRoot bk kk s ++ k ≠ [] := by simp [hne]
  have hmiss := namei_new hr hg hk hne h0 hpd true hKne
  unfold MFS.openFile
  simp only [wf_creat, wf_excl, Bool.and_false, Bool.not_false, Bool.not_true, Bool.false_eq_true, if_false]
  rw [hmiss]
  simp only [dropLast_append_getLast' hKne]
  rw [append_dropLast hne]
  exact ⟨_, rfl⟩

theorem os_openW_none {m : MFS} {s : Side} {k : Key} {perm : Nat} (hr : Roots bk kk)
    (hg : OSGoodL bk kk m) (hk : PKey k) (hv : osViewL bk kk s m k = none) (hp : (osViewL bk kk s m).parentDir k) :
    ∃ m' h mt, ((osCfg bk kk).side s).call m (.openFile (kp k) wflags perm) = (m', .ok (.handle h)) ∧
      osViewL bk kk s m' k = some (.file "" mt) := by
  have h0 := osViewL_none hv
  obtain ⟨hne, hpd⟩ := hp
  obtain ⟨pmt, hpd⟩ := osViewL_isDirAt hpd
  obtain ⟨nmt, e⟩ := openFile_w_none (perm := perm) hr hg hk hne h0 hpd
  rw [side_openFile s hr hk, e]
  exact ⟨_, _, nmt, rfl, osViewL_set_touch s m k _ _⟩

theorem openFile_w_post {m m' : MFS} {s : Side} {k : Key} {perm : Nat} {hd : Handle} (hr : Roots bk kk)
    (hg : OSGoodL bk kk m) (hk : PKey k) (hnl : NoLinkUpto m (osRoot bk kk s ++ k))
    (h : m.openFile (kp (osRoot bk kk s ++ k)) wflags perm = (m', .ok hd)) :
    ∃ mt, osViewL bk kk s m' k = some (.file "" mt) := by
  unfold MFS.openFile at h
  simp only [wf_creat, wf_excl, wf_wr, wf_trunc, Bool.and_false, Bool.not_false, Bool.and_self, Bool.not_true,
    Bool.false_eq_true, if_false, if_true] at h
  rcases namei_below s hr hg hk hnl true with ⟨n, hn, hnl', hres⟩ | ⟨hne, mt, hn, hp, hres⟩ | ⟨e, hne, hn, hp, hres, he⟩
  · rw [hres] at h
    cases n with
    | link t mt => cases hnl'
    | dir mt => simp at h
    | file c mt =>
      simp only at h
      cases h
      exact ⟨_, osViewL_set s m k _⟩
  · rw [hres] at h
    simp only [dropLast_append_getLast' hne] at h
    cases h
    exact ⟨_, osViewL_set_touch s m k _ _⟩
  · rw [hres] at h
    cases h

theorem os_openW_post {m m' : MFS} {s : Side} {k : Key} {perm : Nat} {h : Handle} (hr : Roots bk kk)
    (hg : OSGoodL bk kk m) (hk : PKey k) (hacc : AccF (osViewL bk kk s m) k)
    (hc : ((osCfg bk kk).side s).call m (.openFile (kp k) wflags perm) = (m', .ok (.handle h))) :
    ∃ mt, osViewL bk kk s m' k = some (.file "" mt) := by
  rw [side_openFile s hr hk] at hc
  obtain ⟨h1, h2⟩ := Prod.mk.inj hc
  obtain ⟨hd, e0, _⟩ := map_handle_ok h2
  exact openFile_w_post hr hg hk (noLinkUpto_of_view hg hacc) (Prod.ext h1 e0)

/-! ### handle primitives -/

theorem hwrite_spec {m m' : MFS} {h : Handle} {off : Nat} {d : String} {r : Except Err Unit}
    (hg : OSGoodL bk kk m) (he : m.hwrite h off d = (m', r)) :
    OSGoodL bk kk m' ∧ EqOff m m' h.key ∧ LinkSub m m' := by
  unfold MFS.hwrite at he
  split at he
  · cases he; exact ⟨hg, EqOff.refl _ _, LinkSub.refl _⟩
  · split at he
    · rename_i c mt hget
      split at he
      · cases he; exact ⟨hg, EqOff.refl _ _, LinkSub.refl _⟩
      · cases he
        exact ⟨good_set_repl hg hget rfl (hg.mode _ (.file c mt) hget), EqOff.set _ _ _,
          LinkSub.set_nonlink _ _ (by intro t mt' e; cases e)⟩
    · cases he; exact ⟨hg, EqOff.refl _ _, LinkSub.refl _⟩

theorem os_hwrite_frame {m m' : MFS} {s : Side} {h : Handle} {k : Key} {off : Nat} {d : String} {r : Except Err Unit}
    (hr : Roots bk kk) (hg : OSGoodL bk kk m) (hh : h.key = osRoot bk kk s ++ k)
    (he : ((osCfg bk kk).side s).hwrite m h off d = (m', r)) :
    OSGoodL bk kk m' ∧ osViewL bk kk s.other m' = osViewL bk kk s.other m ∧
      (∀ j, j ≠ k → osViewL bk kk s m' j = osViewL bk kk s m j) ∧
      LinkMono (osViewL bk kk s m) (osViewL bk kk s m') := by
  rw [side_hwrite] at he
  obtain ⟨g1, g2, g3⟩ := hwrite_spec hg he
  rw [hh] at g2
  exact ⟨g1, frame_of hr g2 g3⟩

theorem os_hwrite_file {m : MFS} {s : Side} {h : Handle} {k : Key} {off : Nat} {d : String} {c : String} {mt : Meta}
    (hh : h.key = osRoot bk kk s ++ k) (ha : MFS.accessMode h.flag ≠ 0)
    (hv : osViewL bk kk s m k = some (.file c mt)) :
    ∃ m' t, ((osCfg bk kk).side s).hwrite m h off d = (m', .ok ()) ∧
      osViewL bk kk s m' k = some (.file (if d.isEmpty then c else MFS.applyWrite h.flag c off d) { mt with mtime := t }) := by
  obtain ⟨n0, h0, he⟩ := osViewL_some hv
  rw [eraseV_file] at he
  subst he
  rw [side_hwrite]
  unfold MFS.hwrite
  simp only [ha, if_false, hh, h0]
  by_cases hd : d.isEmpty = true
  · simp only [hd, if_true]
    exact ⟨m, mt.mtime, rfl, hv⟩
  · simp only [hd, if_false, Bool.false_eq_true]
    exact ⟨_, .fresh, rfl, osViewL_set s m k _⟩

theorem os_hread_file {m : MFS} {s : Side} {h : Handle} {k : Key} {c : String} {mt : Meta}
    (hh : h.key = osRoot bk kk s ++ k) (ha : MFS.accessMode h.flag ≠ 1)
    (hv : osViewL bk kk s m k = some (.file c mt)) : ((osCfg bk kk).side s).hread m h = .ok c := by
  obtain ⟨n0, h0, he⟩ := osViewL_some hv
  rw [eraseV_file] at he
  subst he
  rw [side_hread]
  unfold MFS.hread
  simp only [hh, h0, ha, if_false]

theorem os_hstat_some {m : MFS} {s : Side} {h : Handle} {k : Key} {n : Node}
    (hh : h.key = osRoot bk kk s ++ k) (hv : osViewL bk kk s m k = some n) :
    ∃ i, ((osCfg bk kk).side s).hstat m h = .ok i ∧ InfoForL i n := by
  obtain ⟨n0, h0, he⟩ := osViewL_some hv
  rw [side_hstat]
  unfold MFS.hstat
  simp only [hh, h0]
  refine ⟨_, rfl, ?_⟩
  rw [← he]
  exact infoForL_infoOf _ _ n0

theorem childNames_plain {m : MFS} (hg : OSGoodL bk kk m) (K : Key) : ∀ n ∈ m.childNames K, Plain n := by
  intro n hn
  unfold MFS.childNames at hn
  rw [List.mem_eraseDups, List.mem_filterMap] at hn
  obtain ⟨c, hc, hl⟩ := hn
  rw [List.mem_filter] at hc
  obtain ⟨_, hc⟩ := hc
  simp only [Bool.and_eq_true, decide_eq_true_eq] at hc
  obtain ⟨⟨_, _⟩, hsome⟩ := hc
  obtain ⟨node, hnode⟩ := Option.isSome_iff_exists.mp hsome
  obtain ⟨ys, rfl⟩ := List.getLast?_eq_some_iff.mp hl
  exact hg.pkey _ node hnode n (by simp)

theorem os_readdir_plain {m : MFS} {s : Side} {h : Handle} {ns : List Name} (hg : OSGoodL bk kk m)
    (he : ((osCfg bk kk).side s).hreaddirnames m h = .ok ns) : ∀ n ∈ ns, Plain n := by
  rw [side_hreaddirnames] at he
  unfold MFS.hreaddirnames at he
  split at he
  · cases he
    intro n hn
    exact childNames_plain hg h.key n ((sortBy_perm strLt _).mem_iff.mp hn)
  · cases he
  · cases he

end
end L
end BFS
