import Lemmas.UOps5
import Lemmas.GSub
/-!
  Lemmas/UOps6.lean — transparency through flat symlinks (C03): `RemoveAll` of a name whose resolved key
  is NOT a directory (a regular file, a symlink — removed, not followed —, or nothing at all).

  BackupFS: `realPath`, `Lstat` of the resolved name; not found → nil; a non-directory → `Remove`.
  Directly: `os.RemoveAll` — nil for ENOENT and for a missing final component, the error otherwise
  (ENOTDIR below a regular file: the adopted reading counts this as "does not exist", BackupFS returns
  nil there — the explicit exception of `TranspRA`).
-/
namespace BFS
namespace U
open BackupFS MFS F16

/-- `TranspU` with the adopted-reading exception of `RemoveAll`: BackupFS returns nil where
`os.RemoveAll` reports a not-found-class error other than ENOENT (ENOTDIR: a proper ancestor is a regular
file) -/
def TranspRA (bk : Key) (w : World) (pr : Except Err Unit) (w' : World) (res : Except Err OpOut)
    (d : MFS × Except Err DOut) : Prop :=
  match pr with
  | .ok _ => (ResAgreeU res d.2 ∨ ((∃ a, res = .ok a) ∧ ∃ e, d.2 = .error e ∧ e.isNotFound = true)) ∧ UEq bk w'.fs d.1
  | .error e => res = .error e ∧ UEq bk w'.fs w.fs

theorem TranspU.toRA {bk : Key} {w : World} {pr : Except Err Unit} {w' : World} {res : Except Err OpOut}
    {d : MFS × Except Err DOut} (h : TranspU bk w pr w' res d) : TranspRA bk w pr w' res d := by
  cases pr with
  | ok u => exact ⟨Or.inl h.1, h.2⟩
  | error e => exact h

/-- `TranspU` looks at the initial world only through its disk, at the direct outcome only through its
result and the base view of its disk -/
theorem TranspU.transfer {bk : Key} {w w2 : World} {pr : Except Err Unit} {w' : World} {res : Except Err OpOut}
    {d d' : MFS × Except Err DOut} (h : TranspU bk w2 pr w' res d) (hfs : w2.fs = w.fs) (hd2 : d'.2 = d.2)
    (hd1 : UEq bk d.1 d'.1) : TranspU bk w pr w' res d' := by
  cases pr with
  | ok u => exact ⟨by rw [hd2]; exact h.1, h.2.trans hd1⟩
  | error e => exact ⟨h.1, by rw [← hfs]; exact h.2⟩

/-- the common prefix of `RemoveAll` and of its backup phase -/
def raPrefix (cfg : Cfg) (name : Path) : M (Path × Except Err Info) := do
  let r ← realPath cfg name
  let i ← attempt (primInfo cfg .base (.lstat r))
  pure (r, i)

/-- the directory branch of `RemoveAll`: the walk, then the directories deepest first -/
def raWalk (cfg : Cfg) (r : Path) : M Unit := do
  let res : M (List Path) := fun w =>
    match walkTree (worldWalkOps cfg .base) (removeAllFn cfg) 64 w [] r with
    | ((w', dirs), none) => (w', .ok dirs)
    | ((w', _), some e) => (w', .error e)
  let dirs ← res
  removeEach cfg (sortMost dirs)

theorem removeAll_exec_eq (cfg : Cfg) (name : Path) :
    Op.exec cfg (.removeAll name) = raPrefix cfg name >>= fun p =>
      (match p.2 with
       | .error e => if e.isNotFound then pure OpOut.unit else M.throw e
       | .ok fi =>
         if !fi.isDir then (do (prepare cfg p.1 >>= fun r => primUnit cfg .base (.remove r)); pure OpOut.unit)
         else (do raWalk cfg p.1; pure OpOut.unit) : M OpOut) := by
  funext w
  show (do BackupFS.removeAll cfg name; pure OpOut.unit : M OpOut) w = _
  unfold BackupFS.removeAll raPrefix
  simp only [M.bind_apply, attempt_apply, M.pure_apply]
  cases hrp : realPath cfg name w with
  | mk w1 r1 =>
    cases r1 with
    | error e => rfl
    | ok r =>
      simp only
      cases hls : primInfo cfg .base (.lstat r) w1 with
      | mk w2 r2 =>
        cases r2 with
        | error e =>
          simp only
          cases hnf : e.isNotFound with
          | true => simp only [if_true]; rfl
          | false => simp only [Bool.false_eq_true, if_false]; rfl
        | ok fi =>
          simp only
          cases hd : fi.isDir with
          | false =>
            simp only [Bool.not_false, if_true]
            unfold BackupFS.remove
            simp only [M.bind_apply]
            cases prepare cfg r w2 with
            | mk w3 r3 =>
              cases r3 with
              | error e => rfl
              | ok p =>
                simp only
                cases primUnit cfg .base (.remove p) w3 with
                | mk w4 r4 => cases r4 <;> rfl
          | true =>
            simp only [Bool.not_true, Bool.false_eq_true, if_false]
            rfl

theorem removeAll_phase_eq (cfg : Cfg) (name : Path) :
    Op.backupPhase cfg (.removeAll name) = raPrefix cfg name >>= fun p =>
      (match p.2 with
       | .error _ => pure ()
       | .ok fi => if !fi.isDir then (do let _ ← prepare cfg p.1; pure ()) else pure () : M Unit) := by
  funext w
  unfold Op.backupPhase raPrefix
  simp only [M.bind_apply, attempt_apply, M.pure_apply]
  cases hrp : realPath cfg name w with
  | mk w1 r1 =>
    cases r1 with
    | error e => rfl
    | ok r =>
      simp only
      cases hls : primInfo cfg .base (.lstat r) w1 with
      | mk w2 r2 =>
        cases r2 with
        | error e => rfl
        | ok fi => rfl

section
variable {bk kk : Key}
variable (hr : Roots bk kk) {v0 : View} {w : World} {name : Path} {k : Key}
include hr

/-- what the common prefix finds on a flat disk, healthy filesystems -/
theorem raPrefix_flat (hnf : w.faults = []) (hg : L.OSGoodL bk kk w.fs) (hflat : Flat bk w.fs) (hk : PKey k)
    (hname : clean name = kp k) :
    Sat (raPrefix (osCfg bk kk) name) w (fun w2 pr => SameFS w w2 ∧
      ((∃ n i, w.fs.get (bk ++ L.G.rk bk w k) = some n ∧ pr = .ok (kp (L.G.rk bk w k), .ok i) ∧ i.kind = n.kind) ∨
       (w.fs.get (bk ++ L.G.rk bk w k) = none ∧
          ∃ e, pr = .ok (kp (L.G.rk bk w k), .error e) ∧ e.isNotFound = true))) := by
  have hrk := L.G.rk_pkey hr hg hflat hk
  have hnl : L.NoLinkProper w.fs (bk ++ L.G.rk bk w k) :=
    fun p hp hne t mt => resK_nolink hg hflat k [] (noLinkUpto_root hg) p hp hne t mt
  unfold raPrefix
  apply Sat.bind
  apply (L.G.sat_realPath_flat hr hnf hg hflat hk hname).mono
  intro w1 r1 ⟨hs1, hr1⟩
  subst hr1
  simp only
  apply Sat.bind
  apply Sat.attempt
  apply (sat_lstat_nf hr (w := w1) (hs1.faults.trans hnf) (by rw [hs1.fs]; exact hg) hrk
    (by rw [hs1.fs]; exact hnl)).mono
  intro w2 r2 ⟨hs2, hres⟩
  apply Sat.pure
  refine ⟨hs1.trans hs2, ?_⟩
  rw [hs1.fs] at hres
  rcases hres with ⟨n, i, hget, hr2, hkind⟩ | ⟨hget, e, hr2, he⟩
  · subst hr2; exact Or.inl ⟨n, i, hget, rfl, hkind⟩
  · subst hr2; exact Or.inr ⟨hget, e, rfl, he⟩

theorem side_removeAll (m : MFS) (j : Key) (hj : PKey j) :
    (baseFS bk kk).call m (.removeAll (kp j)) =
      ((m.removeAll (kp (bk ++ j))).1, (m.removeAll (kp (bk ++ j))).2.map (fun _ => Ret.unit)) :=
  side_call_unit hr .base m (tr_removeAll hr.pb hj) (x := m.removeAll (kp (bk ++ j))) rfl

/-- `os.RemoveAll` of the caller's name when the resolved key holds a non-directory: as `os.Remove` of the
resolved name -/
theorem direct_removeAll_nondir {m : MFS} (hg : L.OSGoodL bk kk m) (hflat : Flat bk m) (hk : PKey k)
    (hname : clean name = kp k) (hlen : k.length ≤ 40) {n : Node}
    (hget : m.get (bk ++ resK m bk [] k) = some n) (hnd : n.isDir = false) :
    (directUnit (baseFS bk kk) m (.removeAll name)).2 =
        (directUnit (baseFS bk kk) m (.remove (kp (resK m bk [] k)))).2 ∧
      UEq bk (directUnit (baseFS bk kk) m (.remove (kp (resK m bk [] k)))).1
        (directUnit (baseFS bk kk) m (.removeAll name)).1 := by
  have hrk : PKey (resK m bk [] k) := resK_pkey hr.pb hg hflat k [] PKey.nil hk
  have hK : PKey (bk ++ resK m bk [] k) := hr.pb.append hrk
  have hKne : bk ++ resK m bk [] k ≠ [] := by simp [hr.nb]
  have hKne' : bk ++ k ≠ [] := by simp [hr.nb]
  have hfound : namei m (kp (bk ++ resK m bk [] k)) false = .found (bk ++ resK m bk [] k) n :=
    L.namei_found' m false hK (TextOf.kp _) hget (Or.inr rfl) (fun p hp hne => hg.ancestor hget hp hne)
  have hfound' : namei m (kp (bk ++ k)) false = .found (bk ++ resK m bk [] k) n := by
    rw [← namei_resK hr hg hflat hk hlen]; exact hfound
  rw [directUnit_snd, directUnit_snd, directUnit_fst, directUnit_fst,
    (base_call_spelling m hk hname).2.2.2.2.2.1, side_removeAll hr m k hk, side_remove hr m _ hrk]
  simp only
  have e1 : m.removeAll (kp (bk ++ k)) =
      ((m.removeSubtree (bk ++ resK m bk [] k)).touchDir (parentKey (bk ++ resK m bk [] k)), .ok ()) := by
    unfold MFS.removeAll
    simp only [kp_ne_nil, if_false, endsWithDot_kp (hr.pb.append hk) hKne', Bool.false_eq_true, hfound', hKne]
  have e2 : m.remove (kp (bk ++ resK m bk [] k)) =
      ((m.set (bk ++ resK m bk [] k) none).touchDir (parentKey (bk ++ resK m bk [] k)), .ok ()) := by
    unfold MFS.remove
    rw [hfound]
    simp only [hKne, if_false]
    cases n with
    | dir mt => cases hnd
    | file c mt => rfl
    | link t mt => rfl
  rw [e1, e2]
  refine ⟨rfl, UEq.touchDir ?_ _ _⟩
  refine ⟨?_, rfl⟩
  intro K' _
  rw [set_get, removeSubtree_get]
  by_cases hp : (bk ++ resK m bk [] k) <+: K'
  · rw [if_pos (List.isPrefixOf_iff_prefix.mpr hp)]
    split
    · rfl
    · rename_i hne
      rw [hg.below_nondir hp (fun e => hne e.symm) hget hnd]
  · have hne : K' ≠ bk ++ resK m bk [] k := fun e => hp (e ▸ List.prefix_rfl)
    rw [if_neg hne, if_neg (fun h => hp (List.isPrefixOf_iff_prefix.mp h))]

/-- `os.RemoveAll` of the caller's name when the resolved key holds nothing: nothing changes; nil, or a
not-found-class error other than ENOENT -/
theorem direct_removeAll_absent {m : MFS} (hg : L.OSGoodL bk kk m) (hflat : Flat bk m) (hk : PKey k)
    (hname : clean name = kp k) (hlen : k.length ≤ 40) (hget : m.get (bk ++ resK m bk [] k) = none) :
    (directUnit (baseFS bk kk) m (.removeAll name)).1 = m ∧
      ((directUnit (baseFS bk kk) m (.removeAll name)).2 = .ok .unit ∨
       ∃ e, (directUnit (baseFS bk kk) m (.removeAll name)).2 = .error e ∧ e.isNotFound = true) := by
  have hrk : PKey (resK m bk [] k) := resK_pkey hr.pb hg hflat k [] PKey.nil hk
  have hK : PKey (bk ++ resK m bk [] k) := hr.pb.append hrk
  have hKne' : bk ++ k ≠ [] := by simp [hr.nb]
  have hnl : L.NoLinkProper m (bk ++ resK m bk [] k) :=
    fun p hp hne t mt => resK_nolink hg hflat k [] (noLinkUpto_root hg) p hp hne t mt
  have hres := namei_resK hr hg hflat hk hlen
  rw [directUnit_snd, directUnit_fst,
    (base_call_spelling m hk hname).2.2.2.2.2.1, side_removeAll hr m k hk]
  simp only
  unfold MFS.removeAll
  simp only [kp_ne_nil, if_false, endsWithDot_kp (hr.pb.append hk) hKne', Bool.false_eq_true, ← hres]
  rcases L.namei_cases_nf hg hK hnl (TextOf.kp _) with ⟨n1, h1, _⟩ | ⟨_, _, _, _, hr1⟩ | ⟨e, _, _, _, hr1, he⟩
  · rw [hget] at h1; cases h1
  · rw [hr1]; exact ⟨rfl, Or.inl rfl⟩
  · rw [hr1]
    cases e with
    | notExist => exact ⟨rfl, Or.inl rfl⟩
    | notDir => exact ⟨rfl, Or.inr ⟨_, rfl, rfl⟩⟩
    | hiddenNotExist => exact ⟨rfl, Or.inr ⟨_, rfl, rfl⟩⟩
    | _ => cases he

/-- **`RemoveAll` of a name whose resolved key is not a directory** -/
theorem removeAll_transpU (hinv : L.Inv (osSimLR hr) v0 w) (hnf : w.faults = []) (hflat : Flat bk w.fs) (hk : PKey k)
    (hname : clean name = kp k) (hlen : k.length ≤ 40)
    (hlok : ∀ t mt, L.osViewL bk kk .base w.fs (L.G.rk bk w k) = some (.link t mt) →
      L.osLinkOK bk kk .base (L.G.rk bk w k) t)
    (hnd : ∀ mt, w.fs.get (bk ++ L.G.rk bk w k) ≠ some (.dir mt)) :
    Sat (Op.exec (osCfg bk kk) (.removeAll name)) w
      (fun w' res => TranspRA bk w ((Op.backupPhase (osCfg bk kk) (.removeAll name) w).2) w' res
        (Op.direct (baseFS bk kk) w.fs (.removeAll name))) := by
  have hg : L.OSGoodL bk kk w.fs := hinv.good
  have hrk := L.G.rk_pkey hr hg hflat hk
  have hacc := L.G.rk_noLinkAnc (kk := kk) hg hflat k
  have hpf := (raPrefix_flat hr hnf hg hflat hk hname).elim
  rw [removeAll_exec_eq, removeAll_phase_eq]
  unfold Sat
  simp only [M.bind_apply]
  revert hpf
  cases raPrefix (osCfg bk kk) name w with
  | mk w2 pr =>
    intro ⟨hs, hcases⟩
    rcases hcases with ⟨n, i, hget, hpr, hkind⟩ | ⟨hget, e, hpr, he⟩
    · -- a non-directory: `Remove` of the resolved name
      subst hpr
      have hnd' : n.isDir = false := by
        cases n with
        | dir mt => exact absurd hget (hnd mt)
        | file c mt => rfl
        | link t mt => rfl
      have hid : i.isDir = false := by
        unfold Info.isDir
        rw [hkind]
        cases n with
        | dir mt => cases hnd'
        | file c mt => rfl
        | link t mt => rfl
      simp only [hid, Bool.not_false, if_true]
      -- the inner `Remove` at `w2`, whose name `kp r` resolves to itself
      have hinv2 : L.Inv (osSimLR hr) v0 w2 := hinv.of_same hs
      have hnf2 : w2.faults = [] := hs.faults.trans hnf
      have hflat2 : Flat bk w2.fs := by rw [hs.fs]; exact hflat
      have hacc2 : L.NoLinkAnc ((osSimLR hr).view .base w2.fs) (L.G.rk bk w k) := by
        show L.NoLinkAnc (L.osViewL bk kk .base w2.fs) _
        rw [hs.fs]; exact hacc
      have hid2 : L.G.rk bk w2 (L.G.rk bk w k) = L.G.rk bk w k :=
        L.G.rk_id (hbk := hr.pb) (hkk := hr.pk) (hne1 := hr.nb) (hne2 := hr.nk) (hd1 := hr.d1) (hd2 := hr.d2)
          hinv2.good hacc2
      have hnl2 : L.NoLinkProper w2.fs (bk ++ L.G.rk bk w k) := by
        rw [hs.fs]
        exact fun p hp hne t mt => resK_nolink hg hflat k [] (noLinkUpto_root hg) p hp hne t mt
      have h := (single_transpU hr (c := fun r => .remove r) (name := kp (L.G.rk bk w k)) hinv2 hnf2 hflat2 hrk
        (clean_kp hrk)
        (by rw [hid2, hs.fs]; exact hlok)
        (fun m => rfl)
        (fun m2 hg2 hb => by
          rw [hid2]
          exact callRelU_of_sys (c := fun r => .remove r) (sys := fun m p => m.remove p)
            (fun m j hj => side_remove hr m j hj) hrk hrk
            (remove_rel hinv2.good hg2 hb (nrel_same_text hr hinv2.good hg2 hb hrk hnl2)))).elim
      have hd := direct_removeAll_nondir hr hg hflat hk hname hlen hget hnd'
      have hph : ((do let _ ← prepare (osCfg bk kk) (kp (L.G.rk bk w k)); pure () : M Unit) w2).2 =
          (prepare (osCfg bk kk) (kp (L.G.rk bk w k)) w2).2.map (fun _ => ()) := prepPhase_snd _ _ _
      rw [hph]
      apply TranspU.toRA
      refine TranspU.transfer h hs.fs ?_ ?_
      · rw [hs.fs]; exact hd.1
      · rw [hs.fs]; exact hd.2
    · -- nothing there
      subst hpr
      simp only [he, if_true]
      obtain ⟨hd1, hd2⟩ := direct_removeAll_absent hr hg hflat hk hname hlen hget
      show TranspRA bk w (.ok ()) w2 (.ok OpOut.unit) _
      refine ⟨?_, ?_⟩
      · rcases hd2 with h | ⟨e', h, he'⟩
        · left
          show ResAgreeU (.ok OpOut.unit) (Op.direct (baseFS bk kk) w.fs (.removeAll name)).2
          have : (Op.direct (baseFS bk kk) w.fs (.removeAll name)).2 = .ok .unit := h
          rw [this]
          trivial
        · right
          exact ⟨⟨_, rfl⟩, e', h, he'⟩
      · show UEq bk w2.fs (directUnit (baseFS bk kk) w.fs (.removeAll name)).1
        rw [hd1, hs.fs]
        exact UEq.refl bk _

end

end U
end BFS
