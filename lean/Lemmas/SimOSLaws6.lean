import Lemmas.SimOSLaws5
/-!
  Lemmas/SimOSLaws6.lean — `Rename`.
-/
namespace BFS
open MFS

section
variable {bk kk : Key}

/-- what a successful `rename(2)` leaves behind -/
theorem move_ok {m : MFS} (s : Side) {ko kn : Key} {no : Node} (hr : Roots bk kk) (hg : OSGood bk kk m)
    (_hko : PKey ko) (hkn : PKey kn)
    (hsrc : m.get (osRoot bk kk s ++ ko) = some no)
    (hnp : ¬ osRoot bk kk s ++ ko <+: osRoot bk kk s ++ kn)
    (hpar : ∃ mt, m.get (osRoot bk kk s ++ kn).dropLast = some (.dir mt))
    (hknne : kn ≠ [])
    (hleafn : ∀ x, x ≠ [] → m.get (osRoot bk kk s ++ kn ++ x) = none) (P1 P2 : Key) :
    OSGood bk kk (((m.moveSubtree (osRoot bk kk s ++ ko) (osRoot bk kk s ++ kn)).touchDir P1).touchDir P2) ∧
    EqOffTree m (((m.moveSubtree (osRoot bk kk s ++ ko) (osRoot bk kk s ++ kn)).touchDir P1).touchDir P2) (osRoot bk kk s) ∧
    ((∀ x, x ≠ [] → m.get (osRoot bk kk s ++ ko ++ x) = none) →
      ∀ K', K' ≠ osRoot bk kk s ++ ko → K' ≠ osRoot bk kk s ++ kn →
        ((((m.moveSubtree (osRoot bk kk s ++ ko) (osRoot bk kk s ++ kn)).touchDir P1).touchDir P2).get K').map eraseMt =
          (m.get K').map eraseMt) := by
  have hkone : ko ≠ [] := by
    intro e
    apply hnp
    rw [e, List.append_nil]
    exact List.prefix_append _ _
  obtain ⟨hb1, hk1⟩ := not_prefix_roots (s := s) hr hkone
  obtain ⟨hb2, hk2⟩ := not_prefix_roots (s := s) hr hknne
  have hs : bk <+: osRoot bk kk s ++ ko ∨ kk <+: osRoot bk kk s ++ ko := by
    cases s
    · exact Or.inl (List.prefix_append _ _)
    · exact Or.inr (List.prefix_append _ _)
  have hgood := good_moveSubtree hg ((hr.pkey s).append hkn) (by simp [hknne]) hpar hnp hb1 hk1 hb2 hk2 hs
  refine ⟨good_touchDir (good_touchDir hgood _) _, ?_, ?_⟩
  · intro K' hK'
    rw [touchDir_erase, touchDir_erase, moveSubtree_get_other]
    · intro e; exact hK' (List.IsPrefix.trans (List.prefix_append _ _) e)
    · intro e; exact hK' (List.IsPrefix.trans (List.prefix_append _ _) e)
  · intro hleafo K' h1 h2
    rw [touchDir_erase, touchDir_erase]
    by_cases hn : osRoot bk kk s ++ kn <+: K'
    · obtain ⟨x, rfl⟩ := hn
      have hx : x ≠ [] := by
        intro e; apply h2; rw [e, List.append_nil]
      rw [moveSubtree_get_under, hleafo x hx, hleafn x hx]
    · by_cases ho : osRoot bk kk s ++ ko <+: K'
      · obtain ⟨x, rfl⟩ := ho
        have hx : x ≠ [] := by
          intro e; apply h1; rw [e, List.append_nil]
        rw [moveSubtree_get_old m hn (List.prefix_append _ _), hleafo x hx]
      · rw [moveSubtree_get_other m hn ho]

theorem rename_spec {m m' : MFS} (s : Side) {ko kn : Key} {r : Except Err Unit} (hr : Roots bk kk)
    (hg : OSGood bk kk m) (hko : PKey ko) (hkn : PKey kn)
    (h : m.rename (kp (osRoot bk kk s ++ ko)) (kp (osRoot bk kk s ++ kn)) = (m', r)) :
    OSGood bk kk m' ∧ EqOffTree m m' (osRoot bk kk s) ∧
    ((∀ x, x ≠ [] → m.get (osRoot bk kk s ++ ko ++ x) = none) →
      ∀ K', K' ≠ osRoot bk kk s ++ ko → K' ≠ osRoot bk kk s ++ kn →
        (m'.get K').map eraseMt = (m.get K').map eraseMt) := by
  have hsame : OSGood bk kk m ∧ EqOffTree m m (osRoot bk kk s) ∧
    ((∀ x, x ≠ [] → m.get (osRoot bk kk s ++ ko ++ x) = none) →
      ∀ K', K' ≠ osRoot bk kk s ++ ko → K' ≠ osRoot bk kk s ++ kn →
        (m.get K').map eraseMt = (m.get K').map eraseMt) := ⟨hg, fun _ _ => rfl, fun _ _ _ _ => rfl⟩
  unfold MFS.rename at h
  simp only at h
  rcases namei_below s hr hg hkn false with ⟨nn, hnn, hnnl, hresn⟩ | ⟨hnen, mtn, hnn, hpn, hresn⟩ | ⟨en, hnen, hnn, hpn, hresn, hen⟩ <;>
  rcases namei_below s hr hg hko false with ⟨no, hno, hnol, hreso⟩ | ⟨hneo, mto, hno, hpo, hreso⟩ | ⟨eo, hneo, hno, hpo, hreso, heo⟩ <;>
  rw [hresn, hreso] at h <;> simp only at h
  · -- found, found
    cases nn with
    | link t mt => cases hnnl
    | dir mt =>
      simp only at h
      have hc : ¬ (osRoot bk kk s ++ ko = osRoot bk kk s ++ kn ∧
          kp (osRoot bk kk s ++ ko) ≠ kp (osRoot bk kk s ++ kn)) := fun hc => hc.2 (congrArg kp hc.1)
      rw [if_neg hc] at h
      simp only at h; cases h; exact hsame
    | file c mt =>
      simp only at h
      split at h
      · cases h; exact hsame
      split at h
      · cases h; exact hsame
      split at h
      · cases h; exact hsame
      split at h
      · cases h; exact hsame
      split at h
      · cases h; exact hsame
      rename_i _ hpre _ _ _
      cases h
      have hknne : kn ≠ [] := by
        intro e
        obtain ⟨rmt, hrd⟩ := hg.rdir s
        rw [e, List.append_nil, hrd] at hnn
        cases hnn
      exact move_ok s hr hg hko hkn hno (fun e => hpre (List.isPrefixOf_iff_prefix.mpr e))
        (hg.parent _ _ hnn (by simp [hknne])) hknne
        (fun x hx => hg.below_nondir (List.prefix_append _ _) (by simp [hx]) hnn rfl) _ _
  · cases nn <;> simp only at h <;> cases h <;> exact hsame
  · cases nn <;> simp only at h <;> cases h <;> exact hsame
  · -- missing, found
    simp only [dropLast_append_getLast' hnen] at h
    split at h
    · cases h; exact hsame
    rename_i hpre
    cases h
    have hknne : kn ≠ [] := key_ne_of_none hg hnn
    exact move_ok s hr hg hko hkn hno (fun e => hpre (List.isPrefixOf_iff_prefix.mpr e))
      ⟨mtn, hpn⟩ hknne
      (fun x _ => hg.below_none (List.prefix_append _ _) hnn) _ _
  · cases h; exact hsame
  · cases h; exact hsame
  · cases h; exact hsame
  · cases h; exact hsame
  · cases h; exact hsame

theorem leaf_of_view {m : MFS} {s : Side} {ko : Key} (hg : OSGood bk kk m)
    (hc : ¬ ((osView bk kk s m).isDirAt ko ∧ (osView bk kk s m).hasChild ko)) :
    ∀ x, x ≠ [] → m.get (osRoot bk kk s ++ ko ++ x) = none := by
  intro x hx
  cases h0 : m.get (osRoot bk kk s ++ ko) with
  | none => exact hg.below_none (List.prefix_append _ _) h0
  | some n =>
    cases hd : n.isDir with
    | false => exact hg.below_nondir (List.prefix_append _ _) (by simp [hx]) h0 hd
    | true =>
      obtain ⟨mt, rfl⟩ := isDir_true hd
      cases x with
      | nil => exact absurd rfl hx
      | cons c x' =>
        have hcn : m.get (osRoot bk kk s ++ ko ++ [c]) = none := by
          cases hcc : m.get (osRoot bk kk s ++ ko ++ [c]) with
          | none => rfl
          | some n' =>
            exfalso
            apply hc
            refine ⟨osView_isDirAt_of h0, c, ?_⟩
            rw [osView_eq, ← List.append_assoc, hcc]
            simp
        apply hg.below_none (p := osRoot bk kk s ++ ko ++ [c]) ?_ hcn
        exact ⟨x', by simp⟩

theorem os_rename_frame {m m' : MFS} {s : Side} {ko kn : Key} {r : Except Err Ret} (hr : Roots bk kk)
    (hg : OSGood bk kk m) (hko : PKey ko) (hkn : PKey kn)
    (h : ((osCfg bk kk).side s).call m (.rename (kp ko) (kp kn)) = (m', r)) :
    OSGood bk kk m' ∧ osView bk kk s.other m' = osView bk kk s.other m ∧
      (¬ ((osView bk kk s m).isDirAt ko ∧ (osView bk kk s m).hasChild ko) →
        ∀ j, j ≠ ko → j ≠ kn → osView bk kk s m' j = osView bk kk s m j) := by
  obtain ⟨h1, _⟩ := unit_call_state (x := m.rename (kp (osRoot bk kk s ++ ko)) (kp (osRoot bk kk s ++ kn))) hr
    (tr_rename (hr.pkey s) hko hkn) rfl h
  obtain ⟨g1, g2, g3⟩ := rename_spec s hr hg hko hkn h1
  refine ⟨g1, ?_, ?_⟩
  · funext x
    exact g2 _ (hr.not_under s x)
  · intro hc j hj1 hj2
    exact g3 (leaf_of_view hg hc) _ (fun e => hj1 (List.append_cancel_left e)) (fun e => hj2 (List.append_cancel_left e))

end
end BFS
