import Lemmas.TRA1
import Lemmas.HiddenRA
/-!
  Lemmas/TRA2.lean — `RemoveAll` (C03), part 2: the walk of `BackupFS.RemoveAll` over a healthy
  `World` runs in lock-step with the walk of `HiddenFS.RemoveAll` with nothing hidden over the base
  filesystem on a disk with the same base view (the instance of `walkTree_sim`), and so does the final
  loop removing the collected directories.
-/
namespace BFS
open BackupFS MFS

section
variable {bk kk : Key}

/-- the paths the walk handles: key paths other than the root -/
def GoodP (p : Path) : Prop := ∃ j, PKey j ∧ j ≠ [] ∧ p = kp j

/-- the relation kept by the lock-step run: the world satisfies the invariant, its disk and the
other disk have the same base view, the other disk has umask `u0`, every collected directory is a
key path -/
def WR (hr : Roots bk kk) (v0 : View) (r0 : Option Node) (u0 : Nat) (w : World) (m : MFS) (a : List Path) : Prop :=
  InvB (osSimR hr) v0 r0 w ∧ Twin bk kk w.fs m ∧ m.umask = u0 ∧ ∀ p ∈ a, GoodP p

variable (hr : Roots bk kk) {v0 : View} {r0 : Option Node} {u0 : Nat}

theorem WR.same {w w' : World} {m : MFS} {a : List Path} (h : WR hr v0 r0 u0 w m a) (hs : SameFS w w') :
    WR hr v0 r0 u0 w' m a :=
  ⟨(AdvB.of_same h.1 hs).inv, by rw [hs.fs]; exact h.2.1, h.2.2.1, h.2.2.2⟩

theorem lstatSim : LstatSim (WR hr v0 r0 u0) GoodP (worldWalkOps (osCfg bk kk) .base) (fsiWalkOps (baseFS bk kk)) := by
  intro w m a p hR hp
  obtain ⟨j, hj, _, rfl⟩ := hp
  obtain ⟨p1, p2, hcase⟩ := base_lstat_rel hr hR.2.1 hj
  obtain ⟨hs, hres⟩ := worldLstat_nf (cfg := osCfg bk kk) hR.1.nofault (kp j) p1
  have e0 : (fsiWalkOps (baseFS bk kk)).lstat = fsiLstat (baseFS bk kk) := rfl
  rw [e0]
  have hf1 : (fsiLstat (baseFS bk kk) m (kp j)).1 = m := by
    unfold fsiLstat
    cases hc : (baseFS bk kk).call m (.lstat (kp j)) with
    | mk m' r =>
      rw [hc] at p2
      simp only at p2
      subst p2
      cases r with
      | error e => rfl
      | ok ret => cases ret <;> rfl
  rw [hf1]
  refine ⟨hR.same hr hs, ?_⟩
  rw [hres]
  unfold fsiLstat
  rcases hcase with ⟨i1, i2, e1, e2, hd⟩ | ⟨e, e1, e2⟩
  · left
    refine ⟨i1, i2, ?_, ?_, hd⟩
    · cases hc : (baseFS bk kk).call w.fs (.lstat (kp j)) with
      | mk m' r => rw [hc] at e1; simp only at e1; subst e1; rfl
    · cases hc : (baseFS bk kk).call m (.lstat (kp j)) with
      | mk m' r => rw [hc] at e2; simp only at e2; subst e2; rfl
  · right
    refine ⟨e, e, ?_, ?_⟩
    · cases hc : (baseFS bk kk).call w.fs (.lstat (kp j)) with
      | mk m' r => rw [hc] at e1; simp only at e1; subst e1; rfl
    · cases hc : (baseFS bk kk).call m (.lstat (kp j)) with
      | mk m' r => rw [hc] at e2; simp only at e2; subst e2; rfl

theorem readSim : ReadSim (WR hr v0 r0 u0) GoodP (worldWalkOps (osCfg bk kk) .base) (fsiWalkOps (baseFS bk kk)) := by
  intro w m a p hR hp
  obtain ⟨j, hj, hjne, rfl⟩ := hp
  obtain ⟨p1, p2, hres, hpl⟩ := fsiReadDirNames_rel hr hR.2.1 hj
  obtain ⟨q1, _, _, _⟩ := base_open_rel hr hR.2.1 hj
  obtain ⟨hs, hw⟩ := worldReadDir_nf (cfg := osCfg bk kk) hR.1.nofault (kp j) q1
  have e0 : (fsiWalkOps (baseFS bk kk)).readDirNames = fsiReadDirNames (baseFS bk kk) := rfl
  rw [e0, p2]
  refine ⟨hR.same hr hs, ?_⟩
  rw [hw, ← hres]
  cases hc : (fsiReadDirNames (baseFS bk kk) w.fs (kp j)).2 with
  | error e => exact Or.inr ⟨e, e, rfl, rfl⟩
  | ok ns =>
    left
    refine ⟨ns, rfl, rfl, ?_⟩
    intro n hn
    have hpn := hpl ns hc n hn
    exact ⟨j ++ [n], hj.snoc hpn, by simp, join_kp hj hpn⟩

theorem isHidden_nil (p : Path) : HiddenFS.isHidden p [] = .ok false := by
  unfold HiddenFS.isHidden
  simp

theorem isParentOfHidden_nil (p : Path) : HiddenFS.isParentOfHidden p [] = .ok false := by
  unfold HiddenFS.isParentOfHidden
  simp

/-- one `Remove` through BackupFS against the base `Remove` on the other disk -/
theorem remove_step {w : World} {m : MFS} {a : List Path} {j : Key} (hR : WR hr v0 r0 u0 w m a) (hj : PKey j)
    (hjne : j ≠ []) :
    let x := BackupFS.remove (osCfg bk kk) (kp j) w
    let y := (baseFS bk kk).call m (.remove (kp j))
    UnitAgree x.2 y.2 ∧ WR hr v0 r0 u0 x.1 y.1 a := by
  intro x y
  have h1 := (single_core hr (c := fun r => .remove r) hR.1 hR.2.1 hj (clean_kp hj)
    (fun _ => rfl) (fun _ _ h => base_remove_rel hr h hj hjne)
    (fun _ hg hf => (base_call_fileAnc hr hg hj hf).2.2.2.2.1)).elim
  have h2 := (sat_removeB (cfg := osCfg bk kk) (S := osSimR hr) hR.1 hj hjne (clean_kp hj)).elim
  have hu := (osCfg_keeps_umask bk kk).call .base m (.remove (kp j))
  exact ⟨h1.1, h2.inv, h1.2, hu.trans hR.2.2.1, hR.2.2.2⟩

theorem fnSim : FnSim (WR hr v0 r0 u0) GoodP (removeAllFn (osCfg bk kk)) (hiddenRemoveFn [] (baseFS bk kk)) := by
  intro w m a p i1 i2 hR hp hd
  obtain ⟨j, hj, hjne, rfl⟩ := hp
  unfold removeAllFn hiddenRemoveFn
  simp only [isHidden_nil, hd]
  split
  · intro _
    refine ⟨rfl, rfl, hR.1, hR.2.1, hR.2.2.1, ?_⟩
    intro q hq
    rcases List.mem_append.mp hq with hq | hq
    · exact hR.2.2.2 q hq
    · simp only [List.mem_singleton] at hq
      exact ⟨j, hj, hjne, hq⟩
  · have htr : HiddenFS.translate [] (.remove (kp j)) = .ok (.remove (kp j)) :=
      translate_remove_visible (isHidden_nil _)
    simp only [htr]
    obtain ⟨hag, hR'⟩ := remove_step hr hR hj hjne
    cases hx : BackupFS.remove (osCfg bk kk) (kp j) w with
    | mk w' r =>
      cases hy : (baseFS bk kk).call m (.remove (kp j)) with
      | mk m' r' =>
        rw [hx, hy] at hag hR'
        simp only at hag hR'
        cases r' with
        | error e => intro h; cases h
        | ok ret =>
          cases r with
          | error e => exact absurd hag id
          | ok u => intro _; exact ⟨rfl, rfl, hR'⟩

theorem fnErr : FnErr (σ₂ := MFS) (hiddenRemoveFn [] (baseFS bk kk)) := by
  intro s a p oi e
  rw [hiddenRemoveFn_err]
  simp

/-- the walks in lock-step -/
theorem removeAll_walk_sim {w : World} {m : MFS} {j : Key} (hR : WR hr v0 r0 u0 w m []) (hj : PKey j) (hjne : j ≠ []) :
    OutSim (WR hr v0 r0 u0)
      (walkTree (worldWalkOps (osCfg bk kk) .base) (removeAllFn (osCfg bk kk)) 64 w [] (kp j))
      (walkTree (fsiWalkOps (baseFS bk kk)) (hiddenRemoveFn [] (baseFS bk kk)) 64 m [] (kp j)) :=
  walkTree_sim (lstatSim hr) (readSim hr) (fnSim hr) fnErr 64 hR ⟨j, hj, hjne, rfl⟩

/-- the loop removing the collected directories, in lock-step -/
theorem removeEach_sim : ∀ (ds : List Path) (w : World) (m : MFS), WR hr v0 r0 u0 w m [] → (∀ p ∈ ds, GoodP p) →
    (hiddenRemoveDirs [] (baseFS bk kk) m ds).2 = .ok () →
    (removeEach (osCfg bk kk) ds w).2 = .ok () ∧
      WR hr v0 r0 u0 (removeEach (osCfg bk kk) ds w).1 (hiddenRemoveDirs [] (baseFS bk kk) m ds).1 []
  | [], w, m, hR, _, _ => by
    rw [removeEach, hiddenRemoveDirs]
    exact ⟨rfl, hR⟩
  | d :: ds, w, m, hR, hg, hok => by
    obtain ⟨j, hj, hjne, rfl⟩ := hg d (by simp)
    rw [hiddenRemoveDirs] at hok ⊢
    simp only [isParentOfHidden_nil] at hok ⊢
    obtain ⟨hag, hR'⟩ := remove_step hr hR hj hjne
    rw [removeEach, M.bind_apply]
    cases hx : BackupFS.remove (osCfg bk kk) (kp j) w with
    | mk w' r =>
      cases hy : (baseFS bk kk).call m (.remove (kp j)) with
      | mk m' r' =>
        rw [hx, hy] at hag hR'
        rw [hy] at hok
        simp only at hag hR' hok ⊢
        cases r' with
        | error e => cases hok
        | ok ret =>
          cases r with
          | error e => exact absurd hag id
          | ok u =>
            simp only at hok ⊢
            exact removeEach_sim ds w' m' hR' (fun p hp => hg p (List.mem_cons_of_mem _ hp)) hok

end

end BFS
