import Lemmas.LFPhase34
import Lemmas.LTx
/-!
  Lemmas/LFRollback.lean — `Rollback` over an `LSim` (trees with symlinks as leaves) under an
  ARBITRARY fault plan: whenever it reports success (`.ok false`), every key of the base view
  except the root is back to what it was when the transaction began — keys that originally held a
  symlink included.  The clean-up half (phases 5–7) never touches the base, whatever fails.
-/
namespace BFS
namespace L
open BackupFS

variable {cfg : Cfg} {S : LSim cfg} {v0 : View}

/-! ### phases 5–7 under faults: the clean-up of the backup does not touch the base -/

/-- what the clean-up of the backup keeps, whatever fails: disk well-formed, base view; and the
backup view gains no symlink and no symlink changes its target (so that the `Remove`s of the
backup copies are never redirected) -/
structure FinF (S : LSim cfg) (w : World) (vb : View) (w' : World) : Prop where
  good : S.G w'.fs
  base : S.view .base w'.fs = vb
  bklinks : LinkMono (S.view .backup w.fs) (S.view .backup w'.fs)

theorem sat_cleanupActF {w0 w : World} {vb : View} {k : Key} (h : FinF S w0 vb w) (hk : PKey k) (hne : k ≠ [])
    (hacc0 : NoLinkAnc (S.view .backup w0.fs) k) :
    Sat (cleanupAct cfg (kp k)) w (fun w' _ => FinF S w0 vb w') := by
  have hacc : NoLinkAnc (S.view .backup w.fs) k := h.bklinks.noLinkAnc hacc0
  unfold cleanupAct
  apply Sat.bind
  apply (sat_lexistsF (S := S) (s := .backup) h.good hk hacc).mono
  intro w1 r1 ⟨hs1, _, _⟩
  have h1 : FinF S w0 vb w1 := ⟨hs1.fs ▸ h.good, by rw [hs1.fs]; exact h.base, by rw [hs1.fs]; exact h.bklinks⟩
  cases r1 with
  | error e => exact h1
  | ok o =>
    cases o with
    | none => exact Sat.pure h1
    | some i =>
      simp only
      apply (sat_primUnit_chg (S := S) (s := .backup) (K := (· = k)) h1.good (fun m' r hc => by
        obtain ⟨g, o, f, lm⟩ := S.remove_frame h1.good hk hne (by rw [hs1.fs]; exact hacc) hc
        exact ⟨g, o, fun j hj => f j hj, lm⟩)).mono
      intro w2 _ hc
      exact ⟨hc.good, hc.other.trans h1.base, h1.bklinks.trans hc.links⟩

theorem sat_removeBackupPathsF {w0 w : World} {vb : View} {ps : List Path} (h : FinF S w0 vb w)
    (hps : ∀ p ∈ ps, ∃ k, PKey k ∧ k ≠ [] ∧ p = kp k ∧ NoLinkAnc (S.view .backup w0.fs) k) :
    Sat (removeBackupPaths cfg ps) w (fun w' _ => FinF S w0 vb w') := by
  unfold removeBackupPaths
  apply sat_forEach_any (P := FinF S w0 vb) _ w h
  intro x hx w' h'
  obtain ⟨k, hk, hne, rfl, hacc⟩ := hps x ((sortBy_perm _ ps).mem_iff.mp hx)
  exact sat_cleanupActF h' hk hne hacc

/-! ### Rollback under any fault plan: success means restored -/

/-- C09 (Rollback, symlinks as leaves): from a state satisfying the transaction invariant, under
ANY fault plan, if Rollback reports no error then every key of the base view except the root is
back to its original node (symlinks included), and the backup view has gained no symlink -/
theorem sat_rollbackF {w : World} (hinv : Inv S v0 w) :
    Sat (rollback cfg) w (fun w' r => r = .ok false →
      S.G w'.fs ∧ (∀ k, k ≠ [] → S.view .base w'.fs k = v0 k) ∧
        LinkMono (S.view .backup w.fs) (S.view .backup w'.fs)) := by
  unfold rollback
  apply Sat.bind
  apply Sat.getW
  simp only
  apply Sat.bind
  -- the first loop
  have hc1 := (sat_classifyF (cfg := cfg) (S := S) w.infos {} w hinv.good hinv.keys (by
    intro p oi hm k hk hp
    subst hp
    apply hinv.blink k hk
    unfold Tracked
    rw [hinv.mem_iff.mp hm]; simp)).elim
  have hc2 := (sat_classify_nd (cfg := cfg) w.infos {} w hinv.nodup
    ⟨List.nodup_nil, List.nodup_nil, List.nodup_nil, List.nodup_nil, (by intro p h; cases h),
      (by intro p h; cases h), (by intro p h; cases h), (by intro p h; cases h)⟩).elim
  cases hrun : classify cfg w.infos {} w with
  | mk w1 r1 =>
    rw [hrun] at hc1 hc2
    obtain ⟨hs1, pl, hr1, hcl⟩ := hc1
    subst hr1
    have hpnd := hc2 pl rfl
    apply Sat.of_eq hrun
    simp only
    -- the plan, in terms of keys (when no existence check failed)
    have hrb : pl.failed = false →
        ∀ p, p ∈ pl.removeBase ↔ ∃ k, PKey k ∧ p = kp k ∧ TN w k ∧ S.view .base w.fs k ≠ none := by
      intro hfl p
      rw [(hcl hfl).removeBase p]
      constructor
      · rintro (h | ⟨k, hk, rfl, hm, hp⟩)
        · cases h
        · exact ⟨k, hk, rfl, hinv.mem_iff.mp hm, hp⟩
      · rintro ⟨k, hk, rfl, htn, hp⟩
        exact Or.inr ⟨k, hk, rfl, hinv.mem_iff.mpr htn, hp⟩
    have hds : pl.failed = false → ∀ p, p ∈ pl.dirs ↔ ∃ k, PKey k ∧ p = kp k ∧ TSDir w k := by
      intro hfl p
      rw [(hcl hfl).dirs p]
      constructor
      · rintro (h | ⟨i, hm, hroot, hkind⟩)
        · cases h
        · obtain ⟨k, hk, rfl⟩ := hinv.keys p (some i) hm
          exact ⟨k, hk, rfl, fun e => hroot ((kp_eq_root_iff hk).mpr e), i, hinv.mem_iff.mp hm, hkind⟩
      · rintro ⟨k, hk, rfl, hne, i, hts, hkind⟩
        exact Or.inr ⟨i, hinv.mem_iff.mpr hts, fun e => hne ((kp_eq_root_iff hk).mp e), hkind⟩
    have hfs : pl.failed = false → ∀ p, p ∈ pl.files ↔ ∃ k, PKey k ∧ p = kp k ∧ TSFile w k := by
      intro hfl p
      rw [(hcl hfl).files p]
      constructor
      · rintro (h | ⟨i, hm, hroot, hkind⟩)
        · cases h
        · obtain ⟨k, hk, rfl⟩ := hinv.keys p (some i) hm
          exact ⟨k, hk, rfl, i, hinv.mem_iff.mp hm, hkind⟩
      · rintro ⟨k, hk, rfl, i, hts, hkind⟩
        exact Or.inr ⟨i, hinv.mem_iff.mpr hts,
          fun e => hinv.tsfile_ne_root hk ⟨i, hts, hkind⟩ ((kp_eq_root_iff hk).mp e), hkind⟩
    have hls : pl.failed = false → ∀ p, p ∈ pl.links ↔ ∃ k, PKey k ∧ p = kp k ∧ TSLink w k := by
      intro hfl p
      rw [(hcl hfl).links p]
      constructor
      · rintro (h | ⟨i, hm, hroot, hkind⟩)
        · cases h
        · obtain ⟨k, hk, rfl⟩ := hinv.keys p (some i) hm
          exact ⟨k, hk, rfl, i, hinv.mem_iff.mp hm, hkind⟩
      · rintro ⟨k, hk, rfl, i, hts, hkind⟩
        exact Or.inr ⟨i, hinv.mem_iff.mpr hts,
          fun e => hinv.tslink_ne_root hk ⟨i, hts, hkind⟩ ((kp_eq_root_iff hk).mp e), hkind⟩
    -- phase 1
    apply Sat.bind
    apply (Sat.cond (pl.failed = false)
      (fun hfl => phase1F (cfg := cfg) hinv hs1 pl.removeBase (hrb hfl) hpnd.rb)).mono
    intro w2 r2 h2
    cases r2 with
    | error e => intro h; cases h
    | ok e1 =>
    simp only
    -- phase 2
    apply Sat.bind
    apply (Sat.cond (pl.failed = false ∧ e1 = false)
      (fun hp => phase2F (cfg := cfg) hinv (h2 hp.1 (by rw [hp.2])) pl.dirs (hds hp.1) hpnd.ds)).mono
    intro w3 r3 h3
    cases r3 with
    | error e => intro h; cases h
    | ok e2 =>
    simp only
    -- phase 3
    apply Sat.bind
    apply (Sat.cond ((pl.failed = false ∧ e1 = false) ∧ e2 = false)
      (fun hp => phase3F (cfg := cfg) hinv (h3 hp.1 (by rw [hp.2])) pl.files (hfs hp.1.1) hpnd.fs)).mono
    intro w4 r4 h4
    cases r4 with
    | error e => intro h; cases h
    | ok e3 =>
    simp only
    -- phase 4
    apply Sat.bind
    apply (Sat.cond (((pl.failed = false ∧ e1 = false) ∧ e2 = false) ∧ e3 = false)
      (fun hp => phase4F (cfg := cfg) hinv (h4 hp.1 (by rw [hp.2])) pl.links (hls hp.1.1.1) hpnd.ls)).mono
    intro w5 r5 h5
    cases r5 with
    | error e => intro h; cases h
    | ok e4 =>
    simp only
    -- what has been reached if everything went well so far
    have hend : (((pl.failed = false ∧ e1 = false) ∧ e2 = false) ∧ e3 = false) ∧ e4 = false →
        ∀ w' : World, S.view .base w'.fs = S.view .base w5.fs → ∀ k, k ≠ [] → S.view .base w'.fs k = v0 k := by
      intro hp w' hf k hkne
      have hm5 := h5 hp.1 (by rw [hp.2])
      rw [hf]
      by_cases hD : PKey k ∧ (TN w k ∨ TSDir w k ∨ TSFile w k ∨ TSLink w k)
      · exact hm5.done k hD
      · rw [hm5.rest k hD]
        by_cases hk : PKey k
        · rcases tracked_cases w k with hu | htn | ⟨i, hts⟩
          · exact hinv.frame k hk hu
          · exact absurd ⟨hk, Or.inl htn⟩ hD
          · exact absurd ⟨hk, Or.inr (ts_kind hts hkne)⟩ hD
        · have h1 : S.view .base w.fs k = none := by
            apply Classical.byContradiction
            intro h; exact hk (S.pkey hinv.good h)
          have h2 : v0 k = none := by
            apply Classical.byContradiction
            intro h; exact hk (hinv.v0_pkey h)
          rw [h1, h2]
    -- abbreviations for the rest: `P` = everything went well so far
    generalize hP : ((((pl.failed = false ∧ e1 = false) ∧ e2 = false) ∧ e3 = false) ∧ e4 = false) = P at hend
    have hPf : P → pl.failed = false := by intro hp; rw [← hP] at hp; exact hp.1.1.1.1
    have hfin5 : P → FinF S w (S.view .base w5.fs) w5 := by
      intro hp; rw [← hP] at hp
      have hm5 := h5 hp.1 (by rw [hp.2])
      exact ⟨hm5.good, rfl, LinkMono.of_eq hm5.backup⟩
    -- phase 5
    apply Sat.bind
    apply (Sat.cond P (fun hp => sat_removeBackupPathsF (cfg := cfg) (S := S) (ps := pl.links) (hfin5 hp) (by
      intro p hp'
      obtain ⟨k, hk, rfl, hf⟩ := (hls (hPf hp) p).mp hp'
      obtain ⟨i, hts, _⟩ := id hf
      exact ⟨k, hk, hinv.tslink_ne_root hk hf, rfl, hinv.backup_noLinkAnc_ts hk hts⟩))).mono
    intro w6 r6 hf6
    cases r6 with
    | error e => intro h; cases h
    | ok e5 =>
    simp only
    -- phase 6
    apply Sat.bind
    apply (Sat.cond P (fun hp => sat_removeBackupPathsF (cfg := cfg) (S := S) (ps := pl.files) (hf6 hp) (by
      intro p hp'
      obtain ⟨k, hk, rfl, hf⟩ := (hfs (hPf hp) p).mp hp'
      obtain ⟨i, hts, _⟩ := id hf
      exact ⟨k, hk, hinv.tsfile_ne_root hk hf, rfl, hinv.backup_noLinkAnc_ts hk hts⟩))).mono
    intro w7 r7 hf7
    cases r7 with
    | error e => intro h; cases h
    | ok e6 =>
    simp only
    -- phase 7
    apply Sat.bind
    apply (Sat.cond P (fun hp => sat_removeBackupPathsF (cfg := cfg) (S := S) (ps := pl.dirs) (hf7 hp) (by
      intro p hp'
      obtain ⟨k, hk, rfl, hd⟩ := (hds (hPf hp) p).mp hp'
      obtain ⟨_, i, hts, _⟩ := id hd
      exact ⟨k, hk, hd.1, rfl, hinv.backup_noLinkAnc_ts hk hts⟩))).mono
    intro w8 r8 hf8
    cases r8 with
    | error e => intro h; cases h
    | ok e7 =>
    simp only
    apply Sat.bind
    apply Sat.modifyW
    simp only
    apply Sat.pure
    intro hres
    have hb : ((if e1 = true then true else pl.failed) || e2 || e3 || e4 || e5 || e6 || e7) = false :=
      Except.ok.inj hres
    simp only [Bool.or_eq_false_iff] at hb
    obtain ⟨⟨⟨⟨⟨⟨hb1, hb2⟩, hb3⟩, hb4⟩, _⟩, _⟩, _⟩ := hb
    have he1 : e1 = false ∧ pl.failed = false := by
      cases e1 <;> simp_all
    have hp : P := by rw [← hP]; exact ⟨⟨⟨⟨he1.2, he1.1⟩, hb2⟩, hb3⟩, hb4⟩
    have hf8' := hf8 hp
    exact ⟨hf8'.good, hend hp { w8 with infos := [] } hf8'.base, hf8'.bklinks⟩

/-! ### transactions -/

/-- C09, generic form over an `LSim`: after any covered history (run under any fault plan), Rollback
run under ANY fault plan either reports an error or has restored every entry of the base below its
root -/
theorem tx_success_means_restored {w : World} (hg : S.G w.fs) (hinfos : w.infos = [])
    (hbl : BackupLinksOK S w.fs) (ops : List Op) (hcov : CoveredHist cfg S w ops) (plan : List Fault) :
    (rollback cfg { runOps cfg w ops with faults := plan }).2 = .ok false →
      SameBelowRoot (S.view .base w.fs)
        (S.view .base (rollback cfg { runOps cfg w ops with faults := plan }).1.fs) := by
  intro h
  have hk := history_keeps (cfg := cfg) ops w (Inv.init hg hinfos hbl) hcov
  exact ((sat_rollbackF (cfg := cfg) (hk.inv.with_faults plan)).elim h).2.1

/-- the same with the fault plan the history itself ran under; the start conditions of the next
transaction hold again (well-formed disk, nothing tracked, backup symlinks only where the base has one) -/
theorem tx_success_means_restored_same_plan {w : World} (hg : S.G w.fs) (hinfos : w.infos = [])
    (hbl : BackupLinksOK S w.fs) (ops : List Op) (hcov : CoveredHist cfg S w ops) :
    (rollback cfg (runOps cfg w ops)).2 = .ok false →
      S.G (runTx cfg w ops).fs ∧ (runTx cfg w ops).infos = [] ∧ BackupLinksOK S (runTx cfg w ops).fs ∧
        SameBelowRoot (S.view .base w.fs) (S.view .base (runTx cfg w ops).fs) := by
  intro h
  have hk := history_keeps (cfg := cfg) ops w (Inv.init hg hinfos hbl) hcov
  have hr := (sat_rollbackF (cfg := cfg) hk.inv).elim h
  exact ⟨hr.1, rollback_resets_infos cfg _, backupLinksOK_after hk.inv hr.1 hr.2.1 hr.2.2, hr.2.1⟩

end L
end BFS
