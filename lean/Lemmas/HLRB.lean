import Lemmas.HiddenRB
import Lemmas.HLRA
/-!
  Lemmas/HLRB.lean — `HiddenFS.RemoveAll` over `S : L.LSim cfg` (views with symlinks) with
  `D : HL.LSimDir S rt`, part (B): completeness.  If the program returns nil, every entry of the
  subtree that is not hidden and is not a directory leading to a hidden entry is gone — symlinks
  included, whatever they point to.
-/
namespace BFS
namespace HL
open HiddenFS L

variable {cfg : Cfg}

/-- base entries only disappear -/
def Shrink (S : LSim cfg) (m m' : MFS) : Prop :=
  ∀ j, S.view .base m' j = S.view .base m j ∨ S.view .base m' j = none

theorem Shrink.refl {S : LSim cfg} (m : MFS) : Shrink S m m := fun _ => Or.inl rfl

theorem Shrink.trans {S : LSim cfg} {a b c : MFS} (h1 : Shrink S a b) (h2 : Shrink S b c) : Shrink S a c := by
  intro j
  rcases h2 j with e2 | e2
  · rcases h1 j with e1 | e1
    · exact Or.inl (e2.trans e1)
    · exact Or.inr (e2.trans e1)
  · exact Or.inr e2

theorem Shrink.none {S : LSim cfg} {m m' : MFS} (h : Shrink S m m') {j : Key} (hv : S.view .base m j = none) :
    S.view .base m' j = none := by
  rcases h j with e | e
  · exact e.trans hv
  · exact e

/-- key `j` is dealt with: hidden, gone, or an original directory collected for the second phase -/
def Cov (S : LSim cfg) (hks : List Key) (m0 m : MFS) (a : List Path) (j : Key) : Prop :=
  HidK hks j ∨ S.view .base m j = none ∨ ((S.view .base m0).isDirAt j ∧ kp j ∈ a)

/-- progress of the walk from `(m, a)` to `(m', a')` -/
structure Prog (S : LSim cfg) (m : MFS) (a : List Path) (m' : MFS) (a' : List Path) : Prop where
  shrink : Shrink S m m'
  sub : ∀ p ∈ a, p ∈ a'

theorem Prog.refl {S : LSim cfg} (m : MFS) (a : List Path) : Prog S m a m a := ⟨Shrink.refl m, fun _ h => h⟩

theorem Prog.trans {S : LSim cfg} {m1 m2 m3 : MFS} {a1 a2 a3 : List Path} (h1 : Prog S m1 a1 m2 a2)
    (h2 : Prog S m2 a2 m3 a3) : Prog S m1 a1 m3 a3 :=
  ⟨h1.shrink.trans h2.shrink, fun p hp => h2.sub p (h1.sub p hp)⟩

theorem Cov.mono {S : LSim cfg} {hks : List Key} {m0 m m' : MFS} {a a' : List Path} {j : Key}
    (h : Cov S hks m0 m a j) (hp : Prog S m a m' a') : Cov S hks m0 m' a' j := by
  rcases h with h | h | ⟨h1, h2⟩
  · exact Or.inl h
  · exact Or.inr (Or.inl (hp.shrink.none h))
  · exact Or.inr (Or.inr ⟨h1, hp.sub _ h2⟩)

/-- a `Remove` that succeeded -/
theorem shrink_remove {S : LSim cfg} {rt : Key} (D : LSimDir S rt) {m m1 : MFS} {j : Key} {r : Ret} (hg : S.G m)
    (hj : PKey j) (hne : j ≠ []) (hna : NoLinkAnc (S.view .base m) j)
    (hc : (cfg.side .base).call m (.remove (kp j)) = (m1, .ok r)) :
    Shrink S m m1 ∧ S.view .base m1 j = none := by
  have hpost := D.remove_post hg hj hne hna hc
  obtain ⟨_, _, hs, _⟩ := S.remove_frame hg hj hne hna hc
  refine ⟨?_, hpost⟩
  intro j'
  by_cases e : j' = j
  · subst e; exact Or.inr hpost
  · exact Or.inl (hs j' e)

/-- listing a live directory: exactly the live children -/
theorem fsiReadDirNames_dir {S : LSim cfg} {rt : Key} (D : LSimDir S rt) {m : MFS} {j : Key} (hg : S.G m)
    (hj : PKey j) (hd : (S.view .base m).isDirAt j) :
    ∃ ns, fsiReadDirNames (cfg.side .base) m (kp j) = (m, .ok ns) ∧
      (∀ n, n ∈ ns ↔ S.view .base m (j ++ [n]) ≠ none) ∧ (∀ n ∈ ns, Plain n) ∧ ns.Nodup := by
  obtain ⟨h, hc, hH, _⟩ := S.open_some hg hj (Or.inr hd)
  obtain ⟨ns, hr, hns⟩ := D.readdir_dir hg hH hd
  have hmem : ∀ n, n ∈ sortStrings ns ↔ S.view .base m (j ++ [n]) ≠ none := fun n =>
    ((sortBy_perm strLt ns).mem_iff).trans (hns n)
  refine ⟨sortStrings ns, ?_, hmem, ?_, ?_⟩
  · unfold fsiReadDirNames
    rw [hc]
    simp only [hr]
  · intro n hn
    exact S.pkey hg ((hmem n).mp hn) n (by simp)
  · exact ((sortBy_perm strLt ns).nodup_iff).mpr (D.readdir_nodup hg hH hr)

section
variable {S : LSim cfg} {rt : Key} {hs : List Path} {hks : List Key} {k : Key} {m0 : MFS}

theorem isDirAt_of_info {m : MFS} {j : Key} {n : Node} {i : Info} (hv : S.view .base m j = some n)
    (hf : InfoForL i n) (hd : i.isDir = true) : (S.view .base m).isDirAt j := by
  have : n.isDir = true := by rw [← infoForL_isDir hf]; exact hd
  cases n with
  | dir mt => exact ⟨mt, hv⟩
  | file _ _ => cases this
  | link _ _ => cases this

theorem hiddenRemoveFn_cov (D : LSimDir S rt) (H : HidKeys hs hks) (hne : k ≠ []) {m m1 : MFS} {a a1 : List Path}
    {j : Key} {i : Info} (h : WSt S rt hks k m0 m a) (hsh : Shrink S m0 m) (hj : PKey j) (hkj : k <+: j)
    (hinfo : ∃ n, S.view .base m j = some n ∧ InfoForL i n)
    (hres : hiddenRemoveFn hs (cfg.side .base) m a (kp j) (some i) none = ((m1, a1), none)) :
    Prog S m a m1 a1 ∧ Cov S hks m0 m1 a1 j ∧ (i.isDir = true → m1 = m) := by
  unfold hiddenRemoveFn at hres
  simp only [isHidden_kp H hj] at hres
  by_cases hh : HidK hks j
  · simp only [hh, decide_true] at hres
    cases hres
    exact ⟨Prog.refl _ _, Or.inl hh, fun _ => rfl⟩
  · simp only [hh, decide_false] at hres
    obtain ⟨n, hv, hf⟩ := hinfo
    cases hd : i.isDir with
    | true =>
      simp only [hd, if_true] at hres
      cases hres
      refine ⟨⟨Shrink.refl _, fun p hp => List.mem_append_left _ hp⟩, ?_, fun _ => rfl⟩
      right; right
      refine ⟨?_, by simp⟩
      obtain ⟨mt, hdir⟩ := isDirAt_of_info hv hf hd
      rcases hsh j with e | e
      · exact ⟨mt, e ▸ hdir⟩
      · rw [e] at hdir; cases hdir
    | false =>
      simp only [hd, Bool.false_eq_true, if_false] at hres
      have hvis : isHidden (kp j) hs = .ok false := by rw [isHidden_kp H hj]; simp [hh]
      rw [translate_remove_visible hvis] at hres
      simp only at hres
      revert hres
      cases hc : (cfg.side .base).call m (.remove (kp j)) with
      | mk m2 r =>
        cases r with
        | error e => intro hres; cases hres
        | ok ret =>
          simp only
          intro hres
          cases hres
          have hna : NoLinkAnc (S.view .base m) j := noLinkAnc_of_present S h.frame.good (by rw [hv]; simp)
          obtain ⟨hs1, hn1⟩ := shrink_remove D h.frame.good hj (ne_nil_of_prefix hne hkj) hna hc
          exact ⟨⟨hs1, fun _ hp => hp⟩, Or.inr (Or.inl hn1), fun e => by cases e⟩

def WalkRecCov (S : LSim cfg) (rt : Key) (hs : List Path) (hks : List Key) (k : Key) (m0 : MFS) (fuel : Nat) :
    Prop :=
  ∀ (m : MFS) (a : List Path) (j : Key) (info : Info) (m' : MFS) (a' : List Path),
    WSt S rt hks k m0 m a → Shrink S m0 m → PKey j → k <+: j →
    (∃ n, S.view .base m j = some n ∧ InfoForL info n) →
    walkRec (fsiWalkOps (cfg.side .base)) (hiddenRemoveFn hs (cfg.side .base)) fuel m a (kp j) info = ((m', a'), none) →
    Prog S m a m' a' ∧ ∀ j', j <+: j' → Cov S hks m0 m' a' j'

def WalkNamesCov (S : LSim cfg) (rt : Key) (hs : List Path) (hks : List Key) (k : Key) (m0 : MFS) (fuel : Nat) :
    Prop :=
  ∀ (names : List Name) (m : MFS) (a : List Path) (j : Key) (m' : MFS) (a' : List Path),
    (∀ n ∈ names, Plain n) → WSt S rt hks k m0 m a → Shrink S m0 m → PKey j → k <+: j →
    AccF (S.view .base m) j →
    walkNames (fsiWalkOps (cfg.side .base)) (hiddenRemoveFn hs (cfg.side .base)) fuel m a (kp j) names = ((m', a'), none) →
    Prog S m a m' a' ∧ ∀ n ∈ names, ∀ j', j ++ [n] <+: j' → Cov S hks m0 m' a' j'

theorem walkNamesCov_of_rec (D : LSimDir S rt) (H : HidKeys hs hks) (hne : k ≠ []) {fuel : Nat}
    (hrec : WalkRecCov S rt hs hks k m0 fuel) : WalkNamesCov S rt hs hks k m0 fuel := by
  intro names
  induction names with
  | nil =>
    intro m a j m' a' _ h _ _ _ _ hres
    rw [walkNames] at hres
    cases hres
    exact ⟨Prog.refl _ _, by intro n hn; cases hn⟩
  | cons n rest ih =>
    intro m a j m' a' hpl h hsh hj hkj hacc hres
    have hn : Plain n := hpl n (by simp)
    have hrest : ∀ x ∈ rest, Plain x := fun x hx => hpl x (List.mem_cons_of_mem _ hx)
    have hj' : PKey (j ++ [n]) := hj.snoc hn
    have hkj' : k <+: j ++ [n] := hkj.trans (List.prefix_append _ _)
    rw [walkNames] at hres
    simp only [join_kp hj hn] at hres
    have hl := fsiLstat_spec S (j := j ++ [n]) h.frame.good hj' (noLinkAnc_snoc hacc n)
    revert hres
    cases hls : (fsiWalkOps (cfg.side .base)).lstat m (kp (j ++ [n])) with
    | mk m1 r1 =>
      rw [show fsiLstat (cfg.side .base) m (kp (j ++ [n])) = (m1, r1) from hls] at hl
      obtain ⟨hm, hi⟩ := hl
      simp only at hm hi
      subst hm
      cases r1 with
      | error e =>
        simp only [hiddenRemoveFn_err]
        intro hres; cases hres
      | ok fi =>
        simp only
        have hsafe := (walk_safe D H hne fuel).1 m1 a (j ++ [n]) fi h hj' hkj' (hi fi rfl)
        cases hw : walkRec (fsiWalkOps (cfg.side .base)) (hiddenRemoveFn hs (cfg.side .base)) fuel m1 a (kp (j ++ [n])) fi with
        | mk sa oe =>
          rw [hw] at hsafe
          obtain ⟨s2, a2⟩ := sa
          obtain ⟨hsafe, hmono⟩ := hsafe
          simp only at hsafe hmono
          cases oe with
          | some e' => intro hres; cases hres
          | none =>
            simp only
            intro hres
            obtain ⟨hp1, hc1⟩ := hrec m1 a (j ++ [n]) fi s2 a2 h hsh hj' hkj' (hi fi rfl) hw
            obtain ⟨hp2, hc2⟩ := ih s2 a2 j m' a' hrest hsafe (hsh.trans hp1.shrink) hj hkj
              (accF_mono hmono hacc) hres
            refine ⟨hp1.trans hp2, ?_⟩
            intro x hx j' hjj'
            rcases List.mem_cons.mp hx with e | hx
            · subst e; exact (hc1 j' hjj').mono hp2
            · exact hc2 x hx j' hjj'

theorem walk_cov (D : LSimDir S rt) (H : HidKeys hs hks) (hne : k ≠ []) :
    ∀ fuel, WalkRecCov S rt hs hks k m0 fuel ∧ WalkNamesCov S rt hs hks k m0 fuel
  | 0 => by
    have hrec : WalkRecCov S rt hs hks k m0 0 := by
      intro m a j info m' a' _ _ _ _ _ hres
      rw [walkRec] at hres
      cases hres
    exact ⟨hrec, walkNamesCov_of_rec D H hne hrec⟩
  | fuel + 1 => by
    have ih := (walk_cov D H hne fuel).2
    have hrec : WalkRecCov S rt hs hks k m0 (fuel + 1) := by
      intro m a j info m' a' h hsh hj hkj hinfo hres
      rw [walkRec] at hres
      have hfn := (hiddenRemoveFn_safe (info := some info) (err := none) D H hne h hj hkj
        (by intro i hi; cases hi; exact hinfo)).1
      revert hres
      cases hf : hiddenRemoveFn hs (cfg.side .base) m a (kp j) (some info) none with
      | mk sa oe =>
        rw [hf] at hfn
        obtain ⟨s1, a1⟩ := sa
        cases oe with
        | some e => intro hres; cases hres
        | none =>
          simp only
          obtain ⟨hp1, hcj, hsame⟩ := hiddenRemoveFn_cov D H hne h hsh hj hkj hinfo hf
          obtain ⟨n, hv, hfi⟩ := hinfo
          cases hd : info.isDir with
          | false =>
            simp only [Bool.not_false, if_true]
            intro hres
            cases hres
            refine ⟨hp1, ?_⟩
            intro j' hjj'
            by_cases he : j = j'
            · subst he; exact hcj
            · right; left
              apply hp1.shrink.none
              exact none_below_nondir S h.frame.good hjj' he hv (by rw [← infoForL_isDir hfi]; exact hd)
          | true =>
            simp only [Bool.not_true, Bool.false_eq_true, if_false]
            have hsm := hsame hd
            subst hsm
            have hdir := isDirAt_of_info hv hfi hd
            obtain ⟨ns, hrd, hns, hpl, _⟩ := fsiReadDirNames_dir D hfn.frame.good hj hdir
            rw [show (fsiWalkOps (cfg.side .base)).readDirNames s1 (kp j) = (s1, .ok ns) from hrd]
            simp only
            intro hres
            obtain ⟨hp2, hc2⟩ := ih ns s1 a1 j m' a' hpl hfn (hsh.trans hp1.shrink) hj hkj
              (accF_of_dir S h.frame.good hdir) hres
            refine ⟨hp1.trans hp2, ?_⟩
            intro j' hjj'
            by_cases he : j = j'
            · subst he; exact hcj.mono hp2
            · obtain ⟨t, rfl⟩ := hjj'
              cases t with
              | nil => simp at he
              | cons x t =>
                have hpre : j ++ [x] <+: j ++ x :: t := ⟨t, by simp⟩
                by_cases hx : x ∈ ns
                · exact hc2 x hx _ hpre
                · right; left
                  apply hp2.shrink.none
                  have hnone : S.view .base s1 (j ++ [x]) = none := by
                    cases hvx : S.view .base s1 (j ++ [x]) with
                    | none => rfl
                    | some _ => exact absurd ((hns x).mpr (by rw [hvx]; simp)) hx
                  exact none_below S hfn.frame.good hpre hnone
    exact ⟨hrec, walkNamesCov_of_rec D H hne hrec⟩

theorem walkTree_cov (D : LSimDir S rt) (H : HidKeys hs hks) (hne : k ≠ []) {m m' : MFS} {a' : List Path}
    (fuel : Nat) (h : WSt S rt hks k m0 m []) (hsh : Shrink S m0 m) (hk : PKey k)
    (hna : NoLinkAnc (S.view .base m) k)
    (hres : walkTree (fsiWalkOps (cfg.side .base)) (hiddenRemoveFn hs (cfg.side .base)) fuel m [] (kp k) = ((m', a'), none)) :
    Shrink S m m' ∧ ∀ j', k <+: j' → Cov S hks m0 m' a' j' := by
  unfold walkTree at hres
  have hl := fsiLstat_spec S (j := k) h.frame.good hk hna
  revert hres
  cases hls : (fsiWalkOps (cfg.side .base)).lstat m (kp k) with
  | mk m1 r1 =>
    rw [show fsiLstat (cfg.side .base) m (kp k) = (m1, r1) from hls] at hl
    obtain ⟨hm, hi⟩ := hl
    simp only at hm hi
    subst hm
    cases r1 with
    | error e => simp only [hiddenRemoveFn_err]; intro hres; cases hres
    | ok info =>
      simp only
      intro hres
      obtain ⟨hp, hc⟩ := (walk_cov D H hne fuel).1 m1 [] k info m' a' h hsh hk (List.prefix_refl _) (hi info rfl) hres
      exact ⟨hp.shrink, hc⟩

/-! ### the second phase -/

theorem hiddenRemoveDirs_cov (D : LSimDir S rt) (H : HidKeys hs hks) (hne : k ≠ []) :
    ∀ (ds : List Path) (m m' : MFS), Frame S rt (Touch hks (S.view .base m0) k) m0 m → DirsOK hks k ds →
      DirsAcc S m ds →
      hiddenRemoveDirs hs (cfg.side .base) m ds = (m', .ok ()) →
      Shrink S m m' ∧ ∀ j, PKey j → kp j ∈ ds → ¬ ParK hks j → S.view .base m' j = none
  | [], m, m', _, _, _, hres => by
    rw [hiddenRemoveDirs] at hres
    cases hres
    exact ⟨Shrink.refl _, by intro j _ hm; cases hm⟩
  | d :: ds, m, m', h, hd, hacc, hres => by
    obtain ⟨j0, hj0, hkj, hh, rfl⟩ := hd d (by simp)
    have hds : DirsOK hks k ds := fun p hp => hd p (List.mem_cons_of_mem _ hp)
    have haccs : DirsAcc S m ds := fun j' hj' hm => hacc j' hj' (List.mem_cons_of_mem _ hm)
    rw [hiddenRemoveDirs] at hres
    simp only [isParentOfHidden_kp H hj0] at hres
    by_cases hp : ParK hks j0
    · simp only [hp, decide_true] at hres
      obtain ⟨hs1, hc1⟩ := hiddenRemoveDirs_cov D H hne ds m m' h hds haccs hres
      refine ⟨hs1, ?_⟩
      intro j hj hm hnp
      rcases List.mem_cons.mp hm with e | hm
      · have := kp_inj hj hj0 e; subst this; exact absurd hp hnp
      · exact hc1 j hj hm hnp
    · simp only [hp, decide_false] at hres
      have ht : Touch hks (S.view .base m0) k j0 := ⟨hkj, hh, fun hc => hp hc.1⟩
      have hna := hacc j0 hj0 (by simp)
      revert hres
      cases hc : (cfg.side .base).call m (.remove (kp j0)) with
      | mk m1 r =>
        obtain ⟨hfr, hmono⟩ := h.remove D hj0 (ne_nil_of_prefix hne hkj) ht hna hc
        cases r with
        | error e => intro hres; cases hres
        | ok ret =>
          simp only
          intro hres
          obtain ⟨hs0, hn0⟩ := shrink_remove D h.good hj0 (ne_nil_of_prefix hne hkj) hna hc
          obtain ⟨hs1, hc1⟩ := hiddenRemoveDirs_cov D H hne ds m1 m' hfr hds (haccs.mono hmono) hres
          refine ⟨hs0.trans hs1, ?_⟩
          intro j hj hm hnp
          rcases List.mem_cons.mp hm with e | hm
          · have := kp_inj hj hj0 e; subst this; exact hs1.none hn0
          · exact hc1 j hj hm hnp

/-! ### `HiddenFS.RemoveAll` returning nil -/

theorem hiddenRemoveAll_cov (D : LSimDir S rt) (H : HidKeys hs hks) {m m' : MFS} (hk : PKey k) (hne : k ≠ [])
    (hg : S.G m) (hna : NoLinkAnc (S.view .base m) k) (fuel : Nat)
    (hres : hiddenRemoveAll hs (cfg.side .base) fuel m (kp k) = (m', .ok ())) :
    ∀ j, Touch hks (S.view .base m) k j → S.view .base m' j = none := by
  unfold hiddenRemoveAll at hres
  have h0 : WSt S rt hks k m m [] :=
    ⟨Frame.refl hg, (by intro p hp; cases hp), (by intro j _ hp; cases hp)⟩
  by_cases hh : HidK hks k
  · have : isHidden (kp k) hs = .ok true := by rw [isHidden_kp H hk]; simp [hh]
    rw [hguard_of_hidden _ this] at hres
    cases hres
  · have hvis : isHidden (kp k) hs = .ok false := by rw [isHidden_kp H hk]; simp [hh]
    rw [hguard_of_visible _ hvis] at hres
    simp only at hres
    revert hres
    cases hc : (cfg.side .base).call m (.lstat (kp k)) with
    | mk m1 r =>
      have hm : m1 = m := S.pure_lstat hc
      subst hm
      cases r with
      | error e =>
        simp only
        intro hres
        have hm' : m' = m1 := by
          split at hres
          · cases hres; rfl
          · cases hres
        subst hm'
        intro j hj
        have hkn : S.view .base m' k = none := by
          cases hv : S.view .base m' k with
          | none => rfl
          | some n =>
            obtain ⟨i, hi, _⟩ := S.lstat_some hg hk hv
            rw [hi] at hc; cases hc
        exact none_below S hg hj.1 hkn
      | ok ret =>
        cases ret with
        | unit => intro hres; cases hres
        | str _ => intro hres; cases hres
        | handle _ => intro hres; cases hres
        | info fi =>
          simp only
          obtain ⟨n, hv, hf⟩ := lstat_info S hg hk hna hc
          cases hd : fi.isDir with
          | false =>
            simp only [Bool.not_false, if_true]
            cases hc2 : (cfg.side .base).call m1 (.remove (kp k)) with
            | mk m2 r2 =>
              cases r2 with
              | error e => intro hres; cases hres
              | ok ret2 =>
                simp only
                intro hres
                cases hres
                obtain ⟨hs1, hn1⟩ := shrink_remove D hg hk hne hna hc2
                intro j hj
                by_cases he : k = j
                · subst he; exact hn1
                · apply hs1.none
                  exact none_below_nondir S hg hj.1 he hv (by rw [← infoForL_isDir hf]; exact hd)
          | true =>
            simp only [Bool.not_true, Bool.false_eq_true, if_false]
            have hw := walkTree_safe D H hne fuel h0 hk hna
            cases hx : walkTree (fsiWalkOps (cfg.side .base)) (hiddenRemoveFn hs (cfg.side .base)) fuel m1 [] (kp k) with
            | mk sa oe =>
              rw [hx] at hw
              obtain ⟨s2, a2⟩ := sa
              cases oe with
              | some e => intro hres; cases hres
              | none =>
                simp only
                intro hres
                obtain ⟨hs1, hcov⟩ := walkTree_cov D H hne fuel h0 (Shrink.refl _) hk hna hx
                have hres' : hiddenRemoveDirs hs (cfg.side .base) s2 (sortMost a2) = (m', .ok ()) := hres
                obtain ⟨hs2, hc2⟩ := hiddenRemoveDirs_cov D H hne (sortMost a2) s2 m' hw.frame
                  (dirsOK_sortMost hw.dirs) (dirsAcc_sortMost hw.acc) hres'
                intro j hj
                rcases hcov j hj.1 with hcj | hcj | ⟨hdj, hmem⟩
                · exact absurd hcj hj.2.1
                · exact hs2.none hcj
                · have hpj : PKey j := by
                    obtain ⟨mt, e⟩ := hdj
                    exact S.pkey hg (by rw [e]; simp)
                  exact hc2 j hpj ((sortBy_perm _ a2).mem_iff.mpr hmem) (fun hp => hj.2.2 ⟨hp, hdj⟩)

/-- (B) completeness of `HiddenFS.RemoveAll` on trees with symlinks: if it returns nil, every entry
of the subtree is gone — files, symlinks (whatever they point to), directories — except the hidden
entries (and what is below them) and the directories leading to them. -/
theorem hiddenRemoveAll_complete (S : LSim cfg) {rt : Key} (D : LSimDir S rt) {hs : List Path} {hks : List Key}
    (H : HidKeys hs hks) {k : Key} (hk : PKey k) (hne : k ≠ []) {m : MFS} (hg : S.G m)
    (hna : NoLinkAnc (S.view .base m) k) (fuel : Nat)
    (hok : (hiddenRemoveAll hs (cfg.side .base) fuel m (kp k)).2 = .ok ()) :
    ∀ j, k <+: j → ¬ HidK hks j → ¬ (ParK hks j ∧ (S.view .base m).isDirAt j) →
      S.view .base (hiddenRemoveAll hs (cfg.side .base) fuel m (kp k)).1 j = none := by
  intro j h1 h2 h3
  exact hiddenRemoveAll_cov D H hk hne hg hna fuel (Prod.ext rfl hok) j ⟨h1, h2, h3⟩

end

end HL
end BFS
