import Lemmas.NLSimOSBase
import Lemmas.NSimOSLaws4
/-!
  Lemmas/NLSimOSLaws1.lean — the laws of `NL.Sim` for the nested layering over disks with symlinks as
  leaves: the static facts, `Lstat`, `Readlink`, `Open`, `Create`/`OpenFile`, the handle primitives.
  Each law is the law of the inner `PrefixFS (kp bk) osfs` (`L.os_*`, Lemmas/LSimOSLaws*.lean) at the
  key `off ++ k`, or a refusal of the hidden check.  (The laws that do not mention the views —
  `pure_*`, `openFile_flag`, `hwrite_ro` — are those of Lemmas/NSimOSLaws1/2.lean.)
-/
namespace BFS.NL
open N HiddenFS

section
variable {bk hk dd : Key} {s : Side} {m m' : MFS} {k : Key}

/-! ### the one-layer filesystem rooted at the backup location (used for "the location is still a
directory") -/

theorem nl_isLinkAt2 {a : Key} (hl : L.isLinkAt (L.osViewL (bk ++ hk) dd .base m) a) :
    isLinkAt (nlview bk hk .backup m) a := by
  obtain ⟨raw, mt, h0⟩ := L.osViewL_isLinkAt hl
  have h1 : m.get (bk ++ (hk ++ a)) = some (.link raw mt) := by
    rw [← List.append_assoc]; exact h0
  exact nl_isLinkAt_of (dd := dd) (s := .backup) id
    (L.osViewL_isLinkAt_of (bk := bk) (kk := dd) (s := .base) h1)

theorem nl_noLinkAnc2 (hna : NoLinkAnc (nlview bk hk .backup m) k) :
    L.NoLinkAnc (L.osViewL (bk ++ hk) dd .base m) k :=
  fun a ha hne hl => hna a ha hne (nl_isLinkAt2 hl)

theorem nl_accF2 (hacc : AccF (nlview bk hk .backup m) k) :
    L.AccF (L.osViewL (bk ++ hk) dd .base m) k :=
  ⟨nl_noLinkAnc2 hacc.1, fun hl => hacc.2 (nl_isLinkAt2 hl)⟩

/-! ### static facts -/

theorem nl_par_dir (hg : NLGood bk hk dd m) (hp : NPar hk s k) : (nlview bk hk s m).isDirAt k := by
  cases s with
  | backup => exact hp.elim
  | base =>
    exact nl_isDirAt_of (dd := dd) (s := .base) (not_hid_of_par hp) (inner_dir_of_prefix_loc hg hp.1)

theorem nl_root_dir (h : NRoots bk hk dd) (hg : NLGood bk hk dd m) : (nlview bk hk s m).isDirAt [] := by
  apply nl_isDirAt_of (dd := dd) (nhid_nil h)
  cases s with
  | base => exact L.os_root_dir (s := .base) hg.os
  | backup =>
    show (iv bk dd m).isDirAt (hk ++ [])
    rw [List.append_nil]
    exact inner_dir_of_prefix_loc hg List.prefix_rfl

theorem nl_parent_dir (hg : NLGood bk hk dd m) (hv : nlview bk hk s m k ≠ none) (hne : k ≠ []) :
    (nlview bk hk s m).isDirAt k.dropLast := by
  obtain ⟨hvis, hv'⟩ := nl_ne_none (dd := dd) hv
  have hd := L.os_parent_dir (s := .base) hg.os hv' (off_ne hne)
  rw [append_dropLast hne] at hd
  exact nl_isDirAt_of (nhid_dropLast hvis) hd

theorem nl_pkey (hg : NLGood bk hk dd m) (hv : nlview bk hk s m k ≠ none) : PKey k := by
  obtain ⟨_, hv'⟩ := nl_ne_none (dd := dd) hv
  exact (L.os_pkey (s := .base) hg.os hv').right

theorem nl_mode_lt {n : Node} (hg : NLGood bk hk dd m) (hv : nlview bk hk s m k = some n) : n.meta.mode < 4096 := by
  obtain ⟨_, n0, h0, e⟩ := nl_some (dd := dd) hv
  rw [← e, rl_meta]
  exact L.os_mode_lt (s := .base) hg.os h0

theorem nl_erased {mt : Meta} (hg : NLGood bk hk dd m) (hv : nlview bk hk s m k = some (.dir mt)) : mt.mtime = .fresh :=
  L.os_erased (s := .base) hg.os (nl_dir (dd := dd) hv).2

theorem nl_link_erased {t : Path} {mt : Meta} (hg : NLGood bk hk dd m) (hv : nlview bk hk s m k = some (.link t mt)) :
    mt.mtime = .fresh ∧ mt.mode = 0o777 := by
  obtain ⟨_, t0, h0, _⟩ := nl_link (dd := dd) hv
  exact L.os_link_erased (s := .base) hg.os h0

theorem nl_link_canon {t : Path} {mt : Meta} (hg : NLGood bk hk dd m) (hv : nlview bk hk s m k = some (.link t mt)) :
    clean t = t := by
  obtain ⟨_, t0, h0, ht⟩ := nl_link (dd := dd) hv
  subst ht
  cases s with
  | base => exact L.os_link_canon (s := .base) hg.os h0
  | backup => exact L.clean_readlinkPost _ _

/-! ### `Lstat`, `Readlink` -/

theorem nl_lstat_some {n : Node} (h : NRoots bk hk dd) (hg : NLGood bk hk dd m) (hk' : PKey k)
    (hv : nlview bk hk s m k = some n) :
    ∃ i, ((nestedCfg bk hk).side s).call m (.lstat (kp k)) = (m, .ok (.info i)) ∧ InfoForL i n := by
  obtain ⟨hvis, n0, h0, e⟩ := nl_some (dd := dd) hv
  obtain ⟨i, hc, hf⟩ := L.os_lstat_some h.r1 hg.os (pk_off h s hk') h0
  obtain ⟨nm, hc'⟩ := fwd_info_of (fwd_lstat h hk' hvis) hc
  exact ⟨_, hc', by rw [← e]; exact infoForL_name nm (infoForL_rl hf)⟩

theorem nl_lstat_none (h : NRoots bk hk dd) (hg : NLGood bk hk dd m) (hk' : PKey k)
    (hna : NoLinkAnc (nlview bk hk s m) k) (hv : nlview bk hk s m k = none) :
    ∃ e, ((nestedCfg bk hk).side s).call m (.lstat (kp k)) = (m, .error e) ∧ e.isNotFound = true := by
  by_cases hh : NHid hk s k
  · exact ⟨.hiddenNotExist, refused_lstat h hk' hh m, rfl⟩
  · obtain ⟨e, hc, hnf⟩ := L.os_lstat_none h.r1 hg.os (pk_off h s hk') (nl_noLinkAnc hg hh hna)
      (nl_none_vis (dd := dd) hh hv)
    exact ⟨e, (fwd_lstat h hk' hh).err_of hc, hnf⟩

theorem nl_readlink_link {t : Path} {mt : Meta} (h : NRoots bk hk dd) (hg : NLGood bk hk dd m) (hk' : PKey k)
    (hv : nlview bk hk s m k = some (.link t mt)) :
    ((nestedCfg bk hk).side s).call m (.readlink (kp k)) = (m, .ok (.str t)) := by
  obtain ⟨hvis, t0, h0, ht⟩ := nl_link (dd := dd) hv
  have hc := L.os_readlink_link h.r1 hg.os (pk_off h s hk') h0
  cases s with
  | base =>
    have htr : HiddenFS.translate (nhs hk) (.readlink (kp k)) = .ok (.readlink (kp k)) := by
      simp only [HiddenFS.translate, hguard_vis h hk' hvis, bind, Except.bind, pure, Except.pure]
    rw [base_call_ok (dd := dd) (by intro n e; cases e) htr]
    have hc' : (inner bk dd).call m (.readlink (kp k)) = (m, .ok (.str t0)) := hc
    rw [hc', ht]
    rfl
  | backup =>
    rw [backup_call_ok h (L.tr_readlink h.ph hk')]
    have hc' : (inner bk dd).call m (.readlink (kp (hk ++ k))) = (m, .ok (.str t0)) := hc
    rw [hc', ht]
    rfl

/-! ### `Open` -/

theorem nl_open_some (h : NRoots bk hk dd) (hg : NLGood bk hk dd m) (hk' : PKey k)
    (hv : (nlview bk hk s m).isFileAt k ∨ (nlview bk hk s m).isDirAt k) :
    ∃ hd, ((nestedCfg bk hk).side s).call m (.open_ (kp k)) = (m, .ok (.handle hd)) ∧
      NH bk hk s hd k ∧ hd.flag = O_RDONLY := by
  have hvis : ¬ NHid hk s k := by
    rcases hv with hv | hv
    · exact (nl_isFileAt (dd := dd) hv).1
    · exact (nl_isDirAt (dd := dd) hv).1
  have hv' : (iv bk dd m).isFileAt (off hk s ++ k) ∨ (iv bk dd m).isDirAt (off hk s ++ k) := by
    rcases hv with hv | hv
    · exact Or.inl (nl_isFileAt (dd := dd) hv).2
    · exact Or.inr (nl_isDirAt (dd := dd) hv).2
  obtain ⟨h0, hc, hkey, hfl⟩ := L.os_open_some h.r1 hg.os (pk_off h s hk') hv'
  obtain ⟨hd, hc', hk1, hf1⟩ := (fwd_open h hk' hvis).handle_of hc
  exact ⟨hd, hc', ⟨hk1.trans hkey, hvis⟩, hf1.trans hfl⟩

theorem nl_open_handle {hd : Handle} (h : NRoots bk hk dd) (hg : NLGood bk hk dd m) (hk' : PKey k)
    (hacc : AccF (nlview bk hk s m) k)
    (he : ((nestedCfg bk hk).side s).call m (.open_ (kp k)) = (m', .ok (.handle hd))) :
    NH bk hk s hd k ∧ hd.flag = O_RDONLY := by
  by_cases hh : NHid hk s k
  · obtain ⟨e, hr⟩ := refused_single h hk' hh (f := Call.open_) (Or.inr (Or.inr (Or.inr (Or.inl rfl))))
    exact (not_refused hr he).elim
  · obtain ⟨h0, hi0, hk1, hf1⟩ := (fwd_open h hk' hh).handle_inv he
    obtain ⟨hkey, hfl⟩ := L.os_open_handle h.r1 hg.os (pk_off h s hk') (nl_accF hg hh hacc) hi0
    exact ⟨⟨hk1.trans hkey, hh⟩, hf1.trans hfl⟩

/-! ### `Create` / `OpenFile` -/

theorem nl_create_frame {r : Except Err Ret} (h : NRoots bk hk dd) (hg : NLGood bk hk dd m) (hk' : PKey k)
    (hacc : AccF (nlview bk hk s m) k)
    (he : ((nestedCfg bk hk).side s).call m (.create (kp k)) = (m', r)) :
    NLGood bk hk dd m' ∧ nlview bk hk s.other m' = nlview bk hk s.other m ∧
      (∀ j, j ≠ k → nlview bk hk s m' j = nlview bk hk s m j) ∧
      LinkMono (nlview bk hk s m) (nlview bk hk s m') ∧
      (∀ hd, r = .ok (.handle hd) → NH bk hk s hd k ∧ hd.flag = wflags) := by
  by_cases hh : NHid hk s k
  · obtain ⟨e, hr⟩ := refused_single h hk' hh (f := Call.create) (Or.inl rfl)
    rw [hr m] at he; cases he
    obtain ⟨a, b, c, d⟩ := frame_refl (s := s) hg (· = k)
    exact ⟨a, b, c, d, fun hd e => by cases e⟩
  · have hf := fwd_create h hk' hh
    have hi := hf.inv he
    obtain ⟨g1, _, f, lm, hhd⟩ := L.os_create_frame h.r1 hg.os (pk_off h s hk') (nl_accF hg hh hacc) hi
    obtain ⟨a, b, c⟩ := transfer1 hg g1 hh
      (fun hs => by
        subst hs
        exact (L.os_create_frame h.r2 hg.os2 hk' (nl_accF2 hacc) ((fwd2_create h hk').eq hi)).1.bdir) f
    refine ⟨a, b, c, nl_linkMono lm s, ?_⟩
    intro hd e; subst e
    obtain ⟨h0, hi0, hk1, hf1⟩ := hf.handle_inv he
    obtain ⟨hkey, hfl⟩ := hhd h0 (by rw [hi0])
    exact ⟨⟨hk1.trans hkey, hh⟩, hf1.trans hfl⟩

theorem nl_openFile_frame {flag perm : Nat} {r : Except Err Ret} (h : NRoots bk hk dd) (hg : NLGood bk hk dd m)
    (hk' : PKey k) (hacc : AccF (nlview bk hk s m) k)
    (he : ((nestedCfg bk hk).side s).call m (.openFile (kp k) flag perm) = (m', r)) :
    NLGood bk hk dd m' ∧ nlview bk hk s.other m' = nlview bk hk s.other m ∧
      (∀ j, j ≠ k → nlview bk hk s m' j = nlview bk hk s m j) ∧
      LinkMono (nlview bk hk s m) (nlview bk hk s m') ∧
      (∀ hd, r = .ok (.handle hd) → NH bk hk s hd k) := by
  by_cases hh : NHid hk s k
  · obtain ⟨e, hr⟩ := refused_single h hk' hh (f := (Call.openFile · flag perm))
      (Or.inr (Or.inr (Or.inr (Or.inr (Or.inl ⟨flag, perm, rfl⟩)))))
    rw [hr m] at he; cases he
    obtain ⟨a, b, c, d⟩ := frame_refl (s := s) hg (· = k)
    exact ⟨a, b, c, d, fun hd e => by cases e⟩
  · have hf := fwd_openFile h hk' hh flag perm
    have hi := hf.inv he
    obtain ⟨g1, _, f, lm, hhd⟩ := L.os_openFile_frame h.r1 hg.os (pk_off h s hk') (nl_accF hg hh hacc) hi
    obtain ⟨a, b, c⟩ := transfer1 hg g1 hh
      (fun hs => by
        subst hs
        exact (L.os_openFile_frame h.r2 hg.os2 hk' (nl_accF2 hacc) ((fwd2_openFile h hk' flag perm).eq hi)).1.bdir) f
    refine ⟨a, b, c, nl_linkMono lm s, ?_⟩
    intro hd e; subst e
    obtain ⟨h0, hi0, hk1, _⟩ := hf.handle_inv he
    exact ⟨hk1.trans (hhd h0 (by rw [hi0])), hh⟩

theorem nl_openW_file {perm : Nat} {c : String} {mt : Meta} (h : NRoots bk hk dd) (hg : NLGood bk hk dd m)
    (hk' : PKey k) (hv : nlview bk hk s m k = some (.file c mt)) :
    ∃ m' hd, ((nestedCfg bk hk).side s).call m (.openFile (kp k) wflags perm) = (m', .ok (.handle hd)) ∧
      nlview bk hk s m' k = some (.file "" { mt with mtime := .fresh }) := by
  obtain ⟨hvis, hv'⟩ := nl_file (dd := dd) hv
  obtain ⟨m1, h0, hc, hp⟩ := L.os_openW_file (perm := perm) h.r1 hg.os (pk_off h s hk') hv'
  obtain ⟨hd, hc', _, _⟩ := (fwd_openFile h hk' hvis wflags perm).handle_of hc
  exact ⟨m1, hd, hc', nl_of_inner_nonlink hvis hp rfl⟩

theorem nl_parentDir (_hvis : ¬ NHid hk s k) (hp : (nlview bk hk s m).parentDir k) :
    (iv bk dd m).parentDir (off hk s ++ k) := by
  obtain ⟨hne, hd⟩ := hp
  refine ⟨by simp [hne], ?_⟩
  rw [append_dropLast hne]
  exact (nl_isDirAt (dd := dd) hd).2

theorem nl_openW_none {perm : Nat} (h : NRoots bk hk dd) (hg : NLGood bk hk dd m) (hk' : PKey k)
    (hvis : ¬ NHid hk s k) (hv : nlview bk hk s m k = none) (hp : (nlview bk hk s m).parentDir k) :
    ∃ m' hd mt, ((nestedCfg bk hk).side s).call m (.openFile (kp k) wflags perm) = (m', .ok (.handle hd)) ∧
      nlview bk hk s m' k = some (.file "" mt) := by
  obtain ⟨m1, h0, mt, hc, hpost⟩ := L.os_openW_none (perm := perm) h.r1 hg.os (pk_off h s hk')
    (nl_none_vis (dd := dd) hvis hv) (nl_parentDir hvis hp)
  obtain ⟨hd, hc', _, _⟩ := (fwd_openFile h hk' hvis wflags perm).handle_of hc
  exact ⟨m1, hd, mt, hc', nl_of_inner_nonlink hvis hpost rfl⟩

theorem nl_openW_post {perm : Nat} {hd : Handle} (h : NRoots bk hk dd) (hg : NLGood bk hk dd m) (hk' : PKey k)
    (hacc : AccF (nlview bk hk s m) k)
    (he : ((nestedCfg bk hk).side s).call m (.openFile (kp k) wflags perm) = (m', .ok (.handle hd))) :
    ∃ mt, nlview bk hk s m' k = some (.file "" mt) := by
  by_cases hh : NHid hk s k
  · obtain ⟨e, hr⟩ := refused_single h hk' hh (f := (Call.openFile · wflags perm))
      (Or.inr (Or.inr (Or.inr (Or.inr (Or.inl ⟨wflags, perm, rfl⟩)))))
    exact (not_refused hr he).elim
  · obtain ⟨h0, hi0, _, _⟩ := (fwd_openFile h hk' hh wflags perm).handle_inv he
    obtain ⟨mt, hp⟩ := L.os_openW_post h.r1 hg.os (pk_off h s hk') (nl_accF hg hh hacc) hi0
    exact ⟨mt, nl_of_inner_nonlink hh hp rfl⟩

/-! ### handle primitives -/

theorem nl_hwrite_frame {hd : Handle} {o : Nat} {d : String} {r : Except Err Unit} (h : NRoots bk hk dd)
    (hg : NLGood bk hk dd m) (hH : NH bk hk s hd k) (he : ((nestedCfg bk hk).side s).hwrite m hd o d = (m', r)) :
    NLGood bk hk dd m' ∧ nlview bk hk s.other m' = nlview bk hk s.other m ∧
      (∀ j, j ≠ k → nlview bk hk s m' j = nlview bk hk s m j) ∧
      LinkMono (nlview bk hk s m) (nlview bk hk s m') := by
  rw [side_hwrite'] at he
  obtain ⟨g1, _, f, lm⟩ := L.os_hwrite_frame (s := .base) h.r1 hg.os (nh_key (dd := dd) hH) he
  obtain ⟨a, b, c⟩ := transfer1 hg g1 hH.2 (by
    intro hs; subst hs
    have hk2 : hd.key = osRoot (bk ++ hk) dd .base ++ k := by
      rw [hH.1]; show bk ++ (hk ++ k) = (bk ++ hk) ++ k; rw [List.append_assoc]
    exact (L.os_hwrite_frame (s := .base) h.r2 hg.os2 hk2 he).1.bdir) f
  exact ⟨a, b, c, nl_linkMono lm s⟩

theorem nl_hwrite_file {hd : Handle} {o : Nat} {d c : String} {mt : Meta}
    (hH : NH bk hk s hd k) (ha : MFS.accessMode hd.flag ≠ 0) (hv : nlview bk hk s m k = some (.file c mt)) :
    ∃ m' t, ((nestedCfg bk hk).side s).hwrite m hd o d = (m', .ok ()) ∧
      nlview bk hk s m' k = some (.file (if d.isEmpty then c else MFS.applyWrite hd.flag c o d) { mt with mtime := t }) := by
  obtain ⟨hvis, hv'⟩ := nl_file (dd := bk) hv
  obtain ⟨m1, t, hc, hp⟩ := L.os_hwrite_file (s := .base) (off := o) (d := d) (nh_key (dd := bk) hH) ha hv'
  refine ⟨m1, t, ?_, nl_of_inner_nonlink hvis hp rfl⟩
  rw [side_hwrite']; exact hc

theorem nl_hread_file {hd : Handle} {c : String} {mt : Meta}
    (hH : NH bk hk s hd k) (ha : MFS.accessMode hd.flag ≠ 1) (hv : nlview bk hk s m k = some (.file c mt)) :
    ((nestedCfg bk hk).side s).hread m hd = .ok c := by
  obtain ⟨_, hv'⟩ := nl_file (dd := bk) hv
  rw [side_hread']
  exact L.os_hread_file (s := .base) (nh_key (dd := bk) hH) ha hv'

theorem nl_hstat_some {hd : Handle} {n : Node}
    (hH : NH bk hk s hd k) (hv : nlview bk hk s m k = some n) :
    ∃ i, ((nestedCfg bk hk).side s).hstat m hd = .ok i ∧ InfoForL i n := by
  obtain ⟨_, n0, h0, e⟩ := nl_some (dd := bk) hv
  rw [side_hstat']
  obtain ⟨i, hi, hf⟩ := L.os_hstat_some (s := .base) (nh_key (dd := bk) hH) h0
  exact ⟨i, hi, by rw [← e]; exact infoForL_rl hf⟩

theorem nl_readdir_plain {hd : Handle} {ns : List Name} (hg : NLGood bk hk dd m)
    (he : ((nestedCfg bk hk).side s).hreaddirnames m hd = .ok ns) : ∀ n ∈ ns, Plain n := by
  cases s with
  | backup =>
    rw [backup_hreaddirnames] at he
    exact L.os_readdir_plain (s := .base) hg.os he
  | base =>
    rw [base_hreaddirnames] at he
    cases hx : MFS.hreaddirnames m hd with
    | error e => rw [hx] at he; cases he
    | ok names =>
      rw [hx] at he
      intro n hn
      exact L.os_readdir_plain (s := .base) hg.os hx n (hiddenFilter_sub _ _ _ _ he n hn)

end
end BFS.NL
