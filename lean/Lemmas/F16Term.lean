import Lemmas.Monad
/-!
  Lemmas/F16Term.lean — resolution terminates after a bounded number of primitive calls, for every
  configuration, world and fault plan: every computation in `M` is a total function (termination by
  construction: `resolveLoop` recurses structurally on its fuel, which starts above the fixed length
  of the chain — the Go loop cannot grow `accPaths`), and it logs at most two primitive calls (one
  `Lstat`, one `Readlink`) per element of the ancestor chain.
-/
namespace BFS
namespace F16
open BackupFS

/-- `x` appends at most `n` events to the trace -/
def TraceLe {α} (n : Nat) (x : M α) : Prop := ∀ w, (x w).1.trace.length ≤ w.trace.length + n

theorem TraceLe.mono {α} {n n' : Nat} {x : M α} (h : TraceLe n x) (hn : n ≤ n') : TraceLe n' x :=
  fun w => Nat.le_trans (h w) (by omega)

theorem TraceLe.pure {α} (a : α) : TraceLe 0 (pure a : M α) := fun _ => Nat.le_refl _

theorem TraceLe.throw {α} (e : Err) : TraceLe 0 (M.throw e : M α) := fun _ => Nat.le_refl _

theorem TraceLe.bind {α β} {a b : Nat} {x : M α} {f : α → M β} (hx : TraceLe a x) (hf : ∀ v, TraceLe b (f v)) :
    TraceLe (a + b) (x >>= f) := by
  intro w
  rw [M.bind_apply]
  have h1 := hx w
  cases hxw : x w with
  | mk w1 r =>
    rw [hxw] at h1
    cases r with
    | ok v =>
      have h2 := hf v w1
      simp only at h1 ⊢
      omega
    | error e =>
      simp only at h1 ⊢
      omega

theorem TraceLe.attempt {α} {n : Nat} {x : M α} (h : TraceLe n x) : TraceLe n (attempt x) := by
  intro w
  rw [attempt_apply]
  exact h w

theorem execCall_trace (cfg : Cfg) (s : Side) (c : Call) (w : World) :
    (execCall cfg s c w).1.trace = w.trace := by
  unfold execCall
  cases (cfg.side s).call w.fs c
  rfl

theorem primCall_traceLe (cfg : Cfg) (s : Side) (c : Call) : TraceLe 1 (primCall cfg s c) := by
  intro w
  unfold primCall
  split
  · split
    · simp
    · rw [execCall_trace]; simp
  · cases hacc : account ⟨s, callMethod c, callArgs c⟩ (callMutating c) w with
    | mk w1 faulted =>
      have h1 : w1.trace.length = w.trace.length + 1 := by
        have := congrArg (fun p => p.1.trace.length) hacc
        simp only [account, List.length_cons] at this
        exact this.symm
      cases faulted with
      | true => simp only; omega
      | false => simp only; rw [execCall_trace]; omega

theorem primInfo_traceLe (cfg : Cfg) (s : Side) (c : Call) : TraceLe 1 (primInfo cfg s c) := by
  unfold primInfo
  apply (TraceLe.bind (primCall_traceLe cfg s c) (b := 0) ?_).mono (by omega)
  intro v
  cases v <;> first | exact TraceLe.pure _ | exact TraceLe.throw _

theorem primStr_traceLe (cfg : Cfg) (s : Side) (c : Call) : TraceLe 1 (primStr cfg s c) := by
  unfold primStr
  apply (TraceLe.bind (primCall_traceLe cfg s c) (b := 0) ?_).mono (by omega)
  intro v
  cases v <;> first | exact TraceLe.pure _ | exact TraceLe.throw _

/-- at most two primitive calls per chain element -/
theorem resolveLoop_traceLe (cfg : Cfg) : ∀ (fuel : Nat) (l : List Path) (last : Path) (fi : Option Info),
    TraceLe (2 * l.length) (resolveLoop cfg fuel l last fi)
  | 0, l, last, fi => by unfold resolveLoop; exact (TraceLe.pure _).mono (by omega)
  | _ + 1, [], last, fi => by unfold resolveLoop; exact (TraceLe.pure _).mono (by omega)
  | fuel + 1, p :: rest, last, fi => by
    unfold resolveLoop
    have : 2 * (p :: rest).length = 1 + (1 + 2 * rest.length) := by simp; omega
    rw [this]
    apply TraceLe.bind (TraceLe.attempt (primInfo_traceLe cfg .base _))
    intro res
    cases res with
    | error e =>
      simp only
      split
      · exact (TraceLe.pure _).mono (by omega)
      · exact (TraceLe.throw _).mono (by omega)
    | ok i =>
      simp only
      split
      · apply TraceLe.bind (primStr_traceLe cfg .base _)
        intro linked
        have := resolveLoop_traceLe cfg fuel (rest.map (replacePrefix1 p (toAbsSymlink linked p))) p (some i)
        rw [List.length_map] at this
        exact this
      · exact (resolveLoop_traceLe cfg fuel rest p (some i)).mono (by omega)

theorem realPath_traceLe (cfg : Cfg) (name : Path) :
    TraceLe (2 * (iterateDirTree (clean name)).length) (realPath cfg name) := by
  unfold realPath resolvePathWithInfo
  have : 2 * (iterateDirTree (clean name)).length = 2 * (iterateDirTree (clean name)).length + 0 := by omega
  rw [this]
  apply TraceLe.bind
  · split
    · exact (TraceLe.throw _).mono (by omega)
    · exact resolveLoop_traceLe cfg _ _ _ _
  · intro r
    exact TraceLe.pure _

end F16
end BFS
