import Lemmas.URel
import Lemmas.GRes
/-!
  Lemmas/UName.lean — related outcomes of name resolution (`U.NRel`) for the caller's name on one disk
  and BackupFS's resolved name on another disk with the same base view.

  * `namei_follow_eq`: resolution that follows a final symlink gives the result of the non-following
    one whenever that result is not a symlink;
  * `nrel_same_text`: two `OSGoodL` disks with the same base view resolve a text whose key (at or below
    the base root) has no symlink among its proper ancestors to related outcomes;
  * `nrel_flat`: on a `Flat` disk `m1` the caller's name `kp (bk ++ k)` (through symlinked directories)
    and, on a disk `m2` with the same base view, the resolved name `kp (bk ++ resK m1 bk [] k)` have
    related outcomes — non-following, and following when the resolved key is not a symlink.
-/
namespace BFS
namespace U
open MFS F16

/-- the outcome is not "found a symlink" -/
def NotLinkRes : Res → Prop
  | .found _ (.link _ _) => False
  | _ => True

theorem walk_follow_eq (m : MFS) : ∀ (fuel hops : Nat) (cur : Key) (cs : List Name),
    NotLinkRes (walk m false fuel hops cur cs) → walk m true fuel hops cur cs = walk m false fuel hops cur cs := by
  intro fuel
  induction fuel with
  | zero => intro hops cur cs _; simp only [walk]
  | succ fuel ih =>
    intro hops cur cs h
    cases cs with
    | nil => simp only [walk]
    | cons c rest =>
      simp only [walk] at h ⊢
      by_cases h1 : (c = [] || c = dot) = true
      · simp only [h1, if_true] at h ⊢
        exact ih _ _ _ h
      · simp only [h1, if_false] at h ⊢
        by_cases h2 : c = dotdot
        · simp only [h2, if_true] at h ⊢
          exact ih _ _ _ h
        · simp only [h2, if_false] at h ⊢
          cases hg : m.get (cur ++ [c]) with
          | none => rfl
          | some n =>
            rw [hg] at h
            cases n with
            | dir mt => exact ih _ _ _ h
            | file ct mt => rfl
            | link t mt =>
              simp only at h ⊢
              cases htr : trivialRest rest with
              | true =>
                simp only [htr, Bool.not_false, Bool.and_self, if_true] at h
                exact absurd h id
              | false =>
                simp only [htr, Bool.false_and, Bool.false_eq_true, if_false] at h ⊢
                by_cases h3 : hops ≥ 40
                · simp only [h3, if_true]
                · simp only [h3, if_false] at h ⊢
                  by_cases h4 : t = []
                  · simp only [h4, if_true]
                  · simp only [h4, if_false] at h ⊢
                    exact ih _ _ _ h

theorem namei_follow_eq (m : MFS) (p : Path) (h : NotLinkRes (namei m p false)) :
    namei m p true = namei m p false := by
  unfold namei at h ⊢
  split
  · rfl
  · rename_i hp
    rw [if_neg hp] at h
    exact walk_follow_eq m _ _ _ _ h

section
variable {bk kk : Key}

/-- a key at or below the base root has no symlink among its proper ancestors on a disk with the
same base view, if it has none on the other -/
theorem noLinkProper_transfer {m1 m2 : MFS} (hg2 : L.OSGoodL bk kk m2) (hb : UEq bk m1 m2) {r : Key}
    (h : L.NoLinkProper m1 (bk ++ r)) : L.NoLinkProper m2 (bk ++ r) := by
  intro p hp hne t mt hget
  rcases List.prefix_or_prefix_of_prefix hp (List.prefix_append bk r) with h1 | h1
  · obtain ⟨mt0, hr⟩ := hg2.bdir
    by_cases he : p = bk
    · rw [he, hr] at hget; cases hget
    · obtain ⟨mt1, h2⟩ := hg2.ancestor hr h1 he
      rw [h2] at hget; cases hget
  · obtain ⟨t1, mt1, h1'⟩ := (hb.link_iff h1).mpr ⟨t, mt, hget⟩
    exact h p hp hne t1 mt1 h1'

/-- along the way to a key at or below `bk` the two disks have nodes of the same kind -/
theorem kinds_along {m1 m2 : MFS} (hg1 : L.OSGoodL bk kk m1) (hg2 : L.OSGoodL bk kk m2) (hb : UEq bk m1 m2)
    {K : Key} (hK : bk <+: K) (p : Key) (hp : p <+: K) :
    (m1.get p).map Node.kind = (m2.get p).map Node.kind := by
  have hkind : ∀ q, bk <+: q → (m1.get q).map Node.kind = (m2.get q).map Node.kind := by
    intro q hq
    have := congrArg (fun o => Option.map Node.kind o) (hb.get q hq)
    simp only [Option.map_map] at this
    have e : Node.kind ∘ ev bk = Node.kind := by
      funext n
      exact L.eraseV_kind (kp bk) n
    rw [e] at this
    exact this
  rcases List.prefix_or_prefix_of_prefix hK hp with h | h
  · exact hkind p h
  · by_cases he : p = bk
    · subst he
      exact hkind p List.prefix_rfl
    · obtain ⟨mt1, h1⟩ := hg1.bdir
      obtain ⟨mt2, h2⟩ := hg2.bdir
      obtain ⟨a, ha⟩ := hg1.ancestor h1 h he
      obtain ⟨b, hb'⟩ := hg2.ancestor h2 h he
      rw [ha, hb']
      rfl

/-- the same text on two disks with the same base view: related outcomes -/
theorem nrel_same_text (hr : Roots bk kk) {m1 m2 : MFS} (hg1 : L.OSGoodL bk kk m1) (hg2 : L.OSGoodL bk kk m2)
    (hb : UEq bk m1 m2) {r : Key} (hrk : PKey r) (hnl1 : L.NoLinkProper m1 (bk ++ r)) :
    NRel bk m1 m2 (namei m1 (kp (bk ++ r)) false) (namei m2 (kp (bk ++ r)) false) := by
  have hK : PKey (bk ++ r) := hr.pb.append hrk
  have hpre : bk <+: bk ++ r := List.prefix_append _ _
  have hnl2 := noLinkProper_transfer hg2 hb hnl1
  have hne_of_none : m1.get (bk ++ r) = none → bk ++ r ≠ bk := by
    intro h e
    obtain ⟨mt, hm⟩ := hg1.bdir
    rw [e, hm] at h
    cases h
  rcases L.namei_cases_nf hg1 hK hnl1 (TextOf.kp _) with ⟨n1, h1, hr1⟩ | ⟨hne, mt1, h1, hp1, hr1⟩ |
    ⟨e1, hne, h1, hp1, hr1, he1⟩
  · obtain ⟨n2, h2, he⟩ := map_ev_some (hb.get _ hpre) h1
    rcases L.namei_cases_nf hg2 hK hnl2 (TextOf.kp _) with ⟨n2', h2', hr2⟩ | ⟨_, _, h2', _, _⟩ | ⟨_, _, h2', _, _, _⟩
    · rw [h2] at h2'
      cases h2'
      rw [hr1, hr2]
      exact .found _ n1 n2 hpre h1 h2 he
    · rw [h2] at h2'; cases h2'
    · rw [h2] at h2'; cases h2'
  · have h2 : m2.get (bk ++ r) = none := (hb.none_iff hpre).mp h1
    have hpp : bk <+: (bk ++ r).dropLast := prefix_dropLast hpre (fun e => hne_of_none h1 e.symm)
    obtain ⟨n2, hp2, hpe⟩ := map_ev_some (hb.get _ hpp) hp1
    obtain ⟨mt2, rfl, _⟩ := ev_dir_left hpe
    have hsplit := dropLast_append_getLast' hne
    rcases L.namei_cases_nf hg2 hK hnl2 (TextOf.kp _) with ⟨n2', h2', _⟩ | ⟨hne2, mt2', _, _, hr2⟩ | ⟨_, _, _, hp2', _, _⟩
    · rw [h2] at h2'; cases h2'
    · rw [hr1, hr2]
      exact .missing _ _ mt1 mt2 hpp (by rw [hsplit]; exact h1) (by rw [hsplit]; exact h2) hp1 hp2 hpe
    · exact absurd ⟨mt2, hp2⟩ hp2'
  · have h2 : m2.get (bk ++ r) = none := (hb.none_iff hpre).mp h1
    rcases L.namei_cases_nf hg2 hK hnl2 (TextOf.kp _) with ⟨n2', h2', _⟩ | ⟨_, mt2', _, hp2', _⟩ | ⟨e2, _, _, _, hr2, _⟩
    · rw [h2] at h2'; cases h2'
    · have hpp : bk <+: (bk ++ r).dropLast := prefix_dropLast hpre (fun e => hne_of_none h1 e.symm)
      exact absurd ((hb.dir_iff hpp).mpr ⟨mt2', hp2'⟩) hp1
    · -- same error: walk both disks
      obtain ⟨tl, fuel, htl, hf, hw⟩ := namei_walk' hK (TextOf.kp (bk ++ r))
      have hsh := walk_shape m1 m2 false 0 tl htl (bk ++ r) [] fuel hK
        (fun p hp => by simpa using kinds_along hg1 hg2 hb hpre p hp)
        (fun p hp _ t mt => by
          by_cases hpe : p = bk ++ r
          · rw [List.nil_append, hpe, h1]; exact fun h => by cases h
          · simpa using hnl1 p hp hpe t mt) hf
      rw [← hw m1 false, ← hw m2 false, hr1, hr2] at hsh
      have : e1 = e2 := hsh
      subst this
      rw [hr1, hr2]
      exact .err e1

/-- `NRel` along an equality of outcomes on the first disk -/
theorem NRel.of_eq_left {m1 m2 : MFS} {r1 r1' r2 : Res} (h : NRel bk m1 m2 r1 r2) (e : r1' = r1) :
    NRel bk m1 m2 r1' r2 := e ▸ h

theorem NRel.notLink_left {m1 m2 : MFS} {r1 r2 : Res} (h : NRel bk m1 m2 r1 r2) (hn : NotLinkRes r1) :
    NotLinkRes r2 := by
  cases h with
  | found K n1 n2 hK h1 h2 he =>
    cases n2 with
    | link t2 mt2 =>
      have : n1.isLink = true := by rw [ev_isLink he]; rfl
      obtain ⟨t1, mt1, rfl⟩ := L.isLink_true this
      exact absurd hn id
    | file c mt => trivial
    | dir mt => trivial
  | missing P c mt1 mt2 hP h1 h2 hp1 hp2 hpe => trivial
  | err e => trivial

/-- **the caller's name on `m1`, the resolved name on `m2`** — non-following resolution, and following
resolution when the resolved key is not a symlink -/
theorem nrel_flat (hr : Roots bk kk) {m1 m2 : MFS} (hg1 : L.OSGoodL bk kk m1) (hg2 : L.OSGoodL bk kk m2)
    (hb : UEq bk m1 m2) (hflat : Flat bk m1) {k : Key} (hk : PKey k) (hlen : k.length ≤ 40) (f : Bool)
    (hfin : f = true → ∀ t mt, m1.get (bk ++ resK m1 bk [] k) ≠ some (.link t mt)) :
    NRel bk m1 m2 (namei m1 (kp (bk ++ k)) f) (namei m2 (kp (bk ++ resK m1 bk [] k)) f) := by
  have hrk : PKey (resK m1 bk [] k) := resK_pkey hr.pb hg1 hflat k [] PKey.nil hk
  have hnl1 : L.NoLinkProper m1 (bk ++ resK m1 bk [] k) :=
    fun p hp hne t mt => resK_nolink hg1 hflat k [] (noLinkUpto_root hg1) p hp hne t mt
  have hres := namei_resK hr hg1 hflat hk hlen
  have hbase : NRel bk m1 m2 (namei m1 (kp (bk ++ k)) false) (namei m2 (kp (bk ++ resK m1 bk [] k)) false) :=
    (nrel_same_text hr hg1 hg2 hb hrk hnl1).of_eq_left hres.symm
  cases f with
  | false => exact hbase
  | true =>
    have hfin' := hfin rfl
    have hn1 : NotLinkRes (namei m1 (kp (bk ++ k)) false) := by
      rw [← hres]
      rcases L.namei_cases_nf hg1 (hr.pb.append hrk) hnl1 (TextOf.kp _) with ⟨n1, h1, hr1⟩ | ⟨_, _, _, _, hr1⟩ |
        ⟨_, _, _, _, hr1, _⟩
      · rw [hr1]
        cases n1 with
        | link t mt => exact absurd h1 (hfin' t mt)
        | file c mt => trivial
        | dir mt => trivial
      · rw [hr1]; trivial
      · rw [hr1]; trivial
    have hn2 := hbase.notLink_left hn1
    rw [namei_follow_eq m1 _ hn1, namei_follow_eq m2 _ hn2]
    exact hbase

end

end U
end BFS
