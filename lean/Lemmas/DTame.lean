import Lemmas.DConfL
/-!
  Lemmas/DTame.lean — tameness of the symlinks below `pk` is preserved by every OS call with names
  at/below `pk`, except a `symlink` call that stores an untame target: no syscall rewrites a stored
  target, `rename` moves links with their targets, and tameness of a target does not depend on where
  the link is.  Likewise the directory `pk` stays a directory unless it is removed.
-/
namespace BFS
namespace D
open MFS

section
variable {pk : Key}

/-- every symlink below `pk` in `m'` carries a target satisfying `P`, or the target of some symlink
below `pk` in `m` -/
def LinksFrom (pk : Key) (m m' : MFS) (P : Path → Prop) : Prop :=
  ∀ k t mt, pk <+: k → m'.get k = some (.link t mt) →
    P t ∨ ∃ k0 mt0, pk <+: k0 ∧ m.get k0 = some (.link t mt0)

theorem LinksFrom.refl (m : MFS) (P : Path → Prop) : LinksFrom pk m m P :=
  fun k _ mt hk h => Or.inr ⟨k, mt, hk, h⟩

theorem tame_of_linksFrom {m m' : MFS} {P : Path → Prop} (ht : Tame pk m) (h : LinksFrom pk m m' P)
    (hP : ∀ t, P t → TameTarget pk t) : Tame pk m' := by
  intro k t mt hk hl
  rcases h k t mt hk hl with hp | ⟨k0, mt0, hk0, h0⟩
  · exact hP t hp
  · exact ht k0 t mt0 hk0 h0

theorem LinksFrom.touch {m m' : MFS} {P : Path → Prop} (h : LinksFrom pk m m' P) (p : Key) :
    LinksFrom pk m (m'.touchDir p) P := by
  intro k t mt hk hl
  rcases touchDir_cases m' p with ⟨mt0, hp, e⟩ | e
  · rw [e] at hl
    rcases set_get_some hl with ⟨_, e'⟩ | ⟨_, h'⟩
    · cases e'
    · exact h k t mt hk h'
  · rw [e] at hl; exact h k t mt hk hl

theorem linksFrom_set {m : MFS} (K : Key) (v : Option Node) (P : Path → Prop)
    (hv : ∀ t mt, v = some (.link t mt) → P t ∨ ∃ k0 mt0, pk <+: k0 ∧ m.get k0 = some (.link t mt0)) :
    LinksFrom pk m (m.set K v) P := by
  intro k t mt hk hl
  rcases set_get_some hl with ⟨_, e⟩ | ⟨_, h'⟩
  · exact hv t mt e
  · exact Or.inr ⟨k, mt, hk, h'⟩

theorem linksFrom_removeSubtree (m : MFS) (K : Key) (P : Path → Prop) :
    LinksFrom pk m (m.removeSubtree K) P := by
  intro k t mt hk hl
  exact Or.inr ⟨k, mt, hk, (removeSubtree_get_some hl).2⟩

theorem linksFrom_moveSubtree (m : MFS) {Ko Kn : Key} (hKo : pk <+: Ko) (P : Path → Prop) :
    LinksFrom pk m (m.moveSubtree Ko Kn) P := by
  intro k t mt hk hl
  rcases moveSubtree_get_some hl with ⟨x, _, h'⟩ | ⟨_, _, h'⟩
  · exact Or.inr ⟨Ko ++ x, mt, hKo.trans (List.prefix_append _ _), h'⟩
  · exact Or.inr ⟨k, mt, hk, h'⟩

theorem setMeta_link {a : Node} {mt' : Meta} {t : Path} {mt : Meta} (h : a.setMeta mt' = .link t mt) :
    ∃ mt0, a = .link t mt0 := by
  cases a with
  | file c m0 => cases h
  | dir m0 => cases h
  | link t0 m0 =>
    simp only [Node.setMeta, Node.link.injEq] at h
    exact ⟨m0, by rw [h.1]⟩

/-! ### per syscall -/

theorem lf_metaOp {m : MFS} {K : Key} {t : Path} {follow : Bool} {f : Node → Node}
    (hf : ∀ a tg mt, f a = .link tg mt → ∃ mt0, a = .link tg mt0) (hK : pk <+: K)
    (h : NC m K (namei m t follow)) : LinksFrom pk m (metaOp m t follow f).1 (fun _ => False) := by
  unfold metaOp
  rcases h with ⟨n, hn, hr⟩ | ⟨hne, mt, hn, hp, hr⟩ | ⟨e, hr⟩
  · rw [hr]
    apply linksFrom_set
    intro tg mt e
    simp only [Option.some.injEq] at e
    obtain ⟨mt0, rfl⟩ := hf n tg mt e
    exact Or.inr ⟨K, mt0, hK, hn⟩
  · rw [hr]; exact LinksFrom.refl _ _
  · rw [hr]; exact LinksFrom.refl _ _

theorem chownF_link (u g : Int) : ∀ a tg mt, chownF u g a = .link tg mt → ∃ mt0, a = .link tg mt0 := by
  intro a tg mt h
  unfold chownF at h
  exact setMeta_link h

theorem lf_chmod {m : MFS} {K : Key} {t : Path} (mode : Nat) (hK : pk <+: K) (h : NC m K (namei m t true)) :
    LinksFrom pk m (m.chmod t mode).1 (fun _ => False) := by
  rw [mfs_chmod_eq]; exact lf_metaOp (fun _ _ _ e => setMeta_link e) hK h

theorem lf_chown {m : MFS} {K : Key} {t : Path} (u g : Int) (hK : pk <+: K) (h : NC m K (namei m t true)) :
    LinksFrom pk m (m.chown t u g).1 (fun _ => False) := by
  rw [mfs_chown_eq]; exact lf_metaOp (chownF_link u g) hK h

theorem lf_lchown {m : MFS} {K : Key} {t : Path} (u g : Int) (hK : pk <+: K) (h : NC m K (namei m t false)) :
    LinksFrom pk m (m.lchown t u g).1 (fun _ => False) := by
  rw [mfs_lchown_eq]; exact lf_metaOp (chownF_link u g) hK h

theorem lf_chtimes {m : MFS} {K : Key} {t : Path} (mt : Time) (hK : pk <+: K) (h : NC m K (namei m t true)) :
    LinksFrom pk m (m.chtimes t mt).1 (fun _ => False) := by
  rw [mfs_chtimes_eq]; exact lf_metaOp (fun _ _ _ e => setMeta_link e) hK h

theorem lf_dirExt {m m' : MFS} (h : DirExt m m') : LinksFrom pk m m' (fun _ => False) := by
  intro k t mt hk hl
  rcases h k with e | ⟨_, mt', e⟩ | e
  · exact Or.inr ⟨k, mt, hk, e ▸ hl⟩
  · rw [hl] at e; cases e
  · rcases e with e | ⟨mt', _, e⟩
    · exact Or.inr ⟨k, mt, hk, e ▸ hl⟩
    · rw [hl] at e; cases e

theorem lf_symlink {m : MFS} {K : Key} {t : Path} (o : Path) (h : NC m K (namei m t false)) :
    LinksFrom pk m (m.symlink o t).1 (fun tg => tg = o) := by
  unfold MFS.symlink
  split
  · exact LinksFrom.refl _ _
  rcases h with ⟨n, hn, hr⟩ | ⟨hne, mt, hn, hp, hr⟩ | ⟨e, hr⟩
  · rw [hr]; exact LinksFrom.refl _ _
  · rw [hr]
    apply LinksFrom.touch
    apply linksFrom_set
    intro tg mt e
    cases e
    exact Or.inl rfl
  · rw [hr]; exact LinksFrom.refl _ _

theorem lf_openFile {m : MFS} {K : Key} {t : Path} (flag perm : Nat)
    (h : NC m K (namei m t (!(hasFlag flag O_CREATE && hasFlag flag O_EXCL)))) :
    LinksFrom pk m (m.openFile t flag perm).1 (fun _ => False) := by
  unfold MFS.openFile
  simp only
  rcases h with ⟨n, hn, hr⟩ | ⟨hne, mt, hn, hp, hr⟩ | ⟨e, hr⟩
  · rw [hr]
    simp only
    split
    · exact LinksFrom.refl _ _
    · cases n with
      | dir mt => simp only; split <;> exact LinksFrom.refl _ _
      | link tg mt => exact LinksFrom.refl _ _
      | file c mt =>
        simp only
        split
        · apply linksFrom_set
          intro tg mt' e
          cases e
        · exact LinksFrom.refl _ _
  · rw [hr]
    simp only
    split
    · exact LinksFrom.refl _ _
    · apply LinksFrom.touch
      apply linksFrom_set
      intro tg mt' e
      cases e
  · rw [hr]; exact LinksFrom.refl _ _

theorem lf_remove {m : MFS} {K : Key} {t : Path} (h : NC m K (namei m t false)) :
    LinksFrom pk m (m.remove t).1 (fun _ => False) := by
  unfold MFS.remove
  have key : LinksFrom pk m ((m.set K none).touchDir (parentKey K)) (fun _ => False) := by
    apply LinksFrom.touch
    apply linksFrom_set
    intro tg mt' e
    cases e
  rcases h with ⟨n, hn, hr⟩ | ⟨hne, mt, hn, hp, hr⟩ | ⟨e, hr⟩
  · rw [hr]
    simp only
    split
    · exact LinksFrom.refl _ _
    · cases n with
      | dir mt =>
        simp only
        split
        · exact LinksFrom.refl _ _
        · exact key
      | file c mt => exact key
      | link tg mt => exact key
  · rw [hr]; exact LinksFrom.refl _ _
  · rw [hr]; exact LinksFrom.refl _ _

theorem lf_removeAll {m : MFS} {K : Key} {t : Path} (h : NC m K (namei m t false)) :
    LinksFrom pk m (m.removeAll t).1 (fun _ => False) := by
  unfold MFS.removeAll
  split
  · exact LinksFrom.refl _ _
  split
  · exact LinksFrom.refl _ _
  rcases h with ⟨n, hn, hr⟩ | ⟨hne, mt, hn, hp, hr⟩ | ⟨e, hr⟩
  · rw [hr]
    simp only
    split
    · exact LinksFrom.refl _ _
    · exact (linksFrom_removeSubtree m K _).touch _
  · rw [hr]; exact LinksFrom.refl _ _
  · rw [hr]
    cases e <;> exact LinksFrom.refl _ _

theorem lf_rename {m : MFS} {Ko Kn : Key} {to tn : Path} (hKo : pk <+: Ko)
    (ho : NC m Ko (namei m to false)) (hn : NC m Kn (namei m tn false)) :
    LinksFrom pk m (m.rename to tn).1 (fun _ => False) := by
  rcases rename_frame ho hn with h | _
  · rw [h]; exact LinksFrom.refl _ _
  · -- the state is the moved one: read it off the definition again
    unfold MFS.rename
    simp only
    have key : ∀ kn : Key, LinksFrom pk m (((m.moveSubtree Ko kn).touchDir (parentKey Ko)).touchDir (parentKey kn))
        (fun _ => False) := fun kn => ((linksFrom_moveSubtree m hKo _).touch _).touch _
    rcases hn with ⟨nn, hnn, hrn⟩ | ⟨hnne, mtn, hnn, hpn, hrn⟩ | ⟨en, hrn⟩
    · rcases ho with ⟨no, hno, hro⟩ | ⟨hone, mto, hno, hpo, hro⟩ | ⟨eo, hro⟩
      · rw [hrn, hro]
        cases nn with
        | dir mt =>
          simp only
          by_cases hc : Ko = Kn ∧ to ≠ tn
          · simp only [hc, and_self, if_true, ne_eq, not_false_eq_true]
            exact LinksFrom.refl _ _
          · simp only [hc, if_false]
            exact LinksFrom.refl _ _
        | file c mt =>
          simp only
          repeat (first | exact LinksFrom.refl _ _ | exact key _ | split)
        | link tg mt =>
          simp only
          repeat (first | exact LinksFrom.refl _ _ | exact key _ | split)
      · rw [hrn, hro]
        cases nn <;> exact LinksFrom.refl _ _
      · rw [hrn, hro]
        cases nn <;> exact LinksFrom.refl _ _
    · rcases ho with ⟨no, hno, hro⟩ | ⟨hone, mto, hno, hpo, hro⟩ | ⟨eo, hro⟩
      · rw [hrn, hro]
        simp only
        split
        · exact LinksFrom.refl _ _
        · exact key _
      · rw [hrn, hro]; exact LinksFrom.refl _ _
      · rw [hrn, hro]; exact LinksFrom.refl _ _
    · rw [hrn]
      rcases ho with ⟨no, hno, hro⟩ | ⟨hone, mto, hno, hpo, hro⟩ | ⟨eo, hro⟩ <;>
        (rw [hro]; exact LinksFrom.refl _ _)

end
end D
end BFS
