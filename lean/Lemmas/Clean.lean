import Model.Spec
/-! Structure of `splitSep`, `joinSep`, `cleanC`, `render`. -/
namespace BFS

theorem splitSep_ne_nil (p : Path) : splitSep p ≠ [] := by
  cases p with
  | nil => simp [splitSep]
  | cons c cs =>
    simp only [splitSep]
    split
    · simp
    · split <;> simp

theorem splitSep_sepfree : ∀ (p : Path) (w : Name), w ∈ splitSep p → '/' ∉ w
  | [], w, h => by simp [splitSep] at h; subst h; simp
  | c :: cs, w, h => by
    simp only [splitSep] at h
    split at h
    · rcases List.mem_cons.mp h with rfl | h
      · simp
      · exact splitSep_sepfree cs w h
    · rename_i hc
      split at h
      · simp at h; subst h; simp; exact fun e => hc e.symm
      · rename_i w0 ws heq
        rcases List.mem_cons.mp h with rfl | h
        · have := splitSep_sepfree cs w0 (by rw [heq]; simp)
          simp; exact ⟨fun e => hc e.symm, this⟩
        · exact splitSep_sepfree cs w (by rw [heq]; simp [h])

theorem nameOK_dotdot : NameOK dotdot := by
  unfold NameOK dotdot; decide

theorem cleanStep_nameOK {rooted st c} (hst : ∀ n ∈ st, NameOK n) (hc : '/' ∉ c) :
    ∀ n ∈ cleanStep rooted st c, NameOK n := by
  unfold cleanStep
  split
  · exact hst
  · split
    · exact hst
    · split
      · rename_i hdd
        cases st with
        | nil =>
          simp only
          split
          · simp
          · intro n hn; simp at hn; subst hn; rw [hdd]; exact nameOK_dotdot
        | cons t rest =>
          simp only
          split
          · intro n hn
            rcases List.mem_cons.mp hn with rfl | hn
            · rw [hdd]; exact nameOK_dotdot
            · exact hst n hn
          · intro n hn; exact hst n (List.mem_cons_of_mem _ hn)
      · rename_i hne _ _
        intro n hn
        rcases List.mem_cons.mp hn with rfl | hn
        · exact ⟨hne, hc⟩
        · exact hst n hn

theorem foldl_cleanStep_nameOK (rooted : Bool) :
    ∀ (ws : List Name) (st : List Name), (∀ w ∈ ws, '/' ∉ w) → (∀ n ∈ st, NameOK n) →
      ∀ n ∈ ws.foldl (cleanStep rooted) st, NameOK n
  | [], st, _, hst => by simpa using hst
  | w :: ws, st, hws, hst => by
    simp only [List.foldl_cons]
    apply foldl_cleanStep_nameOK rooted ws
    · intro w' hw'; exact hws w' (List.mem_cons_of_mem _ hw')
    · exact cleanStep_nameOK hst (hws w (by simp))

theorem cleanC_NF (p : Path) : (cleanC p).NF := by
  intro n hn
  simp only [cleanC, List.mem_reverse] at hn
  exact foldl_cleanStep_nameOK _ _ [] (splitSep_sepfree p) (by simp) n hn

end BFS
