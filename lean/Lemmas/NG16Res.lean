import Lemmas.NG16Def
/-!
  Lemmas/NG16Res.lean — the kernel side of "names through flat links" in the nested layering: for a
  name whose resolution stays OUTSIDE the location (`¬ hk <+: resN …`), on a disk whose VISIBLE links
  are flat (`FlatN`), the kernel — resolving the caller's path without following the final component —
  ends exactly where it ends on the resolved path.  (Lemmas/F16Res.lean with the refusal clause; the
  links below the location are never met by such a walk and need not be flat.)
-/
namespace BFS
namespace NG
open MFS F16

section
variable {bk hk kk : Key} {m : MFS}

/-- the kernel's walk over the caller's remaining components from the directory resolved so far ends
as the canonical walk over the resolved path does -/
theorem walk_resN (hg : L.OSGoodL bk kk m) (hflat : FlatN bk hk m) :
    ∀ (S : List Name) (d : Key) (fuel hops : Nat), PKey S → S ≠ [] → ¬ hk <+: resN m bk hk d S →
      (∃ mt, m.get (bk ++ d) = some (.dir mt)) → hops + S.length ≤ 40 → 101 * S.length < fuel →
      walk m false fuel hops (bk ++ d) S = nf m (bk ++ resN m bk hk d S)
  | [], _, _, _, _, h, _, _, _, _ => absurd rfl h
  | [s], d, fuel, hops, hS, _, _, hd, _, hf => by
    rw [resN_single, ← List.append_assoc, nf_live hg hd]
    apply walk_indep m [s] (bk ++ d) fuel _ hops 0 hS
    · intro p hp hne hne'
      exfalso
      obtain ⟨r, hr⟩ := hp
      cases p with
      | nil => exact hne rfl
      | cons x xs =>
        simp only [List.cons_append, List.cons.injEq] at hr
        have : xs = [] := (List.append_eq_nil_iff.mp hr.2).1
        apply hne'; rw [hr.1, this]
    · simp at hf ⊢; omega
    · simp
  | s :: s' :: S, d, fuel, hops, hS, _, hout, hd, hh, hf => by
    have hne : s' :: S ≠ [] := by simp
    have hs : Plain s := hS s (by simp)
    have hS' : PKey (s' :: S) := fun n hn => hS n (List.mem_cons_of_mem _ hn)
    have htr : trivialRest (s' :: S) = false := trivialRest_pkey hS' hne
    have hvis : ¬ hk <+: d ++ [s] := by
      intro hhid
      rw [resN_hid _ hhid] at hout
      exact hout (hid_append _ hhid)
    obtain ⟨g, rfl⟩ : ∃ g, fuel = g + 1 := ⟨fuel - 1, by omega⟩
    simp only [List.length_cons] at hh hf
    rw [walk_step m false g hops (bk ++ d) hs]
    cases hk' : m.get (bk ++ d ++ [s]) with
    | none =>
      simp only [htr]
      rw [resN_none hk']
      have hw : bk ++ (d ++ s :: s' :: S) = (bk ++ d) ++ s :: s' :: S := by simp
      rw [hw]
      unfold nf
      exact ((walk_root_fail hg false hd hs (s' :: S) htr (by simp; omega)).1 hk').symm
    | some n =>
      cases n with
      | file ct mt =>
        simp only [htr]
        rw [resN_file hk']
        have hw : bk ++ (d ++ s :: s' :: S) = (bk ++ d) ++ s :: s' :: S := by simp
        rw [hw]
        unfold nf
        exact ((walk_root_fail hg false hd hs (s' :: S) htr (by simp; omega)).2 ct mt hk').symm
      | dir mt =>
        simp only
        rw [resN_dir hne hvis hk'] at hout ⊢
        rw [List.append_assoc] at hk' ⊢
        exact walk_resN hg hflat (s' :: S) (d ++ [s]) g hops hS' hne hout ⟨mt, hk'⟩
          (by simp only [List.length_cons]; omega) (by simp only [List.length_cons]; omega)
      | link t mt =>
        rw [resN_link hne hvis hk'] at hout ⊢
        have hk'' := hk'
        rw [List.append_assoc] at hk''
        have hok := hflat.target hg hk'' hvis
        have hspec := effK_spec hok
        have h40 : ¬ hops ≥ 40 := by omega
        simp only [htr, Bool.false_and, Bool.false_eq_true, if_false, h40, hok.ne]
        -- the kernel starts at `startK`
        have hstart : (if isRooted t = true then [] else bk ++ d) = startK (bk ++ (d ++ [s])) t := by
          unfold startK
          rw [← List.append_assoc, List.dropLast_concat]
        rw [hstart]
        have hlive : ∃ mt, m.get (startK (bk ++ (d ++ [s])) t) = some (.dir mt) := by
          rw [← hstart]
          split
          · exact hg.root
          · exact hd
        have hE : lexK (startK (bk ++ (d ++ [s])) t) (splitSep t) = bk ++ effK bk (d ++ [s]) t := by
          rw [hspec]; rfl
        have hlen := hok.len
        rcases walk_target hg (!isRooted t) false (s' :: S) htr (splitSep t) _ g (hops + 1)
          (fun c hc => splitSep_sepfree t c hc) hlive hok.dd hok.nolink (by omega) with
          ⟨hl, hw⟩ | ⟨hdead, e, hw, hcanon⟩
        · rw [hw, hE]
          rw [hE] at hl
          exact walk_resN hg hflat (s' :: S) _ (g - (splitSep t).length) (hops + 1) hS' hne hout hl
            (by simp only [List.length_cons]; omega) (by simp only [List.length_cons]; omega)
        · rw [hw]
          rw [hE] at hdead hcanon
          rw [resN_dead hg hdead, ← List.append_assoc]
          unfold nf
          exact (hcanon _ 0 (by simp; omega)).symm

/-- no proper ancestor of a resolved path outside the location is a symlink on the disk -/
theorem resN_nolink_out (hg : L.OSGoodL bk kk m) (hflat : FlatN bk hk m) (S : List Name) (D : Key)
    (hD : NoLinkUpto m (bk ++ D)) (hout : ¬ hk <+: resN m bk hk D S) : L.NoLinkProper m (bk ++ resN m bk hk D S) := by
  intro p hp hne t mt hget
  rcases List.prefix_or_prefix_of_prefix hp (List.prefix_append bk _) with h1 | h1
  · obtain ⟨mt0, h0⟩ := hg.bdir
    by_cases he : p = bk
    · rw [he, h0] at hget; cases hget
    · obtain ⟨mt1, h1'⟩ := hg.ancestor h0 h1 he
      rw [h1'] at hget; cases hget
  · obtain ⟨q, rfl⟩ := h1
    have hq : q <+: resN m bk hk D S := (List.prefix_append_right_inj _).mp hp
    exact resN_nolink hg hflat S D hD q hq (fun e => hne (by rw [e]))
      (fun hh => hout (List.IsPrefix.trans hh hq)) t mt hget

/-- name resolution that does not follow the final component gives the same outcome — the same
physical entry, or the same parent directory and final name, or the same error — on the caller's
path and on the resolved path, for a name that resolves outside the location -/
theorem namei_resN (hr : Roots bk kk) (hg : L.OSGoodL bk kk m) (hflat : FlatN bk hk m) {k : Key} (hk' : PKey k)
    (hlen : k.length ≤ 40) (hout : ¬ hk <+: resN m bk hk [] k) :
    namei m (kp (bk ++ resN m bk hk [] k)) false = namei m (kp (bk ++ k)) false := by
  by_cases hne : k = []
  · subst hne; rfl
  · have hpr := resN_pkey hr.pb hg hflat k [] PKey.nil hk'
    have hnl := resN_nolink_out hg hflat k [] (noLinkUpto_root hg) hout
    rw [namei_kp_nf (hr.pb.append hpr) (by simp [hr.nb]) hnl]
    rw [namei_eq_walk m false (hr.pb.append hk') (by simp [hr.nb])]
    rw [walk_from_root hg false hg.bdir k (by simp; omega)]
    have := walk_resN hg hflat k [] (4096 + (bk ++ k).length - bk.length) 0 hk' hne hout
      (by simpa using hg.bdir) (by omega) (by simp; omega)
    rw [List.append_nil] at this
    exact this.symm

/-- a prefix `A` of the caller's path that names nothing under OS semantics and resolves outside the
location: its resolved form is absent from the disk -/
theorem resN_absent_of_not_found (hr : Roots bk kk) (hg : L.OSGoodL bk kk m) (hflat : FlatN bk hk m) {A : Key}
    (hA : PKey A) (hlen : A.length ≤ 40) (hout : ¬ hk <+: resN m bk hk [] A)
    (hnf : ∀ K n, namei m (kp (bk ++ A)) false ≠ .found K n) :
    m.get (bk ++ resN m bk hk [] A) = none := by
  have hpr := resN_pkey hr.pb hg hflat A [] PKey.nil hA
  have hnl := resN_nolink_out hg hflat A [] (noLinkUpto_root hg) hout
  rw [← namei_resN hr hg hflat hA hlen hout] at hnf
  rcases L.namei_cases_nf hg (hr.pb.append hpr) hnl (TextOf.kp _) with
    ⟨n, _, hres⟩ | ⟨_, _, hn, _, _⟩ | ⟨_, _, hn, _, _, _⟩
  · exact absurd hres (hnf _ _)
  · exact hn
  · exact hn

/-- where the OS ends for a name that resolves outside the location: at the resolved key itself (if
it exists), or nowhere — never at another entry -/
theorem namei_found_resN (hr : Roots bk kk) (hg : L.OSGoodL bk kk m) (hflat : FlatN bk hk m) {k : Key} (hk' : PKey k)
    (hlen : k.length ≤ 40) (hout : ¬ hk <+: resN m bk hk [] k) {K : Key} {n : Node}
    (hf : namei m (kp (bk ++ k)) false = .found K n) : K = bk ++ resN m bk hk [] k := by
  have hpr := resN_pkey hr.pb hg hflat k [] PKey.nil hk'
  have hnl := resN_nolink_out hg hflat k [] (noLinkUpto_root hg) hout
  rw [← namei_resN hr hg hflat hk' hlen hout] at hf
  rcases L.namei_cases_nf hg (hr.pb.append hpr) hnl (TextOf.kp _) with
    ⟨n', _, hres⟩ | ⟨_, _, _, _, hres⟩ | ⟨_, _, _, _, hres, _⟩
  · rw [hres] at hf; cases hf; rfl
  · rw [hres] at hf; cases hf
  · rw [hres] at hf; cases hf

end

end NG
end BFS
