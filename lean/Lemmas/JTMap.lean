import Lemmas.JTInfo
import Lemmas.JTNorm
/-! JSON text layer (C12): the whole map — `decodeMapL ∘ encodeMapL`. -/
namespace BFS.JsonText

/-- every non-nil entry respects the field ranges of the Go struct -/
def MapInRange (m : List (List Char × Option FInfo)) : Prop :=
  ∀ e ∈ m, ∀ f, e.2 = some f → f.InRange

/-- the members `renderMap` writes, with what reading each does to the map under construction -/
def mapMembers (m : List (List Char × Option FInfo)) :
    List (RMember (List (List Char × Option FInfo))) :=
  m.map (fun e => (e.1, encodeEntryL e.2, insertKV e.1 e.2))

theorem renderMap_eq (m : List (List Char × Option FInfo)) :
    renderMap m = '{' :: (renderMembers (mapMembers m) ++ ['}']) := by
  simp only [renderMap, renderMembers, mapMembers, List.map_map]
  rfl

theorem mapMembers_fold (m acc : List (List Char × Option FInfo)) :
    (mapMembers m).foldl (fun s u => u.2.2 s) acc
      = m.foldl (fun acc e => insertKV e.1 e.2 acc) acc := by
  simp only [mapMembers, List.foldl_map]

theorem mapMembers_ok (m : List (List Char × Option FInfo)) (hr : MapInRange m) :
    ∀ u ∈ mapMembers m, NoWsHead u.2.1 ∧
      ∀ st rest, Delim rest → mapMember u.1 st (u.2.1 ++ rest) = some (u.2.2 st, rest) := by
  intro u hu
  simp only [mapMembers, List.mem_map] at hu
  obtain ⟨e, he, rfl⟩ := hu
  refine ⟨noWsHead_encodeEntryL e.2, fun st rest _ => ?_⟩
  simp only [mapMember, entryValue_enc e.2 rest (hr e he)]

/-- an already canonical (or any) member list, rendered and read back: the map it denotes -/
theorem decodeMapL_renderMap (m : List (List Char × Option FInfo)) (hr : MapInRange m) :
    decodeMapL (renderMap m) = some (normalise m) := by
  rw [renderMap_eq]
  unfold decodeMapL
  simp only
  rw [skipWs_cons_of_not_ws '{' _ (by decide)]
  simp only [dropPrefix_null_none '{' _ (by decide), if_true]
  rw [parseObj_render mapMember (mapMembers m) [] [] (mapMembers_ok m hr), mapMembers_fold]
  simp only [skipWs, if_true]
  rfl

theorem mapInRange_normalise {m : List (List Char × Option FInfo)} (hr : MapInRange m) :
    MapInRange (normalise m) :=
  fun e he => hr e (mem_normalise he)

/-- **text round trip** (keys and names arbitrary Unicode strings, duplicates allowed: the last
assignment to a key wins on both sides) -/
theorem decodeMapL_encodeMapL (m : List (List Char × Option FInfo)) (hr : MapInRange m) :
    decodeMapL (encodeMapL m) = some (normalise m) := by
  unfold encodeMapL
  rw [decodeMapL_renderMap _ (mapInRange_normalise hr), normalise_idem]

/-- the text does not depend on the order in which the entries are listed -/
theorem encodeMapL_perm {m₁ m₂ : List (List Char × Option FInfo)} (hp : m₁.Perm m₂)
    (h : (keys m₁).Nodup) : encodeMapL m₁ = encodeMapL m₂ := by
  unfold encodeMapL
  rw [normalise_perm_invariant hp h]

end BFS.JsonText
