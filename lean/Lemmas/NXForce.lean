import Lemmas.NRestore
import Lemmas.Force
/-!
  Lemmas/NXForce.lean (copy of Lemmas/Force.lean over `N.Sim`; Sim-independent definitions shared) — `ForceBackup(p)` re-baselines a non-directory path (property C17), in the
  link-free fragment, generically over a `Sim`.

  `tryRemoveBackup (kp k)` drops the tracking entry of `k` (and the copy the backup holds); after
  that the transaction invariant holds for the original view *re-based at `k`*: `rebase v0 k x`
  with `x` the node the base shows at `k` now.  `tryBackup (kp k)` then keeps that invariant
  (`sat_tryBackup`, any fault plan), and so does every covered operation that follows, so the
  later `Rollback` (`sat_rollback`) puts `k` back to `x` and every other key to `v0`.
-/
namespace BFS.N
open BackupFS

variable {cfg : Cfg} {S : Sim cfg} {v0 : View}

/-! ### the re-based original view -/

/-- re-basing a tree at a key that was not a directory, with a node that is not a directory and
whose parent directory is part of the tree, gives a tree -/
theorem GoodView.rebase {Hid Par : Key → Prop} {v : View} {k : Key} (h0 : GoodView Hid Par v0)
    (hv : GoodView Hid Par v) (hk : PKey k)
    (horig : ¬ v0.isDirAt k) (hnow : ¬ v.isDirAt k) (hpar : v0.parentDir k) :
    GoodView Hid Par (rebase v0 k (v k)) := by
  obtain ⟨hkne, hpd⟩ := hpar
  refine ⟨?_, ?_, ?_, ?_, ?_, ?_, ?_, ?_⟩
  · intro j hj
    by_cases hjk : j = k
    · subst hjk; rw [rebase_self]; exact hv.hid hj
    · rw [rebase_ne v0 _ hjk]; exact h0.hid hj
  · intro j hj
    by_cases hjk : j = k
    · subst hjk; exact absurd (h0.par hj) horig
    · obtain ⟨mt, hmt⟩ := h0.par hj
      exact ⟨mt, by rw [rebase_ne v0 _ hjk]; exact hmt⟩
  · obtain ⟨mt, hmt⟩ := h0.root
    exact ⟨mt, by rw [rebase_ne v0 _ (fun e => hkne e.symm)]; exact hmt⟩
  · intro j hj hjne
    by_cases hjk : j = k
    · subst hjk
      obtain ⟨mt, hmt⟩ := hpd
      exact ⟨mt, by rw [rebase_ne v0 _ (dropLast_ne_self hkne)]; exact hmt⟩
    · rw [rebase_ne v0 _ hjk] at hj
      obtain ⟨mt, hmt⟩ := h0.parent hj hjne
      have hne : j.dropLast ≠ k := by
        intro e; subst e; exact horig ⟨mt, hmt⟩
      exact ⟨mt, by rw [rebase_ne v0 _ hne]; exact hmt⟩
  · intro j hj
    by_cases hjk : j = k
    · subst hjk; exact hk
    · rw [rebase_ne v0 _ hjk] at hj; exact h0.pkey hj
  · intro j t mt
    by_cases hjk : j = k
    · subst hjk; rw [rebase_self]; exact hv.nolink
    · rw [rebase_ne v0 _ hjk]; exact h0.nolink
  · intro j n hj
    by_cases hjk : j = k
    · subst hjk; rw [rebase_self] at hj; exact hv.mode hj
    · rw [rebase_ne v0 _ hjk] at hj; exact h0.mode hj
  · intro j mt hj
    by_cases hjk : j = k
    · subst hjk; rw [rebase_self] at hj; exact hv.erased hj
    · rw [rebase_ne v0 _ hjk] at hj; exact h0.erased hj

/-! ### `deleteInfo` -/

/-! ### dropping the entry of `k` re-bases the invariant -/

/-- after a backup-side step confined to `k` (the removal of the old copy, or nothing at all) and
`delete(baseInfos, k)`, the invariant holds for the original view re-based at `k` -/
theorem Inv.del_rebase {w w1 : World} {k : Key} (h : Inv S v0 w) (hk : PKey k)
    (horig : ¬ v0.isDirAt k) (hnow : ¬ (S.view .base w.fs).isDirAt k) (hpar : v0.parentDir k)
    (hc : S.Chg .backup (· = k) w w1) :
    Inv S (rebase v0 k (S.view .base w.fs k)) (delInfo w1 (kp k)) := by
  have hb : S.view .base w1.fs = S.view .base w.fs := hc.other
  have hother : ∀ j, PKey j → j ≠ k → (delInfo w1 (kp k)).infos.lookup (kp j) = w.infos.lookup (kp j) := by
    intro j hj hjk
    rw [delInfo_lookup_ne w1 (fun e => hjk (kp_inj hj hk e)), hc.infos]
  have hself : (delInfo w1 (kp k)).infos.lookup (kp k) = none := delInfo_lookup_self w1 (kp k)
  refine ⟨hc.good, GoodView.rebase h.orig (S.goodView h.good .base) hk horig hnow hpar, ?_, ?_, ?_, ?_, ?_, ?_⟩
  · apply delInfo_keys; rw [hc.infos]; exact h.keys
  · apply delInfo_nodup; rw [hc.infos]; exact h.nodup
  · intro j hj hl
    show S.view .base w1.fs j = _
    rw [hb]
    by_cases hjk : j = k
    · subst hjk; rw [rebase_self]
    · rw [hother j hj hjk] at hl
      rw [rebase_ne v0 _ hjk]; exact h.frame j hj hl
  · intro j hj hl
    by_cases hjk : j = k
    · subst hjk; rw [hself] at hl; cases hl
    · rw [hother j hj hjk] at hl
      rw [rebase_ne v0 _ hjk]; exact h.absent j hj hl
  · intro j i hj hl
    by_cases hjk : j = k
    · subst hjk; rw [hself] at hl; cases hl
    · rw [hother j hj hjk] at hl
      obtain ⟨n, hn, hfor, hcopy⟩ := h.saved j i hj hl
      refine ⟨n, (by rw [rebase_ne v0 _ hjk]; exact hn), hfor, ?_⟩
      intro c mt hnc
      obtain ⟨mt', hv⟩ := hcopy c mt hnc
      exact ⟨mt', by
        show S.view .backup w1.fs j = _
        rw [hc.frame j hjk]; exact hv⟩
  · intro j i hj hl a ha
    by_cases hjk : j = k
    · subst hjk; rw [hself] at hl; cases hl
    · rw [hother j hj hjk] at hl
      by_cases hak : a = k
      · subst hak
        exfalso
        obtain ⟨n, hn, _, _⟩ := h.saved j i hj hl
        rw [h.v0_below horig j ha hjk] at hn
        cases hn
      · rw [hother a (hj.of_prefix ha) hak]
        exact h.anc j i hj hl a ha

/-! ### `tryRemoveBackup` -/

/-- like `sat_primUnit_exact`, remembering that a failed (that is: refused) call changed nothing -/
theorem sat_primUnit_exact' {s : Side} {c : Call} {K : Key → Prop} {w : World}
    (hg : S.G w.fs)
    (hlaw : ∀ m' r, (cfg.side s).call w.fs c = (m', r) →
      S.G m' ∧ S.view s.other m' = S.view s.other w.fs ∧ ∀ j, ¬ K j → S.view s m' j = S.view s w.fs j)
    (hok : ∃ m', (cfg.side s).call w.fs c = (m', .ok .unit)) :
    Sat (primUnit cfg s c) w (fun w' r => S.Chg s K w w' ∧ (∀ e, r = .error e → SameFS w w' ∧ w.faults ≠ [])) := by
  unfold primUnit
  apply Sat.bind
  apply Sat.primCall
  · intro hf w1 h1
    exact ⟨Sim.Chg.of_same hg h1, fun _ _ => ⟨h1, hf⟩⟩
  · intro w1 h1
    obtain ⟨m', hc⟩ := hok
    obtain ⟨g, o, f⟩ := hlaw _ _ hc
    rw [hc]
    apply Sat.pure
    refine ⟨⟨g, o, f, h1.infos, h1.faults⟩, ?_⟩
    intro e h; cases h

/-- `tryRemoveBackup` on a non-directory key (if the key did not exist when the transaction began,
the invariant does not say what the backup holds there: it is assumed not to be a directory, which
excludes the recursive branch; if it did exist, the backup holds the copy of a file): on success the entry of `k` is gone and the invariant holds for the view re-based at `k`; on failure
(an injected fault) nothing has changed -/
theorem sat_tryRemoveBackup {k : Key} {w : World} (hinv : Inv S v0 w) (hk : PKey k)
    (horig : ¬ v0.isDirAt k) (hnow : ¬ (S.view .base w.fs).isDirAt k) (hpar : v0.parentDir k)
    (hbak : v0 k = none → ¬ (S.view .backup w.fs).isDirAt k) :
    Sat (tryRemoveBackup cfg (kp k)) w (fun w' r =>
      w'.faults = w.faults ∧ S.view .base w'.fs = S.view .base w.fs ∧
      (r = .ok () → Inv S (rebase v0 k (S.view .base w.fs k)) w') ∧
      (∀ e, r = .error e → Inv S v0 w' ∧ w.faults ≠ [])) := by
  have hkne : k ≠ [] := hpar.1
  unfold tryRemoveBackup lookupInfo
  apply Sat.bind
  apply Sat.bind
  apply Sat.getW
  simp only
  apply Sat.pure
  simp only
  cases hl : w.infos.lookup (kp k) with
  | none =>
    simp only
    apply Sat.pure
    refine ⟨rfl, rfl, fun _ => ?_, fun e h => by cases h⟩
    rw [hinv.frame k hk hl, rebase_id]; exact hinv
  | some x =>
    simp only
    apply Sat.bind
    apply Sat.bind
    apply Sat.attempt
    apply (sat_lstat hinv.good hk).mono
    intro w1 r ⟨hs, hr⟩
    have hg1 : S.G w1.fs := hs.fs ▸ hinv.good
    simp only
    rcases hr with ⟨n, i, hv, rfl, hfor⟩ | ⟨hv, e, rfl, hnf⟩ | ⟨rfl, hf⟩
    · simp only
      apply Sat.pure
      simp only
      obtain ⟨c, mt, hn⟩ : ∃ c mt, n = .file c mt := by
        cases n with
        | file c mt => exact ⟨c, mt, rfl⟩
        | dir mt =>
          exfalso
          cases x with
          | none => exact hbak (hinv.absent k hk hl) ⟨mt, hv⟩
          | some i0 =>
            obtain ⟨n0, hn0, _, hcopy⟩ := hinv.saved k i0 hk hl
            cases n0 with
            | dir mt0 => exact horig ⟨mt0, hn0⟩
            | link t0 mt0 => exact hinv.v0_nolink hn0
            | file c0 mt0 =>
              obtain ⟨mt', hb'⟩ := hcopy c0 mt0 rfl
              rw [hv] at hb'; cases hb'
        | link t mt => exact absurd hv (S.no_link hinv.good)
      subst hn
      have hisd : i.isDir = false := by
        have : i.kind = .file := hfor.1
        simp [Info.isDir, this]
      simp only [hisd, Bool.not_false, if_true]
      apply Sat.bind
      have hv1 : (S.view .backup w1.fs).isFileAt k := ⟨c, mt, by rw [hs.fs]; exact hv⟩
      apply (sat_primUnit_exact' (S := S) (s := .backup) (c := .remove (kp k)) (K := (· = k)) hg1
        (fun m' r h => by
          obtain ⟨g, o, f⟩ := S.remove_frame hg1 hk hkne h
          exact ⟨g, o, fun j hj => f j hj⟩)
        (by
          obtain ⟨m', hm', _⟩ := S.remove_ok hg1 hk hkne
            (fun hp => by
              obtain ⟨mtp, hd⟩ := S.par_dir hg1 hp
              obtain ⟨c', mt', hf'⟩ := hv1
              rw [hf'] at hd; cases hd)
            (Or.inl hv1)
          exact ⟨m', hm'⟩)).mono
      intro w2 r2 ⟨hc, herr⟩
      cases r2 with
      | error e =>
        obtain ⟨hs12, hf1⟩ := herr e rfl
        have hs2 := hs.trans hs12
        exact ⟨hs2.faults, (by rw [hs2.fs]), (fun h => by cases h),
          fun _ _ => ⟨hinv.of_same hs2, (by rw [← hs.faults]; exact hf1)⟩⟩
      | ok u =>
        simp only
        apply Sat.of_eq (deleteInfo_eq w2 (kp k))
        have hc' : S.Chg .backup (· = k) w w2 := Sim.Chg.same_left hs hc
        exact ⟨hc'.faults, hc'.other, fun _ => hinv.del_rebase hk horig hnow hpar hc', fun e h => by cases h⟩
    · simp only [hnf, if_true]
      apply Sat.pure
      simp only
      apply Sat.of_eq (deleteInfo_eq w1 (kp k))
      have hc' : S.Chg .backup (· = k) w w1 := Sim.Chg.of_same hinv.good hs
      exact ⟨hc'.faults, hc'.other, fun _ => hinv.del_rebase hk horig hnow hpar hc', fun e h => by cases h⟩
    · simp only [Err.isNotFound, Bool.false_eq_true, if_false]
      apply Sat.throw
      exact ⟨hs.faults, (by rw [hs.fs]), (fun h => by cases h), fun _ _ => ⟨hinv.of_same hs, hf⟩⟩

/-! ### `ForceBackup` -/

/-- C17, core: `ForceBackup(p)` for a path that was not a directory when the transaction began, is
not one now, whose parent directories predate the transaction (and, if it did not exist then, at
which the backup holds no directory): under every fault plan the base view is untouched and the invariant holds for the
original or for the re-based view; if it succeeds, for the view re-based at `p` -/
theorem sat_forceBackup {name : Path} {k : Key} {w : World} (hinv : Inv S v0 w) (hk : PKey k)
    (hname : clean name = kp k)
    (horig : ¬ v0.isDirAt k) (hnow : ¬ (S.view .base w.fs).isDirAt k) (hpar : v0.parentDir k)
    (hbak : v0 k = none → ¬ (S.view .backup w.fs).isDirAt k) :
    Sat (forceBackup cfg name) w (fun w' r =>
      (Inv S v0 w' ∨ Inv S (rebase v0 k (S.view .base w.fs k)) w') ∧ w'.faults = w.faults ∧
      S.view .base w'.fs = S.view .base w.fs ∧
      (r = .ok () → Inv S (rebase v0 k (S.view .base w.fs k)) w' ∧ ∀ b, b <+: k → Tracked w' b)) := by
  unfold forceBackup
  apply Sat.bind
  apply (sat_realPath (S := S) hinv.good hk hname).mono
  intro w1 r ⟨hs, hres⟩
  have hinv1 := hinv.of_same hs
  cases r with
  | error e => exact ⟨Or.inl hinv1, hs.faults, (by rw [hs.fs]), (by intro h; cases h)⟩
  | ok p =>
    simp only
    have hp := hres p rfl
    subst hp
    apply Sat.bind
    apply (sat_tryRemoveBackup (cfg := cfg) hinv1 hk horig (by rw [hs.fs]; exact hnow) hpar
      (by rw [hs.fs]; exact hbak)).mono
    intro w2 r2 ⟨hf2, hb2, hok2, herr2⟩
    rw [hs.fs] at hb2 hok2
    cases r2 with
    | error e => exact ⟨Or.inl (herr2 e rfl).1, hf2.trans hs.faults, hb2, (by intro h; cases h)⟩
    | ok u =>
      simp only
      have hinv2 := hok2 rfl
      apply (sat_tryBackup hinv2 hk).mono
      intro w3 r3 ⟨hadv, htr⟩
      exact ⟨Or.inr hadv.inv, hadv.faults.trans (hf2.trans hs.faults), hadv.base.trans hb2,
        fun h => ⟨hadv.inv, htr h⟩⟩

/-! ### ForceBackup, then any covered history, then Rollback -/

/-- C17, generic form: on healthy filesystems, after a covered history `ops₁`, a successful
`ForceBackup(p)` and a further covered history `ops₂`, Rollback leaves `p` as it was at the moment of
the ForceBackup call and every other key below the root as it was when the transaction began -/
theorem force_then_rollback {w : World} (hg : S.G w.fs) (hinfos : w.infos = []) (hnf : w.faults = [])
    (ops₁ ops₂ : List Op) {name : Path} {k : Key} (hk : PKey k) (hname : clean name = kp k)
    (hcov1 : CoveredHist cfg S w ops₁)
    (horig : ¬ (S.view .base w.fs).isDirAt k)
    (hnow : ¬ (S.view .base (runOps cfg w ops₁).fs).isDirAt k)
    (hpar : (S.view .base w.fs).parentDir k)
    (hbak : S.view .base w.fs k = none → ¬ (S.view .backup (runOps cfg w ops₁).fs).isDirAt k)
    (hok : (forceBackup cfg name (runOps cfg w ops₁)).2 = .ok ())
    (hcov2 : CoveredHist cfg S (forceBackup cfg name (runOps cfg w ops₁)).1 ops₂) :
    S.G (runTx cfg (forceBackup cfg name (runOps cfg w ops₁)).1 ops₂).fs ∧
    (runTx cfg (forceBackup cfg name (runOps cfg w ops₁)).1 ops₂).infos = [] ∧
    (runTx cfg (forceBackup cfg name (runOps cfg w ops₁)).1 ops₂).faults = [] ∧
    ∀ j, j ≠ [] → S.view .base (runTx cfg (forceBackup cfg name (runOps cfg w ops₁)).1 ops₂).fs j =
      if j = k then S.view .base (runOps cfg w ops₁).fs k else S.view .base w.fs j := by
  have h1 := history_keeps (cfg := cfg) ops₁ w (Inv.init hg hinfos) hcov1
  obtain ⟨_, hfl, _, hres⟩ :=
    (sat_forceBackup (cfg := cfg) (name := name) h1.inv hk hname horig hnow hpar hbak).elim
  have hinv2 := (hres hok).1
  have h2 := history_keeps (cfg := cfg) ops₂ _ hinv2 hcov2
  have hr := (sat_rollback (cfg := cfg) h2.inv (h2.faults.trans (hfl.trans (h1.faults.trans hnf)))).elim
  refine ⟨hr.1, rollback_resets_infos cfg _, hr.2.1, ?_⟩
  intro j hj
  exact hr.2.2 j hj

/-- the same with the ForceBackup as one operation of a single history `ops₁ ++ force p :: ops₂` -/
theorem force_in_history_rollback {w : World} (hg : S.G w.fs) (hinfos : w.infos = []) (hnf : w.faults = [])
    (ops₁ ops₂ : List Op) {name : Path} {k : Key} (hk : PKey k) (hname : clean name = kp k)
    (hcov1 : CoveredHist cfg S w ops₁)
    (horig : ¬ (S.view .base w.fs).isDirAt k)
    (hnow : ¬ (S.view .base (runOps cfg w ops₁).fs).isDirAt k)
    (hpar : (S.view .base w.fs).parentDir k)
    (hbak : S.view .base w.fs k = none → ¬ (S.view .backup (runOps cfg w ops₁).fs).isDirAt k)
    (hok : (Op.exec cfg (.force name) (runOps cfg w ops₁)).2 = .ok .unit)
    (hcov2 : CoveredHist cfg S (Op.step cfg (runOps cfg w ops₁) (.force name)) ops₂) :
    ∀ j, j ≠ [] → S.view .base (runTx cfg w (ops₁ ++ .force name :: ops₂)).fs j =
      if j = k then S.view .base (runOps cfg w ops₁).fs k else S.view .base w.fs j := by
  obtain ⟨hstep, hiff⟩ := force_step cfg name (runOps cfg w ops₁)
  have hrun : runTx cfg w (ops₁ ++ .force name :: ops₂) =
      runTx cfg (forceBackup cfg name (runOps cfg w ops₁)).1 ops₂ := by
    unfold runTx
    rw [runOps_append, ← hstep]
    rfl
  rw [hrun]
  rw [hstep] at hcov2
  exact (force_then_rollback hg hinfos hnf ops₁ ops₂ hk hname hcov1 horig hnow hpar hbak
    (hiff.mp hok) hcov2).2.2.2

/-- whatever the fault plan did to the operations and to the ForceBackup itself (which may have
failed half-way): once the filesystems are healthy again, Rollback restores every key other than
`p` below the root to its original node, and `p` either to its original node or to the one it held
at the moment of the ForceBackup call; if the ForceBackup succeeded, to the latter -/
theorem force_then_rollback_after_faults {w : World} (hg : S.G w.fs) (hinfos : w.infos = [])
    (ops₁ ops₂ : List Op) {name : Path} {k : Key} (hk : PKey k) (hname : clean name = kp k)
    (hcov1 : CoveredHist cfg S w ops₁)
    (horig : ¬ (S.view .base w.fs).isDirAt k)
    (hnow : ¬ (S.view .base (runOps cfg w ops₁).fs).isDirAt k)
    (hpar : (S.view .base w.fs).parentDir k)
    (hbak : S.view .base w.fs k = none → ¬ (S.view .backup (runOps cfg w ops₁).fs).isDirAt k)
    (hcov2 : CoveredHist cfg S (forceBackup cfg name (runOps cfg w ops₁)).1 ops₂) :
    let w3 := runOps cfg (forceBackup cfg name (runOps cfg w ops₁)).1 ops₂
    let v := S.view .base (rollback cfg { w3 with faults := [] }).1.fs
    (∀ j, j ≠ [] → j ≠ k → v j = S.view .base w.fs j) ∧
    (v k = S.view .base w.fs k ∨ v k = S.view .base (runOps cfg w ops₁).fs k) ∧
    ((forceBackup cfg name (runOps cfg w ops₁)).2 = .ok () → v k = S.view .base (runOps cfg w ops₁).fs k) := by
  intro w3 v
  have hkne : k ≠ [] := hpar.1
  have h1 := history_keeps (cfg := cfg) ops₁ w (Inv.init hg hinfos) hcov1
  obtain ⟨hdis, _, _, hres⟩ :=
    (sat_forceBackup (cfg := cfg) (name := name) h1.inv hk hname horig hnow hpar hbak).elim
  have hreb : ∀ {w' : World}, Inv S (rebase (S.view .base w.fs) k (S.view .base (runOps cfg w ops₁).fs k)) w' →
      ∀ j, j ≠ [] → S.view .base (rollback cfg { w' with faults := [] }).1.fs j =
        rebase (S.view .base w.fs) k (S.view .base (runOps cfg w ops₁).fs k) j :=
    fun h => ((sat_rollback (cfg := cfg) (h.with_faults []) rfl).elim).2.2
  have hor : ∀ {w' : World}, Inv S (S.view .base w.fs) w' →
      ∀ j, j ≠ [] → S.view .base (rollback cfg { w' with faults := [] }).1.fs j = S.view .base w.fs j :=
    fun h => ((sat_rollback (cfg := cfg) (h.with_faults []) rfl).elim).2.2
  refine ⟨?_, ?_, ?_⟩
  · intro j hj hjk
    rcases hdis with h | h
    · exact hor (history_keeps (cfg := cfg) ops₂ _ h hcov2).inv j hj
    · rw [show v j = _ from hreb (history_keeps (cfg := cfg) ops₂ _ h hcov2).inv j hj, rebase_ne _ _ hjk]
  · rcases hdis with h | h
    · exact Or.inl (hor (history_keeps (cfg := cfg) ops₂ _ h hcov2).inv k hkne)
    · right
      rw [show v k = _ from hreb (history_keeps (cfg := cfg) ops₂ _ h hcov2).inv k hkne, rebase_self]
  · intro hok
    have h := (hres hok).1
    rw [show v k = _ from hreb (history_keeps (cfg := cfg) ops₂ _ h hcov2).inv k hkne, rebase_self]

end BFS.N
