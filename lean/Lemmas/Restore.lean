import Lemmas.Ops
/-!
  Lemmas/Restore.lean — `Rollback` on a healthy pair of filesystems (empty fault plan), started in
  a state satisfying the transaction invariant, puts every key of the base view except the root
  back to what it was when the transaction began.
-/
namespace BFS
open BackupFS

variable {cfg : Cfg} {S : Sim cfg} {v0 : View}

/-! ### generic rule for the `multiErr` loops -/

theorem sat_forEach {α} {f : α → M Unit} {J : List α → World → Prop}
    (hstep : ∀ x rest w, J (x :: rest) w → Sat (f x) w (fun w' r => r = .ok () ∧ J rest w')) :
    ∀ (l : List α) (w : World), J l w →
      Sat (forEachCollect f l) w (fun w' r => r = .ok false ∧ J [] w')
  | [], w, h => by
    unfold forEachCollect
    exact Sat.pure ⟨rfl, h⟩
  | x :: xs, w, h => by
    unfold forEachCollect
    apply Sat.bind
    apply Sat.attempt
    apply (hstep x xs w h).mono
    intro w1 r1 ⟨hr1, hj1⟩
    subst hr1
    simp only
    apply Sat.bind
    apply (sat_forEach hstep xs w1 hj1).mono
    intro w2 r2 ⟨hr2, hj2⟩
    subst hr2
    simp only
    exact Sat.pure ⟨rfl, hj2⟩

/-! ### lexists without faults -/

theorem sat_lexists {s : Side} {k : Key} {w : World} (hg : S.G w.fs) (hk : PKey k) (hnf : w.faults = []) :
    Sat (lexists cfg s (kp k)) w (fun w' r => SameFS w w' ∧
      (∀ n, S.view s w.fs k = some n → ∃ i, r = .ok (some i) ∧ InfoFor i n) ∧
      (S.view s w.fs k = none → r = .ok none)) := by
  unfold lexists
  apply Sat.bind
  apply Sat.attempt
  apply (sat_lstat hg hk).mono
  intro w1 r ⟨hs, hr⟩
  simp only
  rcases hr with ⟨n, i, hv, rfl, hfor⟩ | ⟨hv, e, rfl, hnfd⟩ | ⟨_, hf⟩
  · apply Sat.pure
    refine ⟨hs, ?_, ?_⟩
    · intro n' hn'; rw [hv] at hn'; cases hn'; exact ⟨i, rfl, hfor⟩
    · intro h; rw [hv] at h; cases h
  · simp only [hnfd, if_true]
    apply Sat.pure
    refine ⟨hs, ?_, fun _ => rfl⟩
    intro n' hn'; rw [hv] at hn'; cases hn'
  · exact absurd hnf hf

/-! ### the tracked map as a function of keys -/

theorem mem_of_lookup {α} {l : List (Path × α)} {p : Path} {x : α} (h : l.lookup p = some x) : (p, x) ∈ l := by
  induction l with
  | nil => cases h
  | cons a l ih =>
    obtain ⟨q, y⟩ := a
    simp only [List.lookup] at h
    split at h
    · rename_i heq
      have : p = q := by simpa using heq
      cases h; subst this; simp
    · exact List.mem_cons_of_mem _ (ih h)

theorem lookup_of_mem {α} {l : List (Path × α)} {p : Path} {x : α} (hnd : (l.map Prod.fst).Nodup)
    (h : (p, x) ∈ l) : l.lookup p = some x := by
  induction l with
  | nil => cases h
  | cons a l ih =>
    obtain ⟨q, y⟩ := a
    simp only [List.map_cons, List.nodup_cons] at hnd
    simp only [List.lookup]
    rcases List.mem_cons.mp h with heq | hm
    · cases heq; simp
    · have hne : p ≠ q := by
        intro e; subst e
        exact hnd.1 (List.mem_map.mpr ⟨(p, x), hm, rfl⟩)
      have : (p == q) = false := by simpa using hne
      simp only [this]
      exact ih hnd.2 hm

/-- `k` is tracked as "did not exist" -/
def TN (w : World) (k : Key) : Prop := w.infos.lookup (kp k) = some none
/-- `k` is tracked with the `FileInfo` `i` -/
def TS (w : World) (k : Key) (i : Info) : Prop := w.infos.lookup (kp k) = some (some i)

/-! ### the first loop of Rollback -/

structure Classified (S : Sim cfg) (w : World) (l : List (Path × Option Info)) (pl pl' : RollbackPlan) : Prop where
  failed : pl'.failed = pl.failed
  removeBase : ∀ p, p ∈ pl'.removeBase ↔ p ∈ pl.removeBase ∨
    ∃ k, PKey k ∧ p = kp k ∧ (p, none) ∈ l ∧ S.view .base w.fs k ≠ none
  dirs : ∀ p, p ∈ pl'.dirs ↔ p ∈ pl.dirs ∨ ∃ i, (p, some i) ∈ l ∧ p ≠ rootP ∧ i.kind = .dir
  files : ∀ p, p ∈ pl'.files ↔ p ∈ pl.files ∨ ∃ i, (p, some i) ∈ l ∧ p ≠ rootP ∧ i.kind = .file
  links : ∀ p, p ∈ pl'.links ↔ p ∈ pl.links ∨ ∃ i, (p, some i) ∈ l ∧ p ≠ rootP ∧ i.kind = .link

theorem Classified.nil (w : World) (pl : RollbackPlan) : Classified S w [] pl pl :=
  ⟨rfl, fun p => by simp, fun p => by simp, fun p => by simp, fun p => by simp⟩

theorem sat_classify :
    ∀ (l : List (Path × Option Info)) (pl : RollbackPlan) (w : World), S.G w.fs → w.faults = [] →
      (∀ p oi, (p, oi) ∈ l → ∃ k, PKey k ∧ p = kp k) →
      Sat (classify cfg l pl) w (fun w' r => SameFS w w' ∧ ∃ pl', r = .ok pl' ∧ Classified S w l pl pl')
  | [], pl, w, _, _, _ => by
    unfold classify
    exact Sat.pure ⟨SameFS.refl w, pl, rfl, Classified.nil w pl⟩
  | (p, none) :: rest, pl, w, hg, hnf, hkeys => by
    unfold classify
    obtain ⟨k, hk, rfl⟩ := hkeys p none (by simp)
    have hkeys' : ∀ p oi, (p, oi) ∈ rest → ∃ k, PKey k ∧ p = kp k :=
      fun p oi h => hkeys p oi (List.mem_cons_of_mem _ h)
    apply Sat.bind
    apply Sat.attempt
    apply (sat_lexists (S := S) hg hk hnf).mono
    intro w1 r1 ⟨hs1, hsome, hnone⟩
    have hg1 : S.G w1.fs := hs1.fs ▸ hg
    have hnf1 : w1.faults = [] := by rw [hs1.faults]; exact hnf
    simp only
    cases hv : S.view .base w.fs k with
    | none =>
      rw [hnone hv]
      simp only
      apply (sat_classify rest pl w1 hg1 hnf1 hkeys').mono
      intro w2 r2 ⟨hs2, pl', hr2, hc⟩
      refine ⟨hs1.trans hs2, pl', hr2, ?_⟩
      have hfs : w1.fs = w.fs := hs1.fs
      refine ⟨hc.failed, ?_, ?_, ?_, ?_⟩
      · intro q
        rw [hc.removeBase q, hfs]
        constructor
        · rintro (h | ⟨j, hj, rfl, hm, hp⟩)
          · exact Or.inl h
          · exact Or.inr ⟨j, hj, rfl, List.mem_cons_of_mem _ hm, hp⟩
        · rintro (h | ⟨j, hj, rfl, hm, hp⟩)
          · exact Or.inl h
          · rcases List.mem_cons.mp hm with heq | hm
            · have : j = k := kp_inj hj hk (Prod.mk.inj heq).1
              subst this; exact absurd hv hp
            · exact Or.inr ⟨j, hj, rfl, hm, hp⟩
      · intro q; rw [hc.dirs q]; simp
      · intro q; rw [hc.files q]; simp
      · intro q; rw [hc.links q]; simp
    | some n =>
      obtain ⟨i, hr1, _⟩ := hsome n hv
      rw [hr1]
      simp only
      apply (sat_classify rest _ w1 hg1 hnf1 hkeys').mono
      intro w2 r2 ⟨hs2, pl', hr2, hc⟩
      refine ⟨hs1.trans hs2, pl', hr2, ?_⟩
      have hfs : w1.fs = w.fs := hs1.fs
      refine ⟨hc.failed, ?_, ?_, ?_, ?_⟩
      · intro q
        rw [hc.removeBase q, hfs]
        simp only [List.mem_append, List.mem_singleton]
        constructor
        · rintro ((h | h) | ⟨j, hj, rfl, hm, hp⟩)
          · exact Or.inl h
          · subst h; exact Or.inr ⟨k, hk, rfl, by simp, by rw [hv]; simp⟩
          · exact Or.inr ⟨j, hj, rfl, List.mem_cons_of_mem _ hm, hp⟩
        · rintro (h | ⟨j, hj, rfl, hm, hp⟩)
          · exact Or.inl (Or.inl h)
          · rcases List.mem_cons.mp hm with heq | hm
            · have : j = k := kp_inj hj hk (Prod.mk.inj heq).1
              subst this; exact Or.inl (Or.inr rfl)
            · exact Or.inr ⟨j, hj, rfl, hm, hp⟩
      · intro q; rw [hc.dirs q]; simp
      · intro q; rw [hc.files q]; simp
      · intro q; rw [hc.links q]; simp
  | (p, some i) :: rest, pl, w, hg, hnf, hkeys => by
    unfold classify
    have hkeys' : ∀ p oi, (p, oi) ∈ rest → ∃ k, PKey k ∧ p = kp k :=
      fun p oi h => hkeys p oi (List.mem_cons_of_mem _ h)
    have hmem : ∀ (q : Path) (j : Info), (q, some j) ∈ (p, some i) :: rest ↔ (q = p ∧ j = i) ∨ (q, some j) ∈ rest := by
      intro q j; simp
    by_cases hroot : p = rootP
    · subst hroot
      simp only [if_true]
      apply (sat_classify rest pl w hg hnf hkeys').mono
      intro w2 r2 ⟨hs2, pl', hr2, hc⟩
      refine ⟨hs2, pl', hr2, hc.failed, ?_, ?_, ?_, ?_⟩
      · intro q; rw [hc.removeBase q]; simp
      · intro q; rw [hc.dirs q]
        constructor
        · rintro (h | ⟨j, hm, hq, hkd⟩)
          · exact Or.inl h
          · exact Or.inr ⟨j, List.mem_cons_of_mem _ hm, hq, hkd⟩
        · rintro (h | ⟨j, hm, hq, hkd⟩)
          · exact Or.inl h
          · rcases (hmem q j).mp hm with ⟨hqp, _⟩ | hm
            · exact absurd hqp hq
            · exact Or.inr ⟨j, hm, hq, hkd⟩
      · intro q; rw [hc.files q]
        constructor
        · rintro (h | ⟨j, hm, hq, hkd⟩)
          · exact Or.inl h
          · exact Or.inr ⟨j, List.mem_cons_of_mem _ hm, hq, hkd⟩
        · rintro (h | ⟨j, hm, hq, hkd⟩)
          · exact Or.inl h
          · rcases (hmem q j).mp hm with ⟨hqp, _⟩ | hm
            · exact absurd hqp hq
            · exact Or.inr ⟨j, hm, hq, hkd⟩
      · intro q; rw [hc.links q]
        constructor
        · rintro (h | ⟨j, hm, hq, hkd⟩)
          · exact Or.inl h
          · exact Or.inr ⟨j, List.mem_cons_of_mem _ hm, hq, hkd⟩
        · rintro (h | ⟨j, hm, hq, hkd⟩)
          · exact Or.inl h
          · rcases (hmem q j).mp hm with ⟨hqp, _⟩ | hm
            · exact absurd hqp hq
            · exact Or.inr ⟨j, hm, hq, hkd⟩
    · simp only [hroot, if_false]
      cases hkind : i.kind with
      | dir =>
        simp only
        apply (sat_classify rest _ w hg hnf hkeys').mono
        intro w2 r2 ⟨hs2, pl', hr2, hc⟩
        refine ⟨hs2, pl', hr2, hc.failed, ?_, ?_, ?_, ?_⟩
        · intro q; rw [hc.removeBase q]; simp
        · intro q; rw [hc.dirs q]
          simp only [List.mem_append, List.mem_singleton]
          constructor
          · rintro ((h | h) | ⟨j, hm, hq, hkd⟩)
            · exact Or.inl h
            · subst h; exact Or.inr ⟨i, by simp, hroot, hkind⟩
            · exact Or.inr ⟨j, List.mem_cons_of_mem _ hm, hq, hkd⟩
          · rintro (h | ⟨j, hm, hq, hkd⟩)
            · exact Or.inl (Or.inl h)
            · rcases (hmem q j).mp hm with ⟨rfl, _⟩ | hm
              · exact Or.inl (Or.inr rfl)
              · exact Or.inr ⟨j, hm, hq, hkd⟩
        · intro q; rw [hc.files q]
          constructor
          · rintro (h | ⟨j, hm, hq, hkd⟩)
            · exact Or.inl h
            · exact Or.inr ⟨j, List.mem_cons_of_mem _ hm, hq, hkd⟩
          · rintro (h | ⟨j, hm, hq, hkd⟩)
            · exact Or.inl h
            · rcases (hmem q j).mp hm with ⟨rfl, rfl⟩ | hm
              · rw [hkind] at hkd; cases hkd
              · exact Or.inr ⟨j, hm, hq, hkd⟩
        · intro q; rw [hc.links q]
          constructor
          · rintro (h | ⟨j, hm, hq, hkd⟩)
            · exact Or.inl h
            · exact Or.inr ⟨j, List.mem_cons_of_mem _ hm, hq, hkd⟩
          · rintro (h | ⟨j, hm, hq, hkd⟩)
            · exact Or.inl h
            · rcases (hmem q j).mp hm with ⟨rfl, rfl⟩ | hm
              · rw [hkind] at hkd; cases hkd
              · exact Or.inr ⟨j, hm, hq, hkd⟩
      | file =>
        simp only
        apply (sat_classify rest _ w hg hnf hkeys').mono
        intro w2 r2 ⟨hs2, pl', hr2, hc⟩
        refine ⟨hs2, pl', hr2, hc.failed, ?_, ?_, ?_, ?_⟩
        · intro q; rw [hc.removeBase q]; simp
        · intro q; rw [hc.dirs q]
          constructor
          · rintro (h | ⟨j, hm, hq, hkd⟩)
            · exact Or.inl h
            · exact Or.inr ⟨j, List.mem_cons_of_mem _ hm, hq, hkd⟩
          · rintro (h | ⟨j, hm, hq, hkd⟩)
            · exact Or.inl h
            · rcases (hmem q j).mp hm with ⟨rfl, rfl⟩ | hm
              · rw [hkind] at hkd; cases hkd
              · exact Or.inr ⟨j, hm, hq, hkd⟩
        · intro q; rw [hc.files q]
          simp only [List.mem_append, List.mem_singleton]
          constructor
          · rintro ((h | h) | ⟨j, hm, hq, hkd⟩)
            · exact Or.inl h
            · subst h; exact Or.inr ⟨i, by simp, hroot, hkind⟩
            · exact Or.inr ⟨j, List.mem_cons_of_mem _ hm, hq, hkd⟩
          · rintro (h | ⟨j, hm, hq, hkd⟩)
            · exact Or.inl (Or.inl h)
            · rcases (hmem q j).mp hm with ⟨rfl, _⟩ | hm
              · exact Or.inl (Or.inr rfl)
              · exact Or.inr ⟨j, hm, hq, hkd⟩
        · intro q; rw [hc.links q]
          constructor
          · rintro (h | ⟨j, hm, hq, hkd⟩)
            · exact Or.inl h
            · exact Or.inr ⟨j, List.mem_cons_of_mem _ hm, hq, hkd⟩
          · rintro (h | ⟨j, hm, hq, hkd⟩)
            · exact Or.inl h
            · rcases (hmem q j).mp hm with ⟨rfl, rfl⟩ | hm
              · rw [hkind] at hkd; cases hkd
              · exact Or.inr ⟨j, hm, hq, hkd⟩
      | link =>
        simp only
        apply (sat_classify rest _ w hg hnf hkeys').mono
        intro w2 r2 ⟨hs2, pl', hr2, hc⟩
        refine ⟨hs2, pl', hr2, hc.failed, ?_, ?_, ?_, ?_⟩
        · intro q; rw [hc.removeBase q]; simp
        · intro q; rw [hc.dirs q]
          constructor
          · rintro (h | ⟨j, hm, hq, hkd⟩)
            · exact Or.inl h
            · exact Or.inr ⟨j, List.mem_cons_of_mem _ hm, hq, hkd⟩
          · rintro (h | ⟨j, hm, hq, hkd⟩)
            · exact Or.inl h
            · rcases (hmem q j).mp hm with ⟨rfl, rfl⟩ | hm
              · rw [hkind] at hkd; cases hkd
              · exact Or.inr ⟨j, hm, hq, hkd⟩
        · intro q; rw [hc.files q]
          constructor
          · rintro (h | ⟨j, hm, hq, hkd⟩)
            · exact Or.inl h
            · exact Or.inr ⟨j, List.mem_cons_of_mem _ hm, hq, hkd⟩
          · rintro (h | ⟨j, hm, hq, hkd⟩)
            · exact Or.inl h
            · rcases (hmem q j).mp hm with ⟨rfl, rfl⟩ | hm
              · rw [hkind] at hkd; cases hkd
              · exact Or.inr ⟨j, hm, hq, hkd⟩
        · intro q; rw [hc.links q]
          simp only [List.mem_append, List.mem_singleton]
          constructor
          · rintro ((h | h) | ⟨j, hm, hq, hkd⟩)
            · exact Or.inl h
            · subst h; exact Or.inr ⟨i, by simp, hroot, hkind⟩
            · exact Or.inr ⟨j, List.mem_cons_of_mem _ hm, hq, hkd⟩
          · rintro (h | ⟨j, hm, hq, hkd⟩)
            · exact Or.inl (Or.inl h)
            · rcases (hmem q j).mp hm with ⟨rfl, _⟩ | hm
              · exact Or.inl (Or.inr rfl)
              · exact Or.inr ⟨j, hm, hq, hkd⟩

/-! the plan lists are duplicate-free -/

structure PlanND (pl : RollbackPlan) (L : List Path) : Prop where
  rb : pl.removeBase.Nodup
  ds : pl.dirs.Nodup
  fs : pl.files.Nodup
  rbL : ∀ p ∈ pl.removeBase, p ∉ L
  dsL : ∀ p ∈ pl.dirs, p ∉ L
  fsL : ∀ p ∈ pl.files, p ∉ L

theorem nodup_snoc {l : List Path} {p : Path} (h : l.Nodup) (hp : p ∉ l) : (l ++ [p]).Nodup := by
  apply List.nodup_append.mpr
  refine ⟨h, by simp, ?_⟩
  intro a ha b hb
  simp only [List.mem_singleton] at hb
  subst hb
  intro e; subst e; exact hp ha

theorem PlanND.tail {pl : RollbackPlan} {p : Path} {L : List Path} (h : PlanND pl (p :: L)) : PlanND pl L :=
  ⟨h.rb, h.ds, h.fs, fun q hq hl => h.rbL q hq (List.mem_cons_of_mem _ hl),
    fun q hq hl => h.dsL q hq (List.mem_cons_of_mem _ hl), fun q hq hl => h.fsL q hq (List.mem_cons_of_mem _ hl)⟩

theorem sat_classify_nd : ∀ (l : List (Path × Option Info)) (pl : RollbackPlan) (w : World),
    (l.map Prod.fst).Nodup → PlanND pl (l.map Prod.fst) →
    Sat (classify cfg l pl) w (fun _ r => ∀ pl', r = .ok pl' → PlanND pl' [])
  | [], pl, w, _, hnd => by
    unfold classify
    apply Sat.pure
    intro pl' h; cases h; exact hnd
  | (p, none) :: rest, pl, w, hl, hnd => by
    unfold classify
    simp only [List.map_cons, List.nodup_cons] at hl
    have hnd' := hnd.tail
    apply Sat.bind
    apply Sat.attempt
    unfold Sat
    simp only
    cases (lexists cfg .base p w).2 with
    | error e =>
      exact sat_classify_nd rest _ _ hl.2 ⟨hnd'.rb, hnd'.ds, hnd'.fs, hnd'.rbL, hnd'.dsL, hnd'.fsL⟩
    | ok o =>
      cases o with
      | none => exact sat_classify_nd rest _ _ hl.2 hnd'
      | some i =>
        apply sat_classify_nd rest _ _ hl.2
        refine ⟨nodup_snoc hnd.rb (fun h => hnd.rbL p h (by simp)), hnd'.ds, hnd'.fs, ?_, hnd'.dsL, hnd'.fsL⟩
        intro q hq
        rcases List.mem_append.mp hq with hq | hq
        · exact hnd'.rbL q hq
        · simp only [List.mem_singleton] at hq; subst hq; exact hl.1
  | (p, some i) :: rest, pl, w, hl, hnd => by
    unfold classify
    simp only [List.map_cons, List.nodup_cons] at hl
    have hnd' := hnd.tail
    split
    · exact sat_classify_nd rest _ _ hl.2 hnd'
    · cases i.kind with
      | dir =>
        apply sat_classify_nd rest _ _ hl.2
        refine ⟨hnd'.rb, nodup_snoc hnd.ds (fun h => hnd.dsL p h (by simp)), hnd'.fs, hnd'.rbL, ?_, hnd'.fsL⟩
        intro q hq
        rcases List.mem_append.mp hq with hq | hq
        · exact hnd'.dsL q hq
        · simp only [List.mem_singleton] at hq; subst hq; exact hl.1
      | file =>
        apply sat_classify_nd rest _ _ hl.2
        refine ⟨hnd'.rb, hnd'.ds, nodup_snoc hnd.fs (fun h => hnd.fsL p h (by simp)), hnd'.rbL, hnd'.dsL, ?_⟩
        intro q hq
        rcases List.mem_append.mp hq with hq | hq
        · exact hnd'.fsL q hq
        · simp only [List.mem_singleton] at hq; subst hq; exact hl.1
      | link =>
        exact sat_classify_nd rest _ _ hl.2 ⟨hnd'.rb, hnd'.ds, hnd'.fs, hnd'.rbL, hnd'.dsL, hnd'.fsL⟩

/-! ### facts about the original view -/

theorem Inv.v0_root {w : World} (h : Inv S v0 w) : v0.isDirAt [] := by
  obtain ⟨m0, hg0, rfl⟩ := h.orig; exact S.root_dir hg0

theorem Inv.v0_parent {w : World} (h : Inv S v0 w) {k : Key} (hk : v0 k ≠ none) (hne : k ≠ []) :
    v0.isDirAt k.dropLast := by
  obtain ⟨m0, hg0, rfl⟩ := h.orig; exact S.parent_dir hg0 hk hne

theorem Inv.v0_nolink {w : World} (h : Inv S v0 w) {k : Key} {t : Path} {mt : Meta} : v0 k ≠ some (.link t mt) := by
  obtain ⟨m0, hg0, rfl⟩ := h.orig; exact S.no_link hg0

theorem Inv.v0_mode {w : World} (h : Inv S v0 w) {k : Key} {n : Node} (hk : v0 k = some n) : n.meta.mode < 4096 := by
  obtain ⟨m0, hg0, rfl⟩ := h.orig; exact S.mode_lt hg0 hk

theorem Inv.v0_erased {w : World} (h : Inv S v0 w) {k : Key} {mt : Meta} (hk : v0 k = some (.dir mt)) :
    mt.mtime = .fresh := by
  obtain ⟨m0, hg0, rfl⟩ := h.orig; exact S.erased hg0 hk

theorem Inv.v0_pkey {w : World} (h : Inv S v0 w) {k : Key} (hk : v0 k ≠ none) : PKey k := by
  obtain ⟨m0, hg0, rfl⟩ := h.orig; exact S.pkey hg0 hk

/-- nothing existed below a key that did not exist or was a regular file -/
theorem Inv.v0_below {w : World} (h : Inv S v0 w) {k : Key} (hk : ¬ v0.isDirAt k) :
    ∀ j, k <+: j → j ≠ k → v0 j = none := by
  intro j hj hne
  obtain ⟨t, rfl⟩ := hj
  induction t using List.reverseRecOn with
  | nil => simp at hne
  | append_singleton t x ih =>
    apply Classical.byContradiction
    intro hp
    have hd := h.v0_parent (k := k ++ (t ++ [x])) hp (by simp)
    have hdl : (k ++ (t ++ [x])).dropLast = k ++ t := by
      rw [← List.append_assoc, List.dropLast_concat]
    rw [hdl] at hd
    by_cases ht : t = []
    · subst ht; simp at hd; exact hk hd
    · have := ih (by intro e; apply ht; simpa using e)
      obtain ⟨mt, hmt⟩ := hd
      rw [this] at hmt; cases hmt

/-! ### progress of Rollback on the base -/

/-- `D` is the set of keys already put back: they show what they showed originally; every other
key is as it was when Rollback began; the backup view, tracked map and (empty) fault plan are
untouched -/
structure Mid (S : Sim cfg) (v0 : View) (w : World) (D : Key → Prop) (w' : World) : Prop where
  good : S.G w'.fs
  infos : w'.infos = w.infos
  faults : w'.faults = []
  backup : S.view .backup w'.fs = S.view .backup w.fs
  done : ∀ k, D k → S.view .base w'.fs k = v0 k
  rest : ∀ k, ¬ D k → S.view .base w'.fs k = S.view .base w.fs k

theorem Mid.congr {w w' : World} {D D' : Key → Prop} (h : Mid S v0 w D w') (hd : ∀ k, D k ↔ D' k) :
    Mid S v0 w D' w' :=
  ⟨h.good, h.infos, h.faults, h.backup, fun k hk => h.done k ((hd k).mpr hk),
    fun k hk => h.rest k (fun hk' => hk ((hd k).mp hk'))⟩

theorem Mid.same {w w' w'' : World} {D : Key → Prop} (h : Mid S v0 w D w') (hs : SameFS w' w'') :
    Mid S v0 w D w'' :=
  ⟨hs.fs ▸ h.good, hs.infos.trans h.infos, hs.faults.trans h.faults, by rw [hs.fs]; exact h.backup,
    fun k hk => by rw [hs.fs]; exact h.done k hk, fun k hk => by rw [hs.fs]; exact h.rest k hk⟩

/-- a base-side step confined to one key that it puts back -/
theorem Mid.step {w w' w'' : World} {D D' : Key → Prop} {k : Key} (h : Mid S v0 w D w')
    (hc : S.Chg .base (· = k) w' w'') (hk : S.view .base w''.fs k = v0 k)
    (hD' : ∀ j, D' j ↔ D j ∨ j = k) : Mid S v0 w D' w'' := by
  refine ⟨hc.good, hc.infos.trans h.infos, hc.faults.trans h.faults, hc.other.trans h.backup, ?_, ?_⟩
  · intro j hj
    by_cases hjk : j = k
    · subst hjk; exact hk
    · rw [hc.frame j hjk]
      rcases (hD' j).mp hj with hd | hd
      · exact h.done j hd
      · exact absurd hd hjk
  · intro j hj
    have hjk : j ≠ k := fun e => hj ((hD' j).mpr (Or.inr e))
    rw [hc.frame j hjk]
    exact h.rest j (fun hd => hj ((hD' j).mpr (Or.inl hd)))

theorem tracked_cases (w : World) (k : Key) :
    w.infos.lookup (kp k) = none ∨ TN w k ∨ ∃ i, TS w k i := by
  unfold TN TS
  cases h : w.infos.lookup (kp k) with
  | none => exact Or.inl rfl
  | some o =>
    cases o with
    | none => exact Or.inr (Or.inl rfl)
    | some i => exact Or.inr (Or.inr ⟨i, rfl⟩)

/-- a key that shows something now although it did not exist originally is tracked as absent -/
theorem Inv.present_new {w : World} (h : Inv S v0 w) {c : Key} (hc : PKey c)
    (hnow : S.view .base w.fs c ≠ none) (horig : v0 c = none) : TN w c := by
  rcases tracked_cases w c with hu | ht | ⟨i, hts⟩
  · rw [h.frame c hc hu] at hnow; exact absurd horig hnow
  · exact ht
  · obtain ⟨n, hn, _⟩ := h.saved c i hc hts
    rw [horig] at hn; cases hn

/-! ### phase 1: remove what the transaction created, deepest first -/

theorem phase1 {w w1 : World} (hinv : Inv S v0 w) (hnf : w.faults = []) (hs : SameFS w w1)
    (l : List Path) (hl : ∀ p, p ∈ l ↔ ∃ k, PKey k ∧ p = kp k ∧ TN w k ∧ S.view .base w.fs k ≠ none)
    (hnd : l.Nodup) :
    Sat (forEachCollect (removeBaseAct cfg) (sortMost l)) w1 (fun w' r => r = .ok false ∧
      Mid S v0 w (fun k => PKey k ∧ TN w k) w') := by
  let R : Path → Path → Prop := fun p q => ∀ a b, PKey a → PKey b → p = kp a → q = kp b → b.length ≤ a.length
  let D : List Path → Key → Prop := fun rest k => PKey k ∧ TN w k ∧ kp k ∉ rest
  let J : List Path → World → Prop := fun rest w' =>
    rest.Pairwise R ∧ rest.Nodup ∧ (∀ p ∈ rest, p ∈ l) ∧ Mid S v0 w (D rest) w'
  have hperm := sortBy_perm (fun a b => lessFPS b a) l
  have hstep : ∀ x rest w', J (x :: rest) w' →
      Sat (removeBaseAct cfg x) w' (fun w'' r => r = .ok () ∧ J rest w'') := by
    intro x rest w' ⟨hpw, hnd', hmem, hmid⟩
    obtain ⟨k, hk, rfl, htn, hpres⟩ := (hl x).mp (hmem x (by simp))
    have hxr : kp k ∉ rest := (List.nodup_cons.mp hnd').1
    have hnotD : ¬ D (kp k :: rest) k := fun hd => hd.2.2 (by simp)
    have hvk : S.view .base w'.fs k = S.view .base w.fs k := hmid.rest k hnotD
    have habs : v0 k = none := hinv.absent k hk htn
    have hkne : k ≠ [] := by
      intro e; subst e
      obtain ⟨mt, hroot⟩ := hinv.v0_root
      rw [habs] at hroot; cases hroot
    -- no child is left
    have hnochild : ¬ (S.view .base w'.fs).hasChild k := by
      rintro ⟨name, hc⟩
      have hcp : PKey (k ++ [name]) := S.pkey hmid.good hc
      have hcorig : v0 (k ++ [name]) = none :=
        hinv.v0_below (k := k) (by rintro ⟨mt, h⟩; rw [habs] at h; cases h) _ ⟨[name], rfl⟩ (by simp)
      by_cases hdc : D (kp k :: rest) (k ++ [name])
      · rw [hmid.done _ hdc] at hc; exact hc hcorig
      · rw [hmid.rest _ hdc] at hc
        have htnc : TN w (k ++ [name]) := hinv.present_new hcp hc hcorig
        have hin : kp (k ++ [name]) ∈ kp k :: rest := by
          apply Classical.byContradiction
          intro hnin; exact hdc ⟨hcp, htnc, hnin⟩
        rcases List.mem_cons.mp hin with heq | hin
        · have := kp_inj hcp hk heq
          have := congrArg List.length this
          simp at this
        · have := (List.pairwise_cons.mp hpw).1 _ hin k (k ++ [name]) hk hcp rfl rfl
          simp at this
    have hnode : (S.view .base w'.fs).isFileAt k ∨ ((S.view .base w'.fs).isDirAt k ∧ ¬ (S.view .base w'.fs).hasChild k) := by
      cases hn : S.view .base w'.fs k with
      | none => rw [hvk] at hn; exact absurd hn hpres
      | some n =>
        cases n with
        | file c mt => exact Or.inl ⟨c, mt, hn⟩
        | dir mt => exact Or.inr ⟨⟨mt, hn⟩, hnochild⟩
        | link t mt => exact absurd hn (S.no_link hmid.good)
    unfold removeBaseAct
    apply (sat_primUnit_exact (S := S) (s := .base) (c := .remove (kp k)) (K := (· = k))
      (P := fun m' => S.view .base m' k = none) hmid.good
      (fun m' r h => by
        obtain ⟨g, o, f⟩ := S.remove_frame hmid.good hk hkne h
        exact ⟨g, o, fun j hj => f j hj⟩)
      (S.remove_ok hmid.good hk hkne hnode)).mono
    intro w'' r ⟨hc, hp, hof⟩
    obtain ⟨u, hr⟩ := hof.nofault hmid.faults
    subst hr
    refine ⟨rfl, (List.pairwise_cons.mp hpw).2, (List.nodup_cons.mp hnd').2,
      fun p hp' => hmem p (List.mem_cons_of_mem _ hp'), ?_⟩
    apply hmid.step hc (by rw [hp rfl, habs])
    intro j
    constructor
    · rintro ⟨hj, htj, hjr⟩
      by_cases hjk : j = k
      · exact Or.inr hjk
      · left
        refine ⟨hj, htj, ?_⟩
        intro hin
        rcases List.mem_cons.mp hin with heq | hin
        · exact hjk (kp_inj hj hk heq)
        · exact hjr hin
    · rintro (⟨hj, htj, hjr⟩ | rfl)
      · exact ⟨hj, htj, fun hin => hjr (List.mem_cons_of_mem _ hin)⟩
      · exact ⟨hk, htn, hxr⟩
  have hinit : J (sortMost l) w1 := by
    refine ⟨sortMost_kp_pairwise l, hperm.nodup_iff.mpr hnd, fun p hp => hperm.mem_iff.mp hp, ?_⟩
    refine ⟨hs.fs ▸ hinv.good, hs.infos, by rw [hs.faults]; exact hnf, by rw [hs.fs], ?_, fun k _ => by rw [hs.fs]⟩
    rintro k ⟨hk, htn, hnin⟩
    rw [hs.fs, hinv.absent k hk htn]
    apply Classical.byContradiction
    intro hne
    exact hnin (hperm.mem_iff.mpr ((hl (kp k)).mpr ⟨k, hk, rfl, htn, hne⟩))
  apply (sat_forEach hstep (sortMost l) w1 hinit).mono
  intro w' r ⟨hr, _, _, _, hmid⟩
  refine ⟨hr, hmid.congr ?_⟩
  intro k
  simp [D]

end BFS
