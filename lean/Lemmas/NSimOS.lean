import Lemmas.NSimOSLaws4
/-!
  Lemmas/NSimOS.lean — the contract `N.Sim` discharged for the nested (README) layering
  `nestedCfg bk hk = NewWithFS (PrefixFS (kp bk) osfs) (kp hk)` over the OS model.

  Definitions in `Lemmas/NSimOSBase.lean`, the shape of the calls in `Lemmas/NSimOSFwd.lean`, the
  laws in `Lemmas/NSimOSLaws1..4.lean`; all of them are derived from the laws of the inner
  `PrefixFS (kp bk) osfs` (`Lemmas/SimOSLaws*.lean`) and the theorems about `HiddenFS.RemoveAll`.
-/
namespace BFS.N

def nSim (bk hk dd : Key) (h : NRoots bk hk dd) : Sim (nestedCfg bk hk) where
  G := NGood bk hk dd
  view := nview bk hk
  H := NH bk hk
  Hid := NHid hk
  Par := NPar hk
  hid_none := fun _ hh => n_hid_none hh
  par_dir := fun hg hp => n_par_dir hg hp
  root_dir := fun hg => n_root_dir h hg
  parent_dir := fun hg hv hne => n_parent_dir hg hv hne
  pkey := fun hg hv => n_pkey hg hv
  no_link := fun hg => n_no_link hg
  mode_lt := fun hg hv => n_mode_lt hg hv
  erased := fun hg hv => n_erased hg hv
  pure_lstat := fun he => n_pure_lstat h he
  pure_stat := fun he => n_pure_stat h he
  pure_readlink := fun he => n_pure_readlink h he
  pure_open := fun he => n_pure_open h he
  pure_openRO := fun he => n_pure_openRO h he
  openFile_flag := fun he => n_openFile_flag h he
  lstat_some := fun hg hk hv => n_lstat_some h hg hk hv
  lstat_none := fun hg hk hv => n_lstat_none h hg hk hv
  open_some := fun hg hk hv => n_open_some h hg hk hv
  open_handle := fun hg hk he => n_open_handle h hg hk he
  create_frame := fun hg hk he => n_create_frame h hg hk he
  openFile_frame := fun hg hk he => n_openFile_frame h hg hk he
  openW_file := fun hg hk hv => n_openW_file h hg hk hv
  openW_none := fun hg hk hvis hv hp => n_openW_none h hg hk hvis hv hp
  openW_post := fun hg hk he => n_openW_post h hg hk he
  hwrite_ro := fun ha => n_hwrite_ro ha
  hwrite_frame := fun hg hH he => n_hwrite_frame h hg hH he
  hwrite_file := fun _ hH ha hv => n_hwrite_file hH ha hv
  hread_file := fun _ hH ha hv => n_hread_file hH ha hv
  hstat_some := fun hg hH hv => n_hstat_some hg hH hv
  readdir_plain := fun hg _ he => n_readdir_plain hg he
  mkdir_frame := fun hg hk he => n_mkdir_frame h hg hk he
  mkdirAll_frame := fun hg hk he => n_mkdirAll_frame h hg hk he
  mkdirAll_ok := fun hg hk hvis hp hv => n_mkdirAll_ok h hg hk hvis hp hv
  remove_frame := fun hg hk hne he => n_remove_frame h hg hk hne he
  remove_ok := fun hg hk hne hp hv => n_remove_ok h hg hk hne hp hv
  removeAll_frame := fun hg hk hne he => n_removeAll_frame h hg hk hne he
  removeAll_ok := fun hg hk hne hp hv hb => n_removeAll_ok h hg hk hne hp hv hb
  rename_frame := fun hg hko hkn he => n_rename_frame h hg hko hkn he
  chmod_frame := fun hg hk he => n_chmod_frame h hg hk he
  chmod_some := fun hg hk hv => n_chmod_some h hg hk hv
  chown_frame := fun hg hk he => n_chown_frame h hg hk he
  chown_some := fun hg hk hv => n_chown_some h hg hk hv
  lchown_frame := fun hg hk he => n_lchown_frame h hg hk he
  chtimes_frame := fun hg hk he => n_chtimes_frame h hg hk he
  chtimes_file := fun hg hk hv => n_chtimes_file h hg hk hv
  chtimes_dir := fun hg hk hv => n_chtimes_dir h hg hk hv

end BFS.N
