import Lemmas.LSimOS
import Lemmas.SimOSDir
import Lemmas.HLDir
/-!
  Lemmas/HLOSDir.lean — the extension `HL.LSimDir` of the contract with symlinks, discharged for the
  OS model behind two `PrefixFS` layers (`L.osSimL`, well-formed disks `L.OSGoodL`): a directory
  listing is exactly the set of live children (symlinks included), a `Remove` that returns nil has
  removed the entry (a symlink is removed, never followed), and `Remove` changes the disk at the
  named key only.
-/
namespace BFS
namespace HL
open MFS L

section
variable {bk kk : Key}

/-- the names `Readdirnames` reports are exactly those of the live children -/
theorem mem_childNamesL {m : MFS} (hg : OSGoodL bk kk m) (K : Key) (n : Name) :
    n ∈ m.childNames K ↔ m.get (K ++ [n]) ≠ none := by
  unfold MFS.childNames
  rw [List.mem_eraseDups, List.mem_filterMap]
  constructor
  · rintro ⟨c, hc, hl⟩
    rw [List.mem_filter] at hc
    obtain ⟨_, hc⟩ := hc
    simp only [Bool.and_eq_true, decide_eq_true_eq] at hc
    obtain ⟨⟨_, hpar⟩, hsome⟩ := hc
    obtain ⟨node, hnode⟩ := Option.isSome_iff_exists.mp hsome
    obtain ⟨ys, rfl⟩ := List.getLast?_eq_some_iff.mp hl
    unfold parentKey at hpar
    simp only [List.dropLast_concat] at hpar
    subst hpar
    rw [hnode]; simp
  · intro h
    cases hn : m.get (K ++ [n]) with
    | none => exact absurd hn h
    | some node =>
      refine ⟨K ++ [n], ?_, by simp⟩
      rw [List.mem_filter]
      refine ⟨hg.dom _ node hn, ?_⟩
      simp [parentKey, hn]

theorem os_readdir_dirL {m : MFS} {s : Side} {h : Handle} {k : Key} (hg : OSGoodL bk kk m)
    (hh : h.key = osRoot bk kk s ++ k) (hd : (osViewL bk kk s m).isDirAt k) :
    ∃ ns, ((osCfg bk kk).side s).hreaddirnames m h = .ok ns ∧
      ∀ n, n ∈ ns ↔ osViewL bk kk s m (k ++ [n]) ≠ none := by
  obtain ⟨mt, h0⟩ := osViewL_isDirAt hd
  rw [side_hreaddirnames]
  unfold MFS.hreaddirnames
  simp only [hh, h0]
  refine ⟨_, rfl, ?_⟩
  intro n
  unfold sortStrings
  rw [(sortBy_perm strLt _).mem_iff, mem_childNamesL hg, osViewL_eq, List.append_assoc]
  cases m.get (osRoot bk kk s ++ (k ++ [n])) <;> simp

/-- `os.Remove` returning nil: the entry (a file, a symlink or an empty directory) is gone -/
theorem remove_post_specL {m m' : MFS} (s : Side) {k : Key} (hr : Roots bk kk) (hg : OSGoodL bk kk m)
    (hk : PKey k) (hne : k ≠ []) (hnl : NoLinkProper m (osRoot bk kk s ++ k))
    (h : m.remove (kp (osRoot bk kk s ++ k)) = (m', .ok ())) :
    osViewL bk kk s m' k = none := by
  have hnone : ∀ P, osViewL bk kk s ((m.set (osRoot bk kk s ++ k) none).touchDir P) k = none := by
    intro P
    rw [osViewL_eq, touchDir_eraseV, set_get_self]
    rfl
  unfold MFS.remove at h
  have hKne : osRoot bk kk s ++ k ≠ [] := by simp [hne]
  rcases namei_below_nf s hr hg hk hnl with ⟨n, hn, hres⟩ | ⟨_, mt, hn, hp, hres⟩ | ⟨e, _, hn, hp, hres, he⟩
  · rw [hres] at h
    simp only [hKne, if_false] at h
    cases n with
    | link t mt =>
      simp only at h
      cases h; exact hnone _
    | dir mt =>
      simp only at h
      split at h
      · cases h
      · cases h; exact hnone _
    | file c mt =>
      simp only at h
      cases h; exact hnone _
  · rw [hres] at h; cases h
  · rw [hres] at h; cases h

theorem os_remove_postL {m m' : MFS} {s : Side} {k : Key} {r : Ret} (hr : Roots bk kk)
    (hg : OSGoodL bk kk m) (hk : PKey k) (hne : k ≠ []) (hna : NoLinkAnc (osViewL bk kk s m) k)
    (h : ((osCfg bk kk).side s).call m (.remove (kp k)) = (m', .ok r)) : osViewL bk kk s m' k = none := by
  obtain ⟨h1, h2⟩ := unit_call_state (x := m.remove (kp (osRoot bk kk s ++ k))) hr (tr_remove (hr.pkey s) hk) rfl h
  have h3 : (m.remove (kp (osRoot bk kk s ++ k))).2 = .ok () := by
    cases hx : (m.remove (kp (osRoot bk kk s ++ k))).2 with
    | error e => rw [hx] at h2; cases h2
    | ok u => rfl
  rw [h3] at h1
  exact remove_post_specL s hr hg hk hne (noLinkProper_of_view hg hna) h1

/-- `Remove` through `PrefixFS`: every disk key but the one named keeps its node (directory
timestamps aside) -/
theorem os_remove_rawL {m m' : MFS} {s : Side} {k : Key} {r : Except Err Ret} (hr : Roots bk kk)
    (hg : OSGoodL bk kk m) (hk : PKey k) (hne : k ≠ []) (hna : NoLinkAnc (osViewL bk kk s m) k)
    (h : ((osCfg bk kk).side s).call m (.remove (kp k)) = (m', r)) :
    ∀ K, K ≠ osRoot bk kk s ++ k → (m'.get K).map eraseMt = (m.get K).map eraseMt := by
  obtain ⟨h1, _⟩ := unit_call_state (x := m.remove (kp (osRoot bk kk s ++ k))) hr (tr_remove (hr.pkey s) hk) rfl h
  exact (L.remove_spec s hr hg hk hne (noLinkProper_of_view hg hna) h1).2.1

/-- `RemoveAll` through `PrefixFS` (the underlying `os.RemoveAll`, which does not follow symlinks
either): every disk key outside the subtree keeps its node (directory timestamps aside) -/
theorem os_removeAll_rawL {m m' : MFS} {s : Side} {k : Key} {r : Except Err Ret} (hr : Roots bk kk)
    (hg : OSGoodL bk kk m) (hk : PKey k) (hne : k ≠ []) (hna : NoLinkAnc (osViewL bk kk s m) k)
    (h : ((osCfg bk kk).side s).call m (.removeAll (kp k)) = (m', r)) :
    ∀ K, ¬ osRoot bk kk s ++ k <+: K → (m'.get K).map eraseMt = (m.get K).map eraseMt := by
  obtain ⟨h1, _⟩ := unit_call_state (x := m.removeAll (kp (osRoot bk kk s ++ k))) hr
    (tr_removeAll (hr.pkey s) hk) rfl h
  exact (L.removeAll_spec s hr hg hk hne (noLinkProper_of_view hg hna) h1).2.1

/-- what the base side's `RemoveAll` is: `os.RemoveAll` on the prefixed path -/
theorem side_removeAll_eq (hr : Roots bk kk) (s : Side) (m : MFS) {k : Key} (hk : PKey k) :
    ((osCfg bk kk).side s).call m (.removeAll (kp k)) = liftU (m.removeAll (kp (osRoot bk kk s ++ k))) := by
  rw [side_call_unit hr s m (tr_removeAll (hr.pkey s) hk) (x := m.removeAll (kp (osRoot bk kk s ++ k))) rfl]
  rfl

/-- name resolution (not following) of an absent key whose parent is a live directory -/
theorem namei_absent {m : MFS} (s : Side) {k : Key} (hr : Roots bk kk) (hg : OSGoodL bk kk m) (hk : PKey k)
    (hne : k ≠ []) (hv : osViewL bk kk s m k = none) (hpar : (osViewL bk kk s m).isDirAt k.dropLast) :
    ∃ P c, namei m (kp (osRoot bk kk s ++ k)) false = .missing P c := by
  have h0 := osViewL_none hv
  obtain ⟨pmt, hpd⟩ := osViewL_isDirAt hpar
  rcases namei_below_nf s hr hg hk (noLinkProper_of_view hg (noLinkAnc_of_parentDir hg hpar)) with
    ⟨n, hn, _⟩ | ⟨_, mt, hn, hp, hres⟩ | ⟨e, _, hn, hp, hres, he⟩
  · rw [h0] at hn; cases hn
  · exact ⟨_, _, hres⟩
  · exfalso
    apply hp
    rw [append_dropLast hne]
    exact ⟨pmt, hpd⟩

/-- `Lstat` of an absent name in an existing directory: ENOENT -/
theorem os_lstat_absent {m : MFS} {s : Side} {k : Key} (hr : Roots bk kk) (hg : OSGoodL bk kk m) (hk : PKey k)
    (hne : k ≠ []) (hv : osViewL bk kk s m k = none) (hpar : (osViewL bk kk s m).isDirAt k.dropLast) :
    ((osCfg bk kk).side s).call m (.lstat (kp k)) = (m, .error .notExist) := by
  obtain ⟨P, c, hres⟩ := namei_absent s hr hg hk hne hv hpar
  rw [side_lstat s hr hk]
  unfold MFS.lstat
  rw [hres]
  rfl

/-- the underlying `RemoveAll` of an absent name in an existing directory: nil, nothing changes -/
theorem os_removeAll_absent {m : MFS} {s : Side} {k : Key} (hr : Roots bk kk) (hg : OSGoodL bk kk m) (hk : PKey k)
    (hne : k ≠ []) (hv : osViewL bk kk s m k = none) (hpar : (osViewL bk kk s m).isDirAt k.dropLast) :
    ((osCfg bk kk).side s).call m (.removeAll (kp k)) = (m, .ok .unit) := by
  obtain ⟨P, c, hres⟩ := namei_absent s hr hg hk hne hv hpar
  have hKne : osRoot bk kk s ++ k ≠ [] := by simp [hne]
  rw [side_removeAll_eq hr s m hk]
  unfold MFS.removeAll
  simp only [kp_ne_nil, if_false, endsWithDot_kp ((hr.pkey s).append hk) hKne, Bool.false_eq_true]
  rw [hres]
  rfl

end

theorem osLSimDir (bk kk : Key) (hbk : PKey bk) (hkk : PKey kk) (hne1 : bk ≠ []) (hne2 : kk ≠ [])
    (hd1 : ¬ bk <+: kk) (hd2 : ¬ kk <+: bk) : LSimDir (osSimL bk kk hbk hkk hne1 hne2 hd1 hd2) bk where
  readdir_dir := fun hg hh hd => os_readdir_dirL hg hh hd
  readdir_nodup := fun _ _ he => os_readdir_nodup he
  remove_post := fun hg hk hne hna h => os_remove_postL ⟨hbk, hkk, hne1, hne2, hd1, hd2⟩ hg hk hne hna h
  remove_raw := fun hg hk hne hna h =>
    os_remove_rawL (s := .base) ⟨hbk, hkk, hne1, hne2, hd1, hd2⟩ hg hk hne hna h

end HL
end BFS
