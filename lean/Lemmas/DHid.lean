import Lemmas.HiddenLex
import Lemmas.DKeys
/-!
  Lemmas/DHid.lean — the lexical checks of HiddenFS on ARBITRARY name strings, against a hidden set
  of absolute cleaned paths `hks.map kp`: a name reported visible is absolute (when anything is
  hidden at all) and cleans to the path of a key that is not hidden; what a successful
  `HiddenFS.translate` guarantees about the names it hands down.
-/
namespace BFS
namespace D
open HiddenFS

theorem isHidden_clean (n : Path) (hs : List Path) : isHidden (clean n) hs = isHidden n hs := by
  unfold isHidden
  rw [clean_idempotent]

theorem isParentOfHidden_clean (n : Path) (hs : List Path) :
    isParentOfHidden (clean n) hs = isParentOfHidden n hs := by
  unfold isParentOfHidden
  rw [clean_idempotent]

theorem isHiddenLoop_false_rel {n : Path} : ∀ {hs : List Path}, isHiddenLoop n hs = .ok false →
    ∀ h ∈ hs, rel h n ≠ none
  | [], _ => by simp
  | h :: hs, hh => by
    simp only [isHiddenLoop] at hh
    cases hi : isInHiddenPath n h with
    | none => rw [hi] at hh; cases hh
    | some b =>
      rw [hi] at hh
      cases b with
      | true => cases hh
      | false =>
        intro h' hm
        rcases List.mem_cons.mp hm with rfl | hm
        · intro e
          unfold isInHiddenPath at hi
          rw [e] at hi
          cases hi
        · exact isHiddenLoop_false_rel (hs := hs) hh h' hm

theorem rooted_of_rel {a b : Path} (h : rel a b ≠ none) : isRooted a = isRooted b := by
  unfold rel at h
  simp only at h
  rw [← cleanC_rooted a, ← cleanC_rooted b]
  split at h
  · rename_i e; rw [e]
  · split at h
    · exact absurd rfl h
    · rename_i hr
      simpa using hr

/-- with a non-empty hidden set of absolute paths, a name reported visible is absolute -/
theorem visible_abs {hs : List Path} {hks : List Key} (H : HidKeys hs hks) (hne : hks ≠ []) {n : Path}
    (hv : isHidden n hs = .ok false) : isAbs n = true := by
  unfold isHidden at hv
  have hsne : hs ≠ [] := fun e => hne (H.nil_iff.mp e)
  simp only [hsne, if_false] at hv
  obtain ⟨h0, hm⟩ := List.exists_mem_of_ne_nil hks hne
  have hmem : kp h0 ∈ hs := (H.mem _).mpr ⟨h0, hm, rfl⟩
  have := rooted_of_rel (isHiddenLoop_false_rel hv _ hmem)
  rw [isRooted_kp, isRooted_clean] at this
  exact this.symm

/-- … and cleans to the path of a key that is not hidden -/
theorem visible_key {hs : List Path} {hks : List Key} (H : HidKeys hs hks) (hne : hks ≠ []) {n : Path}
    (hv : isHidden n hs = .ok false) : ∃ y, PKey y ∧ clean n = kp y ∧ ¬ HidK hks y := by
  obtain ⟨y, hy, hc⟩ := clean_abs (visible_abs H hne hv)
  refine ⟨y, hy, hc, ?_⟩
  intro hh
  rw [← isHidden_clean, hc, isHidden_kp H hy] at hv
  simp only [hh, decide_true] at hv
  cases hv

theorem notparent_key {hs : List Path} {hks : List Key} (H : HidKeys hs hks) {n : Path} {y : Key}
    (hy : PKey y) (hc : clean n = kp y) (hv : isParentOfHidden n hs = .ok false) : ¬ ParK hks y := by
  intro hh
  rw [← isParentOfHidden_clean, hc, isParentOfHidden_kp H hy] at hv
  simp only [hh, decide_true] at hv
  cases hv

/-- the key `PrefixFS` maps a name to is the key its cleaned form spells -/
theorem prefixPath_key_eq {bk x y : Key} (hbk : PKey bk) (hx : PKey x) (hy : PKey y) {n : Path}
    (hc : clean n = kp y) (hp : PrefixFS.prefixPath (kp bk) n = .ok (kp (bk ++ x))) : x = y := by
  have h1 := (prefixPath_ok hp).1
  rw [hc] at h1
  have h2 := osjoin_kp hbk hy
  rw [clean_kp hy] at h2
  rw [h2] at h1
  exact List.append_cancel_left (kp_inj (hbk.append hx) (hbk.append hy) h1)

theorem prefix_key_visible {hs : List Path} {hks : List Key} (H : HidKeys hs hks) (hne : hks ≠ [])
    {bk x : Key} (hbk : PKey bk) (hx : PKey x) {n : Path}
    (hp : PrefixFS.prefixPath (kp bk) n = .ok (kp (bk ++ x))) (hv : isHidden n hs = .ok false) :
    ¬ HidK hks x := by
  obtain ⟨y, hy, hc, hh⟩ := visible_key H hne hv
  rw [prefixPath_key_eq hbk hx hy hc hp]
  exact hh

theorem prefix_key_notparent {hs : List Path} {hks : List Key} (H : HidKeys hs hks) (hne : hks ≠ [])
    {bk x : Key} (hbk : PKey bk) (hx : PKey x) {n : Path}
    (hp : PrefixFS.prefixPath (kp bk) n = .ok (kp (bk ++ x))) (hv : isHidden n hs = .ok false)
    (hpar : isParentOfHidden n hs = .ok false) : ¬ ParK hks x := by
  obtain ⟨y, hy, hc, _⟩ := visible_key H hne hv
  rw [prefixPath_key_eq hbk hx hy hc hp]
  exact notparent_key H hy hc hpar

/-! ### what a successful `HiddenFS.translate` guarantees -/

/-- the delegated call names only visible entries; a delegated `Rename` names no ancestor of a
hidden path; `RemoveAll` is delegated only for `RemoveAll` -/
theorem translate_ok_visible {hs : List Path} {c c' : Call} (h : translate hs c = .ok c') :
    (∀ n ∈ c'.accessPaths, isHidden n hs = .ok false) ∧
    (∀ o n, c' = .rename o n → isParentOfHidden o hs = .ok false ∧ isParentOfHidden n hs = .ok false) ∧
    ((∀ n, c ≠ .removeAll n) → ∀ n, c' ≠ .removeAll n) := by
  cases c <;> simp only [translate, bind, Except.bind, pure, Except.pure] at h
  case rename o n =>
    cases h1 : hguard hs o .hiddenNotExist with
    | error e => rw [h1] at h; cases h
    | ok u1 =>
      rw [h1] at h
      simp only at h
      cases hp1 : isParentOfHidden o hs with
      | error e => rw [hp1] at h; cases h
      | ok b1 =>
        rw [hp1] at h
        cases b1 with
        | true => cases h
        | false =>
          simp only at h
          cases h2 : hguard hs n .hiddenPerm with
          | error e => rw [h2] at h; cases h
          | ok u2 =>
            rw [h2] at h
            simp only at h
            cases hp2 : isParentOfHidden n hs with
            | error e => rw [hp2] at h; cases h
            | ok b2 =>
              rw [hp2] at h
              cases b2 with
              | true => cases h
              | false =>
                cases h
                refine ⟨?_, ?_, fun _ _ e => by cases e⟩
                · intro m hm
                  simp only [Call.accessPaths, List.mem_cons, List.not_mem_nil, or_false] at hm
                  rcases hm with rfl | rfl
                  · exact hguard_ok h1
                  · exact hguard_ok h2
                · intro o' n' e
                  cases e
                  exact ⟨hp1, hp2⟩
  case symlink o n =>
    cases h1 : hguard hs (if isAbs o = true then o else join (dir (clean n)) o) .hiddenPerm with
    | error e => rw [h1] at h; cases h
    | ok u1 =>
      rw [h1] at h
      simp only at h
      cases h2 : hguard hs n .hiddenPerm with
      | error e => rw [h2] at h; cases h
      | ok u2 =>
        rw [h2] at h
        cases h
        refine ⟨?_, fun _ _ e => (by cases e), fun _ _ e => (by cases e)⟩
        intro m hm
        simp only [Call.accessPaths, List.mem_singleton] at hm
        subst hm
        exact hguard_ok h2
  case removeAll n =>
    split at h
    · cases h
    · rename_i u hu
      cases h
      refine ⟨?_, fun _ _ e => (by cases e), fun hn => absurd rfl (hn n)⟩
      intro m hm
      simp only [Call.accessPaths, List.mem_singleton] at hm
      subst hm
      exact hguard_ok hu
  all_goals (
    split at h
    · cases h
    · rename_i u hu
      cases h
      refine ⟨?_, ?_, ?_⟩
      · intro m hm
        simp only [Call.accessPaths, List.mem_singleton] at hm
        subst hm
        exact hguard_ok hu
      · intro o' n' e; cases e
      · intro _ n' e; cases e)

end D
end BFS
