import Lemmas.LSimOSLaws8
/-!
  Lemmas/LSimOS.lean — the `LSim` contract (trees with symlinks as leaves that are never traversed)
  discharged for the OS model behind two `PrefixFS` layers.

  `eraseV`, `osViewL`, `OSGoodL`, `osLinkOK` are defined in `Lemmas/LSimOSBase.lean`; name resolution
  with a final symlink is in `Lemmas/LSimOSWalk.lean`, preservation of `OSGoodL` in
  `Lemmas/LSimOSGood.lean`, the laws one by one in `Lemmas/LSimOSLaws1..8.lean`.  The laws that do not
  mention the views (`pure_*`, `openFile_flag`, `hwrite_ro`) are those of the link-free development.
  This file assembles the instance `osSimL` and shows that `OSGoodL` holds of an ordinary disk with a
  symlink (`osGoodL_example`).
-/
namespace BFS
namespace L

def osSimL (bk kk : Key) (hbk : PKey bk) (hkk : PKey kk) (hne1 : bk ≠ []) (hne2 : kk ≠ [])
    (hd1 : ¬ bk <+: kk) (hd2 : ¬ kk <+: bk) : LSim (osCfg bk kk) where
  G := OSGoodL bk kk
  view := osViewL bk kk
  H := fun s h k => h.key = osRoot bk kk s ++ k
  LinkOK := osLinkOK bk kk
  root_dir := fun hg => os_root_dir hg
  parent_dir := fun hg h hne => os_parent_dir hg h hne
  pkey := fun hg h => os_pkey hg h
  mode_lt := fun hg h => os_mode_lt hg h
  erased := fun hg h => os_erased hg h
  link_erased := fun hg h => os_link_erased hg h
  link_canon := fun hg h => os_link_canon hg h
  pure_lstat := fun h => os_pure_lstat ⟨hbk, hkk, hne1, hne2, hd1, hd2⟩ h
  pure_stat := fun h => os_pure_stat ⟨hbk, hkk, hne1, hne2, hd1, hd2⟩ h
  pure_readlink := fun h => os_pure_readlink ⟨hbk, hkk, hne1, hne2, hd1, hd2⟩ h
  pure_open := fun h => os_pure_open ⟨hbk, hkk, hne1, hne2, hd1, hd2⟩ h
  pure_openRO := fun h => os_pure_openRO ⟨hbk, hkk, hne1, hne2, hd1, hd2⟩ h
  openFile_flag := fun h => os_openFile_flag ⟨hbk, hkk, hne1, hne2, hd1, hd2⟩ h
  lstat_some := fun hg hk hv => os_lstat_some ⟨hbk, hkk, hne1, hne2, hd1, hd2⟩ hg hk hv
  lstat_none := fun hg hk hna hv => os_lstat_none ⟨hbk, hkk, hne1, hne2, hd1, hd2⟩ hg hk hna hv
  readlink_link := fun hg hk hv => os_readlink_link ⟨hbk, hkk, hne1, hne2, hd1, hd2⟩ hg hk hv
  open_some := fun hg hk hv => os_open_some ⟨hbk, hkk, hne1, hne2, hd1, hd2⟩ hg hk hv
  open_handle := fun hg hk ha h => os_open_handle ⟨hbk, hkk, hne1, hne2, hd1, hd2⟩ hg hk ha h
  create_frame := fun hg hk ha h => os_create_frame ⟨hbk, hkk, hne1, hne2, hd1, hd2⟩ hg hk ha h
  openFile_frame := fun hg hk ha h => os_openFile_frame ⟨hbk, hkk, hne1, hne2, hd1, hd2⟩ hg hk ha h
  openW_file := fun hg hk hv => os_openW_file ⟨hbk, hkk, hne1, hne2, hd1, hd2⟩ hg hk hv
  openW_none := fun hg hk hv hp => os_openW_none ⟨hbk, hkk, hne1, hne2, hd1, hd2⟩ hg hk hv hp
  openW_post := fun hg hk ha h => os_openW_post ⟨hbk, hkk, hne1, hne2, hd1, hd2⟩ hg hk ha h
  hwrite_ro := fun ha => os_hwrite_ro ha
  hwrite_frame := fun hg hh he => os_hwrite_frame ⟨hbk, hkk, hne1, hne2, hd1, hd2⟩ hg hh he
  hwrite_file := fun _ hh ha hv => os_hwrite_file hh ha hv
  hread_file := fun _ hh ha hv => os_hread_file hh ha hv
  hstat_some := fun _ hh hv => os_hstat_some hh hv
  readdir_plain := fun hg _ he => os_readdir_plain hg he
  mkdir_frame := fun hg hk hna h => os_mkdir_frame ⟨hbk, hkk, hne1, hne2, hd1, hd2⟩ hg hk hna h
  mkdirAll_frame := fun hg hk ha h => os_mkdirAll_frame ⟨hbk, hkk, hne1, hne2, hd1, hd2⟩ hg hk ha h
  mkdirAll_ok := fun hg hk hp hv => os_mkdirAll_ok ⟨hbk, hkk, hne1, hne2, hd1, hd2⟩ hg hk hp hv
  remove_frame := fun hg hk hne hna h => os_remove_frame ⟨hbk, hkk, hne1, hne2, hd1, hd2⟩ hg hk hne hna h
  remove_ok := fun hg hk hne hv => os_remove_ok ⟨hbk, hkk, hne1, hne2, hd1, hd2⟩ hg hk hne hv
  removeAll_frame := fun hg hk hne hna h => os_removeAll_frame ⟨hbk, hkk, hne1, hne2, hd1, hd2⟩ hg hk hne hna h
  removeAll_ok := fun hg hk hne hv => os_removeAll_ok ⟨hbk, hkk, hne1, hne2, hd1, hd2⟩ hg hk hne hv
  rename_frame := fun hg hko hkn hnao hnan h =>
    os_rename_frame ⟨hbk, hkk, hne1, hne2, hd1, hd2⟩ hg hko hkn hnao hnan h
  chmod_frame := fun hg hk ha h => os_chmod_frame ⟨hbk, hkk, hne1, hne2, hd1, hd2⟩ hg hk ha h
  chmod_some := fun hg hk hv hl => os_chmod_some ⟨hbk, hkk, hne1, hne2, hd1, hd2⟩ hg hk hv hl
  chown_frame := fun hg hk ha h => os_chown_frame ⟨hbk, hkk, hne1, hne2, hd1, hd2⟩ hg hk ha h
  chown_some := fun hg hk hv hl => os_chown_some ⟨hbk, hkk, hne1, hne2, hd1, hd2⟩ hg hk hv hl
  lchown_frame := fun hg hk hna h => os_lchown_frame ⟨hbk, hkk, hne1, hne2, hd1, hd2⟩ hg hk hna h
  lchown_link := fun hg hk hv => os_lchown_link ⟨hbk, hkk, hne1, hne2, hd1, hd2⟩ hg hk hv
  chtimes_frame := fun hg hk ha h => os_chtimes_frame ⟨hbk, hkk, hne1, hne2, hd1, hd2⟩ hg hk ha h
  chtimes_file := fun hg hk hv => os_chtimes_file ⟨hbk, hkk, hne1, hne2, hd1, hd2⟩ hg hk hv
  chtimes_dir := fun hg hk hv => os_chtimes_dir ⟨hbk, hkk, hne1, hne2, hd1, hd2⟩ hg hk hv
  symlink_frame := fun hg hk hna h => os_symlink_frame ⟨hbk, hkk, hne1, hne2, hd1, hd2⟩ hg hk hna h
  symlink_post := fun hg hk hna hct h => os_symlink_post ⟨hbk, hkk, hne1, hne2, hd1, hd2⟩ hg hk hna hct h
  symlink_ok := fun hg hk hct hok hv hp => os_symlink_ok ⟨hbk, hkk, hne1, hne2, hd1, hd2⟩ hg hk hct hok hv hp

/-! ### `OSGoodL` is satisfiable: an ordinary small disk with a symlink -/

/-- `/`, `/b` (base root) with a file `/b/f`, a directory `/b/d` and a symlink `/b/l -> "f"`,
`/k` (backup root) -/
def exDiskL : MFS where
  get := fun k =>
    if k = [] then some (.dir exMeta)
    else if k = [['b']] then some (.dir exMeta)
    else if k = [['k']] then some (.dir exMeta)
    else if k = [['b'], ['f']] then some (.file "hello" { exMeta with mode := 0o644 })
    else if k = [['b'], ['d']] then some (.dir exMeta)
    else if k = [['b'], ['l']] then some (.link ['f'] { exMeta with mode := 0o777 })
    else none
  dom := [[], [['b']], [['k']], [['b'], ['f']], [['b'], ['d']], [['b'], ['l']]]
  umask := 0o022

theorem exDiskL_live {k : Key} {n : Node} (h : exDiskL.get k = some n) :
    (k = [] ∧ n = .dir exMeta) ∨ (k = [['b']] ∧ n = .dir exMeta) ∨ (k = [['k']] ∧ n = .dir exMeta) ∨
    (k = [['b'], ['f']] ∧ n = .file "hello" { exMeta with mode := 0o644 }) ∨ (k = [['b'], ['d']] ∧ n = .dir exMeta) ∨
    (k = [['b'], ['l']] ∧ n = .link ['f'] { exMeta with mode := 0o777 }) := by
  simp only [exDiskL] at h
  split at h
  · cases h; exact Or.inl ⟨‹_›, rfl⟩
  split at h
  · cases h; exact Or.inr (Or.inl ⟨‹_›, rfl⟩)
  split at h
  · cases h; exact Or.inr (Or.inr (Or.inl ⟨‹_›, rfl⟩))
  split at h
  · cases h; exact Or.inr (Or.inr (Or.inr (Or.inl ⟨‹_›, rfl⟩)))
  split at h
  · cases h; exact Or.inr (Or.inr (Or.inr (Or.inr (Or.inl ⟨‹_›, rfl⟩))))
  split at h
  · cases h; exact Or.inr (Or.inr (Or.inr (Or.inr (Or.inr ⟨‹_›, rfl⟩))))
  · cases h

theorem osGoodL_example : OSGoodL [['b']] [['k']] exDiskL := by
  refine ⟨⟨_, rfl⟩, ?_, ?_, ?_, ?_, ⟨_, rfl⟩, ⟨_, rfl⟩⟩
  · intro k n h
    rcases exDiskL_live h with ⟨rfl, _⟩ | ⟨rfl, _⟩ | ⟨rfl, _⟩ | ⟨rfl, _⟩ | ⟨rfl, _⟩ | ⟨rfl, _⟩ <;> decide
  · intro k n h
    rcases exDiskL_live h with ⟨rfl, _⟩ | ⟨rfl, _⟩ | ⟨rfl, _⟩ | ⟨rfl, _⟩ | ⟨rfl, _⟩ | ⟨rfl, _⟩ <;> decide
  · intro k n h
    rcases exDiskL_live h with ⟨_, rfl⟩ | ⟨_, rfl⟩ | ⟨_, rfl⟩ | ⟨_, rfl⟩ | ⟨_, rfl⟩ | ⟨_, rfl⟩ <;> decide
  · intro k n h hne
    rcases exDiskL_live h with ⟨rfl, _⟩ | ⟨rfl, _⟩ | ⟨rfl, _⟩ | ⟨rfl, _⟩ | ⟨rfl, _⟩ | ⟨rfl, _⟩
    · exact absurd rfl hne
    all_goals exact ⟨_, rfl⟩

/-- the roots of the example satisfy the hypotheses of `osSimL` -/
def osSimL_example : LSim (osCfg [['b']] [['k']]) :=
  osSimL [['b']] [['k']] (by decide) (by decide) (by decide) (by decide) (by decide) (by decide)

example : (osSimL_example).G exDiskL := osGoodL_example

/-- the symlink of the example shows in the base view with the text `Readlink` reports -/
example : (osSimL_example).view .base exDiskL [['l']] =
    some (.link ['f'] { exMeta with mode := 0o777, mtime := .fresh }) := by decide

/-- and `PrefixFS` admits re-creating it -/
example : (osSimL_example).LinkOK .base [['l']] ['f'] := Or.inr (by decide)

end L
end BFS
