import Lemmas.LSimOSLaws4
/-!
  Lemmas/LSimOSLaws5.lean — `Mkdir`, `Remove`, `RemoveAll` (none follows a final symlink).
-/
namespace BFS
namespace L
open MFS

section
variable {bk kk : Key}

/-! ### `Mkdir` -/

theorem mkdir_spec {m m' : MFS} (s : Side) {k : Key} {t : Path} {perm : Nat} {r : Except Err Unit} (hr : Roots bk kk)
    (hg : OSGoodL bk kk m) (hk : PKey k) (hnl : NoLinkProper m (osRoot bk kk s ++ k))
    (ht : TextOf t (osRoot bk kk s ++ k)) (h : m.mkdir t perm = (m', r)) :
    OSGoodL bk kk m' ∧ EqOff m m' (osRoot bk kk s ++ k) ∧ LinkSub m m' ∧
      (r = .ok () → m.get (osRoot bk kk s ++ k) = none ∧ ∃ mt, m'.get (osRoot bk kk s ++ k) = some (.dir mt)) ∧
      (∀ e, r = .error e → m' = m) := by
  unfold MFS.mkdir at h
  rcases namei_below_text_nf s hr hg hk hnl ht with ⟨n, hn, hres⟩ | ⟨hne, mt, hn, hp, hres⟩ | ⟨e, hne, hn, hp, hres, he⟩
  · rw [hres] at h
    cases h
    exact ⟨hg, EqOff.refl _ _, LinkSub.refl _, (fun e => by cases e), fun _ _ => rfl⟩
  · rw [hres] at h
    simp only [dropLast_append_getLast' hne] at h
    cases h
    have hc := ((hr.pkey s).append hk).getLast hne
    have hnone : m.get ((osRoot bk kk s ++ k).dropLast ++ [(osRoot bk kk s ++ k).getLast hne]) = none := by
      rw [dropLast_append_getLast' hne]; exact hn
    have hgood := good_set_new (n' := .dir ⟨(perm &&& 0o1777) &&& (0o7777 ^^^ m.umask) ||| (if (inheritGid m (osRoot bk kk s ++ k).dropLast).2 then S_ISGID else 0), 0, (inheritGid m (osRoot bk kk s ++ k).dropLast).1, .fresh⟩)
      hg hp hc hnone (mkdir_mode_lt _ _ _)
    rw [dropLast_append_getLast' hne] at hgood
    refine ⟨good_touchDir hgood _, (EqOff.set _ _ _).touch _,
      (LinkSub.set_nonlink _ _ (by intro t mt' e; cases e)).touch _, fun _ => ⟨hn, ?_⟩, (fun _ e => by cases e)⟩
    rw [touchDir_dir, set_get_self]
    exact ⟨_, rfl⟩
  · rw [hres] at h
    cases h
    exact ⟨hg, EqOff.refl _ _, LinkSub.refl _, (fun e => by cases e), fun _ _ => rfl⟩

theorem os_mkdir_frame {m m' : MFS} {s : Side} {k : Key} {perm : Nat} {r : Except Err Ret} (hr : Roots bk kk)
    (hg : OSGoodL bk kk m) (hk : PKey k) (hna : NoLinkAnc (osViewL bk kk s m) k)
    (h : ((osCfg bk kk).side s).call m (.mkdir (kp k) perm) = (m', r)) :
    OSGoodL bk kk m' ∧ osViewL bk kk s.other m' = osViewL bk kk s.other m ∧
      (∀ j, j ≠ k → osViewL bk kk s m' j = osViewL bk kk s m j) ∧
      LinkMono (osViewL bk kk s m) (osViewL bk kk s m') := by
  obtain ⟨h1, _⟩ := unit_call_state (x := m.mkdir (kp (osRoot bk kk s ++ k)) perm) hr
    (tr_mkdir (hr.pkey s) hk perm) rfl h
  obtain ⟨g1, g2, g3, _⟩ := mkdir_spec s hr hg hk (noLinkProper_of_view hg hna) (TextOf.kp _) h1
  exact ⟨g1, frame_of hr g2 g3⟩

/-! ### `Remove` -/

theorem hasChildren_false_iff {m : MFS} (hg : OSGoodL bk kk m) (K : Key) :
    m.hasChildren K = false ↔ ∀ c, m.get (K ++ [c]) = none := by
  unfold MFS.hasChildren
  rw [List.any_eq_false]
  constructor
  · intro h c
    cases hc : m.get (K ++ [c]) with
    | none => rfl
    | some n =>
      exfalso
      apply h (K ++ [c]) (hg.dom _ n hc)
      simp [parentKey, hc]
  · intro h c _ hp
    simp only [Bool.and_eq_true, decide_eq_true_eq] at hp
    obtain ⟨⟨hne, hpar⟩, hsome⟩ := hp
    have := h (c.getLast hne)
    unfold parentKey at hpar
    rw [← hpar, dropLast_append_getLast' hne] at this
    rw [this] at hsome
    cases hsome

theorem remove_spec {m m' : MFS} (s : Side) {k : Key} {r : Except Err Unit} (hr : Roots bk kk)
    (hg : OSGoodL bk kk m) (hk : PKey k) (hne : k ≠ []) (hnl : NoLinkProper m (osRoot bk kk s ++ k))
    (h : m.remove (kp (osRoot bk kk s ++ k)) = (m', r)) :
    OSGoodL bk kk m' ∧ EqOff m m' (osRoot bk kk s ++ k) ∧ LinkSub m m' := by
  unfold MFS.remove at h
  have hKne : osRoot bk kk s ++ k ≠ [] := by simp [hne]
  obtain ⟨hb, hkk⟩ := key_ne_roots (s := s) hr hne
  have hrm : ∀ P, LinkSub m ((m.set (osRoot bk kk s ++ k) none).touchDir P) := fun P =>
    (LinkSub.set_nonlink _ _ (by intro t mt' e; cases e)).touch P
  rcases namei_below_nf s hr hg hk hnl with ⟨n, hn, hres⟩ | ⟨_, mt, hn, hp, hres⟩ | ⟨e, _, hn, hp, hres, he⟩
  · rw [hres] at h
    simp only [hKne, if_false] at h
    cases n with
    | link t mt =>
      simp only at h
      cases h
      have hch' : ∀ c', m.get (osRoot bk kk s ++ k ++ [c']) = none := fun c' =>
        hg.below_nondir (List.prefix_append _ _) (by simp) hn rfl
      exact ⟨good_touchDir (good_set_none hg hch' hb hkk hKne) _, (EqOff.set _ _ _).touch _, hrm _⟩
    | dir mt =>
      simp only at h
      split at h
      · cases h; exact ⟨hg, EqOff.refl _ _, LinkSub.refl _⟩
      · rename_i hch
        cases h
        have hch' := (hasChildren_false_iff hg _).mp (by simpa using hch)
        exact ⟨good_touchDir (good_set_none hg hch' hb hkk hKne) _, (EqOff.set _ _ _).touch _, hrm _⟩
    | file c mt =>
      simp only at h
      cases h
      have hch' : ∀ c', m.get (osRoot bk kk s ++ k ++ [c']) = none := fun c' =>
        hg.below_nondir (List.prefix_append _ _) (by simp) hn rfl
      exact ⟨good_touchDir (good_set_none hg hch' hb hkk hKne) _, (EqOff.set _ _ _).touch _, hrm _⟩
  · rw [hres] at h
    cases h
    exact ⟨hg, EqOff.refl _ _, LinkSub.refl _⟩
  · rw [hres] at h
    cases h
    exact ⟨hg, EqOff.refl _ _, LinkSub.refl _⟩

theorem os_remove_frame {m m' : MFS} {s : Side} {k : Key} {r : Except Err Ret} (hr : Roots bk kk)
    (hg : OSGoodL bk kk m) (hk : PKey k) (hne : k ≠ []) (hna : NoLinkAnc (osViewL bk kk s m) k)
    (h : ((osCfg bk kk).side s).call m (.remove (kp k)) = (m', r)) :
    OSGoodL bk kk m' ∧ osViewL bk kk s.other m' = osViewL bk kk s.other m ∧
      (∀ j, j ≠ k → osViewL bk kk s m' j = osViewL bk kk s m j) ∧
      LinkMono (osViewL bk kk s m) (osViewL bk kk s m') := by
  obtain ⟨h1, _⟩ := unit_call_state (x := m.remove (kp (osRoot bk kk s ++ k))) hr (tr_remove (hr.pkey s) hk) rfl h
  obtain ⟨g1, g2, g3⟩ := remove_spec s hr hg hk hne (noLinkProper_of_view hg hna) h1
  exact ⟨g1, frame_of hr g2 g3⟩

theorem os_remove_ok {m : MFS} {s : Side} {k : Key} (hr : Roots bk kk) (hg : OSGoodL bk kk m) (hk : PKey k)
    (hne : k ≠ [])
    (hv : (osViewL bk kk s m).isFileAt k ∨ isLinkAt (osViewL bk kk s m) k ∨
      ((osViewL bk kk s m).isDirAt k ∧ ¬ (osViewL bk kk s m).hasChild k)) :
    ∃ m', ((osCfg bk kk).side s).call m (.remove (kp k)) = (m', .ok .unit) ∧ osViewL bk kk s m' k = none := by
  have hKne : osRoot bk kk s ++ k ≠ [] := by simp [hne]
  rw [side_call_unit hr s m (tr_remove (hr.pkey s) hk) (x := m.remove (kp (osRoot bk kk s ++ k))) rfl]
  have hnone : ∀ P, osViewL bk kk s ((m.set (osRoot bk kk s ++ k) none).touchDir P) k = none := by
    intro P
    rw [osViewL_eq, touchDir_eraseV, set_get_self]
    rfl
  unfold MFS.remove
  rcases hv with hv | hv | ⟨hv, hch⟩
  · obtain ⟨c, mt, h0⟩ := osViewL_isFileAt hv
    rw [namei_live hr hg hk h0 false (Or.inr rfl)]
    simp only [hKne, if_false]
    exact ⟨_, rfl, hnone _⟩
  · obtain ⟨raw, mt, h0⟩ := osViewL_isLinkAt hv
    rw [namei_live hr hg hk h0 false (Or.inr rfl)]
    simp only [hKne, if_false]
    exact ⟨_, rfl, hnone _⟩
  · obtain ⟨mt, h0⟩ := osViewL_isDirAt hv
    rw [namei_live hr hg hk h0 false (Or.inr rfl)]
    have hc : m.hasChildren (osRoot bk kk s ++ k) = false := by
      rw [hasChildren_false_iff hg]
      intro c
      cases hcc : m.get (osRoot bk kk s ++ k ++ [c]) with
      | none => rfl
      | some n =>
        exfalso
        apply hch
        refine ⟨c, ?_⟩
        rw [osViewL_eq, ← List.append_assoc, hcc]
        simp
    simp only [hKne, if_false, hc, Bool.false_eq_true]
    exact ⟨_, rfl, hnone _⟩

/-! ### `RemoveAll` -/

theorem removeAll_spec {m m' : MFS} (s : Side) {k : Key} {r : Except Err Unit} (hr : Roots bk kk)
    (hg : OSGoodL bk kk m) (hk : PKey k) (hne : k ≠ []) (hnl : NoLinkProper m (osRoot bk kk s ++ k))
    (h : m.removeAll (kp (osRoot bk kk s ++ k)) = (m', r)) :
    OSGoodL bk kk m' ∧ EqOffTree m m' (osRoot bk kk s ++ k) ∧ LinkSub m m' := by
  have hKne : osRoot bk kk s ++ k ≠ [] := by simp [hne]
  unfold MFS.removeAll at h
  simp only [kp_ne_nil, if_false, endsWithDot_kp ((hr.pkey s).append hk) hKne, Bool.false_eq_true] at h
  obtain ⟨hb, hkk⟩ := not_prefix_roots (s := s) hr hne
  rcases namei_below_nf s hr hg hk hnl with ⟨n, hn, hres⟩ | ⟨_, mt, hn, hp, hres⟩ | ⟨e, _, hn, hp, hres, he⟩
  · rw [hres] at h
    simp only [hKne, if_false] at h
    cases h
    refine ⟨good_touchDir (good_removeSubtree hg hb hkk) _, ?_, (LinkSub.removeSubtree m _).touch _⟩
    intro K' hK'
    rw [touchDir_erase, removeSubtree_get_other m hK']
  · rw [hres] at h
    cases h
    exact ⟨hg, fun _ _ => rfl, LinkSub.refl _⟩
  · rw [hres] at h
    cases e <;> simp only at h <;> cases h <;> exact ⟨hg, fun _ _ => rfl, LinkSub.refl _⟩

theorem frame_tree_of {m m' : MFS} {s : Side} {k : Key} (hr : Roots bk kk)
    (h : EqOffTree m m' (osRoot bk kk s ++ k)) :
    osViewL bk kk s.other m' = osViewL bk kk s.other m ∧
      (∀ j, ¬ k <+: j → osViewL bk kk s m' j = osViewL bk kk s m j) := by
  refine ⟨?_, ?_⟩
  · funext x
    apply map_eraseV_of_eraseMt
    apply h
    intro e
    exact hr.not_under s x (List.IsPrefix.trans (List.prefix_append _ _) e)
  · intro j hj
    apply map_eraseV_of_eraseMt
    apply h
    intro e
    exact hj ((List.prefix_append_right_inj _).mp e)

theorem os_removeAll_frame {m m' : MFS} {s : Side} {k : Key} {r : Except Err Ret} (hr : Roots bk kk)
    (hg : OSGoodL bk kk m) (hk : PKey k) (hne : k ≠ []) (hna : NoLinkAnc (osViewL bk kk s m) k)
    (h : ((osCfg bk kk).side s).call m (.removeAll (kp k)) = (m', r)) :
    OSGoodL bk kk m' ∧ osViewL bk kk s.other m' = osViewL bk kk s.other m ∧
      (∀ j, ¬ k <+: j → osViewL bk kk s m' j = osViewL bk kk s m j) ∧
      LinkMono (osViewL bk kk s m) (osViewL bk kk s m') := by
  obtain ⟨h1, _⟩ := unit_call_state (x := m.removeAll (kp (osRoot bk kk s ++ k))) hr
    (tr_removeAll (hr.pkey s) hk) rfl h
  obtain ⟨g1, g2, g3⟩ := removeAll_spec s hr hg hk hne (noLinkProper_of_view hg hna) h1
  obtain ⟨f1, f2⟩ := frame_tree_of hr g2
  exact ⟨g1, f1, f2, linkMono_of_linkSub s g3⟩

theorem os_removeAll_ok {m : MFS} {s : Side} {k : Key} (hr : Roots bk kk) (hg : OSGoodL bk kk m) (hk : PKey k)
    (hne : k ≠ []) (hv : osViewL bk kk s m k ≠ none) :
    ∃ m', ((osCfg bk kk).side s).call m (.removeAll (kp k)) = (m', .ok .unit) ∧
      (∀ j, k <+: j → osViewL bk kk s m' j = none) := by
  have hKne : osRoot bk kk s ++ k ≠ [] := by simp [hne]
  obtain ⟨n0, h0⟩ := osViewL_ne_none hv
  rw [side_call_unit hr s m (tr_removeAll (hr.pkey s) hk) (x := m.removeAll (kp (osRoot bk kk s ++ k))) rfl]
  unfold MFS.removeAll
  simp only [kp_ne_nil, if_false, endsWithDot_kp ((hr.pkey s).append hk) hKne, Bool.false_eq_true]
  rw [namei_live hr hg hk h0 false (Or.inr rfl)]
  simp only [hKne, if_false]
  refine ⟨_, rfl, ?_⟩
  intro j hj
  rw [osViewL_eq, touchDir_eraseV, removeSubtree_get_under m ((List.prefix_append_right_inj _).mpr hj)]
  rfl

end
end L
end BFS
