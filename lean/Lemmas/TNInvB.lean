import Lemmas.NRestore
import Lemmas.InvB
/-!
  Lemmas/TNInvB.lean (copy of Lemmas/InvB.lean over `N.Sim`, plus the static clause `bvis`) — the transaction invariant strengthened by what the *backup* side looks like
  on healthy filesystems (empty fault plan):
  * every non-root key tracked with a directory's info is a directory in the backup view,
  * every non-root key the backup view holds is tracked with an info (the backup never holds
    anything but copies of tracked originals),
  * the backup root's node is what it was.
  `Inv` (Lemmas/Inv.lean) is preserved under every fault plan; these clauses need success
  reasoning and are maintained only for `faults = []` (Lemmas/TrackB.lean, Lemmas/OpsB.lean).  They
  are what makes `Rollback` return nil and leave the backup clean (Lemmas/RestoreB.lean).
-/
namespace BFS.N
open BackupFS

variable {cfg : Cfg} {S : Sim cfg} {v0 : View} {r0 : Option Node}

/-- the backup-side clauses -/
structure BInv (S : Sim cfg) (r0 : Option Node) (w : World) : Prop where
  nofault : w.faults = []
  /-- nothing is masked on the backup side (static) -/
  bvis : ∀ k, ¬ S.Hid .backup k
  broot : S.view .backup w.fs [] = r0
  bdirs : ∀ k i, PKey k → k ≠ [] → TS w k i → i.kind = .dir → (S.view .backup w.fs).isDirAt k
  bonly : ∀ k, k ≠ [] → S.view .backup w.fs k ≠ none → ∃ i, TS w k i

structure InvB (S : Sim cfg) (v0 : View) (r0 : Option Node) (w : World) : Prop where
  inv : Inv S v0 w
  b : BInv S r0 w

theorem InvB.good {w : World} (h : InvB S v0 r0 w) : S.G w.fs := h.inv.good
theorem InvB.nofault {w : World} (h : InvB S v0 r0 w) : w.faults = [] := h.b.nofault

/-- the backup-side clauses look only at the backup view, the tracked map and the fault plan -/
theorem BInv.of_eq {w w' : World} (h : BInv S r0 w) (hv : S.view .backup w'.fs = S.view .backup w.fs)
    (hi : w'.infos = w.infos) (hf : w'.faults = w.faults) : BInv S r0 w' := by
  refine ⟨hf.trans h.nofault, h.bvis, by rw [hv]; exact h.broot, ?_, ?_⟩
  · intro k i hk hne hts hkind
    rw [hv]
    exact h.bdirs k i hk hne (by unfold TS at *; rw [← hi]; exact hts) hkind
  · intro k hne hp
    rw [hv] at hp
    obtain ⟨i, hts⟩ := h.bonly k hne hp
    exact ⟨i, by unfold TS at *; rw [hi]; exact hts⟩

theorem BInv.of_same {w w' : World} (h : BInv S r0 w) (hs : SameFS w w') : BInv S r0 w' :=
  h.of_eq (by rw [hs.fs]) hs.infos hs.faults

/-- a base-side step -/
theorem BInv.of_base_chg {w w' : World} {K : Key → Prop} (h : BInv S r0 w) (hc : S.Chg .base K w w') :
    BInv S r0 w' :=
  h.of_eq hc.other hc.infos hc.faults

theorem lookup_append_some {α} {l l' : List (Path × α)} {p : Path} {y : α} (h : l.lookup p = some y) :
    (l ++ l').lookup p = some y := by
  rw [List.lookup_append, h]; rfl

theorem TS.add {w : World} {k : Key} {i : Info} {q : Path} {x : Option Info} (h : TS w k i) :
    TS (addInfo w q x) k i := by
  unfold TS addInfo at *
  exact lookup_append_some h

/-- recording an entry that does not concern the backup: "did not exist", or the root -/
theorem BInv.add_plain {w : World} {q : Path} {x : Option Info} (h : BInv S r0 w)
    (hx : ∀ j i, PKey j → j ≠ [] → q = kp j → x ≠ some i) : BInv S r0 (addInfo w q x) := by
  refine ⟨h.nofault, h.bvis, h.broot, ?_, ?_⟩
  · intro j i hj hne hts hkind
    apply h.bdirs j i hj hne _ hkind
    unfold TS addInfo at hts
    unfold TS
    simp only at hts
    rw [List.lookup_append] at hts
    cases hl : w.infos.lookup (kp j) with
    | some y => rw [hl] at hts; exact hts
    | none =>
      exfalso
      rw [hl] at hts
      by_cases hq : kp j = q
      · rw [← hq] at hts
        simp [List.lookup] at hts
        exact hx j i hj hne hq.symm hts
      · have : (kp j == q) = false := by simpa using hq
        simp [List.lookup, this] at hts
  · intro j hne hp
    obtain ⟨i, hts⟩ := h.bonly j hne hp
    exact ⟨i, hts.add⟩

/-- a backup-side step confined to the untracked key `k`, after which `k` is recorded with an info:
if the info is a directory's, the step must have left a directory -/
theorem BInv.add_some {w w' : World} {k : Key} {i : Info} (h : BInv S r0 w) (hk : PKey k) (hne : k ≠ [])
    (hun : w.infos.lookup (kp k) = none) (hc : S.Chg .backup (· = k) w w')
    (hdir : i.kind = .dir → (S.view .backup w'.fs).isDirAt k) :
    BInv S r0 (addInfo w' (kp k) (some i)) := by
  have hun' : w'.infos.lookup (kp k) = none := by rw [hc.infos]; exact hun
  have hself : TS (addInfo w' (kp k) (some i)) k i := by
    unfold TS addInfo; exact lookup_snoc_self hun'
  refine ⟨hc.faults.trans h.nofault, h.bvis, ?_, ?_, ?_⟩
  · show S.view .backup w'.fs [] = r0
    rw [hc.frame [] (fun e => hne e.symm)]; exact h.broot
  · intro j i' hj hjne hts hkind
    show (S.view .backup w'.fs).isDirAt j
    by_cases hjk : j = k
    · subst hjk
      unfold TS at hts hself
      rw [hself] at hts
      cases hts
      exact hdir hkind
    · unfold View.isDirAt
      rw [hc.frame j hjk]
      apply h.bdirs j i' hj hjne _ hkind
      unfold TS addInfo at hts
      unfold TS
      simp only at hts
      rw [lookup_snoc_ne (fun e => hjk (kp_inj hj hk e)), hc.infos] at hts
      exact hts
  · intro j hjne hp
    by_cases hjk : j = k
    · subst hjk; exact ⟨i, hself⟩
    · have hp' : S.view .backup w.fs j ≠ none := by
        rw [← hc.frame j hjk]; exact hp
      obtain ⟨i', hts⟩ := h.bonly j hjne hp'
      have : TS w' j i' := by unfold TS at *; rw [hc.infos]; exact hts
      exact ⟨i', this.add⟩

/-! ### consequences for a key about to be backed up -/

/-- an untracked key is not in the backup -/
theorem BInv.absent {w : World} {k : Key} (h : BInv S r0 w) (hne : k ≠ [])
    (hun : w.infos.lookup (kp k) = none) : S.view .backup w.fs k = none := by
  apply Classical.byContradiction
  intro hp
  obtain ⟨i, hts⟩ := h.bonly k hne hp
  unfold TS at hts
  rw [hun] at hts; cases hts

/-- the parent of an untracked live key, once tracked, is a directory in the backup -/
theorem InvB.parent_bdir {w : World} {k : Key} (h : InvB S v0 r0 w) (hk : PKey k) (hne : k ≠ [])
    (hun : w.infos.lookup (kp k) = none) (hv : S.view .base w.fs k ≠ none)
    (hpar : Tracked w k.dropLast) : (S.view .backup w.fs).isDirAt k.dropLast := by
  by_cases ha : k.dropLast = []
  · rw [ha]; exact S.root_dir h.good
  · have hpa : PKey k.dropLast := hk.dropLast
    have hv0 : v0 k ≠ none := by rw [← h.inv.frame k hk hun]; exact hv
    obtain ⟨mt, hmt⟩ := h.inv.v0_parent hv0 hne
    rcases tracked_cases w k.dropLast with hu | htn | ⟨ia, htsa⟩
    · exact absurd hu hpar
    · have := h.inv.absent _ hpa htn; rw [this] at hmt; cases hmt
    · obtain ⟨na, hna, hfora, _⟩ := h.inv.ts_node hpa htsa
      rw [hmt] at hna; cases hna
      exact h.b.bdirs _ ia hpa ha htsa hfora.1

/-! ### advancing -/

structure AdvB (S : Sim cfg) (v0 : View) (r0 : Option Node) (w w' : World) : Prop where
  adv : Adv S v0 w w'
  b : BInv S r0 w'

theorem AdvB.inv {w w' : World} (h : AdvB S v0 r0 w w') : InvB S v0 r0 w' := ⟨h.adv.inv, h.b⟩
theorem AdvB.base {w w' : World} (h : AdvB S v0 r0 w w') : S.view .base w'.fs = S.view .base w.fs := h.adv.base

theorem AdvB.refl {w : World} (h : InvB S v0 r0 w) : AdvB S v0 r0 w w := ⟨Adv.refl h.inv, h.b⟩

theorem AdvB.trans {a b c : World} (h1 : AdvB S v0 r0 a b) (h2 : AdvB S v0 r0 b c) : AdvB S v0 r0 a c :=
  ⟨h1.adv.trans h2.adv, h2.b⟩

theorem AdvB.of_same {w w' : World} (h : InvB S v0 r0 w) (hs : SameFS w w') : AdvB S v0 r0 w w' :=
  ⟨Adv.of_same h.inv hs, h.b.of_same hs⟩

theorem Tracked.monoB {w w' : World} {k : Key} (h : Tracked w k) (ha : AdvB S v0 r0 w w') : Tracked w' k :=
  h.mono ha.adv

/-- the strengthened invariant at the beginning of a transaction: nothing tracked, healthy
filesystems, an empty backup -/
theorem InvB.init {w : World} (hg : S.G w.fs) (hinfos : w.infos = []) (hnf : w.faults = [])
    (hbv : ∀ k, ¬ S.Hid .backup k)
    (hempty : ∀ k, k ≠ [] → S.view .backup w.fs k = none) :
    InvB S (S.view .base w.fs) (S.view .backup w.fs []) w := by
  refine ⟨Inv.init hg hinfos, hnf, hbv, rfl, ?_, ?_⟩
  · intro k i _ _ hts; unfold TS at hts; rw [hinfos] at hts; cases hts
  · intro k hne hp; exact absurd (hempty k hne) hp

end BFS.N
