import Lemmas.J12Name
import Lemmas.SimOS
/-!
  Lemmas/J12OS.lean — the name a `FileInfo` carries when it comes from `Lstat` through the base
  `PrefixFS` of the OS configuration `osCfg bk kk` (prefixfs_file_info.go: `newPrefixFileInfo`),
  and `filepath.Base` of an absolute cleaned path.
-/
namespace BFS
namespace J12
open PrefixFS

/-- the name reported by `PrefixFS(pre).Lstat(p)` for ANY argument `p` (when it succeeds):
the prefixed path is `q = Join(pre, Clean(p))`, the OS reports `Base(q)`, and `newPrefixFileInfo`
overrides it by "/" when `q` is the prefix itself -/
def lname (pre p : Path) : Path :=
  PrefixFS.reportedInfoName pre (join pre (clean p)) (base (join pre (clean p)))

theorem infoOf_name (nm : Path) (n : Node) : (MFS.infoOf nm n).name = nm := by
  cases n <;> rfl

theorem os_lstat_name {m : MFS} {q : Path} {i : Info} (h : m.lstat q = .ok i) : i.name = base q := by
  unfold MFS.lstat at h
  split at h
  · cases h; exact infoOf_name _ _
  · cases h
  · cases h

theorem translate_lstat_shape {pre p : Path} {c' : Call} (h : translate pre (.lstat p) = .ok c') :
    c' = .lstat (join pre (clean p)) := by
  simp only [translate, prefixPath, bind, Except.bind, pure, Except.pure] at h
  split at h
  · cases h
  · rename_i q hq
    cases h
    split at hq
    · cases hq
    · cases hq; rfl

/-- what base `Lstat` reports, for every argument and every disk -/
theorem lstatN_os (bk kk : Key) (hbk : PKey bk) :
    LstatN (osCfg bk kk) (fun p i => i.name = lname (kp bk) p) := by
  intro m p m' i h
  have hc : (osCfg bk kk).base = prefixFS (kp bk) osfs := rfl
  rw [hc, prefixFS_call, mk_kp hbk] at h
  cases htr : translate (kp bk) (.lstat p) with
  | error e =>
    rw [htr] at h
    simp only [Prod.mk.injEq] at h
    cases h.2
  | ok c' =>
    rw [htr] at h
    have hs := translate_lstat_shape htr
    subst hs
    simp only [osCall, Prod.mk.injEq] at h
    obtain ⟨_, h2⟩ := h
    cases hl : m.lstat (join (kp bk) (clean p)) with
    | error e => rw [hl] at h2; cases h2
    | ok i0 =>
      rw [hl] at h2
      simp only [Except.map, post_lstat_info, Except.ok.injEq, Ret.info.injEq] at h2
      subst h2
      show reportedInfoName (kp bk) _ i0.name = _
      rw [os_lstat_name hl]
      rfl

/-! ### `filepath.Base` of an absolute cleaned path -/

theorem base_root : base (kp []) = kp [] := by decide

theorem base_kp {K : Key} (hK : PKey K) (hne : K ≠ []) : base (kp K) = K.getLast hne := by
  have hs : stripTrailingSeps (kp K) = kp K := text_strip hK hne (Or.inl rfl)
  have ha : afterLastSep (kp K) = K.getLast hne := by
    unfold afterLastSep
    rw [uptoLastSep_kp hK hne]
    conv => lhs; arg 2; rw [kp_parent hne]
    exact List.drop_left
  unfold base
  rw [if_neg (kp_ne_nil K)]
  simp only [hs, ha]
  rw [if_neg (hK.getLast hne).1]

theorem getLast_append_right {a k : Key} (hne : k ≠ []) :
    (a ++ k).getLast (by simp [hne]) = k.getLast hne := List.getLast_append_of_ne_nil _ hne

/-- through the base PrefixFS, `Lstat` of an absolute cleaned path reports `Base` of that path —
also for the root "/" (whose info PrefixFS renames to "/") -/
theorem lname_kp {bk k : Key} (hbk : PKey bk) (hk : PKey k) :
    lname (kp bk) (kp k) = base (kp k) := by
  unfold lname
  rw [osjoin_kp hbk hk]
  by_cases hk0 : k = []
  · subst hk0
    rw [List.append_nil]
    unfold reportedInfoName
    simp only [if_true]
    rw [base_root]
    rfl
  · have hbkk : PKey (bk ++ k) := by
      intro n hn
      rcases List.mem_append.mp hn with h | h
      · exact hbk n h
      · exact hk n h
    have hne' : bk ++ k ≠ [] := by simp [hk0]
    have hfp : kp (bk ++ k) ≠ kp bk := by
      intro e
      have := kp_inj hbkk hbk e
      exact hk0 (List.append_right_eq_self.mp this)
    rw [base_kp hbkk hne', base_kp hk hk0, List.getLast_append_of_ne_nil _ hk0]
    unfold reportedInfoName
    rw [if_neg hfp]

end J12
end BFS
