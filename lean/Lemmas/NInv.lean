import Lemmas.NCopy
/-!
  Lemmas/NInv.lean (copy of Lemmas/Inv.lean over `N.Sim`) — the transaction invariant of a BackupFS over a `Sim`.

  `Inv S v0 w`: `v0` is the base view when the transaction began;
  * an untracked key still shows what it showed then (*frame*),
  * a key tracked as "did not exist" did not exist then,
  * a key tracked with a `FileInfo` held a node that info describes, and if that node was a
    regular file the backup view holds its content at the same key,
  * every ancestor of a key tracked with a `FileInfo` is tracked.
  It is preserved by every step of every mutator under every fault plan (Lemmas/Track.lean,
  Lemmas/Ops.lean) and it is what `Rollback` needs (Lemmas/Restore.lean).
-/
namespace BFS.N
open BackupFS

variable {cfg : Cfg}

/-- what makes a view a filesystem tree (link-free): the root is a directory, parents of live keys
are live directories, keys are made of real names, no symlinks, 12 mode bits, directory timestamps
erased -/
structure GoodView (Hid Par : Key → Prop) (v : View) : Prop where
  /-- nothing shows at hidden keys -/
  hid : ∀ {k}, Hid k → v k = none
  /-- the ancestors of a hidden entry are directories -/
  par : ∀ {k}, Par k → v.isDirAt k
  root : v.isDirAt []
  parent : ∀ {k}, v k ≠ none → k ≠ [] → v.isDirAt k.dropLast
  pkey : ∀ {k}, v k ≠ none → PKey k
  nolink : ∀ {k t mt}, v k ≠ some (.link t mt)
  mode : ∀ {k n}, v k = some n → n.meta.mode < 4096
  erased : ∀ {k mt}, v k = some (.dir mt) → mt.mtime = .fresh

theorem Sim.goodView (S : Sim cfg) {m : MFS} (hg : S.G m) (s : Side) :
    GoodView (S.Hid s) (S.Par s) (S.view s m) :=
  ⟨fun h => S.hid_none hg h, fun h => S.par_dir hg h, S.root_dir hg, fun h hne => S.parent_dir hg h hne, fun h => S.pkey hg h, S.no_link hg,
    fun h => S.mode_lt hg h, fun h => S.erased hg h⟩

structure Inv (S : Sim cfg) (v0 : View) (w : World) : Prop where
  good : S.G w.fs
  orig : GoodView (S.Hid .base) (S.Par .base) v0
  keys : ∀ p oi, (p, oi) ∈ w.infos → ∃ k, PKey k ∧ p = kp k
  nodup : (w.infos.map Prod.fst).Nodup
  frame : ∀ k, PKey k → w.infos.lookup (kp k) = none → S.view .base w.fs k = v0 k
  absent : ∀ k, PKey k → w.infos.lookup (kp k) = some none → v0 k = none
  saved : ∀ k i, PKey k → w.infos.lookup (kp k) = some (some i) →
    ∃ n, v0 k = some n ∧ InfoFor i n ∧
      (∀ c mt, n = .file c mt → ∃ mt', S.view .backup w.fs k = some (.file c mt'))
  anc : ∀ k i, PKey k → w.infos.lookup (kp k) = some (some i) →
    ∀ a, a <+: k → w.infos.lookup (kp a) ≠ none

variable {S : Sim cfg} {v0 : View}

/-- the bookkeeping only advances: the invariant holds again, the base view is the same, and what
was tracked stays tracked with the same entry -/
structure Adv (S : Sim cfg) (v0 : View) (w w' : World) : Prop where
  inv : Inv S v0 w'
  base : S.view .base w'.fs = S.view .base w.fs
  faults : w'.faults = w.faults
  mono : ∀ p x, w.infos.lookup p = some x → w'.infos.lookup p = some x

theorem Adv.refl {w : World} (h : Inv S v0 w) : Adv S v0 w w := ⟨h, rfl, rfl, fun _ _ h => h⟩

theorem Adv.trans {a b c : World} (h1 : Adv S v0 a b) (h2 : Adv S v0 b c) : Adv S v0 a c :=
  ⟨h2.inv, h2.base.trans h1.base, h2.faults.trans h1.faults, fun p x h => h2.mono p x (h1.mono p x h)⟩

/-- the invariant does not look at the trace or the occurrence counters -/
theorem Inv.of_same {w w' : World} (h : Inv S v0 w) (hs : SameFS w w') : Inv S v0 w' := by
  refine ⟨hs.fs ▸ h.good, h.orig, ?_, ?_, ?_, ?_, ?_, ?_⟩
  · rw [hs.infos]; exact h.keys
  · rw [hs.infos]; exact h.nodup
  · rw [hs.infos, hs.fs]; exact h.frame
  · rw [hs.infos]; exact h.absent
  · rw [hs.infos, hs.fs]; exact h.saved
  · rw [hs.infos]; exact h.anc

theorem Adv.of_same {w w' : World} (h : Inv S v0 w) (hs : SameFS w w') : Adv S v0 w w' :=
  ⟨h.of_same hs, by rw [hs.fs], hs.faults, fun p x hx => by rw [hs.infos]; exact hx⟩

/-- a backup-side step that keeps regular files elsewhere, working on an untracked key -/
theorem Inv.backup_soft {w w' : World} {d : Key} (h : Inv S v0 w) (hd : PKey d)
    (hun : w.infos.lookup (kp d) = none) (hs : S.Soft .backup d w w') : Inv S v0 w' := by
  have hb : S.view .base w'.fs = S.view .base w.fs := hs.other
  refine ⟨hs.good, h.orig, ?_, ?_, ?_, ?_, ?_, ?_⟩
  · rw [hs.infos]; exact h.keys
  · rw [hs.infos]; exact h.nodup
  · rw [hs.infos, hb]; exact h.frame
  · rw [hs.infos]; exact h.absent
  · rw [hs.infos]
    intro k i hk hl
    obtain ⟨n, hn, hfor, hcopy⟩ := h.saved k i hk hl
    refine ⟨n, hn, hfor, ?_⟩
    intro c mt hnc
    obtain ⟨mt', hv⟩ := hcopy c mt hnc
    have hkd : k ≠ d := by
      intro e; subst e; rw [hun] at hl; cases hl
    exact ⟨mt', by rw [hs.files k hkd ⟨c, mt', hv⟩]; exact hv⟩
  · rw [hs.infos]; exact h.anc

theorem Adv.backup_soft {w w' : World} {d : Key} (h : Inv S v0 w) (hd : PKey d)
    (hun : w.infos.lookup (kp d) = none) (hs : S.Soft .backup d w w') : Adv S v0 w w' :=
  ⟨h.backup_soft hd hun hs, hs.other, hs.faults, fun p x hx => by rw [hs.infos]; exact hx⟩

/-- a base-side step that changes only tracked keys -/
theorem Inv.base_chg {w w' : World} {K : Key → Prop} (h : Inv S v0 w) (hc : S.Chg .base K w w')
    (hK : ∀ j, PKey j → K j → w.infos.lookup (kp j) ≠ none) : Inv S v0 w' := by
  have hk : S.view .backup w'.fs = S.view .backup w.fs := hc.other
  refine ⟨hc.good, h.orig, ?_, ?_, ?_, ?_, ?_, ?_⟩
  · rw [hc.infos]; exact h.keys
  · rw [hc.infos]; exact h.nodup
  · rw [hc.infos]
    intro k hkk hl
    rw [hc.frame k (fun hKk => hK k hkk hKk hl)]
    exact h.frame k hkk hl
  · rw [hc.infos]; exact h.absent
  · rw [hc.infos, hk]; exact h.saved
  · rw [hc.infos]; exact h.anc

/-! ### recording an entry -/

theorem lookup_snoc_ne {α} {l : List (Path × α)} {p q : Path} {x : α} (h : p ≠ q) :
    (l ++ [(q, x)]).lookup p = l.lookup p := by
  rw [List.lookup_append]
  have : (p == q) = false := by simpa using h
  simp [List.lookup, this]

theorem lookup_snoc_self {α} {l : List (Path × α)} {q : Path} {x : α} (h : l.lookup q = none) :
    (l ++ [(q, x)]).lookup q = some x := by
  rw [List.lookup_append, h]
  simp [List.lookup]

theorem lookup_none_not_mem {α} {l : List (Path × α)} {q : Path} (h : l.lookup q = none) :
    q ∉ l.map Prod.fst := by
  induction l with
  | nil => simp
  | cons a l ih =>
    obtain ⟨p, x⟩ := a
    simp only [List.lookup] at h
    split at h
    · cases h
    · rename_i hne
      have hne' : q ≠ p := by simpa using hne
      simp only [List.map_cons, List.mem_cons, not_or]
      exact ⟨hne', ih h⟩

/-- the world after `setInfoIfNotAlreadySeen(p, x)` when `p` was not tracked -/
def addInfo (w : World) (p : Path) (x : Option Info) : World := { w with infos := w.infos ++ [(p, x)] }

theorem setInfo_untracked {w : World} {p : Path} {x : Option Info} (h : w.infos.lookup p = none) :
    setInfo p x w = (addInfo w p x, .ok ()) := by
  unfold setInfo modifyW addInfo
  simp [h]

theorem setInfo_tracked {w : World} {p : Path} {x : Option Info} (h : w.infos.lookup p ≠ none) :
    setInfo p x w = (w, .ok ()) := by
  unfold setInfo modifyW
  have : (w.infos.lookup p).isSome = true := by
    cases hl : w.infos.lookup p with
    | none => exact absurd hl h
    | some _ => rfl
  simp [this]

theorem Inv.add_common {w : World} {k : Key} {x : Option Info} (h : Inv S v0 w) (hk : PKey k)
    (hun : w.infos.lookup (kp k) = none) :
    (∀ p oi, (p, oi) ∈ (addInfo w (kp k) x).infos → ∃ k, PKey k ∧ p = kp k) ∧
    ((addInfo w (kp k) x).infos.map Prod.fst).Nodup ∧
    (∀ j, PKey j → j ≠ k → (addInfo w (kp k) x).infos.lookup (kp j) = w.infos.lookup (kp j)) ∧
    (addInfo w (kp k) x).infos.lookup (kp k) = some x := by
  refine ⟨?_, ?_, ?_, lookup_snoc_self hun⟩
  · intro p oi hm
    simp only [addInfo, List.mem_append, List.mem_singleton] at hm
    rcases hm with hm | hm
    · exact h.keys p oi hm
    · cases hm; exact ⟨k, hk, rfl⟩
  · simp only [addInfo, List.map_append, List.map_cons, List.map_nil]
    apply List.nodup_append.mpr
    refine ⟨h.nodup, by simp, ?_⟩
    intro a ha b hb
    simp only [List.mem_singleton] at hb
    subst hb
    intro e; subst e
    exact lookup_none_not_mem hun ha
  · intro j hj hjk
    exact lookup_snoc_ne (fun e => hjk (kp_inj hj hk e))

theorem Inv.add_none {w : World} {k : Key} (h : Inv S v0 w) (hk : PKey k)
    (hun : w.infos.lookup (kp k) = none) (hv : S.view .base w.fs k = none) :
    Inv S v0 (addInfo w (kp k) none) := by
  obtain ⟨hkeys, hnd, hother, hself⟩ := h.add_common (x := none) hk hun
  refine ⟨h.good, h.orig, hkeys, hnd, ?_, ?_, ?_, ?_⟩
  · intro j hj hl
    by_cases hjk : j = k
    · subst hjk; rw [hself] at hl; cases hl
    · rw [hother j hj hjk] at hl; exact h.frame j hj hl
  · intro j hj hl
    by_cases hjk : j = k
    · subst hjk; rw [← h.frame j hj hun]; exact hv
    · rw [hother j hj hjk] at hl; exact h.absent j hj hl
  · intro j i hj hl
    by_cases hjk : j = k
    · subst hjk; rw [hself] at hl; cases hl
    · rw [hother j hj hjk] at hl; exact h.saved j i hj hl
  · intro j i hj hl a ha
    by_cases hjk : j = k
    · subst hjk; rw [hself] at hl; cases hl
    · rw [hother j hj hjk] at hl
      have := h.anc j i hj hl a ha
      by_cases hak : a = k
      · subst hak; rw [hself]; simp
      · rw [hother a (hj.of_prefix ha) hak]; exact this

theorem Inv.add_some {w : World} {k : Key} {i : Info} {n : Node} (h : Inv S v0 w) (hk : PKey k)
    (hun : w.infos.lookup (kp k) = none) (hv : S.view .base w.fs k = some n) (hfor : InfoFor i n)
    (hcopy : ∀ c mt, n = .file c mt → ∃ mt', S.view .backup w.fs k = some (.file c mt'))
    (hanc : ∀ a, a <+: k → a ≠ k → w.infos.lookup (kp a) ≠ none) :
    Inv S v0 (addInfo w (kp k) (some i)) := by
  obtain ⟨hkeys, hnd, hother, hself⟩ := h.add_common (x := some i) hk hun
  refine ⟨h.good, h.orig, hkeys, hnd, ?_, ?_, ?_, ?_⟩
  · intro j hj hl
    by_cases hjk : j = k
    · subst hjk; rw [hself] at hl; cases hl
    · rw [hother j hj hjk] at hl; exact h.frame j hj hl
  · intro j hj hl
    by_cases hjk : j = k
    · subst hjk; rw [hself] at hl; cases hl
    · rw [hother j hj hjk] at hl; exact h.absent j hj hl
  · intro j i' hj hl
    by_cases hjk : j = k
    · subst hjk
      rw [hself] at hl
      cases hl
      exact ⟨n, by rw [← h.frame j hj hun]; exact hv, hfor, hcopy⟩
    · rw [hother j hj hjk] at hl; exact h.saved j i' hj hl
  · intro j i' hj hl a ha
    by_cases hak : a = k
    · subst hak; rw [hself]; simp
    · rw [hother a (hj.of_prefix ha) hak]
      by_cases hjk : j = k
      · subst hjk; exact hanc a ha hak
      · rw [hother j hj hjk] at hl; exact h.anc j i' hj hl a ha

theorem Adv.add {w : World} {k : Key} {x : Option Info} (hk : PKey k)
    (hun : w.infos.lookup (kp k) = none) (hinv : Inv S v0 (addInfo w (kp k) x)) :
    Adv S v0 w (addInfo w (kp k) x) := by
  refine ⟨hinv, rfl, rfl, ?_⟩
  intro p y hp
  by_cases hpk : p = kp k
  · subst hpk; rw [hun] at hp; cases hp
  · show (w.infos ++ [(kp k, x)]).lookup p = some y
    rw [lookup_snoc_ne hpk]; exact hp

end BFS.N
