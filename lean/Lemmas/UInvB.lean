import Lemmas.LOps
import Lemmas.Restore
/-!
  Lemmas/UInvB.lean — the backup-side clauses of `Lemmas/InvB.lean` (C07) for the symlink development
  (`L.LSim`): on healthy filesystems (empty fault plan)
  * every non-root key tracked with a directory's info is a directory in the backup view,
  * every non-root key the backup view holds is tracked with an info,
  * the backup root's node is what it was.
  `L.Inv` is preserved under every fault plan; these clauses need success reasoning (`Lemmas/UPrepB.lean`).
-/
namespace BFS
namespace U
open BackupFS

variable {cfg : Cfg} {S : L.LSim cfg} {v0 : View} {r0 : Option Node}

/-- the backup-side clauses -/
structure BInvL (S : L.LSim cfg) (r0 : Option Node) (w : World) : Prop where
  nofault : w.faults = []
  broot : S.view .backup w.fs [] = r0
  bdirs : ∀ k i, PKey k → k ≠ [] → TS w k i → i.kind = .dir → (S.view .backup w.fs).isDirAt k
  bonly : ∀ k, k ≠ [] → S.view .backup w.fs k ≠ none → ∃ i, TS w k i

/-- the backup-side clauses look only at the backup view, the tracked map and the fault plan -/
theorem BInvL.of_eq {w w' : World} (h : BInvL S r0 w) (hv : S.view .backup w'.fs = S.view .backup w.fs)
    (hi : w'.infos = w.infos) (hf : w'.faults = w.faults) : BInvL S r0 w' := by
  refine ⟨hf.trans h.nofault, by rw [hv]; exact h.broot, ?_, ?_⟩
  · intro k i hk hne hts hkind
    rw [hv]
    exact h.bdirs k i hk hne (by unfold TS at *; rw [← hi]; exact hts) hkind
  · intro k hne hp
    rw [hv] at hp
    obtain ⟨i, hts⟩ := h.bonly k hne hp
    exact ⟨i, by unfold TS at *; rw [hi]; exact hts⟩

theorem BInvL.of_same {w w' : World} (h : BInvL S r0 w) (hs : SameFS w w') : BInvL S r0 w' :=
  h.of_eq (by rw [hs.fs]) hs.infos hs.faults

/-- a base-side step -/
theorem BInvL.of_base_chg {w w' : World} {K : Key → Prop} (h : BInvL S r0 w) (hc : S.ChgL .base K w w') :
    BInvL S r0 w' :=
  h.of_eq hc.other hc.infos hc.faults

theorem TS_add {w : World} {k : Key} {i : Info} {q : Path} {x : Option Info} (h : TS w k i) :
    TS (addInfo w q x) k i := by
  unfold TS addInfo at *
  show (w.infos ++ [(q, x)]).lookup (kp k) = some (some i)
  rw [List.lookup_append, h]; rfl

/-- recording an entry that does not concern the backup: "did not exist", or the root -/
theorem BInvL.add_plain {w : World} {q : Path} {x : Option Info} (h : BInvL S r0 w)
    (hx : ∀ j i, PKey j → j ≠ [] → q = kp j → x ≠ some i) : BInvL S r0 (addInfo w q x) := by
  refine ⟨h.nofault, h.broot, ?_, ?_⟩
  · intro j i hj hne hts hkind
    apply h.bdirs j i hj hne _ hkind
    unfold TS addInfo at hts
    unfold TS
    simp only at hts
    rw [List.lookup_append] at hts
    cases hl : w.infos.lookup (kp j) with
    | some y => rw [hl] at hts; exact hts
    | none =>
      exfalso
      rw [hl] at hts
      by_cases hq : kp j = q
      · rw [← hq] at hts
        simp [List.lookup] at hts
        exact hx j i hj hne hq.symm hts
      · have : (kp j == q) = false := by simpa using hq
        simp [List.lookup, this] at hts
  · intro j hne hp
    obtain ⟨i, hts⟩ := h.bonly j hne hp
    exact ⟨i, TS_add hts⟩

/-- a backup-side step confined to the untracked key `k`, after which `k` is recorded with an info:
if the info is a directory's, the step must have left a directory -/
theorem BInvL.add_some {w w' : World} {k : Key} {i : Info} (h : BInvL S r0 w) (hk : PKey k) (hne : k ≠ [])
    (hun : w.infos.lookup (kp k) = none) (hc : S.ChgL .backup (· = k) w w')
    (hdir : i.kind = .dir → (S.view .backup w'.fs).isDirAt k) :
    BInvL S r0 (addInfo w' (kp k) (some i)) := by
  have hun' : w'.infos.lookup (kp k) = none := by rw [hc.infos]; exact hun
  have hself : TS (addInfo w' (kp k) (some i)) k i := by
    unfold TS addInfo; exact lookup_snoc_self hun'
  refine ⟨hc.faults.trans h.nofault, ?_, ?_, ?_⟩
  · show S.view .backup w'.fs [] = r0
    rw [hc.frame [] (fun e => hne e.symm)]; exact h.broot
  · intro j i' hj hjne hts hkind
    show (S.view .backup w'.fs).isDirAt j
    by_cases hjk : j = k
    · subst hjk
      unfold TS at hts hself
      rw [hself] at hts
      cases hts
      exact hdir hkind
    · unfold View.isDirAt
      rw [hc.frame j hjk]
      apply h.bdirs j i' hj hjne _ hkind
      unfold TS addInfo at hts
      unfold TS
      simp only at hts
      rw [lookup_snoc_ne (fun e => hjk (kp_inj hj hk e)), hc.infos] at hts
      exact hts
  · intro j hjne hp
    by_cases hjk : j = k
    · subst hjk; exact ⟨i, hself⟩
    · have hp' : S.view .backup w.fs j ≠ none := by
        rw [← hc.frame j hjk]; exact hp
      obtain ⟨i', hts⟩ := h.bonly j hjne hp'
      have : TS w' j i' := by unfold TS at *; rw [hc.infos]; exact hts
      exact ⟨i', TS_add this⟩

/-- an untracked key is not in the backup -/
theorem BInvL.absent {w : World} {k : Key} (h : BInvL S r0 w) (hne : k ≠ [])
    (hun : w.infos.lookup (kp k) = none) : S.view .backup w.fs k = none := by
  apply Classical.byContradiction
  intro hp
  obtain ⟨i, hts⟩ := h.bonly k hne hp
  unfold TS at hts
  rw [hun] at hts; cases hts

/-- the parent of an untracked live key, once tracked, is a directory in the backup -/
theorem parent_bdirL {w : World} {k : Key} (hinv : L.Inv S v0 w) (hb : BInvL S r0 w) (hk : PKey k) (hne : k ≠ [])
    (hun : w.infos.lookup (kp k) = none) (hv : S.view .base w.fs k ≠ none)
    (hpar : Tracked w k.dropLast) : (S.view .backup w.fs).isDirAt k.dropLast := by
  by_cases ha : k.dropLast = []
  · rw [ha]; exact S.root_dir hinv.good
  · have hpa : PKey k.dropLast := hk.dropLast
    have hv0 : v0 k ≠ none := by rw [← hinv.frame k hk hun]; exact hv
    obtain ⟨mt, hmt⟩ := hinv.orig.ancestors hv0 (List.dropLast_prefix k) (by
      intro e
      have := congrArg List.length e
      rw [List.length_dropLast] at this
      have := List.length_pos_iff.mpr hne
      omega)
    cases hl : w.infos.lookup (kp k.dropLast) with
    | none => exact absurd hl hpar
    | some x =>
      cases x with
      | none =>
        have := hinv.absent _ hpa hl
        rw [this] at hmt; cases hmt
      | some ia =>
        obtain ⟨na, hna, hfora, _⟩ := hinv.saved _ ia hpa hl
        rw [hmt] at hna
        cases hna
        exact hb.bdirs _ ia hpa ha hl hfora.1

/-- the invariant with the backup-side clauses, advancing -/
structure AdvBL (S : L.LSim cfg) (v0 : View) (r0 : Option Node) (w w' : World) : Prop where
  adv : L.Adv S v0 w w'
  b : BInvL S r0 w'

theorem AdvBL.refl {w : World} (h : L.Inv S v0 w) (hb : BInvL S r0 w) : AdvBL S v0 r0 w w := ⟨L.Adv.refl h, hb⟩

theorem AdvBL.trans {a b c : World} (h1 : AdvBL S v0 r0 a b) (h2 : AdvBL S v0 r0 b c) : AdvBL S v0 r0 a c :=
  ⟨h1.adv.trans h2.adv, h2.b⟩

theorem AdvBL.of_same {w w' : World} (h : L.Inv S v0 w) (hb : BInvL S r0 w) (hs : SameFS w w') :
    AdvBL S v0 r0 w w' :=
  ⟨L.Adv.of_same h hs, hb.of_same hs⟩

/-- the clauses at the beginning of a transaction: nothing tracked, healthy filesystems, an empty backup -/
theorem BInvL.init {w : World} (hinfos : w.infos = []) (hnf : w.faults = [])
    (hempty : ∀ k, k ≠ [] → S.view .backup w.fs k = none) : BInvL S (S.view .backup w.fs []) w := by
  refine ⟨hnf, rfl, ?_, ?_⟩
  · intro k i _ _ hts; unfold TS at hts; rw [hinfos] at hts; cases hts
  · intro k hne hp; exact absurd (hempty k hne) hp

end U
end BFS
