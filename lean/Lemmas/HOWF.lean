import Lemmas.HOCall
/-!
  Lemmas/HOWF.lean — every call through `PrefixFS(kp bk)` other than `Symlink` and `RemoveAll` keeps the
  disk well-formed and free of symlinks at/below `bk` (`WFB bk`): `OpenFile`/`Create`, the metadata
  calls and `Rename` (for `Mkdir`, `MkdirAll`, `Remove` see `Lemmas/DWF.lean`, `Lemmas/DMkAll.lean`).
-/
namespace BFS
namespace HO
open MFS D PX

section
variable {pk : Key}

theorem openFile_mode_lt (perm um : Nat) : (perm &&& 0o7777) &&& (0o7777 ^^^ um) < 4096 :=
  Nat.lt_of_le_of_lt (Nat.le_trans Nat.and_le_left Nat.and_le_right) (by decide)

theorem openFile_wf {m : MFS} (hg : WFB pk m) {K : Key} {t : Path} (hK : PKey K) (flag perm : Nat)
    (hN : NameiCase m K (namei m t (!(hasFlag flag O_CREATE && hasFlag flag O_EXCL)))) :
    WFB pk (m.openFile t flag perm).1 := by
  unfold MFS.openFile
  simp only
  rcases hN with ⟨n, hn, hnl, hr⟩ | ⟨hne, mt, hn, hp, hr⟩ | ⟨e, _, _, _, hr, _⟩
  · rw [hr]
    simp only
    split
    · exact hg
    · cases n with
      | dir mt => simp only; split <;> exact hg
      | link tg mt => exact hg
      | file c mt =>
        simp only
        split
        · exact hg.set_repl hn rfl rfl (hg.mode K (.file c mt) hn)
        · exact hg
  · rw [hr]
    simp only
    split
    · exact hg
    · have hc := hK.getLast hne
      have hnone : m.get (K.dropLast ++ [K.getLast hne]) = none := by
        rw [dropLast_append_getLast' hne]; exact hn
      exact (hg.set_new hp hc hnone rfl (openFile_mode_lt _ _)).touch _
  · rw [hr]; exact hg

theorem metaOp_wf {m : MFS} (hg : WFB pk m) {K : Key} {t : Path} {follow : Bool} (f : Node → Node)
    (hf : ∀ n, (f n).isDir = n.isDir ∧ (f n).isLink = n.isLink ∧ (n.meta.mode < 4096 → (f n).meta.mode < 4096))
    (hN : NameiCase m K (namei m t follow)) : WFB pk (metaOp m t follow f).1 := by
  unfold metaOp
  rcases hN with ⟨n, hn, hnl, hr⟩ | ⟨hne, mt, hn, hp, hr⟩ | ⟨e, _, _, _, hr, _⟩
  · rw [hr]
    exact hg.set_repl hn (hf n).1 (hf n).2.1 ((hf n).2.2 (hg.mode K n hn))
  · rw [hr]; exact hg
  · rw [hr]; exact hg

theorem setMeta_isDir (n : Node) (mt : Meta) : (n.setMeta mt).isDir = n.isDir := by cases n <;> rfl
theorem setMeta_isLink (n : Node) (mt : Meta) : (n.setMeta mt).isLink = n.isLink := by cases n <;> rfl
theorem setMeta_meta (n : Node) (mt : Meta) : (n.setMeta mt).meta = mt := by cases n <;> rfl

theorem chownMode_lt (n : Node) (h : n.meta.mode < 4096) : chownMode n < 4096 := by
  unfold chownMode
  simp only
  split
  · exact h
  · split
    · exact Nat.lt_of_le_of_lt (Nat.le_trans Nat.and_le_left Nat.and_le_left) h
    · exact Nat.lt_of_le_of_lt Nat.and_le_left h

/-! ### `Rename` -/

theorem moveSubtree_wf {m : MFS} (hg : WFB pk m) {Ko Kn : Key}
    (hKn : PKey Kn) (hnne : Kn ≠ []) (hone : Ko ≠ []) (hpar : ∃ mt, m.get Kn.dropLast = some (.dir mt))
    (h1 : ¬ Ko <+: Kn) (hsrc : pk <+: Ko) : WFB pk (m.moveSubtree Ko Kn) := by
  have hdir : ∀ p, ¬ Kn <+: p → ¬ Ko <+: p → (∃ mt, m.get p = some (.dir mt)) →
      ∃ mt, (m.moveSubtree Ko Kn).get p = some (.dir mt) := by
    intro p hp1 hp2 ⟨mt', hp⟩
    exact ⟨mt', by rw [moveSubtree_get_other m hp1 hp2]; exact hp⟩
  have hnil : ∀ K : Key, K ≠ [] → ¬ K <+: [] := by
    intro K hK e
    exact hK (List.prefix_nil.mp e)
  refine ⟨hdir _ (hnil _ hnne) (hnil _ hone) hg.root, ?_, ?_, ?_, ?_, ?_⟩
  · intro k n h
    rcases moveSubtree_get_some h with ⟨x, rfl, h'⟩ | ⟨_, _, h'⟩
    · exact hKn.append (hg.pkey _ n h').right
    · exact hg.pkey k n h'
  · intro k n h
    show k ∈ m.dom ++ _
    rcases moveSubtree_get_some h with ⟨x, rfl, h'⟩ | ⟨_, _, h'⟩
    · apply List.mem_append_right
      apply List.mem_map.mpr
      refine ⟨Ko ++ x, ?_, by rw [List.drop_left]⟩
      apply List.mem_filter.mpr
      exact ⟨hg.dom _ n h', List.isPrefixOf_iff_prefix.mpr (List.prefix_append _ _)⟩
    · exact List.mem_append_left _ (hg.dom k n h')
  · intro k n h
    rcases moveSubtree_get_some h with ⟨x, rfl, h'⟩ | ⟨_, _, h'⟩
    · exact hg.mode _ n h'
    · exact hg.mode k n h'
  · intro k n h hkne
    rcases moveSubtree_get_some h with ⟨x, rfl, h'⟩ | ⟨hk1', hk2', h'⟩
    · by_cases hx : x = []
      · subst hx
        rw [List.append_nil]
        apply hdir _ ?_ ?_ hpar
        · intro e
          have h3 := e.length_le
          have h4 : Kn.dropLast.length = Kn.length - 1 := List.length_dropLast
          have h5 : 0 < Kn.length := List.length_pos_iff.mpr hnne
          omega
        · intro e
          exact h1 (List.IsPrefix.trans e (dropLast_prefix Kn))
      · rw [append_dropLast hx, moveSubtree_get_under]
        have := hg.parent _ n h' (by simp [hx])
        rw [append_dropLast hx] at this
        exact this
    · apply hdir _ ?_ ?_ (hg.parent k n h' hkne)
      · intro e; exact hk1' (List.IsPrefix.trans e (dropLast_prefix k))
      · intro e; exact hk2' (List.IsPrefix.trans e (dropLast_prefix k))
  · intro k t mt' hpre h
    rcases moveSubtree_get_some h with ⟨x, rfl, h'⟩ | ⟨_, _, h'⟩
    · exact hg.nolink (Ko ++ x) t mt' (Or.inl (hsrc.trans (List.prefix_append _ _))) h'
    · exact hg.nolink k t mt' hpre h'

theorem rename_wf {m : MFS} (hg : WFB pk m) {Ko Kn : Key} {to tn : Path} (hKn : PKey Kn) (hsrc : pk <+: Ko)
    (ho : NC m Ko (namei m to false)) (hn : NC m Kn (namei m tn false)) :
    WFB pk (m.rename to tn).1 := by
  have mv : Ko ≠ [] → Kn ≠ [] → ¬ Ko <+: Kn → (∃ mt, m.get Kn.dropLast = some (.dir mt)) →
      WFB pk (((m.moveSubtree Ko Kn).touchDir (parentKey Ko)).touchDir (parentKey Kn)) :=
    fun a b c d => ((moveSubtree_wf hg hKn b a d c hsrc).touch _).touch _
  unfold MFS.rename
  simp only
  rcases hn with ⟨nn, hnn, hrn⟩ | ⟨hnne, mtn, hnn, hpn, hrn⟩ | ⟨en, hrn⟩
  · rcases ho with ⟨no, hno, hro⟩ | ⟨hone, mto, hno, hpo, hro⟩ | ⟨eo, hro⟩
    · rw [hrn, hro]
      cases nn with
      | dir mt =>
        simp only
        by_cases hc : Ko = Kn ∧ to ≠ tn
        · simp only [hc, and_self, if_true, ne_eq, not_false_eq_true]
          exact hg
        · simp only [hc, if_false]
          exact hg
      | file c mt =>
        simp only
        split
        · exact hg
        split
        · exact hg
        split
        · exact hg
        split
        · exact hg
        · rename_i a b c d
          have hko : Ko ≠ [] := by
            intro e; apply b; rw [e]; exact List.isPrefixOf_iff_prefix.mpr List.nil_prefix
          have hkn : Kn ≠ [] := by
            intro e; apply c; rw [e]; exact List.isPrefixOf_iff_prefix.mpr List.nil_prefix
          simp only [Node.isDir, Bool.false_eq_true, if_false]
          exact mv hko hkn (fun e => b (List.isPrefixOf_iff_prefix.mpr e)) (hg.parent Kn _ hnn hkn)
      | link tg mt =>
        simp only
        split
        · exact hg
        split
        · exact hg
        split
        · exact hg
        split
        · exact hg
        · rename_i a b c d
          have hko : Ko ≠ [] := by
            intro e; apply b; rw [e]; exact List.isPrefixOf_iff_prefix.mpr List.nil_prefix
          have hkn : Kn ≠ [] := by
            intro e; apply c; rw [e]; exact List.isPrefixOf_iff_prefix.mpr List.nil_prefix
          simp only [Node.isDir, Bool.false_eq_true, if_false]
          exact mv hko hkn (fun e => b (List.isPrefixOf_iff_prefix.mpr e)) (hg.parent Kn _ hnn hkn)
    · rw [hrn, hro]
      cases nn <;> exact hg
    · rw [hrn, hro]
      cases nn <;> exact hg
  · rcases ho with ⟨no, hno, hro⟩ | ⟨hone, mto, hno, hpo, hro⟩ | ⟨eo, hro⟩
    · rw [hrn, hro]
      simp only [dropLast_append_getLast' hnne]
      split
      · exact hg
      · rename_i b
        have hko : Ko ≠ [] := by
          intro e; apply b; rw [e]; exact List.isPrefixOf_iff_prefix.mpr List.nil_prefix
        exact mv hko hnne (fun e => b (List.isPrefixOf_iff_prefix.mpr e)) ⟨mtn, hpn⟩
    · rw [hrn, hro]; exact hg
    · rw [hrn, hro]; exact hg
  · rw [hrn]
    rcases ho with ⟨no, hno, hro⟩ | ⟨hone, mto, hno, hpo, hro⟩ | ⟨eo, hro⟩ <;> (rw [hro]; exact hg)

/-! ### every call but `Symlink` and `RemoveAll` -/

theorem osCall_wf {m : MFS} (hg : WFB pk m) (hpk : PKey pk) {c c' : Call} (hk : KeyCall pk c c')
    (hns : ∀ o n, c ≠ .symlink o n) (hnra : ∀ n, c ≠ .removeAll n) : WFB pk (osCall m c').1 := by
  have R : ∀ {x : Key}, PKey x → ∀ f, NameiCase m (pk ++ x) (namei m (kp (pk ++ x)) f) :=
    fun hx f => hg.resolve_key hpk hx (TextOf.kp _) f
  have hset : ∀ (n : Node) (mt : Meta), (n.setMeta mt).isDir = n.isDir ∧ (n.setMeta mt).isLink = n.isLink :=
    fun n mt => ⟨setMeta_isDir n mt, setMeta_isLink n mt⟩
  have hch : ∀ u g (n : Node), (chownF u g n).isDir = n.isDir ∧ (chownF u g n).isLink = n.isLink ∧
      (n.meta.mode < 4096 → (chownF u g n).meta.mode < 4096) := by
    intro u g n
    unfold chownF
    refine ⟨setMeta_isDir _ _, setMeta_isLink _ _, ?_⟩
    intro h
    rw [setMeta_meta]
    simp only
    split
    · exact h
    · exact chownMode_lt n h
  cases hk with
  | create n x hx _ => exact openFile_wf hg (hpk.append hx) _ _ (R hx _)
  | mkdir n p x hx _ => exact hg.mkdir_wf (hpk.append hx) p (R hx _)
  | mkdirAll n p x hx _ =>
    exact (mkdirAll_frame p _ (pk ++ x) _ m _ _ hg (hpk.append hx) (Or.inl (List.prefix_append _ _))
      (TextOf.kp _) rfl).1
  | open_ n x hx _ => exact openFile_wf hg (hpk.append hx) _ _ (R hx _)
  | openFile n f p x hx _ => exact openFile_wf hg (hpk.append hx) _ _ (R hx _)
  | remove n x hx _ => exact hg.remove_wf (R hx _)
  | removeAll n x hx _ => exact absurd rfl (hnra n)
  | rename o n x y hx hy _ _ =>
    exact rename_wf hg (hpk.append hy) (List.prefix_append _ _) (NC.of_case (R hx false)) (NC.of_case (R hy false))
  | stat n x hx _ => exact hg
  | chmod n md x hx _ =>
    show WFB pk (m.chmod _ md).1
    rw [mfs_chmod_eq]
    refine metaOp_wf hg _ ?_ (R hx true)
    intro n
    refine ⟨setMeta_isDir _ _, setMeta_isLink _ _, fun _ => ?_⟩
    rw [setMeta_meta]
    exact Nat.lt_of_le_of_lt Nat.and_le_right (by decide)
  | chown n u g x hx _ =>
    show WFB pk (m.chown _ u g).1
    rw [mfs_chown_eq]
    exact metaOp_wf hg _ (hch u g) (R hx true)
  | chtimes n a t x hx _ =>
    show WFB pk (m.chtimes _ t).1
    rw [mfs_chtimes_eq]
    refine metaOp_wf hg _ ?_ (R hx true)
    intro n
    refine ⟨setMeta_isDir _ _, setMeta_isLink _ _, fun h => ?_⟩
    rw [setMeta_meta]
    exact h
  | lstat n x hx _ => exact hg
  | symlink o n o' x hx _ => exact absurd rfl (hns o n)
  | readlink n x hx _ => exact hg
  | lchown n u g x hx _ =>
    show WFB pk (m.lchown _ u g).1
    rw [mfs_lchown_eq]
    exact metaOp_wf hg _ (hch u g) (R hx false)

/-- through `PrefixFS(kp pk)` -/
theorem prefix_call_wf {m : MFS} (hg : WFB pk m) (hpk : PKey pk) (c : Call)
    (hns : ∀ o n, c ≠ .symlink o n) (hnra : ∀ n, c ≠ .removeAll n) :
    WFB pk ((prefixFS (kp pk) osfs).call m c).1 := by
  rcases prefix_call_cases hpk m c with ⟨e, _, hc⟩ | ⟨c2, hk, _, hc⟩
  · rw [hc]; exact hg
  · rw [hc]; exact osCall_wf hg hpk hk hns hnra

end
end HO
end BFS
