import Lemmas.LForceHist
import Lemmas.GTx
/-!
  Lemmas/LForceG.lean — ForceBackup with names THROUGH FLAT LINKS.

  `ForceBackup(name)` resolves `name` with `realPath` like the mutators.  With the resolution step
  abstracted (`G.ResTo cfg w name r`: "`realPath name` changes nothing and returns `kp r`"),
  everything after it (`tryRemoveBackup (kp r)`, `tryBackup (kp r)`) is that of
  Lemmas/LForceWalk.lean: `sat_forceBackup_fullG`.  On the OS model, on a `Flat` disk, the resolved
  key is `G.rk bk w k` and none of its proper ancestors is a symlink (`G.resolved`), so the hypothesis
  `NoLinkAnc` of the symlink-leaves theorem disappears: the side conditions are stated about the
  RESOLVED key.  Histories are `G.CoveredHist` (names through flat links).
-/
namespace BFS
namespace L
namespace G
open BackupFS F16

section generic
variable {cfg : Cfg} {S : LSim cfg} {v0 : View}

/-- `sat_forceBackup_full` with the resolution step abstracted -/
theorem sat_forceBackup_fullG {name : Path} {k : Key} {w : World} (hinv : Inv S v0 w) (hk : PKey k)
    (hres : ResTo cfg w name k)
    (horig : ¬ v0.isDirAt k) (hnow : ¬ (S.view .base w.fs).isDirAt k) (hpar : v0.parentDir k)
    (hacc : NoLinkAnc (S.view .base w.fs) k)
    (hlok : ∀ t mt, S.view .base w.fs k = some (.link t mt) → S.LinkOK .base k t) :
    Sat (forceBackup cfg name) w (fun w' r =>
      (Inv S v0 w' ∨ Inv S (rebase v0 k (S.view .base w.fs k)) w') ∧ w'.faults = w.faults ∧
      S.view .base w'.fs = S.view .base w.fs ∧
      (r = .ok () → Inv S (rebase v0 k (S.view .base w.fs k)) w' ∧ ∀ b, b <+: k → Tracked w' b)) := by
  unfold forceBackup
  apply Sat.bind
  apply (hres w rfl rfl).mono
  intro w1 r ⟨hs, hres⟩
  have hinv1 := hinv.of_same hs
  cases r with
  | error e => exact ⟨Or.inl hinv1, hs.faults, (by rw [hs.fs]), (by intro h; cases h)⟩
  | ok p =>
    simp only
    have hp := hres p rfl
    subst hp
    apply Sat.bind
    apply (sat_tryRemoveBackup_full (cfg := cfg) hinv1 hk horig (by rw [hs.fs]; exact hnow) hpar).mono
    intro w2 r2 ⟨hf2, hb2, hok2, herr2⟩
    rw [hs.fs] at hb2 hok2 herr2
    cases r2 with
    | error e => exact ⟨herr2 e rfl, hf2.trans hs.faults, hb2, (by intro h; cases h)⟩
    | ok u =>
      simp only
      have hinv2 := hok2 rfl
      apply (L.sat_tryBackup hinv2 hk (by rw [hb2]; exact hacc) (by rw [hb2]; exact hlok)).mono
      intro w3 r3 ⟨hadv, _, htr⟩
      exact ⟨Or.inr hadv.inv, hadv.faults.trans (hf2.trans hs.faults), hadv.base.trans hb2,
        fun h => ⟨hadv.inv, htr h⟩⟩

end generic

section os
variable {bk kk : Key} {hbk : PKey bk} {hkk : PKey kk} {hne1 : bk ≠ []} {hne2 : kk ≠ []}
  {hd1 : ¬ bk <+: kk} {hd2 : ¬ kk <+: bk} {v0 : View}

local notation "SL" => osSimL bk kk hbk hkk hne1 hne2 hd1 hd2

/-- ForceBackup of a name through flat links, on the OS model: the key worked on is `rk bk w k` -/
theorem sat_forceBackup_flat {name : Path} {k : Key} {w : World} (hinv : Inv SL v0 w) (hflat : Flat bk w.fs)
    (hk : PKey k) (hname : clean name = kp k)
    (horig : ¬ v0.isDirAt (rk bk w k)) (hnow : ¬ (osViewL bk kk .base w.fs).isDirAt (rk bk w k))
    (hpar : v0.parentDir (rk bk w k)) (hlok : LinkOKAt SL w (rk bk w k)) :
    Sat (forceBackup (osCfg bk kk) name) w (fun w' r =>
      (Inv SL v0 w' ∨ Inv SL (rebase v0 (rk bk w k) (osViewL bk kk .base w.fs (rk bk w k))) w') ∧
      w'.faults = w.faults ∧ osViewL bk kk .base w'.fs = osViewL bk kk .base w.fs ∧
      (r = .ok () → Inv SL (rebase v0 (rk bk w k) (osViewL bk kk .base w.fs (rk bk w k))) w')) := by
  obtain ⟨hr, hres, hacc⟩ := resolved hinv hflat hk hname
  apply (sat_forceBackup_fullG hinv hr hres horig hnow hpar hacc hlok).mono
  intro w' r ⟨h1, h2, h3, h4⟩
  exact ⟨h1, h2, h3, fun h => (h4 h).1⟩

/-- C17 through flat links, generic form: covered history (names through flat links), a successful
ForceBackup of a name that `realPath` resolves to `r = rk bk · k`, covered history, Rollback -/
theorem force_in_history_rollback_flat {w : World} (hg : OSGoodL bk kk w.fs) (hinfos : w.infos = [])
    (hnf : w.faults = []) (hbl : BackupLinksOK SL w.fs)
    (ops₁ ops₂ : List Op) {name : Path} {k : Key} (hk : PKey k) (hname : clean name = kp k)
    (hcov1 : CoveredHist (osCfg bk kk) bk SL w ops₁)
    (hflat : Flat bk (runOps (osCfg bk kk) w ops₁).fs)
    (horig : ¬ (osViewL bk kk .base w.fs).isDirAt (rk bk (runOps (osCfg bk kk) w ops₁) k))
    (hnow : ¬ (osViewL bk kk .base (runOps (osCfg bk kk) w ops₁).fs).isDirAt (rk bk (runOps (osCfg bk kk) w ops₁) k))
    (hpar : (osViewL bk kk .base w.fs).parentDir (rk bk (runOps (osCfg bk kk) w ops₁) k))
    (hlok : LinkOKAt SL (runOps (osCfg bk kk) w ops₁) (rk bk (runOps (osCfg bk kk) w ops₁) k))
    (hok : (Op.exec (osCfg bk kk) (.force name) (runOps (osCfg bk kk) w ops₁)).2 = .ok .unit)
    (hcov2 : CoveredHist (osCfg bk kk) bk SL (Op.step (osCfg bk kk) (runOps (osCfg bk kk) w ops₁) (.force name)) ops₂) :
    BackupLinksOK SL (runTx (osCfg bk kk) w (ops₁ ++ .force name :: ops₂)).fs ∧
    ∀ j, j ≠ [] → osViewL bk kk .base (runTx (osCfg bk kk) w (ops₁ ++ .force name :: ops₂)).fs j =
      if j = rk bk (runOps (osCfg bk kk) w ops₁) k
      then osViewL bk kk .base (runOps (osCfg bk kk) w ops₁).fs (rk bk (runOps (osCfg bk kk) w ops₁) k)
      else osViewL bk kk .base w.fs j := by
  obtain ⟨hstep, hiff⟩ := force_step (osCfg bk kk) name (runOps (osCfg bk kk) w ops₁)
  have hrun : runTx (osCfg bk kk) w (ops₁ ++ .force name :: ops₂) =
      runTx (osCfg bk kk) (forceBackup (osCfg bk kk) name (runOps (osCfg bk kk) w ops₁)).1 ops₂ := by
    unfold runTx
    rw [runOps_append, ← hstep]
    rfl
  rw [hrun]
  rw [hstep] at hcov2
  have h1 := history_keeps (hbk := hbk) (hkk := hkk) (hne1 := hne1) (hne2 := hne2) (hd1 := hd1) (hd2 := hd2)
    ops₁ w (Inv.init hg hinfos hbl) hcov1
  obtain ⟨_, hfl, _, hres⟩ := (sat_forceBackup_flat (name := name) h1.inv hflat hk hname horig hnow hpar hlok).elim
  have hinv2 := hres (hiff.mp hok)
  have h2 := history_keeps (hbk := hbk) (hkk := hkk) (hne1 := hne1) (hne2 := hne2) (hd1 := hd1) (hd2 := hd2)
    ops₂ _ hinv2 hcov2
  have hr := (sat_rollback (cfg := osCfg bk kk) h2.inv (h2.faults.trans (hfl.trans (h1.faults.trans hnf)))).elim
  exact ⟨backupLinksOK_after h2.inv hr.1 hr.2.2.1 hr.2.2.2, fun j hj => hr.2.2.1 j hj⟩

/-- … and under any fault plan (the ForceBackup itself may fail half-way) -/
theorem force_then_rollback_after_faults_flat {w : World} (hg : OSGoodL bk kk w.fs) (hinfos : w.infos = [])
    (hbl : BackupLinksOK SL w.fs)
    (ops₁ ops₂ : List Op) {name : Path} {k : Key} (hk : PKey k) (hname : clean name = kp k)
    (hcov1 : CoveredHist (osCfg bk kk) bk SL w ops₁)
    (hflat : Flat bk (runOps (osCfg bk kk) w ops₁).fs)
    (horig : ¬ (osViewL bk kk .base w.fs).isDirAt (rk bk (runOps (osCfg bk kk) w ops₁) k))
    (hnow : ¬ (osViewL bk kk .base (runOps (osCfg bk kk) w ops₁).fs).isDirAt (rk bk (runOps (osCfg bk kk) w ops₁) k))
    (hpar : (osViewL bk kk .base w.fs).parentDir (rk bk (runOps (osCfg bk kk) w ops₁) k))
    (hlok : LinkOKAt SL (runOps (osCfg bk kk) w ops₁) (rk bk (runOps (osCfg bk kk) w ops₁) k))
    (hcov2 : CoveredHist (osCfg bk kk) bk SL (forceBackup (osCfg bk kk) name (runOps (osCfg bk kk) w ops₁)).1 ops₂) :
    let r := rk bk (runOps (osCfg bk kk) w ops₁) k
    let w3 := runOps (osCfg bk kk) (forceBackup (osCfg bk kk) name (runOps (osCfg bk kk) w ops₁)).1 ops₂
    let v := osViewL bk kk .base (rollback (osCfg bk kk) { w3 with faults := [] }).1.fs
    (∀ j, j ≠ [] → j ≠ r → v j = osViewL bk kk .base w.fs j) ∧
    (v r = osViewL bk kk .base w.fs r ∨ v r = osViewL bk kk .base (runOps (osCfg bk kk) w ops₁).fs r) ∧
    ((forceBackup (osCfg bk kk) name (runOps (osCfg bk kk) w ops₁)).2 = .ok () →
      v r = osViewL bk kk .base (runOps (osCfg bk kk) w ops₁).fs r) := by
  intro r w3 v
  have hrne : r ≠ [] := hpar.1
  have h1 := history_keeps (hbk := hbk) (hkk := hkk) (hne1 := hne1) (hne2 := hne2) (hd1 := hd1) (hd2 := hd2)
    ops₁ w (Inv.init hg hinfos hbl) hcov1
  obtain ⟨hdis, _, _, hres⟩ := (sat_forceBackup_flat (name := name) h1.inv hflat hk hname horig hnow hpar hlok).elim
  have hreb : ∀ {w' : World}, Inv SL (rebase (osViewL bk kk .base w.fs) r (osViewL bk kk .base (runOps (osCfg bk kk) w ops₁).fs r)) w' →
      ∀ j, j ≠ [] → osViewL bk kk .base (rollback (osCfg bk kk) { w' with faults := [] }).1.fs j =
        rebase (osViewL bk kk .base w.fs) r (osViewL bk kk .base (runOps (osCfg bk kk) w ops₁).fs r) j :=
    fun h => ((sat_rollback (cfg := osCfg bk kk) (h.with_faults []) rfl).elim).2.2.1
  have hor : ∀ {w' : World}, Inv SL (osViewL bk kk .base w.fs) w' →
      ∀ j, j ≠ [] → osViewL bk kk .base (rollback (osCfg bk kk) { w' with faults := [] }).1.fs j =
        osViewL bk kk .base w.fs j :=
    fun h => ((sat_rollback (cfg := osCfg bk kk) (h.with_faults []) rfl).elim).2.2.1
  have hkeep : ∀ {v' : View} {w' : World}, Inv SL v' w' → CoveredHist (osCfg bk kk) bk SL w' ops₂ →
      Inv SL v' (runOps (osCfg bk kk) w' ops₂) :=
    fun h hc => (history_keeps (hbk := hbk) (hkk := hkk) (hne1 := hne1) (hne2 := hne2) (hd1 := hd1) (hd2 := hd2)
      ops₂ _ h hc).inv
  refine ⟨?_, ?_, ?_⟩
  · intro j hj hjk
    rcases hdis with h | h
    · exact hor (hkeep h hcov2) j hj
    · rw [show v j = _ from hreb (hkeep h hcov2) j hj, rebase_ne _ _ hjk]
  · rcases hdis with h | h
    · exact Or.inl (hor (hkeep h hcov2) r hrne)
    · right
      rw [show v r = _ from hreb (hkeep h hcov2) r hrne, rebase_self]
  · intro hok
    have h := hres hok
    rw [show v r = _ from hreb (hkeep h hcov2) r hrne, rebase_self]

/-! ### any number of ForceBackups, names through flat links -/

/-- the key a ForceBackup of `name` issued in `w` works on -/
def forceKeyG (bk : Key) (w : World) (name : Path) : Key := rk bk w (forceKey name)

/-- `G.Op.Covered` plus successful ForceBackups: absolute name, disk flat at that moment; the resolved
path was not a directory when the transaction began and is not one now, its parent predates the
transaction, and if it is a symlink now the base admits re-creating it -/
def Op.CoveredF (bk kk : Key) (S : LSim (osCfg bk kk)) (v0 : View) (w : World) : Op → Prop
  | .force name => isAbs name = true ∧ Flat bk w.fs ∧ ¬ v0.isDirAt (forceKeyG bk w name) ∧
      ¬ (S.view .base w.fs).isDirAt (forceKeyG bk w name) ∧ v0.parentDir (forceKeyG bk w name) ∧
      LinkOKAt S w (forceKeyG bk w name) ∧
      (Op.exec (osCfg bk kk) (.force name) w).2 = .ok .unit
  | op => Op.Covered bk S w op

def CoveredHistF (bk kk : Key) (S : LSim (osCfg bk kk)) (v0 : View) : World → List Op → Prop
  | _, [] => True
  | w, op :: rest => Op.CoveredF bk kk S v0 w op ∧ CoveredHistF bk kk S v0 (op.step (osCfg bk kk) w) rest

/-- what an operation does to the reference view -/
def refStep (bk kk : Key) (v : View) (w : World) : Op → View
  | .force name => rebase v (forceKeyG bk w name) (osViewL bk kk .base w.fs (forceKeyG bk w name))
  | _ => v

/-- the reference view after a history -/
def refView (bk kk : Key) : View → World → List Op → View
  | v, _, [] => v
  | v, w, op :: rest => refView bk kk (refStep bk kk v w op) (op.step (osCfg bk kk) w) rest

/-- the resolved keys the ForceBackups of a history work on, in order -/
def forcedKeys (bk kk : Key) : World → List Op → List Key
  | _, [] => []
  | w, .force name :: rest => forceKeyG bk w name :: forcedKeys bk kk (Op.step (osCfg bk kk) w (.force name)) rest
  | w, op :: rest => forcedKeys bk kk (op.step (osCfg bk kk) w) rest

theorem op_not_force_cases {op : Op} (hf : ¬ ∃ name, op = .force name) {w : World} {v : View}
    (hc : Op.CoveredF bk kk SL v0 w op) : Op.Covered bk SL w op ∧ refStep bk kk v w op = v := by
  cases op <;> first | exact ⟨hc, rfl⟩ | exact absurd ⟨_, rfl⟩ hf

theorem op_keeps_force {w : World} {v : View} {op : Op} (hinv : Inv SL v w) (hsd : SameDirs v0 v)
    (hc : Op.CoveredF bk kk SL v0 w op) :
    Inv SL (refStep bk kk v w op) (op.step (osCfg bk kk) w) ∧ (op.step (osCfg bk kk) w).faults = w.faults ∧
      SameDirs v0 (refStep bk kk v w op) := by
  by_cases hf : ∃ name, op = .force name
  · obtain ⟨name, rfl⟩ := hf
    obtain ⟨habs, hflat, h0, hnow, hpar, hlok, hok⟩ := hc
    obtain ⟨k, hk, hname⟩ := clean_abs habs
    have hfk : forceKeyG bk w name = rk bk w k := by unfold forceKeyG; rw [forceKey_kp hk hname]
    rw [hfk] at h0 hnow hpar hlok
    obtain ⟨hstep, hiff⟩ := force_step (osCfg bk kk) name w
    obtain ⟨_, hfl, _, hres⟩ := (sat_forceBackup_flat (name := name) hinv hflat hk hname
      (fun h => h0 ((hsd _).mp h)) hnow (hsd.parentDir hpar) hlok).elim
    have hinv' := hres (hiff.mp hok)
    show Inv SL (rebase v (forceKeyG bk w name) (osViewL bk kk .base w.fs (forceKeyG bk w name))) _ ∧ _ ∧
      SameDirs v0 (rebase v (forceKeyG bk w name) (osViewL bk kk .base w.fs (forceKeyG bk w name)))
    rw [hfk, hstep]
    refine ⟨hinv', hfl, hsd.rebase h0 ?_⟩
    intro mt e
    exact hnow ⟨mt, e⟩
  · obtain ⟨hcov, hst⟩ := op_not_force_cases (v := v) hf hc
    have := op_keeps (hbk := hbk) (hkk := hkk) (hne1 := hne1) (hne2 := hne2) (hd1 := hd1) (hd2 := hd2) hinv hcov
    rw [hst]
    exact ⟨this.inv, this.faults, hsd⟩

theorem history_keeps_force : ∀ (ops : List Op) (w : World) (v : View), Inv SL v w → SameDirs v0 v →
    CoveredHistF bk kk SL v0 w ops →
    Inv SL (refView bk kk v w ops) (runOps (osCfg bk kk) w ops) ∧ (runOps (osCfg bk kk) w ops).faults = w.faults
  | [], _, _, hinv, _, _ => ⟨hinv, rfl⟩
  | op :: rest, w, v, hinv, hsd, hc => by
    obtain ⟨h1, h2, h3⟩ := op_keeps_force hinv hsd hc.1
    have ih := history_keeps_force rest (op.step (osCfg bk kk) w) (refStep bk kk v w op) h1 h3 hc.2
    exact ⟨ih.1, ih.2.trans h2⟩

/-- on healthy filesystems, after any covered history through flat links with ForceBackups, Rollback
restores the reference view -/
theorem tx_restores_force {w : World} (hg : OSGoodL bk kk w.fs) (hinfos : w.infos = []) (hnf : w.faults = [])
    (hbl : BackupLinksOK SL w.fs)
    (ops : List Op) (hcov : CoveredHistF bk kk SL (osViewL bk kk .base w.fs) w ops) :
    OSGoodL bk kk (runTx (osCfg bk kk) w ops).fs ∧ (runTx (osCfg bk kk) w ops).infos = [] ∧
    (runTx (osCfg bk kk) w ops).faults = [] ∧ BackupLinksOK SL (runTx (osCfg bk kk) w ops).fs ∧
    ∀ j, j ≠ [] → osViewL bk kk .base (runTx (osCfg bk kk) w ops).fs j =
      refView bk kk (osViewL bk kk .base w.fs) w ops j := by
  have hk := history_keeps_force (hbk := hbk) (hkk := hkk) (hne1 := hne1) (hne2 := hne2) (hd1 := hd1) (hd2 := hd2)
    ops w _ (Inv.init hg hinfos hbl) (fun _ => Iff.rfl) hcov
  have hr := (sat_rollback (cfg := osCfg bk kk) hk.1 (hk.2.trans hnf)).elim
  exact ⟨hr.1, rollback_resets_infos (osCfg bk kk) _, hr.2.1, backupLinksOK_after hk.1 hr.1 hr.2.2.1 hr.2.2.2, hr.2.2.1⟩

theorem refView_append (v : View) (w : World) (a b : List Op) :
    refView bk kk v w (a ++ b) = refView bk kk (refView bk kk v w a) (runOps (osCfg bk kk) w a) b := by
  induction a generalizing v w with
  | nil => rfl
  | cons op a ih =>
    show refView bk kk (refStep bk kk v w op) (op.step (osCfg bk kk) w) (a ++ b) = _
    rw [ih]
    rfl

/-- a key no ForceBackup of the history works on keeps its reference node -/
theorem refView_untouched (j : Key) : ∀ (ops : List Op) (v : View) (w : World),
    j ∉ forcedKeys bk kk w ops → refView bk kk v w ops j = v j
  | [], _, _, _ => rfl
  | op :: rest, v, w, h => by
    show refView bk kk (refStep bk kk v w op) (op.step (osCfg bk kk) w) rest j = v j
    by_cases hf : ∃ name, op = .force name
    · obtain ⟨name, rfl⟩ := hf
      have h' : j ∉ forceKeyG bk w name :: forcedKeys bk kk (Op.step (osCfg bk kk) w (.force name)) rest := h
      rw [refView_untouched j rest _ _ (fun hm => h' (List.mem_cons_of_mem _ hm))]
      exact rebase_ne v _ (fun e => h' (e ▸ List.mem_cons_self))
    · have hst : refStep bk kk v w op = v := by
        cases op <;> first | rfl | exact absurd ⟨_, rfl⟩ hf
      have hfk : forcedKeys bk kk w (op :: rest) = forcedKeys bk kk (op.step (osCfg bk kk) w) rest := by
        cases op <;> first | rfl | exact absurd ⟨_, rfl⟩ hf
      rw [hfk] at h
      rw [hst, refView_untouched j rest _ _ h]

/-- a forced key's reference node is the one it had at its last ForceBackup -/
theorem refView_last_force (v : View) (w : World) (ops₁ ops₂ : List Op) (name : Path)
    (h : forceKeyG bk (runOps (osCfg bk kk) w ops₁) name ∉
      forcedKeys bk kk (Op.step (osCfg bk kk) (runOps (osCfg bk kk) w ops₁) (.force name)) ops₂) :
    refView bk kk v w (ops₁ ++ .force name :: ops₂) (forceKeyG bk (runOps (osCfg bk kk) w ops₁) name) =
      osViewL bk kk .base (runOps (osCfg bk kk) w ops₁).fs (forceKeyG bk (runOps (osCfg bk kk) w ops₁) name) := by
  rw [refView_append]
  show refView bk kk (rebase _ (forceKeyG bk (runOps (osCfg bk kk) w ops₁) name) _) _ ops₂ _ = _
  rw [refView_untouched _ ops₂ _ _ h, rebase_self]

theorem coveredHistF_append {S : LSim (osCfg bk kk)} {w : World} {a b : List Op}
    (h : CoveredHistF bk kk S v0 w (a ++ b)) :
    CoveredHistF bk kk S v0 (runOps (osCfg bk kk) w a) b := by
  induction a generalizing w with
  | nil => exact h
  | cons op a ih => exact ih h.2

/-- C17 for any number of ForceBackups with names through flat links -/
theorem forces_then_rollback {w : World} (hg : OSGoodL bk kk w.fs) (hinfos : w.infos = []) (hnf : w.faults = [])
    (hbl : BackupLinksOK SL w.fs)
    (ops : List Op) (hcov : CoveredHistF bk kk SL (osViewL bk kk .base w.fs) w ops) :
    (∀ j, j ≠ [] → j ∉ forcedKeys bk kk w ops →
      osViewL bk kk .base (runTx (osCfg bk kk) w ops).fs j = osViewL bk kk .base w.fs j) ∧
    (∀ ops₁ name ops₂, ops = ops₁ ++ .force name :: ops₂ →
      forceKeyG bk (runOps (osCfg bk kk) w ops₁) name ∉
        forcedKeys bk kk (Op.step (osCfg bk kk) (runOps (osCfg bk kk) w ops₁) (.force name)) ops₂ →
      osViewL bk kk .base (runTx (osCfg bk kk) w ops).fs (forceKeyG bk (runOps (osCfg bk kk) w ops₁) name) =
        osViewL bk kk .base (runOps (osCfg bk kk) w ops₁).fs (forceKeyG bk (runOps (osCfg bk kk) w ops₁) name)) := by
  have hr := (tx_restores_force (hbk := hbk) (hkk := hkk) (hne1 := hne1) (hne2 := hne2) (hd1 := hd1) (hd2 := hd2)
    hg hinfos hnf hbl ops hcov).2.2.2.2
  constructor
  · intro j hj hun
    rw [hr j hj, refView_untouched j ops _ _ hun]
  · intro ops₁ name ops₂ he hlast
    subst he
    have hc := (coveredHistF_append hcov).1
    have hne : forceKeyG bk (runOps (osCfg bk kk) w ops₁) name ≠ [] := hc.2.2.2.2.1.1
    rw [hr _ hne, refView_last_force _ _ _ _ _ hlast]

end os

end G
end L
end BFS
