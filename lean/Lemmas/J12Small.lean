import Lemmas.J12Disk
import Lemmas.J12Name
import Lemmas.Sat
import Lemmas.Restore
/-!
  Lemmas/J12Small.lean — "every owner on the disk and every tracked owner fits 32 bits" (`SI`) is
  an invariant of EVERY BackupFS method (operations, ForceBackup, Rollback) on every world, under
  every fault plan, for every argument — provided the uid/gid arguments the CLIENT passes to
  `Chown`/`Lchown` fit 32 bits (`Op.SmallArgs`).  The owners BackupFS itself passes to
  `chown`/`lchown` (in `copyDir`, `copyFile`, `copySymlink`) come from `FileInfo`s that were read
  from the disk or from the tracked map.

  Needed of the two filesystems (`SmallCfg cfg`): calls with small arguments keep `SD`, returned
  `FileInfo`s have small owners, writes through a handle keep `SD`.  `smallCfg_os`: the OS
  configuration `osCfg bk kk` (any two prefixes).
-/
namespace BFS
namespace J12
open BackupFS

variable {cfg : Cfg}

structure SmallCfg (cfg : Cfg) : Prop where
  call : ∀ s m c, SD m → SmallArgs c → SD ((cfg.side s).call m c).1
  info : ∀ s m c m' i, SD m → (cfg.side s).call m c = (m', .ok (.info i)) → Smi i
  hwrite : ∀ s m h off d, SD m → SD ((cfg.side s).hwrite m h off d).1

theorem smallCfg_os (bk kk : Key) : SmallCfg (osCfg bk kk) where
  call := fun s m c h hs => by cases s <;> exact h.prefixFS_call _ hs
  info := fun s m c m' i h hc => by cases s <;> exact prefixFS_call_info h _ hc
  hwrite := fun s m hd off d h => by cases s <;> exact h.hwrite hd off d

/-- tracked owners fit 32 bits -/
abbrev NS : Path → Info → Prop := fun _ i => Smi i

/-- the joint invariant: small owners on the disk and in the tracked map -/
def SI (w : World) : Prop := SD w.fs ∧ AllN NS w.infos

def PresS {α} (x : M α) (Q : α → Prop) : Prop :=
  ∀ w, SI w → SI (x w).1 ∧ ∀ a, (x w).2 = .ok a → Q a

abbrev T {α : Type} : α → Prop := fun _ => True

theorem PresS.mono {α} {x : M α} {Q Q' : α → Prop} (h : PresS x Q) (hq : ∀ a, Q a → Q' a) :
    PresS x Q' := fun w hw => ⟨(h w hw).1, fun a ha => hq a ((h w hw).2 a ha)⟩

theorem PresS.triv {α} {x : M α} {Q : α → Prop} (h : PresS x Q) : PresS x T := h.mono (fun _ _ => trivial)

theorem PresS.pure {α} {a : α} {Q : α → Prop} (h : Q a) : PresS (pure a : M α) Q := by
  intro w hw
  refine ⟨hw, ?_⟩
  intro b hb
  have : (Except.ok a : Except Err α) = .ok b := hb
  cases this
  exact h

theorem PresS.throw {α} {e : Err} {Q : α → Prop} : PresS (M.throw e : M α) Q := by
  intro w hw
  refine ⟨hw, ?_⟩
  intro b hb
  have : (Except.error e : Except Err α) = .ok b := hb
  cases this

theorem PresS.bind {α β} {x : M α} {f : α → M β} {Q : α → Prop} {R : β → Prop}
    (hx : PresS x Q) (hf : ∀ a, Q a → PresS (f a) R) : PresS (x >>= f) R := by
  intro w hw
  obtain ⟨h1, h2⟩ := hx w hw
  rw [M.bind_apply]
  cases hxw : x w with
  | mk w' r =>
    rw [hxw] at h1 h2
    cases r with
    | ok a => exact hf a (h2 a rfl) w' h1
    | error e =>
      refine ⟨h1, ?_⟩
      intro b hb
      cases hb

theorem PresS.attempt {α} {x : M α} {Q : α → Prop} (hx : PresS x Q) :
    PresS (attempt x) (fun r => ∀ a, r = .ok a → Q a) := by
  intro w hw
  rw [attempt_apply]
  obtain ⟨h1, h2⟩ := hx w hw
  refine ⟨h1, ?_⟩
  intro r hr a ha
  have : (Except.ok (x w).2 : Except Err (Except Err α)) = .ok r := hr
  cases this
  exact h2 a ha

theorem PresS.ite {α} {c : Prop} [Decidable c] {x y : M α} {Q : α → Prop}
    (hx : PresS x Q) (hy : PresS y Q) : PresS (if c then x else y) Q := by
  split
  · exact hx
  · exact hy

theorem PresS.dite {α} {c : Prop} [Decidable c] {x y : M α} {Q : α → Prop}
    (hx : c → PresS x Q) (hy : ¬ c → PresS y Q) : PresS (if c then x else y) Q := by
  split
  · exact hx ‹_›
  · exact hy ‹_›

theorem PresS.whenM {c : Bool} {x : M Unit} (hx : PresS x T) : PresS (whenM c x) T := by
  unfold BFS.whenM
  exact PresS.ite hx (PresS.pure trivial)

/-- computations that touch neither the disk nor the tracked map -/
abbrev f2 : World → MFS × List (Path × Option Info) := fun w => (w.fs, w.infos)

theorem PresS.of_keeps2 {α} {x : M α} (h : Keeps f2 x) : PresS x T := by
  intro w hw
  have e : ((x w).1.fs, (x w).1.infos) = (w.fs, w.infos) := h w
  simp only [Prod.mk.injEq] at e
  exact ⟨⟨by rw [e.1]; exact hw.1, by rw [e.2]; exact hw.2⟩, fun _ _ => trivial⟩

theorem primH_keeps2 (wh : WHandle) (m : String) (ex : List Path) (b : Bool) : Keeps f2 (primH wh m ex b) := by
  intro w
  unfold primH account
  simp only
  split <;> rfl

theorem hClose_keeps2 (wh : WHandle) : Keeps f2 (hClose wh) := by
  unfold hClose; exact primH_keeps2 _ _ _ _

theorem hRead_keeps2 (wh : WHandle) : Keeps f2 (hRead wh) := by
  unfold hRead; exact primH_keeps2 _ _ _ _

theorem peek_keeps2 (cfg : Cfg) (wh : WHandle) : Keeps f2 (peek cfg wh) := by
  unfold peek
  apply Keeps.bind (Keeps.getW _); intro w
  split <;> first | exact Keeps.pure _ _ | exact Keeps.throw _ _

theorem hStat_keeps2 (cfg : Cfg) (wh : WHandle) : Keeps f2 (hStat cfg wh) := by
  unfold hStat
  apply Keeps.bind (primH_keeps2 _ _ _ _); intro _
  apply Keeps.bind (Keeps.getW _); intro w
  split <;> first | exact Keeps.pure _ _ | exact Keeps.throw _ _

theorem hReaddirnames_keeps2 (cfg : Cfg) (wh : WHandle) : Keeps f2 (hReaddirnames cfg wh) := by
  unfold hReaddirnames
  apply Keeps.bind (primH_keeps2 _ _ _ _); intro _
  apply Keeps.bind (Keeps.getW _); intro w
  split <;> first | exact Keeps.pure _ _ | exact Keeps.throw _ _

theorem lookupInfo_keeps2 (p : Path) : Keeps f2 (lookupInfo p) := by
  unfold lookupInfo
  apply Keeps.bind (Keeps.getW _); intro w
  exact Keeps.pure _ _

/-! ### the primitive gate -/

theorem execCall_S (hC : SmallCfg cfg) (side : Side) {c : Call} (hs : SmallArgs c) (w : World) (hw : SI w) :
    SI (execCall cfg side c w).1 ∧ ∀ r, (execCall cfg side c w).2 = .ok r → ∀ i, r = .info i → Smi i := by
  unfold execCall
  have h1 := hC.call side w.fs c hw.1 hs
  cases hc : (cfg.side side).call w.fs c with
  | mk m' r =>
    rw [hc] at h1
    simp only
    refine ⟨⟨h1, hw.2⟩, ?_⟩
    intro r' hr i hi
    subst hi
    subst hr
    exact hC.info side w.fs c m' i hw.1 hc

theorem SI.of_same {w w1 : World} (hw : SI w) (hs : SameFS w w1) : SI w1 :=
  ⟨by rw [hs.fs]; exact hw.1, by rw [hs.infos]; exact hw.2⟩

theorem primCall_presS (hC : SmallCfg cfg) (side : Side) {c : Call} (hs : SmallArgs c) :
    PresS (primCall cfg side c) (fun r => ∀ i, r = .info i → Smi i) := by
  intro w hw
  unfold primCall
  split
  · split
    · refine ⟨hw, ?_⟩
      intro a ha; cases ha
    · exact execCall_S hC side hs w hw
  · have hsame := account_sameFS ⟨side, callMethod c, callArgs c⟩ (callMutating c) w
    cases hacc : account ⟨side, callMethod c, callArgs c⟩ (callMutating c) w with
    | mk w1 faulted =>
      rw [hacc] at hsame
      cases faulted with
      | true =>
        refine ⟨hw.of_same hsame, ?_⟩
        intro a ha; cases ha
      | false => exact execCall_S hC side hs w1 (hw.of_same hsame)

theorem primInfo_presS (hC : SmallCfg cfg) (side : Side) {c : Call} (hs : SmallArgs c) :
    PresS (primInfo cfg side c) Smi := by
  unfold primInfo
  apply PresS.bind (primCall_presS hC side hs); intro r hr
  cases r with
  | info i => exact PresS.pure (hr i rfl)
  | unit => exact PresS.throw
  | str s => exact PresS.throw
  | handle h => exact PresS.throw

theorem primStr_presS (hC : SmallCfg cfg) (side : Side) {c : Call} (hs : SmallArgs c) :
    PresS (primStr cfg side c) T := by
  unfold primStr
  apply PresS.bind (primCall_presS hC side hs); intro r _
  cases r <;> first | exact PresS.pure trivial | exact PresS.throw

theorem primUnit_presS (hC : SmallCfg cfg) (side : Side) {c : Call} (hs : SmallArgs c) :
    PresS (primUnit cfg side c) T := by
  unfold primUnit
  apply PresS.bind (primCall_presS hC side hs); intro r _
  exact PresS.pure trivial

theorem primOpen_presS (hC : SmallCfg cfg) (side : Side) {c : Call} (hs : SmallArgs c) :
    PresS (primOpen cfg side c) T := by
  unfold primOpen
  apply PresS.bind (primCall_presS hC side hs); intro r _
  cases r <;> first | exact PresS.pure trivial | exact PresS.throw

theorem hWrite_presS (hC : SmallCfg cfg) (wh : WHandle) (off : Nat) (d : String) :
    PresS (hWrite cfg wh off d) T := by
  unfold hWrite
  apply PresS.bind (PresS.of_keeps2 (primH_keeps2 _ _ _ _)); intro _ _
  intro w hw
  have h1 := hC.hwrite wh.side w.fs wh.h off d hw.1
  exact ⟨⟨h1, hw.2⟩, fun _ _ => trivial⟩

/-! ### fs_utils.go -/

theorem lexists_presS (hC : SmallCfg cfg) (side : Side) (p : Path) : PresS (lexists cfg side p) T := by
  unfold lexists
  apply PresS.bind (PresS.attempt (primInfo_presS hC side (c := .lstat p) trivial)); intro r _
  cases r with
  | ok i => exact PresS.pure trivial
  | error e => exact PresS.ite (PresS.pure trivial) PresS.throw

theorem ignorePerm_presS {x : M Unit} (h : PresS x T) : PresS (ignorePerm x) T := by
  unfold ignorePerm
  apply PresS.bind (PresS.attempt h); intro r _
  cases r with
  | ok u => exact PresS.pure trivial
  | error e => exact PresS.ite (PresS.pure trivial) PresS.throw

theorem wrapped_presS {α} {x : M α} {Q : α → Prop} (h : PresS x Q) : PresS (wrapped x) Q := by
  intro w hw
  unfold wrapped
  have := h w hw
  cases hx : x w with
  | mk w' r =>
    rw [hx] at this
    cases r with
    | ok a => exact this
    | error e =>
      refine ⟨this.1, ?_⟩
      intro a ha; cases ha

theorem smallArgs_chown {i : Info} (h : Smi i) (n : Path) : SmallArgs (.chown n i.uid i.gid) := by
  have h1 := h.1; have h2 := h.2
  constructor <;> omega

theorem smallArgs_lchown {i : Info} (h : Smi i) (n : Path) : SmallArgs (.lchown n i.uid i.gid) := by
  have h1 := h.1; have h2 := h.2
  constructor <;> omega

theorem chownTo_presS (hC : SmallCfg cfg) (side : Side) {src : Info} (hsrc : Smi src) (n : Path) :
    PresS (chownTo cfg side src n) T := by
  unfold chownTo
  apply PresS.bind (primInfo_presS hC side (c := .lstat n) trivial); intro old _
  exact PresS.whenM (primUnit_presS hC side (smallArgs_chown hsrc n))

theorem copyDir_presS (hC : SmallCfg cfg) (side : Side) (name : Path) {info : Info} (hi : Smi info) :
    PresS (copyDir cfg side name info) T := by
  unfold copyDir
  apply wrapped_presS
  apply PresS.ite PresS.throw
  apply PresS.ite (PresS.pure trivial)
  apply PresS.bind (primUnit_presS hC side (c := .mkdirAll name _) trivial); intro _ _
  apply PresS.bind (primInfo_presS hC side (c := .lstat name) trivial); intro cur _
  apply PresS.bind (PresS.whenM (primUnit_presS hC side (c := .chmod name _) trivial)); intro _ _
  apply PresS.bind (PresS.whenM (ignorePerm_presS (primUnit_presS hC side (c := .chtimes name _ _) trivial))); intro _ _
  exact ignorePerm_presS (chownTo_presS hC side hi name)

theorem copyChunks_presS (hC : SmallCfg cfg) (dst src : WHandle) :
    ∀ (off : Nat) (cs : List String), PresS (copyChunks cfg dst src off cs) T
  | _, [] => by unfold copyChunks; exact PresS.of_keeps2 (hRead_keeps2 src)
  | off, c :: cs => by
    unfold copyChunks
    apply PresS.bind (PresS.of_keeps2 (hRead_keeps2 src)); intro _ _
    apply PresS.bind (hWrite_presS hC dst off c); intro _ _
    exact copyChunks_presS hC dst src _ cs

theorem writeFile_presS (hC : SmallCfg cfg) (side : Side) (name : Path) (perm : Nat) (src : WHandle) :
    PresS (writeFile cfg side name perm src) T := by
  unfold writeFile
  apply PresS.bind (primOpen_presS hC side (c := .openFile name _ _) trivial); intro dst _
  apply PresS.bind (PresS.of_keeps2 (peek_keeps2 cfg src)); intro data _
  apply PresS.bind (PresS.attempt (copyChunks_presS hC dst src 0 _)); intro r _
  apply PresS.bind (PresS.attempt (PresS.of_keeps2 (hClose_keeps2 dst))); intro c _
  cases r with
  | error e => exact PresS.throw
  | ok u => cases c with
    | error e => exact PresS.throw
    | ok u' => exact PresS.pure trivial

theorem copyFile_presS (hC : SmallCfg cfg) (side : Side) (name : Path) {info : Info} (hi : Smi info)
    (src : WHandle) : PresS (copyFile cfg side name info src) T := by
  unfold copyFile
  apply wrapped_presS
  apply PresS.ite PresS.throw
  apply PresS.bind (writeFile_presS hC side name _ src); intro _ _
  apply PresS.bind (ignorePerm_presS (chownTo_presS hC side hi name)); intro _ _
  apply PresS.bind (primInfo_presS hC side (c := .lstat name) trivial); intro cur _
  apply PresS.bind (PresS.whenM (primUnit_presS hC side (c := .chmod name _) trivial)); intro _ _
  exact PresS.whenM (ignorePerm_presS (primUnit_presS hC side (c := .chtimes name _ _) trivial))

theorem copySymlink_presS (hC : SmallCfg cfg) (source target : Side) (name : Path) {info : Info}
    (hi : Smi info) : PresS (copySymlink cfg source target name info) T := by
  unfold copySymlink
  apply wrapped_presS
  apply PresS.ite PresS.throw
  apply PresS.bind (primStr_presS hC source (c := .readlink name) trivial); intro pointsAt _
  apply PresS.bind (primUnit_presS hC target (c := .symlink pointsAt name) trivial); intro _ _
  exact ignorePerm_presS (primUnit_presS hC target (smallArgs_lchown hi name))

theorem restoreFile_presS (hC : SmallCfg cfg) (name : Path) {backupFi : Info} (hi : Smi backupFi) :
    PresS (restoreFile cfg name backupFi) T := by
  unfold restoreFile
  apply PresS.bind (primOpen_presS hC .backup (c := .open_ name) trivial); intro f _
  apply PresS.bind (Q := T)
  · refine (PresS.attempt (Q := T) ?_).triv
    apply PresS.bind (PresS.of_keeps2 (hStat_keeps2 cfg f)); intro fi _
    apply PresS.bind (lexists_presS hC .base name); intro baseFi _
    apply PresS.ite
    · apply PresS.bind (primUnit_presS hC .base (c := .removeAll name) trivial); intro _ _
      exact copyFile_presS hC .base name hi f
    · apply PresS.bind (PresS.whenM (primUnit_presS hC .base (c := .remove name) trivial)); intro _ _
      exact copyFile_presS hC .base name hi f
  · intro r _
    apply PresS.bind (PresS.attempt (PresS.of_keeps2 (hClose_keeps2 f))); intro _ _
    cases r with
    | ok u => exact PresS.pure trivial
    | error e => exact PresS.throw

theorem restoreSymlink_presS (hC : SmallCfg cfg) (name : Path) {backupFi : Info} (hi : Smi backupFi) :
    PresS (restoreSymlink cfg name backupFi) T := by
  unfold restoreSymlink
  apply PresS.bind (lexists_presS hC .backup name); intro r _
  cases r with
  | none => exact PresS.throw
  | some x =>
    simp only
    apply PresS.bind (lexists_presS hC .base name); intro cur _
    apply PresS.bind (PresS.whenM (primUnit_presS hC .base (c := .remove name) trivial)); intro _ _
    exact copySymlink_presS hC .backup .base name hi

/-! ### resolution and tracking -/

theorem resolveLoop_presS (hC : SmallCfg cfg) : ∀ (fuel : Nat) (l : List Path) (last : Path) (fi : Option Info),
    PresS (resolveLoop cfg fuel l last fi) T
  | 0, _, _, _ => PresS.pure trivial
  | _ + 1, [], _, _ => PresS.pure trivial
  | fuel + 1, p :: rest, last, fi => by
    unfold resolveLoop
    apply PresS.bind (PresS.attempt (primInfo_presS hC .base (c := .lstat p) trivial)); intro res _
    cases res with
    | error e => exact PresS.ite (PresS.pure trivial) PresS.throw
    | ok i =>
      simp only
      apply PresS.ite
      · apply PresS.bind (primStr_presS hC .base (c := .readlink p) trivial); intro linked _
        exact resolveLoop_presS hC fuel _ _ _
      · exact resolveLoop_presS hC fuel _ _ _

theorem realPath_presS (hC : SmallCfg cfg) (name : Path) : PresS (realPath cfg name) T := by
  unfold realPath resolvePathWithInfo
  apply PresS.bind (Q := T)
  · apply PresS.ite PresS.throw
    exact resolveLoop_presS hC _ _ _ _
  · intro r _; exact PresS.pure trivial

theorem setInfo_presS (p : Path) (oi : Option Info) (h : ∀ i, oi = some i → Smi i) :
    PresS (setInfo p oi) T := by
  intro w hw
  have := (setInfo_pres (N := NS) p oi h w hw.2).1
  refine ⟨⟨?_, this⟩, fun _ _ => trivial⟩
  unfold setInfo modifyW
  simp only
  split <;> exact hw.1

theorem deleteInfo_presS (p : Path) : PresS (deleteInfo p) T := by
  intro w hw
  have := (deleteInfo_pres (N := NS) p w hw.2).1
  exact ⟨⟨hw.1, this⟩, fun _ _ => trivial⟩

theorem backupRequired_presS (hC : SmallCfg cfg) (p : Path) :
    PresS (backupRequired cfg p) (fun r => r.2 = true → ∀ i, r.1 = some i → Smi i) := by
  unfold backupRequired
  apply PresS.bind (PresS.of_keeps2 (lookupInfo_keeps2 p)); intro li _
  cases li with
  | some info => exact PresS.pure (fun h => by cases h)
  | none =>
    apply PresS.bind (PresS.attempt (primInfo_presS hC .base (c := .lstat p) trivial)); intro res hres
    cases res with
    | ok info => exact PresS.pure (fun _ i hi => by cases hi; exact hres _ rfl)
    | error e =>
      apply PresS.ite
      · apply PresS.bind (setInfo_presS p none (fun i h => by cases h)); intro _ _
        exact PresS.pure (fun h => by cases h)
      · exact PresS.throw

theorem backupDirsVisit_presS (hC : SmallCfg cfg) : ∀ l : List Path, PresS (backupDirsVisit cfg l) T
  | [] => PresS.pure trivial
  | sub :: rest => by
    unfold backupDirsVisit
    apply PresS.bind (backupRequired_presS hC sub); intro fr hfr
    rcases fr with ⟨fi, required⟩
    simp only
    apply PresS.dite (fun _ => backupDirsVisit_presS hC rest)
    intro hreq
    cases fi with
    | none => exact backupDirsVisit_presS hC rest
    | some i =>
      have hN : Smi i := hfr (by simpa using hreq) i rfl
      apply PresS.bind (copyDir_presS hC .backup sub hN); intro _ _
      apply PresS.bind (setInfo_presS sub (some i) (fun j hj => by cases hj; exact hN)); intro _ _
      exact backupDirsVisit_presS hC rest

theorem tryBackup_presS (hC : SmallCfg cfg) (r : Path) : PresS (tryBackup cfg r) T := by
  unfold tryBackup
  apply PresS.bind (backupRequired_presS hC r); intro inb hinb
  rcases inb with ⟨info, needs⟩
  simp only
  apply PresS.bind (Q := T) (by unfold backupDirs; exact backupDirsVisit_presS hC _); intro _ _
  apply PresS.dite (fun _ => PresS.pure trivial)
  intro hneeds
  cases info with
  | none => exact PresS.pure trivial
  | some i =>
    have hN : Smi i := hinb (by simpa using hneeds) i rfl
    simp only
    apply PresS.ite (PresS.pure trivial)
    apply PresS.ite
    · apply PresS.bind (primOpen_presS hC .base (c := .open_ r) trivial); intro sf _
      apply PresS.bind (PresS.attempt (Q := T) (by
        apply PresS.bind (copyFile_presS hC .backup r hN sf); intro _ _
        exact setInfo_presS r (some i) (fun j hj => by cases hj; exact hN))); intro res _
      apply PresS.bind (PresS.attempt (PresS.of_keeps2 (hClose_keeps2 sf))); intro _ _
      cases res with
      | ok u => exact PresS.pure trivial
      | error e => exact PresS.throw
    · apply PresS.bind (copySymlink_presS hC .base .backup r hN); intro _ _
      exact setInfo_presS r (some i) (fun j hj => by cases hj; exact hN)

theorem prepare_presS (hC : SmallCfg cfg) (name : Path) : PresS (prepare cfg name) T := by
  unfold prepare
  apply PresS.bind (realPath_presS hC name); intro r _
  apply PresS.bind (tryBackup_presS hC r); intro _ _
  exact PresS.pure trivial

theorem prepare_then_presS {α} (hC : SmallCfg cfg) (name : Path) (k : Path → M α)
    (hk : ∀ r, PresS (k r) T) : PresS (prepare cfg name >>= k) T :=
  PresS.bind (prepare_presS hC name) (fun r _ => hk r)

theorem create_presS (hC : SmallCfg cfg) (n : Path) : PresS (create cfg n) T := by
  rw [create_eq]; exact prepare_then_presS hC n _ (fun r => primOpen_presS hC .base (c := .create r) trivial)
theorem mkdir_presS (hC : SmallCfg cfg) (n : Path) (p : Nat) : PresS (mkdir cfg n p) T := by
  rw [mkdir_eq]; exact prepare_then_presS hC n _ (fun r => primUnit_presS hC .base (c := .mkdir r p) trivial)
theorem mkdirAll_presS (hC : SmallCfg cfg) (n : Path) (p : Nat) : PresS (mkdirAll cfg n p) T := by
  rw [mkdirAll_eq]; exact prepare_then_presS hC n _ (fun r => primUnit_presS hC .base (c := .mkdirAll r p) trivial)
theorem remove_presS (hC : SmallCfg cfg) (n : Path) : PresS (remove cfg n) T := by
  rw [remove_eq]; exact prepare_then_presS hC n _ (fun r => primUnit_presS hC .base (c := .remove r) trivial)
theorem chmod_presS (hC : SmallCfg cfg) (n : Path) (m : Nat) : PresS (chmod cfg n m) T := by
  rw [chmod_eq]; exact prepare_then_presS hC n _ (fun r => primUnit_presS hC .base (c := .chmod r m) trivial)
theorem chown_presS (hC : SmallCfg cfg) (n : Path) {u g : Int} (hu : u < 4294967296) (hg : g < 4294967296) :
    PresS (chown cfg n u g) T := by
  rw [chown_eq]; exact prepare_then_presS hC n _ (fun r => primUnit_presS hC .base (c := .chown r u g) ⟨hu, hg⟩)
theorem lchown_presS (hC : SmallCfg cfg) (n : Path) {u g : Int} (hu : u < 4294967296) (hg : g < 4294967296) :
    PresS (lchown cfg n u g) T := by
  rw [lchown_eq]; exact prepare_then_presS hC n _ (fun r => primUnit_presS hC .base (c := .lchown r u g) ⟨hu, hg⟩)
theorem chtimes_presS (hC : SmallCfg cfg) (n : Path) (a m : Time) : PresS (chtimes cfg n a m) T := by
  rw [chtimes_eq]; exact prepare_then_presS hC n _ (fun r => primUnit_presS hC .base (c := .chtimes r a m) trivial)
theorem symlink_presS (hC : SmallCfg cfg) (o n : Path) : PresS (symlink cfg o n) T := by
  rw [symlink_eq]; exact prepare_then_presS hC n _ (fun r => primUnit_presS hC .base (c := .symlink o r) trivial)

theorem openFile_presS (hC : SmallCfg cfg) (n : Path) (f p : Nat) : PresS (openFile cfg n f p) T := by
  by_cases h : f = O_RDONLY
  · unfold openFile
    simp only [h, if_true]
    exact primOpen_presS hC .base (c := .openFile n O_RDONLY 0) trivial
  · rw [openFile_eq cfg n f p h]
    exact prepare_then_presS hC n _ (fun r => primOpen_presS hC .base (c := .openFile r f p) trivial)

theorem rename_presS (hC : SmallCfg cfg) (o n : Path) : PresS (rename cfg o n) T := by
  unfold rename
  apply PresS.bind (realPath_presS hC o); intro ro _
  apply PresS.bind (realPath_presS hC n); intro rn _
  apply PresS.bind (tryBackup_presS hC rn); intro _ _
  apply PresS.bind (tryBackup_presS hC ro); intro _ _
  exact primUnit_presS hC .base (c := .rename ro rn) trivial

/-! ### the walks -/

theorem worldWalkOps_lstat_S (hC : SmallCfg cfg) (side : Side) (w : World) (p : Path) (hw : SI w) :
    SI ((worldWalkOps cfg side).lstat w p).1 :=
  (primInfo_presS hC side (c := .lstat p) trivial w hw).1

theorem worldWalkOps_readDir_S (hC : SmallCfg cfg) (side : Side) (w : World) (p : Path) (hw : SI w) :
    SI ((worldWalkOps cfg side).readDirNames w p).1 := by
  have h : PresS (do
      let h ← primOpen cfg side (.open_ p)
      let r ← attempt (hReaddirnames cfg h)
      let _ ← attempt (hClose h)
      match r with
      | .ok ns => pure (sortStrings ns)
      | .error e => M.throw e : M (List Name)) T := by
    apply PresS.bind (primOpen_presS hC side (c := .open_ p) trivial); intro h _
    apply PresS.bind (PresS.attempt (PresS.of_keeps2 (hReaddirnames_keeps2 cfg h))); intro r _
    apply PresS.bind (PresS.attempt (PresS.of_keeps2 (hClose_keeps2 h))); intro _ _
    cases r with
    | ok ns => exact PresS.pure trivial
    | error e => exact PresS.throw
  exact (h w hw).1

theorem removeAllFn_S (hC : SmallCfg cfg) (w : World) (a : List Path) (p : Path) (i : Option Info)
    (e : Option Err) (hw : SI w) : SI (removeAllFn cfg w a p i e).1.1 := by
  unfold removeAllFn
  cases e with
  | some e => exact hw
  | none =>
    cases i with
    | none => exact hw
    | some i =>
      simp only
      split
      · exact hw
      · have h := (remove_presS hC p w hw).1
        cases hrm : remove cfg p w with
        | mk w' r =>
          rw [hrm] at h
          cases r <;> exact h

theorem removeEach_presS (hC : SmallCfg cfg) : ∀ ds : List Path, PresS (removeEach cfg ds) T
  | [] => PresS.pure trivial
  | d :: ds => by
    unfold removeEach
    apply PresS.bind (remove_presS hC d); intro _ _
    exact removeEach_presS hC ds

theorem removeAll_presS (hC : SmallCfg cfg) (name : Path) : PresS (removeAll cfg name) T := by
  unfold removeAll
  apply PresS.bind (realPath_presS hC name); intro r _
  apply PresS.bind (PresS.attempt (primInfo_presS hC .base (c := .lstat r) trivial)); intro res _
  cases res with
  | error e => exact PresS.ite (PresS.pure trivial) PresS.throw
  | ok fi =>
    simp only
    apply PresS.ite (remove_presS hC r)
    apply PresS.bind (Q := T)
    · intro w hw
      have h := walkTree_P SI (worldWalkOps cfg .base) (removeAllFn cfg)
        (fun w p hw => worldWalkOps_lstat_S hC .base w p hw)
        (fun w p hw => worldWalkOps_readDir_S hC .base w p hw)
        (fun w a p i e hw => removeAllFn_S hC w a p i e hw) 64 w [] r hw
      dsimp only
      cases hwt : walkTree (worldWalkOps cfg .base) (removeAllFn cfg) 64 w [] r with
      | mk sa oe =>
        rw [hwt] at h
        obtain ⟨w', dirs⟩ := sa
        cases oe <;> exact ⟨h, fun _ _ => trivial⟩
    · intro dirs _
      exact removeEach_presS hC _

/-! ### ForceBackup -/

theorem removeBackupFn_S (hC : SmallCfg cfg) (w : World) (a : List Path) (p : Path) (i : Option Info)
    (e : Option Err) (hw : SI w) : SI (removeBackupFn cfg w a p i e).1.1 := by
  unfold removeBackupFn
  cases e with
  | some e => exact hw
  | none =>
    cases i with
    | none => exact hw
    | some i =>
      simp only
      split
      · exact hw
      · have hp : PresS (do primUnit cfg .backup (.remove p); deleteInfo p : M Unit) T := by
          apply PresS.bind (primUnit_presS hC .backup (c := .remove p) trivial); intro _ _
          exact deleteInfo_presS p
        have h := (hp w hw).1
        cases hrm : (do primUnit cfg .backup (.remove p); deleteInfo p : M Unit) w with
        | mk w' r =>
          rw [hrm] at h
          cases r <;> exact h

theorem removeBackupDirs_presS (hC : SmallCfg cfg) : ∀ ds : List Path, PresS (removeBackupDirs cfg ds) T
  | [] => PresS.pure trivial
  | d :: ds => by
    unfold removeBackupDirs
    apply PresS.bind (primUnit_presS hC .backup (c := .removeAll d) trivial); intro _ _
    apply PresS.bind (deleteInfo_presS d); intro _ _
    exact removeBackupDirs_presS hC ds

theorem tryRemoveBackup_presS (hC : SmallCfg cfg) (r : Path) : PresS (tryRemoveBackup cfg r) T := by
  unfold tryRemoveBackup
  apply PresS.bind (PresS.of_keeps2 (lookupInfo_keeps2 r)); intro li _
  cases li with
  | none => exact PresS.pure trivial
  | some x =>
    simp only
    apply PresS.bind (Q := T)
    · apply PresS.bind (PresS.attempt (primInfo_presS hC .backup (c := .lstat r) trivial)); intro res _
      cases res with
      | ok i => exact PresS.pure trivial
      | error e => exact PresS.ite (PresS.pure trivial) PresS.throw
    · intro fi _
      cases fi with
      | none => exact deleteInfo_presS r
      | some i =>
        simp only
        apply PresS.ite
        · apply PresS.bind (primUnit_presS hC .backup (c := .remove r) trivial); intro _ _
          exact deleteInfo_presS r
        · apply PresS.bind (Q := T)
          · intro w hw
            have h := walkTree_P SI (worldWalkOps cfg .backup) (removeBackupFn cfg)
              (fun w p hw => worldWalkOps_lstat_S hC .backup w p hw)
              (fun w p hw => worldWalkOps_readDir_S hC .backup w p hw)
              (fun w a p i e hw => removeBackupFn_S hC w a p i e hw) 64 w [] r hw
            dsimp only
            cases hwt : walkTree (worldWalkOps cfg .backup) (removeBackupFn cfg) 64 w [] r with
            | mk sa oe =>
              rw [hwt] at h
              obtain ⟨w', dirs⟩ := sa
              cases oe <;> exact ⟨h, fun _ _ => trivial⟩
          · intro dirs _
            exact removeBackupDirs_presS hC _

theorem forceBackup_presS (hC : SmallCfg cfg) (name : Path) : PresS (forceBackup cfg name) T := by
  unfold forceBackup
  apply PresS.bind (realPath_presS hC name); intro r _
  apply PresS.bind (tryRemoveBackup_presS hC r); intro _ _
  exact tryBackup_presS hC r

/-! ### operations and histories -/

theorem writeClose_presS (hC : SmallCfg cfg) (h : WHandle) (data : String) :
    PresS (writeClose cfg h data) T := by
  unfold writeClose
  apply PresS.bind (PresS.attempt (PresS.whenM (hWrite_presS hC h 0 data))); intro r _
  cases r with
  | error e =>
    apply PresS.bind (PresS.attempt (PresS.of_keeps2 (hClose_keeps2 h))); intro _ _
    exact PresS.pure trivial
  | ok u =>
    apply PresS.bind (PresS.attempt (PresS.of_keeps2 (hClose_keeps2 h))); intro c _
    cases c with
    | error e => exact PresS.pure trivial
    | ok u' => exact PresS.pure trivial

/-- the uid/gid arguments the client passes fit 32 bits (negative = keep) -/
def OpSmall : Op → Prop
  | .chown _ u g => u < 4294967296 ∧ g < 4294967296
  | .lchown _ u g => u < 4294967296 ∧ g < 4294967296
  | _ => True

instance (op : Op) : Decidable (OpSmall op) := by
  cases op <;> unfold OpSmall <;> exact inferInstance

theorem unit_outS {x : M Unit} (h : PresS x T) : PresS (do x; pure OpOut.unit : M OpOut) T :=
  PresS.bind h (fun _ _ => PresS.pure trivial)

theorem exec_presS (hC : SmallCfg cfg) (op : Op) (hs : OpSmall op) : PresS (op.exec cfg) T := by
  cases op with
  | creat p d =>
    unfold Op.exec
    apply PresS.bind (create_presS hC p); intro h _
    apply PresS.bind (writeClose_presS hC h d); intro o _
    exact PresS.pure trivial
  | write p f pm d =>
    unfold Op.exec
    apply PresS.bind (openFile_presS hC p f pm); intro h _
    apply PresS.bind (writeClose_presS hC h d); intro o _
    exact PresS.pure trivial
  | mkdir p m => exact unit_outS (mkdir_presS hC p m)
  | mkdirAll p m => exact unit_outS (mkdirAll_presS hC p m)
  | remove p => exact unit_outS (remove_presS hC p)
  | removeAll p => exact unit_outS (removeAll_presS hC p)
  | rename o n => exact unit_outS (rename_presS hC o n)
  | symlink o n => exact unit_outS (symlink_presS hC o n)
  | chmod p m => exact unit_outS (chmod_presS hC p m)
  | chown p u g => exact unit_outS (chown_presS hC p hs.1 hs.2)
  | lchown p u g => exact unit_outS (lchown_presS hC p hs.1 hs.2)
  | chtimes p t => exact unit_outS (chtimes_presS hC p t t)
  | stat p =>
    unfold Op.exec BackupFS.stat
    apply PresS.bind (primInfo_presS hC .base (c := .stat p) trivial); intro _ _
    exact PresS.pure trivial
  | lstat p =>
    unfold Op.exec BackupFS.lstat
    apply PresS.bind (primInfo_presS hC .base (c := .lstat p) trivial); intro _ _
    exact PresS.pure trivial
  | readlink p =>
    unfold Op.exec BackupFS.readlink
    apply PresS.bind (primStr_presS hC .base (c := .readlink p) trivial); intro _ _
    exact PresS.pure trivial
  | force p => exact unit_outS (forceBackup_presS hC p)

theorem step_SI (hC : SmallCfg cfg) (w : World) (op : Op) (hs : OpSmall op) (hw : SI w) :
    SI (op.step cfg w) := (exec_presS hC op hs w hw).1

theorem runOps_SI (hC : SmallCfg cfg) : ∀ (ops : List Op) (w : World), (∀ op ∈ ops, OpSmall op) → SI w →
    SI (runOps cfg w ops)
  | [], _, _, hw => hw
  | op :: rest, w, hs, hw =>
    runOps_SI hC rest (op.step cfg w) (fun o ho => hs o (List.mem_cons_of_mem _ ho))
      (step_SI hC w op (hs op (List.mem_cons_self ..)) hw)

/-! ### Rollback -/

theorem forEachCollect_presS {α} {f : α → M Unit} (hf : ∀ x, PresS (f x) T) :
    ∀ xs : List α, PresS (forEachCollect f xs) T
  | [] => PresS.pure trivial
  | x :: xs => by
    unfold forEachCollect
    apply PresS.bind (PresS.attempt (hf x)); intro r _
    apply PresS.bind (forEachCollect_presS hf xs); intro rest _
    exact PresS.pure trivial

theorem ensureRoot_presS (hC : SmallCfg cfg) (p : Path) (i : Info) : PresS (ensureRoot cfg p i) T := by
  unfold ensureRoot
  apply PresS.bind (PresS.attempt (lexists_presS hC .base p)); intro r _
  cases r with
  | error e => exact PresS.pure trivial
  | ok o =>
    cases o with
    | some x => exact PresS.pure trivial
    | none =>
      apply PresS.bind (PresS.attempt (primUnit_presS hC .base (c := .mkdirAll p _) trivial)); intro r2 _
      cases r2 <;> exact PresS.pure trivial

theorem classify_presS (hC : SmallCfg cfg) : ∀ (l : List (Path × Option Info)) (pl : RollbackPlan),
    PresS (classify cfg l pl) T
  | [], _ => PresS.pure trivial
  | (p, none) :: rest, pl => by
    unfold classify
    apply PresS.bind (PresS.attempt (lexists_presS hC .base p)); intro r _
    cases r with
    | error e => exact classify_presS hC rest _
    | ok o =>
      cases o with
      | some x => exact classify_presS hC rest _
      | none => exact classify_presS hC rest _
  | (p, some i) :: rest, pl => by
    unfold classify
    apply PresS.ite
    · apply PresS.bind (ensureRoot_presS hC p i); intro f _
      exact classify_presS hC rest _
    cases i.kind <;> exact classify_presS hC rest _

theorem infoFor_small {infos : List (Path × Option Info)} (h : AllN NS infos) {p : Path} {i : Info}
    (hi : infoFor infos p = some i) : Smi i := by
  unfold infoFor at hi
  cases hl : infos.lookup p with
  | none => rw [hl] at hi; cases hi
  | some oi =>
    rw [hl] at hi
    simp only [Option.join] at hi
    subst hi
    exact h p i (mem_of_lookup hl)

theorem restoreDirAct_presS (hC : SmallCfg cfg) {infos : List (Path × Option Info)} (h : AllN NS infos)
    (p : Path) : PresS (restoreDirAct cfg infos p) T := by
  unfold restoreDirAct
  apply PresS.bind (lexists_presS hC .base p); intro cur _
  apply PresS.bind (PresS.whenM (primUnit_presS hC .base (c := .remove p) trivial)); intro _ _
  cases hi : infoFor infos p with
  | none => exact PresS.pure trivial
  | some i => exact copyDir_presS hC .base p (infoFor_small h hi)

theorem restoreFileAct_presS (hC : SmallCfg cfg) {infos : List (Path × Option Info)} (h : AllN NS infos)
    (p : Path) : PresS (restoreFileAct cfg infos p) T := by
  unfold restoreFileAct
  cases hi : infoFor infos p with
  | none => exact PresS.pure trivial
  | some i => exact restoreFile_presS hC p (infoFor_small h hi)

theorem restoreLinkAct_presS (hC : SmallCfg cfg) {infos : List (Path × Option Info)} (h : AllN NS infos)
    (p : Path) : PresS (restoreLinkAct cfg infos p) T := by
  unfold restoreLinkAct
  cases hi : infoFor infos p with
  | none => exact PresS.pure trivial
  | some i => exact restoreSymlink_presS hC p (infoFor_small h hi)

theorem cleanupAct_presS (hC : SmallCfg cfg) (p : Path) : PresS (cleanupAct cfg p) T := by
  unfold cleanupAct
  apply PresS.bind (lexists_presS hC .backup p); intro r _
  cases r with
  | none => exact PresS.pure trivial
  | some x => exact primUnit_presS hC .backup (c := .remove p) trivial

theorem removeBackupPaths_presS (hC : SmallCfg cfg) (paths : List Path) :
    PresS (removeBackupPaths cfg paths) T := by
  unfold removeBackupPaths
  exact forEachCollect_presS (fun p => cleanupAct_presS hC p) _

theorem getW_presS : PresS getW (fun w0 => AllN NS w0.infos) := by
  intro w hw
  refine ⟨hw, ?_⟩
  intro a ha
  have : (Except.ok w : Except Err World) = .ok a := ha
  cases this
  exact hw.2

theorem rollback_presS (hC : SmallCfg cfg) : PresS (rollback cfg) T := by
  unfold rollback
  apply PresS.bind getW_presS; intro w0 hinf
  simp only
  apply PresS.bind (classify_presS hC w0.infos {}); intro pl _
  apply PresS.bind (forEachCollect_presS (fun p => by
    unfold removeBaseAct; exact primUnit_presS hC .base (c := .remove p) trivial) _); intro e1 _
  apply PresS.bind (forEachCollect_presS (fun p => restoreDirAct_presS hC hinf p) _); intro e2 _
  apply PresS.bind (forEachCollect_presS (fun p => restoreFileAct_presS hC hinf p) _); intro e3 _
  apply PresS.bind (forEachCollect_presS (fun p => restoreLinkAct_presS hC hinf p) _); intro e4 _
  apply PresS.bind (removeBackupPaths_presS hC _); intro e5 _
  apply PresS.bind (removeBackupPaths_presS hC _); intro e6 _
  apply PresS.bind (removeBackupPaths_presS hC _); intro e7 _
  apply PresS.bind (Q := T)
  · intro w hw
    exact ⟨⟨hw.1, AllN.nil⟩, fun _ _ => trivial⟩
  · intro _ _
    exact PresS.pure trivial

theorem rollback_SD (hC : SmallCfg cfg) (w : World) (hw : SI w) : SD (rollback cfg w).1.fs :=
  ((rollback_presS hC w hw).1).1

end J12
end BFS
