import Generated.FlowFacts
/-!
# Decidable predicates over the data-flow skeleton regenerated from the Go sources

`Generated.flowFacts` lists, per method of the four layer types and in source order, the calls on
the receiver, on its `base`/`backup` filesystem, and the plain assignments.  The predicates below are
what the model of each layer takes for granted about how names FLOW through a method:

* BackupFS (`Model/BackupFS.lean`: every mutator is `realPath` → `tryBackup` → base call on the
  resolved name): every mutating base call is handed identifiers that were last bound by
  `realPath(<parameter>)` and passed to `tryBackup` between that binding and the call;
* PrefixFS / VolumeFS (`Model/Layers.lean`: `prefixPath` then the same call): every path argument
  of a base call was last bound by `prefixPath(<parameter>)`;
* HiddenFS (`Model/Layers.lean`: check, then delegate with unchanged arguments): every path argument
  of a base call is a parameter that is never re-bound and was checked by `isHidden` before.

They are evaluated by the kernel on the facts of the CURRENT sources in `Props/C02A.lean`,
`C16A.lean`, `C05A.lean`, `C06A.lean`, `C15A.lean`, `C18A.lean`.
-/
namespace Flow
open Generated

/-- the facts of one method, in source order -/
def ofMethod (fs : List FlowFact) (recv method : String) : List FlowFact :=
  fs.filter (fun f => f.recv == recv && f.method == method)

def paramsOf (ps : List (String × String × List String)) (recv method : String) : List String :=
  match ps.find? (fun p => p.1 == recv && p.2.1 == method) with
  | some p => p.2.2
  | none => []

/-- positions of the path arguments of a filesystem call (the link text of `Symlink` is not a path of
this filesystem and is treated separately) -/
def pathPos (callee : String) : List Nat :=
  if callee == "Rename" then [0, 1] else if callee == "Symlink" then [1] else [0]

def mutating (f : FlowFact) : Bool :=
  (["Create", "Mkdir", "MkdirAll", "Remove", "RemoveAll", "Rename", "Chmod", "Chown", "Chtimes", "Symlink", "Lchown"].contains f.callee)
    || (f.callee == "OpenFile" && f.args[1]? != some "os.O_RDONLY")

/-- does the fact bind identifier `v` (first result of a call, or the target of an assignment)? -/
def binds (f : FlowFact) (v : String) : Bool :=
  if f.target == "assign" then f.results == [v] else f.results.head? == some v

/-- the last fact of `before` (source order) that binds `v` -/
def lastBinding (before : List FlowFact) (v : String) : Option FlowFact :=
  (before.reverse.find? (fun f => binds f v))

/-- the facts after the last binding of `v` -/
def sinceBinding (before : List FlowFact) (v : String) : List FlowFact :=
  (before.reverse.takeWhile (fun f => !binds f v)).reverse

/-- walk a method's facts, handing `chk` every fact together with the facts before it -/
def allWithPrefix (chk : List FlowFact → FlowFact → Bool) : List FlowFact → List FlowFact → Bool
  | _, [] => true
  | before, f :: rest => chk before f && allWithPrefix chk (before ++ [f]) rest

/-! ### BackupFS -/

/-- `v` was last bound by `realPath(<a parameter>)` and went through `tryBackup` since -/
def resolvedAndBackedUp (params : List String) (before : List FlowFact) (v : String) : Bool :=
  match lastBinding before v with
  | some b => b.target == "self" && b.callee == "realPath" &&
      (match b.args with | [x] => params.contains x | _ => false) &&
      (sinceBinding before v).any (fun f => f.target == "self" && f.callee == "tryBackup" && f.args == [v])
  | none => false

/-- `v` was last bound by `realPath(<a parameter>)` -/
def resolved (params : List String) (before : List FlowFact) (v : String) : Bool :=
  match lastBinding before v with
  | some b => b.target == "self" && b.callee == "realPath" &&
      (match b.args with | [x] => params.contains x | _ => false)
  | none => false

def backupMethodOk (good : List String → List FlowFact → String → Bool)
    (fs : List FlowFact) (ps : List (String × String × List String)) (method : String) : Bool :=
  let params := paramsOf ps "BackupFS" method
  allWithPrefix (fun before f =>
    if f.target == "base" && mutating f then
      (pathPos f.callee).all (fun i => match f.args[i]? with | some v => good params before v | none => false)
    else true) [] (ofMethod fs "BackupFS" method)

/-- the methods of BackupFS that issue a mutating call on the base directly -/
def backupMutators : List String :=
  ["Create", "Mkdir", "MkdirAll", "OpenFile", "remove", "Rename", "Chmod", "Chown", "Chtimes", "Symlink", "Lchown"]

/-- the Rollback helpers act on tracked names, not on caller names -/
def rollbackHelpers : List String := ["tryRemoveBasePaths", "tryRestoreDirPaths", "tryRestoreSymlinkPaths", "tryRestoreFilePaths"]

/-- every mutating base call of every mutator gets resolved, backed-up names -/
def backupBeforeMutation (fs : List FlowFact) (ps : List (String × String × List String)) : Bool :=
  backupMutators.all (backupMethodOk resolvedAndBackedUp fs ps)

def mutatorsUseResolvedNames (fs : List FlowFact) (ps : List (String × String × List String)) : Bool :=
  backupMutators.all (backupMethodOk resolved fs ps)

/-- … and each of them does issue one (the predicate above is not vacuous) -/
def mutatorsMutate (fs : List FlowFact) : Bool :=
  backupMutators.all (fun m => (ofMethod fs "BackupFS" m).any (fun f => f.target == "base" && mutating f))

/-- no other method of BackupFS issues a mutating base call directly (but for the one `MkdirAll` of Rollback) -/
def noOtherBaseMutation (fs : List FlowFact) : Bool :=
  fs.all (fun f => !(f.recv == "BackupFS" && f.target == "base" && mutating f) ||
    backupMutators.contains f.method || rollbackHelpers.contains f.method ||
    -- Rollback itself re-creates a missing root directory (repair D28), nothing else
    (f.method == "Rollback" && f.callee == "MkdirAll"))

/-- nothing but `tryRemoveBackup` / the clean-up of Rollback removes from the backup directly -/
def backupRemovalsConfined (fs : List FlowFact) : Bool :=
  fs.all (fun f => !(f.recv == "BackupFS" && f.target == "backup" && mutating f) ||
    ["tryRemoveBackup", "tryRemoveBackupPaths"].contains f.method)

/-! ### PrefixFS / VolumeFS -/

def prefixedArg (params : List String) (before : List FlowFact) (v : String) : Bool :=
  match lastBinding before v with
  | some b => b.target == "self" && b.callee == "prefixPath" &&
      (match b.args with | [x] => params.contains x | _ => false)
  | none => false

/-- the link text handed to `base.Symlink`: every binding of it in the method is `prefixPath(oldname)`
(absolute targets) or the parameter itself, verbatim (relative targets) -/
def linkTextOk (params : List String) (all : List FlowFact) (v : String) : Bool :=
  match params.head? with
  | some old =>
    (all.filter (fun f => binds f v)).all (fun b =>
      (b.target == "self" && b.callee == "prefixPath" && b.args == [old]) ||
      (b.target == "assign" && b.args == [old])) &&
    (all.any (fun f => binds f v))
  | none => false

def prefixMethodOk (recv : String) (fs : List FlowFact) (ps : List (String × String × List String)) (method : String) : Bool :=
  let params := paramsOf ps recv method
  let all := ofMethod fs recv method
  allWithPrefix (fun before f =>
    if f.target == "base" then
      (pathPos f.callee).all (fun i => match f.args[i]? with | some v => prefixedArg params before v | none => false) &&
      (f.callee != "Symlink" || (match f.args[0]? with | some v => linkTextOk params all v | none => false))
    else true) [] all

def fsMethods : List String :=
  ["Create", "Mkdir", "MkdirAll", "Open", "OpenFile", "Remove", "RemoveAll", "Rename", "Stat", "Chmod", "Chown", "Chtimes",
   "Lstat", "Symlink", "Readlink", "Lchown"]

/-- every path handed to the base by a method of the re-rooting layer `recv` came out of `prefixPath` -/
def prefixedBeforeDelegation (recv : String) (fs : List FlowFact) (ps : List (String × String × List String)) : Bool :=
  fsMethods.all (prefixMethodOk recv fs ps) &&
  -- … and these are all the methods that reach the base
  fs.all (fun f => !(f.recv == recv && f.target == "base") || fsMethods.contains f.method) &&
  -- each of them has exactly one base call, of the same name
  fsMethods.all (fun m => ((ofMethod fs recv m).filter (fun f => f.target == "base")).map (·.callee) == [m])

/-! ### HiddenFS -/

def hiddenMethodOk (fs : List FlowFact) (ps : List (String × String × List String)) (method : String) : Bool :=
  let params := paramsOf ps "HiddenFS" method
  let all := ofMethod fs "HiddenFS" method
  allWithPrefix (fun before f =>
    if f.target == "base" then
      ((pathPos f.callee) ++ (if f.callee == "Symlink" then [0] else [])).all (fun i =>
        match f.args[i]? with
        | some v => params.contains v &&
            -- never re-bound, except by `filepath.FromSlash` of itself (the identity on Linux)
            !(all.any (fun g => g.target == "assign" && g.results == [v] && g.args != ["filepath.FromSlash(" ++ v ++ ")"])) &&
            before.any (fun g => g.target == "self" && g.callee == "isHidden" && g.args == [v])
        | none => false)
    else true) [] all

/-- the methods of HiddenFS that delegate one call with their own arguments -/
def hiddenDelegators : List String :=
  ["Mkdir", "MkdirAll", "OpenFile", "Remove", "Rename", "Stat", "Chmod", "Chown", "Chtimes", "Lstat", "Symlink", "Readlink", "Lchown"]

/-- `RemoveAll` walks: what it removes on the base directly was tested by `isParentOfHidden`/`isHidden` -/
def hiddenRemoveAllOk (fs : List FlowFact) : Bool :=
  allWithPrefix (fun before f =>
    if f.target == "base" then
      f.callee == "Remove" &&
      (match f.args with
       | [v] => before.any (fun g => g.target == "self" && (g.callee == "isParentOfHidden" || g.callee == "isHidden") && g.args == [v])
       | _ => false)
    else true) [] (ofMethod fs "HiddenFS" "RemoveAll")

def checkedBeforeDelegation (fs : List FlowFact) (ps : List (String × String × List String)) : Bool :=
  hiddenDelegators.all (hiddenMethodOk fs ps) && hiddenRemoveAllOk fs &&
  fs.all (fun f => !(f.recv == "HiddenFS" && f.target == "base") || hiddenDelegators.contains f.method || f.method == "RemoveAll") &&
  hiddenDelegators.all (fun m => ((ofMethod fs "HiddenFS" m).filter (fun f => f.target == "base")).map (·.callee) == [m])

/-- `Rename` additionally tests both names for being an ancestor of a hidden path (C11) -/
def renameChecksAncestors (fs : List FlowFact) : Bool :=
  let all := ofMethod fs "HiddenFS" "Rename"
  ["oldname", "newname"].all (fun v => all.any (fun g => g.target == "self" && g.callee == "isParentOfHidden" && g.args == [v])) &&
  paramsOf methodParams "HiddenFS" "Rename" == ["oldname", "newname"]

/-! ### the copy / restore helpers -/

def nth (l : List String) (i : Nat) : Option String := l[i]?

/-- while a backup is taken (`tryBackup`, `backupDirs`) the helpers that write are pointed at the
BACKUP filesystem, and nothing restores -/
def backupHelpersWriteBackupOnly (fs : List FlowFact) : Bool :=
  ["tryBackup", "backupDirs", "backupRequired"].all (fun m =>
    (ofMethod fs "BackupFS" m).all (fun f =>
      f.target != "pkg" ||
      (if f.callee == "copyDir" || f.callee == "copyFile" || f.callee == "writeFile" then nth f.args 0 == some "fsys.backup"
       else if f.callee == "copySymlink" then nth f.args 0 == some "fsys.base" && nth f.args 1 == some "fsys.backup"
       else !(["restoreFile", "restoreSymlink", "chown"].contains f.callee)))) &&
  -- … and `tryBackup` does copy: files, links and (through `backupDirs`) directories
  (ofMethod fs "BackupFS" "tryBackup").any (fun f => f.target == "pkg" && f.callee == "copyFile") &&
  (ofMethod fs "BackupFS" "tryBackup").any (fun f => f.target == "pkg" && f.callee == "copySymlink") &&
  (ofMethod fs "BackupFS" "backupDirs").any (fun f => f.target == "pkg" && f.callee == "copyDir")

/-- during Rollback the helpers that write are pointed at the BASE filesystem, reading from the backup -/
def restoreHelpersWriteBaseOnly (fs : List FlowFact) : Bool :=
  (["Rollback"] ++ rollbackHelpers).all (fun m =>
    (ofMethod fs "BackupFS" m).all (fun f =>
      f.target != "pkg" ||
      (if f.callee == "copyDir" then nth f.args 0 == some "fsys.base"
       else if f.callee == "restoreFile" || f.callee == "restoreSymlink" then nth f.args 2 == some "fsys.base" && nth f.args 3 == some "fsys.backup"
       else !(["copyFile", "copySymlink", "writeFile"].contains f.callee)))) &&
  (ofMethod fs "BackupFS" "tryRestoreFilePaths").any (fun f => f.target == "pkg" && f.callee == "restoreFile") &&
  (ofMethod fs "BackupFS" "tryRestoreSymlinkPaths").any (fun f => f.target == "pkg" && f.callee == "restoreSymlink") &&
  (ofMethod fs "BackupFS" "tryRestoreDirPaths").any (fun f => f.target == "pkg" && f.callee == "copyDir")

/-- the clean-up of Rollback deletes from the backup with `Remove` only, and `restoreSymlink` makes
room on the base with `Remove` only (no `RemoveAll`: foreign content survives) -/
def cleanupUsesRemoveOnly (fs : List FlowFact) : Bool :=
  (ofMethod fs "BackupFS" "tryRemoveBackupPaths").all (fun f => f.target != "backup" || !mutating f || f.callee == "Remove") &&
  (ofMethod fs "BackupFS" "tryRemoveBackupPaths").any (fun f => f.target == "backup" && f.callee == "Remove") &&
  (ofMethod fs "BackupFS" "tryRemoveBasePaths").all (fun f => f.target != "base" || !mutating f || f.callee == "Remove") &&
  (ofMethod fs "" "restoreSymlink").all (fun f => f.callee != "RemoveAll") &&
  (ofMethod fs "" "restoreSymlink").any (fun f => f.target == "param:base" && f.callee == "Remove")

def indexOf? (l : List FlowFact) (p : FlowFact → Bool) : Option Nat :=
  (l.findIdx? p)

/-- `copyFile`: content first, then the owner, then the mode (chown clears set-id bits), then times -/
def copyFileOwnerBeforeMode (fs : List FlowFact) : Bool :=
  let l := ofMethod fs "" "copyFile"
  match indexOf? l (fun f => f.target == "pkg" && f.callee == "writeFile"),
        indexOf? l (fun f => f.target == "pkg" && f.callee == "chown"),
        indexOf? l (fun f => f.target == "param:fs" && f.callee == "Chmod"),
        indexOf? l (fun f => f.target == "param:fs" && f.callee == "Chtimes") with
  | some w, some o, some m, some t => w < o && o < m && m < t
  | _, _, _, _ => false

end Flow
