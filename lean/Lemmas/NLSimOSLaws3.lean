import Lemmas.NLSimOSLaws2
/-!
  Lemmas/NLSimOSLaws3.lean — the laws of `NL.Sim` for the nested layering over disks with symlinks as
  leaves: `RemoveAll` (on the base side the program `HiddenFS.RemoveAll`, whose safety over trees with
  symlink leaves is Lemmas/NLHidRA.lean), `Rename`, `Symlink`.
-/
namespace BFS.NL
open N HiddenFS MFS

section
variable {bk hk dd : Key} {s : Side} {m m' : MFS} {k : Key}

/-- the inner filesystem as an `LSim` instance (roots `bk`, `dd`) -/
def RL (h : NRoots bk hk dd) : L.LSim (osCfg bk dd) := L.osSimL bk dd h.pb h.pd h.nb h.nd h.d1 h.d2

/-! ### `RemoveAll` -/

theorem nl_removeAll_frame {r : Except Err Ret} (h : NRoots bk hk dd) (hg : NLGood bk hk dd m) (hk' : PKey k)
    (hne : k ≠ []) (hna : NoLinkAnc (nlview bk hk s m) k)
    (he : ((nestedCfg bk hk).side s).call m (.removeAll (kp k)) = (m', r)) :
    NLGood bk hk dd m' ∧ nlview bk hk s.other m' = nlview bk hk s.other m ∧
      (∀ j, ¬ k <+: j → nlview bk hk s m' j = nlview bk hk s m j) ∧
      LinkMono (nlview bk hk s m) (nlview bk hk s m') := by
  cases s with
  | backup =>
    have hi := (fwd_removeAll_backup h hk').inv he
    obtain ⟨g1, _, f, lm⟩ := L.os_removeAll_frame h.r1 hg.os (h.ph.append hk') (by simp [hne])
      (nl_noLinkAnc (s := .backup) hg id hna) hi
    obtain ⟨a, b, c⟩ := transfer (s := .backup) hg g1 (KI := (hk ++ k <+: ·))
      (fun j hj => List.IsPrefix.trans (List.prefix_append _ _) hj)
      (fun _ => (L.os_removeAll_frame h.r2 hg.os2 hk' hne (nl_noLinkAnc2 hna) ((fwd2_removeAll h hk').eq hi)).1.bdir) f
    exact ⟨a, b, fun j hj => c j (fun e => hj ((List.prefix_append_right_inj _).mp e)), nl_linkMono lm .backup⟩
  | base =>
    rw [base_removeAll (dd := dd), rmName_kp hk'] at he
    obtain ⟨h1, _⟩ := Prod.mk.inj he
    change (hiddenRemoveAll (nhs hk) (inner bk dd) 64 m (kp k)).1 = m' at h1
    by_cases hh : hk <+: k
    · rw [hiddenRemoveAll_hidden (cfg := osCfg bk dd) (nhidKeys h) hk' 64 (hidK_iff.mpr hh)] at h1
      subst h1
      exact ⟨hg, rfl, fun _ _ => rfl, linkMono_refl _⟩
    · have hna' : L.NoLinkAnc ((RL h).view .base m) k := nl_noLinkAnc (s := .base) hg hh hna
      have hsafe := NLH.hiddenRemoveAll_safe (RL h) (nhidKeys h) hk' hne hg.os hna' 64
      change _ ∧ _ ∧ (∀ j, ¬ k <+: j → iv bk dd (hiddenRemoveAll (nhs hk) (inner bk dd) 64 m (kp k)).1 j = iv bk dd m j) ∧
        (∀ j, HidK [hk] j → iv bk dd (hiddenRemoveAll (nhs hk) (inner bk dd) 64 m (kp k)).1 j = iv bk dd m j) ∧ _ ∧
        L.LinkMono (iv bk dd m) (iv bk dd (hiddenRemoveAll (nhs hk) (inner bk dd) 64 m (kp k)).1) at hsafe
      rw [h1] at hsafe
      obtain ⟨g1, _, f1, f2, _, lm⟩ := hsafe
      refine ⟨⟨g1, eraseV_eq_dir (f2 hk (hidK_iff.mpr List.prefix_rfl)) hg.loc⟩, ?_, ?_, nl_linkMono lm .base⟩
      · funext x
        show nlview bk hk .backup m' x = nlview bk hk .backup m x
        rw [nlview_backup (dd := dd), nlview_backup (dd := dd), f2 (hk ++ x) (hidK_iff.mpr (List.prefix_append _ _))]
      · intro j hj
        by_cases hhj : hk <+: j
        · rw [nlview_base_hid hhj, nlview_base_hid hhj]
        · rw [nlview_base_vis (dd := dd) hhj, nlview_base_vis (dd := dd) hhj]
          exact f1 j hj

/-! ### `Rename` -/

/-- `rename(2)` on the OS touches nothing outside the two subtrees (disks with symlinks as leaves;
neither path is resolved through a symlink) -/
theorem rename_tree_specL {bk kk : Key} {m m' : MFS} (s : Side) {ko kn : Key} {r : Except Err Unit}
    (hr : Roots bk kk) (hg : L.OSGoodL bk kk m) (hko : PKey ko) (hkn : PKey kn)
    (hnlo : L.NoLinkProper m (osRoot bk kk s ++ ko)) (hnln : L.NoLinkProper m (osRoot bk kk s ++ kn))
    (h : m.rename (kp (osRoot bk kk s ++ ko)) (kp (osRoot bk kk s ++ kn)) = (m', r)) :
    ∀ K', ¬ osRoot bk kk s ++ ko <+: K' → ¬ osRoot bk kk s ++ kn <+: K' →
      (m'.get K').map eraseMt = (m.get K').map eraseMt := by
  have hsame : ∀ K', ¬ osRoot bk kk s ++ ko <+: K' → ¬ osRoot bk kk s ++ kn <+: K' →
      (m.get K').map eraseMt = (m.get K').map eraseMt := fun _ _ _ => rfl
  have hmove : ∀ P1 P2 K', ¬ osRoot bk kk s ++ ko <+: K' → ¬ osRoot bk kk s ++ kn <+: K' →
      ((((m.moveSubtree (osRoot bk kk s ++ ko) (osRoot bk kk s ++ kn)).touchDir P1).touchDir P2).get K').map eraseMt =
        (m.get K').map eraseMt := by
    intro P1 P2 K' h1 h2
    rw [touchDir_erase, touchDir_erase, moveSubtree_get_other m h2 h1]
  unfold MFS.rename at h
  simp only at h
  rcases L.namei_below_nf s hr hg hkn hnln with ⟨nn, hnn, hresn⟩ | ⟨hnen, mtn, hnn, hpn, hresn⟩ | ⟨en, hnen, hnn, hpn, hresn, hen⟩ <;>
  rcases L.namei_below_nf s hr hg hko hnlo with ⟨no, hno, hreso⟩ | ⟨hneo, mto, hno, hpo, hreso⟩ | ⟨eo, hneo, hno, hpo, hreso, heo⟩ <;>
  rw [hresn, hreso] at h <;> simp only at h
  · -- found, found
    cases nn
    case dir mt =>
      simp only at h
      have hc : ¬ (osRoot bk kk s ++ ko = osRoot bk kk s ++ kn ∧
          kp (osRoot bk kk s ++ ko) ≠ kp (osRoot bk kk s ++ kn)) := fun hc => hc.2 (congrArg kp hc.1)
      rw [if_neg hc] at h
      simp only at h; cases h; exact hsame
    all_goals
      simp only at h
      split at h
      · cases h; exact hsame
      split at h
      · cases h; exact hsame
      split at h
      · cases h; exact hsame
      split at h
      · cases h; exact hsame
      split at h
      · cases h; exact hsame
      cases h
      exact hmove _ _
  · cases nn <;> simp only at h <;> cases h <;> exact hsame
  · cases nn <;> simp only at h <;> cases h <;> exact hsame
  · -- missing, found
    simp only [dropLast_append_getLast' hnen] at h
    split at h
    · cases h; exact hsame
    cases h
    exact hmove _ _
  · cases h; exact hsame
  · cases h; exact hsame
  · cases h; exact hsame
  · cases h; exact hsame
  · cases h; exact hsame

/-- the same through the inner filesystem -/
theorem inner_rename_treeL {ko kn : Key} {r : Except Err Ret} (h : NRoots bk hk dd) (hg : L.OSGoodL bk dd m)
    (hko : PKey ko) (hkn : PKey kn)
    (hnao : L.NoLinkAnc (iv bk dd m) ko) (hnan : L.NoLinkAnc (iv bk dd m) kn)
    (hi : (inner bk dd).call m (.rename (kp ko) (kp kn)) = (m', r)) :
    ∀ j, ¬ ko <+: j → ¬ kn <+: j → iv bk dd m' j = iv bk dd m j := by
  obtain ⟨h1, _⟩ := unit_call_state (s := .base) (x := m.rename (kp (osRoot bk dd .base ++ ko)) (kp (osRoot bk dd .base ++ kn))) h.r1
    (tr_rename h.pb hko hkn) rfl hi
  intro j hj1 hj2
  exact L.map_eraseV_of_eraseMt _ (rename_tree_specL .base h.r1 hg hko hkn
    (L.noLinkProper_of_view hg hnao) (L.noLinkProper_of_view hg hnan) h1 (bk ++ j)
    (fun e => hj1 ((List.prefix_append_right_inj _).mp e)) (fun e => hj2 ((List.prefix_append_right_inj _).mp e)))

theorem nl_rename_frame {ko kn : Key} {r : Except Err Ret} (h : NRoots bk hk dd) (hg : NLGood bk hk dd m)
    (hko : PKey ko) (hkn : PKey kn)
    (hnao : NoLinkAnc (nlview bk hk s m) ko) (hnan : NoLinkAnc (nlview bk hk s m) kn)
    (he : ((nestedCfg bk hk).side s).call m (.rename (kp ko) (kp kn)) = (m', r)) :
    NLGood bk hk dd m' ∧ nlview bk hk s.other m' = nlview bk hk s.other m ∧
      (¬ ((nlview bk hk s m).isDirAt ko ∧ (nlview bk hk s m).hasChild ko) →
        (∀ j, j ≠ ko → j ≠ kn → nlview bk hk s m' j = nlview bk hk s m j) ∧
        (∀ t mt', nlview bk hk s m' ko = some (.link t mt') → ∃ mt, nlview bk hk s m ko = some (.link t mt)) ∧
        (∀ t mt', nlview bk hk s m' kn = some (.link t mt') →
          (∃ mt, nlview bk hk s m kn = some (.link t mt)) ∨ (∃ mt, nlview bk hk s m ko = some (.link t mt)))) ∧
      ((nlview bk hk s m).isDirAt kn → nlview bk hk s m' = nlview bk hk s m) := by
  by_cases hbad : NHid hk s ko ∨ NPar hk s ko ∨ NHid hk s kn ∨ NPar hk s kn
  · obtain ⟨e, hr⟩ := refused_rename h hko hkn hbad
    rw [hr m] at he; cases he
    exact ⟨hg, rfl, fun _ => ⟨fun _ _ _ => rfl, fun _ mt' hv => ⟨mt', hv⟩, fun _ mt' hv => Or.inl ⟨mt', hv⟩⟩, fun _ => rfl⟩
  · have hvo : ¬ NHid hk s ko := fun e => hbad (Or.inl e)
    have hpo : ¬ NPar hk s ko := fun e => hbad (Or.inr (Or.inl e))
    have hvn : ¬ NHid hk s kn := fun e => hbad (Or.inr (Or.inr (Or.inl e)))
    have hpn : ¬ NPar hk s kn := fun e => hbad (Or.inr (Or.inr (Or.inr e)))
    have hf := fwd_rename h hko hkn hvo hpo hvn hpn
    have hi := hf.inv he
    have hKo := pk_off h s hko
    have hKn := pk_off h s hkn
    have hnao' := nl_noLinkAnc hg hvo hnao
    have hnan' := nl_noLinkAnc hg hvn hnan
    obtain ⟨g1, _, f3, f4⟩ := L.os_rename_frame h.r1 hg.os hKo hKn hnao' hnan' hi
    have ftree := inner_rename_treeL h hg.os hKo hKn hnao' hnan' hi
    obtain ⟨a, b, _⟩ := transfer (s := s) hg g1 (KI := fun j => off hk s ++ ko <+: j ∨ off hk s ++ kn <+: j)
      (by
        intro j hj
        cases s with
        | base =>
          show ¬ hk <+: j
          rcases hj with hj | hj
          · exact below_vis (s := .base) hvo hpo hj
          · exact below_vis (s := .base) hvn hpn hj
        | backup =>
          show hk <+: j
          rcases hj with hj | hj <;> exact List.IsPrefix.trans (List.prefix_append _ _) hj)
      (fun hs => by
        subst hs
        exact (L.os_rename_frame h.r2 hg.os2 hko hkn (nl_noLinkAnc2 hnao) (nl_noLinkAnc2 hnan)
          ((fwd2_rename h hko hkn).eq hi)).1.bdir)
      (fun j hj => ftree j (fun e => hj (Or.inl e)) (fun e => hj (Or.inr e)))
    refine ⟨a, b, ?_, ?_⟩
    · intro hleaf
      have hleaf' : ¬ ((iv bk dd m).isDirAt (off hk s ++ ko) ∧ (iv bk dd m).hasChild (off hk s ++ ko)) := by
        rintro ⟨hd, hc⟩
        exact hleaf ⟨nl_isDirAt_of hvo hd, nl_hasChild hvo hpo hc⟩
      obtain ⟨fa, fb, fc⟩ := f3 hleaf'
      refine ⟨?_, ?_, ?_⟩
      · intro j hj1 hj2
        by_cases hhj : NHid hk s j
        · rw [n_hid_none hhj, n_hid_none hhj]
        · exact nl_congr hhj (fa _ (fun e => hj1 (List.append_cancel_left e)) (fun e => hj2 (List.append_cancel_left e)))
      · intro t mt' hv
        obtain ⟨_, t0, h0, ht⟩ := nl_link (dd := dd) hv
        obtain ⟨mt, h1⟩ := fb t0 mt' h0
        exact ⟨mt, by rw [nl_of_inner hvo h1, rl_link', ht]⟩
      · intro t mt' hv
        obtain ⟨_, t0, h0, ht⟩ := nl_link (dd := dd) hv
        rcases fc t0 mt' h0 with ⟨mt, h1⟩ | ⟨mt, h1⟩
        · exact Or.inl ⟨mt, by rw [nl_of_inner hvn h1, rl_link', ht]⟩
        · exact Or.inr ⟨mt, by rw [nl_of_inner hvo h1, rl_link', ht]⟩
    · intro hd
      have e := f4 (nl_isDirAt (dd := dd) hd).2
      funext j
      by_cases hhj : NHid hk s j
      · rw [n_hid_none hhj, n_hid_none hhj]
      · exact nl_congr hhj (congrFun e _)

/-! ### `Symlink` -/

/-- a nested call that returned a value was forwarded, and the inner call returned a value -/
theorem fwd_ok_inv {c ci : Call} {ret : Ret} (hf : Fwd bk hk dd s c ci)
    (he : ((nestedCfg bk hk).side s).call m c = (m', .ok ret)) :
    ∃ x, (inner bk dd).call m ci = (m', .ok x) := by
  obtain ⟨post, _, hc⟩ := hf
  rw [hc] at he
  obtain ⟨h1, h2⟩ := Prod.mk.inj he
  cases hx : ((inner bk dd).call m ci).2 with
  | error e => rw [hx] at h2; cases h2
  | ok x => exact ⟨x, Prod.ext h1 hx⟩

/-- `Symlink(t, kp k)` on a side is refused, or forwarded with the target `o'` the layer hands on -/
theorem symlink_cases (h : NRoots bk hk dd) (hk' : PKey k) (t : Path) :
    (∃ e, Refused bk hk s (.symlink t (kp k)) e) ∨
    (¬ NHid hk s k ∧ ∃ o', Fwd bk hk dd s (.symlink t (kp k)) (.symlink o' (kp (off hk s ++ k))) ∧
      (clean t = t → clean o' = o' ∧ rlt hk s o' = t)) := by
  cases s with
  | base =>
    cases hhid : isHidden (if isAbs t then t else join (dir (kp k)) t) (nhs hk) with
    | error e =>
      left
      refine refused_of (by intro n e; cases e) ⟨e, ?_⟩
      simp only [HiddenFS.translate, clean_kp hk', hguard, hhid, bind, Except.bind]
    | ok b =>
      cases b with
      | true =>
        left
        refine refused_of (by intro n e; cases e) ⟨.hiddenPerm, ?_⟩
        simp only [HiddenFS.translate, clean_kp hk', hguard, hhid, bind, Except.bind]
      | false =>
        by_cases hh : hk <+: k
        · left
          refine refused_of (by intro n e; cases e) ⟨.hiddenPerm, ?_⟩
          simp only [HiddenFS.translate, clean_kp hk', hguard_of_visible _ hhid, hguard_hid h hk' hh, bind, Except.bind]
        · right
          refine ⟨hh, t, ?_, fun hct => ⟨hct, rfl⟩⟩
          refine fwd_base h (by intro n e; cases e) ?_
          simp only [HiddenFS.translate, clean_kp hk', hguard_of_visible _ hhid, hguard_vis h hk' hh, bind, Except.bind, pure,
            Except.pure]
          rfl
  | backup =>
    rcases L.tr_symlink_cases h.ph hk' t with ⟨e, htr⟩ | ⟨o', htr, habs, hrel⟩
    · exact Or.inl ⟨e, fun _ => backup_call_err h htr⟩
    · right
      refine ⟨id, o', fwd_backup h htr, ?_⟩
      intro hct
      cases hab : isAbs t with
      | true =>
        rw [habs hab]
        refine ⟨join_clean_is_clean _ _ (kp_ne_nil _), ?_⟩
        show PrefixFS.readlinkPost (kp hk) (join (kp hk) (clean t)) = t
        rw [Props.C14.symlink_readlink_roundtrip_abs _ _ (isRooted_kp _) hab, hct]
      | false =>
        rw [hrel hab]
        refine ⟨hct, ?_⟩
        show PrefixFS.readlinkPost (kp hk) t = t
        rw [Props.C14.symlink_readlink_roundtrip_rel _ _ (isRooted_kp _) hab, hct]

/-- `symlink(2)` onto a live entry changes nothing -/
theorem symlink_existing {bk kk : Key} {m m' : MFS} (s : Side) {k : Key} {o : Path} {r : Except Err Unit} {n : Node}
    (hr : Roots bk kk) (hg : L.OSGoodL bk kk m) (hk : PKey k) (hnl : L.NoLinkProper m (osRoot bk kk s ++ k))
    (hlive : m.get (osRoot bk kk s ++ k) = some n)
    (h : m.symlink o (kp (osRoot bk kk s ++ k)) = (m', r)) : m' = m := by
  unfold MFS.symlink at h
  split at h
  · cases h; rfl
  rcases L.namei_below_nf s hr hg hk hnl with ⟨n', hn, hres⟩ | ⟨hne, mt, hn, hp, hres⟩ | ⟨e, hne, hn, hp, hres, he⟩
  · rw [hres] at h
    cases h; rfl
  · rw [hlive] at hn; cases hn
  · rw [hlive] at hn; cases hn

theorem nl_symlink_frame {t : Path} {r : Except Err Ret} (h : NRoots bk hk dd) (hg : NLGood bk hk dd m) (hk' : PKey k)
    (hna : NoLinkAnc (nlview bk hk s m) k)
    (he : ((nestedCfg bk hk).side s).call m (.symlink t (kp k)) = (m', r)) :
    NLGood bk hk dd m' ∧ nlview bk hk s.other m' = nlview bk hk s.other m ∧
      (∀ j, j ≠ k → nlview bk hk s m' j = nlview bk hk s m j) := by
  rcases symlink_cases (s := s) h hk' t with ⟨e, hr⟩ | ⟨hh, o', hf, _⟩
  · rw [hr m] at he; cases he
    exact ⟨hg, rfl, fun _ _ => rfl⟩
  · have hi := hf.inv he
    have hK := pk_off h s hk'
    have hna' := nl_noLinkAnc hg hh hna
    obtain ⟨g1, _, f⟩ := L.os_symlink_frame h.r1 hg.os hK hna' hi
    refine transfer1 hg g1 hh ?_ f
    intro hs
    subst hs
    by_cases hne : k = []
    · -- `Symlink(t, "/")` on the backup side names the location itself, which exists: nothing changes
      subst hne
      obtain ⟨mt, hloc⟩ := hg.loc
      rcases L.tr_symlink_cases h.pb hK o' with ⟨e, htr⟩ | ⟨o2, htr, _, _⟩
      · have : (inner bk dd).call m (.symlink o' (kp (off hk .backup ++ []))) = (m, .error e) :=
          L.side_call_err h.r1 .base m htr
        rw [this] at hi
        obtain ⟨h1, _⟩ := Prod.mk.inj hi
        rw [← h1]; exact ⟨mt, hloc⟩
      · obtain ⟨h1, _⟩ := unit_call_state (s := .base)
          (x := m.symlink o2 (kp (osRoot bk dd .base ++ (off hk .backup ++ [])))) h.r1 htr rfl hi
        have hlive : m.get (osRoot bk dd .base ++ (off hk .backup ++ [])) = some (.dir mt) := by
          show m.get (bk ++ (hk ++ [])) = _
          rw [List.append_nil]; exact hloc
        have := symlink_existing .base h.r1 hg.os hK (L.noLinkProper_of_view hg.os hna') hlive h1
        rw [this]; exact ⟨mt, hloc⟩
    · have : hk ≠ off hk .backup ++ k := by
        intro e
        have := congrArg List.length e
        simp [off] at this
        exact hne this
      exact eraseV_eq_dir (f hk this) hg.loc

theorem nl_symlink_post {t : Path} {ret : Ret} (h : NRoots bk hk dd) (hg : NLGood bk hk dd m) (hk' : PKey k)
    (hna : NoLinkAnc (nlview bk hk s m) k) (hct : clean t = t)
    (he : ((nestedCfg bk hk).side s).call m (.symlink t (kp k)) = (m', .ok ret)) :
    ∃ mt', nlview bk hk s m' k = some (.link t mt') := by
  rcases symlink_cases (s := s) h hk' t with ⟨e, hr⟩ | ⟨hh, o', hf, hpost⟩
  · exact (not_refused hr he).elim
  · obtain ⟨hco, hrt⟩ := hpost hct
    obtain ⟨x, hi⟩ := fwd_ok_inv hf he
    obtain ⟨mt', hv⟩ := L.os_symlink_post h.r1 hg.os (pk_off h s hk') (nl_noLinkAnc hg hh hna) hco hi
    exact ⟨mt', by rw [nl_of_inner hh hv, rl_link', hrt]⟩

theorem nl_symlink_ok {t : Path} (h : NRoots bk hk dd) (hg : NLGood bk hk dd m) (hk' : PKey k)
    (hct : clean t = t) (hok : NLLinkOK bk hk dd s k t) (hv : nlview bk hk s m k = none)
    (hp : (nlview bk hk s m).parentDir k) :
    ∃ m', ((nestedCfg bk hk).side s).call m (.symlink t (kp k)) = (m', .ok .unit) := by
  cases s with
  | base =>
    obtain ⟨hh, hhid, hlok⟩ := hok
    have hvis : ¬ NHid hk .base k := hh
    have hf : Fwd bk hk dd .base (.symlink t (kp k)) (.symlink t (kp k)) := by
      refine fwd_base h (by intro n e; cases e) ?_
      simp only [HiddenFS.translate, clean_kp hk', hguard_of_visible _ hhid, hguard_vis h hk' hh, bind, Except.bind, pure,
        Except.pure]
    obtain ⟨m1, hc⟩ := L.os_symlink_ok h.r1 hg.os hk' hct hlok (nl_none_vis (dd := dd) hvis hv)
      (nl_parentDir (s := .base) hvis hp)
    exact ⟨m1, hf.unit_of hc⟩
  | backup =>
    obtain ⟨hadm, hlok⟩ := hok
    have hvis : ¬ NHid hk .backup k := id
    have hK := pk_off h .backup hk'
    have hnone := nl_none_vis (dd := dd) hvis hv
    have hpar := nl_parentDir (dd := dd) hvis hp
    cases hab : isAbs t with
    | true =>
      rw [hab] at hlok
      simp only [if_true] at hlok
      have hf := fwd_backup (dd := dd) h (L.tr_symlink_abs h.ph hk' hab)
      obtain ⟨m1, hc⟩ := L.os_symlink_ok h.r1 hg.os hK (join_clean_is_clean _ _ (kp_ne_nil _)) hlok hnone hpar
      exact ⟨m1, hf.unit_of hc⟩
    | false =>
      rw [hab] at hlok hadm
      simp only [Bool.false_eq_true, if_false, false_or] at hlok hadm
      have hf := fwd_backup (dd := dd) h (L.tr_symlink_rel h.ph hk' hab hadm)
      obtain ⟨m1, hc⟩ := L.os_symlink_ok h.r1 hg.os hK hct hlok hnone hpar
      exact ⟨m1, hf.unit_of hc⟩

end
end BFS.NL
