import Lemmas.TNOps3
import Lemmas.TStep
/-!
  Lemmas/TNStep.lean — transparency of one operation other than `RemoveAll` in the nested layering,
  assembled from `Lemmas/TNOps*.lean` (`Lemmas/TStep.lean` for `nestedCfg`).
-/
namespace BFS.N
open BackupFS MFS

section
variable {bk hk dd : Key}

/-- a name whose key is neither at/below the location nor an ancestor of it -/
def ClearName (hk : Key) (p : Path) : Prop := ∀ k, PKey k → clean p = kp k → Clear hk k

/-- what the nested theorem needs of the next operation beyond `Op.AbsNames`: `Rename` and
`RemoveAll` name neither the location, nor anything below it, nor an ancestor of it.  (Every other
operation may name anything: at or below the location both sides are refused by the same guard.) -/
def AwayFromLoc (hk : Key) : Op → Prop
  | .rename o n => ClearName hk o ∧ ClearName hk n
  | .removeAll p => ClearName hk p
  | _ => True

/-- a regular file is a proper ancestor of the key the name denotes -/
def NameBelowFile (v : View) (p : Path) : Prop := ∃ k, PKey k ∧ clean p = kp k ∧ FileAnc v k

/-- where BackupFS may report `errDirInfoExpected` in place of ENOTDIR/ENOENT: a regular file is a
proper ancestor of a name of the operation (no claim for `RemoveAll`) -/
def FileAbove (v : View) : Op → Prop
  | .creat p _ | .write p _ _ _ | .mkdir p _ | .mkdirAll p _ | .remove p | .chmod p _ | .chown p _ _
  | .lchown p _ _ | .chtimes p _ => NameBelowFile v p
  | .rename o n => NameBelowFile v o ∨ NameBelowFile v n
  | .removeAll _ => True
  | _ => False

theorem op_transpN (h : NRoots bk hk dd) {v0 : View} {r0 : Option Node} {w : World} {op : Op}
    (hinv : InvB (nSim bk hk dd h) v0 r0 w) (hc : op.AbsNames) (haw : AwayFromLoc hk op) (hnra : ¬ op.isRemoveAll) :
    NTransp bk hk dd (FileAbove (nview bk hk .base w.fs) op) (Op.exec (nestedCfg bk hk) op w).1
      (Op.exec (nestedCfg bk hk) op w).2 (Op.direct (nbase bk hk) w.fs op) := by
  have key : Sat (Op.exec (nestedCfg bk hk) op) w
      (fun w' r => NTransp bk hk dd (FileAbove (nview bk hk .base w.fs) op) w' r (Op.direct (nbase bk hk) w.fs op)) := by
    cases op with
    | creat p d =>
      obtain ⟨k, hk', hname⟩ := clean_abs hc
      exact (creat_transpN h hinv hk' hname d).mono (fun _ _ ht => ht.mono (fun hfa => ⟨k, hk', hname, hfa⟩))
    | write p f pm d =>
      obtain ⟨k, hk', hname⟩ := clean_abs hc
      exact (write_transpN h hinv hk' hname f pm d).mono (fun _ _ ht => ht.mono (fun hfa => ⟨k, hk', hname, hfa⟩))
    | mkdir p m =>
      obtain ⟨k, hk', hname⟩ := clean_abs hc
      exact (mkdir_transpN h hinv hk' hname m).mono (fun _ _ ht => ht.mono (fun hfa => ⟨k, hk', hname, hfa⟩))
    | mkdirAll p m =>
      obtain ⟨k, hk', hname⟩ := clean_abs hc
      exact (mkdirAll_transpN h hinv hk' hname m).mono (fun _ _ ht => ht.mono (fun hfa => ⟨k, hk', hname, hfa⟩))
    | remove p =>
      obtain ⟨k, hk', hname⟩ := clean_abs hc.1
      have hne : k ≠ [] := by
        intro e; subst e; exact hc.2 hname
      exact (remove_transpN h hinv hk' hne hname).mono (fun _ _ ht => ht.mono (fun hfa => ⟨k, hk', hname, hfa⟩))
    | removeAll p => exact absurd trivial hnra
    | rename o n =>
      obtain ⟨ko, hko, ho⟩ := clean_abs hc.1
      obtain ⟨kn, hkn, hn⟩ := clean_abs hc.2
      exact (rename_transpN h hinv hko hkn (haw.1 ko hko ho) (haw.2 kn hkn hn) ho hn).mono (fun _ _ ht =>
        ht.mono (fun hfa => hfa.imp (fun x => ⟨ko, hko, ho, x⟩) (fun x => ⟨kn, hkn, hn, x⟩)))
    | symlink o n => exact absurd hc id
    | chmod p m =>
      obtain ⟨k, hk', hname⟩ := clean_abs hc
      exact (chmod_transpN h hinv hk' hname m).mono (fun _ _ ht => ht.mono (fun hfa => ⟨k, hk', hname, hfa⟩))
    | chown p u g =>
      obtain ⟨k, hk', hname⟩ := clean_abs hc
      exact (chown_transpN h hinv hk' hname u g).mono (fun _ _ ht => ht.mono (fun hfa => ⟨k, hk', hname, hfa⟩))
    | lchown p u g =>
      obtain ⟨k, hk', hname⟩ := clean_abs hc
      exact (lchown_transpN h hinv hk' hname u g).mono (fun _ _ ht => ht.mono (fun hfa => ⟨k, hk', hname, hfa⟩))
    | chtimes p t =>
      obtain ⟨k, hk', hname⟩ := clean_abs hc
      exact (chtimes_transpN h hinv hk' hname t).mono (fun _ _ ht => ht.mono (fun hfa => ⟨k, hk', hname, hfa⟩))
    | stat p => exact stat_transpN h hinv p
    | lstat p => exact lstat_transpN h hinv p
    | readlink p => exact readlink_transpN h hinv p
    | force p => exact absurd hc id
  exact key

/-! ### `ResAgreeN` and `NTwin` in plain words -/

theorem ResAgreeN.success_iff {P : Prop} {rx : Except Err OpOut} {rd : Except Err DOut} (h : ResAgreeN P rx rd) :
    (∃ a, rx = .ok a) ↔ (∃ b, rd = .ok b) := by
  cases rx <;> cases rd <;> simp_all [ResAgreeN]

theorem ResAgreeN.same_data {P : Prop} {rx : Except Err OpOut} {rd : Except Err DOut} (h : ResAgreeN P rx rd) {a : OpOut} {b : DOut}
    (ha : rx = .ok a) (hb : rd = .ok b) : DOut.noL a.data = DOut.noL b := by
  subst ha hb
  exact h

theorem ResAgreeN.error_class {P : Prop} {rx : Except Err OpOut} {rd : Except Err DOut} (h : ResAgreeN P rx rd) {e1 e2 : Err}
    (h1 : rx = .error e1) (h2 : rd = .error e2) : e1 = e2 ∨ (e1 = .typeMismatch ∧ e2.isNotFound = true ∧ P) := by
  subst h1 h2
  exact h

theorem NTwin.same_view {m1 m2 : MFS} (h : NTwin bk hk dd m1 m2) (k : Key) :
    nview bk hk .base m1 k = nview bk hk .base m2 k := by
  by_cases hv : hk <+: k
  · rw [nview_base_hid hv, nview_base_hid hv]
  · rw [nview_base_vis hv, nview_base_vis hv]
    exact h.eq.get k hv

end

end BFS.N
