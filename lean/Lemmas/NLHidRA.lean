import Lemmas.HiddenRA
import Lemmas.LSim
/-!
  Lemmas/NLHidRA.lean — `HiddenFS.RemoveAll` (`hiddenRemoveAll`) over an abstract filesystem pair
  `S : L.LSim cfg` (inner filesystem `cfg.side .base`) whose trees may hold **symlinks as leaves**:
  safety (part (A) of Lemmas/HiddenRA.lean re-proved over the contract with links in the views).

  Whatever the result and whatever the fuel, for an argument `kp k` none of whose proper ancestors is a
  symlink, the program changes the base view only at keys that are below the argument, not hidden,
  and not a directory leading to a hidden entry; it creates no symlink and changes no symlink's
  target (`LinkMono`).  The walk never follows a link: every path it hands to `Lstat`/`Open`/`Remove`
  is the argument or `join d name` for a `d` that `Lstat` reported as a directory, so no proper
  ancestor of it is a symlink — in the state the call is issued in, because symlinks only disappear.
-/
namespace BFS.NLH
open HiddenFS L

variable {cfg : Cfg}

/-! ### `LinkMono` bookkeeping -/

theorem linkMono_refl (v : View) : LinkMono v v := fun _ _ mt h => ⟨mt, h⟩

theorem linkMono_trans {a b c : View} (h1 : LinkMono a b) (h2 : LinkMono b c) : LinkMono a c := by
  intro j t mt' h
  obtain ⟨mt1, h'⟩ := h2 j t mt' h
  exact h1 j t mt1 h'

theorem isLinkAt_mono {v v' : View} (h : LinkMono v v') {j : Key} (hl : isLinkAt v' j) : isLinkAt v j := by
  obtain ⟨t, mt, ht⟩ := hl
  obtain ⟨mt0, h0⟩ := h j t mt ht
  exact ⟨t, mt0, h0⟩

theorem noLinkAnc_mono {v v' : View} (h : LinkMono v v') {j : Key} (hn : NoLinkAnc v j) : NoLinkAnc v' j :=
  fun a ha hne hl => hn a ha hne (isLinkAt_mono h hl)

theorem accF_mono {v v' : View} (h : LinkMono v v') {j : Key} (hn : AccF v j) : AccF v' j :=
  ⟨noLinkAnc_mono h hn.1, fun hl => hn.2 (isLinkAt_mono h hl)⟩

theorem noLinkAnc_snoc {v : View} {j : Key} {n : Name} (h : AccF v j) : NoLinkAnc v (j ++ [n]) := by
  intro a ha hne hl
  rcases List.prefix_concat_iff.mp ha with h1 | h1
  · exact hne h1
  · by_cases e : a = j
    · subst e; exact h.2 hl
    · exact h.1 a h1 e hl

theorem not_link_of_dir {v : View} {j : Key} {n : Node} (hv : v j = some n) (hd : n.isDir = true) : ¬ isLinkAt v j := by
  rintro ⟨t, mt, h⟩
  rw [hv] at h
  cases h
  cases hd

/-! ### frames -/

/-- `m'` is well-formed, its backup side is that of `m`, its base view differs from that of `m` only
at keys satisfying `T`, and no symlink appeared or changed its target -/
structure LFrame (S : LSim cfg) (T : Key → Prop) (m m' : MFS) : Prop where
  good : S.G m'
  other : S.view .backup m' = S.view .backup m
  same : ∀ j, ¬ T j → S.view .base m' j = S.view .base m j
  mono : LinkMono (S.view .base m) (S.view .base m')

theorem LFrame.refl {S : LSim cfg} {T : Key → Prop} {m : MFS} (hg : S.G m) : LFrame S T m m :=
  ⟨hg, rfl, fun _ _ => rfl, linkMono_refl _⟩

theorem LFrame.trans {S : LSim cfg} {T : Key → Prop} {a b c : MFS} (h1 : LFrame S T a b) (h2 : LFrame S T b c) :
    LFrame S T a c :=
  ⟨h2.good, h2.other.trans h1.other, fun j hj => (h2.same j hj).trans (h1.same j hj), linkMono_trans h1.mono h2.mono⟩

/-- one `Remove (kp j)` on the base side, `j` touchable and reached without traversing a symlink -/
theorem LFrame.remove {S : LSim cfg} {T : Key → Prop} {m m1 : MFS} {j : Key} {r : Except Err Ret}
    (hg : S.G m) (hj : PKey j) (hne : j ≠ []) (ht : T j) (hna : NoLinkAnc (S.view .base m) j)
    (hc : (cfg.side .base).call m (.remove (kp j)) = (m1, r)) : LFrame S T m m1 := by
  obtain ⟨hg1, ho1, hs1, hl1⟩ := S.remove_frame hg hj hne hna hc
  refine ⟨hg1, ho1, ?_, hl1⟩
  intro j' hj'
  apply hs1
  intro e; subst e; exact hj' ht

/-! ### the two accesses of `Walk` -/

theorem infoForL_isDir {i : Info} {n : Node} (h : InfoForL i n) : i.isDir = n.isDir := by
  unfold Info.isDir
  rw [h.1]
  cases n <;> simp [Node.kind, Node.isDir]

/-- a successful `Lstat (kp j)` describes the node at `j` -/
theorem lstat_info (S : LSim cfg) {s : Side} {m m1 : MFS} {j : Key} {i : Info} (hg : S.G m) (hj : PKey j)
    (hna : NoLinkAnc (S.view s m) j)
    (hc : (cfg.side s).call m (.lstat (kp j)) = (m1, .ok (.info i))) :
    ∃ n, S.view s m j = some n ∧ InfoForL i n := by
  cases hv : S.view s m j with
  | none =>
    obtain ⟨e, he, _⟩ := S.lstat_none hg hj hna hv
    rw [he] at hc; cases hc
  | some n =>
    obtain ⟨i', hi, hf⟩ := S.lstat_some hg hj hv
    rw [hi] at hc
    cases hc
    exact ⟨n, rfl, hf⟩

theorem fsiLstat_spec (S : LSim cfg) {m : MFS} {j : Key} (hg : S.G m) (hj : PKey j)
    (hna : NoLinkAnc (S.view .base m) j) :
    (fsiLstat (cfg.side .base) m (kp j)).1 = m ∧
      ∀ i, (fsiLstat (cfg.side .base) m (kp j)).2 = .ok i → ∃ n, S.view .base m j = some n ∧ InfoForL i n := by
  unfold fsiLstat
  cases hc : (cfg.side .base).call m (.lstat (kp j)) with
  | mk m1 r =>
    have hm : m1 = m := S.pure_lstat hc
    subst hm
    cases r with
    | error e => exact ⟨rfl, by intro i h; cases h⟩
    | ok ret =>
      cases ret with
      | info i => exact ⟨rfl, by intro i' h; cases h; exact lstat_info S hg hj hna hc⟩
      | unit => exact ⟨rfl, by intro i h; cases h⟩
      | str _ => exact ⟨rfl, by intro i h; cases h⟩
      | handle _ => exact ⟨rfl, by intro i h; cases h⟩

theorem fsiReadDirNames_spec (S : LSim cfg) {m : MFS} {j : Key} (hg : S.G m) (hj : PKey j)
    (hacc : AccF (S.view .base m) j) :
    (fsiReadDirNames (cfg.side .base) m (kp j)).1 = m ∧
      ∀ ns, (fsiReadDirNames (cfg.side .base) m (kp j)).2 = .ok ns → ∀ n ∈ ns, Plain n := by
  unfold fsiReadDirNames
  cases hc : (cfg.side .base).call m (.open_ (kp j)) with
  | mk m1 r =>
    have hm : m1 = m := S.pure_open hc
    subst hm
    cases r with
    | error e => exact ⟨rfl, by intro i h; cases h⟩
    | ok ret =>
      cases ret with
      | handle h =>
        simp only
        obtain ⟨hH, _⟩ := S.open_handle hg hj hacc hc
        cases hr : (cfg.side .base).hreaddirnames m1 h with
        | error e => exact ⟨rfl, by intro i h; cases h⟩
        | ok names =>
          refine ⟨rfl, ?_⟩
          intro ns hns
          cases hns
          intro n hn
          exact S.readdir_plain hg hH hr n ((sortBy_perm strLt names).mem_iff.mp hn)
      | unit => exact ⟨rfl, by intro i h; cases h⟩
      | str _ => exact ⟨rfl, by intro i h; cases h⟩
      | info _ => exact ⟨rfl, by intro i h; cases h⟩

/-! ### the walk function -/

/-- the collected directories: key paths below `k` that are not hidden and are reached without
traversing a symlink of the view `v` -/
def LDirsOK (v : View) (hks : List Key) (k : Key) (a : List Path) : Prop :=
  ∀ p ∈ a, ∃ j, PKey j ∧ k <+: j ∧ ¬ HidK hks j ∧ NoLinkAnc v j ∧ p = kp j

theorem LDirsOK.mono {v v' : View} {hks : List Key} {k : Key} {a : List Path} (h : LDirsOK v hks k a)
    (hl : LinkMono v v') : LDirsOK v' hks k a := by
  intro p hp
  obtain ⟨j, h1, h2, h3, h4, h5⟩ := h p hp
  exact ⟨j, h1, h2, h3, noLinkAnc_mono hl h4, h5⟩

/-- state of the walk -/
structure WSt (S : LSim cfg) (hks : List Key) (k : Key) (m0 m : MFS) (a : List Path) : Prop where
  frame : LFrame S (Touch hks (S.view .base m0) k) m0 m
  dirs : LDirsOK (S.view .base m) hks k a

/-- what a step of the walk establishes: the walk state again, and from the state it started in no
symlink appeared -/
def WOut (S : LSim cfg) (hks : List Key) (k : Key) (m0 m : MFS) (res : (MFS × List Path) × Option Err) : Prop :=
  WSt S hks k m0 res.1.1 res.1.2 ∧ LinkMono (S.view .base m) (S.view .base res.1.1)

section
variable {S : LSim cfg} {hs : List Path} {hks : List Key} {k : Key} {m0 : MFS}

theorem WOut.same {m : MFS} {a : List Path} {oe : Option Err} (h : WSt S hks k m0 m a) :
    WOut S hks k m0 m ((m, a), oe) := ⟨h, linkMono_refl _⟩

/-- a non-hidden key below `k` whose current node is not a directory is touchable -/
theorem touch_of_nondir {m : MFS} {a : List Path} {j : Key} {n : Node} (h : WSt S hks k m0 m a)
    (hkj : k <+: j) (hh : ¬ HidK hks j) (hv : S.view .base m j = some n) (hn : n.isDir = false) :
    Touch hks (S.view .base m0) k j := by
  refine ⟨hkj, hh, ?_⟩
  intro ⟨hp, mt, hd⟩
  by_cases ht : Touch hks (S.view .base m0) k j
  · exact ht.2.2 ⟨hp, mt, hd⟩
  · have := h.frame.same j ht
    rw [hv, hd] at this
    cases this
    cases hn

theorem hiddenRemoveFn_safe (H : HidKeys hs hks) (hne : k ≠ []) {m : MFS} {a : List Path} {j : Key}
    {info : Option Info} {err : Option Err} (h : WSt S hks k m0 m a) (hj : PKey j) (hkj : k <+: j)
    (hna : NoLinkAnc (S.view .base m) j)
    (hinfo : ∀ i, info = some i → ∃ n, S.view .base m j = some n ∧ InfoForL i n) :
    WOut S hks k m0 m (hiddenRemoveFn hs (cfg.side .base) m a (kp j) info err) := by
  unfold hiddenRemoveFn
  cases err with
  | some e => exact WOut.same h
  | none =>
    simp only [isHidden_kp H hj]
    by_cases hh : HidK hks j
    · simp only [hh, decide_true]; exact WOut.same h
    · simp only [hh, decide_false]
      cases info with
      | none => exact WOut.same h
      | some i =>
        simp only
        obtain ⟨n, hv, hf⟩ := hinfo i rfl
        cases hd : i.isDir with
        | true =>
          simp only [if_true]
          refine ⟨⟨h.frame, ?_⟩, linkMono_refl _⟩
          intro p hp
          rcases List.mem_append.mp hp with hp | hp
          · exact h.dirs p hp
          · simp only [List.mem_singleton] at hp
            exact ⟨j, hj, hkj, hh, hna, hp⟩
        | false =>
          simp only [Bool.false_eq_true, if_false]
          have hvis : isHidden (kp j) hs = .ok false := by rw [isHidden_kp H hj]; simp [hh]
          rw [translate_remove_visible hvis]
          simp only
          have ht : Touch hks (S.view .base m0) k j :=
            touch_of_nondir h hkj hh hv (by rw [← infoForL_isDir hf]; exact hd)
          cases hc : (cfg.side .base).call m (.remove (kp j)) with
          | mk m1 r =>
            have hfr := LFrame.remove (S := S) h.frame.good hj (ne_nil_of_prefix hne hkj) ht hna hc
            have hw : WSt S hks k m0 m1 a := ⟨h.frame.trans hfr, h.dirs.mono hfr.mono⟩
            cases r <;> exact ⟨hw, hfr.mono⟩

/-! ### the walk -/

def WalkRecSafe (S : LSim cfg) (hs : List Path) (hks : List Key) (k : Key) (m0 : MFS) (fuel : Nat) : Prop :=
  ∀ (m : MFS) (a : List Path) (j : Key) (info : Info), WSt S hks k m0 m a → PKey j → k <+: j →
    NoLinkAnc (S.view .base m) j →
    (∃ n, S.view .base m j = some n ∧ InfoForL info n) →
    WOut S hks k m0 m
      (walkRec (fsiWalkOps (cfg.side .base)) (hiddenRemoveFn hs (cfg.side .base)) fuel m a (kp j) info)

def WalkNamesSafe (S : LSim cfg) (hs : List Path) (hks : List Key) (k : Key) (m0 : MFS) (fuel : Nat) : Prop :=
  ∀ (names : List Name) (m : MFS) (a : List Path) (j : Key), (∀ n ∈ names, Plain n) →
    WSt S hks k m0 m a → PKey j → k <+: j → AccF (S.view .base m) j →
    WOut S hks k m0 m
      (walkNames (fsiWalkOps (cfg.side .base)) (hiddenRemoveFn hs (cfg.side .base)) fuel m a (kp j) names)

theorem WOut.chain {m m1 : MFS} {res : (MFS × List Path) × Option Err}
    (hl : LinkMono (S.view .base m) (S.view .base m1)) (h : WOut S hks k m0 m1 res) : WOut S hks k m0 m res :=
  ⟨h.1, linkMono_trans hl h.2⟩

theorem walkNamesSafe_of_rec {fuel : Nat}
    (hrec : WalkRecSafe S hs hks k m0 fuel) : WalkNamesSafe S hs hks k m0 fuel := by
  intro names
  induction names with
  | nil =>
    intro m a j _ h _ _ _
    rw [walkNames]
    exact WOut.same h
  | cons n rest ih =>
    intro m a j hpl h hj hkj hacc
    have hn : Plain n := hpl n (by simp)
    have hrest : ∀ x ∈ rest, Plain x := fun x hx => hpl x (List.mem_cons_of_mem _ hx)
    have hj' : PKey (j ++ [n]) := hj.snoc hn
    have hkj' : k <+: j ++ [n] := hkj.trans (List.prefix_append _ _)
    have hna' : NoLinkAnc (S.view .base m) (j ++ [n]) := noLinkAnc_snoc hacc
    rw [walkNames]
    simp only [join_kp hj hn]
    have hl := fsiLstat_spec S (j := j ++ [n]) h.frame.good hj' hna'
    cases hls : (fsiWalkOps (cfg.side .base)).lstat m (kp (j ++ [n])) with
    | mk m1 r1 =>
      rw [show fsiLstat (cfg.side .base) m (kp (j ++ [n])) = (m1, r1) from hls] at hl
      obtain ⟨hm, hi⟩ := hl
      simp only at hm hi
      subst hm
      cases r1 with
      | error e =>
        simp only [hiddenRemoveFn_err]
        exact WOut.same h
      | ok fi =>
        simp only
        have hr := hrec m1 a (j ++ [n]) fi h hj' hkj' hna' (hi fi rfl)
        cases hw : walkRec (fsiWalkOps (cfg.side .base)) (hiddenRemoveFn hs (cfg.side .base)) fuel m1 a (kp (j ++ [n])) fi with
        | mk sa oe =>
          rw [hw] at hr
          obtain ⟨s2, a2⟩ := sa
          cases oe with
          | some e' => exact hr
          | none => exact (ih s2 a2 j hrest hr.1 hj hkj (accF_mono hr.2 hacc)).chain hr.2

theorem walk_safe (H : HidKeys hs hks) (hne : k ≠ []) :
    ∀ fuel, WalkRecSafe S hs hks k m0 fuel ∧ WalkNamesSafe S hs hks k m0 fuel
  | 0 => by
    have hrec : WalkRecSafe S hs hks k m0 0 := by
      intro m a j info h _ _ _ _
      rw [walkRec]
      exact WOut.same h
    exact ⟨hrec, walkNamesSafe_of_rec hrec⟩
  | fuel + 1 => by
    have ih := (walk_safe H hne fuel).2
    have hrec : WalkRecSafe S hs hks k m0 (fuel + 1) := by
      intro m a j info h hj hkj hna hinfo
      rw [walkRec]
      have hfn := hiddenRemoveFn_safe (info := some info) (err := none) H hne h hj hkj hna
        (by intro i hi; cases hi; exact hinfo)
      cases hf : hiddenRemoveFn hs (cfg.side .base) m a (kp j) (some info) none with
      | mk sa oe =>
        rw [hf] at hfn
        obtain ⟨s1, a1⟩ := sa
        cases oe with
        | some e => exact hfn
        | none =>
          simp only
          split
          · exact hfn
          · rename_i hdir
            have hisdir : info.isDir = true := by
              cases hd : info.isDir with
              | true => rfl
              | false => rw [hd] at hdir; exact absurd rfl hdir
            obtain ⟨n, hv, hfor⟩ := hinfo
            have hacc : AccF (S.view .base m) j :=
              ⟨hna, not_link_of_dir hv (by rw [← infoForL_isDir hfor]; exact hisdir)⟩
            have hacc1 : AccF (S.view .base s1) j := accF_mono hfn.2 hacc
            have hrd := fsiReadDirNames_spec S (j := j) hfn.1.frame.good hj hacc1
            cases hr : (fsiWalkOps (cfg.side .base)).readDirNames s1 (kp j) with
            | mk s2 r2 =>
              rw [show fsiReadDirNames (cfg.side .base) s1 (kp j) = (s2, r2) from hr] at hrd
              obtain ⟨hm, hpl⟩ := hrd
              simp only at hm hpl
              subst hm
              cases r2 with
              | error e => simp only [hiddenRemoveFn_err]; exact hfn
              | ok names => exact (ih names s2 a1 j (hpl names rfl) hfn.1 hj hkj hacc1).chain hfn.2
    exact ⟨hrec, walkNamesSafe_of_rec hrec⟩

theorem walkTree_safe (H : HidKeys hs hks) (hne : k ≠ []) {m : MFS} (fuel : Nat)
    (h : WSt S hks k m0 m []) (hk : PKey k) (hna : NoLinkAnc (S.view .base m) k) :
    WOut S hks k m0 m
      (walkTree (fsiWalkOps (cfg.side .base)) (hiddenRemoveFn hs (cfg.side .base)) fuel m [] (kp k)) := by
  unfold walkTree
  have hl := fsiLstat_spec S (j := k) h.frame.good hk hna
  cases hls : (fsiWalkOps (cfg.side .base)).lstat m (kp k) with
  | mk m1 r1 =>
    rw [show fsiLstat (cfg.side .base) m (kp k) = (m1, r1) from hls] at hl
    obtain ⟨hm, hi⟩ := hl
    simp only at hm hi
    subst hm
    cases r1 with
    | error e => simp only [hiddenRemoveFn_err]; exact WOut.same h
    | ok info => exact (walk_safe H hne fuel).1 m1 [] k info h hk (List.prefix_refl _) hna (hi info rfl)

/-! ### removing the collected directories -/

theorem hiddenRemoveDirs_safe (H : HidKeys hs hks) (hne : k ≠ []) :
    ∀ (ds : List Path) (m : MFS), LFrame S (Touch hks (S.view .base m0) k) m0 m →
      LDirsOK (S.view .base m) hks k ds →
      LFrame S (Touch hks (S.view .base m0) k) m0 (hiddenRemoveDirs hs (cfg.side .base) m ds).1
  | [], m, h, _ => by
    rw [hiddenRemoveDirs]
    exact h
  | d :: ds, m, h, hd => by
    obtain ⟨j, hj, hkj, hh, hna, rfl⟩ := hd d (by simp)
    have hds : LDirsOK (S.view .base m) hks k ds := fun p hp => hd p (List.mem_cons_of_mem _ hp)
    rw [hiddenRemoveDirs]
    simp only [isParentOfHidden_kp H hj]
    by_cases hp : ParK hks j
    · simp only [hp, decide_true]
      exact hiddenRemoveDirs_safe H hne ds m h hds
    · simp only [hp, decide_false]
      have ht : Touch hks (S.view .base m0) k j := ⟨hkj, hh, fun hc => hp hc.1⟩
      cases hc : (cfg.side .base).call m (.remove (kp j)) with
      | mk m1 r =>
        have hfr1 := LFrame.remove (S := S) h.good hj (ne_nil_of_prefix hne hkj) ht hna hc
        have hfr := h.trans hfr1
        cases r with
        | error e => exact hfr
        | ok _ => exact hiddenRemoveDirs_safe H hne ds m1 hfr (hds.mono hfr1.mono)

theorem ldirsOK_sortMost {v : View} {a : List Path} (h : LDirsOK v hks k a) : LDirsOK v hks k (sortMost a) :=
  fun p hp => h p ((sortBy_perm _ a).mem_iff.mp hp)

/-! ### `HiddenFS.RemoveAll` -/

theorem hiddenRemoveAll_frame (H : HidKeys hs hks) {m : MFS} (hk : PKey k) (hne : k ≠ []) (hg : S.G m)
    (hna : NoLinkAnc (S.view .base m) k) (fuel : Nat) :
    LFrame S (Touch hks (S.view .base m) k) m (hiddenRemoveAll hs (cfg.side .base) fuel m (kp k)).1 := by
  unfold hiddenRemoveAll
  have h0 : WSt S hks k m m [] := ⟨LFrame.refl hg, by intro p hp; cases hp⟩
  by_cases hh : HidK hks k
  · have : isHidden (kp k) hs = .ok true := by rw [isHidden_kp H hk]; simp [hh]
    rw [hguard_of_hidden _ this]
    exact h0.frame
  · have hvis : isHidden (kp k) hs = .ok false := by rw [isHidden_kp H hk]; simp [hh]
    rw [hguard_of_visible _ hvis]
    simp only
    cases hc : (cfg.side .base).call m (.lstat (kp k)) with
    | mk m1 r =>
      have hm : m1 = m := S.pure_lstat hc
      subst hm
      cases r with
      | error e => simp only; split <;> exact h0.frame
      | ok ret =>
        cases ret with
        | unit => exact h0.frame
        | str _ => exact h0.frame
        | handle _ => exact h0.frame
        | info fi =>
          simp only
          obtain ⟨n, hv, hf⟩ := lstat_info S hg hk hna hc
          cases hd : fi.isDir with
          | false =>
            simp only [Bool.not_false, if_true]
            have ht : Touch hks (S.view .base m1) k k :=
              touch_of_nondir h0 (List.prefix_refl _) hh hv (by rw [← infoForL_isDir hf]; exact hd)
            cases hc2 : (cfg.side .base).call m1 (.remove (kp k)) with
            | mk m2 r2 =>
              have hfr := LFrame.remove (S := S) hg hk hne ht hna hc2
              cases r2 <;> exact hfr
          | true =>
            simp only [Bool.not_true, Bool.false_eq_true, if_false]
            have hw := walkTree_safe H hne fuel h0 hk hna
            cases hx : walkTree (fsiWalkOps (cfg.side .base)) (hiddenRemoveFn hs (cfg.side .base)) fuel m1 [] (kp k) with
            | mk sa oe =>
              rw [hx] at hw
              obtain ⟨s2, a2⟩ := sa
              cases oe with
              | some e => exact hw.1.frame
              | none => exact hiddenRemoveDirs_safe H hne (sortMost a2) s2 hw.1.frame (ldirsOK_sortMost hw.1.dirs)

/-- (A) safety of `HiddenFS.RemoveAll` over trees with symlinks as leaves, whatever it returns and
whatever the fuel: the result is a well-formed disk, the other filesystem is untouched, nothing outside
the subtree is touched, hidden entries and everything below them are untouched, so is every directory
leading to a hidden entry, and no symlink appeared or changed its target. -/
theorem hiddenRemoveAll_safe (S : LSim cfg) {hs : List Path} {hks : List Key} (H : HidKeys hs hks)
    {k : Key} (hk : PKey k) (hne : k ≠ []) {m : MFS} (hg : S.G m) (hna : NoLinkAnc (S.view .base m) k)
    (fuel : Nat) :
    S.G (hiddenRemoveAll hs (cfg.side .base) fuel m (kp k)).1 ∧
    S.view .backup (hiddenRemoveAll hs (cfg.side .base) fuel m (kp k)).1 = S.view .backup m ∧
    (∀ j, ¬ k <+: j →
      S.view .base (hiddenRemoveAll hs (cfg.side .base) fuel m (kp k)).1 j = S.view .base m j) ∧
    (∀ j, HidK hks j →
      S.view .base (hiddenRemoveAll hs (cfg.side .base) fuel m (kp k)).1 j = S.view .base m j) ∧
    (∀ j, ParK hks j → (S.view .base m).isDirAt j →
      S.view .base (hiddenRemoveAll hs (cfg.side .base) fuel m (kp k)).1 j = S.view .base m j) ∧
    LinkMono (S.view .base m) (S.view .base (hiddenRemoveAll hs (cfg.side .base) fuel m (kp k)).1) := by
  have hf := hiddenRemoveAll_frame (S := S) H hk hne hg hna fuel
  refine ⟨hf.good, hf.other, ?_, ?_, ?_, hf.mono⟩
  · intro j hj; exact hf.same j (fun ht => hj ht.1)
  · intro j hj; exact hf.same j (fun ht => ht.2.1 hj)
  · intro j hp hd; exact hf.same j (fun ht => ht.2.2 ⟨hp, hd⟩)

end

end BFS.NLH
