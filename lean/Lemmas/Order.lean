import Model.Path
/-! Order lemmas for `strLt` and `lessFPS`. -/
namespace BFS

theorem char_eq_of_toNat_eq {a b : Char} (h : a.toNat = b.toNat) : a = b := by
  apply Char.ext
  apply UInt32.toNat_inj.mp
  exact h

theorem strLt_irrefl : ∀ a : Path, strLt a a = false
  | [] => rfl
  | a :: as => by simp [strLt, strLt_irrefl as]

theorem strLt_trans : ∀ {a b c : Path}, strLt a b = true → strLt b c = true → strLt a c = true
  | [], [], _, h, _ => by simp [strLt] at h
  | [], _ :: _, [], _, h => by simp [strLt] at h
  | [], _ :: _, _ :: _, _, _ => by simp [strLt]
  | _ :: _, [], _, h, _ => by simp [strLt] at h
  | _ :: _, _ :: _, [], _, h => by simp [strLt] at h
  | a :: as, b :: bs, c :: cs, h1, h2 => by
    simp only [strLt] at h1 h2 ⊢
    split at h1
    · split at h2
      · have : a.toNat < c.toNat := by omega
        simp [this]
      · split at h2
        · simp at h2
        · have : a.toNat < c.toNat := by omega
          simp [this]
    · split at h1
      · simp at h1
      · split at h2
        · have : a.toNat < c.toNat := by omega
          simp [this]
        · split at h2
          · simp at h2
          · have h3 : ¬ a.toNat < c.toNat := by omega
            have h4 : ¬ c.toNat < a.toNat := by omega
            simp [h3, h4]
            exact strLt_trans h1 h2

theorem strLt_total : ∀ {a b : Path}, a ≠ b → strLt a b = true ∨ strLt b a = true
  | [], [], h => by simp at h
  | [], _ :: _, _ => by simp [strLt]
  | _ :: _, [], _ => by simp [strLt]
  | a :: as, b :: bs, h => by
    simp only [strLt]
    by_cases h1 : a.toNat < b.toNat
    · simp [h1]
    · by_cases h2 : b.toNat < a.toNat
      · simp [h2]
      · have hab : a = b := char_eq_of_toNat_eq (by omega)
        subst hab
        simp [h1]
        apply strLt_total
        intro e; apply h; rw [e]

theorem strLt_asymm {a b : Path} (h : strLt a b = true) : strLt b a = false := by
  cases hba : strLt b a with
  | false => rfl
  | true =>
    have := strLt_trans h hba
    rw [strLt_irrefl] at this
    cases this

/-- `lessFPS` is the lexicographic order on the key `(sepKey a, a)`. -/
theorem lessFPS_irrefl (a : Path) : lessFPS a a = false := by
  simp [lessFPS, strLt_irrefl]

theorem lessFPS_trans {a b c : Path} (h1 : lessFPS a b = true) (h2 : lessFPS b c = true) :
    lessFPS a c = true := by
  unfold lessFPS at *
  split at h1
  · split at h2
    · have : sepKey a = sepKey c := by omega
      simp [this]; exact strLt_trans h1 h2
    · have hlt : sepKey b < sepKey c := by simpa using h2
      have : sepKey a ≠ sepKey c := by omega
      simp [this]; omega
  · have hlt1 : sepKey a < sepKey b := by simpa using h1
    split at h2
    · have : sepKey a ≠ sepKey c := by omega
      simp [this]; omega
    · have hlt : sepKey b < sepKey c := by simpa using h2
      have : sepKey a ≠ sepKey c := by omega
      simp [this]; omega

theorem lessFPS_total {a b : Path} (h : a ≠ b) : lessFPS a b = true ∨ lessFPS b a = true := by
  unfold lessFPS
  by_cases hk : sepKey a = sepKey b
  · simp [hk]; exact strLt_total h
  · have hk' : sepKey b ≠ sepKey a := fun e => hk e.symm
    simp [hk, hk']; omega

theorem lessFPS_asymm {a b : Path} (h : lessFPS a b = true) : lessFPS b a = false := by
  cases hba : lessFPS b a with
  | false => rfl
  | true =>
    have := lessFPS_trans h hba
    rw [lessFPS_irrefl] at this
    cases this

end BFS
