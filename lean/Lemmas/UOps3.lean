import Lemmas.UOps2
/-!
  Lemmas/UOps3.lean — transparency through flat symlinks (C03): Create / OpenFile with the writes
  through the handle (following unless `O_CREATE|O_EXCL`: the resolved key is not a symlink), and the
  read-only operations (which BackupFS forwards unchanged).
-/
namespace BFS
namespace U
open BackupFS MFS F16

section
variable {bk kk : Key}

/-- an opening call on the two disks (direct: `m1`, `c1`; through BackupFS: `m2`, `c2`): the same error,
or handles equal up to the reported name on a key at or below the base root; related disks -/
def OpenRel (bk kk : Key) (m1 m2 : MFS) (c1 c2 : Call) : Prop :=
  ((∃ e, ((baseFS bk kk).call m1 c1).2 = .error e ∧ ((baseFS bk kk).call m2 c2).2 = .error e) ∨
   (∃ h1 h2, ((baseFS bk kk).call m1 c1).2 = .ok (.handle h1) ∧ ((baseFS bk kk).call m2 c2).2 = .ok (.handle h2) ∧
      hcore h1 = hcore h2 ∧ bk <+: h1.key)) ∧
  UEq bk ((baseFS bk kk).call m1 c1).1 ((baseFS bk kk).call m2 c2).1

theorem openRel_of_sys {c : Path → Call} {flag perm : Nat}
    (hside : ∀ m j, PKey j → (baseFS bk kk).call m (c (kp j)) =
      ((m.openFile (kp (bk ++ j)) flag perm).1,
       (m.openFile (kp (bk ++ j)) flag perm).2.map
        (fun hd => Ret.handle { hd with name := PrefixFS.reportedName (kp bk) (kp (bk ++ j)) hd.name })))
    {m1 m2 : MFS} {k r : Key} (hk : PKey k) (hrk : PKey r)
    (h : (m1.openFile (kp (bk ++ k)) flag perm).2.map hcore = (m2.openFile (kp (bk ++ r)) flag perm).2.map hcore ∧
      UEq bk (m1.openFile (kp (bk ++ k)) flag perm).1 (m2.openFile (kp (bk ++ r)) flag perm).1 ∧
      (∀ h, (m1.openFile (kp (bk ++ k)) flag perm).2 = .ok h → bk <+: h.key)) :
    OpenRel bk kk m1 m2 (c (kp k)) (c (kp r)) := by
  unfold OpenRel
  rw [hside m1 k hk, hside m2 r hrk]
  obtain ⟨h1, h2, h3⟩ := h
  refine ⟨?_, h2⟩
  cases e1 : (m1.openFile (kp (bk ++ k)) flag perm).2 with
  | error a =>
    cases e2 : (m2.openFile (kp (bk ++ r)) flag perm).2 with
    | error b =>
      rw [e1, e2] at h1
      simp only [Except.map, Except.error.injEq] at h1
      subst h1
      exact Or.inl ⟨a, rfl, rfl⟩
    | ok b => rw [e1, e2] at h1; cases h1
  | ok a =>
    cases e2 : (m2.openFile (kp (bk ++ r)) flag perm).2 with
    | error b => rw [e1, e2] at h1; cases h1
    | ok b =>
      rw [e1, e2] at h1
      simp only [Except.map, Except.ok.injEq] at h1
      exact Or.inr ⟨_, _, rfl, rfl, h1, h3 a e1⟩

theorem directWrite_rel {m1 m2 : MFS} (hb : UEq bk m1 m2) {h1 h2 : Handle} (hc : hcore h1 = hcore h2)
    (hkey : bk <+: h1.key) (data : String) :
    (directWrite (baseFS bk kk) m1 h1 data).2 = (directWrite (baseFS bk kk) m2 h2 data).2 ∧
      UEq bk (directWrite (baseFS bk kk) m1 h1 data).1 (directWrite (baseFS bk kk) m2 h2 data).1 := by
  unfold directWrite
  split
  · exact ⟨rfl, hb⟩
  · have hw : (baseFS bk kk).hwrite = MFS.hwrite := side_hwrite bk kk .base
    rw [hw]
    obtain ⟨a, b⟩ := hwrite_rel hb hc hkey 0 data
    cases e1 : m1.hwrite h1 0 data with
    | mk a1 r1 =>
      cases e2 : m2.hwrite h2 0 data with
      | mk a2 r2 =>
        rw [e1, e2] at a b
        simp only at a b
        subst a
        cases r1 <;> exact ⟨rfl, b⟩

/-- the tail of `creat`/`write` after the backup phase: open on the base, write through the handle, close -/
theorem open_tail_transpU {c1 c2 : Call} {data : String} {w1 : World} {m : MFS} (hnf : w1.faults = [])
    (hrel : OpenRel bk kk m w1.fs c1 c2) :
    Sat (do
        let h ← primOpen (osCfg bk kk) .base c2
        let o ← writeClose (osCfg bk kk) h data
        pure (OpOut.written h o) : M OpOut) w1
      (fun w' r => ResAgreeU r (directOpen (baseFS bk kk) m c1 data).2 ∧
        UEq bk w'.fs (directOpen (baseFS bk kk) m c1 data).1) := by
  obtain ⟨hcases, hueq⟩ := hrel
  apply Sat.bind
  apply (sat_primOpen_nf (cfg := osCfg bk kk) (c := c2) hnf).mono
  intro w2 r2 ⟨hfs, hnf2, hmatch⟩
  have hfs' : w2.fs = ((baseFS bk kk).call w1.fs c2).1 := hfs
  have hmatch' : (match ((baseFS bk kk).call w1.fs c2).2 with
       | .ok (.handle h) => ∃ wh, r2 = .ok wh ∧ wh.h = h ∧ wh.side = .base
       | .ok _ => r2 = .error .other
       | .error e => r2 = .error e) := hmatch
  unfold directOpen
  rcases hcases with ⟨e, he1, he2⟩ | ⟨h1, h2, hh1, hh2, hc, hkey⟩
  · rw [he2] at hmatch'
    simp only at hmatch'
    subst hmatch'
    cases hcd : (baseFS bk kk).call m c1 with
    | mk md rd =>
      rw [hcd] at he1 hueq
      simp only at he1 hueq
      subst he1
      exact ⟨rfl, by rw [hfs']; exact hueq.symm⟩
  · rw [hh2] at hmatch'
    simp only at hmatch'
    obtain ⟨wh, rfl, hwh, hside⟩ := hmatch'
    cases hcd : (baseFS bk kk).call m c1 with
    | mk md rd =>
      rw [hcd] at hh1 hueq
      simp only at hh1 hueq
      subst hh1
      simp only
      apply Sat.bind
      apply (sat_writeClose_nf (cfg := osCfg bk kk) (wh := wh) (data := data) hnf2).mono
      intro w3 r3 ⟨hfs3, hr3⟩
      subst hr3
      simp only
      apply Sat.pure
      rw [hside, hwh] at hfs3 ⊢
      have hb2 : UEq bk md w2.fs := by rw [hfs']; exact hueq
      obtain ⟨a, b⟩ := directWrite_rel (kk := kk) hb2 hc hkey data
      refine ⟨?_, ?_⟩
      · simp only [ResAgreeU, OpOut.data, DataAgree, hwh]
        exact ⟨hc.symm, a.symm⟩
      · rw [hfs3]
        exact b.symm

/-- Create / OpenFile-for-writing: `prepare`, open on the base, write through the handle, close -/
theorem open_transpU (hr : Roots bk kk) {v0 : View} {w : World} {name : Path} {k : Key}
    {c : Path → Call} {data : String}
    (hinv : L.Inv (osSimLR hr) v0 w) (hnf : w.faults = []) (hflat : Flat bk w.fs) (hk : PKey k)
    (hname : clean name = kp k)
    (hlok : ∀ t mt, L.osViewL bk kk .base w.fs (L.G.rk bk w k) = some (.link t mt) →
      L.osLinkOK bk kk .base (L.G.rk bk w k) t)
    (hspell : ∀ m, (baseFS bk kk).call m (c name) = (baseFS bk kk).call m (c (kp k)))
    (hrel : ∀ m2, L.OSGoodL bk kk m2 → UEq bk w.fs m2 →
      OpenRel bk kk w.fs m2 (c (kp k)) (c (kp (L.G.rk bk w k)))) :
    Sat (do
        let h ← (prepare (osCfg bk kk) name >>= fun r => primOpen (osCfg bk kk) .base (c r))
        let o ← writeClose (osCfg bk kk) h data
        pure (OpOut.written h o) : M OpOut) w
      (fun w' res => TranspU bk w ((prepare (osCfg bk kk) name w).2.map (fun _ => ())) w' res
        (directOpen (baseFS bk kk) w.fs (c name) data)) := by
  have hfacts := prepare_flat hr hinv hnf hflat hk hname hlok
  have hassoc : (do
        let h ← (prepare (osCfg bk kk) name >>= fun r => primOpen (osCfg bk kk) .base (c r))
        let o ← writeClose (osCfg bk kk) h data
        pure (OpOut.written h o) : M OpOut) =
      (prepare (osCfg bk kk) name >>= fun r => (do
        let h ← primOpen (osCfg bk kk) .base (c r)
        let o ← writeClose (osCfg bk kk) h data
        pure (OpOut.written h o) : M OpOut)) := by
    funext w0
    simp only [M.bind_apply]
    cases prepare (osCfg bk kk) name w0 with
    | mk w1 r => cases r <;> rfl
  rw [hassoc]
  have hd : directOpen (baseFS bk kk) w.fs (c name) data = directOpen (baseFS bk kk) w.fs (c (kp k)) data := by
    unfold directOpen; rw [hspell]
  rw [hd]
  apply Sat.bind
  unfold Sat
  revert hfacts
  cases prepare (osCfg bk kk) name w with
  | mk w1 pr =>
    intro hfacts
    cases pr with
    | error e => exact ⟨rfl, hfacts.eq.symm⟩
    | ok p =>
      have hp := hfacts.res p rfl
      subst hp
      show Sat (do
        let h ← primOpen (osCfg bk kk) .base (c (kp (L.G.rk bk w k)))
        let o ← writeClose (osCfg bk kk) h data
        pure (OpOut.written h o) : M OpOut) w1
        (fun w' res => TranspU bk w (.ok ()) w' res (directOpen (baseFS bk kk) w.fs (c (kp k)) data))
      exact open_tail_transpU hfacts.nofault (hrel w1.fs hfacts.good hfacts.eq)

end

end U
end BFS
