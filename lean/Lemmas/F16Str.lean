import Lemmas.F16Def
/-!
  Lemmas/F16Str.lean — the string side of the flat fragment: `filepath.Clean`'s component fold is
  `lexK`; `filepath.Join` onto the path of a key; what `toAbsSymlink (Readlink …)` returns for a
  symlink satisfying `TargetOK`; `replacePathPrefix` on the elements of the ancestor chain.
-/
namespace BFS
namespace F16
open MFS

/-! ### `lexK` -/

theorem lexK_nil (pos : Key) : lexK pos [] = pos := rfl
theorem lexK_cons (pos : Key) (c : Name) (cs : List Name) : lexK pos (c :: cs) = lexK (stepK pos c) cs := rfl
theorem lexK_append (pos : Key) (a b : List Name) : lexK pos (a ++ b) = lexK (lexK pos a) b := by
  unfold lexK; exact List.foldl_append

theorem stepK_plain {c : Name} (h : Plain c) (pos : Key) : stepK pos c = pos ++ [c] := by
  unfold stepK
  have h1 := plain_not_trivial h
  have h2 : c ≠ dotdot := h.2.2.2
  simp only [h1, Bool.false_eq_true, if_false, h2]

theorem stepK_triv {c : Name} (h : (c = [] || c = dot) = true) (pos : Key) : stepK pos c = pos := by
  unfold stepK; simp only [h, if_true]

theorem stepK_dd (pos : Key) : stepK pos dotdot = pos.dropLast := by
  unfold stepK
  have : (dotdot = [] || dotdot = dot) = false := by decide
  simp only [this, Bool.false_eq_true, if_false, if_true]

theorem plain_of_not {c : Name} (hs : '/' ∉ c) (h1 : (c = [] || c = dot) = false) (h2 : c ≠ dotdot) : Plain c := by
  simp only [Bool.or_eq_false_iff, decide_eq_false_iff_not] at h1
  exact ⟨h1.1, hs, h1.2, h2⟩

/-- the three kinds of components -/
theorem comp_cases (c : Name) (hs : '/' ∉ c) : (c = [] || c = dot) = true ∨ c = dotdot ∨ Plain c := by
  cases h1 : (c = [] || c = dot) with
  | true => exact Or.inl rfl
  | false =>
    by_cases h2 : c = dotdot
    · exact Or.inr (Or.inl h2)
    · exact Or.inr (Or.inr (plain_of_not hs h1 h2))

theorem lexK_plain : ∀ (cs : List Name) (pos : Key), PKey cs → lexK pos cs = pos ++ cs
  | [], pos, _ => by simp [lexK]
  | c :: cs, pos, h => by
    rw [lexK_cons, stepK_plain (h c (by simp)), lexK_plain cs _ (fun n hn => h n (List.mem_cons_of_mem _ hn))]
    simp

theorem stepK_pkey {pos : Key} {c : Name} (hp : PKey pos) (hs : '/' ∉ c) : PKey (stepK pos c) := by
  rcases comp_cases c hs with h | h | h
  · rw [stepK_triv h]; exact hp
  · rw [h, stepK_dd]; exact hp.dropLast
  · rw [stepK_plain h]; exact hp.snoc h

theorem lexK_pkey : ∀ (cs : List Name) (pos : Key), PKey pos → (∀ c ∈ cs, '/' ∉ c) → PKey (lexK pos cs)
  | [], _, hp, _ => hp
  | c :: cs, pos, hp, hs => by
    rw [lexK_cons]
    exact lexK_pkey cs _ (stepK_pkey hp (hs c (by simp))) (fun n hn => hs n (List.mem_cons_of_mem _ hn))

/-! ### `filepath.Clean`'s fold is `lexK` -/

/-- rooted paths: the stack of `Clean` is the lexical position -/
theorem foldl_rooted_lexK : ∀ (cs st : List Name), (∀ n ∈ st, Plain n) → (∀ c ∈ cs, '/' ∉ c) →
    (cs.foldl (cleanStep true) st).reverse = lexK st.reverse cs
  | [], st, _, _ => rfl
  | c :: cs, st, hst, hs => by
    have hsc := hs c (by simp)
    have hs' : ∀ n ∈ cs, '/' ∉ n := fun n hn => hs n (List.mem_cons_of_mem _ hn)
    rw [List.foldl_cons, lexK_cons]
    rcases comp_cases c hsc with h | h | h
    · have e : cleanStep true st c = st := by
        unfold cleanStep
        simp only [Bool.or_eq_true, decide_eq_true_eq] at h
        rcases h with h | h <;> simp [h]
      rw [e, stepK_triv h]
      exact foldl_rooted_lexK cs st hst hs'
    · subst h
      rw [stepK_dd]
      cases st with
      | nil =>
        have e : cleanStep true [] dotdot = [] := by decide
        rw [e]
        exact foldl_rooted_lexK cs [] hst hs'
      | cons t rest =>
        have ht : t ≠ dotdot := (hst t (by simp)).2.2.2
        have e : cleanStep true (t :: rest) dotdot = rest := by
          unfold cleanStep
          have h1 : dotdot ≠ ([] : Name) := by decide
          have h2 : dotdot ≠ dot := by decide
          simp [h1, h2, ht]
        rw [e]
        have := foldl_rooted_lexK cs rest (fun n hn => hst n (List.mem_cons_of_mem _ hn)) hs'
        rw [this]
        simp
    · have e : cleanStep true st c = c :: st := cleanStep_plain h
      rw [e, stepK_plain h]
      have := foldl_rooted_lexK cs (c :: st) (by
        intro n hn
        rcases List.mem_cons.mp hn with rfl | hn
        · exact h
        · exact hst n hn) hs'
      rw [this]
      simp

/-- unrooted paths: applying the cleaned components is applying the raw ones -/
theorem foldl_unrooted_lexK (pos : Key) : ∀ (cs st : List Name), (∀ n ∈ st, n = dotdot ∨ Plain n) →
    (∀ c ∈ cs, '/' ∉ c) →
    lexK pos (cs.foldl (cleanStep false) st).reverse = lexK (lexK pos st.reverse) cs
  | [], st, _, _ => rfl
  | c :: cs, st, hst, hs => by
    have hsc := hs c (by simp)
    have hs' : ∀ n ∈ cs, '/' ∉ n := fun n hn => hs n (List.mem_cons_of_mem _ hn)
    rw [List.foldl_cons, lexK_cons]
    rcases comp_cases c hsc with h | h | h
    · have e : cleanStep false st c = st := by
        unfold cleanStep
        simp only [Bool.or_eq_true, decide_eq_true_eq] at h
        rcases h with h | h <;> simp [h]
      rw [e, stepK_triv h]
      exact foldl_unrooted_lexK pos cs st hst hs'
    · subst h
      rw [stepK_dd]
      have h1 : dotdot ≠ ([] : Name) := by decide
      have h2 : dotdot ≠ dot := by decide
      cases st with
      | nil =>
        have e : cleanStep false [] dotdot = [dotdot] := by decide
        rw [e, foldl_unrooted_lexK pos cs [dotdot] (by simp) hs']
        simp [lexK, stepK_dd]
      | cons t rest =>
        by_cases ht : t = dotdot
        · subst ht
          have e : cleanStep false (dotdot :: rest) dotdot = dotdot :: dotdot :: rest := by
            unfold cleanStep
            simp [h1, h2]
          rw [e, foldl_unrooted_lexK pos cs (dotdot :: dotdot :: rest) (by
            intro n hn
            rcases List.mem_cons.mp hn with rfl | hn
            · exact Or.inl rfl
            · exact hst n hn) hs']
          congr 1
          simp only [List.reverse_cons, lexK_append, lexK_cons, lexK_nil, stepK_dd]
        · have htp : Plain t := by
            rcases hst t (by simp) with h | h
            · exact absurd h ht
            · exact h
          have e : cleanStep false (t :: rest) dotdot = rest := by
            unfold cleanStep
            simp [h1, h2, ht]
          rw [e, foldl_unrooted_lexK pos cs rest (fun n hn => hst n (List.mem_cons_of_mem _ hn)) hs']
          congr 1
          simp only [List.reverse_cons, lexK_append, lexK_cons, lexK_nil, stepK_plain htp]
          simp
    · have e : cleanStep false st c = c :: st := cleanStep_plain h
      rw [e, stepK_plain h, foldl_unrooted_lexK pos cs (c :: st) (by
        intro n hn
        rcases List.mem_cons.mp hn with rfl | hn
        · exact Or.inr h
        · exact hst n hn) hs']
      congr 1
      simp only [List.reverse_cons, lexK_append, lexK_cons, lexK_nil, stepK_plain h]

/-- `Clean` of a rooted text is the path of the key the text leads to lexically from the root -/
theorem clean_rooted_lexK {t : Path} (h : isRooted t = true) : clean t = kp (lexK [] (splitSep t)) := by
  unfold clean cleanC
  simp only [h]
  rw [foldl_rooted_lexK (splitSep t) [] (by simp) (fun c hc => splitSep_sepfree t c hc)]
  exact render_kp _

/-- applying the cleaned form of an unrooted text is applying the text -/
theorem lexK_clean_rel {t : Path} (h : isRooted t = false) (pos : Key) :
    lexK pos (splitSep (clean t)) = lexK pos (splitSep t) := by
  have hf := foldl_unrooted_lexK pos (splitSep t) [] (by simp) (fun c hc => splitSep_sepfree t c hc)
  simp only [List.reverse_nil, lexK_nil] at hf
  rw [← hf]
  have hc := cleanC_canon t
  unfold clean
  have hcc : cleanC t = ⟨false, ((splitSep t).foldl (cleanStep false) []).reverse⟩ := by
    unfold cleanC; simp only [h]
  rw [hcc] at hc ⊢
  unfold CPath.render
  simp only [Bool.false_eq_true, if_false]
  split
  · rename_i he
    rw [he]
    rfl
  · rename_i he
    rw [splitSep_joinSep _ he hc.nf]

/-- `filepath.Join` onto the path of a key: the text is applied lexically to the key -/
theorem join_kp_lexK {e : Key} (he : PKey e) (x : Path) : join (kp e) x = kp (lexK e (splitSep x)) := by
  rw [← join_clean_is_clean (kp e) x (kp_ne_nil e)]
  unfold clean
  rw [cleanC_join x (kp_ne_nil e), isRooted_kp, cleanC_kp he]
  simp only [kc]
  rw [foldl_rooted_lexK (splitSep x) e.reverse (by
    intro n hn
    exact he n (List.mem_reverse.mp hn)) (fun c hc => splitSep_sepfree x c hc)]
  rw [List.reverse_reverse]
  exact render_kp _

/-! ### the chain elements under `replacePathPrefix` -/

theorem joinSep_append : ∀ (a p : List Name), a ≠ [] → p ≠ [] → joinSep (a ++ p) = joinSep a ++ '/' :: joinSep p
  | [], _, h, _ => absurd rfl h
  | [x], p, _, hp => by
    rw [List.singleton_append, joinSep_cons_of_ne_nil x hp]
    rfl
  | x :: y :: r, p, _, hp => by
    have ih := joinSep_append (y :: r) p (by simp) hp
    rw [List.cons_append, joinSep_cons_of_ne_nil x (by simp), ih, joinSep_cons_cons]
    simp

theorem kp_append {a p : Key} (ha : a ≠ []) (hp : p ≠ []) : kp (a ++ p) = kp a ++ '/' :: joinSep p := by
  unfold kp
  rw [joinSep_append a p ha hp]
  simp

theorem trimPrefix_append (pre rest : Path) : trimPrefix (pre ++ rest) pre = rest := by
  unfold trimPrefix
  have : pre.isPrefixOf (pre ++ rest) = true := List.isPrefixOf_iff_prefix.mpr (List.prefix_append _ _)
  simp [this]

/-- `replacePathPrefix` on a chain element: the link's location `a` is replaced by the effective
target `e`, the remaining components `p` stay -/
theorem replacePrefix1_kp {a e p : Key} (ha : a ≠ []) (he : PKey e) (hp : PKey p) (hpne : p ≠ []) :
    replacePrefix1 (kp a) (kp e) (kp (a ++ p)) = kp (e ++ p) := by
  unfold replacePrefix1
  rw [kp_append ha hpne, trimPrefix_append, join_kp_lexK he, splitSep_cons_sep,
    splitSep_joinSep p hpne hp.nameOK, lexK_cons, stepK_triv (by decide), lexK_plain p e hp]

/-! ### relative texts stay below the base root -/

theorem lexK_below {m : MFS} {bk : Key} : ∀ (cs : List Name) (q : Key), ddOK m bk true (bk ++ q) cs = true →
    lexK (bk ++ q) cs = bk ++ lexK q cs
  | [], _, _ => rfl
  | c :: cs, q, h => by
    rw [lexK_cons, lexK_cons]
    unfold ddOK at h
    cases h1 : (c = [] || c = dot) with
    | true =>
      simp only [h1, if_true] at h
      rw [stepK_triv h1, stepK_triv h1]
      exact lexK_below cs q h
    | false =>
      simp only [h1, Bool.false_eq_true, if_false] at h
      by_cases h2 : c = dotdot
      · subst h2
        simp only [if_true, Bool.not_true, Bool.false_or, Bool.and_eq_true, bne_iff_ne, ne_eq] at h
        have hq : q ≠ [] := by
          intro e
          apply h.1.2.2
          rw [e]; simp
        rw [stepK_dd, stepK_dd, append_dropLast hq]
        have h3 := h.2
        rw [append_dropLast hq] at h3
        exact lexK_below cs _ h3
      · simp only [h2, if_false] at h
        unfold stepK
        simp only [h1, Bool.false_eq_true, if_false, h2]
        rw [List.append_assoc] at h ⊢
        exact lexK_below cs _ h

/-! ### what `toAbsSymlink (Readlink …)` returns -/

theorem effDisk_pkey {K : Key} (hK : PKey K) (t : Path) : PKey (effDisk K t) := by
  unfold effDisk startK
  apply lexK_pkey _ _ _ (fun c hc => splitSep_sepfree t c hc)
  split
  · exact PKey.nil
  · exact hK.dropLast

theorem effK_spec {m : MFS} {bk k : Key} {t : Path} (hok : TargetOK m bk (bk ++ k) t) :
    bk ++ effK bk k t = effDisk (bk ++ k) t := by
  obtain ⟨s, hs⟩ := hok.below
  unfold effK
  rw [← hs]
  simp

theorem effK_pkey {m : MFS} {bk k : Key} {t : Path} (hb : PKey bk) (hk : PKey k) (hok : TargetOK m bk (bk ++ k) t) :
    PKey (effK bk k t) := by
  have := effDisk_pkey (hb.append hk) t
  rw [← effK_spec hok] at this
  exact this.right

/-- the path the resolver substitutes for a symlink at base key `k` satisfying `TargetOK` -/
theorem target_text {m : MFS} {bk k : Key} {t : Path} (hb : PKey bk) (hk : PKey k) (hkne : k ≠ [])
    (hok : TargetOK m bk (bk ++ k) t) :
    toAbsSymlink (PrefixFS.readlinkPost (kp bk) t) (kp k) = kp (effK bk k t) := by
  have hspec := effK_spec hok
  have hpe := effK_pkey hb hk hok
  cases hrt : isRooted t with
  | true =>
    -- absolute text: `Readlink` re-roots it
    have hE : effDisk (bk ++ k) t = lexK [] (splitSep t) := by
      unfold effDisk startK; simp only [hrt, if_true]
    have hc : clean t = kp (bk ++ effK bk k t) := by rw [clean_rooted_lexK hrt, hspec, hE]
    have hw : Within (kp bk) (kp (bk ++ effK bk k t)) := by
      unfold Within WithinC
      rw [cleanC_kp hb, cleanC_kp (hb.append hpe)]
      refine ⟨rfl, isPrefixOf_append_self _ _, ?_⟩
      simp only [kc, List.drop_left]
      intro hdd
      exact (hpe _ hdd).2.2.2 rfl
    have hrl : PrefixFS.readlinkPost (kp bk) t = kp (effK bk k t) := by
      unfold PrefixFS.readlinkPost
      simp only [hc, relInside_of_within hw, cleanC_kp hb, cleanC_kp (hb.append hpe), kc, List.drop_left]
      have hroot : rootP = kp [] := rfl
      rw [hroot, join_kp_lexK PKey.nil]
      split
      · rename_i he
        rw [he]; rfl
      · rename_i he
        rw [splitSep_joinSep _ he hpe.nameOK, lexK_plain _ _ hpe]
        simp
    rw [hrl]
    unfold toAbsSymlink
    simp [isAbs, isRooted_kp]
  | false =>
    have hrl : PrefixFS.readlinkPost (kp bk) t = clean t :=
      Props.C14.symlink_readlink_roundtrip_rel _ _ (isRooted_kp _) hrt
    rw [hrl]
    unfold toAbsSymlink
    have hab : isAbs (clean t) = false := by unfold isAbs; rw [isRooted_clean, hrt]
    simp only [hab, Bool.not_false, if_true]
    rw [dir_kp hk, join_kp_lexK hk.dropLast, lexK_clean_rel hrt]
    congr 1
    have hE : effDisk (bk ++ k) t = lexK (bk ++ k.dropLast) (splitSep t) := by
      unfold effDisk startK
      simp only [hrt, Bool.false_eq_true, if_false, append_dropLast hkne]
    have hdd := hok.dd
    simp only [hrt, Bool.not_false, startK, Bool.false_eq_true, if_false, append_dropLast hkne] at hdd
    have := lexK_below _ _ hdd
    rw [← hE, ← hspec] at this
    exact (List.append_cancel_left this).symm

end F16
end BFS
