import Lemmas.LXGOps
/-!
  Lemmas/LBGTx.lean — names through FLAT links (`G.Op.Covered`, Lemmas/GTx.lean): every covered operation
  keeps the strengthened invariant `L.InvB` on healthy filesystems; since Rollback never resolves a name,
  the Rollback half is `L.sat_rollbackX` (Lemmas/LBRestore.lean) verbatim: Rollback returns nil and
  leaves the backup as it was, for any number of transactions.
-/
namespace BFS
namespace L
namespace G
open BackupFS F16

section
variable {bk kk : Key} {hbk : PKey bk} {hkk : PKey kk} {hne1 : bk ≠ []} {hne2 : kk ≠ []}
  {hd1 : ¬ bk <+: kk} {hd2 : ¬ kk <+: bk} {v0 : View}

/-- on the OS model, a covered operation (names through flat links) — successful or not, under any
fault plan — keeps the exactness invariant `L.InvX` -/
theorem op_keepsX {w : World} {op : Op}
    (hinv : InvX (osSimL bk kk hbk hkk hne1 hne2 hd1 hd2) v0 w)
    (hc : Op.Covered bk (osSimL bk kk hbk hkk hne1 hne2 hd1 hd2) w op) :
    KeptX (osSimL bk kk hbk hkk hne1 hne2 hd1 hd2) v0 w (op.step (osCfg bk kk) w) := by
  have key : Sat (op.exec (osCfg bk kk)) w
      (fun w' _ => KeptX (osSimL bk kk hbk hkk hne1 hne2 hd1 hd2) v0 w w') := by
    cases op with
    | creat p d =>
      obtain ⟨habs, hflat, h⟩ := hc
      obtain ⟨k, hk, hname⟩ := clean_abs habs
      obtain ⟨hr, hres, hacc⟩ := resolved hinv.inv hflat hk hname
      exact sat_creatGX (osMkdirAllUnit bk kk) hinv hr hres ⟨hacc, h k hk hname⟩
    | write p f pm d =>
      apply sat_writeGX (osMkdirAllUnit bk kk) hinv
      rcases hc with h | ⟨habs, hflat, h⟩
      · exact Or.inl h
      · obtain ⟨k, hk, hname⟩ := clean_abs habs
        obtain ⟨hr, hres, hacc⟩ := resolved hinv.inv hflat hk hname
        exact Or.inr ⟨_, hr, hres, ⟨hacc, h k hk hname⟩⟩
    | mkdir p m =>
      obtain ⟨habs, hflat, h⟩ := hc
      obtain ⟨k, hk, hname⟩ := clean_abs habs
      obtain ⟨hr, hres, hacc⟩ := resolved hinv.inv hflat hk hname
      exact sat_unit_outX' (sat_mkdirGX (osMkdirAllUnit bk kk) hinv hr hres ⟨hacc, h k hk hname⟩)
    | mkdirAll p m =>
      obtain ⟨habs, hflat, h⟩ := hc
      obtain ⟨k, hk, hname⟩ := clean_abs habs
      obtain ⟨hr, hres, hacc⟩ := resolved hinv.inv hflat hk hname
      exact sat_unit_outX (sat_mkdirAllGX (osMkdirAllUnit bk kk) hinv hr hres ⟨hacc, h k hk hname⟩)
    | remove p =>
      obtain ⟨habs, hnr, hflat, h⟩ := hc
      obtain ⟨k, hk, hname⟩ := clean_abs habs
      have hne : k ≠ [] := by
        intro e; subst e; exact hnr hname
      obtain ⟨hr, hres, hacc⟩ := resolved hinv.inv hflat hk hname
      exact sat_unit_outX' (sat_removeGX (osMkdirAllUnit bk kk) hinv hr (rk_ne hne) hres ⟨hacc, h k hk hname⟩)
    | removeAll p =>
      obtain ⟨habs, hnr, hflat, h⟩ := hc
      obtain ⟨k, hk, hname⟩ := clean_abs habs
      have hne : k ≠ [] := by
        intro e; subst e; exact hnr hname
      obtain ⟨hr, hres, hacc⟩ := resolved hinv.inv hflat hk hname
      exact sat_unit_outX (sat_removeAllGX (osMkdirAllUnit bk kk) hinv hr (rk_ne hne) hres hacc (h k hk hname))
    | rename o n =>
      obtain ⟨habso, habsn, hflat, h⟩ := hc
      obtain ⟨ko, hko, ho⟩ := clean_abs habso
      obtain ⟨kn, hkn, hn⟩ := clean_abs habsn
      obtain ⟨hlo, hln, hleaf, hnb⟩ := h ko kn hko hkn ho hn
      obtain ⟨hro, hreso, hacco⟩ := resolved hinv.inv hflat hko ho
      obtain ⟨hrn, hresn, haccn⟩ := resolved hinv.inv hflat hkn hn
      exact sat_unit_outX (sat_renameGX (osMkdirAllUnit bk kk) hinv hro hrn hreso hresn ⟨hacco, hlo⟩ ⟨haccn, hln⟩ hleaf hnb)
    | symlink o n =>
      obtain ⟨habs, hflat, h⟩ := hc
      obtain ⟨kn, hkn, hn⟩ := clean_abs habs
      obtain ⟨hln, hnb⟩ := h kn hkn hn
      obtain ⟨hrn, hresn, haccn⟩ := resolved hinv.inv hflat hkn hn
      exact sat_unit_outX (sat_symlinkGX (osMkdirAllUnit bk kk) hinv hrn hresn ⟨haccn, hln⟩ hnb)
    | chmod p m =>
      obtain ⟨habs, hflat, h⟩ := hc
      obtain ⟨k, hk, hname⟩ := clean_abs habs
      obtain ⟨hr, hres, hacc⟩ := resolved hinv.inv hflat hk hname
      exact sat_unit_outX' (sat_chmodGX (osMkdirAllUnit bk kk) hinv hr hres ⟨hacc, h k hk hname⟩)
    | chown p u g =>
      obtain ⟨habs, hflat, h⟩ := hc
      obtain ⟨k, hk, hname⟩ := clean_abs habs
      obtain ⟨hr, hres, hacc⟩ := resolved hinv.inv hflat hk hname
      exact sat_unit_outX' (sat_chownGX (osMkdirAllUnit bk kk) hinv hr hres ⟨hacc, h k hk hname⟩)
    | lchown p u g =>
      obtain ⟨habs, hflat, h⟩ := hc
      obtain ⟨k, hk, hname⟩ := clean_abs habs
      obtain ⟨hr, hres, hacc⟩ := resolved hinv.inv hflat hk hname
      exact sat_unit_outX' (sat_lchownGX (osMkdirAllUnit bk kk) hinv hr hres ⟨hacc, h k hk hname⟩)
    | chtimes p t =>
      obtain ⟨habs, hflat, h⟩ := hc
      obtain ⟨k, hk, hname⟩ := clean_abs habs
      obtain ⟨hr, hres, hacc⟩ := resolved hinv.inv hflat hk hname
      exact sat_unit_outX' (sat_chtimesGX (osMkdirAllUnit bk kk) hinv hr hres ⟨hacc, h k hk hname⟩)
    | stat p => exact L.op_keepsX (osMkdirAllUnit bk kk) (op := .stat p) hinv trivial
    | lstat p => exact L.op_keepsX (osMkdirAllUnit bk kk) (op := .lstat p) hinv trivial
    | readlink p => exact L.op_keepsX (osMkdirAllUnit bk kk) (op := .readlink p) hinv trivial
    | force p => exact absurd hc id
  exact key

/-- after any covered history the exactness invariant holds -/
theorem history_keepsX : ∀ (ops : List Op) (w : World),
    InvX (osSimL bk kk hbk hkk hne1 hne2 hd1 hd2) v0 w →
    CoveredHist (osCfg bk kk) bk (osSimL bk kk hbk hkk hne1 hne2 hd1 hd2) w ops →
    KeptX (osSimL bk kk hbk hkk hne1 hne2 hd1 hd2) v0 w (runOps (osCfg bk kk) w ops)
  | [], w, hinv, _ => KeptX.refl hinv
  | op :: rest, w, hinv, hc => by
    have h1 := op_keepsX hinv hc.1
    have h2 := history_keepsX rest (op.step (osCfg bk kk) w) h1.inv hc.2
    exact h1.trans h2


end

end G
end L
end BFS
