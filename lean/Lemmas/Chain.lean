import Lemmas.Iter
import Lemmas.Sort
/-! Ancestors in the chain of a cleaned path have a smaller depth key. -/
namespace BFS

theorem mem_inits1 {α} : ∀ {cs l : List α}, l ∈ inits1 cs → l ≠ [] ∧ ∃ t, cs = l ++ t
  | [], l, h => by simp [inits1] at h
  | a :: as, l, h => by
    simp only [inits1, List.mem_cons, List.mem_map] at h
    rcases h with rfl | ⟨y, hy, rfl⟩
    · exact ⟨by simp, as, rfl⟩
    · obtain ⟨_, t, ht⟩ := mem_inits1 hy
      exact ⟨by simp, t, by simp [ht]⟩

theorem self_mem_inits1 {α} : ∀ {cs : List α}, cs ≠ [] → cs ∈ inits1 cs
  | [], h => absurd rfl h
  | [a], _ => by simp [inits1]
  | a :: b :: r, _ => by
    simp only [inits1, List.mem_cons, List.mem_map]
    right
    refine ⟨b :: r, ?_, rfl⟩
    have := self_mem_inits1 (cs := b :: r) (by simp)
    simpa [inits1] using this

theorem count_sepfree {n : Name} (h : '/' ∉ n) : List.count '/' n = 0 :=
  List.count_eq_zero.mpr h

theorem countSep_joinSep : ∀ (ns : List Name), (∀ n ∈ ns, '/' ∉ n) →
    countSep (joinSep ns) = ns.length - 1
  | [], _ => rfl
  | [n], h => by simp [joinSep, countSep, count_sepfree (h n (by simp))]
  | n :: n2 :: r, h => by
    have ih := countSep_joinSep (n2 :: r) (fun m hm => h m (List.mem_cons_of_mem _ hm))
    rw [joinSep_cons_cons]
    unfold countSep at *
    rw [List.count_append, List.count_cons_self, count_sepfree (h n (by simp)), ih]
    simp

theorem sepKey_rootP : sepKey rootP = 0 := by decide

theorem sepKey_rooted {l : List Name} (hne : l ≠ []) (hok : ∀ n ∈ l, NameOK n) :
    sepKey ('/' :: joinSep l) = l.length + 1 := by
  unfold sepKey
  have hj := joinSep_ne_nil hne hok
  have hnr : ('/' :: joinSep l) ≠ rootP := by
    intro e; simp [rootP] at e; exact hj e
  have hc : countSep ('/' :: joinSep l) = l.length := by
    have := countSep_joinSep l (fun n hn => (hok n hn).2)
    unfold countSep at *
    rw [List.count_cons_self, this]
    have : 0 < l.length := List.length_pos_iff.mpr hne
    omega
  simp [hnr, hc]

theorem sepKey_unrooted {l : List Name} (hne : l ≠ []) (hok : ∀ n ∈ l, NameOK n) :
    sepKey (joinSep l) = l.length := by
  unfold sepKey
  have hnr : joinSep l ≠ rootP := by
    intro e
    have := isRooted_joinSep hok
    rw [e] at this
    simp [rootP, isRooted] at this
  have hc := countSep_joinSep l (fun n hn => (hok n hn).2)
  have : 0 < l.length := List.length_pos_iff.mpr hne
  simp [hnr, hc]; omega

theorem lessFPS_of_sepKey_lt {a b : Path} (h : sepKey a < sepKey b) : lessFPS a b = true := by
  unfold lessFPS
  have : sepKey a ≠ sepKey b := by omega
  simp [this, h]

/-- T19.2 on rendered normal forms -/
theorem ancestor_less_render {c : CPath} (hnf : c.NF) {q : Path}
    (hq : q ∈ chain c.render) (hne : q ≠ c.render) : lessFPS q c.render = true := by
  unfold CPath.NF at hnf
  unfold CPath.render at *
  by_cases hr : c.rooted = true
  · simp only [hr, if_true] at *
    unfold chain at hq
    rw [comps_render_rooted hnf] at hq
    simp only [isRooted, decide_true, if_true, List.mem_cons, List.mem_map] at hq
    by_cases hcs : c.comps = []
    · simp [hcs, inits1, joinSep] at hq hne
      exact absurd hq hne
    · rcases hq with rfl | ⟨l, hl, rfl⟩
      · apply lessFPS_of_sepKey_lt
        rw [sepKey_rootP, sepKey_rooted hcs hnf]; omega
      · obtain ⟨hlne, t, ht⟩ := mem_inits1 hl
        have hlok : ∀ n ∈ l, NameOK n := fun n hn => hnf n (by rw [ht]; simp [hn])
        apply lessFPS_of_sepKey_lt
        rw [sepKey_rooted hlne hlok, sepKey_rooted hcs hnf]
        have : t ≠ [] := by
          intro e; apply hne; rw [ht, e]; simp
        have : 0 < t.length := List.length_pos_iff.mpr this
        rw [ht]; simp; omega
  · have hr' : c.rooted = false := by simpa using hr
    by_cases hcs : c.comps = []
    · have hrender : (if c.rooted = true then '/' :: joinSep c.comps
          else if c.comps = [] then dot else joinSep c.comps) = dot := by simp [hr', hcs]
      rw [hrender] at hq hne ⊢
      have : chain dot = [dot] := by decide
      rw [this] at hq
      simp at hq
      exact absurd hq hne
    · have hrender : (if c.rooted = true then '/' :: joinSep c.comps
          else if c.comps = [] then dot else joinSep c.comps) = joinSep c.comps := by simp [hr', hcs]
      rw [hrender] at hq hne ⊢
      unfold chain at hq
      rw [isRooted_joinSep hnf, comps_joinSep hcs hnf] at hq
      simp only [Bool.false_eq_true, if_false, List.mem_map] at hq
      obtain ⟨l, hl, rfl⟩ := hq
      obtain ⟨hlne, t, ht⟩ := mem_inits1 hl
      have hlok : ∀ n ∈ l, NameOK n := fun n hn => hnf n (by rw [ht]; simp [hn])
      apply lessFPS_of_sepKey_lt
      rw [sepKey_unrooted hlne hlok, sepKey_unrooted hcs hnf]
      have : t ≠ [] := by
        intro e; apply hne; rw [ht, e]; simp
      have : 0 < t.length := List.length_pos_iff.mpr this
      rw [ht]; simp; omega

theorem ancestor_less_of_clean {p q : Path} (h : IsClean p) (hq : ProperAncestor q p) :
    lessFPS q p = true := by
  unfold IsClean clean at h
  have := ancestor_less_render (cleanC_NF p) (q := q)
  rw [h] at this
  exact this hq.1 hq.2

theorem sepKey_eq_zero {x : Path} (h : sepKey x = 0) : x = rootP := by
  unfold sepKey at h
  split at h
  · rename_i hh; exact hh.2
  · omega

theorem lessFPS_root_lt {x : Path} (h : x ≠ rootP) : lessFPS rootP x = true := by
  apply lessFPS_of_sepKey_lt
  rw [sepKey_rootP]
  have : sepKey x ≠ 0 := fun e => h (sepKey_eq_zero e)
  omega

end BFS
