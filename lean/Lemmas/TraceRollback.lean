import Lemmas.TraceOps
import Lemmas.Sort
/-! Rollback issues primitive calls that name tracked paths only. -/
namespace BFS
namespace BackupFS

/-- the filesystem entry a logged call names: the link location for `symlink`, else the first
argument -/
def pathArg (s : Sig) : Option Path :=
  if s.method = "symlink" then s.args[1]? else s.args.head?

/-- the event names the path `p` -/
def Names (p : Path) (e : Event) : Prop := pathArg e.sig = some p

theorem primCall_names (cfg : Cfg) (side : Side) (c : Call) (p : Path)
    (h : pathArg ⟨side, callMethod c, callArgs c⟩ = some p) : Logs (primCall cfg side c) (Names p) :=
  primCall_logs cfg side c _ (fun _ => h)

theorem primH_names (wh : WHandle) (method : String) (extra : List Path) (mutf : Bool)
    (hm : method ≠ "symlink") : Logs (primH wh method extra mutf) (Names wh.arg) := by
  apply primH_logs
  intro f
  unfold Names pathArg
  simp [hm]

theorem primOpen_arg (cfg : Cfg) (side : Side) (c : Call) (w w' : World) (h : WHandle)
    (hw : primOpen cfg side c w = (w', .ok h)) : h.arg = c.primaryPath := by
  unfold primOpen at hw
  rw [M.bind_apply] at hw
  cases hp : primCall cfg side c w with
  | mk w1 r =>
    rw [hp] at hw
    cases r with
    | error e => cases hw
    | ok v =>
      cases v <;> simp only [M.pure_apply, M.throw] at hw <;> cases hw
      rfl

theorem lexists_names (cfg : Cfg) (side : Side) (p : Path) : Logs (lexists cfg side p) (Names p) :=
  lexists_logs cfg side p (primCall_names cfg side _ p rfl)

theorem chownTo_names (cfg : Cfg) (side : Side) (src : Info) (n : Path) :
    Logs (chownTo cfg side src n) (Names n) := by
  unfold chownTo
  apply Logs.bind (primInfo_logs cfg side _ (primCall_names cfg side _ n rfl)); intro old
  exact whenM_logs (primUnit_logs cfg side _ (primCall_names cfg side _ n rfl))

theorem copyDir_names (cfg : Cfg) (side : Side) (name : Path) (info : Info) :
    Logs (copyDir cfg side name info) (Names name) := by
  unfold copyDir
  apply wrapped_logs
  apply Logs.ite (Logs.throw _ _)
  apply Logs.ite (Logs.pure _ _)
  apply Logs.bind (primUnit_logs cfg side _ (primCall_names cfg side _ name rfl)); intro _
  apply Logs.bind (primInfo_logs cfg side _ (primCall_names cfg side _ name rfl)); intro cur
  apply Logs.bind (whenM_logs (primUnit_logs cfg side _ (primCall_names cfg side _ name rfl))); intro _
  apply Logs.bind (whenM_logs (ignorePerm_logs (primUnit_logs cfg side _ (primCall_names cfg side _ name rfl)))); intro _
  exact ignorePerm_logs (chownTo_names cfg side info name)

theorem copyChunks_names (cfg : Cfg) (dst src : WHandle) (p : Path) (hd : dst.arg = p) (hs : src.arg = p) :
    ∀ (off : Nat) (cs : List String), Logs (copyChunks cfg dst src off cs) (Names p)
  | _, [] => by
    unfold copyChunks hRead
    exact hs ▸ primH_names src "read" [] false (by decide)
  | off, c :: cs => by
    unfold copyChunks
    apply Logs.bind (by unfold hRead; exact hs ▸ primH_names src "read" [] false (by decide)); intro _
    apply Logs.bind (by
      unfold hWrite
      apply Logs.bind (hd ▸ primH_names dst "write" _ true (by decide)); intro _
      intro w
      cases h : (cfg.side dst.side).hwrite w.fs dst.h off c with
      | mk m' r => exact ⟨[], by simp, by simp⟩); intro _
    exact copyChunks_names cfg dst src p hd hs _ cs

theorem writeFile_names (cfg : Cfg) (side : Side) (name : Path) (perm : Nat) (src : WHandle)
    (hs : src.arg = name) : Logs (writeFile cfg side name perm src) (Names name) := by
  unfold writeFile
  apply Logs.bind' (primOpen_logs cfg side _ (primCall_names cfg side _ name rfl))
  intro w w' dst hdst
  have hd : dst.arg = name := primOpen_arg cfg side _ w w' dst hdst
  revert w'
  suffices h : Logs (do
      let data ← peek cfg src
      let r ← attempt (copyChunks cfg dst src 0 (chunks (data.length + 1) data.toList))
      let c ← attempt (hClose dst)
      match r, c with
      | .error e, _ => M.throw e
      | .ok (), .error e => M.throw e
      | .ok (), .ok () => pure ()) (Names name) by
    intro w' _; exact h w'
  apply Logs.bind (peek_logs cfg src _); intro data
  apply Logs.bind (Logs.attempt (copyChunks_names cfg dst src name hd hs 0 _)); intro r
  apply Logs.bind (Logs.attempt (by unfold hClose; exact hd ▸ primH_names dst "close" [] false (by decide))); intro c
  cases r with
  | error e => exact Logs.throw _ _
  | ok u =>
    cases c with
    | error e => exact Logs.throw _ _
    | ok u' => exact Logs.pure _ _

theorem copyFile_names (cfg : Cfg) (side : Side) (name : Path) (info : Info) (src : WHandle)
    (hs : src.arg = name) : Logs (copyFile cfg side name info src) (Names name) := by
  unfold copyFile
  apply wrapped_logs
  apply Logs.ite (Logs.throw _ _)
  apply Logs.bind (writeFile_names cfg side name _ src hs); intro _
  apply Logs.bind (ignorePerm_logs (chownTo_names cfg side info name)); intro _
  apply Logs.bind (primInfo_logs cfg side _ (primCall_names cfg side _ name rfl)); intro cur
  apply Logs.bind (whenM_logs (primUnit_logs cfg side _ (primCall_names cfg side _ name rfl))); intro _
  exact whenM_logs (ignorePerm_logs (primUnit_logs cfg side _ (primCall_names cfg side _ name rfl)))

theorem copySymlink_names (cfg : Cfg) (source target : Side) (name : Path) (info : Info) :
    Logs (copySymlink cfg source target name info) (Names name) := by
  unfold copySymlink
  apply wrapped_logs
  apply Logs.ite (Logs.throw _ _)
  apply Logs.bind (primStr_logs cfg source _ (primCall_names cfg source _ name rfl)); intro pointsAt
  apply Logs.bind (primUnit_logs cfg target _ (primCall_names cfg target _ name rfl)); intro _
  exact ignorePerm_logs (primUnit_logs cfg target _ (primCall_names cfg target _ name rfl))

theorem restoreFile_names (cfg : Cfg) (name : Path) (fi : Info) :
    Logs (restoreFile cfg name fi) (Names name) := by
  unfold restoreFile
  apply Logs.bind' (primOpen_logs cfg .backup _ (primCall_names cfg .backup _ name rfl))
  intro w w' f hf
  have ha : f.arg = name := primOpen_arg cfg .backup _ w w' f hf
  revert w'
  suffices h : Logs (do
      let r ← attempt (do
        let fi' ← hStat cfg f
        let baseFi ← lexists cfg .base name
        let replaced := match baseFi with
          | some b => !b.isRegular
          | none => false
        if !fi'.isRegular then primUnit cfg .base (.removeAll name)
        else whenM replaced (primUnit cfg .base (.remove name))
        copyFile cfg .base name fi f)
      let _ ← attempt (hClose f)
      match r with
      | .ok () => pure ()
      | .error e => M.throw e) (Names name) by
    intro w' _; exact h w'
  apply Logs.bind (Logs.attempt (by
    apply Logs.bind (by
      unfold hStat
      apply Logs.bind (ha ▸ primH_names f "fstat" [] false (by decide)); intro _
      apply Logs.bind (Logs.getW _); intro w
      split <;> first | exact Logs.pure _ _ | exact Logs.throw _ _); intro fi'
    apply Logs.bind (lexists_names cfg .base name); intro baseFi
    apply Logs.ite
    · apply Logs.bind (primUnit_logs cfg .base _ (primCall_names cfg .base _ name rfl)); intro _
      exact copyFile_names cfg .base name fi f ha
    · apply Logs.bind (whenM_logs (primUnit_logs cfg .base _ (primCall_names cfg .base _ name rfl))); intro _
      exact copyFile_names cfg .base name fi f ha)); intro r
  apply Logs.bind (Logs.attempt (by unfold hClose; exact ha ▸ primH_names f "close" [] false (by decide))); intro _
  cases r with
  | ok u => exact Logs.pure _ _
  | error e => exact Logs.throw _ _

theorem restoreSymlink_names (cfg : Cfg) (name : Path) (fi : Info) :
    Logs (restoreSymlink cfg name fi) (Names name) := by
  unfold restoreSymlink
  apply Logs.bind (lexists_names cfg .backup name); intro ex
  cases ex with
  | none => exact Logs.throw _ _
  | some i =>
    simp only
    apply Logs.bind (lexists_names cfg .base name); intro cur
    apply Logs.bind (whenM_logs (primUnit_logs cfg .base _ (primCall_names cfg .base _ name rfl))); intro _
    exact copySymlink_names cfg .backup .base name fi

/-- events naming some member of `S` -/
def NamesIn (S : List Path) (e : Event) : Prop := ∃ p ∈ S, Names p e

theorem forEachCollect_names {f : Path → M Unit} (S : List Path)
    (hf : ∀ p, Logs (f p) (Names p)) :
    ∀ (xs : List Path), (∀ x ∈ xs, x ∈ S) → Logs (forEachCollect f xs) (NamesIn S)
  | [], _ => Logs.pure _ _
  | x :: xs, hsub => by
    unfold forEachCollect
    apply Logs.bind (Logs.attempt ((hf x).mono (fun e he => ⟨x, hsub x (by simp), he⟩))); intro r
    apply Logs.bind (forEachCollect_names S hf xs (fun y hy => hsub y (List.mem_cons_of_mem _ hy))); intro rest
    exact Logs.pure _ _

end BackupFS
end BFS

namespace BFS
namespace BackupFS

def RollbackPlan.all (pl : RollbackPlan) : List Path := pl.removeBase ++ pl.dirs ++ pl.files ++ pl.links

theorem all_snoc_removeBase (pl : RollbackPlan) (p x : Path)
    (h : x ∈ ({ pl with removeBase := pl.removeBase ++ [p] } : RollbackPlan).all) : x ∈ pl.all ∨ x = p := by
  simp only [RollbackPlan.all, List.mem_append, List.mem_singleton] at h ⊢
  rcases h with (((h | h) | h) | h) | h <;> simp [h]
theorem all_snoc_dirs (pl : RollbackPlan) (p x : Path)
    (h : x ∈ ({ pl with dirs := pl.dirs ++ [p] } : RollbackPlan).all) : x ∈ pl.all ∨ x = p := by
  simp only [RollbackPlan.all, List.mem_append, List.mem_singleton] at h ⊢
  rcases h with ((h | (h | h)) | h) | h <;> simp [h]
theorem all_snoc_files (pl : RollbackPlan) (p x : Path)
    (h : x ∈ ({ pl with files := pl.files ++ [p] } : RollbackPlan).all) : x ∈ pl.all ∨ x = p := by
  simp only [RollbackPlan.all, List.mem_append, List.mem_singleton] at h ⊢
  rcases h with ((h | h) | (h | h)) | h <;> simp [h]
theorem all_snoc_links (pl : RollbackPlan) (p x : Path)
    (h : x ∈ ({ pl with links := pl.links ++ [p] } : RollbackPlan).all) : x ∈ pl.all ∨ x = p := by
  simp only [RollbackPlan.all, List.mem_append, List.mem_singleton] at h ⊢
  rcases h with ((h | h) | h) | (h | h) <;> simp [h]
theorem all_failed (pl : RollbackPlan) (b : Bool) :
    ({ pl with failed := b } : RollbackPlan).all = pl.all := rfl

theorem classify_sub (cfg : Cfg) : ∀ (l : List (Path × Option Info)) (pl0 pl : RollbackPlan) (w w' : World),
    classify cfg l pl0 w = (w', .ok pl) →
    ∀ x ∈ pl.all, x ∈ pl0.all ∨ x ∈ l.map Prod.fst
  | [], pl0, pl, w, w', h => by
    simp only [classify, M.pure_apply] at h
    cases h
    intro x hx; exact Or.inl hx
  | (p, none) :: rest, pl0, pl, w, w', h => by
    unfold classify at h
    rw [M.bind_apply, attempt_apply] at h
    simp only at h
    intro x hx
    have step : ∀ pl1 : RollbackPlan, (∀ y ∈ pl1.all, y ∈ pl0.all ∨ y = p) →
        classify cfg rest pl1 (lexists cfg .base p w).1 = (w', .ok pl) →
        x ∈ pl0.all ∨ x ∈ ((p, (none : Option Info)) :: rest).map Prod.fst := by
      intro pl1 hpl1 hc
      rcases classify_sub cfg rest pl1 pl _ w' hc x hx with h1 | h1
      · rcases hpl1 x h1 with h2 | h2
        · exact Or.inl h2
        · right; simp [h2]
      · right; simp only [List.map_cons, List.mem_cons]; exact Or.inr h1
    cases hr : (lexists cfg .base p w).2 with
    | error e =>
      rw [hr] at h
      exact step _ (fun y hy => Or.inl (by rw [all_failed] at hy; exact hy)) h
    | ok o =>
      rw [hr] at h
      cases o with
      | none => exact step _ (fun y hy => Or.inl hy) h
      | some i => exact step _ (fun y hy => all_snoc_removeBase pl0 p y hy) h
  | (p, some i) :: rest, pl0, pl, w, w', h => by
    unfold classify at h
    intro x hx
    have step : ∀ (pl1 : RollbackPlan) (w1 : World), (∀ y ∈ pl1.all, y ∈ pl0.all ∨ y = p) →
        classify cfg rest pl1 w1 = (w', .ok pl) →
        x ∈ pl0.all ∨ x ∈ ((p, some i) :: rest).map Prod.fst := by
      intro pl1 w1 hpl1 hc
      rcases classify_sub cfg rest pl1 pl _ w' hc x hx with h1 | h1
      · rcases hpl1 x h1 with h2 | h2
        · exact Or.inl h2
        · right; simp [h2]
      · right; simp only [List.map_cons, List.mem_cons]; exact Or.inr h1
    split at h
    · obtain ⟨f, w1, -, hc⟩ := M.bind_ok_inv h
      refine step _ w1 (fun y hy => Or.inl ?_) hc
      cases f
      · exact hy
      · exact hy
    · cases hk : i.kind <;> rw [hk] at h <;> simp only at h
      · exact step _ _ (fun y hy => all_snoc_files pl0 p y hy) h
      · exact step _ _ (fun y hy => all_snoc_dirs pl0 p y hy) h
      · exact step _ _ (fun y hy => all_snoc_links pl0 p y hy) h

end BackupFS
end BFS

namespace BFS
namespace BackupFS

theorem mem_sortBy {lt : Path → Path → Bool} {l : List Path} {x : Path} : x ∈ sortBy lt l ↔ x ∈ l :=
  (sortBy_perm lt l).mem_iff

/-- the root entry of the first loop names the root (which is tracked) only -/
theorem ensureRoot_names (cfg : Cfg) (p : Path) (i : Info) : Logs (ensureRoot cfg p i) (Names p) := by
  unfold ensureRoot
  apply Logs.bind (Logs.attempt (lexists_names cfg .base p)); intro r
  cases r with
  | error e => exact Logs.pure _ _
  | ok o => cases o with
    | some _ => exact Logs.pure _ _
    | none =>
      apply Logs.bind (Logs.attempt (primUnit_logs cfg .base _ (primCall_names cfg .base _ p rfl))); intro r2
      cases r2 <;> exact Logs.pure _ _

theorem classify_logs (cfg : Cfg) : ∀ (l : List (Path × Option Info)) (pl0 : RollbackPlan) (S : List Path),
    (∀ x ∈ l.map Prod.fst, x ∈ S) → Logs (classify cfg l pl0) (NamesIn S)
  | [], _, _, _ => Logs.pure _ _
  | (p, none) :: rest, pl0, S, hS => by
    unfold classify
    have hp : p ∈ S := hS p (by simp)
    have hrest : ∀ x ∈ rest.map Prod.fst, x ∈ S := fun x hx => hS x (by simp [hx])
    apply Logs.bind (Logs.attempt ((lexists_names cfg .base p).mono (fun e he => ⟨p, hp, he⟩))); intro r
    cases r with
    | error e => exact classify_logs cfg rest _ S hrest
    | ok o => cases o <;> exact classify_logs cfg rest _ S hrest
  | (p, some i) :: rest, pl0, S, hS => by
    unfold classify
    have hp : p ∈ S := hS p (by simp)
    have hrest : ∀ x ∈ rest.map Prod.fst, x ∈ S := fun x hx => hS x (by simp [hx])
    split
    · apply Logs.bind ((ensureRoot_names cfg p i).mono (fun e he => ⟨p, hp, he⟩)); intro f
      exact classify_logs cfg rest _ S hrest
    · cases i.kind <;> exact classify_logs cfg rest _ S hrest

theorem removeBaseAct_names (cfg : Cfg) (p : Path) : Logs (removeBaseAct cfg p) (Names p) := by
  unfold removeBaseAct
  exact primUnit_logs cfg .base _ (primCall_names cfg .base _ p rfl)

theorem restoreDirAct_names (cfg : Cfg) (infos) (p : Path) : Logs (restoreDirAct cfg infos p) (Names p) := by
  unfold restoreDirAct
  apply Logs.bind (lexists_names cfg .base p); intro cur
  apply Logs.bind (whenM_logs (primUnit_logs cfg .base _ (primCall_names cfg .base _ p rfl))); intro _
  split
  · exact copyDir_names cfg .base p _
  · exact Logs.pure _ _

theorem restoreFileAct_names (cfg : Cfg) (infos) (p : Path) : Logs (restoreFileAct cfg infos p) (Names p) := by
  unfold restoreFileAct
  split
  · exact restoreFile_names cfg p _
  · exact Logs.pure _ _

theorem restoreLinkAct_names (cfg : Cfg) (infos) (p : Path) : Logs (restoreLinkAct cfg infos p) (Names p) := by
  unfold restoreLinkAct
  split
  · exact restoreSymlink_names cfg p _
  · exact Logs.pure _ _

theorem cleanupAct_names (cfg : Cfg) (p : Path) : Logs (cleanupAct cfg p) (Names p) := by
  unfold cleanupAct
  apply Logs.bind (lexists_names cfg .backup p); intro o
  cases o with
  | none => exact Logs.pure _ _
  | some i => exact primUnit_logs cfg .backup _ (primCall_names cfg .backup _ p rfl)

/-- T13.1 (footprint): every primitive call Rollback issues, on the base and on the backup
filesystem, names a path that is tracked when Rollback starts. -/
theorem rollback_footprint (cfg : Cfg) (w : World) :
    Extends (NamesIn (w.infos.map Prod.fst)) w (rollback cfg w).1 := by
  unfold rollback
  rw [M.bind_apply]
  simp only [getW]
  generalize hS : w.infos.map Prod.fst = S
  have hsub : ∀ x ∈ w.infos.map Prod.fst, x ∈ S := by rw [hS]; intro x hx; exact hx
  suffices h : Logs (classify cfg w.infos {} >>= fun pl => do
      let e1 ← forEachCollect (removeBaseAct cfg) (sortMost pl.removeBase)
      let e2 ← forEachCollect (restoreDirAct cfg w.infos) (sortLeast pl.dirs)
      let e3 ← forEachCollect (restoreFileAct cfg w.infos) (sortStrings pl.files)
      let e4 ← forEachCollect (restoreLinkAct cfg w.infos) (sortStrings pl.links)
      let e5 ← removeBackupPaths cfg pl.links
      let e6 ← removeBackupPaths cfg pl.files
      let e7 ← removeBackupPaths cfg pl.dirs
      modifyW (fun w => { w with infos := [] })
      pure ((if e1 then true else pl.failed) || e2 || e3 || e4 || e5 || e6 || e7)) (NamesIn S) from h w
  apply Logs.bind' (classify_logs cfg w.infos {} S hsub)
  intro w1 w2 pl hpl
  have hplS : ∀ x ∈ pl.all, x ∈ S := by
    intro x hx
    rcases classify_sub cfg w.infos {} pl w1 w2 hpl x hx with h1 | h1
    · simp [RollbackPlan.all] at h1
    · exact hsub x h1
  have hrb : ∀ x ∈ pl.removeBase, x ∈ S := fun x hx => hplS x (by simp [RollbackPlan.all, hx])
  have hd : ∀ x ∈ pl.dirs, x ∈ S := fun x hx => hplS x (by simp [RollbackPlan.all, hx])
  have hf : ∀ x ∈ pl.files, x ∈ S := fun x hx => hplS x (by simp [RollbackPlan.all, hx])
  have hl : ∀ x ∈ pl.links, x ∈ S := fun x hx => hplS x (by simp [RollbackPlan.all, hx])
  revert w2
  suffices h : Logs (do
      let e1 ← forEachCollect (removeBaseAct cfg) (sortMost pl.removeBase)
      let e2 ← forEachCollect (restoreDirAct cfg w.infos) (sortLeast pl.dirs)
      let e3 ← forEachCollect (restoreFileAct cfg w.infos) (sortStrings pl.files)
      let e4 ← forEachCollect (restoreLinkAct cfg w.infos) (sortStrings pl.links)
      let e5 ← removeBackupPaths cfg pl.links
      let e6 ← removeBackupPaths cfg pl.files
      let e7 ← removeBackupPaths cfg pl.dirs
      modifyW (fun w => { w with infos := [] })
      pure ((if e1 then true else pl.failed) || e2 || e3 || e4 || e5 || e6 || e7)) (NamesIn S) by
    intro w2 _; exact h w2
  have hrbp : ∀ (ps : List Path), (∀ x ∈ ps, x ∈ S) → Logs (removeBackupPaths cfg ps) (NamesIn S) := by
    intro ps hps
    unfold removeBackupPaths
    exact forEachCollect_names S (cleanupAct_names cfg) _ (fun x hx => hps x (mem_sortBy.mp hx))
  apply Logs.bind (forEachCollect_names S (removeBaseAct_names cfg) _ (fun x hx => hrb x (mem_sortBy.mp hx))); intro e1
  apply Logs.bind (forEachCollect_names S (restoreDirAct_names cfg _) _ (fun x hx => hd x (mem_sortBy.mp hx))); intro e2
  apply Logs.bind (forEachCollect_names S (restoreFileAct_names cfg _) _ (fun x hx => hf x (mem_sortBy.mp hx))); intro e3
  apply Logs.bind (forEachCollect_names S (restoreLinkAct_names cfg _) _ (fun x hx => hl x (mem_sortBy.mp hx))); intro e4
  apply Logs.bind (hrbp _ hl); intro e5
  apply Logs.bind (hrbp _ hf); intro e6
  apply Logs.bind (hrbp _ hd); intro e7
  apply Logs.bind (Logs.modifyW (f := fun w => { w with infos := [] }) _ (fun _ => rfl)); intro _
  exact Logs.pure _ _

end BackupFS
end BFS
