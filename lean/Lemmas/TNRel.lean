import Lemmas.TRel3
import Lemmas.NSimOSBase
/-!
  Lemmas/TNRel.lean — non-interference of the OS model *with a hole* (C03 in the nested layering).

  In the README layering the backup location `bk ++ hk` lies inside the base tree; what `prepare`
  writes there is invisible through `HiddenFS` but it is on the same disk.  Two well-formed disks
  that show the same at every key `bk ++ k` with `k` not at or below `hk` (directory timestamps
  erased; `VEq bk hk`) resolve every text naming such a key the same way and every syscall on such a
  key gives the same result and keeps the agreement.  This is `Lemmas/TRel.lean`, `TRel2.lean`,
  `TRel3.lean` once more with the agreement set `{bk ++ k | ¬ hk <+: k}` (closed under ancestors) in
  place of `{K | bk <+: K}`; `Remove` of the parent of the location needs the location to exist on
  both disks, `Rename` needs both subtrees to lie in the agreement set (not an ancestor of `hk`).
-/
namespace BFS.N
open MFS

/-- the two disks show the same at every visible key at or below `bk`, up to directory timestamps,
and have the same umask -/
structure VEq (bk hk : Key) (m1 m2 : MFS) : Prop where
  get : ∀ k, ¬ hk <+: k → (m1.get (bk ++ k)).map eraseMt = (m2.get (bk ++ k)).map eraseMt
  umask : m1.umask = m2.umask

section
variable {bk hk dd : Key}

theorem VEq.refl (bk hk : Key) (m : MFS) : VEq bk hk m m := ⟨fun _ _ => rfl, rfl⟩

theorem VEq.symm {m1 m2 : MFS} (h : VEq bk hk m1 m2) : VEq bk hk m2 m1 :=
  ⟨fun k hv => (h.get k hv).symm, h.umask.symm⟩

theorem VEq.trans {m1 m2 m3 : MFS} (h1 : VEq bk hk m1 m2) (h2 : VEq bk hk m2 m3) : VEq bk hk m1 m3 :=
  ⟨fun k hv => (h1.get k hv).trans (h2.get k hv), h1.umask.trans h2.umask⟩

theorem VEq.of_beq {m1 m2 : MFS} (h : BEq bk m1 m2) : VEq bk hk m1 m2 :=
  ⟨fun k _ => h.get (bk ++ k) (List.prefix_append _ _), h.umask⟩

theorem VEq.set {m1 m2 : MFS} (h : VEq bk hk m1 m2) (K : Key) {v1 v2 : Option Node}
    (hv : v1.map eraseMt = v2.map eraseMt) : VEq bk hk (m1.set K v1) (m2.set K v2) := by
  refine ⟨?_, h.umask⟩
  intro k hk'
  rw [set_get, set_get]
  split
  · exact hv
  · exact h.get k hk'

theorem VEq.touchDir {m1 m2 : MFS} (h : VEq bk hk m1 m2) (K K2 : Key) :
    VEq bk hk (m1.touchDir K) (m2.touchDir K2) := by
  refine ⟨?_, by rw [touchDir_umask, touchDir_umask]; exact h.umask⟩
  intro k hk'
  rw [touchDir_erase, touchDir_erase]
  exact h.get k hk'

theorem VEq.removeSubtree {m1 m2 : MFS} (h : VEq bk hk m1 m2) (K : Key) :
    VEq bk hk (m1.removeSubtree K) (m2.removeSubtree K) := by
  refine ⟨?_, h.umask⟩
  intro k hk'
  rw [removeSubtree_get, removeSubtree_get]
  split
  · rfl
  · exact h.get k hk'

/-- nothing at or below `ko` is hidden: `ko` is neither hidden nor an ancestor of the location -/
def Clear (hk ko : Key) : Prop := ¬ hk <+: ko ∧ ¬ ko <+: hk

theorem Clear.below {ko : Key} (h : Clear hk ko) (x : Key) : ¬ hk <+: ko ++ x := by
  intro e
  rcases List.prefix_or_prefix_of_prefix e (List.prefix_append ko x) with h1 | h1
  · exact h.1 h1
  · exact h.2 h1

theorem Clear.vis {ko : Key} (h : Clear hk ko) : ¬ hk <+: ko := h.1

theorem VEq.moveSubtree {m1 m2 : MFS} (h : VEq bk hk m1 m2) {ko : Key} (Kn : Key) (ho : Clear hk ko) :
    VEq bk hk (m1.moveSubtree (bk ++ ko) Kn) (m2.moveSubtree (bk ++ ko) Kn) := by
  refine ⟨?_, h.umask⟩
  intro k hk'
  rw [moveSubtree_get, moveSubtree_get]
  split
  · rw [List.append_assoc]
    exact h.get _ (ho.below _)
  · split
    · rfl
    · exact h.get k hk'

theorem VEq.none_iff {m1 m2 : MFS} (hb : VEq bk hk m1 m2) {k : Key} (hv : ¬ hk <+: k) :
    m1.get (bk ++ k) = none ↔ m2.get (bk ++ k) = none :=
  ⟨fun h => map_erase_none (hb.get k hv) h, fun h => map_erase_none (hb.get k hv).symm h⟩

theorem VEq.dir_iff {m1 m2 : MFS} (hb : VEq bk hk m1 m2) {k : Key} (hv : ¬ hk <+: k) :
    (∃ mt, m1.get (bk ++ k) = some (.dir mt)) ↔ ∃ mt, m2.get (bk ++ k) = some (.dir mt) :=
  ⟨fun h => erase_eq_dir (hb.get k hv).symm h, fun h => erase_eq_dir (hb.get k hv) h⟩

/-- the hypotheses shared by the lemmas below: two well-formed disks (in the sense of the inner
`PrefixFS`: roots `bk`, `dd`) that agree at the visible keys -/
structure VTwin (bk hk dd : Key) (m1 m2 : MFS) : Prop where
  g1 : OSGood bk dd m1
  g2 : OSGood bk dd m2
  eq : VEq bk hk m1 m2

theorem VTwin.refl {m : MFS} (hg : OSGood bk dd m) : VTwin bk hk dd m m := ⟨hg, hg, VEq.refl bk hk m⟩

/-- along the way to a visible key at or below `bk` the two disks have nodes of the same kind -/
theorem kinds_alongV {m1 m2 : MFS} (h : VTwin bk hk dd m1 m2) {k : Key} (hv : ¬ hk <+: k) (p : Key)
    (hp : p <+: bk ++ k) : (m1.get p).map Node.kind = (m2.get p).map Node.kind := by
  rcases List.prefix_or_prefix_of_prefix (List.prefix_append bk k) hp with hbp | hpb
  · obtain ⟨p', rfl⟩ := hbp
    have hp' : p' <+: k := by
      obtain ⟨t, ht⟩ := hp
      rw [List.append_assoc] at ht
      exact ⟨t, List.append_cancel_left ht⟩
    exact map_erase_kind (h.eq.get p' (vis_of_prefix hv hp'))
  · by_cases he : p = bk
    · subst he
      have := h.eq.get [] (fun e => hv (List.IsPrefix.trans e List.nil_prefix))
      simp only [List.append_nil] at this
      exact map_erase_kind this
    · obtain ⟨mt1, h1⟩ := h.g1.bdir
      obtain ⟨mt2, h2⟩ := h.g2.bdir
      obtain ⟨a, ha⟩ := h.g1.ancestor h1 hpb he
      obtain ⟨b, hb'⟩ := h.g2.ancestor h2 hpb he
      rw [ha, hb']
      rfl

theorem namei_relV {m1 m2 : MFS} (h : VTwin bk hk dd m1 m2) {k : Key} (hv : ¬ hk <+: k)
    (hK : PKey (bk ++ k)) {t : Path} (ht : TextOf t (bk ++ k)) (f : Bool) :
    NameiRel m1 m2 (bk ++ k) (namei m1 t f) (namei m2 t f) := by
  have hg1 := h.g1
  have hg2 := h.g2
  have hb := h.eq
  have hnl1 : NoLinkUpto m1 (bk ++ k) := hg1.noLinkUpto .base k
  have hnl2 : NoLinkUpto m2 (bk ++ k) := hg2.noLinkUpto .base k
  have hne_of_none : m1.get (bk ++ k) = none → k ≠ [] := by
    intro h0 e
    obtain ⟨mt, hm⟩ := hg1.bdir
    rw [e, List.append_nil, hm] at h0
    cases h0
  have hdl : ∀ hne : k ≠ [], (bk ++ k).dropLast = bk ++ k.dropLast := fun hne => append_dropLast hne
  rcases namei_cases hg1 hK hnl1 ht f with ⟨n1, h1, hl1, hr1⟩ | ⟨hne, mt1, h1, hp1, hr1⟩ | ⟨e1, hne, h1, hp1, hr1, he1⟩
  · obtain ⟨n2, h2, he⟩ := map_erase_some (hb.get _ hv) h1
    rcases namei_cases hg2 hK hnl2 ht f with ⟨n2', h2', hl2, hr2⟩ | ⟨_, _, h2', _, _⟩ | ⟨_, _, h2', _, _, _⟩
    · rw [h2] at h2'
      cases h2'
      rw [hr1, hr2]
      exact .found n1 n2 h1 h2 he hl1 hl2
    · rw [h2] at h2'; cases h2'
    · rw [h2] at h2'; cases h2'
  · have h2 : m2.get (bk ++ k) = none := (hb.none_iff hv).mp h1
    have hkne := hne_of_none h1
    rw [hdl hkne] at hp1
    obtain ⟨n2, hp2, hpe⟩ := map_erase_some (hb.get _ (vis_dropLast hv)) hp1
    obtain ⟨mt2, rfl⟩ := erase_dir_left hpe
    rcases namei_cases hg2 hK hnl2 ht f with ⟨n2', h2', _, _⟩ | ⟨hne2, mt2', _, _, hr2⟩ | ⟨_, _, _, hp2', _, _⟩
    · rw [h2] at h2'; cases h2'
    · rw [hr1, hr2]
      exact .missing hne mt1 mt2 h1 h2 (by rw [hdl hkne]; exact hp1) (by rw [hdl hkne]; exact hp2) hpe
    · rw [hdl hkne] at hp2'
      exact absurd ⟨mt2, hp2⟩ hp2'
  · have h2 : m2.get (bk ++ k) = none := (hb.none_iff hv).mp h1
    have hkne := hne_of_none h1
    have hp2 : ¬ ∃ mt, m2.get (bk ++ k).dropLast = some (.dir mt) := by
      intro hx
      apply hp1
      rw [hdl hkne] at hx ⊢
      exact (hb.dir_iff (vis_dropLast hv)).mpr hx
    rcases namei_cases hg2 hK hnl2 ht f with ⟨n2', h2', _, _⟩ | ⟨_, mt2', _, hp2', _⟩ | ⟨e2, _, _, _, hr2, _⟩
    · rw [h2] at h2'; cases h2'
    · exact absurd ⟨mt2', hp2'⟩ hp2
    · -- same error class: walk both disks
      obtain ⟨tl, fuel, htl, hf, hw⟩ := namei_walk' hK ht
      have hsh := walk_shape m1 m2 f 0 tl htl (bk ++ k) [] fuel hK
        (fun p hp => by simpa using kinds_alongV h hv p hp)
        (fun p hp _ t mt => by simpa using hnl1 p hp t mt) hf
      rw [← hw m1 f, ← hw m2 f, hr1, hr2] at hsh
      have : e1 = e2 := hsh
      subst this
      rw [hr1, hr2]
      exact .err e1 hne h1 h2 hp1 hp2 he1

theorem VTwin.namei {m1 m2 : MFS} (h : VTwin bk hk dd m1 m2) (hbk : PKey bk) {k : Key} (hk' : PKey k)
    (hv : ¬ hk <+: k) {t : Path} (ht : TextOf t (bk ++ k)) (f : Bool) :
    NameiRel m1 m2 (bk ++ k) (namei m1 t f) (namei m2 t f) :=
  namei_relV h hv (hbk.append hk') ht f

/-! ### Mkdir -/

theorem mkdir_relV {m1 m2 : MFS} (h : VTwin bk hk dd m1 m2) (hbk : PKey bk) {k : Key} (hk' : PKey k)
    (hv : ¬ hk <+: k) {t : Path} (ht : TextOf t (bk ++ k)) (perm : Nat) :
    (m1.mkdir t perm).2 = (m2.mkdir t perm).2 ∧ VEq bk hk (m1.mkdir t perm).1 (m2.mkdir t perm).1 := by
  unfold MFS.mkdir
  rcases (h.namei hbk hk' hv ht false).split with ⟨n1, n2, e1, e2, _⟩ | ⟨hne, mt1, mt2, e1, e2, _, _, hp1, hp2, hpe⟩ |
    ⟨e, e1, e2, _⟩
  · rw [e1, e2]
    exact ⟨rfl, h.eq⟩
  · rw [e1, e2]
    simp only [inheritGid_rel hp1 hp2 hpe, h.eq.umask]
    exact ⟨trivial, (h.eq.set _ rfl).touchDir _ _⟩
  · rw [e1, e2]
    exact ⟨rfl, h.eq⟩

/-! ### OpenFile -/

theorem openFile_relV {m1 m2 : MFS} (h : VTwin bk hk dd m1 m2) (hbk : PKey bk) {k : Key} (hk' : PKey k)
    (hv : ¬ hk <+: k) {t : Path} (ht : TextOf t (bk ++ k)) (flag perm : Nat) :
    (m1.openFile t flag perm).2 = (m2.openFile t flag perm).2 ∧
      VEq bk hk (m1.openFile t flag perm).1 (m2.openFile t flag perm).1 := by
  unfold MFS.openFile
  simp only
  rcases (h.namei hbk hk' hv ht (!(hasFlag flag O_CREATE && hasFlag flag O_EXCL))).split with
    ⟨n1, n2, e1, e2, _, _, he, hl1, hl2⟩ | ⟨hne, mt1, mt2, e1, e2, _, _, hp1, hp2, hpe⟩ | ⟨e, e1, e2, _⟩
  · rw [e1, e2]
    simp only
    split
    · exact ⟨rfl, h.eq⟩
    · cases n1 with
      | link t1 mt1 => cases hl1
      | dir mt1 =>
        obtain ⟨mt2, rfl⟩ := erase_dir_left he
        simp only
        split
        · exact ⟨rfl, h.eq⟩
        · exact ⟨rfl, h.eq⟩
      | file c1 mt1 =>
        have := erase_nondir he rfl
        subst this
        simp only
        split
        · exact ⟨rfl, h.eq.set _ rfl⟩
        · exact ⟨rfl, h.eq⟩
  · rw [e1, e2]
    simp only
    split
    · exact ⟨rfl, h.eq⟩
    · simp only [inheritGid_rel hp1 hp2 hpe, h.eq.umask]
      exact ⟨trivial, (h.eq.set _ rfl).touchDir _ _⟩
  · rw [e1, e2]
    exact ⟨rfl, h.eq⟩

/-! ### Write through a handle -/

theorem hwrite_relV {m1 m2 : MFS} (hb : VEq bk hk m1 m2) {hd : Handle} {k : Key} (hkey : hd.key = bk ++ k)
    (hv : ¬ hk <+: k) (off : Nat) (d : String) :
    (m1.hwrite hd off d).2 = (m2.hwrite hd off d).2 ∧ VEq bk hk (m1.hwrite hd off d).1 (m2.hwrite hd off d).1 := by
  unfold MFS.hwrite
  split
  · exact ⟨rfl, hb⟩
  · have hget := hb.get k hv
    rw [← hkey] at hget
    cases h1 : m1.get hd.key with
    | none =>
      rw [map_erase_none hget h1]
      exact ⟨rfl, hb⟩
    | some n1 =>
      obtain ⟨n2, h2, he⟩ := map_erase_some hget h1
      rw [h2]
      cases n1 with
      | file c mt =>
        have := erase_nondir he rfl
        subst this
        simp only
        split
        · exact ⟨rfl, hb⟩
        · exact ⟨rfl, hb.set _ rfl⟩
      | dir mt =>
        obtain ⟨mt2, rfl⟩ := erase_dir_left he
        exact ⟨rfl, hb⟩
      | link tt mt =>
        have := erase_nondir he rfl
        subst this
        exact ⟨rfl, hb⟩

/-! ### Remove -/

/-- a child of a visible key is visible, or it is the location itself -/
theorem child_vis_or_loc {k : Key} (hv : ¬ hk <+: k) (c : Name) : ¬ hk <+: k ++ [c] ∨ k ++ [c] = hk := by
  by_cases h : hk <+: k ++ [c]
  · right
    rcases List.prefix_concat_iff.mp h with h1 | h1
    · exact h1.symm
    · exact absurd h1 hv
  · exact Or.inl h

theorem hasChildren_relV {m1 m2 : MFS} (h : VTwin bk hk dd m1 m2)
    (hl1 : m1.get (bk ++ hk) ≠ none) (hl2 : m2.get (bk ++ hk) ≠ none) {k : Key} (hv : ¬ hk <+: k) :
    m1.hasChildren (bk ++ k) = m2.hasChildren (bk ++ k) := by
  have hiff : m1.hasChildren (bk ++ k) = false ↔ m2.hasChildren (bk ++ k) = false := by
    rw [hasChildren_false_iff h.g1, hasChildren_false_iff h.g2]
    constructor
    · intro a c
      have ac := a c
      rw [List.append_assoc] at ac ⊢
      rcases child_vis_or_loc hv c with hc | hc
      · exact (h.eq.none_iff hc).mp ac
      · rw [hc] at ac; exact absurd ac hl1
    · intro a c
      have ac := a c
      rw [List.append_assoc] at ac ⊢
      rcases child_vis_or_loc hv c with hc | hc
      · exact (h.eq.none_iff hc).mpr ac
      · rw [hc] at ac; exact absurd ac hl2
  cases a : m1.hasChildren (bk ++ k) <;> cases b : m2.hasChildren (bk ++ k) <;> simp_all

theorem remove_relV {m1 m2 : MFS} (h : VTwin bk hk dd m1 m2)
    (hl1 : m1.get (bk ++ hk) ≠ none) (hl2 : m2.get (bk ++ hk) ≠ none) (hbk : PKey bk) {k : Key} (hk' : PKey k)
    (hv : ¬ hk <+: k) {t : Path} (ht : TextOf t (bk ++ k)) :
    (m1.remove t).2 = (m2.remove t).2 ∧ VEq bk hk (m1.remove t).1 (m2.remove t).1 := by
  unfold MFS.remove
  rcases (h.namei hbk hk' hv ht false).split with ⟨n1, n2, e1, e2, _, _, he, hl1', hl2'⟩ | ⟨hne, mt1, mt2, e1, e2, _⟩ |
    ⟨e, e1, e2, _⟩
  · rw [e1, e2]
    simp only
    split
    · exact ⟨rfl, h.eq⟩
    · cases n1 with
      | link t1 mt1 => cases hl1'
      | dir mt1 =>
        obtain ⟨mt2, rfl⟩ := erase_dir_left he
        simp only [hasChildren_relV h hl1 hl2 hv]
        split
        · exact ⟨rfl, h.eq⟩
        · exact ⟨rfl, (h.eq.set _ rfl).touchDir _ _⟩
      | file c1 mt1 =>
        have := erase_nondir he rfl
        subst this
        exact ⟨rfl, (h.eq.set _ rfl).touchDir _ _⟩
  · rw [e1, e2]
    exact ⟨rfl, h.eq⟩
  · rw [e1, e2]
    exact ⟨rfl, h.eq⟩

/-! ### Chmod, Chown, Lchown, Chtimes -/

theorem metaOp_relV {m1 m2 : MFS} (h : VTwin bk hk dd m1 m2) (hbk : PKey bk) {k : Key} (hk' : PKey k)
    (hv : ¬ hk <+: k) {t : Path} (ht : TextOf t (bk ++ k)) (follow : Bool) {f : Node → Node} (hf : EraseCongr f) :
    (metaOp m1 t follow f).2 = (metaOp m2 t follow f).2 ∧ VEq bk hk (metaOp m1 t follow f).1 (metaOp m2 t follow f).1 := by
  unfold metaOp
  rcases (h.namei hbk hk' hv ht follow).split with ⟨n1, n2, e1, e2, _, _, he, _, _⟩ | ⟨hne, mt1, mt2, e1, e2, _⟩ |
    ⟨e, e1, e2, _⟩
  · rw [e1, e2]
    refine ⟨rfl, h.eq.set _ ?_⟩
    simp only [Option.map_some, Option.some.injEq]
    exact hf n1 n2 he
  · rw [e1, e2]
    exact ⟨rfl, h.eq⟩
  · rw [e1, e2]
    exact ⟨rfl, h.eq⟩

end

end BFS.N
