import Model.JsonText
import Lemmas.Order
/-! JSON text layer (C12): the canonical form of a map (`insertKV`, `normalise`). -/
namespace BFS.JsonText

/-- strictly sorted by key -/
def KSorted {β : Type} (l : List (List Char × β)) : Prop :=
  l.Pairwise (fun a b => strLt a.1 b.1 = true)

def keys {β : Type} (l : List (List Char × β)) : List (List Char) := l.map (·.1)

theorem keys_perm {β : Type} {l₁ l₂ : List (List Char × β)} (hp : l₁.Perm l₂) :
    (keys l₁).Perm (keys l₂) := hp.map _

theorem mem_insertKV {β : Type} {k : List Char} {v : β} {x : List Char × β} :
    ∀ {l : List (List Char × β)}, x ∈ insertKV k v l → x = (k, v) ∨ x ∈ l
  | [], h => by simp [insertKV] at h; exact Or.inl h
  | (k', v') :: rest, h => by
    simp only [insertKV] at h
    split at h
    · rcases List.mem_cons.mp h with h | h
      · exact Or.inl h
      · exact Or.inr (List.mem_cons_of_mem _ h)
    · split at h
      · rcases List.mem_cons.mp h with h | h
        · exact Or.inl h
        · exact Or.inr h
      · rcases List.mem_cons.mp h with h | h
        · exact Or.inr (by rw [h]; simp)
        · rcases mem_insertKV h with h | h
          · exact Or.inl h
          · exact Or.inr (List.mem_cons_of_mem _ h)

theorem insertKV_sorted {β : Type} (k : List Char) (v : β) :
    ∀ {l : List (List Char × β)}, KSorted l → KSorted (insertKV k v l)
  | [], _ => by simp [insertKV, KSorted]
  | (k', v') :: rest, h => by
    have h' := List.pairwise_cons.mp h
    simp only [insertKV]
    split
    · rename_i hk
      subst hk
      exact List.pairwise_cons.mpr ⟨h'.1, h'.2⟩
    · split
      · rename_i hne hlt
        refine List.pairwise_cons.mpr ⟨?_, h⟩
        intro x hx
        rcases List.mem_cons.mp hx with rfl | hx
        · exact hlt
        · exact strLt_trans hlt (h'.1 x hx)
      · rename_i hne hlt
        have hgt : strLt k' k = true := by
          rcases strLt_total hne with h1 | h1
          · exact absurd h1 hlt
          · exact h1
        refine List.pairwise_cons.mpr ⟨?_, insertKV_sorted k v h'.2⟩
        intro x hx
        rcases mem_insertKV hx with rfl | hx
        · exact hgt
        · exact h'.1 x hx

theorem foldl_insert_sorted {β : Type} : ∀ (l acc : List (List Char × β)), KSorted acc →
    KSorted (l.foldl (fun acc e => insertKV e.1 e.2 acc) acc)
  | [], _, h => h
  | e :: l, _, h => foldl_insert_sorted l _ (insertKV_sorted e.1 e.2 h)

theorem normalise_sorted {β : Type} (m : List (List Char × β)) : KSorted (normalise m) :=
  foldl_insert_sorted m [] List.Pairwise.nil

theorem mem_foldl_insert {β : Type} {x : List Char × β} :
    ∀ (l acc : List (List Char × β)), x ∈ l.foldl (fun acc e => insertKV e.1 e.2 acc) acc →
      x ∈ acc ∨ x ∈ l
  | [], _, h => Or.inl h
  | e :: l, acc, h => by
    rcases mem_foldl_insert l _ h with h | h
    · rcases mem_insertKV h with rfl | h
      · exact Or.inr (by simp)
      · exact Or.inl h
    · exact Or.inr (List.mem_cons_of_mem _ h)

/-- the canonical form contains nothing new -/
theorem mem_normalise {β : Type} {x : List Char × β} {m : List (List Char × β)}
    (h : x ∈ normalise m) : x ∈ m := by
  rcases mem_foldl_insert m [] h with h | h
  · cases h
  · exact h

/-- a key above all others goes to the end -/
theorem insertKV_last {β : Type} (k : List Char) (v : β) :
    ∀ (acc : List (List Char × β)), (∀ x ∈ acc, strLt x.1 k = true) →
      insertKV k v acc = acc ++ [(k, v)]
  | [], _ => rfl
  | (k', v') :: rest, h => by
    have hlt : strLt k' k = true := h (k', v') (by simp)
    have hne : k ≠ k' := by
      intro he; subst he; rw [strLt_irrefl] at hlt; cases hlt
    have hnlt : strLt k k' = false := strLt_asymm hlt
    simp only [insertKV, hne, if_false, hnlt, Bool.false_eq_true, List.cons_append]
    rw [insertKV_last k v rest (fun x hx => h x (List.mem_cons_of_mem _ hx))]

theorem foldl_insert_of_sorted {β : Type} : ∀ (l acc : List (List Char × β)), KSorted (acc ++ l) →
    l.foldl (fun acc e => insertKV e.1 e.2 acc) acc = acc ++ l
  | [], acc, _ => by simp
  | e :: l, acc, h => by
    have hs := List.pairwise_append.mp h
    have hlast : insertKV e.1 e.2 acc = acc ++ [e] :=
      insertKV_last e.1 e.2 acc (fun x hx => hs.2.2 x hx e (by simp))
    simp only [List.foldl_cons, hlast]
    rw [foldl_insert_of_sorted l (acc ++ [e]) (by simpa using h)]
    simp

/-- a strictly sorted list is its own canonical form -/
theorem normalise_of_sorted {β : Type} {l : List (List Char × β)} (h : KSorted l) : normalise l = l := by
  unfold normalise
  rw [foldl_insert_of_sorted l [] (by simpa using h)]
  rfl

theorem normalise_idem {β : Type} (m : List (List Char × β)) : normalise (normalise m) = normalise m :=
  normalise_of_sorted (normalise_sorted m)

/-! ### distinct keys: a permutation -/

theorem insertKV_perm {β : Type} (k : List Char) (v : β) :
    ∀ (acc : List (List Char × β)), k ∉ keys acc → (insertKV k v acc).Perm ((k, v) :: acc)
  | [], _ => List.Perm.refl _
  | (k', v') :: rest, h => by
    have hne : k ≠ k' := by intro he; apply h; simp [keys, he]
    have hrest : k ∉ keys rest := by intro hc; apply h; simp only [keys, List.map_cons]; exact List.mem_cons_of_mem _ hc
    simp only [insertKV, hne, if_false]
    split
    · exact List.Perm.refl _
    · exact ((insertKV_perm k v rest hrest).cons (k', v')).trans (List.Perm.swap _ _ _)

theorem foldl_insert_perm {β : Type} : ∀ (l acc : List (List Char × β)), (keys (acc ++ l)).Nodup →
    (l.foldl (fun acc e => insertKV e.1 e.2 acc) acc).Perm (acc ++ l)
  | [], acc, _ => by simp
  | e :: l, acc, h => by
    have hk : e.1 ∉ keys acc := by
      simp only [keys, List.map_append, List.map_cons] at h
      have := (List.nodup_append.mp h).2.2
      intro hc
      exact this e.1 hc e.1 (by simp) rfl
    have hp := insertKV_perm e.1 e.2 acc hk
    have hnd : (keys (insertKV e.1 e.2 acc ++ l)).Nodup := by
      have hp2 : (insertKV e.1 e.2 acc ++ l).Perm (acc ++ e :: l) :=
        (hp.append_right l).trans (by simpa using (List.perm_middle (a := e) (l₁ := acc) (l₂ := l)).symm)
      exact ((keys_perm hp2).nodup_iff).mpr h
    simp only [List.foldl_cons]
    refine (foldl_insert_perm l _ hnd).trans ?_
    exact (hp.append_right l).trans (by simpa using (List.perm_middle (a := e) (l₁ := acc) (l₂ := l)).symm)

/-- with distinct keys the canonical form is a permutation: nothing is lost, nothing is merged -/
theorem normalise_perm {β : Type} {m : List (List Char × β)} (h : (keys m).Nodup) :
    (normalise m).Perm m := by
  have := foldl_insert_perm m [] (by simpa using h)
  unfold normalise
  simpa using this

/-- strictly sorted permutations of each other are equal -/
theorem ksorted_perm_unique {β : Type} {l₁ l₂ : List (List Char × β)} (h₁ : KSorted l₁)
    (h₂ : KSorted l₂) (hp : l₁.Perm l₂) : l₁ = l₂ :=
  List.Perm.eq_of_pairwise
    (fun a b _ _ hab hba => by rw [strLt_asymm hab] at hba; cases hba) h₁ h₂ hp

/-- the order in which the entries of a map are listed does not matter -/
theorem normalise_perm_invariant {β : Type} {m₁ m₂ : List (List Char × β)} (hp : m₁.Perm m₂)
    (h : (keys m₁).Nodup) : normalise m₁ = normalise m₂ := by
  have h2 : (keys m₂).Nodup := ((keys_perm hp).nodup_iff).mp h
  exact ksorted_perm_unique (normalise_sorted _) (normalise_sorted _)
    ((normalise_perm h).trans (hp.trans (normalise_perm h2).symm))

/-! ### lookups -/

theorem lookup_eq_some_iff {β : Type} (k : List Char) (v : β) :
    ∀ (l : List (List Char × β)), (keys l).Nodup → (l.lookup k = some v ↔ (k, v) ∈ l)
  | [], _ => by simp
  | (k', v') :: rest, h => by
    have hnd : k' ∉ keys rest ∧ (keys rest).Nodup := List.nodup_cons.mp h
    rw [List.lookup_cons]
    by_cases hk : k = k'
    · subst hk
      simp only [beq_self_eq_true, Option.some.injEq, List.mem_cons, Prod.mk.injEq, true_and]
      constructor
      · intro hv; exact Or.inl hv.symm
      · rintro (hv | hm)
        · exact hv.symm
        · exact absurd (List.mem_map_of_mem (f := fun e : List Char × β => e.1) hm) hnd.1
    · have hb : (k == k') = false := by simpa using hk
      simp only [hb, List.mem_cons, Prod.mk.injEq, hk, false_and, false_or]
      exact lookup_eq_some_iff k v rest hnd.2

theorem lookup_perm {β : Type} {l₁ l₂ : List (List Char × β)} (hp : l₁.Perm l₂)
    (h : (keys l₁).Nodup) (k : List Char) : l₁.lookup k = l₂.lookup k := by
  have h2 : (keys l₂).Nodup := ((keys_perm hp).nodup_iff).mp h
  apply Option.ext
  intro v
  rw [lookup_eq_some_iff k v l₁ h, lookup_eq_some_iff k v l₂ h2]
  exact hp.mem_iff

/-- what `baseInfos[k]` yields is unchanged by canonicalisation -/
theorem lookup_normalise {β : Type} {m : List (List Char × β)} (h : (keys m).Nodup) (k : List Char) :
    (normalise m).lookup k = m.lookup k :=
  lookup_perm (normalise_perm h) ((keys_perm (normalise_perm h)).nodup_iff.mpr h) k

/-! ### maps over the values -/

theorem insertKV_map {β γ : Type} (g : List Char → β → γ) (k : List Char) (v : β) :
    ∀ (l : List (List Char × β)),
      (insertKV k v l).map (fun e => (e.1, g e.1 e.2)) = insertKV k (g k v) (l.map (fun e => (e.1, g e.1 e.2)))
  | [] => rfl
  | (k', v') :: rest => by
    simp only [insertKV, List.map_cons]
    split
    · rename_i hk; subst hk; rfl
    · split
      · rfl
      · simp only [List.map_cons, insertKV_map g k v rest]

theorem foldl_insert_map {β γ : Type} (g : List Char → β → γ) :
    ∀ (l acc : List (List Char × β)),
      (l.foldl (fun acc e => insertKV e.1 e.2 acc) acc).map (fun e => (e.1, g e.1 e.2))
        = (l.map (fun e => (e.1, g e.1 e.2))).foldl (fun acc e => insertKV e.1 e.2 acc)
            (acc.map (fun e => (e.1, g e.1 e.2)))
  | [], _ => rfl
  | e :: l, acc => by
    simp only [List.foldl_cons, List.map_cons]
    rw [foldl_insert_map g l, insertKV_map]

/-- canonicalisation commutes with a key-preserving map over the entries -/
theorem normalise_map {β γ : Type} (g : List Char → β → γ) (m : List (List Char × β)) :
    (normalise m).map (fun e => (e.1, g e.1 e.2)) = normalise (m.map (fun e => (e.1, g e.1 e.2))) :=
  foldl_insert_map g m []

end BFS.JsonText
