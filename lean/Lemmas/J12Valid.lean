import Lemmas.J12OS
import Lemmas.J12Def
import Lemmas.Json
import Lemmas.Restore
import Lemmas.RestoreB
import Lemmas.LTx
import Lemmas.LSimOS
/-!
  Lemmas/J12Valid.lean — C12 end to end: every tracked `FileInfo` survives the JSON round trip
  (`Info.Valid`), hence a restart is the identity on the world, at any point of any covered
  history.

  * name: provenance (`J12Name`): the info stored for `p` is what base `Lstat p` reported, whose
    name through the base `PrefixFS` is `Base p` for an absolute cleaned `p` — also for "/";
  * permission bits, uid, gid: the transaction invariant (`Inv.saved`) says that the stored info
    describes the ORIGINAL node (`v0 k`), whose mode has 12 bits (`GoodView.mode`) and whose owner
    is an owner of the initial disk (`SmallView v0`).  Owners set by `Chown` during the
    transaction are never recorded: first write wins.
-/
namespace BFS
namespace J12
open BackupFS

variable {cfg : Cfg}

/-- every tracked info survives the JSON round trip -/
def AllValid (infos : List (Path × Option Info)) : Prop :=
  ∀ e ∈ infos, ∀ i, e.2 = some i → i.Valid e.1

theorem reloadInfos_id (infos : List (Path × Option Info)) (hv : AllValid infos) :
    reloadInfos infos = infos := by
  unfold reloadInfos
  induction infos with
  | nil => rfl
  | cons e rest ih =>
    simp only [List.map_cons]
    rw [ih (fun e' he' => hv e' (List.mem_cons_of_mem _ he'))]
    congr 1
    rcases e with ⟨p, o⟩
    cases o with
    | none => rfl
    | some i => exact reloadEntry_id p i (hv (p, some i) (by simp) i rfl)

/-- persist → restart → reload changes nothing when every tracked info is valid -/
theorem restart_id {w : World} (hv : AllValid w.infos) : restart w = w := by
  unfold restart
  rw [reloadInfos_id w.infos hv]

/-- owners of a view fit 32 bits -/
def SmallView (v : View) : Prop :=
  ∀ k n, v k = some n → n.meta.uid < 4294967296 ∧ n.meta.gid < 4294967296

/-- the name clause, for the paths the covered fragment tracks -/
def NameK (p : Path) (i : Info) : Prop := ∀ k, PKey k → p = kp k → i.name = base p

/-! ### link-free fragment -/

theorem valid_of_inv {S : Sim cfg} {v0 : View} {w : World} (hinv : Inv S v0 w) (hsm : SmallView v0)
    (hn : AllN NameK w.infos) : AllValid w.infos := by
  intro e he i hi
  obtain ⟨p, oi⟩ := e
  simp only at hi
  subst hi
  obtain ⟨k, hk, rfl⟩ := hinv.keys p _ he
  have hl := lookup_of_mem hinv.nodup he
  obtain ⟨n, hn0, hfor, _⟩ := hinv.saved k i hk hl
  obtain ⟨_, h2, h3, h4, _⟩ := hfor
  exact ⟨hn _ _ he k hk rfl, by rw [h2]; exact hinv.orig.mode hn0,
    by rw [h3]; exact (hsm k n hn0).1, by rw [h4]; exact (hsm k n hn0).2⟩

/-- restarts are invisible: any interleaving of covered operations and restarts ends in the world
the operations alone end in -/
theorem runOpsR_eq {S : Sim cfg} {v0 : View} (hL : LstatN cfg NameK) (hsm : SmallView v0) :
    ∀ (steps : List Step) (w : World), Inv S v0 w → AllN NameK w.infos →
      CoveredHist cfg S w (opsOf steps) → runOpsR cfg w steps = runOps cfg w (opsOf steps)
  | [], _, _, _, _ => rfl
  | .inl op :: rest, w, hi, hn, hc => by
    show runOpsR cfg (op.step cfg w) rest = runOps cfg (op.step cfg w) (opsOf rest)
    exact runOpsR_eq hL hsm rest _ (op_keeps hi hc.1).inv (step_allN hL w op hn) hc.2
  | .inr () :: rest, w, hi, hn, hc => by
    show runOpsR cfg (restart w) rest = runOps cfg w (opsOf rest)
    rw [restart_id (valid_of_inv hi hsm hn)]
    exact runOpsR_eq hL hsm rest w hi hn hc

/-- E1, generic form -/
theorem valid_after_history {S : Sim cfg} (hL : LstatN cfg NameK) {w : World} (hg : S.G w.fs)
    (hinfos : w.infos = []) (hsm : SmallView (S.view .base w.fs)) (ops : List Op)
    (hcov : CoveredHist cfg S w ops) : AllValid (runOps cfg w ops).infos :=
  valid_of_inv (history_keeps ops w (Inv.init hg hinfos) hcov).inv hsm
    (runOps_allN hL ops w (by rw [hinfos]; exact AllN.nil))

/-- E2, generic form -/
theorem restart_anywhere {S : Sim cfg} (hL : LstatN cfg NameK) {w : World} (hg : S.G w.fs)
    (hinfos : w.infos = []) (hsm : SmallView (S.view .base w.fs)) (steps : List Step)
    (hcov : CoveredHist cfg S w (opsOf steps)) : runOpsR cfg w steps = runOps cfg w (opsOf steps) :=
  runOpsR_eq hL hsm steps w (Inv.init hg hinfos) (by rw [hinfos]; exact AllN.nil) hcov

/-! ### symlinks as leaves -/

theorem valid_of_invL {S : L.LSim cfg} {v0 : View} {w : World} (hinv : L.Inv S v0 w) (hsm : SmallView v0)
    (hn : AllN NameK w.infos) : AllValid w.infos := by
  intro e he i hi
  obtain ⟨p, oi⟩ := e
  simp only at hi
  subst hi
  obtain ⟨k, hk, rfl⟩ := hinv.keys p _ he
  have hl := lookup_of_mem hinv.nodup he
  obtain ⟨n, hn0, hfor, _⟩ := hinv.saved k i hk hl
  obtain ⟨_, h2, h3, h4, _⟩ := hfor
  exact ⟨hn _ _ he k hk rfl, by rw [h2]; exact hinv.orig.mode hn0,
    by rw [h3]; exact (hsm k n hn0).1, by rw [h4]; exact (hsm k n hn0).2⟩

theorem runOpsR_eqL {S : L.LSim cfg} {v0 : View} (hL : LstatN cfg NameK) (hsm : SmallView v0) :
    ∀ (steps : List Step) (w : World), L.Inv S v0 w → AllN NameK w.infos →
      L.CoveredHist cfg S w (opsOf steps) → runOpsR cfg w steps = runOps cfg w (opsOf steps)
  | [], _, _, _, _ => rfl
  | .inl op :: rest, w, hi, hn, hc => by
    show runOpsR cfg (op.step cfg w) rest = runOps cfg (op.step cfg w) (opsOf rest)
    exact runOpsR_eqL hL hsm rest _ (L.op_keeps hi hc.1).inv (step_allN hL w op hn) hc.2
  | .inr () :: rest, w, hi, hn, hc => by
    show runOpsR cfg (restart w) rest = runOps cfg w (opsOf rest)
    rw [restart_id (valid_of_invL hi hsm hn)]
    exact runOpsR_eqL hL hsm rest w hi hn hc

theorem valid_after_historyL {S : L.LSim cfg} (hL : LstatN cfg NameK) {w : World} (hg : S.G w.fs)
    (hinfos : w.infos = []) (hbl : L.BackupLinksOK S w.fs) (hsm : SmallView (S.view .base w.fs))
    (ops : List Op) (hcov : L.CoveredHist cfg S w ops) : AllValid (runOps cfg w ops).infos :=
  valid_of_invL (L.history_keeps ops w (L.Inv.init hg hinfos hbl) hcov).inv hsm
    (runOps_allN hL ops w (by rw [hinfos]; exact AllN.nil))

theorem restart_anywhereL {S : L.LSim cfg} (hL : LstatN cfg NameK) {w : World} (hg : S.G w.fs)
    (hinfos : w.infos = []) (hbl : L.BackupLinksOK S w.fs) (hsm : SmallView (S.view .base w.fs))
    (steps : List Step) (hcov : L.CoveredHist cfg S w (opsOf steps)) :
    runOpsR cfg w steps = runOps cfg w (opsOf steps) :=
  runOpsR_eqL hL hsm steps w (L.Inv.init hg hinfos hbl) (by rw [hinfos]; exact AllN.nil) hcov

/-! ### the OS configuration -/

/-- base `Lstat` through `PrefixFS(kp bk)` names an absolute cleaned path by its `Base` -/
theorem lstatN_osK (bk kk : Key) (hbk : PKey bk) : LstatN (osCfg bk kk) NameK := by
  intro m p m' i h k hk hp
  subst hp
  rw [lstatN_os bk kk hbk m _ m' i h]
  exact lname_kp hbk hk

theorem ownersSmall_get {m : MFS} (hdom : ∀ k n, m.get k = some n → k ∈ m.dom)
    (hs : OwnersSmall m = true) {k : Key} {n : Node} (h : m.get k = some n) :
    n.meta.uid < 4294967296 ∧ n.meta.gid < 4294967296 := by
  unfold OwnersSmall at hs
  have := List.all_eq_true.mp hs k (hdom k n h)
  rw [h] at this
  simpa using this

theorem eraseMt_meta_owner (n : Node) : (eraseMt n).meta.uid = n.meta.uid ∧ (eraseMt n).meta.gid = n.meta.gid := by
  cases n <;> exact ⟨rfl, rfl⟩

theorem smallView_os {bk kk : Key} {m : MFS} (hg : OSGood bk kk m) (hs : OwnersSmall m = true) (s : Side) :
    SmallView (osView bk kk s m) := by
  intro k n h
  unfold osView at h
  cases hm : m.get (osRoot bk kk s ++ k) with
  | none => rw [hm] at h; cases h
  | some n0 =>
    rw [hm] at h
    simp only [Option.map_some, Option.some.injEq] at h
    subst h
    rw [(eraseMt_meta_owner n0).1, (eraseMt_meta_owner n0).2]
    exact ownersSmall_get hg.dom hs hm

theorem eraseV_meta_owner (pre : Path) (n : Node) :
    (L.eraseV pre n).meta.uid = n.meta.uid ∧ (L.eraseV pre n).meta.gid = n.meta.gid := by
  cases n <;> exact ⟨rfl, rfl⟩

theorem smallView_osL {bk kk : Key} {m : MFS} (hg : L.OSGoodL bk kk m) (hs : OwnersSmall m = true) (s : Side) :
    SmallView (L.osViewL bk kk s m) := by
  intro k n h
  unfold L.osViewL at h
  cases hm : m.get (osRoot bk kk s ++ k) with
  | none => rw [hm] at h; cases h
  | some n0 =>
    rw [hm] at h
    simp only [Option.map_some, Option.some.injEq] at h
    subst h
    rw [(eraseV_meta_owner _ n0).1, (eraseV_meta_owner _ n0).2]
    exact ownersSmall_get hg.dom hs hm

end J12
end BFS
