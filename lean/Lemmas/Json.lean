import Model.Json
namespace BFS

/-- the special and permission bits of a mode occupy less than 2^24 -/
def lowBits (perm : Nat) : Nat :=
  (perm / 2048 % 2) * 8388608 + (perm / 1024 % 2) * 4194304 + (perm / 512 % 2) * 1048576 + perm % 512

theorem lowBits_lt (perm : Nat) : lowBits perm < 16777216 := by
  unfold lowBits; omega

theorem goFileMode_eq (k : Kind) (perm : Nat) :
    goFileMode k perm = (match k with
      | .dir => 2147483648
      | .link => 134217728
      | .file => 0) + lowBits perm := by
  unfold goFileMode lowBits
  cases k <;> simp only <;> omega

theorem kindOfMode_goFileMode (k : Kind) (perm : Nat) (_h : perm < 4096) :
    kindOfMode (goFileMode k perm) = k := by
  rw [goFileMode_eq]
  have hl := lowBits_lt perm
  generalize lowBits perm = L at hl
  unfold kindOfMode
  cases k <;> simp only
  · -- file
    have h1 : (0 + L) / 2147483648 % 2 = 0 := by omega
    have h2 : (0 + L) / 134217728 % 2 = 0 := by omega
    rw [if_neg (by omega), if_neg (by omega)]
  · have h1 : (2147483648 + L) / 2147483648 % 2 = 1 := by omega
    rw [if_pos h1]
  · have h1 : (134217728 + L) / 2147483648 % 2 = 0 := by omega
    have h2 : (134217728 + L) / 134217728 % 2 = 1 := by omega
    rw [if_neg (by omega), if_pos h2]

theorem permOfMode_bits (t u g s l : Nat) (hu : u < 2) (hg : g < 2) (hs : s < 2) (hl : l < 512)
    (ht : t = 0 ∨ t = 134217728 ∨ t = 2147483648) :
    permOfMode (t + u * 8388608 + g * 4194304 + s * 1048576 + l) = l + 512 * s + 1024 * g + 2048 * u := by
  unfold permOfMode
  obtain rfl | rfl : u = 0 ∨ u = 1 := by omega
  all_goals obtain rfl | rfl : g = 0 ∨ g = 1 := by omega
  all_goals obtain rfl | rfl : s = 0 ∨ s = 1 := by omega
  all_goals rcases ht with rfl | rfl | rfl
  all_goals omega

theorem permOfMode_goFileMode (k : Kind) (perm : Nat) (h : perm < 4096) :
    permOfMode (goFileMode k perm) = perm := by
  unfold goFileMode
  cases k <;> simp only
  · rw [permOfMode_bits 0 _ _ _ _ (by omega) (by omega) (by omega) (by omega) (by simp)]; omega
  · rw [permOfMode_bits 2147483648 _ _ _ _ (by omega) (by omega) (by omega) (by omega) (by simp)]; omega
  · rw [permOfMode_bits 134217728 _ _ _ _ (by omega) (by omega) (by omega) (by omega) (by simp)]; omega

theorem modTimeNs_id (ns : Int) : modTimeNs ns = ns := by
  unfold modTimeNs
  have := Int.mul_tdiv_add_tmod ns 1000000000
  omega

theorem viaUint32_id (v : Int) (h0 : 0 ≤ v) (h1 : v < 4294967296) : viaUint32 v = v := by
  unfold viaUint32
  exact Int.emod_eq_of_lt h0 h1

/-- an entry as `Lstat` through the layers produces it -/
structure Info.Valid (p : Path) (i : Info) : Prop where
  name : i.name = base p
  perm : i.perm < 4096
  uid : i.uid < 4294967296
  gid : i.gid < 4294967296

theorem reloadEntry_id (p : Path) (i : Info) (h : i.Valid p) :
    reloadEntry (p, some i) = (p, some i) := by
  unfold reloadEntry ofFInfo toFInfo
  simp only [Option.map_some, Prod.mk.injEq, Option.some.injEq, true_and]
  rcases i with ⟨name, size, kind, perm, mtime, uid, gid⟩
  have hn := h.name; have hp := h.perm; have hu := h.uid; have hg := h.gid
  simp only at hn hp hu hg
  simp only [kindOfMode_goFileMode _ _ hp, permOfMode_goFileMode _ _ hp, modTimeNs_id]
  congr
  · exact hn.symm
  · cases mtime <;> simp [nsOf]
  · rw [viaUint32_id _ (by omega) (by omega)]; simp
  · rw [viaUint32_id _ (by omega) (by omega)]; simp

end BFS
