import Lemmas.DTame
/-!
  Lemmas/DTame2.lean — one OS call with names at/below `pk` on a tame disk: the result is tame again
  (unless a `symlink` call stores an untame target) and `pk` with its ancestors are still directories
  (unless `pk` itself was removed).
-/
namespace BFS
namespace D
open MFS

section
variable {pk : Key}

/-- a directory at `K` stays a directory or disappears -/
def DK (m m' : MFS) (K : Key) : Prop :=
  ∀ mt, m.get K = some (.dir mt) → m'.get K = none ∨ ∃ mt', m'.get K = some (.dir mt')

theorem DK.refl (m : MFS) (K : Key) : DK m m K := fun mt h => Or.inr ⟨mt, h⟩

theorem dk_metaOp {m : MFS} {K : Key} {t : Path} {follow : Bool} {f : Node → Node}
    (hf : ∀ mt, ∃ mt', f (.dir mt) = .dir mt') (h : NC m K (namei m t follow)) :
    DK m (metaOp m t follow f).1 K := by
  unfold metaOp
  rcases h with ⟨n, hn, hr⟩ | ⟨hne, mt, hn, hp, hr⟩ | ⟨e, hr⟩
  · rw [hr]
    intro mt hd
    rw [hn] at hd
    cases hd
    obtain ⟨mt', e⟩ := hf mt
    right
    exact ⟨mt', by show (m.set K _).get K = _; rw [set_get_self, e]⟩
  · rw [hr]; exact DK.refl _ _
  · rw [hr]; exact DK.refl _ _

theorem dk_chmod {m : MFS} {K : Key} {t : Path} (mode : Nat) (h : NC m K (namei m t true)) :
    DK m (m.chmod t mode).1 K := by
  rw [mfs_chmod_eq]; exact dk_metaOp (fun mt => ⟨_, rfl⟩) h

theorem dk_chown {m : MFS} {K : Key} {t : Path} (u g : Int) (h : NC m K (namei m t true)) :
    DK m (m.chown t u g).1 K := by
  rw [mfs_chown_eq]; exact dk_metaOp (fun mt => ⟨_, rfl⟩) h

theorem dk_lchown {m : MFS} {K : Key} {t : Path} (u g : Int) (h : NC m K (namei m t false)) :
    DK m (m.lchown t u g).1 K := by
  rw [mfs_lchown_eq]; exact dk_metaOp (fun mt => ⟨_, rfl⟩) h

theorem dk_chtimes {m : MFS} {K : Key} {t : Path} (mt : Time) (h : NC m K (namei m t true)) :
    DK m (m.chtimes t mt).1 K := by
  rw [mfs_chtimes_eq]; exact dk_metaOp (fun mt => ⟨_, rfl⟩) h

theorem dk_mkdir {m : MFS} {K : Key} {t : Path} (perm : Nat) (h : NC m K (namei m t false)) :
    DK m (m.mkdir t perm).1 K := by
  unfold MFS.mkdir
  rcases h with ⟨n, hn, hr⟩ | ⟨hne, mt, hn, hp, hr⟩ | ⟨e, hr⟩
  · rw [hr]; exact DK.refl _ _
  · intro mt' hd; rw [hn] at hd; cases hd
  · rw [hr]; exact DK.refl _ _

theorem dk_symlink {m : MFS} {K : Key} {t : Path} (o : Path) (h : NC m K (namei m t false)) :
    DK m (m.symlink o t).1 K := by
  unfold MFS.symlink
  split
  · exact DK.refl _ _
  rcases h with ⟨n, hn, hr⟩ | ⟨hne, mt, hn, hp, hr⟩ | ⟨e, hr⟩
  · rw [hr]; exact DK.refl _ _
  · intro mt' hd; rw [hn] at hd; cases hd
  · rw [hr]; exact DK.refl _ _

theorem dk_openFile {m : MFS} {K : Key} {t : Path} (flag perm : Nat)
    (h : NC m K (namei m t (!(hasFlag flag O_CREATE && hasFlag flag O_EXCL)))) :
    DK m (m.openFile t flag perm).1 K := by
  intro mt0 hd
  unfold MFS.openFile
  simp only
  rcases h with ⟨n, hn, hr⟩ | ⟨hne, mt, hn, hp, hr⟩ | ⟨e, hr⟩
  · rw [hn] at hd
    cases hd
    rw [hr]
    simp only
    right
    split
    · exact ⟨mt0, hn⟩
    · split <;> exact ⟨mt0, hn⟩
  · rw [hn] at hd; cases hd
  · rw [hr]; exact Or.inr ⟨mt0, hd⟩

theorem dk_remove {m : MFS} {K : Key} {t : Path} (h : NC m K (namei m t false)) :
    DK m (m.remove t).1 K := by
  intro mt0 hd
  unfold MFS.remove
  rcases h with ⟨n, hn, hr⟩ | ⟨hne, mt, hn, hp, hr⟩ | ⟨e, hr⟩
  · rw [hn] at hd
    cases hd
    rw [hr]
    simp only
    split
    · exact Or.inr ⟨mt0, hn⟩
    · rename_i hne
      split
      · exact Or.inr ⟨mt0, hn⟩
      · left
        show ((m.set K none).touchDir K.dropLast).get K = none
        rw [touchDir_get_ne _ (Ne.symm (dropLast_ne_self hne)), set_get_self]
  · rw [hn] at hd; cases hd
  · rw [hr]; exact Or.inr ⟨mt0, hd⟩

theorem dk_removeAll {m : MFS} {K : Key} {t : Path} (h : NC m K (namei m t false)) :
    DK m (m.removeAll t).1 K := by
  intro mt0 hd
  unfold MFS.removeAll
  split
  · exact Or.inr ⟨mt0, hd⟩
  split
  · exact Or.inr ⟨mt0, hd⟩
  rcases h with ⟨n, hn, hr⟩ | ⟨hne, mt, hn, hp, hr⟩ | ⟨e, hr⟩
  · rw [hr]
    simp only
    split
    · exact Or.inr ⟨mt0, hd⟩
    · rename_i hne
      left
      show ((m.removeSubtree K).touchDir K.dropLast).get K = none
      rw [touchDir_get_ne _ (Ne.symm (dropLast_ne_self hne))]
      exact removeSubtree_get_under m List.prefix_rfl
  · rw [hn] at hd; cases hd
  · rw [hr]
    cases e <;> exact Or.inr ⟨mt0, hd⟩

/-- the directory `pk` is still a directory after a change `At` a key below it, if it is still there -/
theorem pk_dir_of_at {m m' : MFS} {K : Key} (hK : pk <+: K) (hd : ∃ mt, m.get pk = some (.dir mt))
    (ha : At m m' K) (hk : DK m m' K) (hlive : (m'.get pk).isSome) : ∃ mt, m'.get pk = some (.dir mt) := by
  obtain ⟨mt, hm⟩ := hd
  by_cases he : K = pk
  · subst he
    rcases hk mt hm with h | h
    · rw [h] at hlive; cases hlive
    · exact h
  · have hne : pk ≠ K := Ne.symm he
    by_cases hpar : pk = K.dropLast
    · have hKne : K ≠ [] := by
        intro e
        apply he
        rw [e] at hK
        exact (List.prefix_nil.mp hK).symm ▸ e
      have := (ha.par hKne).dir
      rw [← hpar] at this
      exact this.mpr ⟨mt, hm⟩
    · exact ⟨mt, by rw [ha.other pk hne hpar]; exact hm⟩

theorem pk_dir_of_belowK {m m' : MFS} {K : Key} (hK : pk <+: K) (hd : ∃ mt, m.get pk = some (.dir mt))
    (ha : BelowK m m' K) (hk : DK m m' K) (hlive : (m'.get pk).isSome) : ∃ mt, m'.get pk = some (.dir mt) := by
  obtain ⟨mt, hm⟩ := hd
  by_cases he : K = pk
  · subst he
    rcases hk mt hm with h | h
    · rw [h] at hlive; cases hlive
    · exact h
  · have hnb : ¬ K <+: pk := by
      intro e
      exact he (List.IsPrefix.eq_of_length_le e hK.length_le)
    by_cases hpar : pk = K.dropLast
    · have hKne : K ≠ [] := by
        intro e
        apply he
        rw [e] at hK
        exact (List.prefix_nil.mp hK).symm ▸ e
      have := (ha.par hKne).dir
      rw [← hpar] at this
      exact this.mpr ⟨mt, hm⟩
    · exact ⟨mt, by rw [ha.other pk hnb hpar]; exact hm⟩

/-- one OS call: `pk` and its ancestors are still directories if `pk` is still there -/
theorem osCall_prefDirs {m : MFS} (hpk : PKey pk) (hd : PrefDirs pk m) (ht : Tame pk m) {c c' : Call}
    (hk : KeyCall pk c c') (hlive : ((osCall m c').1.get pk).isSome) : PrefDirs pk (osCall m c').1 := by
  have hconf := osCall_confinedL hpk hd ht hk
  have R : ∀ {x : Key}, PKey x → ∀ f, ∃ K, pk <+: K ∧ NC m K (namei m (kp (pk ++ x)) f) :=
    fun hx f => namei_inside hpk hd ht hx (TextOf.kp _) f
  have hdir := prefDirs_live hd
  -- the proper ancestors are outside `pk`: unchanged
  have hanc : (∃ mt, (osCall m c').1.get pk = some (.dir mt)) → PrefDirs pk (osCall m c').1 := by
    intro hp p hpre
    by_cases he : p = pk
    · rw [he]; exact hp
    · have hout : ¬ pk <+: p := fun e => he (List.IsPrefix.eq_of_length_le hpre e.length_le)
      rw [hconf.same hlive p hout]
      exact hd p hpre
  cases hk with
  | create n x hx _ =>
    obtain ⟨K, hK, hN⟩ := R hx _
    exact hanc (pk_dir_of_at hK hdir (at_openFile _ _ hN) (dk_openFile _ _ hN) hlive)
  | mkdir n p x hx _ =>
    obtain ⟨K, hK, hN⟩ := R hx _
    exact hanc (pk_dir_of_at hK hdir (at_mkdir _ hN) (dk_mkdir _ hN) hlive)
  | mkdirAll n p x hx _ =>
    exact (mkdirAll_inside hpk p _ x _ m _ _ hd ht hx (TextOf.kp _) rfl).1
  | open_ n x hx _ =>
    obtain ⟨K, hK, hN⟩ := R hx _
    exact hanc (pk_dir_of_at hK hdir (at_openFile _ _ hN) (dk_openFile _ _ hN) hlive)
  | openFile n f p x hx _ =>
    obtain ⟨K, hK, hN⟩ := R hx _
    exact hanc (pk_dir_of_at hK hdir (at_openFile _ _ hN) (dk_openFile _ _ hN) hlive)
  | remove n x hx _ =>
    obtain ⟨K, hK, hN⟩ := R hx _
    exact hanc (pk_dir_of_at hK hdir (at_remove hN) (dk_remove hN) hlive)
  | removeAll n x hx _ =>
    obtain ⟨K, hK, hN⟩ := R hx _
    exact hanc (pk_dir_of_belowK hK hdir (belowK_removeAll hN) (dk_removeAll hN) hlive)
  | rename o n x y hx hy _ _ =>
    obtain ⟨Ko, hKo, hNo⟩ := R hx false
    obtain ⟨Kn, hKn, hNn⟩ := R hy false
    apply hanc
    show ∃ mt, (m.rename _ _).1.get pk = some (.dir mt)
    rcases rename_frame hNo hNn with h | h
    · rw [h]; exact hdir
    · have h1 : ¬ Ko <+: pk := by
        intro e
        exact h.apart (e.trans hKn)
      have h2 : ¬ Kn <+: pk := by
        intro e
        have : Kn = pk := List.IsPrefix.eq_of_length_le e hKn.length_le
        obtain ⟨mt, hdd⟩ := hdir
        exact h.tgt mt (this ▸ hdd)
      exact (h.stamp pk h1 h2).dir.mpr hdir
  | stat n x hx _ => exact hd
  | chmod n md x hx _ =>
    obtain ⟨K, hK, hN⟩ := R hx _
    exact hanc (pk_dir_of_at hK hdir (at_chmod _ hN) (dk_chmod _ hN) hlive)
  | chown n u g x hx _ =>
    obtain ⟨K, hK, hN⟩ := R hx _
    exact hanc (pk_dir_of_at hK hdir (at_chown _ _ hN) (dk_chown _ _ hN) hlive)
  | chtimes n a t x hx _ =>
    obtain ⟨K, hK, hN⟩ := R hx _
    exact hanc (pk_dir_of_at hK hdir (at_chtimes _ hN) (dk_chtimes _ hN) hlive)
  | lstat n x hx _ => exact hd
  | symlink o n o' x hx _ =>
    obtain ⟨K, hK, hN⟩ := R hx _
    exact hanc (pk_dir_of_at hK hdir (at_symlink _ hN) (dk_symlink _ hN) hlive)
  | readlink n x hx _ => exact hd
  | lchown n u g x hx _ =>
    obtain ⟨K, hK, hN⟩ := R hx _
    exact hanc (pk_dir_of_at hK hdir (at_lchown _ _ hN) (dk_lchown _ _ hN) hlive)

/-- one OS call keeps the disk tame, provided a `symlink` call stores a tame target -/
theorem osCall_tame {m : MFS} (hpk : PKey pk) (hd : PrefDirs pk m) (ht : Tame pk m) {c c' : Call}
    (hk : KeyCall pk c c') (hsym : ∀ o' n', c' = .symlink o' n' → TameTarget pk o') :
    Tame pk (osCall m c').1 := by
  have R : ∀ {x : Key}, PKey x → ∀ f, ∃ K, pk <+: K ∧ NC m K (namei m (kp (pk ++ x)) f) :=
    fun hx f => namei_inside hpk hd ht hx (TextOf.kp _) f
  have F : ∀ {m' : MFS}, LinksFrom pk m m' (fun _ => False) → Tame pk m' :=
    fun h => tame_of_linksFrom ht h (fun _ hf => hf.elim)
  cases hk with
  | create n x hx _ => obtain ⟨K, hK, hN⟩ := R hx _; exact F (lf_openFile _ _ hN)
  | mkdir n p x hx _ => obtain ⟨K, hK, hN⟩ := R hx _; exact F (lf_dirExt (mkdir_dirExt _ hN))
  | mkdirAll n p x hx _ => exact (mkdirAll_inside hpk p _ x _ m _ _ hd ht hx (TextOf.kp _) rfl).2.1
  | open_ n x hx _ => obtain ⟨K, hK, hN⟩ := R hx _; exact F (lf_openFile _ _ hN)
  | openFile n f p x hx _ => obtain ⟨K, hK, hN⟩ := R hx _; exact F (lf_openFile _ _ hN)
  | remove n x hx _ => obtain ⟨K, hK, hN⟩ := R hx _; exact F (lf_remove hN)
  | removeAll n x hx _ => obtain ⟨K, hK, hN⟩ := R hx _; exact F (lf_removeAll hN)
  | rename o n x y hx hy _ _ =>
    obtain ⟨Ko, hKo, hNo⟩ := R hx false
    obtain ⟨Kn, hKn, hNn⟩ := R hy false
    exact F (lf_rename hKo hNo hNn)
  | stat n x hx _ => exact ht
  | chmod n md x hx _ => obtain ⟨K, hK, hN⟩ := R hx _; exact F (lf_chmod _ hK hN)
  | chown n u g x hx _ => obtain ⟨K, hK, hN⟩ := R hx _; exact F (lf_chown _ _ hK hN)
  | chtimes n a t x hx _ => obtain ⟨K, hK, hN⟩ := R hx _; exact F (lf_chtimes _ hK hN)
  | lstat n x hx _ => exact ht
  | symlink o n o' x hx _ =>
    obtain ⟨K, hK, hN⟩ := R hx _
    exact tame_of_linksFrom ht (lf_symlink o' hN) (fun t e => e ▸ hsym o' _ rfl)
  | readlink n x hx _ => exact ht
  | lchown n u g x hx _ => obtain ⟨K, hK, hN⟩ := R hx _; exact F (lf_lchown _ _ hK hN)

end
end D
end BFS
